import Robust.Irc.Proofs.FrmEntry
import Robust.Irc.Proofs.ChanLimitSrv
/-!
The session limit (`Config.MaxSessions`).

`SessLe st0 st`: relative to a base state `st0` the configured session limit is unchanged and the number
of stored sessions did not grow (plus `SessWf st`, which makes `modS`/`putS` length-preserving).  Every
handler of the command table except the services `NICK` keeps `SessLe`; the services `NICK` and
CreateSession entries go through `createSession`, which refuses at the limit (`SessLim`).  The walks are
those of `FrmClient.lean` / `FrmSrv.lean` (the `SessWf` part is taken from the `Frm` closure lemmas).
-/
namespace Robust.Irc
open Srv
open Robust AMap

/-- relative to the base state `st0`: the session limit is unchanged and the number of sessions did
not grow; sessions are stored under their own id, without duplicate keys -/
structure SessLe (st0 st : St) : Prop where
  wf : SessWf st
  maxSessions : st.config.maxSessions = st0.config.maxSessions
  le : st.sessions.length ≤ st0.sessions.length

/-- with a limit the number of sessions is at most the larger of the base number and the limit -/
structure SessLim (st0 st : St) : Prop where
  wf : SessWf st
  maxSessions : st.config.maxSessions = st0.config.maxSessions
  le : 0 < st0.config.maxSessions → st.sessions.length ≤ max st0.sessions.length st0.config.maxSessions

theorem SessLe.refl {st : St} (h : SessWf st) : SessLe st st := ⟨h, rfl, Nat.le_refl _⟩

theorem SessLe.trans {a b c : St} (h1 : SessLe a b) (h2 : SessLe b c) : SessLe a c :=
  ⟨h2.wf, h2.maxSessions.trans h1.maxSessions, Nat.le_trans h2.le h1.le⟩

theorem SessLe.lim {st0 st : St} (h : SessLe st0 st) : SessLim st0 st :=
  ⟨h.wf, h.maxSessions, fun _ => Nat.le_trans h.le (Nat.le_max_left _ _)⟩

theorem SessLe.then_lim {a b c : St} (h1 : SessLe a b) (h2 : SessLim b c) : SessLim a c := by
  refine ⟨h2.wf, h2.maxSessions.trans h1.maxSessions, fun h => ?_⟩
  have h3 := h2.le (by rw [h1.maxSessions]; exact h)
  rw [h1.maxSessions] at h3
  have := h1.le
  omega

theorem SessLim.then_le {a b c : St} (h1 : SessLim a b) (h2 : SessLe b c) : SessLim a c :=
  ⟨h2.wf, h2.maxSessions.trans h1.maxSessions, fun h => Nat.le_trans h2.le (h1.le h)⟩

/-- the current state only matters through `sessions` and the limit -/
theorem SessLe.same {st0 st st' : St} (h : SessLe st0 st) (hs : st'.sessions = st.sessions)
    (hc : st'.config.maxSessions = st.config.maxSessions) : SessLe st0 st' :=
  ⟨h.wf.congr hs, hc.trans h.maxSessions, by rw [hs]; exact h.le⟩

theorem SessLe.congr {st0 st st' : St} (h : SessLe st0 st) (hs : st'.sessions = st.sessions)
    (hc : st'.config = st.config) (_hl : st'.lastProcessed = st.lastProcessed) : SessLe st0 st' :=
  h.same hs (by rw [hc])

theorem SessLe.emit {st0 : St} {c : Ctx} (h : SessLe st0 c.st) (m : IrcMsg) (r : List Nat) :
    SessLe st0 (emit c m r).st := h
theorem SessLe.sendUser {st0 : St} {c : Ctx} (h : SessLe st0 c.st) (sid : Id) (m : IrcMsg) :
    SessLe st0 (sendUser c sid m).st := h
theorem SessLe.sendSvc {st0 : St} {c : Ctx} (h : SessLe st0 c.st) (m : IrcMsg) : SessLe st0 (sendSvc c m).st := h
theorem SessLe.putChan {st0 : St} {c : Ctx} (h : SessLe st0 c.st) (lc : String) (ch : Channel) :
    SessLe st0 (putChan c lc ch).st := h.same rfl rfl

theorem SessLe.of_emits {st0 : St} {c c' : Ctx} (h : SessLe st0 c.st) (he : Robust.Irc.Emits c c') :
    SessLe st0 c'.st := by
  rw [he.st]; exact h

theorem SessLe.emits {st0 : St} {c c' : Ctx} (h : SessLe st0 c.st) (he : Srv.Emits c c') : SessLe st0 c'.st := by
  rw [he.st]; exact h

theorem SessLe.modS_keep {st0 : St} {c c' : Ctx} {tid : Id} {f : Session → Session} (h : SessLe st0 c.st)
    (hr : Robust.Irc.modS c tid f = Res.ok c') (hf : MkKeep f) : SessLe st0 c'.st := by
  refine ⟨((Frm.refl h.wf).modS_keep hr hf).wf, ?_, ?_⟩
  · rw [(chanLim_modS_st hr).2]; exact h.maxSessions
  · rw [chanLim_modS_sessions hr (fun s hs => (hf s).1.trans (h.wf.ids tid s hs))]; exact h.le

theorem chanLim_maybeDeleteChannel_sess (c : Ctx) (lc : String) :
    (maybeDeleteChannel c lc).st.config = c.st.config ∧
    (maybeDeleteChannel c lc).st.sessions.length = c.st.sessions.length := by
  unfold Robust.Irc.maybeDeleteChannel
  split
  · exact ⟨rfl, rfl⟩
  · split
    · exact ⟨rfl, rfl⟩
    · exact ⟨rfl, List.length_map _⟩

theorem SessLe.maybeDeleteChannel {st0 : St} {c : Ctx} (h : SessLe st0 c.st) (lc : String) :
    SessLe st0 (maybeDeleteChannel c lc).st := by
  obtain ⟨hc, hl⟩ := chanLim_maybeDeleteChannel_sess c lc
  exact ⟨((Frm.refl h.wf).maybeDeleteChannel lc).wf, by rw [hc]; exact h.maxSessions, by rw [hl]; exact h.le⟩

theorem SessLe.leaveChannel {st0 : St} {c c' : Ctx} {lc lcn : String} {tid : Id} (h : SessLe st0 c.st)
    (hr : leaveChannel c lc lcn tid = Res.ok c') : SessLe st0 c'.st := by
  unfold Robust.Irc.leaveChannel at hr
  split at hr
  · rename_i ch hch
    exact ((h.putChan lc { ch with nicks := AMap.erase ch.nicks lcn }).maybeDeleteChannel lc).modS_keep hr
      fun _ => ⟨rfl, rfl⟩
  · cases hr

theorem SessLe.foldl {st0 : St} {α : Type} {f : Ctx → α → Ctx}
    (hf : ∀ c a, SessLe st0 c.st → SessLe st0 (f c a).st) :
    ∀ (l : List α) (c : Ctx), SessLe st0 c.st → SessLe st0 (l.foldl f c).st
  | [], _, h => h
  | a :: t, c, h => SessLe.foldl hf t (f c a) (hf c a h)

theorem SessLe.foldlM {st0 : St} {α : Type} {f : Ctx → α → Res Ctx}
    (hf : ∀ c a c', SessLe st0 c.st → f c a = .ok c' → SessLe st0 c'.st) :
    ∀ (l : List α) {c c' : Ctx}, SessLe st0 c.st → l.foldlM f c = .ok c' → SessLe st0 c'.st
  | [], c, c', h, hr => by cases hr; exact h
  | a :: l, c, c', h, hr => by
    rw [List.foldlM_cons] at hr
    obtain ⟨c1, h1, hr⟩ := Res.bind_eq_ok.1 hr
    exact SessLe.foldlM hf l (hf c a c1 h h1) hr

theorem SessLe.deleteSession {st0 : St} {c c' : Ctx} {sid : Id} (h : SessLe st0 c.st)
    (hr : deleteSession c sid = Res.ok c') : SessLe st0 c'.st := by
  unfold Robust.Irc.deleteSession at hr
  obtain ⟨s, _, hr⟩ := Res.bind_eq_ok.1 hr
  dsimp only at hr
  refine SessLe.modS_keep ?_ hr (fun _ => ⟨rfl, rfl⟩)
  refine SessLe.congr (st := (c.st.channels.foldl _ c).st) ?_ rfl rfl rfl
  refine SessLe.foldl ?_ _ _ h
  intro c1 e h1
  split
  · exact h1
  · rename_i ch hch
    exact (h1.putChan e.1 { ch with nicks := AMap.erase ch.nicks (nickToLower s.nick) }).maybeDeleteChannel _

/-- a handler keeps `SessLe` relative to an arbitrary base state -/
def SessLePres (h : Ctx → Id → IrcMsg → Res Ctx) : Prop :=
  ∀ st0 c sid m c', SessLe st0 c.st → h c sid m = .ok c' → SessLe st0 c'.st

theorem SessLePres.of_plain {h : Ctx → Id → IrcMsg → Res Ctx}
    (H : ∀ {st0 : St} {c c' : Ctx} {sid : Id} {m : IrcMsg}, SessLe st0 c.st → h c sid m = .ok c' → SessLe st0 c'.st) :
    SessLePres h :=
  fun _ _ _ _ _ hp hr => H hp hr

theorem SessLePres.of_emits {h : Ctx → Id → IrcMsg → Res Ctx}
    (hi : ∀ c sid m c', h c sid m = Res.ok c' → Robust.Irc.Emits c c') : SessLePres h :=
  fun _ c sid m c' hp hr => hp.of_emits (hi c sid m c' hr)

theorem cmdNames_sle {st0 : St} {c c' : Ctx} {sid : Id} {m : IrcMsg} (h : SessLe st0 c.st)
    (hr : cmdNames c sid m = .ok c') : SessLe st0 c'.st := h.of_emits (Robust.Irc.cmdNames_emits hr)

/-! ## client handlers -/

/-- brute-force walk through a handler whose leaves are output / `putChan` on top of a context `c`
with `h : SessLe st0 c.st`: `sle_auto hr h` -/
macro "sle_auto" hr:ident h:ident : tactic =>
  `(tactic| repeat' (first
      | split at $hr:ident
      | (obtain ⟨_, _, $hr:ident⟩ := Res.bind_eq_ok.1 $hr:ident)
      | dsimp only at $hr:ident
      | (cases $hr:ident <;> first | exact $h:ident | exact SessLe.congr $h:ident rfl rfl rfl)))

/-! ### AWAY / INVITE / TOPIC / MODE -/

theorem cmdAway_sle {st0 : St} {c c' : Ctx} {sid : Id} {m : IrcMsg} (h : SessLe st0 c.st) (hr : cmdAway c sid m = .ok c') :
    SessLe st0 c'.st := by
  unfold cmdAway at hr
  obtain ⟨c1, h1, hr⟩ := Res.bind_eq_ok.1 hr
  obtain ⟨s, hs, hr⟩ := Res.bind_eq_ok.1 hr
  have p1 : SessLe st0 c1.st := h.modS_keep h1 (fun _ => ⟨rfl, rfl⟩)
  split at hr <;> (cases hr; exact p1)


theorem cmdInvite_sle {st0 : St} {c c' : Ctx} {sid : Id} {m : IrcMsg} (h : SessLe st0 c.st) (hr : cmdInvite c sid m = .ok c') :
    SessLe st0 c'.st := by
  unfold cmdInvite at hr
  obtain ⟨s, hs, hr⟩ := Res.bind_eq_ok.1 hr
  obtain ⟨nickname, _, hr⟩ := Res.bind_eq_ok.1 hr
  obtain ⟨channelname, _, hr⟩ := Res.bind_eq_ok.1 hr
  dsimp only at hr
  split at hr
  · cases hr; exact h
  split at hr
  · cases hr; exact h
  split at hr
  · cases hr; exact h
  obtain ⟨t, ht, hr⟩ := Res.bind_eq_ok.1 hr
  split at hr
  · cases hr; exact h
  split at hr
  · cases hr; exact h
  obtain ⟨c1, h1, hr⟩ := Res.bind_eq_ok.1 hr
  have p1 : SessLe st0 c1.st := h.modS_keep h1 (fun _ => ⟨rfl, rfl⟩)
  obtain ⟨rc, _, hr⟩ := Res.bind_eq_ok.1 hr
  split at hr <;> (cases hr; exact p1)


theorem cmdTopic_sle {st0 : St} {c c' : Ctx} {sid : Id} {m : IrcMsg} (h : SessLe st0 c.st) (hr : cmdTopic c sid m = .ok c') :
    SessLe st0 c'.st := by
  unfold cmdTopic at hr
  simp only [getChan_eq] at hr
  sle_auto hr h


theorem applyChanMode_sle {st0 : St} {c c' : Ctx} {sid : Id} {s : Session} {lc chn : String} {op q q' ret : Bool}
    {mc : ModeCmd} (h : SessLe st0 c.st) (hr : applyChanMode c sid s lc chn op mc q = .ok (c', q', ret)) :
    SessLe st0 c'.st := by
  unfold applyChanMode at hr
  simp only [getChan_eq] at hr
  split at hr
  · rename_i ch hch
    split at hr
    · sle_auto hr h
    · cases hr
      refine SessLe.sendUser ?_ _ _
      exact SessLe.foldl (fun c1 p h1 => h1.sendUser _ _) _ _ h
  · cases hr

theorem applyChanModes_sle {st0 : St} {sid : Id} {s : Session} {lc chn : String} {op : Bool} :
    ∀ (l : List ModeCmd) {c c' : Ctx} {q q' ret : Bool}, SessLe st0 c.st →
      applyChanModes c sid s lc chn op l q = .ok (c', q', ret) → SessLe st0 c'.st
  | [], c, c', q, q', ret, h, hr => by
    unfold applyChanModes at hr
    cases hr; exact h
  | mc :: rest, c, c', q, q', ret, h, hr => by
    unfold applyChanModes at hr
    obtain ⟨⟨c1, q1, r1⟩, h1, hr⟩ := Res.bind_eq_ok.1 hr
    have p1 := applyChanMode_sle h h1
    dsimp only at hr
    split at hr
    · cases hr; exact p1
    · exact applyChanModes_sle rest p1 hr

theorem cmdMode_sle {st0 : St} {c c' : Ctx} {sid : Id} {m : IrcMsg} (h : SessLe st0 c.st) (hr : cmdMode c sid m = .ok c') :
    SessLe st0 c'.st := by
  unfold cmdMode at hr
  simp only [getChan_eq, Res.panic_bind] at hr
  obtain ⟨s, hs, hr⟩ := Res.bind_eq_ok.1 hr
  obtain ⟨chn, _, hr⟩ := Res.bind_eq_ok.1 hr
  split at hr
  · -- channel modes
    split at hr
    · rename_i ch hch
      split at hr
      · cases hr; exact h
      · split at hr
        · rename_i mem hmem
          obtain ⟨⟨c1, q1, r1⟩, h1, hr⟩ := Res.bind_eq_ok.1 hr
          have p1 := applyChanModes_sle _ h h1
          dsimp only at hr
          split at hr
          · cases hr; exact p1
          split at hr
          · cases hr; exact p1
          split at hr
          · cases hr; exact p1
          split at hr
          · obtain ⟨rc, _, hr⟩ := Res.bind_eq_ok.1 hr
            cases hr; exact p1
          · cases hr
        · cases hr
    · cases hr
  · -- user modes
    split at hr
    · obtain ⟨t, ht, hr⟩ := Res.bind_eq_ok.1 hr
      split at hr
      · cases hr; exact h
      · split at hr
        · cases hr; exact h
        · obtain ⟨c1, h1, hr⟩ := Res.bind_eq_ok.1 hr
          have p1 : SessLe st0 c1.st := h.modS_keep h1 (fun _ => ⟨rfl, rfl⟩)
          cases hr
          exact p1
    · cases hr; exact h


/-! ### login, OPER, MOTD, USER, PASS -/

theorem cmdMotd_sle {st0 : St} {c c' : Ctx} {sid : Id} {m : IrcMsg} (h : SessLe st0 c.st) (hr : cmdMotd c sid m = .ok c') :
    SessLe st0 c'.st := by
  unfold cmdMotd at hr
  obtain ⟨s, _, hr⟩ := Res.bind_eq_ok.1 hr
  cases hr; exact h


theorem cmdOper_sle {st0 : St} {c c' : Ctx} {sid : Id} {m : IrcMsg} (h : SessLe st0 c.st) (hr : cmdOper c sid m = .ok c') :
    SessLe st0 c'.st := by
  unfold cmdOper at hr
  obtain ⟨s, hs, hr⟩ := Res.bind_eq_ok.1 hr
  obtain ⟨p0, hp0, hr⟩ := Res.bind_eq_ok.1 hr
  obtain ⟨p1, hp1, hr⟩ := Res.bind_eq_ok.1 hr
  split at hr
  · cases hr; exact h
  · obtain ⟨c1, h1, hr⟩ := Res.bind_eq_ok.1 hr
    obtain ⟨s1, hs1, hr⟩ := Res.bind_eq_ok.1 hr
    have n1 : SessLe st0 c1.st := h.modS_keep h1 (fun _ => ⟨rfl, rfl⟩)
    cases hr
    exact n1


theorem loginOper_sle {st0 : St} {c c' : Ctx} {sid : Id} {s : Session} (h : SessLe st0 c.st) (hr : loginOper c sid s = .ok c') :
    SessLe st0 c'.st := by
  unfold loginOper at hr
  dsimp only at hr
  split at hr
  · split at hr
    · cases hr
    · split at hr
      · exact cmdOper_sle h hr
      · cases hr; exact h
  · cases hr; exact h

theorem maybeLogin_sle {st0 : St} {c c' : Ctx} {sid : Id} {m : IrcMsg} (h : SessLe st0 c.st) (hr : maybeLogin c sid m = .ok c') :
    SessLe st0 c'.st := by
  rw [maybeLogin_eq] at hr
  obtain ⟨s, hs, hr⟩ := Res.bind_eq_ok.1 hr
  split at hr
  · cases hr; exact h
  · split at hr
    · cases hr; exact h
    · split at hr
      · cases hr
      · obtain ⟨c1, h1, hr⟩ := Res.bind_eq_ok.1 hr
        obtain ⟨c2, h2, hr⟩ := Res.bind_eq_ok.1 hr
        obtain ⟨c3, h3, hr⟩ := Res.bind_eq_ok.1 hr
        have n1 : SessLe st0 c1.st := h.modS_keep h1 (fun _ => ⟨rfl, rfl⟩)
        have n2 : SessLe st0 c2.st := loginOper_sle (by rw [loginBanner_st]; exact n1) h2
        have n3 : SessLe st0 c3.st := n2.modS_keep h3 (fun _ => ⟨rfl, rfl⟩)
        exact cmdMotd_sle n3 hr

theorem cmdUser_sle {st0 : St} {c c' : Ctx} {sid : Id} {m : IrcMsg} (h : SessLe st0 c.st) (hr : cmdUser c sid m = .ok c') :
    SessLe st0 c'.st := by
  unfold cmdUser at hr
  obtain ⟨u, hu, hr⟩ := Res.bind_eq_ok.1 hr
  obtain ⟨c1, h1, hr⟩ := Res.bind_eq_ok.1 hr
  exact maybeLogin_sle (h.modS_keep h1 (fun _ => ⟨rfl, rfl⟩)) hr


theorem cmdPass_sle {st0 : St} {c c' : Ctx} {sid : Id} {m : IrcMsg} (h : SessLe st0 c.st) (hr : cmdPass c sid m = .ok c') :
    SessLe st0 c'.st := by
  unfold cmdPass at hr
  obtain ⟨c1, h1, hr⟩ := Res.bind_eq_ok.1 hr
  exact maybeLogin_sle (h.modS_keep h1 (fun _ => ⟨rfl, rfl⟩)) hr


/-! ### QUIT, PART, KICK, KILL, GLINE -/

theorem cmdQuit_sle {st0 : St} {c c' : Ctx} {sid : Id} {m : IrcMsg} (h : SessLe st0 c.st) (hr : cmdQuit c sid m = .ok c') :
    SessLe st0 c'.st := by
  unfold cmdQuit at hr
  obtain ⟨c1, h1, hr⟩ := Res.bind_eq_ok.1 hr
  have n1 := h.deleteSession h1
  obtain ⟨s1, hs1, hr⟩ := Res.bind_eq_ok.1 hr
  split at hr
  · obtain ⟨rc, hrc, hr⟩ := Res.bind_eq_ok.1 hr
    cases hr; exact n1
  · cases hr; exact n1


theorem partOne_sle {st0 : St} {c c' : Ctx} {sid : Id} {chn : String} (h : SessLe st0 c.st) (hr : partOne c sid chn = .ok c') :
    SessLe st0 c'.st := by
  unfold partOne at hr
  obtain ⟨s0, hs0, hr⟩ := Res.bind_eq_ok.1 hr
  simp only [getChan_eq] at hr
  split at hr
  · cases hr; exact h
  · split at hr
    · cases hr; exact h
    · obtain ⟨rc, hrc, hr⟩ := Res.bind_eq_ok.1 hr
      exact SessLe.leaveChannel (c := emit _ _ _) h hr

theorem cmdPart_sle {st0 : St} {c c' : Ctx} {sid : Id} {m : IrcMsg} (h : SessLe st0 c.st) (hr : cmdPart c sid m = .ok c') :
    SessLe st0 c'.st := by
  unfold cmdPart at hr
  obtain ⟨p0, _, hr⟩ := Res.bind_eq_ok.1 hr
  exact SessLe.foldlM (fun _ _ _ h hr => partOne_sle h hr) _ h hr


theorem cmdKick_sle {st0 : St} {c c' : Ctx} {sid : Id} {m : IrcMsg} (h : SessLe st0 c.st) (hr : cmdKick c sid m = .ok c') :
    SessLe st0 c'.st := by
  unfold cmdKick at hr
  obtain ⟨s, hs, hr⟩ := Res.bind_eq_ok.1 hr
  obtain ⟨chn, _, hr⟩ := Res.bind_eq_ok.1 hr
  obtain ⟨target, _, hr⟩ := Res.bind_eq_ok.1 hr
  simp only [getChan_eq] at hr
  split at hr
  · cases hr; exact h
  · split at hr
    · cases hr; exact h
    · split at hr
      · cases hr; exact h
      · split at hr
        · cases hr; exact h
        · split at hr
          · obtain ⟨rc, hrc, hr⟩ := Res.bind_eq_ok.1 hr
            exact SessLe.leaveChannel (c := emit _ _ _) h hr
          · cases hr


theorem cmdKill_sle {st0 : St} {c c' : Ctx} {sid : Id} {m : IrcMsg} (h : SessLe st0 c.st) (hr : cmdKill c sid m = .ok c') :
    SessLe st0 c'.st := by
  unfold cmdKill at hr
  obtain ⟨s, hs, hr⟩ := Res.bind_eq_ok.1 hr
  split at hr
  · cases hr; exact h
  · obtain ⟨p0, _, hr⟩ := Res.bind_eq_ok.1 hr
    split at hr
    · cases hr; exact h
    · obtain ⟨c1, h1, hr⟩ := Res.bind_eq_ok.1 hr
      have n1 := h.deleteSession h1
      obtain ⟨t1, _, hr⟩ := Res.bind_eq_ok.1 hr
      obtain ⟨s2, _, hr⟩ := Res.bind_eq_ok.1 hr
      obtain ⟨rc, _, hr⟩ := Res.bind_eq_ok.1 hr
      cases hr
      exact n1


/-- GLINE only changes `config.banned` (and then runs KILL) -/
theorem cmdGline_sle {st0 : St} {c c' : Ctx} {sid : Id} {m : IrcMsg} (h : SessLe st0 c.st)
    (hr : cmdGline c sid m = .ok c') : SessLe st0 c'.st := by
  unfold cmdGline at hr
  obtain ⟨s, hs, hr⟩ := Res.bind_eq_ok.1 hr
  split at hr
  · cases hr; exact h
  · obtain ⟨p0, hp0, hr⟩ := Res.bind_eq_ok.1 hr
    split at hr
    · cases hr; exact h
    · obtain ⟨t, ht, hr⟩ := Res.bind_eq_ok.1 hr
      split at hr
      · cases hr; exact h
      · dsimp only at hr
        exact cmdKill_sle (c := { c with st := { c.st with config :=
          { c.st.config with banned := AMap.set c.st.config.banned t.remoteAddr m.trailing } } })
          (h.same rfl rfl) hr


/-! ### NICK -/

theorem cmdNickTail_sle {st0 : St} {c c' : Ctx} {sid : Id} {m : IrcMsg} {s : Session} {nick : String} {held : Option SvsHold}
    (h : SessLe st0 c.st) (hr : cmdNickTail c sid m s nick held = .ok c') : SessLe st0 c'.st := by
  unfold cmdNickTail at hr
  dsimp only at hr
  obtain ⟨hs0, _, _⟩ := holdCtx_facts c (nickToLower nick) held
  obtain ⟨hc0, hl0⟩ := holdCtx_cfg c (nickToLower nick) held
  have n0 : SessLe st0 (holdCtx c (nickToLower nick) held).st := h.congr hs0 hc0 hl0
  generalize holdCtx c (nickToLower nick) held = c0 at hr n0
  split at hr
  · cases hr; exact n0
  generalize (nickToLower s.nick != "" &&
      !(s.loggedIn && nickToLower nick == nickToLower (if s.loggedIn = true then s.nick else "*"))) = b at hr
  obtain ⟨c1, hm1, hr⟩ := Res.bind_eq_ok.1 hr
  obtain ⟨c2, hm2, hr⟩ := Res.bind_eq_ok.1 hr
  have n1 : SessLe st0 c1.st := n0.modS_keep hm1 (fun _ => ⟨rfl, rfl⟩)
  have hss := renameCtx_sessions c1 sid (nickToLower nick) (nickToLower s.nick) b
  obtain ⟨hcr, hlr⟩ := renameCtx_cfg c1 sid (nickToLower nick) (nickToLower s.nick) b
  have nr : SessLe st0 (renameCtx c1 sid (nickToLower nick) (nickToLower s.nick) b).st := n1.congr hss hcr hlr
  have n2 : SessLe st0 c2.st := nr.modS_keep hm2 (fun _ => ⟨rfl, rfl⟩)
  split at hr
  · obtain ⟨s2, _, hr⟩ := Res.bind_eq_ok.1 hr
    obtain ⟨rc, _, hr⟩ := Res.bind_eq_ok.1 hr
    cases hr
    exact n2
  · exact maybeLogin_sle n2 hr

theorem cmdNick_sle {st0 : St} {c c' : Ctx} {sid : Id} {m : IrcMsg} (h : SessLe st0 c.st)
    (hr : cmdNick c sid m = .ok c') : SessLe st0 c'.st := by
  rw [cmdNick_eq] at hr
  obtain ⟨s, hs, hr⟩ := Res.bind_eq_ok.1 hr
  dsimp only at hr
  generalize m.params.head?.getD "" = nick at hr
  split at hr
  · cases hr; exact h
  generalize (if s.loggedIn = true then s.nick else "*") = dest at hr
  split at hr
  · cases hr; exact h
  split at hr
  · cases hr; exact h
  split at hr
  · split at hr
    · cases hr; exact h
    · exact cmdNickTail_sle h hr
  · exact cmdNickTail_sle h hr


/-! ### JOIN -/

theorem joinAdmit_sle {st0 : St} {c c1 : Ctx} {sid : Id} {s : Session} {chn key : String} {mm : Option (Option IrcMsg)}
    (h : SessLe st0 c.st) (hr : joinAdmit c sid s chn key = .ok (c1, mm)) : SessLe st0 c1.st := by
  unfold joinAdmit at hr
  dsimp only at hr
  obtain ⟨r, h1, hr⟩ := Res.bind_eq_ok.1 hr
  have hr1 : SessLe st0 r.1.st := by
    simp only [getChan_eq] at h1
    sle_auto h1 h
  split at hr <;> (cases hr; exact hr1)

theorem joinAnnounce_sle {st0 : St} {c c' : Ctx} {sid : Id} {chn : String} {ch : Channel} {ex : Bool}
    {mm : Option IrcMsg} (h : SessLe st0 c.st) (hr : joinAnnounce c sid chn ch ex mm = .ok c') : SessLe st0 c'.st := by
  unfold joinAnnounce at hr
  obtain ⟨s1, hs1, hr⟩ := Res.bind_eq_ok.1 hr
  obtain ⟨rc, hrc, hr⟩ := Res.bind_eq_ok.1 hr
  dsimp only at hr
  obtain ⟨c1, h1, hr⟩ := Res.bind_eq_ok.1 hr
  obtain ⟨e1, _⟩ := joinModes_spec h1
  obtain ⟨c2, h2, hr⟩ := Res.bind_eq_ok.1 hr
  obtain ⟨c3, h3, hr⟩ := Res.bind_eq_ok.1 hr
  have e1' : c1.st = c.st := e1
  have n1 : SessLe st0 (emit c1 (srv c1 "SJOIN" ["1", chn, (if (!ex) = true then "@" else "") ++ s1.nick])
      (rcServices c1.st)).st := by rw [emit_st, e1']; exact h
  exact cmdNames_sle (cmdTopic_sle (cmdMode_sle n1 h2) h3) hr

theorem joinTail_sle {st0 : St} {c c' : Ctx} {sid : Id} {s : Session} {chn : String} {ex : Bool} {mm : Option IrcMsg}
    (h : SessLe st0 c.st) (hr : joinTail c sid s chn ex mm = .ok c') : SessLe st0 c'.st := by
  unfold joinTail at hr
  dsimp only at hr
  simp only [getChan_eq] at hr
  split at hr
  · rename_i ch hch
    obtain ⟨c2, h2, hr⟩ := Res.bind_eq_ok.1 hr
    have n2 : SessLe st0 c2.st := by
      split at h2
      · exact h.modS_keep h2 (fun _ => ⟨rfl, rfl⟩)
      · cases h2; exact h
    split at hr
    · cases hr; exact n2
    · obtain ⟨c3, h3, hr⟩ := Res.bind_eq_ok.1 hr
      have n3 : SessLe st0 c3.st := SessLe.modS_keep (c := putChan c2 _ _) (n2.putChan _ _) h3
        (fun _ => ⟨rfl, rfl⟩)
      exact joinAnnounce_sle n3 hr
  · cases hr

theorem joinOne_sle {st0 : St} {c c' : Ctx} {sid : Id} {chn key : String} (h : SessLe st0 c.st)
    (hr : joinOne c sid chn key = .ok c') : SessLe st0 c'.st := by
  rw [joinOne_eq] at hr
  obtain ⟨s0, hs0, hr⟩ := Res.bind_eq_ok.1 hr
  split at hr
  · cases hr; exact h
  · obtain ⟨r, hadm, hr⟩ := Res.bind_eq_ok.1 hr
    obtain ⟨c1, mm⟩ := r
    have n1 := joinAdmit_sle h hadm
    cases mm with
    | none => cases hr; exact n1
    | some mm =>
      dsimp only at hr
      exact joinTail_sle n1 hr

theorem joinLoop_sle {st0 : St} {keys chans : List String} {idx : Nat} {c c' : Ctx} {sid : Id} (h : SessLe st0 c.st)
    (hr : joinLoop c sid keys chans idx = .ok c') : SessLe st0 c'.st := by
  induction chans generalizing c idx with
  | nil => cases hr; exact h
  | cons ch rest ih =>
    unfold joinLoop at hr
    obtain ⟨c1, h1, hr⟩ := Res.bind_eq_ok.1 hr
    exact ih (joinOne_sle h h1) hr

theorem cmdJoin_sle {st0 : St} {c c' : Ctx} {sid : Id} {m : IrcMsg} (h : SessLe st0 c.st) (hr : cmdJoin c sid m = .ok c') :
    SessLe st0 c'.st := by
  unfold cmdJoin at hr
  obtain ⟨p0, _, hr⟩ := Res.bind_eq_ok.1 hr
  exact joinLoop_sle h hr




/-! ## services handlers -/

/-! ### SVSHOLD -/

theorem cmdServerSvshold_sle {st0 : St} {c c' : Ctx} {sid : Id} {m : IrcMsg} (h : SessLe st0 c.st)
    (hr : cmdServerSvshold c sid m = Res.ok c') : SessLe st0 c'.st := by
  unfold cmdServerSvshold at hr
  obtain ⟨s, hs, hr⟩ := Res.bind_eq_ok.1 hr
  obtain ⟨p0, hp0, hr⟩ := Res.bind_eq_ok.1 hr
  dsimp only at hr
  split at hr
  · obtain ⟨p1, hp1, hr⟩ := Res.bind_eq_ok.1 hr
    split at hr
    · cases hr
    · split at hr
      · cases hr
      · cases hr
        exact h.congr rfl rfl rfl
  · cases hr
    exact h.congr rfl rfl rfl


/-! ### PRIVMSG / NOTICE -/

theorem cmdServerPrivmsg_sle {st0 : St} {c c' : Ctx} {sid : Id} {m : IrcMsg} (h : SessLe st0 c.st)
    (hr : cmdServerPrivmsg c sid m = Res.ok c') : SessLe st0 c'.st := by
  unfold cmdServerPrivmsg at hr
  split at hr
  · obtain ⟨pn, _, hr⟩ := Res.bind_eq_ok.1 hr
    cases hr; exact h.sendSvc _
  · split at hr
    · obtain ⟨pn, _, hr⟩ := Res.bind_eq_ok.1 hr
      cases hr; exact h.sendSvc _
    · obtain ⟨p0, _, hr⟩ := Res.bind_eq_ok.1 hr
      split at hr
      · split at hr
        · obtain ⟨pn, _, hr⟩ := Res.bind_eq_ok.1 hr
          cases hr; exact h.sendSvc _
        · obtain ⟨sp, _, hr⟩ := Res.bind_eq_ok.1 hr
          obtain ⟨rc, _, hr⟩ := Res.bind_eq_ok.1 hr
          cases hr; exact h.emit _ _
      · split at hr
        · obtain ⟨pn, _, hr⟩ := Res.bind_eq_ok.1 hr
          cases hr; exact h.sendSvc _
        · obtain ⟨sp, _, hr⟩ := Res.bind_eq_ok.1 hr
          cases hr; exact h.sendUser _ _


/-! ### TOPIC -/

theorem cmdServerTopic_sle {st0 : St} {c c' : Ctx} {sid : Id} {m : IrcMsg} (h : SessLe st0 c.st)
    (hr : cmdServerTopic c sid m = Res.ok c') : SessLe st0 c'.st := by
  unfold cmdServerTopic at hr
  obtain ⟨channel, _, hr⟩ := Res.bind_eq_ok.1 hr
  simp only [getChan_eq] at hr
  split at hr
  · obtain ⟨pn, _, hr⟩ := Res.bind_eq_ok.1 hr
    cases hr; exact h.sendSvc _
  · rename_i ch hch
    obtain ⟨p2, _, hr⟩ := Res.bind_eq_ok.1 hr
    obtain ⟨ts?, _, hr⟩ := Res.bind_eq_ok.1 hr
    split at hr
    · cases hr
    · obtain ⟨p1, _, hr⟩ := Res.bind_eq_ok.1 hr
      split at hr
      · cases hr
      · obtain ⟨sp, _, hr⟩ := Res.bind_eq_ok.1 hr
        obtain ⟨rc, _, hr⟩ := Res.bind_eq_ok.1 hr
        cases hr
        exact SessLe.emit (c := putChan _ _ _) (h.putChan _ _) _ _


/-! ### INVITE -/

theorem cmdServerInvite_sle {st0 : St} {c c' : Ctx} {sid : Id} {m : IrcMsg} (h : SessLe st0 c.st)
    (hr : cmdServerInvite c sid m = Res.ok c') : SessLe st0 c'.st := by
  unfold cmdServerInvite at hr
  obtain ⟨nickname, _, hr⟩ := Res.bind_eq_ok.1 hr
  obtain ⟨channelname, _, hr⟩ := Res.bind_eq_ok.1 hr
  split at hr
  · obtain ⟨pn, _, hr⟩ := Res.bind_eq_ok.1 hr
    cases hr; exact h.sendSvc _
  · obtain ⟨t, _, hr⟩ := Res.bind_eq_ok.1 hr
    simp only [getChan_eq] at hr
    split at hr
    · obtain ⟨pn, _, hr⟩ := Res.bind_eq_ok.1 hr
      cases hr; exact h.sendSvc _
    · split at hr
      · obtain ⟨pn, _, hr⟩ := Res.bind_eq_ok.1 hr
        cases hr; exact h.sendSvc _
      · obtain ⟨c1, h1, hr⟩ := Res.bind_eq_ok.1 hr
        obtain ⟨pn, _, hr⟩ := Res.bind_eq_ok.1 hr
        obtain ⟨sp, _, hr⟩ := Res.bind_eq_ok.1 hr
        obtain ⟨rc, _, hr⟩ := Res.bind_eq_ok.1 hr
        cases hr
        have n1 : SessLe st0 c1.st := h.modS_keep h1 (fun _ => ⟨rfl, rfl⟩)
        exact (((n1.sendSvc _).sendUser _ _).emit _ _)


/-! ### KICK -/

theorem cmdServerKick_sle {st0 : St} {c c' : Ctx} {sid : Id} {m : IrcMsg} (h : SessLe st0 c.st)
    (hr : cmdServerKick c sid m = Res.ok c') : SessLe st0 c'.st := by
  unfold cmdServerKick at hr
  obtain ⟨channelname, _, hr⟩ := Res.bind_eq_ok.1 hr
  obtain ⟨target, _, hr⟩ := Res.bind_eq_ok.1 hr
  simp only [getChan_eq] at hr
  split at hr
  · obtain ⟨pn, _, hr⟩ := Res.bind_eq_ok.1 hr
    cases hr; exact h.sendSvc _
  · split at hr
    · obtain ⟨pn, _, hr⟩ := Res.bind_eq_ok.1 hr
      cases hr; exact h.sendSvc _
    · split at hr
      · obtain ⟨sp, _, hr⟩ := Res.bind_eq_ok.1 hr
        obtain ⟨rc, _, hr⟩ := Res.bind_eq_ok.1 hr
        exact SessLe.leaveChannel (c := emit _ _ _) h hr
      · cases hr


/-! ### SVSPART -/

theorem cmdServerSvspart_sle {st0 : St} {c c' : Ctx} {sid : Id} {m : IrcMsg} (h : SessLe st0 c.st)
    (hr : cmdServerSvspart c sid m = Res.ok c') : SessLe st0 c'.st := by
  unfold cmdServerSvspart at hr
  obtain ⟨p0, _, hr⟩ := Res.bind_eq_ok.1 hr
  obtain ⟨channelname, _, hr⟩ := Res.bind_eq_ok.1 hr
  dsimp only at hr
  split at hr
  · obtain ⟨pn, _, hr⟩ := Res.bind_eq_ok.1 hr
    cases hr; exact h.sendSvc _
  · simp only [getChan_eq] at hr
    split at hr
    · obtain ⟨pn, _, hr⟩ := Res.bind_eq_ok.1 hr
      cases hr; exact h.sendSvc _
    · split at hr
      · obtain ⟨pn, _, hr⟩ := Res.bind_eq_ok.1 hr
        cases hr; exact h.sendSvc _
      · obtain ⟨t, _, hr⟩ := Res.bind_eq_ok.1 hr
        obtain ⟨rc, _, hr⟩ := Res.bind_eq_ok.1 hr
        exact SessLe.leaveChannel (c := emit _ _ _) h hr


/-! ### MODE -/

theorem serverModeStep_sle {st0 : St} {c c' : Ctx} {m : IrcMsg} {chn lc : String} {mc : ModeCmd}
    (h : SessLe st0 c.st) (hstep : serverModeStep m chn lc c mc = Res.ok c') : SessLe st0 c'.st := by
  unfold serverModeStep at hstep
  simp only [getChan_eq] at hstep
  split at hstep
  · split at hstep
    · cases hstep
      exact h.putChan _ _
    · split at hstep
      · split at hstep
        · obtain ⟨pn, _, hstep⟩ := Res.bind_eq_ok.1 hstep
          cases hstep; exact h.sendSvc _
        · split at hstep
          · cases hstep
            exact h.putChan _ _
          · cases hstep; exact h
      · obtain ⟨pn, _, hstep⟩ := Res.bind_eq_ok.1 hstep
        cases hstep; exact h.sendSvc _
  · cases hstep

theorem cmdServerMode_sle {st0 : St} {c c' : Ctx} {sid : Id} {m : IrcMsg} (h : SessLe st0 c.st)
    (hr : cmdServerMode c sid m = Res.ok c') : SessLe st0 c'.st := by
  rw [cmdServerMode_eq] at hr
  obtain ⟨channelname, _, hr⟩ := Res.bind_eq_ok.1 hr
  simp only [getChan_eq] at hr
  split at hr
  · obtain ⟨pn, _, hr⟩ := Res.bind_eq_ok.1 hr
    cases hr; exact h.sendSvc _
  · obtain ⟨c1, hfold, hr⟩ := Res.bind_eq_ok.1 hr
    have h1 : SessLe st0 c1.st :=
      SessLe.foldlM (fun _ _ _ hP hstep => serverModeStep_sle hP hstep) _ h hfold
    split at hr
    · cases hr; exact h1
    · split at hr
      · obtain ⟨sp, _, hr⟩ := Res.bind_eq_ok.1 hr
        obtain ⟨rc, _, hr⟩ := Res.bind_eq_ok.1 hr
        cases hr
        exact h1.emit _ _
      · cases hr


/-! ### SVSMODE -/

theorem svsmodeStep_sle {st0 : St} {c c' : Ctx} {tid : Id} {mc : ModeCmd}
    (h : SessLe st0 c.st) (hstep : svsmodeStep tid c mc = Res.ok c') : SessLe st0 c'.st := by
  unfold svsmodeStep at hstep
  dsimp only at hstep
  split at hstep
  · exact h.modS_keep hstep (fun _ => ⟨rfl, rfl⟩)
  · split at hstep
    · exact h.modS_keep hstep (fun _ => ⟨rfl, rfl⟩)
    · cases hstep
      exact h.sendSvc _

theorem cmdServerSvsmode_sle {st0 : St} {c c' : Ctx} {sid : Id} {m : IrcMsg} (h : SessLe st0 c.st)
    (hr : cmdServerSvsmode c sid m = Res.ok c') : SessLe st0 c'.st := by
  rw [cmdServerSvsmode_eq] at hr
  obtain ⟨s, _, hr⟩ := Res.bind_eq_ok.1 hr
  obtain ⟨p0, _, hr⟩ := Res.bind_eq_ok.1 hr
  split at hr
  · cases hr; exact h.sendSvc _
  · obtain ⟨modestr, _, hr⟩ := Res.bind_eq_ok.1 hr
    split at hr
    · cases hr; exact h.sendSvc _
    · obtain ⟨c1, hfold, hr⟩ := Res.bind_eq_ok.1 hr
      obtain ⟨t, _, hr⟩ := Res.bind_eq_ok.1 hr
      cases hr
      have h1 : SessLe st0 c1.st :=
        SessLe.foldlM (fun _ _ _ hP hstep => svsmodeStep_sle hP hstep) _ h hfold
      exact h1.sendUser _ _


/-! ### JOIN -/

theorem serverJoinOne_sle {st0 : St} {c c' : Ctx} {m : IrcMsg} {chn : String} (h : SessLe st0 c.st)
    (hr : serverJoinOne c m chn = Res.ok c') : SessLe st0 c'.st := by
  unfold serverJoinOne at hr
  obtain ⟨pn, _, hr⟩ := Res.bind_eq_ok.1 hr
  split at hr
  · cases hr; exact h.sendSvc _
  · dsimp only at hr
    split at hr
    · cases hr; exact h.sendSvc _
    · split at hr
      · cases hr; exact h.sendSvc _
      obtain ⟨c1, h1, hr⟩ := Res.bind_eq_ok.1 hr
      obtain ⟨sp, _, hr⟩ := Res.bind_eq_ok.1 hr
      obtain ⟨rc, _, hr⟩ := Res.bind_eq_ok.1 hr
      cases hr
      have n1 : SessLe st0 c1.st :=
        SessLe.modS_keep (c := putChan _ _ _) (h.putChan _ _) h1 (fun _ => ⟨rfl, rfl⟩)
      exact n1.emit _ _

theorem cmdServerJoin_sle {st0 : St} {c c' : Ctx} {sid : Id} {m : IrcMsg} (h : SessLe st0 c.st)
    (hr : cmdServerJoin c sid m = Res.ok c') : SessLe st0 c'.st := by
  unfold cmdServerJoin at hr
  obtain ⟨p0, _, hr⟩ := Res.bind_eq_ok.1 hr
  exact SessLe.foldlM (fun _ _ _ hP hstep => serverJoinOne_sle hP hstep) _ h hr


/-! ### PART -/

theorem serverPartOne_sle {st0 : St} {c c' : Ctx} {m : IrcMsg} {chn : String} (h : SessLe st0 c.st)
    (hr : serverPartOne c m chn = Res.ok c') : SessLe st0 c'.st := by
  unfold serverPartOne at hr
  simp only [getChan_eq] at hr
  split at hr
  · obtain ⟨pn, _, hr⟩ := Res.bind_eq_ok.1 hr
    cases hr; exact h.sendSvc _
  · obtain ⟨pn, _, hr⟩ := Res.bind_eq_ok.1 hr
    split at hr
    · cases hr; exact h.sendSvc _
    · split at hr
      · obtain ⟨sp, _, hr⟩ := Res.bind_eq_ok.1 hr
        obtain ⟨rc, _, hr⟩ := Res.bind_eq_ok.1 hr
        exact SessLe.leaveChannel (c := emit _ _ _) h hr
      · cases hr

theorem cmdServerPart_sle {st0 : St} {c c' : Ctx} {sid : Id} {m : IrcMsg} (h : SessLe st0 c.st)
    (hr : cmdServerPart c sid m = Res.ok c') : SessLe st0 c'.st := by
  unfold cmdServerPart at hr
  obtain ⟨p0, _, hr⟩ := Res.bind_eq_ok.1 hr
  exact SessLe.foldlM (fun _ _ _ hP hstep => serverPartOne_sle hP hstep) _ h hr


/-! ### SVSJOIN -/

theorem cmdServerSvsjoin_sle {st0 : St} {c c' : Ctx} {sid : Id} {m : IrcMsg} (h : SessLe st0 c.st)
    (hr : cmdServerSvsjoin c sid m = Res.ok c') : SessLe st0 c'.st := by
  unfold cmdServerSvsjoin at hr
  obtain ⟨p0, _, hr⟩ := Res.bind_eq_ok.1 hr
  obtain ⟨chn, _, hr⟩ := Res.bind_eq_ok.1 hr
  dsimp only at hr
  split at hr
  · obtain ⟨pn, _, hr⟩ := Res.bind_eq_ok.1 hr
    cases hr; exact h.sendSvc _
  · split at hr
    · obtain ⟨pn, _, hr⟩ := Res.bind_eq_ok.1 hr
      cases hr; exact h.sendSvc _
    · simp only [getChan_eq, putChan_putChan] at hr
      split at hr
      · obtain ⟨pn, _, hr⟩ := Res.bind_eq_ok.1 hr
        cases hr; exact h.sendSvc _
      split at hr
      · cases hr
        exact h.putChan _ _
      · obtain ⟨c1, h1, hr⟩ := Res.bind_eq_ok.1 hr
        obtain ⟨t, _, hr⟩ := Res.bind_eq_ok.1 hr
        obtain ⟨rc, _, hr⟩ := Res.bind_eq_ok.1 hr
        obtain ⟨c2, h2, hr⟩ := Res.bind_eq_ok.1 hr
        have n1 : SessLe st0 c1.st :=
          SessLe.modS_keep (c := putChan _ _ _) (h.putChan _ _) h1 (fun _ => ⟨rfl, rfl⟩)
        have n2 : SessLe st0 c2.st :=
          SessLe.emits (c := sendSvc (emit c1 _ _) _) ((n1.emit _ _).sendSvc _) (cmdTopic_query_emits h2)
        exact n2.emits (Srv.cmdNames_emits hr)


/-! ### NICK (a fresh pseudo-client, through `createSession`) -/

theorem cmdServerNick_slim {st0 : St} {c c' : Ctx} {sid : Id} {m : IrcMsg} (h : SessLe st0 c.st)
    (hr : cmdServerNick c sid m = Res.ok c') : SessLim st0 c'.st := by
  unfold cmdServerNick at hr
  obtain ⟨s, hs, hr⟩ := Res.bind_eq_ok.1 hr
  split at hr
  · cases hr; exact h.lim
  · obtain ⟨p0, _, hr⟩ := Res.bind_eq_ok.1 hr
    split at hr
    · cases hr; exact h.lim
    · split at hr
      · cases hr; exact h.lim
      · dsimp only at hr
        split at hr
        · cases hr; exact h.lim
        · split at hr
          · cases hr; exact h.lim
          · rename_i st1 hcs
            obtain ⟨p3, _, hr⟩ := Res.bind_eq_ok.1 hr
            obtain ⟨c2, hm, hr⟩ := Res.bind_eq_ok.1 hr
            cases hr
            obtain ⟨hcfg, _, hlen, hlim, ns, hns, hnsid⟩ := chanLim_createSession hcs
            have hw1 : SessWf st1 := by
              rw [createSession_eq hcs]
              refine ⟨?_, AMap.nodup_keys_set _ _ h.wf.nodup⟩
              intro id t hg
              simp only at hg
              rw [AMap.get_set] at hg
              split at hg
              · rename_i e1; cases hg; exact e1.symm
              · exact h.wf.ids id t hg
            have n2 : SessLe st1 c2.st :=
              SessLe.modS_keep (c := { c with st := st1 }) (SessLe.refl hw1) hm (fun _ => ⟨rfl, rfl⟩)
            refine ⟨n2.wf.congr rfl, ?_, fun hpos => ?_⟩
            · show c2.st.config.maxSessions = _
              rw [n2.maxSessions, hcfg]; exact h.maxSessions
            · show c2.st.sessions.length ≤ _
              have h1 := n2.le
              have h2 := h.le
              have h3 := hlim (by rw [h.maxSessions]; exact hpos)
              rw [h.maxSessions] at h3
              omega


/-! ### SVSNICK -/

theorem svsnickTail_sle {st0 : St} {c c' : Ctx} {tid : Id} {p0 p1 : String} (h : SessLe st0 c.st)
    (hr : svsnickTail c p0 p1 tid = Res.ok c') : SessLe st0 c'.st := by
  unfold svsnickTail at hr
  obtain ⟨t, ht, hr⟩ := Res.bind_eq_ok.1 hr
  dsimp only at hr
  obtain ⟨c1, hm1, hr⟩ := Res.bind_eq_ok.1 hr
  obtain ⟨c2, hm2, hr⟩ := Res.bind_eq_ok.1 hr
  obtain ⟨t2, _, hr⟩ := Res.bind_eq_ok.1 hr
  obtain ⟨rc, _, hr⟩ := Res.bind_eq_ok.1 hr
  cases hr
  have n1 : SessLe st0 c1.st := h.modS_keep hm1 (fun _ => ⟨rfl, rfl⟩)
  have hss := renameCtx_sessions c1 tid (nickToLower p1) (nickToLower p0) (nickToLower p1 != nickToLower p0)
  obtain ⟨hcr, hlr⟩ := renameCtx_cfg c1 tid (nickToLower p1) (nickToLower p0) (nickToLower p1 != nickToLower p0)
  have nr : SessLe st0 (renameCtx c1 tid (nickToLower p1) (nickToLower p0) (nickToLower p1 != nickToLower p0)).st :=
    n1.congr hss hcr hlr
  have n2 : SessLe st0 c2.st := nr.modS_keep hm2 (fun _ => ⟨rfl, rfl⟩)
  exact n2.emit _ _

theorem cmdServerSvsnick_sle {st0 : St} {c c' : Ctx} {sid : Id} {m : IrcMsg} (h : SessLe st0 c.st)
    (hr : cmdServerSvsnick c sid m = Res.ok c') : SessLe st0 c'.st := by
  rw [cmdServerSvsnick_eq] at hr
  obtain ⟨p0, _, hr⟩ := Res.bind_eq_ok.1 hr
  obtain ⟨p1, _, hr⟩ := Res.bind_eq_ok.1 hr
  split at hr
  · cases hr; exact h.sendSvc _
  · split at hr
    · cases hr; exact h.sendSvc _
    · split at hr
      · split at hr
        · cases hr; exact h.sendSvc _
        · exact svsnickTail_sle h hr
      · exact svsnickTail_sle h hr


/-! ### KILL -/

theorem cmdServerKill_sle {st0 : St} {c c' : Ctx} {sid : Id} {m : IrcMsg} (h : SessLe st0 c.st)
    (hr : cmdServerKill c sid m = Res.ok c') : SessLe st0 c'.st := by
  unfold cmdServerKill at hr
  obtain ⟨s, _, hr⟩ := Res.bind_eq_ok.1 hr
  split at hr
  · cases hr; exact h.sendSvc _
  · dsimp only at hr
    obtain ⟨kp?, _, hr⟩ := Res.bind_eq_ok.1 hr
    obtain ⟨p0, _, hr⟩ := Res.bind_eq_ok.1 hr
    split at hr
    · cases hr; exact h.sendSvc _
    · obtain ⟨t, ht, hr⟩ := Res.bind_eq_ok.1 hr
      split at hr
      · obtain ⟨rc, _, hr⟩ := Res.bind_eq_ok.1 hr
        exact SessLe.deleteSession (c := emit (sendUser c _ _) _ _) ((h.sendUser _ _).emit _ _) hr
      · cases hr


/-! ### QUIT -/

theorem cmdServerQuit_sle {st0 : St} {c c' : Ctx} {sid : Id} {m : IrcMsg} (h : SessLe st0 c.st)
    (hr : cmdServerQuit c sid m = Res.ok c') : SessLe st0 c'.st := by
  unfold cmdServerQuit at hr
  obtain ⟨s, hs, hr⟩ := Res.bind_eq_ok.1 hr
  split at hr
  · obtain ⟨c1, hd, hr⟩ := Res.bind_eq_ok.1 hr
    dsimp only at hr
    refine SessLe.foldlM ?_ _ (h.deleteSession hd) hr
    intro c2 tid c3 hP hstep
    obtain ⟨t, ht, hstep⟩ := Res.bind_eq_ok.1 hstep
    obtain ⟨rc, _, hstep⟩ := Res.bind_eq_ok.1 hstep
    exact SessLe.deleteSession (c := emit _ _ _) hP hstep
  · split at hr
    · cases hr; exact h
    · obtain ⟨rc, _, hr⟩ := Res.bind_eq_ok.1 hr
      exact SessLe.deleteSession (c := emit _ _ _) h hr


/-! ### SERVER (a client command: the session becomes a services link) -/

theorem cmdServer_sle {st0 : St} {c c' : Ctx} {sid : Id} {m : IrcMsg} (h : SessLe st0 c.st)
    (hr : cmdServer c sid m = Res.ok c') : SessLe st0 c'.st := by
  rw [cmdServer_eq] at hr
  obtain ⟨s, hs, hr⟩ := Res.bind_eq_ok.1 hr
  split at hr
  · cases hr; exact h.sendUser _ _
  · obtain ⟨p0, _, hr⟩ := Res.bind_eq_ok.1 hr
    obtain ⟨c1, hm, hr⟩ := Res.bind_eq_ok.1 hr
    dsimp only at hr
    have he := (Srv.Emits.sendSvc _ _).trans
      (foldlM_emits _ _ (fun _ _ _ _ h => serverBurstNick_emits h) _ _ hr)
    rw [he.st]
    exact (h.modS_keep hm (fun _ => ⟨rfl, rfl⟩)).congr rfl rfl rfl




/-- every handler of the table but the services `NICK` keeps `SessLe` -/
theorem handler_sessLe {fname : String} {h : Handler} (hh : handlerByName fname = some h)
    (hn : fname ≠ "cmdServerNick") : SessLePres h := by
  unfold handlerByName at hh
  split at hh
  · cases hh; exact .of_plain cmdAway_sle
  · cases hh; exact .of_emits fun _ _ _ _ => cmdServiceAlias_emits
  · cases hh; exact .of_plain cmdGline_sle
  · cases hh; exact .of_plain cmdInvite_sle
  · cases hh; exact .of_emits fun _ _ _ _ => cmdIson_emits
  · cases hh; exact .of_plain cmdJoin_sle
  · cases hh; exact .of_plain cmdKick_sle
  · cases hh; exact .of_plain cmdKill_sle
  · cases hh; exact .of_emits fun _ _ _ _ => cmdKnock_emits
  · cases hh; exact .of_emits fun _ _ _ _ => cmdList_emits
  · cases hh; exact .of_plain cmdMode_sle
  · cases hh; exact .of_plain cmdMotd_sle
  · cases hh; exact .of_plain cmdNames_sle
  · cases hh; exact .of_plain cmdNick_sle
  · cases hh; exact .of_plain cmdOper_sle
  · cases hh; exact .of_plain cmdPart_sle
  · cases hh; exact .of_plain cmdPass_sle
  · cases hh; exact .of_emits fun _ _ _ _ => cmdPing_emits
  · cases hh; exact .of_emits fun _ _ _ _ => cmdPrivmsg_emits
  · cases hh; exact .of_plain cmdQuit_sle
  · cases hh; exact .of_plain cmdServer_sle
  · cases hh; exact .of_plain cmdTopic_sle
  · cases hh; exact .of_plain cmdUser_sle
  · cases hh; exact .of_emits fun _ _ _ _ => cmdUserhost_emits
  · cases hh; exact .of_emits fun _ _ _ _ => cmdWho_emits
  · cases hh; exact .of_emits fun _ _ _ _ => cmdWhois_emits
  · cases hh; exact .of_plain cmdServerInvite_sle
  · cases hh; exact .of_plain cmdServerJoin_sle
  · cases hh; exact .of_plain cmdServerKick_sle
  · cases hh; exact .of_plain cmdServerKill_sle
  · cases hh; exact .of_plain cmdServerMode_sle
  · exact absurd rfl hn
  · cases hh; exact .of_plain cmdServerPrivmsg_sle
  · cases hh; exact .of_plain cmdServerPart_sle
  · cases hh; exact .of_plain cmdServerQuit_sle
  · cases hh; exact .of_plain cmdServerSvshold_sle
  · cases hh; exact .of_plain cmdServerSvsjoin_sle
  · cases hh; exact .of_plain cmdServerSvsmode_sle
  · cases hh; exact .of_plain cmdServerSvsnick_sle
  · cases hh; exact .of_plain cmdServerSvspart_sle
  · cases hh; exact .of_plain cmdServerTopic_sle
  · cases hh

end Robust.Irc
