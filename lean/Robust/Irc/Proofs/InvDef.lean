import Robust.Irc.Inv
import Robust.Irc.Proofs.AMapLemmas
/-!
The consistency invariant of the IRC state as a `Prop`, in three layers:

* `WInv`  – holds at every point *between primitives* inside a handler (sessions flagged
            `deleted` are still stored but no longer referenced; a channel may momentarily
            have no member, e.g. between `putChan … {name := …}` and the first member);
* `HInv`  – `WInv` + no stored channel is empty: holds at handler boundaries;
* `Inv`   – `HInv` + no stored session is flagged deleted: holds between entries.

`WInvCore` is `WInv` without the conjunct `member`; it is what survives *inside* the
primitives `leaveChannel` / `deleteSession` (which first drop the member and only then the
index entry / the channel from the session's list).
-/
namespace Robust.Irc
open Robust

/-! ### a few string facts the invariant proofs need -/

theorem ofList_eq_empty {l : List Char} : String.ofList l = "" ↔ l = [] := by
  constructor
  · intro h
    have := congrArg String.toList h
    simpa using this
  · intro h; subst h; rfl

theorem toList_eq_nil {s : String} : s.toList = [] ↔ s = "" := by
  constructor
  · intro h
    have := congrArg String.ofList h
    simpa using this
  · intro h; subst h; rfl

theorem toLower_eq_empty {x : String} : toLower x = "" ↔ x = "" := by
  unfold toLower
  rw [ofList_eq_empty, List.map_eq_nil_iff, toList_eq_nil]

theorem nickToLower_eq_empty {x : String} : nickToLower x = "" ↔ x = "" := by
  unfold nickToLower
  rw [ofList_eq_empty, List.map_eq_nil_iff, toList_eq_nil, toLower_eq_empty]

theorem chanToLower_eq_empty {x : String} : chanToLower x = "" ↔ x = "" := toLower_eq_empty

@[simp] theorem nickToLower_empty : nickToLower "" = "" := nickToLower_eq_empty.2 rfl

theorem isValidNickname_ne_empty {x : String} (h : isValidNickname x = true) : x ≠ "" := by
  intro hx; subst hx
  simp [isValidNickname] at h

theorem nickToLower_ne_empty_of_valid {x : String} (h : isValidNickname x = true) : nickToLower x ≠ "" :=
  fun h' => isValidNickname_ne_empty h (nickToLower_eq_empty.1 h')

/-! ### the invariant -/

/-- the session indexed under `lc` is a member (under `lc`) of every channel it lists -/
def MemberOK (st : St) (lc : String) : Prop :=
  ∀ id s, AMap.get st.nicks lc = some id → AMap.get st.sessions id = some s →
    ∀ ch ∈ s.channels, ∃ c, AMap.get st.channels ch = some c ∧ AMap.contains c.nicks lc = true

/-- everything but `member`: survives inside `leaveChannel` / `deleteSession` -/
structure WInvCore (st : St) : Prop where
  sessNodup : (AMap.keys st.sessions).Nodup
  nickNodup : (AMap.keys st.nicks).Nodup
  chanNodup : (AMap.keys st.channels).Nodup
  /-- sessions are stored under their id; the channel list is a set -/
  sessId : ∀ id s, AMap.get st.sessions id = some s → s.id = id ∧ s.channels.Nodup
  /-- a live session that carries a nickname is indexed under it -/
  owns : ∀ id s, AMap.get st.sessions id = some s → s.deleted = false → s.nick ≠ "" →
          AMap.get st.nicks (nickToLower s.nick) = some id
  /-- the nick index only points to live sessions carrying that nick -/
  index : ∀ lc id, AMap.get st.nicks lc = some id →
          ∃ s, AMap.get st.sessions id = some s ∧ s.deleted = false ∧ nickToLower s.nick = lc
  /-- channels are keyed by their lower-cased name; members are indexed sessions listing the channel -/
  chans : ∀ lc c, AMap.get st.channels lc = some c →
          chanToLower c.name = lc ∧ (AMap.keys c.nicks).Nodup ∧
          ∀ n, n ∈ AMap.keys c.nicks →
            ∃ id s, AMap.get st.nicks n = some id ∧ AMap.get st.sessions id = some s ∧ lc ∈ s.channels

/-- weak invariant: holds between the primitives of a handler -/
structure WInv (st : St) : Prop extends WInvCore st where
  /-- an indexed session is a member of every channel it lists
  (stated on the index, so that it also covers a nickless session indexed under `""`) -/
  member : ∀ lc, MemberOK st lc

/-- no stored channel is empty -/
def ChansNonempty (st : St) : Prop := ∀ lc c, AMap.get st.channels lc = some c → c.nicks ≠ []

/-- the invariant at handler boundaries -/
structure HInv (st : St) : Prop extends WInv st where
  nonempty : ChansNonempty st

/-- the invariant between entries: additionally no stored session is flagged deleted -/
structure Inv (st : St) : Prop extends HInv st where
  noDeleted : ∀ id s, AMap.get st.sessions id = some s → s.deleted = false

/-! ### derived forms -/

/-- the `get` form of `chans` -/
theorem WInvCore.chanMember {st : St} (h : WInvCore st) {lc : String} {c : Channel} {n : String} {mem : Member}
    (hc : AMap.get st.channels lc = some c) (hm : AMap.get c.nicks n = some mem) :
    ∃ id s, AMap.get st.nicks n = some id ∧ AMap.get st.sessions id = some s ∧ lc ∈ s.channels :=
  (h.chans lc c hc).2.2 n (AMap.mem_keys_of_get hm)

/-- members of stored channels are live sessions carrying that nick -/
theorem WInvCore.chanMember_live {st : St} (h : WInvCore st) {lc : String} {c : Channel} {n : String}
    (hc : AMap.get st.channels lc = some c) (hm : n ∈ AMap.keys c.nicks) :
    ∃ id s, AMap.get st.nicks n = some id ∧ AMap.get st.sessions id = some s ∧ lc ∈ s.channels ∧
      s.deleted = false ∧ nickToLower s.nick = n ∧ s.id = id := by
  obtain ⟨id, s, h1, h2, h3⟩ := (h.chans lc c hc).2.2 n hm
  obtain ⟨s', h4, h5, h6⟩ := h.index n id h1
  rw [h2] at h4; cases h4
  exact ⟨id, s, h1, h2, h3, h5, h6, (h.sessId id s h2).1⟩

/-- the form of the task statement: a live session with a nickname is indexed under it and is a
member of every channel it lists -/
theorem WInv.owns_chans {st : St} (h : WInv st) {id : Id} {s : Session}
    (hs : AMap.get st.sessions id = some s) (hl : s.deleted = false) (hn : s.nick ≠ "") :
    AMap.get st.nicks (nickToLower s.nick) = some id ∧
    ∀ ch ∈ s.channels, ∃ c, AMap.get st.channels ch = some c ∧ AMap.contains c.nicks (nickToLower s.nick) = true :=
  ⟨h.owns id s hs hl hn, h.member _ id s (h.owns id s hs hl hn) hs⟩

/-- an indexed session is stored, live, carries the nick, and is a member of its channels -/
theorem WInv.indexed {st : St} (h : WInv st) {lc : String} {id : Id} (hi : AMap.get st.nicks lc = some id) :
    ∃ s, AMap.get st.sessions id = some s ∧ s.deleted = false ∧ nickToLower s.nick = lc ∧ s.id = id ∧
      ∀ ch ∈ s.channels, ∃ c, AMap.get st.channels ch = some c ∧ AMap.contains c.nicks lc = true := by
  obtain ⟨s, h1, h2, h3⟩ := h.index lc id hi
  exact ⟨s, h1, h2, h3, (h.sessId id s h1).1, h.member lc id s hi h1⟩

/-- two index entries for the same session are the same entry -/
theorem WInvCore.index_inj {st : St} (h : WInvCore st) {lc lc' : String} {id : Id}
    (h1 : AMap.get st.nicks lc = some id) (h2 : AMap.get st.nicks lc' = some id) : lc = lc' := by
  obtain ⟨s, hs, _, hn⟩ := h.index lc id h1
  obtain ⟨s', hs', _, hn'⟩ := h.index lc' id h2
  rw [hs] at hs'; cases hs'
  rw [← hn, ← hn']

/-! ### the invariants only look at `sessions`, `nicks`, `channels` -/

theorem MemberOK.congr {st st' : St} {lc : String} (h : MemberOK st lc) (hs : st'.sessions = st.sessions)
    (hn : st'.nicks = st.nicks) (hc : st'.channels = st.channels) : MemberOK st' lc := by
  unfold MemberOK at *
  rw [hs, hn, hc]; exact h

theorem WInvCore.congr {st st' : St} (h : WInvCore st) (hs : st'.sessions = st.sessions)
    (hn : st'.nicks = st.nicks) (hc : st'.channels = st.channels) : WInvCore st' := by
  obtain ⟨a1, a2, a3, a4, a5, a6, a7⟩ := h
  constructor <;> (rw [hs, hn, hc] at * <;> assumption)

theorem WInv.congr {st st' : St} (h : WInv st) (hs : st'.sessions = st.sessions)
    (hn : st'.nicks = st.nicks) (hc : st'.channels = st.channels) : WInv st' :=
  ⟨h.toWInvCore.congr hs hn hc, fun lc => (h.member lc).congr hs hn hc⟩

theorem ChansNonempty.congr {st st' : St} (h : ChansNonempty st) (hc : st'.channels = st.channels) :
    ChansNonempty st' := by
  unfold ChansNonempty at *
  rw [hc]; exact h

theorem HInv.congr {st st' : St} (h : HInv st) (hs : st'.sessions = st.sessions)
    (hn : st'.nicks = st.nicks) (hc : st'.channels = st.channels) : HInv st' :=
  ⟨h.toWInv.congr hs hn hc, h.nonempty.congr hc⟩

theorem Inv.congr {st st' : St} (h : Inv st) (hs : st'.sessions = st.sessions)
    (hn : st'.nicks = st.nicks) (hc : st'.channels = st.channels) : Inv st' :=
  ⟨h.toHInv.congr hs hn hc, by rw [hs]; exact h.noDeleted⟩

/-! ### the initial state -/

theorem WInv_init : WInv ({} : St) := by
  refine ⟨⟨List.nodup_nil, List.nodup_nil, List.nodup_nil, ?_, ?_, ?_, ?_⟩, ?_⟩
  · intro id s h; simp at h
  · intro id s h; simp at h
  · intro lc id h; simp at h
  · intro lc c h; simp at h
  · intro lc id s h; simp at h

theorem HInv_init : HInv ({} : St) := ⟨WInv_init, by intro lc c h; simp at h⟩

theorem Inv_init : Inv ({} : St) := ⟨HInv_init, by intro id s h; simp at h⟩

end Robust.Irc
