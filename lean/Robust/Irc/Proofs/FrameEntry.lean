import Robust.Irc.Proofs.FrameSim
/-!
`maybeDeleteSession`: purging the sessions flagged deleted re-establishes `Inv`.
-/
namespace Robust.Irc
open Robust AMap

/-- dropping stored sessions that are flagged deleted: nothing refers to them -/
theorem HInv_removeDeleted {st st' : St} (h : HInv st) (hnd : (AMap.keys st'.sessions).Nodup)
    (hsub : ∀ id s, AMap.get st'.sessions id = some s → AMap.get st.sessions id = some s)
    (hkeep : ∀ id s, AMap.get st.sessions id = some s → s.deleted = false → AMap.get st'.sessions id = some s)
    (hn : st'.nicks = st.nicks) (hc : st'.channels = st.channels) : HInv st' := by
  refine ⟨⟨⟨hnd, by rw [hn]; exact h.nickNodup, by rw [hc]; exact h.chanNodup, ?_, ?_, ?_, ?_⟩, ?_⟩, ?_⟩
  · intro id s hg; exact h.sessId id s (hsub id s hg)
  · intro id s hg hl hnn; rw [hn]; exact h.owns id s (hsub id s hg) hl hnn
  · intro x id hi
    rw [hn] at hi
    obtain ⟨s0, hg0, hl0, hlow0⟩ := h.index x id hi
    exact ⟨s0, hkeep id s0 hg0 hl0, hl0, hlow0⟩
  · intro lc c hg
    rw [hc] at hg
    obtain ⟨a, b, _⟩ := h.chans lc c hg
    refine ⟨a, b, fun n hn' => ?_⟩
    obtain ⟨id, s0, h1, h2, h3, h4, _, _⟩ := h.toWInvCore.chanMember_live hg hn'
    exact ⟨id, s0, by rw [hn]; exact h1, hkeep id s0 h2 h4, h3⟩
  · intro x id s hi hg ch2 hch2
    rw [hn] at hi; rw [hc]
    exact h.member x id s hi (hsub id s hg) ch2 hch2
  · exact h.nonempty.congr hc

/-- the actor of the entry is a server link or an IRC operator -/
def Privileged (st : St) (sid : Id) : Prop :=
  ∃ a, AMap.get st.sessions sid = some a ∧ (a.server = true ∨ a.operator = true)

/-- `maybeDeleteSession st sid` after the handler: if the only sessions flagged deleted are the
actor's own, or the actor is privileged (then all flagged sessions are purged), no flagged
session remains. -/
theorem Inv_maybeDeleteSession {st : St} {sid : Id} (h : HInv st)
    (hdel : ∀ id s, AMap.get st.sessions id = some s → s.deleted = true → id = sid ∨ Privileged st sid) :
    Inv (maybeDeleteSession st sid) := by
  unfold maybeDeleteSession
  cases ha : AMap.get st.sessions sid with
  | none =>
    refine ⟨h, fun id s hg => ?_⟩
    cases hd : s.deleted with
    | false => rfl
    | true =>
      rcases hdel id s hg hd with h1 | ⟨a, h1, _⟩
      · subst h1; rw [ha] at hg; cases hg
      · rw [ha] at h1; cases h1
  | some a =>
    simp only
    -- first step: the purge when the actor is privileged
    have step1 : ∀ (b : Bool), HInv (if b = true then { st with sessions := st.sessions.filter (fun e => !e.2.deleted) } else st) ∧
        (∀ id s, AMap.get (if b = true then { st with sessions := st.sessions.filter (fun e => !e.2.deleted) } else st).sessions id = some s →
          AMap.get st.sessions id = some s ∧ (b = true → s.deleted = false)) := by
      intro b
      cases b with
      | false => exact ⟨h, fun id s hg => ⟨hg, fun hb => by cases hb⟩⟩
      | true =>
        simp only [if_true]
        refine ⟨HInv_removeDeleted h (AMap.nodup_keys_filter _ h.sessNodup) ?_ ?_ rfl rfl, ?_⟩
        · intro id s hg
          exact ((AMap.get_filter _ h.sessNodup).1 hg).1
        · intro id s hg hl
          exact (AMap.get_filter _ h.sessNodup).2 ⟨hg, by simp [hl]⟩
        · intro id s hg
          have := (AMap.get_filter _ h.sessNodup).1 hg
          exact ⟨this.1, fun _ => by simpa using this.2⟩
    generalize hb : (a.server || a.operator) = b
    obtain ⟨h1, f1⟩ := step1 b
    generalize (if b = true then { st with sessions := st.sessions.filter (fun e => !e.2.deleted) } else st) = st1 at h1 f1
    have hpriv : Privileged st sid → b = true := by
      rintro ⟨a', ha', hp⟩
      rw [ha] at ha'; cases ha'
      rw [← hb]
      rcases hp with hp | hp <;> simp [hp]
    cases hd : a.deleted with
    | false =>
      simp only [Bool.false_eq_true, if_false]
      refine ⟨h1, fun id s hg => ?_⟩
      obtain ⟨hg0, hfl⟩ := f1 id s hg
      cases hds : s.deleted with
      | false => rfl
      | true =>
        rcases hdel id s hg0 hds with h2 | h2
        · subst h2; rw [ha] at hg0; cases hg0; rw [hd] at hds; cases hds
        · rw [hfl (hpriv h2)] at hds; cases hds
    | true =>
      simp only [if_true]
      refine ⟨HInv_removeDeleted h1 (AMap.nodup_keys_erase _ h1.sessNodup) ?_ ?_ rfl rfl, ?_⟩
      · intro id s hg; exact (AMap.get_of_get_erase hg).2
      · intro id s hg hl
        have hne : id ≠ sid := by
          intro he; subst he
          have := (f1 id s hg).1
          rw [ha] at this; cases this
          rw [hd] at hl; cases hl
        show AMap.get (AMap.erase st1.sessions sid) id = some s
        rw [AMap.get_erase_other hne]; exact hg
      · intro id s hg
        change AMap.get (AMap.erase st1.sessions sid) id = some s at hg
        obtain ⟨hne, hg1⟩ := AMap.get_of_get_erase hg
        obtain ⟨hg0, hfl⟩ := f1 id s hg1
        cases hds : s.deleted with
        | false => rfl
        | true =>
          rcases hdel id s hg0 hds with h2 | h2
          · exact absurd h2 hne
          · rw [hfl (hpriv h2)] at hds; cases hds

/-- when no stored session is flagged, `maybeDeleteSession` changes nothing -/
theorem maybeDeleteSession_of_noDeleted {st : St} {sid : Id}
    (hnd : (AMap.keys st.sessions).Nodup)
    (h : ∀ id s, AMap.get st.sessions id = some s → s.deleted = false) :
    (maybeDeleteSession st sid).nicks = st.nicks ∧ (maybeDeleteSession st sid).channels = st.channels ∧
    ∀ id, AMap.get (maybeDeleteSession st sid).sessions id = AMap.get st.sessions id := by
  unfold maybeDeleteSession
  cases ha : AMap.get st.sessions sid with
  | none => exact ⟨rfl, rfl, fun _ => rfl⟩
  | some a =>
    simp only [h sid a ha, Bool.false_eq_true, if_false]
    by_cases hb : (a.server || a.operator) = true
    · simp only [hb, if_true]
      refine ⟨trivial, trivial, fun id => ?_⟩
      cases hg : AMap.get st.sessions id with
      | none =>
        rw [AMap.get_eq_none_iff] at hg ⊢
        exact fun hm => hg (AMap.mem_keys_filter hm)
      | some s =>
        exact (AMap.get_filter _ hnd).2 ⟨hg, by simp [h id s hg]⟩
    · simp [hb]

end Robust.Irc
