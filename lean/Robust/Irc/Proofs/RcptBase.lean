import Robust.Irc.Proofs.NInv
import Robust.Irc.Proofs.H2Base
/-!
C12, part 1: the recipient sets computed by the `send*` helpers of ircserver.go
(`rcChannel`, `rcChannelButOne`, `rcCommonChannels`, `rcUser`, `rcAllUsers`, `rcServices`).

Recipients are *numeric* session ids (`Out.rcpt : List Nat`, Go's `InterestingFor`): a services
pseudo-client `⟨link, k⟩` is reached through its link `⟨link, 0⟩`, so "session `id` receives the line"
is `id.id ∈ rcpt`.

* raw characterisations (no invariant): the list returned is the image of the member keys under the
  nick index;
* under `WInv`: the members of a stored channel are exactly the indexed sessions listing it
  (`ChanRcpt`);
* under `Inv` + `NInv` (between entries): exactly the stored sessions listing it (`ChanMember`).
-/
namespace Robust.Irc
open Robust AMap

/-! ### `mapRes` -/

/-- a successful `mapRes` is a `map` -/
theorem mapRes_eq_map {α β : Type} {f : α → Res β} {g : α → β} {l : List α}
    (h : ∀ a ∈ l, f a = Res.ok (g a)) : mapRes f l = Res.ok (l.map g) := by
  induction l with
  | nil => rfl
  | cons a t ih =>
    have h1 := h a (List.mem_cons_self ..)
    have h2 := ih (fun x hx => h x (List.mem_cons_of_mem _ hx))
    simp [mapRes, h1, h2]

/-- elements of the input of a successful `mapRes` have their image in the output -/
theorem mapRes_mem_of {α β : Type} {f : α → Res β} {l : List α} {bs : List β} (h : mapRes f l = Res.ok bs)
    {a : α} (ha : a ∈ l) : ∃ b ∈ bs, f a = Res.ok b := by
  induction l generalizing bs with
  | nil => cases ha
  | cons x t ih =>
    unfold mapRes at h
    obtain ⟨b0, hb0, h⟩ := Res.bind_eq_ok.1 h
    obtain ⟨bs0, hbs0, h⟩ := Res.bind_eq_ok.1 h
    cases h
    rcases List.mem_cons.1 ha with rfl | ha
    · exact ⟨b0, List.mem_cons_self .., hb0⟩
    · obtain ⟨b, hb, hf⟩ := ih hbs0 ha
      exact ⟨b, List.mem_cons_of_mem _ hb, hf⟩

theorem mapRes_mem_iff {α β : Type} {f : α → Res β} {l : List α} {bs : List β} (h : mapRes f l = Res.ok bs)
    {b : β} : b ∈ bs ↔ ∃ a ∈ l, f a = Res.ok b := by
  constructor
  · exact mapRes_mem h
  · rintro ⟨a, ha, hf⟩
    obtain ⟨b', hb', hf'⟩ := mapRes_mem_of h ha
    rw [hf] at hf'; cases hf'
    exact hb'

theorem mapRes_length {α β : Type} {f : α → Res β} {l : List α} {bs : List β} (h : mapRes f l = Res.ok bs) :
    bs.length = l.length := by
  induction l generalizing bs with
  | nil => cases h; rfl
  | cons x t ih =>
    unfold mapRes at h
    obtain ⟨b0, hb0, h⟩ := Res.bind_eq_ok.1 h
    obtain ⟨bs0, hbs0, h⟩ := Res.bind_eq_ok.1 h
    cases h
    simp [ih hbs0]

/-! ### raw characterisations -/

theorem nickId_eq_ok {st : St} {x : String} {n : Nat} :
    nickId st x = Res.ok n ↔ ∃ id, AMap.get st.nicks x = some id ∧ id.id = n := by
  unfold nickId
  cases AMap.get st.nicks x with
  | none => simp
  | some id => simp

/-- `sendChannel`: the recipients are the ids the nick index gives for the member keys -/
theorem rcChannel_mem {st : St} {ch : Channel} {ids : List Nat} (h : rcChannel st ch = Res.ok ids) {n : Nat} :
    n ∈ ids ↔ ∃ x id, x ∈ AMap.keys ch.nicks ∧ AMap.get st.nicks x = some id ∧ id.id = n := by
  unfold rcChannel at h
  rw [mapRes_mem_iff h]
  constructor
  · rintro ⟨x, hx, hf⟩
    obtain ⟨id, h1, h2⟩ := nickId_eq_ok.1 hf
    exact ⟨x, id, hx, h1, h2⟩
  · rintro ⟨x, id, hx, h1, h2⟩
    exact ⟨x, hx, nickId_eq_ok.2 ⟨id, h1, h2⟩⟩

/-- `sendChannelButOne`: the same, minus the member whose index entry is `user` -/
theorem rcChannelButOne_mem {st : St} {ch : Channel} {user : Id} {ids : List Nat}
    (h : rcChannelButOne st ch user = Res.ok ids) {n : Nat} :
    n ∈ ids ↔ ∃ x id, x ∈ AMap.keys ch.nicks ∧ AMap.get st.nicks x = some id ∧ id ≠ user ∧ id.id = n := by
  unfold rcChannelButOne at h
  obtain ⟨l, hl, h⟩ := Res.bind_eq_ok.1 h
  cases h
  simp only [List.mem_map, List.mem_filter, decide_eq_true_eq]
  constructor
  · rintro ⟨id, ⟨hid, hne⟩, rfl⟩
    obtain ⟨x, hx, hf⟩ := (mapRes_mem_iff hl).1 hid
    cases hg : AMap.get st.nicks x with
    | none => rw [hg] at hf; cases hf
    | some id' =>
      rw [hg] at hf
      cases hf
      exact ⟨x, id, hx, hg, hne, rfl⟩
  · rintro ⟨x, id, hx, h1, hne, rfl⟩
    refine ⟨id, ⟨(mapRes_mem_iff hl).2 ⟨x, hx, ?_⟩, hne⟩, rfl⟩
    rw [h1]

/-- `sendCommonChannels`: the union over the channels the session value lists (missing channels are skipped) -/
theorem rcCommonChannels_mem {st : St} {u : Session} {ids : List Nat} (h : rcCommonChannels st u = Res.ok ids)
    {n : Nat} :
    n ∈ ids ↔ ∃ lc ch l, lc ∈ u.channels ∧ AMap.get st.channels lc = some ch ∧ rcChannel st ch = Res.ok l ∧ n ∈ l := by
  unfold rcCommonChannels at h
  obtain ⟨ls, hls, h⟩ := Res.bind_eq_ok.1 h
  cases h
  simp only [List.mem_flatten]
  constructor
  · rintro ⟨l, hl, hn⟩
    obtain ⟨lc, hlc, hf⟩ := (mapRes_mem_iff hls).1 hl
    cases hg : AMap.get st.channels lc with
    | none => rw [hg] at hf; cases hf; cases hn
    | some ch =>
      rw [hg] at hf
      exact ⟨lc, ch, l, hlc, hg, hf, hn⟩
  · rintro ⟨lc, ch, l, hlc, hg, hl, hn⟩
    refine ⟨l, (mapRes_mem_iff hls).2 ⟨lc, hlc, ?_⟩, hn⟩
    rw [hg]; exact hl

theorem mem_rcUser {sid : Id} {n : Nat} : n ∈ rcUser sid ↔ n = sid.id := by simp [rcUser]

/-- `sendAllUsers` (the `$`-broadcast of an operator): every indexed session -/
theorem mem_rcAllUsers {st : St} (hn : (AMap.keys st.nicks).Nodup) {n : Nat} :
    n ∈ rcAllUsers st ↔ ∃ x id, AMap.get st.nicks x = some id ∧ id.id = n := by
  unfold rcAllUsers
  simp only [List.mem_map]
  constructor
  · rintro ⟨⟨x, id⟩, he, rfl⟩
    exact ⟨x, id, (AMap.get_iff_mem hn).2 he, rfl⟩
  · rintro ⟨x, id, h1, rfl⟩
    exact ⟨(x, id), AMap.mem_of_get h1, rfl⟩

/-! ### under the invariant: recipients = members -/

/-- the session `id` is indexed (hence live) and lists channel `lc` -/
def OnChan (st : St) (lc : String) (id : Id) : Prop :=
  ∃ x s, AMap.get st.nicks x = some id ∧ AMap.get st.sessions id = some s ∧ lc ∈ s.channels

/-- the session stored under `id` lists channel `lc` -/
def Lists (st : St) (lc : String) (id : Id) : Prop :=
  ∃ s, AMap.get st.sessions id = some s ∧ lc ∈ s.channels

theorem OnChan.lists {st : St} {lc : String} {id : Id} (h : OnChan st lc id) : Lists st lc id := by
  obtain ⟨_, s, _, h2, h3⟩ := h
  exact ⟨s, h2, h3⟩

/-- between entries (`Inv`: no session is flagged deleted; `NInv`: a nickless session lists no channel)
every session that lists a channel is indexed -/
theorem onChan_iff_lists {st : St} (hi : Inv st) (hn : NInv st) {lc : String} {id : Id} :
    OnChan st lc id ↔ Lists st lc id := by
  refine ⟨OnChan.lists, ?_⟩
  rintro ⟨s, hs, hl⟩
  have hnick : s.nick ≠ "" := by
    intro he
    have := (hn.2 id s hs he).1
    rw [this] at hl; cases hl
  exact ⟨nickToLower s.nick, s, hi.owns id s hs (hi.noDeleted id s hs) hnick, hs, hl⟩

/-- the member keys of a stored channel are the index keys of the sessions on it -/
theorem WInv.memberKey_iff {st : St} (h : WInv st) {lc : String} {ch : Channel}
    (hc : AMap.get st.channels lc = some ch) {id : Id} :
    (∃ x, x ∈ AMap.keys ch.nicks ∧ AMap.get st.nicks x = some id) ↔ OnChan st lc id := by
  constructor
  · rintro ⟨x, hx, hi⟩
    obtain ⟨id', s, h1, h2, h3⟩ := (h.chans lc ch hc).2.2 x hx
    rw [hi] at h1; cases h1
    exact ⟨x, s, hi, h2, h3⟩
  · rintro ⟨x, s, hi, hs, hl⟩
    obtain ⟨c', hc', hcont⟩ := h.member x id s hi hs lc hl
    rw [hc] at hc'; cases hc'
    exact ⟨x, AMap.contains_iff_mem_keys.1 hcont, hi⟩

/-- **sendChannel**: no panic, and the recipients are exactly the (ids of the) sessions on the channel -/
theorem rcChannel_spec {st : St} (h : WInv st) {lc : String} {ch : Channel}
    (hc : AMap.get st.channels lc = some ch) :
    ∃ ids, rcChannel st ch = Res.ok ids ∧ ∀ n, n ∈ ids ↔ ∃ id, OnChan st lc id ∧ id.id = n := by
  obtain ⟨ids, hids⟩ := rcChannel_ok h.toWInvCore hc
  refine ⟨ids, hids, fun n => ?_⟩
  rw [rcChannel_mem hids]
  constructor
  · rintro ⟨x, id, hx, hi, rfl⟩
    exact ⟨id, (h.memberKey_iff hc).1 ⟨x, hx, hi⟩, rfl⟩
  · rintro ⟨id, ho, rfl⟩
    obtain ⟨x, hx, hi⟩ := (h.memberKey_iff hc).2 ho
    exact ⟨x, id, hx, hi, rfl⟩

theorem rcChannel_rcpt {st : St} (h : WInv st) {lc : String} {ch : Channel}
    (hc : AMap.get st.channels lc = some ch) {ids : List Nat} (hr : rcChannel st ch = Res.ok ids) (n : Nat) :
    n ∈ ids ↔ ∃ id, OnChan st lc id ∧ id.id = n := by
  obtain ⟨ids', h1, h2⟩ := rcChannel_spec h hc
  rw [hr] at h1; cases h1
  exact h2 n

/-- **sendChannelButOne**: no panic; exactly the sessions on the channel other than `user` -/
theorem rcChannelButOne_spec {st : St} (h : WInv st) {lc : String} {ch : Channel}
    (hc : AMap.get st.channels lc = some ch) (user : Id) :
    ∃ ids, rcChannelButOne st ch user = Res.ok ids ∧
      ∀ n, n ∈ ids ↔ ∃ id, OnChan st lc id ∧ id ≠ user ∧ id.id = n := by
  obtain ⟨ids, hids⟩ := rcChannelButOne_ok h.toWInvCore user hc
  refine ⟨ids, hids, fun n => ?_⟩
  rw [rcChannelButOne_mem hids]
  constructor
  · rintro ⟨x, id, hx, hi, hne, rfl⟩
    exact ⟨id, (h.memberKey_iff hc).1 ⟨x, hx, hi⟩, hne, rfl⟩
  · rintro ⟨id, ho, hne, rfl⟩
    obtain ⟨x, hx, hi⟩ := (h.memberKey_iff hc).2 ho
    exact ⟨x, id, hx, hi, hne, rfl⟩

theorem rcChannelButOne_rcpt {st : St} (h : WInv st) {lc : String} {ch : Channel}
    (hc : AMap.get st.channels lc = some ch) {user : Id} {ids : List Nat}
    (hr : rcChannelButOne st ch user = Res.ok ids) (n : Nat) :
    n ∈ ids ↔ ∃ id, OnChan st lc id ∧ id ≠ user ∧ id.id = n := by
  obtain ⟨ids', h1, h2⟩ := rcChannelButOne_spec h hc user
  rw [hr] at h1; cases h1
  exact h2 n

/-- **sendCommonChannels** for an arbitrary session *value* `u` (stored or not, flagged deleted or not):
no panic; exactly the sessions that are on one of the channels `u` lists.  If `u` itself is an indexed
stored session it is among them as soon as it lists a channel. -/
theorem rcCommonChannels_spec {st : St} (h : WInv st) (u : Session) :
    ∃ ids, rcCommonChannels st u = Res.ok ids ∧
      ∀ n, n ∈ ids ↔ ∃ lc id, lc ∈ u.channels ∧ OnChan st lc id ∧ id.id = n := by
  obtain ⟨ids, hids⟩ := rcCommonChannels_ok h.toWInvCore u
  refine ⟨ids, hids, fun n => ?_⟩
  rw [rcCommonChannels_mem hids]
  constructor
  · rintro ⟨lc, ch, l, hlc, hc, hl, hn⟩
    obtain ⟨id, ho, he⟩ := (rcChannel_rcpt h hc hl n).1 hn
    exact ⟨lc, id, hlc, ho, he⟩
  · rintro ⟨lc, id, hlc, ho, he⟩
    obtain ⟨x, s, hi, hs, hl⟩ := ho
    obtain ⟨ch, hc, _⟩ := h.member x id s hi hs lc hl
    obtain ⟨l, hl', hmem⟩ := rcChannel_spec h hc
    exact ⟨lc, ch, l, hlc, hc, hl', (hmem n).2 ⟨id, ⟨x, s, hi, hs, hl⟩, he⟩⟩

theorem rcCommonChannels_rcpt {st : St} (h : WInv st) {u : Session} {ids : List Nat}
    (hr : rcCommonChannels st u = Res.ok ids) (n : Nat) :
    n ∈ ids ↔ ∃ lc id, lc ∈ u.channels ∧ OnChan st lc id ∧ id.id = n := by
  obtain ⟨ids', h1, h2⟩ := rcCommonChannels_spec h u
  rw [hr] at h1; cases h1
  exact h2 n

/-- an indexed stored session that lists at least one channel is among its own common-channel recipients -/
theorem rcCommonChannels_self {st : St} (h : WInv st) {x : String} {id : Id} {u : Session}
    (hi : AMap.get st.nicks x = some id) (hs : AMap.get st.sessions id = some u) {lc : String}
    (hl : lc ∈ u.channels) {ids : List Nat} (hr : rcCommonChannels st u = Res.ok ids) : id.id ∈ ids :=
  (rcCommonChannels_rcpt h hr id.id).2 ⟨lc, id, hl, ⟨x, u, hi, hs, hl⟩, rfl⟩

/-! ### the forms between entries (`Inv` + `NInv`): recipients = stored sessions listing the channel -/

theorem rcChannel_spec_inv {st : St} (hi : Inv st) (hn : NInv st) {lc : String} {ch : Channel}
    (hc : AMap.get st.channels lc = some ch) :
    ∃ ids, rcChannel st ch = Res.ok ids ∧ ∀ n, n ∈ ids ↔ ∃ id, Lists st lc id ∧ id.id = n := by
  obtain ⟨ids, h1, h2⟩ := rcChannel_spec hi.toWInv hc
  refine ⟨ids, h1, fun n => ?_⟩
  rw [h2]
  constructor <;> (rintro ⟨id, ho, he⟩; exact ⟨id, by first | exact (onChan_iff_lists hi hn).1 ho | exact (onChan_iff_lists hi hn).2 ho, he⟩)

theorem rcChannelButOne_spec_inv {st : St} (hi : Inv st) (hn : NInv st) {lc : String} {ch : Channel}
    (hc : AMap.get st.channels lc = some ch) (user : Id) :
    ∃ ids, rcChannelButOne st ch user = Res.ok ids ∧
      ∀ n, n ∈ ids ↔ ∃ id, Lists st lc id ∧ id ≠ user ∧ id.id = n := by
  obtain ⟨ids, h1, h2⟩ := rcChannelButOne_spec hi.toWInv hc user
  refine ⟨ids, h1, fun n => ?_⟩
  rw [h2]
  constructor <;> (rintro ⟨id, ho, hne, he⟩; exact ⟨id, by first | exact (onChan_iff_lists hi hn).1 ho | exact (onChan_iff_lists hi hn).2 ho, hne, he⟩)

theorem rcCommonChannels_spec_inv {st : St} (hi : Inv st) (hn : NInv st) (u : Session) :
    ∃ ids, rcCommonChannels st u = Res.ok ids ∧
      ∀ n, n ∈ ids ↔ ∃ lc id, lc ∈ u.channels ∧ Lists st lc id ∧ id.id = n := by
  obtain ⟨ids, h1, h2⟩ := rcCommonChannels_spec hi.toWInv u
  refine ⟨ids, h1, fun n => ?_⟩
  rw [h2]
  constructor <;> (rintro ⟨lc, id, hl, ho, he⟩; exact ⟨lc, id, hl, by first | exact (onChan_iff_lists hi hn).1 ho | exact (onChan_iff_lists hi hn).2 ho, he⟩)

end Robust.Irc
