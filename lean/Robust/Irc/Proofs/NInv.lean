import Robust.Irc.Proofs.HandlerSpec
/-!
Two further, separately kept conjuncts of the global invariant: *nickless sessions are inert*
(`NInv`) and *names are syntactically valid* (`VInv`).

`Inv` (see `InvDef.lean`) allows a session without nickname to be indexed under `""` or to list
channels.  Since `cmdServerNick` validates the nickname, no session is ever indexed under `""`, and
`NInv` records this: `""` is not an index key, and a session without nickname lists no channel
and is not indexed.

`VInv`: every nickname carried by a stored session satisfies `isValidNickname`, every stored channel's
name satisfies `isValidChannel` (NICK, SVSNICK, the services NICK and the three JOIN variants check
this before they store a name).

The working form of `NInv ∧ VInv` is `NI` (the part of `NInv` about the index follows from
`WInvCore.index`); this file proves that every primitive that touches `nick` / the index / the
channel lists / channel names preserves `NI`, without assuming any of the other invariants wherever
possible.
-/
namespace Robust.Irc
open Robust AMap

/-- a session without nickname is not indexed and is in no channel; and "" is not an index key -/
def NInv (st : St) : Prop :=
  AMap.get st.nicks "" = none ∧
  ∀ id s, AMap.get st.sessions id = some s → s.nick = "" →
    s.channels = [] ∧ ∀ x, AMap.get st.nicks x ≠ some id

/-- every nickname and every channel name is syntactically valid -/
def VInv (st : St) : Prop :=
  (∀ id s, AMap.get st.sessions id = some s → s.nick ≠ "" → isValidNickname s.nick = true) ∧
  (∀ lc c, AMap.get st.channels lc = some c → isValidChannel c.name = true)

/-- the condition on one session value -/
def SessOK (s : Session) : Prop :=
  (s.nick = "" → s.channels = []) ∧ (s.nick ≠ "" → isValidNickname s.nick = true)

/-- working form of `NInv ∧ VInv` -/
structure NI (st : St) : Prop where
  idx : AMap.get st.nicks "" = none
  sess : ∀ id s, AMap.get st.sessions id = some s → SessOK s
  chan : ∀ lc c, AMap.get st.channels lc = some c → isValidChannel c.name = true

theorem NI.of {st : St} (h : NInv st) (hv : VInv st) : NI st :=
  ⟨h.1, fun id s hg => ⟨fun hn => (h.2 id s hg hn).1, hv.1 id s hg⟩, hv.2⟩

theorem NI.ninv {st : St} (h : NI st) (hw : WInvCore st) : NInv st := by
  refine ⟨h.idx, fun id s hg hn => ⟨(h.sess id s hg).1 hn, fun x hx => ?_⟩⟩
  obtain ⟨s0, hs0, _, hlow⟩ := hw.index x id hx
  rw [hg] at hs0; cases hs0
  rw [hn, nickToLower_empty] at hlow
  subst hlow
  rw [h.idx] at hx; cases hx

theorem NI.vinv {st : St} (h : NI st) : VInv st := ⟨fun id s hg => (h.sess id s hg).2, h.chan⟩

theorem NI_init : NI ({} : St) := ⟨rfl, by intro id s h; simp at h, by intro lc c h; simp at h⟩
theorem NInv_init : NInv ({} : St) := NI_init.ninv WInv_init.toWInvCore
theorem VInv_init : VInv ({} : St) := NI_init.vinv

/-- an indexed session has a nickname -/
theorem NI.indexed_nick {st : St} (h : NI st) (hw : WInvCore st) {x : String} {id : Id} {s : Session}
    (hi : AMap.get st.nicks x = some id) (hs : AMap.get st.sessions id = some s) : s.nick ≠ "" := by
  intro hn
  obtain ⟨s0, hs0, _, hlow⟩ := hw.index x id hi
  rw [hs] at hs0; cases hs0
  rw [hn, nickToLower_empty] at hlow
  subst hlow
  rw [h.idx] at hi; cases hi

/-! ### primitives -/

theorem NI.congr {st st' : St} (h : NI st) (hs : st'.sessions = st.sessions) (hn : st'.nicks = st.nicks)
    (hc : st'.channels = st.channels) : NI st' := by
  obtain ⟨a, b, d⟩ := h
  constructor
  · rw [hn]; exact a
  · rw [hs]; exact b
  · rw [hc]; exact d

/-- inert updates -/
theorem NI.sim {st st' : St} (h : NI st) (hs : StSim st st') : NI st' := by
  refine ⟨by rw [hs.nicks]; exact h.idx, fun id s' hg => ?_, fun lc c' hg => ?_⟩
  · obtain ⟨s, hg0, hcore⟩ := hs.sess.bwd hg
    obtain ⟨_, _, e3, e4⟩ := Session.core_eq.1 hcore
    have := h.sess id s hg0
    unfold SessOK at this ⊢
    rw [e3, e4]; exact this
  · obtain ⟨c, hg0, hcore⟩ := hs.chans.bwd hg
    obtain ⟨e1, _⟩ := Channel.core_eq.1 hcore
    rw [e1]; exact h.chan lc c hg0

theorem NI.emit {c : Ctx} (h : NI c.st) (m : IrcMsg) (r : List Nat) : NI (emit c m r).st := h
theorem NI.sendUser {c : Ctx} (h : NI c.st) (sid : Id) (m : IrcMsg) : NI (sendUser c sid m).st := h
theorem NI.sendSvc {c : Ctx} (h : NI c.st) (m : IrcMsg) : NI (sendSvc c m).st := h

/-- storing a channel with a valid name -/
theorem NI.putChan {c : Ctx} (h : NI c.st) (lc : String) {ch : Channel} (hv : isValidChannel ch.name = true) :
    NI (putChan c lc ch).st := by
  refine ⟨h.idx, h.sess, fun lc' c' hg => ?_⟩
  rw [putChan_channels, AMap.get_set] at hg
  split at hg
  · cases hg; exact hv
  · exact h.chan lc' c' hg

/-- storing a channel that carries the name of a stored one -/
theorem NI.putChan_same {c : Ctx} (h : NI c.st) (lc : String) {lc0 : String} {ch ch0 : Channel}
    (hg : AMap.get c.st.channels lc0 = some ch0) (hname : ch.name = ch0.name) :
    NI (Robust.Irc.putChan c lc ch).st :=
  h.putChan lc (by rw [hname]; exact h.chan lc0 ch0 hg)

/-- storing a session value that itself satisfies the condition -/
theorem NI.setSession {st st' : St} (h : NI st) {k : Id} {v : Session} (hv : SessOK v)
    (hs : st'.sessions = AMap.set st.sessions k v) (hn : st'.nicks = st.nicks) (hc : st'.channels = st.channels) :
    NI st' := by
  refine ⟨by rw [hn]; exact h.idx, fun id s hg => ?_, by rw [hc]; exact h.chan⟩
  rw [hs, AMap.get_set] at hg
  split at hg
  · cases hg; exact hv
  · exact h.sess id s hg

theorem NI.putS {c : Ctx} (h : NI c.st) {s' : Session} (hv : SessOK s') : NI (putS c s').st :=
  h.setSession hv rfl rfl rfl

/-- general form: the new value is fine, given that the old one was -/
theorem NI.modS {c c' : Ctx} {tid : Id} {f : Session → Session} (h : NI c.st) (hr : Robust.Irc.modS c tid f = Res.ok c')
    (hf : ∀ s, AMap.get c.st.sessions tid = some s → SessOK s → SessOK (f s)) : NI c'.st := by
  obtain ⟨s, hs, rfl⟩ := modS_eq_ok.1 hr
  exact h.putS (hf s hs (h.sess tid s hs))

/-- `nick` is kept and the channel list does not grow -/
theorem NI.modS_sub {c c' : Ctx} {tid : Id} {f : Session → Session} (h : NI c.st) (hr : Robust.Irc.modS c tid f = Res.ok c')
    (hf : ∀ s, (f s).nick = s.nick ∧ ∀ x ∈ (f s).channels, x ∈ s.channels) : NI c'.st :=
  h.modS hr fun s _ h0 => by
    refine ⟨fun hn => ?_, fun hn => by rw [(hf s).1] at hn ⊢; exact h0.2 hn⟩
    have h1 := h0.1 (by rw [← (hf s).1]; exact hn)
    apply List.eq_nil_iff_forall_not_mem.2
    intro x hx
    have := (hf s).2 x hx
    rw [h1] at this
    cases this

/-- `nick` and `channels` are kept -/
theorem NI.modS_keep {c c' : Ctx} {tid : Id} {f : Session → Session} (h : NI c.st) (hr : Robust.Irc.modS c tid f = Res.ok c')
    (hf : ∀ s, (f s).nick = s.nick ∧ (f s).channels = s.channels) : NI c'.st :=
  h.modS_sub hr fun s => ⟨(hf s).1, fun x hx => by rw [← (hf s).2]; exact hx⟩

/-- the session gets a (valid) nickname -/
theorem NI.modS_nick {c c' : Ctx} {tid : Id} {f : Session → Session} (h : NI c.st) (hr : Robust.Irc.modS c tid f = Res.ok c')
    (hf : ∀ s, isValidNickname (f s).nick = true) : NI c'.st :=
  h.modS hr fun s _ _ => ⟨fun hn => absurd hn (isValidNickname_ne_empty (hf s)), fun _ => hf s⟩

/-- the session stored under `tid` has a nickname and keeps it (JOIN) -/
theorem NI.modS_named {c c' : Ctx} {tid : Id} {f : Session → Session} {t : Session} (h : NI c.st)
    (hr : Robust.Irc.modS c tid f = Res.ok c') (ht : AMap.get c.st.sessions tid = some t) (hn : t.nick ≠ "")
    (hf : ∀ s, (f s).nick = s.nick) : NI c'.st :=
  h.modS hr fun s hs h0 => by
    rw [ht] at hs; cases hs
    refine ⟨fun hn' => ?_, fun hn' => by rw [hf] at hn' ⊢; exact h0.2 hn'⟩
    rw [hf] at hn'
    exact absurd hn' hn

theorem NI.setNick {st st' : St} (h : NI st) {k : String} {id : Id} (hk : k ≠ "")
    (hs : st'.sessions = st.sessions) (hn : st'.nicks = AMap.set st.nicks k id) (hc : st'.channels = st.channels) :
    NI st' := by
  refine ⟨?_, by rw [hs]; exact h.sess, by rw [hc]; exact h.chan⟩
  rw [hn, AMap.get_set_other _ (Ne.symm hk)]; exact h.idx

theorem NI.eraseNick {st st' : St} (h : NI st) {k : String}
    (hs : st'.sessions = st.sessions) (hn : st'.nicks = AMap.erase st.nicks k) (hc : st'.channels = st.channels) :
    NI st' := by
  refine ⟨?_, by rw [hs]; exact h.sess, by rw [hc]; exact h.chan⟩
  rw [hn, AMap.get_erase]
  split
  · rfl
  · exact h.idx

theorem NI.withNicksErase {st : St} (h : NI st) (k : String) : NI { st with nicks := AMap.erase st.nicks k } :=
  h.eraseNick rfl rfl rfl

theorem NI.withNicksSet {st : St} (h : NI st) {k : String} (hk : k ≠ "") (id : Id) :
    NI { st with nicks := AMap.set st.nicks k id } :=
  h.setNick hk rfl rfl rfl

theorem NI.maybeDeleteChannel {c : Ctx} (h : NI c.st) (lc : String) : NI (maybeDeleteChannel c lc).st := by
  unfold Robust.Irc.maybeDeleteChannel
  split
  · exact h
  · split
    · exact h
    · refine ⟨h.idx, fun id s hg => ?_, fun lc' c' hg => ?_⟩
      · dsimp only at hg
        rw [AMap.get_map_val'] at hg
        cases hg0 : AMap.get c.st.sessions id with
        | none => rw [hg0] at hg; cases hg
        | some s0 =>
          rw [hg0] at hg
          simp only [Option.map_some, Option.some.injEq] at hg
          subst hg
          exact h.sess id s0 hg0
      · exact h.chan lc' c' (AMap.get_of_get_erase hg).2

theorem NI.leaveChannel {c c' : Ctx} {lc lcn : String} {tid : Id} (h : NI c.st)
    (hr : leaveChannel c lc lcn tid = Res.ok c') : NI c'.st := by
  unfold Robust.Irc.leaveChannel at hr
  split at hr
  · rename_i ch hch
    exact ((h.putChan_same lc (ch := { ch with nicks := AMap.erase ch.nicks lcn }) hch rfl).maybeDeleteChannel lc).modS_sub hr
      fun s => ⟨rfl, fun x hx => (List.mem_filter.1 hx).1⟩
  · cases hr

theorem NI.foldl {α : Type} {f : Ctx → α → Ctx} (hf : ∀ c a, NI c.st → NI (f c a).st) :
    ∀ (l : List α) (c : Ctx), NI c.st → NI (l.foldl f c).st
  | [], _, h => h
  | a :: t, c, h => NI.foldl hf t (f c a) (hf c a h)

theorem NI.deleteSession {c c' : Ctx} {sid : Id} (h : NI c.st) (hr : deleteSession c sid = Res.ok c') : NI c'.st := by
  unfold Robust.Irc.deleteSession at hr
  obtain ⟨s, _, hr⟩ := Res.bind_eq_ok.1 hr
  dsimp only at hr
  refine NI.modS_keep ?_ hr (fun _ => ⟨rfl, rfl⟩)
  refine NI.withNicksErase ?_ _
  refine NI.foldl ?_ _ _ h
  intro c1 e h1
  split
  · exact h1
  · rename_i ch hch
    exact (h1.putChan_same e.1 (ch := { ch with nicks := AMap.erase ch.nicks (nickToLower s.nick) }) hch rfl).maybeDeleteChannel _

theorem NI.createSession {st st' : St} {id : Id} {auth : String} {ts : Int} (h : NI st)
    (hr : createSession st id auth ts = some st') : NI st' := by
  rw [createSession_eq hr]
  exact h.setSession ⟨fun _ => rfl, fun hn => absurd rfl hn⟩ rfl rfl rfl

theorem NI.renameCtx {c : Ctx} (h : NI c.st) (tid : Id) {lcnew : String} (old : String) (b : Bool)
    (hk : lcnew ≠ "") : NI (renameCtx c tid lcnew old b).st := by
  unfold Robust.Irc.renameCtx
  have h1 : NI { c.st with nicks := AMap.set c.st.nicks lcnew tid } := h.setNick hk rfl rfl rfl
  cases b with
  | false => exact h1
  | true =>
    refine ⟨(h1.eraseNick (k := old) (st' := { c.st with nicks := AMap.erase (AMap.set c.st.nicks lcnew tid) old }) rfl rfl rfl).idx,
      h1.sess, fun lc' c' hg => ?_⟩
    change AMap.get (c.st.channels.map (rekeyChan old lcnew)) lc' = some c' at hg
    rw [get_map_rekeyChan] at hg
    cases hg0 : AMap.get c.st.channels lc' with
    | none => rw [hg0] at hg; cases hg
    | some c0 =>
      rw [hg0] at hg
      simp only [Option.map_some, Option.some.injEq] at hg
      subst hg
      exact h.chan lc' c0 hg0

theorem NI.updateLastClientMessageID {st st' : St} {e : Entry} (h : NI st)
    (hr : updateLastClientMessageID st e = some st') : NI st' := by
  unfold Robust.Irc.updateLastClientMessageID at hr
  cases hg : AMap.get st.sessions e.session with
  | none => simp [hg] at hr
  | some s =>
    simp only [hg, Option.some.injEq] at hr
    subst hr
    refine h.setSession (hv := ?_) rfl rfl rfl
    exact h.sess _ s hg

/-- purging sessions -/
theorem NI.maybeDeleteSession {st : St} (sid : Id) (h : NI st) (hnd : (AMap.keys st.sessions).Nodup) :
    NI (maybeDeleteSession st sid) := by
  have hsub : ∀ st' : St, st'.nicks = st.nicks → st'.channels = st.channels →
      (∀ id s, AMap.get st'.sessions id = some s → AMap.get st.sessions id = some s) → NI st' :=
    fun st' hn hc hs => ⟨by rw [hn]; exact h.idx, fun id s hg => h.sess id s (hs id s hg), by rw [hc]; exact h.chan⟩
  unfold Robust.Irc.maybeDeleteSession
  cases ha : AMap.get st.sessions sid with
  | none => exact h
  | some a =>
    simp only
    have h1 : ∀ b : Bool, ∀ id s,
        AMap.get (if b = true then { st with sessions := st.sessions.filter (fun e => !e.2.deleted) } else st).sessions id = some s →
        AMap.get st.sessions id = some s := by
      intro b id s hg
      cases b with
      | false => exact hg
      | true => exact ((AMap.get_filter _ hnd).1 hg).1
    have h0 : ∀ b : Bool, (if b = true then { st with sessions := st.sessions.filter (fun e => !e.2.deleted) } else st).nicks = st.nicks := by
      intro b; cases b <;> rfl
    have h2 : ∀ b : Bool, (if b = true then { st with sessions := st.sessions.filter (fun e => !e.2.deleted) } else st).channels = st.channels := by
      intro b; cases b <;> rfl
    generalize (a.server || a.operator) = b
    have h1b := h1 b
    have h0b := h0 b
    have h2b := h2 b
    generalize (if b = true then { st with sessions := st.sessions.filter (fun e => !e.2.deleted) } else st) = st1 at h1b h0b h2b
    cases a.deleted with
    | false => simpa using hsub st1 h0b h2b h1b
    | true =>
      simp only [if_true]
      exact hsub _ h0b h2b fun id s hg => h1b id s (AMap.get_of_get_erase hg).2

end Robust.Irc
