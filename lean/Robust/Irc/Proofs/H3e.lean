import Robust.Irc.Proofs.H3d
/-!
NICK (introduce a pseudo-client), SVSNICK, KILL, QUIT.
-/
namespace Robust.Irc
open Srv
open Robust AMap

/-! ### NICK -/

theorem serverNick_fn_core (p0 p3 tr : String) :
    ∀ s : Session, (updateIrcPrefix { s with nick := p0, username := truncateUsername p3, realname := tr }).id = s.id ∧
      (updateIrcPrefix { s with nick := p0, username := truncateUsername p3, realname := tr }).deleted = s.deleted ∧
      (updateIrcPrefix { s with nick := p0, username := truncateUsername p3, realname := tr }).channels = s.channels ∧
      (updateIrcPrefix { s with nick := p0, username := truncateUsername p3, realname := tr }).nick = p0 :=
  fun _ => ⟨rfl, rfl, rfl, rfl⟩

theorem cmdServerNick_mid {c0 c c' : Ctx} {sid : Id} {m : IrcMsg} (h : Mid c0 c sid)
    (hr : cmdServerNick c sid m = Res.ok c') : Mid c0 c' sid := by
  unfold cmdServerNick at hr
  obtain ⟨s, hs, hr⟩ := Res.bind_eq_ok.1 hr
  rw [getS_eq_ok] at hs
  split at hr
  · cases hr; exact h
  · obtain ⟨p0, _, hr⟩ := Res.bind_eq_ok.1 hr
    split at hr
    · cases hr; exact h.sendSvc _
    · rename_i hv
      have hvalid : isValidNickname p0 = true := by simpa using hv
      split at hr
      · cases hr; exact h.sendSvc _
      · rename_i hnick
        dsimp only at hr
        split at hr
        · cases hr; exact h.sendSvc _
        · rename_i hsess
          split at hr
          · cases hr; exact h.sendSvc _
          · rename_i st1 hcs
            obtain ⟨p3, _, hr⟩ := Res.bind_eq_ok.1 hr
            obtain ⟨c2, hm, hr⟩ := Res.bind_eq_ok.1 hr
            cases hr
            have hnone : AMap.get c.st.nicks (nickToLower p0) = none :=
              AMap.contains_eq_false_iff.1 (by simpa using hnick)
            have hfresh : AMap.get c.st.sessions ⟨s.id.id, fnv64 p0⟩ = none :=
              AMap.contains_eq_false_iff.1 (by simpa using hsess)
            have hfree := h.hinv.toWInvCore.unindexed_of_fresh hfresh
            have hw := WInv_serverNick h.hinv.toWInv hfree hnone hcs hm (serverNick_fn_core p0 p3 m.trailing)
            have hne : sid ≠ ⟨s.id.id, fnv64 p0⟩ := by
              intro he; rw [← he, hs] at hfresh; cases hfresh
            have hl1 := LInv.createSession h.linv hcs
            have hni : NI c0.st → NI (Ctx.mk (St.mk c2.st.sessions (AMap.set c2.st.nicks (nickToLower p0) ⟨s.id.id, fnv64 p0⟩)
                c2.st.channels c2.st.svsholds c2.st.serverSessions c2.st.lastProcessed c2.st.serverName c2.st.config)
                c2.msgid c2.replyid c2.out).st := fun h0 =>
              (((h.ninv h0).createSession hcs).modS_nick (c := { c with st := st1 }) hm
                (fun _ => hvalid)).setNick (nickToLower_ne_empty_of_valid hvalid) rfl rfl rfl
            have e1 := createSession_eq hcs
            subst e1
            obtain ⟨ns, hns, rfl⟩ := modS_eq_ok.1 hm
            change AMap.get (AMap.set c.st.sessions _ _) _ = some ns at hns
            rw [AMap.get_set_same] at hns
            cases hns
            refine ⟨⟨hw, h.hinv.nonempty.congr rfl⟩, ?_, ?_, h.og.trans ⟨rfl, [], by simp⟩, hni⟩
            · refine LInv.congr (st := (putS _ _).st) (LInv.putS hl1 ?_) rfl
              intro hl; cases hl
            · exact (h.actor.set_other hne rfl).set_other (st' := (putS _ _).st) hne rfl

theorem cmdServerNick_preserves : PreservesSrv cmdServerNick :=
  PreservesSrv.of_mid fun _ _ _ _ _ h hr => cmdServerNick_mid h hr

/-- NICK cannot panic in the documented form (at least 4 parameters) nor in the 1-parameter no-op form -/
theorem cmdServerNick_noPanic {c : Ctx} {sid : Id} {m : IrcMsg} {s : Session}
    (hs : AMap.get c.st.sessions sid = some s) (hlen : m.params.length = 1 ∨ 4 ≤ m.params.length) :
    NoPanic (cmdServerNick c sid m) := by
  unfold cmdServerNick
  rw [getS_of_get hs]
  simp only [Res.ok_bind]
  split
  · exact NoPanic.pure _
  · rename_i h1
    have h4 : 4 ≤ m.params.length := by
      rcases hlen with h | h
      · rw [h] at h1; simp at h1
      · exact h
    obtain ⟨p0, hp0⟩ := param_ok (m := m) (i := 0) (by omega)
    obtain ⟨p3, hp3⟩ := param_ok (m := m) (i := 3) (by omega)
    simp only [hp0, hp3, Res.ok_bind]
    split
    · exact NoPanic.pure _
    · split
      · exact NoPanic.pure _
      · split
        · exact NoPanic.pure _
        · split
          · exact NoPanic.pure _
          · rename_i st1 hcs
            have e1 := createSession_eq hcs
            subst e1
            refine NoPanic.bind (NoPanic.of_ok ⟨_, modS_of_get _ (AMap.get_set_same _ _ _)⟩) (fun _ _ => NoPanic.pure _)

theorem cmdServerNick_safe : ServicesSafe cmdServerNick 4 :=
  fun _ _ _ _ _ hs _ _ hlen => cmdServerNick_noPanic hs (Or.inr hlen)

/-! ### SVSNICK -/

/-- the part of `cmdServerSvsnick` after the admission checks (a `do` join point) -/
def svsnickTail (c : Ctx) (p0 p1 : String) (tid : Id) : Res Ctx := do
  let t ← getS c tid
  let oldPrefix := t.ircPrefix
  let oldNick := nickToLower p0
  let lcnew := nickToLower p1
  let c ← modS c tid fun t => { t with nick := p1 }
  let c := renameCtx c tid lcnew oldNick (lcnew != oldNick)
  let c ← modS c tid updateIrcPrefix
  let t ← getS c tid
  let rc ← rcCommonChannels c.st t
  pure (emit c ⟨some oldPrefix, "NICK", [t.nick]⟩ (rcUser tid ++ rc ++ rcServices c.st))

theorem cmdServerSvsnick_eq (c : Ctx) (sid : Id) (m : IrcMsg) :
    cmdServerSvsnick c sid m = (do
      let p0 ← param m 0
      let p1 ← param m 1
      if !isValidNickname p1 then
        return sendSvc c (srv c "432" ["*", p1, "Erroneous nickname"])
      match AMap.get c.st.nicks (nickToLower p0) with
      | none => pure (sendSvc c (srv c "401" ["*", p0, "No such nick/channel"]))
      | some tid =>
        match AMap.get c.st.nicks (nickToLower p1) with
        | some other =>
          if other != tid then
            return sendSvc c (srv c "433" ["*", p1, "Nickname is already in use"])
          else svsnickTail c p0 p1 tid
        | none => svsnickTail c p0 p1 tid) := by
  unfold cmdServerSvsnick svsnickTail renameCtx
  rfl

theorem renameCtx_og (c : Ctx) (tid : Id) (lcnew old : String) (b : Bool) :
    OutGrows c (renameCtx c tid lcnew old b) := by
  unfold renameCtx
  cases b <;> exact ⟨rfl, [], by simp⟩

theorem updateIrcPrefix_inertFn : InertFn updateIrcPrefix := fun _ => ⟨rfl, rfl, rfl, rfl, rfl, rfl⟩

/-- the rename step of SVSNICK keeps `Mid` and the target stored -/
theorem svsnick_rename {c0 c c1 : Ctx} {sid tid : Id} {t : Session} {p0 p1 : String} (h : Mid c0 c sid)
    (hvalid : isValidNickname p1 = true)
    (hidx : AMap.get c.st.nicks (nickToLower p0) = some tid)
    (hnew : AMap.get c.st.nicks (nickToLower p1) = none ∨ AMap.get c.st.nicks (nickToLower p1) = some tid)
    (ht : AMap.get c.st.sessions tid = some t)
    (hm1 : modS c tid (fun t => { t with nick := p1 }) = Res.ok c1) :
    Mid c0 (renameCtx c1 tid (nickToLower p1) (nickToLower p0) (nickToLower p1 != nickToLower p0)) sid ∧
    ∃ t', AMap.get (renameCtx c1 tid (nickToLower p1) (nickToLower p0) (nickToLower p1 != nickToLower p0)).st.sessions tid = some t' := by
  have hcase : RenameCase c.st.nicks tid t (nickToLower p1) (nickToLower p0) (nickToLower p1 != nickToLower p0) := by
    by_cases he : nickToLower p1 = nickToLower p0
    · have : (nickToLower p1 != nickToLower p0) = false := by simp [he]
      rw [this]; exact .same (by rw [he]; exact hidx)
    · have : (nickToLower p1 != nickToLower p0) = true := by simp [he]
      rw [this]
      refine .rekey hidx ?_
      rcases hnew with h1 | h1
      · exact h1
      · exact absurd (h.hinv.toWInvCore.index_inj h1 hidx) he
  generalize (nickToLower p1 != nickToLower p0) = b at hcase ⊢
  have hI := rename_HInv h.hinv ht hm1 (fun s => ⟨rfl, rfl, rfl, rfl⟩) hcase
  have hL1 : LInv c1.st := h.linv.modS hm1 (fun s _ _ => isValidNickname_ne_empty hvalid)
  have hA1 : SrvActor c1.st sid := h.actor.modS h.hinv.toWInvCore (by intro s; exact ⟨rfl, rfl⟩) hm1
  have hss := renameCtx_sessions c1 tid (nickToLower p1) (nickToLower p0) b
  refine ⟨⟨hI, hL1.congr hss, hA1.congr hss, (h.og.trans (OutGrows.modS hm1)).trans (renameCtx_og _ _ _ _ _),
    fun h0 => ((h.ninv h0).modS_nick hm1 (fun _ => hvalid)).renameCtx _ _ _
      (nickToLower_ne_empty_of_valid hvalid)⟩, ?_⟩
  rw [hss]
  exact modS_keeps_stored hm1 ht

theorem svsnickTail_mid {c0 c c' : Ctx} {sid tid : Id} {p0 p1 : String} (h : Mid c0 c sid)
    (hvalid : isValidNickname p1 = true)
    (hidx : AMap.get c.st.nicks (nickToLower p0) = some tid)
    (hnew : AMap.get c.st.nicks (nickToLower p1) = none ∨ AMap.get c.st.nicks (nickToLower p1) = some tid)
    (hr : svsnickTail c p0 p1 tid = Res.ok c') : Mid c0 c' sid := by
  unfold svsnickTail at hr
  obtain ⟨t, ht, hr⟩ := Res.bind_eq_ok.1 hr
  rw [getS_eq_ok] at ht
  dsimp only at hr
  obtain ⟨c1, hm1, hr⟩ := Res.bind_eq_ok.1 hr
  obtain ⟨c2, hm2, hr⟩ := Res.bind_eq_ok.1 hr
  obtain ⟨t2, _, hr⟩ := Res.bind_eq_ok.1 hr
  obtain ⟨rc, _, hr⟩ := Res.bind_eq_ok.1 hr
  cases hr
  obtain ⟨hM, _⟩ := svsnick_rename h hvalid hidx hnew ht hm1
  generalize (nickToLower p1 != nickToLower p0) = b at hM hm2
  exact (hM.modS_inert updateIrcPrefix_inertFn hm2).emit _ _

theorem svsnickTail_safe {c0 c : Ctx} {sid tid : Id} {p0 p1 : String} (h : Mid c0 c sid)
    (hvalid : isValidNickname p1 = true)
    (hidx : AMap.get c.st.nicks (nickToLower p0) = some tid)
    (hnew : AMap.get c.st.nicks (nickToLower p1) = none ∨ AMap.get c.st.nicks (nickToLower p1) = some tid) :
    NoPanic (svsnickTail c p0 p1 tid) := by
  obtain ⟨t, ht⟩ := h.hinv.toWInvCore.indexed_stored hidx
  unfold svsnickTail
  rw [getS_of_get ht]
  simp only [Res.ok_bind]
  refine NoPanic.bind (NoPanic.of_ok ⟨_, modS_of_get _ ht⟩) (fun c1 hm1 => ?_)
  obtain ⟨hM, t', ht'⟩ := svsnick_rename h hvalid hidx hnew ht hm1
  generalize (nickToLower p1 != nickToLower p0) = b at hM ht' ⊢
  refine NoPanic.bind (NoPanic.of_ok ⟨_, modS_of_get _ ht'⟩) (fun c2 hm2 => ?_)
  have hM2 := hM.modS_inert updateIrcPrefix_inertFn hm2
  obtain ⟨t2, ht2⟩ := modS_keeps_stored hm2 ht'
  rw [getS_of_get ht2]
  simp only [Res.ok_bind]
  obtain ⟨rc, hrc⟩ := rcCommonChannels_ok hM2.hinv.toWInvCore t2
  rw [hrc]
  exact NoPanic.pure _

theorem cmdServerSvsnick_mid {c0 c c' : Ctx} {sid : Id} {m : IrcMsg} (h : Mid c0 c sid)
    (hr : cmdServerSvsnick c sid m = Res.ok c') : Mid c0 c' sid := by
  rw [cmdServerSvsnick_eq] at hr
  obtain ⟨p0, _, hr⟩ := Res.bind_eq_ok.1 hr
  obtain ⟨p1, _, hr⟩ := Res.bind_eq_ok.1 hr
  split at hr
  · cases hr; exact h.sendSvc _
  · rename_i hv
    have hvalid : isValidNickname p1 = true := by simpa using hv
    split at hr
    · cases hr; exact h.sendSvc _
    · rename_i tid hidx
      split at hr
      · rename_i other hother
        split at hr
        · cases hr; exact h.sendSvc _
        · rename_i hne
          have : other = tid := by simpa using hne
          subst this
          exact svsnickTail_mid h hvalid hidx (Or.inr hother) hr
      · rename_i hnone
        exact svsnickTail_mid h hvalid hidx (Or.inl hnone) hr

theorem cmdServerSvsnick_preserves : PreservesSrv cmdServerSvsnick :=
  PreservesSrv.of_mid fun _ _ _ _ _ h hr => cmdServerSvsnick_mid h hr

theorem cmdServerSvsnick_safe : ServicesSafe cmdServerSvsnick 2 := by
  intro c sid m s hpre hs hsrv hpfx hlen
  show NoPanic (cmdServerSvsnick c sid m)
  obtain ⟨p0, hp0⟩ := param_ok (m := m) (i := 0) (by omega)
  obtain ⟨p1, hp1⟩ := param_ok (m := m) (i := 1) (by omega)
  have h := Mid.of_pre hpre hs hsrv
  rw [cmdServerSvsnick_eq]
  simp only [hp0, hp1, Res.ok_bind]
  split
  · exact NoPanic.pure _
  · rename_i hv
    have hvalid : isValidNickname p1 = true := by simpa using hv
    split
    · exact NoPanic.pure _
    · rename_i tid hidx
      split
      · rename_i other hother
        split
        · exact NoPanic.pure _
        · rename_i hne
          have : other = tid := by simpa using hne
          subst this
          exact svsnickTail_safe h hvalid hidx (Or.inr hother)
      · rename_i hnone
        exact svsnickTail_safe h hvalid hidx (Or.inl hnone)

end Robust.Irc
