import Robust.Irc.Proofs.PermBase
/-!
Order-independence, part 2: association lists and the list primitives.

`MEq R m m'` is the working relation: both maps have duplicate-free keys and `get` agrees up
to `R`.  `MEq.toPermR` / `MEq.ofPermR` relate it to "a permutation of the entries up to `R`".
-/
set_option linter.unusedSectionVars false
set_option linter.unusedVariables false

namespace Robust.Irc
open Robust

/-- entries with the same key and `R`-related values -/
def EntryRel {κ ν : Type} (R : ν → ν → Prop) (e e' : κ × ν) : Prop := e.1 = e'.1 ∧ R e.2 e'.2

structure MEq {κ ν : Type} [DecidableEq κ] (R : ν → ν → Prop) (m m' : AMap κ ν) : Prop where
  nd : (AMap.keys m).Nodup
  nd' : (AMap.keys m').Nodup
  rel : ∀ k, ORel R (AMap.get m k) (AMap.get m' k)

namespace MEq
variable {κ ν μ : Type} [DecidableEq κ] {R : ν → ν → Prop} {m m' m'' : AMap κ ν}

theorem nil : MEq R ([] : AMap κ ν) [] := ⟨List.nodup_nil, List.nodup_nil, fun _ => .nn⟩

theorem refl (hR : ∀ a, R a a) (hn : (AMap.keys m).Nodup) : MEq R m m := ⟨hn, hn, fun k => ORel.refl hR _⟩

theorem symm (hR : ∀ a b, R a b → R b a) (h : MEq R m m') : MEq R m' m :=
  ⟨h.nd', h.nd, fun k => (h.rel k).symm hR⟩

theorem trans (hR : ∀ a b c, R a b → R b c → R a c) (h : MEq R m m') (h' : MEq R m' m'') : MEq R m m'' :=
  ⟨h.nd, h'.nd', fun k => (h.rel k).trans hR (h'.rel k)⟩

theorem mono {S : ν → ν → Prop} (h : MEq R m m') (hRS : ∀ a b, R a b → S a b) : MEq S m m' :=
  ⟨h.nd, h.nd', fun k => (h.rel k).mono hRS⟩

theorem get_eq (h : MEq (fun a b => a = b) m m') (k : κ) : AMap.get m' k = AMap.get m k := (h.rel k).eq.symm

theorem contains_eq (h : MEq R m m') (k : κ) : AMap.contains m' k = AMap.contains m k := by
  unfold AMap.contains
  exact (h.rel k).isSome_eq.symm

theorem mem_keys_iff (h : MEq R m m') (k : κ) : k ∈ AMap.keys m ↔ k ∈ AMap.keys m' := by
  rw [← AMap.contains_iff_mem_keys, ← AMap.contains_iff_mem_keys, h.contains_eq]

theorem keys_perm (h : MEq R m m') : (AMap.keys m).Perm (AMap.keys m') :=
  (List.perm_ext_iff_of_nodup h.nd h.nd').2 (fun k => h.mem_keys_iff k)

theorem length_eq (h : MEq R m m') : m'.length = m.length := by
  rw [← AMap.length_keys, ← AMap.length_keys m, h.keys_perm.length_eq]

theorem eq_nil_iff (h : MEq R m m') : m = [] ↔ m' = [] := by
  have := h.length_eq
  constructor
  · rintro rfl; simpa using this
  · rintro rfl; simpa using this.symm

theorem set (h : MEq R m m') (k : κ) {v v' : ν} (hv : R v v') : MEq R (AMap.set m k v) (AMap.set m' k v') := by
  refine ⟨AMap.nodup_keys_set k v h.nd, AMap.nodup_keys_set k v' h.nd', fun k' => ?_⟩
  rw [AMap.get_set, AMap.get_set]
  split
  · exact .ss hv
  · exact h.rel k'

theorem erase (h : MEq R m m') (k : κ) : MEq R (AMap.erase m k) (AMap.erase m' k) := by
  refine ⟨AMap.nodup_keys_erase k h.nd, AMap.nodup_keys_erase k h.nd', fun k' => ?_⟩
  rw [AMap.get_erase, AMap.get_erase]
  split
  · exact .nn
  · exact h.rel k'

theorem mapVal {S : μ → μ → Prop} (h : MEq R m m') {f f' : κ × ν → μ}
    (hf : ∀ k v v', AMap.get m k = some v → AMap.get m' k = some v' → R v v' → S (f (k, v)) (f' (k, v'))) :
    MEq S (m.map fun e => (e.1, f e)) (m'.map fun e => (e.1, f' e)) := by
  refine ⟨by rw [AMap.keys_map_val]; exact h.nd, by rw [AMap.keys_map_val]; exact h.nd', fun k => ?_⟩
  rw [AMap.get_map_val', AMap.get_map_val']
  have hk := h.rel k
  generalize hg : AMap.get m k = o at hk
  generalize hg' : AMap.get m' k = o' at hk
  cases hk with
  | nn => exact .nn
  | ss hr => exact .ss (hf k _ _ hg hg' hr)

theorem get_filter' {m : AMap κ ν} (p : κ × ν → Bool) (hn : (AMap.keys m).Nodup) (k : κ) :
    AMap.get (m.filter p) k = (AMap.get m k).bind fun v => if p (k, v) then some v else none := by
  cases hg : AMap.get m k with
  | none =>
    simp only [Option.bind_none]
    rw [AMap.get_eq_none_iff] at hg ⊢
    exact fun h => hg (AMap.mem_keys_filter h)
  | some v =>
    simp only [Option.bind_some]
    split
    · rename_i hp
      exact (AMap.get_filter p hn).2 ⟨hg, hp⟩
    · rename_i hp
      cases hf : AMap.get (m.filter p) k with
      | none => rfl
      | some w =>
        obtain ⟨h1, h2⟩ := (AMap.get_filter p hn).1 hf
        rw [hg] at h1; cases h1
        exact absurd h2 hp

theorem filter (h : MEq R m m') {p p' : κ × ν → Bool}
    (hp : ∀ k v v', AMap.get m k = some v → AMap.get m' k = some v' → R v v' → p (k, v) = p' (k, v')) :
    MEq R (m.filter p) (m'.filter p') := by
  refine ⟨AMap.nodup_keys_filter p h.nd, AMap.nodup_keys_filter p' h.nd', fun k => ?_⟩
  rw [get_filter' p h.nd, get_filter' p' h.nd']
  have hk := h.rel k
  generalize hg : AMap.get m k = o at hk
  generalize hg' : AMap.get m' k = o' at hk
  cases hk with
  | nn => exact .nn
  | ss hr =>
    simp only [Option.bind_some, hp k _ _ hg hg' hr]
    split
    · exact .ss hr
    · exact .nn

/-! ### the entries are a permutation up to `R` -/

theorem perm_cons_erase {m : AMap κ ν} {k : κ} {v : ν} (hn : (AMap.keys m).Nodup) (h : (k, v) ∈ m) :
    m.Perm ((k, v) :: AMap.erase m k) := by
  induction m with
  | nil => cases h
  | cons e t ih =>
    simp only [AMap.keys_cons, List.nodup_cons] at hn
    rcases List.mem_cons.1 h with h1 | h1
    · subst h1
      rw [AMap.erase_cons, if_pos rfl, AMap.erase_eq_self hn.1]
    · have hne : e.1 ≠ k := by
        intro he
        exact hn.1 (he ▸ AMap.mem_keys_of_mem h1)
      rw [AMap.erase_cons, if_neg hne]
      exact ((ih hn.2 h1).cons e).trans (List.Perm.swap _ _ _)

theorem toPermR (h : MEq R m m') : PermR (EntryRel R) m m' := by
  induction m generalizing m' with
  | nil =>
    have : m' = [] := (h.eq_nil_iff).1 rfl
    subst this
    exact ⟨[], List.Perm.refl _, .nil⟩
  | cons e t ih =>
    obtain ⟨k, v⟩ := e
    have hn := h.nd
    simp only [AMap.keys_cons, List.nodup_cons] at hn
    have hk := h.rel k
    rw [AMap.get_cons_same] at hk
    obtain ⟨v', hg', hr⟩ := hk.of_some
    have hmem := AMap.mem_of_get hg'
    have hp := perm_cons_erase h.nd' hmem
    have ht : MEq R t (AMap.erase m' k) := by
      refine ⟨hn.2, AMap.nodup_keys_erase k h.nd', fun k' => ?_⟩
      rw [AMap.get_erase]
      split
      · rename_i hkk; subst hkk
        rw [AMap.get_eq_none_iff.2 hn.1]; exact .nn
      · rename_i hkk
        have := h.rel k'
        rw [AMap.get_cons_ne (fun e => hkk e.symm)] at this
        exact this
    obtain ⟨mid, hpm, ham⟩ := ih ht
    have h1 : All2 (EntryRel R) ((k, v) :: mid) ((k, v') :: AMap.erase m' k) := .cons ⟨rfl, hr⟩ ham
    obtain ⟨l', hp', ha'⟩ := h1.perm_right hp.symm
    exact ⟨l', (hpm.cons _).trans hp', ha'⟩

theorem ofPermR (h : PermR (EntryRel R) m m') (hn : (AMap.keys m).Nodup) : MEq R m m' := by
  have hkp : (AMap.keys m).Perm (AMap.keys m') := h.map_perm (fun a b hab => hab.1)
  have hn' : (AMap.keys m').Nodup := hkp.nodup_iff.1 hn
  refine ⟨hn, hn', fun k => ?_⟩
  cases hg : AMap.get m k with
  | none =>
    have : k ∉ AMap.keys m' := fun hk => AMap.get_eq_none_iff.1 hg (hkp.mem_iff.2 hk)
    rw [AMap.get_eq_none_iff.2 this]; exact .nn
  | some v =>
    obtain ⟨e', he', hk, hr⟩ := h.mem_left (AMap.mem_of_get hg)
    obtain ⟨k', v'⟩ := e'
    simp only at hk hr
    subst hk
    rw [AMap.get_of_mem_nodup hn' he']
    exact .ss hr

/-- with plain equality on the values the lists are permutations of each other -/
theorem perm (h : MEq (fun a b => a = b) m m') : m.Perm m' := by
  have := h.toPermR.mono (S := fun a b => a = b) (fun a b hab => Prod.ext hab.1 hab.2)
  exact this.perm

theorem ofPerm (h : m.Perm m') (hn : (AMap.keys m).Nodup) : MEq (fun a b => a = b) m m' :=
  ofPermR (PermR.of_perm (fun _ => ⟨rfl, rfl⟩) h) hn

end MEq

/-! ## list primitives -/

section lists
variable {α α' β β' γ γ' : Type}

theorem mapRes_nil (f : α → Res β) : mapRes f [] = .ok [] := rfl

theorem mapRes_cons (f : α → Res β) (a : α) (l : List α) :
    mapRes f (a :: l) = (f a >>= fun b => mapRes f l >>= fun bs => Pure.pure (b :: bs)) := rfl

/-- pointwise related inputs, related functions: pointwise related outputs, same kind of result -/
theorem mapRes_all2 {Q : α → α' → Prop} {R : β → β' → Prop} {f : α → Res β} {f' : α' → Res β'}
    {l : List α} {l' : List α'} (hl : All2 Q l l') (hf : ∀ a a', Q a a' → RRel R (f a) (f' a')) :
    RRel (All2 R) (mapRes f l) (mapRes f' l') := by
  induction hl with
  | nil => exact .ok .nil
  | cons h _ ih =>
    rw [mapRes_cons, mapRes_cons]
    refine RRel.bind (hf _ _ h) (fun b b' hb => RRel.bind ih (fun bs bs' hbs => .ok (.cons hb hbs)))

/-- the same function over a permuted list: permuted outputs, and the same kind of result
provided the function never declines -/
theorem mapRes_perm {f : α → Res β} {l l' : List α} (hl : l.Perm l')
    (hnd : ∀ a ∈ l, ∀ w, f a ≠ .declined w) : RRel List.Perm (mapRes f l) (mapRes f l') := by
  induction hl with
  | nil => exact .ok (List.Perm.refl _)
  | cons x _ ih =>
    rw [mapRes_cons, mapRes_cons]
    refine RRel.bind_same (fun b => RRel.bind (ih fun a ha => hnd a (List.mem_cons_of_mem _ ha))
      (fun bs bs' hbs => .ok (hbs.cons b)))
  | swap x y t =>
    have hx := hnd x (List.mem_cons_of_mem _ (List.mem_cons_self ..))
    have hy := hnd y (List.mem_cons_self ..)
    simp only [mapRes_cons]
    cases hfx : f x with
    | declined w => exact absurd hfx (hx w)
    | panic s =>
      cases hfy : f y with
      | declined w => exact absurd hfy (hy w)
      | panic s' => exact .panic
      | ok b => exact .panic
    | ok a =>
      cases hfy : f y with
      | declined w => exact absurd hfy (hy w)
      | panic s' => exact .panic
      | ok b =>
        simp only [Res.ok_bind]
        cases mapRes f t with
        | ok bs => exact .ok (List.Perm.swap _ _ _)
        | panic s => exact .panic
        | declined s => exact .declined
  | trans h1 _ ih1 ih2 =>
    exact RRel.trans (R := List.Perm) (fun _ _ _ p q => p.trans q) (ih1 hnd)
      (ih2 fun a ha => hnd a (h1.mem_iff.2 ha))

theorem mapRes_permR {Q : α → α → Prop} {R : β → β → Prop} {f f' : α → Res β} {l l' : List α}
    (hl : PermR Q l l') (hf : ∀ a a', Q a a' → RRel R (f a) (f' a'))
    (hnd : ∀ a ∈ l, ∀ w, f a ≠ .declined w) : RRel (PermR R) (mapRes f l) (mapRes f' l') := by
  obtain ⟨mid, hp, ha⟩ := hl
  have h1 := mapRes_perm hp hnd
  have h2 := mapRes_all2 ha hf
  exact (h1.comp h2).mono (fun a c h => by obtain ⟨b, hb1, hb2⟩ := h; exact ⟨b, hb1, hb2⟩)

/-- over a permuted list of *equal* elements, with related functions: permuted outputs -/
theorem mapRes_perm_rel {R : β → β → Prop} {f f' : α → Res β} {l l' : List α}
    (hl : l.Perm l') (hf : ∀ a, a ∈ l → RRel R (f a) (f' a))
    (hnd : ∀ a ∈ l, ∀ w, f a ≠ .declined w) : RRel (PermR R) (mapRes f l) (mapRes f' l') := by
  have h1 := mapRes_perm hl hnd
  have h2 : RRel (All2 R) (mapRes f l') (mapRes f' l') :=
    mapRes_all2 (Q := fun a b => a = b ∧ a ∈ l) (All2.refl_on (fun a ha => ⟨rfl, hl.mem_iff.2 ha⟩))
      (fun a a' h => by obtain ⟨rfl, hm⟩ := h; exact hf a hm)
  exact (h1.comp h2).mono (fun a c h => by obtain ⟨b, hb1, hb2⟩ := h; exact ⟨b, hb1, hb2⟩)

/-- the same list on both sides, related functions -/
theorem mapRes_rrel_same {R : β → β' → Prop} {f : α → Res β} {f' : α → Res β'} (l : List α)
    (hf : ∀ a, a ∈ l → RRel R (f a) (f' a)) : RRel (All2 R) (mapRes f l) (mapRes f' l) :=
  mapRes_all2 (Q := fun a b => a = b ∧ a ∈ l) (All2.refl_on (fun a ha => ⟨rfl, ha⟩))
    (fun a a' h => by obtain ⟨rfl, hm⟩ := h; exact hf a hm)

/-- the same list on both sides, functions with equal results -/
theorem mapRes_eq_same {f f' : α → Res β} (l : List α)
    (hf : ∀ a, a ∈ l → RRel (fun x y => x = y) (f a) (f' a)) :
    RRel (fun x y => x = y) (mapRes f l) (mapRes f' l) :=
  (mapRes_rrel_same l hf).mono (fun _ _ h => h.eq)

theorem foldlM_nil' (f : γ → α → Res γ) (c : γ) : List.foldlM f c [] = .ok c := rfl

theorem foldlM_cons' (f : γ → α → Res γ) (c : γ) (a : α) (l : List α) :
    List.foldlM f c (a :: l) = (f c a >>= fun c1 => List.foldlM f c1 l) := rfl

theorem foldlM_rrel {Q : α → α' → Prop} {E : γ → γ' → Prop} {f : γ → α → Res γ} {f' : γ' → α' → Res γ'}
    {l : List α} {l' : List α'} (hl : All2 Q l l')
    (hf : ∀ c c' a a', E c c' → Q a a' → RRel E (f c a) (f' c' a')) {c : γ} {c' : γ'} (hc : E c c') :
    RRel E (l.foldlM f c) (l'.foldlM f' c') := by
  induction hl generalizing c c' with
  | nil => exact .ok hc
  | cons h _ ih =>
    rw [foldlM_cons', foldlM_cons']
    exact RRel.bind (hf _ _ _ _ hc h) (fun c1 c1' h1 => ih h1)

/-- the same list on both sides -/
theorem foldlM_rrel_same {E : γ → γ' → Prop} {f : γ → α → Res γ} {f' : γ' → α → Res γ'} (l : List α)
    (hf : ∀ c c' a, a ∈ l → E c c' → RRel E (f c a) (f' c' a)) {c : γ} {c' : γ'} (hc : E c c') :
    RRel E (l.foldlM f c) (l.foldlM f' c') :=
  foldlM_rrel (Q := fun a b => a = b ∧ a ∈ l) (All2.refl_on fun a ha => ⟨rfl, ha⟩)
    (fun c c' a a' h1 h2 => by obtain ⟨rfl, hm⟩ := h2; exact hf c c' a hm h1) hc

theorem foldl_rel_same {E : γ → γ' → Prop} {f : γ → α → γ} {f' : γ' → α → γ'} (l : List α)
    (hf : ∀ c c' a, a ∈ l → E c c' → E (f c a) (f' c' a)) {c : γ} {c' : γ'} (hc : E c c') :
    E (l.foldl f c) (l.foldl f' c') := by
  induction l generalizing c c' with
  | nil => exact hc
  | cons a t ih =>
    simp only [List.foldl_cons]
    exact ih (fun c c' a ha => hf c c' a (List.mem_cons_of_mem _ ha)) (hf _ _ _ (List.mem_cons_self ..) hc)

/-- a fold whose steps respect `E` and commute up to `E` gives `E`-related results on permuted lists
(`E` a partial equivalence relation) -/
theorem foldl_perm_comm {E : γ → γ → Prop} {f : γ → α → γ} {l l' : List α} (hl : l.Perm l')
    (hsymm : ∀ x y, E x y → E y x) (htrans : ∀ x y z, E x y → E y z → E x z)
    (hcongr : ∀ x y a, E x y → E (f x a) (f y a))
    (hcomm : ∀ x a b, E x x → E (f (f x a) b) (f (f x b) a)) {x y : γ} (hxy : E x y) :
    E (l.foldl f x) (l'.foldl f y) := by
  induction hl generalizing x y with
  | nil => exact hxy
  | cons a _ ih => exact ih (hcongr _ _ a hxy)
  | swap a b t =>
    simp only [List.foldl_cons]
    have hxx : E x x := htrans _ _ _ hxy (hsymm _ _ hxy)
    have h1 : E (f (f x b) a) (f (f y a) b) :=
      htrans _ _ _ (hcomm x b a hxx) (hcongr _ _ b (hcongr _ _ a hxy))
    exact foldl_rel_same t (fun c c' a _ h => hcongr c c' a h) h1
  | trans _ _ ih1 ih2 =>
    have hyy : E y y := htrans _ _ _ (hsymm _ _ hxy) hxy
    exact htrans _ _ _ (ih1 hxy) (ih2 hyy)

/-! ### sorting, searching -/

theorem mergeSort_eq_of_perm {le : α → α → Bool} {l l' : List α}
    (htrans : ∀ a b c, le a b = true → le b c = true → le a c = true)
    (htotal : ∀ a b, (le a b || le b a) = true)
    (hanti : ∀ a ∈ l, ∀ b ∈ l, le a b = true → le b a = true → a = b) (h : l.Perm l') :
    l.mergeSort le = l'.mergeSort le := by
  apply List.Perm.eq_of_pairwise (le := fun a b => le a b = true)
  · intro a b ha hb hab hba
    exact hanti a ((List.mergeSort_perm l le).mem_iff.1 ha) b
      (h.mem_iff.2 ((List.mergeSort_perm l' le).mem_iff.1 hb)) hab hba
  · exact List.pairwise_mergeSort htrans htotal l
  · exact List.pairwise_mergeSort htrans htotal l'
  · exact ((List.mergeSort_perm l le).trans h).trans (List.mergeSort_perm l' le).symm

/-- sorting strings: permutations give the same list (`C01_sort_perm`) -/
theorem sortStr_eq_of_perm {l l' : List String} (h : l.Perm l') :
    l.mergeSort (fun a b => a ≤ b) = l'.mergeSort (fun a b => a ≤ b) :=
  mergeSort_eq_of_perm
    (fun a b c h1 h2 => by simp only [decide_eq_true_eq] at *; exact String.le_trans h1 h2)
    (fun a b => by simp only [Bool.or_eq_true, decide_eq_true_eq]; exact String.le_total a b)
    (fun a _ b _ h1 h2 => by simp only [decide_eq_true_eq] at *; exact String.le_antisymm h1 h2) h

theorem contains_eq_of_perm [BEq α] [LawfulBEq α] {l l' : List α} (h : l.Perm l') (x : α) :
    l'.contains x = l.contains x := by
  rw [Bool.eq_iff_iff]
  simp only [List.contains_iff_mem]
  exact (h.mem_iff).symm

theorem any_eq_of_perm {p : α → Bool} {l l' : List α} (h : l.Perm l') : l'.any p = l.any p := by
  rw [Bool.eq_iff_iff]
  simp only [List.any_eq_true]
  constructor
  · rintro ⟨x, hx, hp⟩; exact ⟨x, h.mem_iff.2 hx, hp⟩
  · rintro ⟨x, hx, hp⟩; exact ⟨x, h.mem_iff.1 hx, hp⟩

theorem all_eq_of_perm {p : α → Bool} {l l' : List α} (h : l.Perm l') : l'.all p = l.all p := by
  rw [Bool.eq_iff_iff]
  simp only [List.all_eq_true]
  constructor
  · intro hx x hm; exact hx x (h.mem_iff.1 hm)
  · intro hx x hm; exact hx x (h.mem_iff.2 hm)

theorem any_eq_of_permR {Q : α → α → Prop} {p p' : α → Bool} {l l' : List α} (h : PermR Q l l')
    (hp : ∀ a a', Q a a' → p a = p' a') : l'.any p' = l.any p := by
  rw [Bool.eq_iff_iff]
  simp only [List.any_eq_true]
  constructor
  · rintro ⟨x, hx, hpx⟩
    obtain ⟨a, ha, hq⟩ := h.mem_right hx
    exact ⟨a, ha, by rw [hp a x hq]; exact hpx⟩
  · rintro ⟨x, hx, hpx⟩
    obtain ⟨b, hb, hq⟩ := h.mem_left hx
    exact ⟨b, hb, by rw [← hp x b hq]; exact hpx⟩

/-- an early-exit search with at most one match finds related elements on related lists -/
theorem find?_permR {Q : α → α → Prop} {p p' : α → Bool} {l l' : List α} (h : PermR Q l l')
    (hp : ∀ a a', Q a a' → p a = p' a')
    (huniq : ∀ a ∈ l, ∀ b ∈ l, p a = true → p b = true → a = b) : ORel Q (l.find? p) (l'.find? p') := by
  cases h1 : l.find? p with
  | none =>
    rw [List.find?_eq_none] at h1
    have : l'.find? p' = none := by
      rw [List.find?_eq_none]
      intro x hx
      obtain ⟨a, ha, hq⟩ := h.mem_right hx
      rw [← hp a x hq]; exact h1 a ha
    rw [this]; exact .nn
  | some a =>
    have hpa := List.find?_some h1
    have ham := List.mem_of_find?_eq_some h1
    cases h2 : l'.find? p' with
    | none =>
      rw [List.find?_eq_none] at h2
      obtain ⟨b, hb, hq⟩ := h.mem_left ham
      have := h2 b hb
      rw [← hp a b hq, hpa] at this
      exact absurd rfl this
    | some b =>
      have hpb := List.find?_some h2
      have hbm := List.mem_of_find?_eq_some h2
      obtain ⟨a2, ha2, hq⟩ := h.mem_right hbm
      have : a2 = a := huniq a2 ha2 a ham (by rw [hp a2 b hq]; exact hpb) hpa
      subst this
      exact .ss hq

end lists

end Robust.Irc
