import Robust.Irc.Proofs.H3a
/-!
Services-link handlers without loops: SVSHOLD, PRIVMSG/NOTICE, TOPIC, INVITE, KICK, SVSPART.
-/
namespace Robust.Irc
open Srv
open Robust AMap

theorem PreservesSrv.of_mid {h : Ctx → Id → IrcMsg → Res Ctx}
    (H : ∀ c0 c sid m c', Mid c0 c sid → h c sid m = Res.ok c' → Mid c0 c' sid) : PreservesSrv h :=
  fun c sid m c' _ hpre hs hsrv hr => (H c c sid m c' (Mid.of_pre hpre hs hsrv) hr).post

/-- a step that touches none of `sessions`, `nicks`, `channels` -/
theorem Mid.other_fields {c0 c c' : Ctx} {sid : Id} (h : Mid c0 c sid)
    (hs : c'.st.sessions = c.st.sessions) (hn : c'.st.nicks = c.st.nicks) (hc : c'.st.channels = c.st.channels)
    (og : OutGrows c c') : Mid c0 c' sid :=
  ⟨h.hinv.congr hs hn hc, h.linv.congr hs, h.actor.congr hs, h.og.trans og, fun h0 => (h.ninv h0).congr hs hn hc⟩

/-! ### SVSHOLD -/

theorem cmdServerSvshold_mid {c0 c c' : Ctx} {sid : Id} {m : IrcMsg} (h : Mid c0 c sid)
    (hr : cmdServerSvshold c sid m = Res.ok c') : Mid c0 c' sid := by
  unfold cmdServerSvshold at hr
  obtain ⟨s, hs, hr⟩ := Res.bind_eq_ok.1 hr
  obtain ⟨p0, hp0, hr⟩ := Res.bind_eq_ok.1 hr
  dsimp only at hr
  split at hr
  · obtain ⟨p1, hp1, hr⟩ := Res.bind_eq_ok.1 hr
    split at hr
    · cases hr
    · split at hr
      · cases hr
      · cases hr
        exact h.other_fields rfl rfl rfl ⟨rfl, [], by simp⟩
  · cases hr
    exact h.other_fields rfl rfl rfl ⟨rfl, [], by simp⟩

theorem cmdServerSvshold_preserves : PreservesSrv cmdServerSvshold :=
  PreservesSrv.of_mid fun _ _ _ _ _ h hr => cmdServerSvshold_mid h hr

theorem cmdServerSvshold_safe : ServicesSafe cmdServerSvshold 1 := by
  intro c sid m s hpre hs hsrv hpfx hlen
  show NoPanic (cmdServerSvshold c sid m)
  unfold cmdServerSvshold
  rw [getS_of_get hs]
  obtain ⟨p0, hp0⟩ := param_ok (m := m) (i := 0) (by omega)
  rw [hp0]
  simp only [Res.ok_bind]
  split
  · rename_i hl
    obtain ⟨p1, hp1⟩ := param_ok (m := m) (i := 1) (by omega)
    rw [hp1]
    simp only [Res.ok_bind]
    split
    · exact NoPanic.declined _
    · split
      · exact NoPanic.declined _
      · exact NoPanic.pure _
  · exact NoPanic.pure _

/-! ### PRIVMSG / NOTICE -/

theorem cmdServerPrivmsg_mid {c0 c c' : Ctx} {sid : Id} {m : IrcMsg} (h : Mid c0 c sid)
    (hr : cmdServerPrivmsg c sid m = Res.ok c') : Mid c0 c' sid := by
  unfold cmdServerPrivmsg at hr
  split at hr
  · obtain ⟨pn, _, hr⟩ := Res.bind_eq_ok.1 hr
    cases hr; exact h.sendSvc _
  · split at hr
    · obtain ⟨pn, _, hr⟩ := Res.bind_eq_ok.1 hr
      cases hr; exact h.sendSvc _
    · obtain ⟨p0, _, hr⟩ := Res.bind_eq_ok.1 hr
      split at hr
      · split at hr
        · obtain ⟨pn, _, hr⟩ := Res.bind_eq_ok.1 hr
          cases hr; exact h.sendSvc _
        · obtain ⟨sp, _, hr⟩ := Res.bind_eq_ok.1 hr
          obtain ⟨rc, _, hr⟩ := Res.bind_eq_ok.1 hr
          cases hr; exact h.emit _ _
      · split at hr
        · obtain ⟨pn, _, hr⟩ := Res.bind_eq_ok.1 hr
          cases hr; exact h.sendSvc _
        · obtain ⟨sp, _, hr⟩ := Res.bind_eq_ok.1 hr
          cases hr; exact h.sendUser _ _

theorem cmdServerPrivmsg_preserves : PreservesSrv cmdServerPrivmsg :=
  PreservesSrv.of_mid fun _ _ _ _ _ h hr => cmdServerPrivmsg_mid h hr

theorem cmdServerPrivmsg_safe : ServicesSafe cmdServerPrivmsg 1 := by
  intro c sid m s hpre hs hsrv hpfx hlen
  show NoPanic (cmdServerPrivmsg c sid m)
  obtain ⟨pn, hpn⟩ := pfxName_ok hpfx
  obtain ⟨sp, hsp⟩ := servicesPrefix_ok hpfx
  obtain ⟨p0, hp0⟩ := param_ok (m := m) (i := 0) (by omega)
  unfold cmdServerPrivmsg
  simp only [hpn, hsp, hp0, Res.ok_bind]
  split
  · exact NoPanic.pure _
  · split
    · exact NoPanic.pure _
    · split
      · simp only [getChan_eq]
        split
        · exact NoPanic.pure _
        · rename_i ch hch
          obtain ⟨rc, hrc⟩ := rcChannel_ok hpre.inv.toWInvCore hch
          rw [hrc]
          exact NoPanic.pure _
      · split
        · exact NoPanic.pure _
        · exact NoPanic.pure _

/-! ### TOPIC -/

theorem rcChannel_putChan_ok {c : Ctx} (h : WInv c.st) {lc : String} {ch ch' : Channel}
    (hg : AMap.get c.st.channels lc = some ch) (hname : ch'.name = ch.name)
    (hkeys : AMap.keys ch'.nicks = AMap.keys ch.nicks) : ∃ rc, rcChannel (putChan c lc ch').st ch' = Res.ok rc :=
  rcChannel_ok (WInv_putChan_inert h hg hname hkeys).toWInvCore (lc := lc)
    (by rw [putChan_channels]; exact AMap.get_set_same _ _ _)

theorem parseIntBase0_noPanic (s : String) : NoPanic (parseIntBase0 s) := by
  unfold parseIntBase0
  dsimp only
  repeat' split
  all_goals first | exact NoPanic.declined _ | exact NoPanic.ok _

theorem cmdServerTopic_mid {c0 c c' : Ctx} {sid : Id} {m : IrcMsg} (h : Mid c0 c sid)
    (hr : cmdServerTopic c sid m = Res.ok c') : Mid c0 c' sid := by
  unfold cmdServerTopic at hr
  obtain ⟨channel, _, hr⟩ := Res.bind_eq_ok.1 hr
  simp only [getChan_eq] at hr
  split at hr
  · obtain ⟨pn, _, hr⟩ := Res.bind_eq_ok.1 hr
    cases hr; exact h.sendSvc _
  · rename_i ch hch
    obtain ⟨p2, _, hr⟩ := Res.bind_eq_ok.1 hr
    obtain ⟨ts?, _, hr⟩ := Res.bind_eq_ok.1 hr
    split at hr
    · cases hr
    · obtain ⟨p1, _, hr⟩ := Res.bind_eq_ok.1 hr
      split at hr
      · cases hr
      · obtain ⟨sp, _, hr⟩ := Res.bind_eq_ok.1 hr
        obtain ⟨rc, _, hr⟩ := Res.bind_eq_ok.1 hr
        cases hr
        refine Mid.emit (c := putChan _ _ _) ?_ _ _
        exact h.putChan_inert hch rfl rfl

theorem cmdServerTopic_preserves : PreservesSrv cmdServerTopic :=
  PreservesSrv.of_mid fun _ _ _ _ _ h hr => cmdServerTopic_mid h hr

theorem cmdServerTopic_safe : ServicesSafe cmdServerTopic 3 := by
  intro c sid m s hpre hs hsrv hpfx hlen
  show NoPanic (cmdServerTopic c sid m)
  obtain ⟨pn, hpn⟩ := pfxName_ok hpfx
  obtain ⟨sp, hsp⟩ := servicesPrefix_ok hpfx
  obtain ⟨p0, hp0⟩ := param_ok (m := m) (i := 0) (by omega)
  obtain ⟨p1, hp1⟩ := param_ok (m := m) (i := 1) (by omega)
  obtain ⟨p2, hp2⟩ := param_ok (m := m) (i := 2) (by omega)
  unfold cmdServerTopic
  simp only [hpn, hsp, hp0, hp1, hp2, Res.ok_bind, getChan_eq]
  split
  · exact NoPanic.pure _
  · rename_i ch hch
    refine NoPanic.bind ?_ (fun ts? _ => ?_)
    · exact parseIntBase0_noPanic p2
    · split
      · exact NoPanic.declined _
      · split
        · exact NoPanic.declined _
        · exact NoPanic.bind (NoPanic.of_ok (rcChannel_putChan_ok hpre.inv.toWInv hch rfl rfl))
            (fun _ _ => NoPanic.pure _)

/-! ### INVITE -/

theorem invite_inert (lc : String) : InertFn fun t => { t with invitedTo := setInsert t.invitedTo lc } :=
  fun _ => ⟨rfl, rfl, rfl, rfl, rfl, rfl⟩

theorem cmdServerInvite_mid {c0 c c' : Ctx} {sid : Id} {m : IrcMsg} (h : Mid c0 c sid)
    (hr : cmdServerInvite c sid m = Res.ok c') : Mid c0 c' sid := by
  unfold cmdServerInvite at hr
  obtain ⟨nickname, _, hr⟩ := Res.bind_eq_ok.1 hr
  obtain ⟨channelname, _, hr⟩ := Res.bind_eq_ok.1 hr
  split at hr
  · obtain ⟨pn, _, hr⟩ := Res.bind_eq_ok.1 hr
    cases hr; exact h.sendSvc _
  · obtain ⟨t, _, hr⟩ := Res.bind_eq_ok.1 hr
    simp only [getChan_eq] at hr
    split at hr
    · obtain ⟨pn, _, hr⟩ := Res.bind_eq_ok.1 hr
      cases hr; exact h.sendSvc _
    · split at hr
      · obtain ⟨pn, _, hr⟩ := Res.bind_eq_ok.1 hr
        cases hr; exact h.sendSvc _
      · obtain ⟨c1, h1, hr⟩ := Res.bind_eq_ok.1 hr
        obtain ⟨pn, _, hr⟩ := Res.bind_eq_ok.1 hr
        obtain ⟨sp, _, hr⟩ := Res.bind_eq_ok.1 hr
        obtain ⟨rc, _, hr⟩ := Res.bind_eq_ok.1 hr
        cases hr
        exact (((h.modS_inert (invite_inert _) h1).sendSvc _).sendUser _ _).emit _ _

theorem cmdServerInvite_preserves : PreservesSrv cmdServerInvite :=
  PreservesSrv.of_mid fun _ _ _ _ _ h hr => cmdServerInvite_mid h hr

theorem cmdServerInvite_safe : ServicesSafe cmdServerInvite 2 := by
  intro c sid m s hpre hs hsrv hpfx hlen
  show NoPanic (cmdServerInvite c sid m)
  obtain ⟨pn, hpn⟩ := pfxName_ok hpfx
  obtain ⟨sp, hsp⟩ := servicesPrefix_ok hpfx
  obtain ⟨p0, hp0⟩ := param_ok (m := m) (i := 0) (by omega)
  obtain ⟨p1, hp1⟩ := param_ok (m := m) (i := 1) (by omega)
  unfold cmdServerInvite
  simp only [hpn, hsp, hp0, hp1, Res.ok_bind, getChan_eq]
  split
  · exact NoPanic.pure _
  · rename_i tid hidx
    obtain ⟨t, ht⟩ := hpre.inv.toWInvCore.indexed_stored hidx
    rw [getS_of_get ht]
    simp only [Res.ok_bind]
    split
    · exact NoPanic.pure _
    · rename_i ch hch
      split
      · exact NoPanic.pure _
      · rw [modS_of_get _ ht]
        simp only [Res.ok_bind]
        have hw : WInv (putS c { t with invitedTo := setInsert t.invitedTo (chanToLower p1) }).st :=
          WInv_putS_inert hpre.inv.toWInv (s := t)
            (by show AMap.get c.st.sessions t.id = some t
                rw [(hpre.inv.sessId tid t ht).1]; exact ht) ⟨rfl, rfl, rfl, rfl⟩
        obtain ⟨rc, hrc⟩ := rcChannel_ok hw.toWInvCore (lc := chanToLower p1) (ch := ch) hch
        simp only [sendUser_st, sendSvc_st]
        rw [hrc]
        exact NoPanic.pure _

/-! ### KICK -/

theorem cmdServerKick_mid {c0 c c' : Ctx} {sid : Id} {m : IrcMsg} (h : Mid c0 c sid)
    (hr : cmdServerKick c sid m = Res.ok c') : Mid c0 c' sid := by
  unfold cmdServerKick at hr
  obtain ⟨channelname, _, hr⟩ := Res.bind_eq_ok.1 hr
  obtain ⟨target, _, hr⟩ := Res.bind_eq_ok.1 hr
  simp only [getChan_eq] at hr
  split at hr
  · obtain ⟨pn, _, hr⟩ := Res.bind_eq_ok.1 hr
    cases hr; exact h.sendSvc _
  · split at hr
    · obtain ⟨pn, _, hr⟩ := Res.bind_eq_ok.1 hr
      cases hr; exact h.sendSvc _
    · split at hr
      · rename_i tid hidx
        obtain ⟨sp, _, hr⟩ := Res.bind_eq_ok.1 hr
        obtain ⟨rc, _, hr⟩ := Res.bind_eq_ok.1 hr
        exact (h.emit _ _).leaveChannel hidx hr
      · cases hr

theorem cmdServerKick_preserves : PreservesSrv cmdServerKick :=
  PreservesSrv.of_mid fun _ _ _ _ _ h hr => cmdServerKick_mid h hr

theorem cmdServerKick_safe : ServicesSafe cmdServerKick 2 := by
  intro c sid m s hpre hs hsrv hpfx hlen
  show NoPanic (cmdServerKick c sid m)
  obtain ⟨pn, hpn⟩ := pfxName_ok hpfx
  obtain ⟨sp, hsp⟩ := servicesPrefix_ok hpfx
  obtain ⟨p0, hp0⟩ := param_ok (m := m) (i := 0) (by omega)
  obtain ⟨p1, hp1⟩ := param_ok (m := m) (i := 1) (by omega)
  unfold cmdServerKick
  simp only [hpn, hsp, hp0, hp1, Res.ok_bind, getChan_eq]
  split
  · exact NoPanic.pure _
  · rename_i ch hch
    split
    · exact NoPanic.pure _
    · rename_i hcont
      have hcont' : AMap.contains ch.nicks (nickToLower p1) = true := by simpa using hcont
      obtain ⟨tid, t, hidx, ht⟩ := hpre.inv.toWInvCore.member_indexed hch hcont'
      obtain ⟨rc, hrc⟩ := rcChannel_ok hpre.inv.toWInvCore hch
      rw [hidx, hrc]
      simp only [Res.ok_bind]
      exact NoPanic.of_ok (leaveChannel_ok (c := emit _ _ _) hpre.inv.toWInvCore hch ht)

/-! ### SVSPART -/

theorem cmdServerSvspart_mid {c0 c c' : Ctx} {sid : Id} {m : IrcMsg} (h : Mid c0 c sid)
    (hr : cmdServerSvspart c sid m = Res.ok c') : Mid c0 c' sid := by
  unfold cmdServerSvspart at hr
  obtain ⟨p0, _, hr⟩ := Res.bind_eq_ok.1 hr
  obtain ⟨channelname, _, hr⟩ := Res.bind_eq_ok.1 hr
  dsimp only at hr
  split at hr
  · obtain ⟨pn, _, hr⟩ := Res.bind_eq_ok.1 hr
    cases hr; exact h.sendSvc _
  · rename_i tid hidx
    simp only [getChan_eq] at hr
    split at hr
    · obtain ⟨pn, _, hr⟩ := Res.bind_eq_ok.1 hr
      cases hr; exact h.sendSvc _
    · split at hr
      · obtain ⟨pn, _, hr⟩ := Res.bind_eq_ok.1 hr
        cases hr; exact h.sendSvc _
      · obtain ⟨t, _, hr⟩ := Res.bind_eq_ok.1 hr
        obtain ⟨rc, _, hr⟩ := Res.bind_eq_ok.1 hr
        exact (h.emit _ _).leaveChannel hidx hr

theorem cmdServerSvspart_preserves : PreservesSrv cmdServerSvspart :=
  PreservesSrv.of_mid fun _ _ _ _ _ h hr => cmdServerSvspart_mid h hr

theorem cmdServerSvspart_safe : ServicesSafe cmdServerSvspart 2 := by
  intro c sid m s hpre hs hsrv hpfx hlen
  show NoPanic (cmdServerSvspart c sid m)
  obtain ⟨pn, hpn⟩ := pfxName_ok hpfx
  obtain ⟨p0, hp0⟩ := param_ok (m := m) (i := 0) (by omega)
  obtain ⟨p1, hp1⟩ := param_ok (m := m) (i := 1) (by omega)
  unfold cmdServerSvspart
  simp only [hpn, hp0, hp1, Res.ok_bind, getChan_eq]
  split
  · exact NoPanic.pure _
  · rename_i tid hidx
    split
    · exact NoPanic.pure _
    · rename_i ch hch
      split
      · exact NoPanic.pure _
      · obtain ⟨t, ht⟩ := hpre.inv.toWInvCore.indexed_stored hidx
        obtain ⟨rc, hrc⟩ := rcChannel_ok hpre.inv.toWInvCore hch
        rw [getS_of_get ht, hrc]
        simp only [Res.ok_bind]
        exact NoPanic.of_ok (leaveChannel_ok (c := emit _ _ _) hpre.inv.toWInvCore hch ht)

end Robust.Irc
