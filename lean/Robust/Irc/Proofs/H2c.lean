import Robust.Irc.Proofs.H2Base
/-! PRIVMSG/NOTICE, the service aliases, INVITE -/
namespace Robust.Irc
open Rd
open AMap

/-! ### PRIVMSG / NOTICE -/

theorem cmdPrivmsg_emits {c c' : Ctx} {sid : Id} {m : IrcMsg} (hr : cmdPrivmsg c sid m = .ok c') : Emits c c' := by
  unfold cmdPrivmsg at hr
  emits_auto hr

theorem cmdPrivmsg_preserves : Preserves cmdPrivmsg := Preserves.of_emits fun _ _ _ _ => cmdPrivmsg_emits

theorem cmdPrivmsg_noPanic {c : Ctx} {sid : Id} {s : Session} (m : IrcMsg) (hw : WInvCore c.st)
    (hs : AMap.get c.st.sessions sid = some s) : NoPanic (cmdPrivmsg c sid m) := by
  unfold cmdPrivmsg
  rw [getS_of_get hs]
  simp only [Res.ok_bind]
  split
  · exact NoPanic.ok _
  split
  · exact NoPanic.ok _
  rename_i h1 h2
  rw [param_ok (by omega)]
  simp only [Res.ok_bind, getChan_eq]
  split
  · split
    · exact NoPanic.ok _
    · rename_i ch hch
      split
      · exact NoPanic.ok _
      · obtain ⟨rc, hrc⟩ := rcChannelButOne_ok hw sid hch
        rw [hrc]; exact NoPanic.ok _
  · split
    · split <;> exact NoPanic.ok _
    · split
      · exact NoPanic.ok _
      · rename_i tid hi
        obtain ⟨t, ht, _⟩ := getS_indexed_ok hw hi
        rw [ht]
        simp only [Res.ok_bind]
        split
        · exact NoPanic.ok _
        · split <;> exact NoPanic.ok _

theorem cmdPrivmsg_safe : ClientSafe cmdPrivmsg 0 true :=
  fun _ _ m _ hp hs _ _ _ => cmdPrivmsg_noPanic m hp.inv.toWInvCore hs

/-! ### INVITE -/

theorem cmdInvite_inert {c c' : Ctx} {sid : Id} {m : IrcMsg} (hw : WInvCore c.st)
    (hr : cmdInvite c sid m = .ok c') : Inert c c' := by
  unfold cmdInvite at hr
  obtain ⟨s, hs, hr⟩ := Res.bind_eq_ok.1 hr
  obtain ⟨nickname, _, hr⟩ := Res.bind_eq_ok.1 hr
  obtain ⟨channelname, _, hr⟩ := Res.bind_eq_ok.1 hr
  dsimp only at hr
  split at hr
  · cases hr; inert_tac
  split at hr
  · cases hr; inert_tac
  split at hr
  · cases hr; inert_tac
  obtain ⟨t, ht, hr⟩ := Res.bind_eq_ok.1 hr
  split at hr
  · cases hr; inert_tac
  split at hr
  · cases hr; inert_tac
  obtain ⟨c1, h1, hr⟩ := Res.bind_eq_ok.1 hr
  have hI := (Inert.refl hw).modS hw h1 (fun _ => ⟨rfl, rfl, rfl, rfl⟩) (fun _ => ⟨rfl, rfl⟩)
  obtain ⟨rc, _, hr⟩ := Res.bind_eq_ok.1 hr
  split at hr <;> (cases hr; inert_tac)

theorem cmdInvite_preserves : Preserves cmdInvite := Preserves.of_inert fun _ _ _ _ => cmdInvite_inert

theorem cmdInvite_noPanic {c : Ctx} {sid : Id} {s : Session} {m : IrcMsg} (hw : WInvCore c.st)
    (hs : AMap.get c.st.sessions sid = some s) (hn : 2 ≤ m.params.length) : NoPanic (cmdInvite c sid m) := by
  unfold cmdInvite
  rw [getS_of_get hs, param_ok (show 0 < m.params.length by omega), param_ok (show 1 < m.params.length by omega)]
  simp only [Res.ok_bind, getChan_eq]
  split
  · exact NoPanic.ok _
  rename_i ch hch
  split
  · exact NoPanic.ok _
  split
  · exact NoPanic.ok _
  rename_i tid hi
  obtain ⟨t, ht, ht', _⟩ := getS_indexed_ok hw hi
  rw [ht]
  simp only [Res.ok_bind]
  split
  · exact NoPanic.ok _
  split
  · exact NoPanic.ok _
  rw [modS_of_get _ ht']
  simp only [Res.ok_bind]
  obtain ⟨rc, hrc⟩ := rcChannel_ok_of_indexed (st := (putS c { t with invitedTo := setInsert t.invitedTo (chanToLower m.params[1]) }).st)
    (ch := ch) (hw.membersIndexed hch)
  simp only [emit_st, sendUser_st, hrc, Res.ok_bind]
  split <;> exact NoPanic.ok _

theorem cmdInvite_safe : ClientSafe cmdInvite 2 true :=
  fun _ _ _ _ hp hs _ _ hn => cmdInvite_noPanic hp.inv.toWInvCore hs hn

/-! ### the service aliases (NS, CS, …) -/

theorem dropWhile_all_false {α : Type} (p : α → Bool) (l : List α) (h : ∀ x ∈ l, p x = false) : l.dropWhile p = l := by
  cases l with
  | nil => rfl
  | cons a t => exact List.dropWhile_cons_of_neg (by simp [h a (List.mem_cons_self ..)])

/-- trimming CR/LF from a string that starts with a CR/LF-free block keeps that block -/
theorem trim_keeps_prefix (pre r : List Char) (h : ∀ x ∈ pre, isCutset x = false) :
    ∃ Y, (((pre ++ r).dropWhile isCutset).reverse.dropWhile isCutset).reverse = pre ++ Y := by
  cases pre with
  | nil => exact ⟨_, rfl⟩
  | cons a t =>
    have h1 : ((a :: t) ++ r).dropWhile isCutset = (a :: t) ++ r :=
      List.dropWhile_cons_of_neg (by simp [h a (List.mem_cons_self ..)])
    rw [h1, List.reverse_append, List.dropWhile_append]
    have h2 : (a :: t).reverse.dropWhile isCutset = (a :: t).reverse :=
      dropWhile_all_false _ _ (fun x hx => h x (List.mem_reverse.1 hx))
    split
    · rw [h2, List.reverse_reverse]; exact ⟨[], by simp⟩
    · rw [List.reverse_append, List.reverse_reverse]; exact ⟨_, rfl⟩

theorem parseMessage_some_of_prefix (s rest : String) (c0 c1 : Char) (tl : List Char)
    (hs : s.toList = c0 :: c1 :: tl) (hcut : ∀ x ∈ s.toList, isCutset x = false) (hc0 : c0 ≠ ':') :
    ∃ pm, parseMessage (s ++ rest) = some pm := by
  unfold parseMessage
  obtain ⟨Y, hY⟩ := trim_keeps_prefix s.toList rest.toList hcut
  rw [String.toList_append]
  simp only
  rw [hY, hs]
  have hsize : ¬ (String.ofList (c0 :: c1 :: tl ++ Y)).utf8ByteSize < 2 := by
    simp only [List.cons_append, String.ofList_cons, String.utf8ByteSize_append, String.utf8ByteSize_singleton]
    have := Char.utf8Size_pos c0
    have := Char.utf8Size_pos c1
    omega
  rw [if_neg hsize]
  split
  · rename_i heq
    simp only [List.cons_append, List.cons.injEq] at heq
    exact absurd heq.1 hc0
  · exact ⟨_, rfl⟩

theorem serviceAliases_shape : ∀ a ∈ serviceAliases,
    (∀ x ∈ a.2.toList, isCutset x = false) ∧ a.2.toList.head? = some 'P' ∧ 2 ≤ a.2.toList.length := by decide

theorem serviceAlias_parse {a : String × String} (ha : a ∈ serviceAliases) (rest : String) :
    ∃ pm, parseMessage (a.2 ++ rest) = some pm := by
  obtain ⟨h1, h2, h3⟩ := serviceAliases_shape a ha
  match hl : a.2.toList, h2, h3 with
  | c0 :: c1 :: tl, h2, _ =>
    simp only [List.head?_cons, Option.some.injEq] at h2
    exact parseMessage_some_of_prefix a.2 rest c0 c1 tl hl h1 (by rw [h2]; decide)

theorem cmdServiceAlias_emits {c c' : Ctx} {sid : Id} {m : IrcMsg} (hr : cmdServiceAlias c sid m = .ok c') :
    Emits c c' := by
  unfold cmdServiceAlias at hr
  split at hr
  · cases hr; exact Emits.refl _
  · split at hr
    · cases hr
    · exact cmdPrivmsg_emits hr

theorem cmdServiceAlias_preserves : Preserves cmdServiceAlias :=
  Preserves.of_emits fun _ _ _ _ => cmdServiceAlias_emits

theorem cmdServiceAlias_noPanic {c : Ctx} {sid : Id} {s : Session} (m : IrcMsg) (hw : WInvCore c.st)
    (hs : AMap.get c.st.sessions sid = some s) : NoPanic (cmdServiceAlias c sid m) := by
  unfold cmdServiceAlias
  split
  · exact NoPanic.ok _
  · rename_i a hfind
    obtain ⟨pm, hpm⟩ := serviceAlias_parse (List.mem_of_find?_eq_some hfind) (joinStr " " m.params)
    rw [hpm]
    exact cmdPrivmsg_noPanic pm hw hs

theorem cmdServiceAlias_safe : ClientSafe cmdServiceAlias 0 true :=
  fun _ _ m _ hp hs _ _ _ => cmdServiceAlias_noPanic m hp.inv.toWInvCore hs

end Robust.Irc
