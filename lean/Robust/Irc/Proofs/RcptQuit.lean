import Robust.Irc.Proofs.RcptMem
/-!
C12, part 2c/d: QUIT, KILL (and the `deleteSession` they share) — who receives what.
-/
namespace Robust.Irc
open Robust AMap

/-! ### the QUIT line after `deleteSession` -/

/-- the recipients of the QUIT line computed after `deleteSession c tid` from the (flagged) session value:
exactly the *other* sessions that shared a channel with `tid` before, plus the services links -/
theorem quit_rcpt {c c1 : Ctx} {tid : Id} {t : Session} {inv : List String} (sp : DelSpec c c1 tid t)
    (hi : Inv c.st) (hn : NI c.st) (ht : AMap.get c.st.sessions tid = some t) (hnick : t.nick ≠ "")
    {rc : List Nat} (hrc : rcCommonChannels c1.st { t with invitedTo := inv, deleted := true } = .ok rc)
    (i k : Nat) (d : Bytes) :
    RcptIs ⟨i, k, d, rc ++ rcServices c1.st⟩
      (fun id => id ≠ tid ∧ ∃ lc ∈ t.channels, Lists c.st lc id) c.st.serverSessions := by
  have hsv : rcServices c1.st = c.st.serverSessions := sp.frame.serverSessions
  rw [hsv]
  refine RcptIs.of_list_svc fun n => ?_
  rw [rcCommonChannels_rcpt sp.winv hrc]
  constructor
  · rintro ⟨lc, id, hl, ho, he⟩
    obtain ⟨h1, h2⟩ := (sp.onChan hi hn ht hnick).1 ho
    exact ⟨id, ⟨h2, lc, hl, h1⟩, he⟩
  · rintro ⟨id, ⟨h2, lc, hl, h1⟩, he⟩
    exact ⟨lc, id, hl, (sp.onChan hi hn ht hnick).2 ⟨h1, h2⟩, he⟩

/-! ### QUIT -/

/-- the lines `cmdQuit` can produce (`s` = the stored session *before* the command) -/
inductive QuitLine (st : St) (sid : Id) (s : Session) (m : IrcMsg) (o : Out) : Prop
  /-- the QUIT, under the leaving session's prefix: to exactly the *other* sessions that share a channel with it,
  and the services links -/
  | quit (hl : s.loggedIn = true)
      (hd : o.data = (IrcMsg.mk (some s.ircPrefix) "QUIT" [m.trailing]).render)
      (hr : RcptIs o (fun id => id ≠ sid ∧ ∃ lc ∈ s.channels, Lists st lc id) st.serverSessions)
  /-- the closing ERROR (no prefix): to the session being closed only -/
  | error (h : ToOnly sid o) (hd : ∃ txt, o.data = (IrcMsg.mk none "ERROR" [txt]).render)

theorem cmdQuit_out {c c' : Ctx} {sid : Id} {m : IrcMsg} {s : Session} (hp : Pre c sid) (hn : NI c.st)
    (hs : AMap.get c.st.sessions sid = some s) (hr : cmdQuit c sid m = .ok c') :
    NewOut (QuitLine c.st sid s m) c c' := by
  unfold cmdQuit at hr
  obtain ⟨c1, h1, hr⟩ := Res.bind_eq_ok.1 hr
  have hl := hp.live hs
  have sp := deleteSession_spec hp.inv.toWInv hs (DelPre.of_live hl) h1
  have h0 : NewOut (QuitLine c.st sid s m) c c1 := (NewOut.refl _ c).frame sp.frame
  obtain ⟨inv, hself⟩ := sp.self
  rw [getS_of_get hself] at hr
  simp only [Res.ok_bind] at hr
  split at hr
  · rename_i hlog
    have hlog' : s.loggedIn = true := hlog
    have hnick : s.nick ≠ "" := hp.linv sid s hs hlog'
    obtain ⟨rc, hrc, hr⟩ := Res.bind_eq_ok.1 hr
    cases hr
    refine (h0.emit fun i k => ?_).sendUser fun _ _ => .error rfl ⟨_, rfl⟩
    exact .quit hlog' rfl (quit_rcpt sp hp.inv hn hs hnick hrc _ _ _)
  · cases hr; exact h0

/-- the membership after QUIT (in terms of *indexed* sessions, `OnChan`: the closed session is still stored,
flagged `deleted`, until `maybeDeleteSession` purges it): the former members other than `sid` -/
theorem cmdQuit_onChan {c c' : Ctx} {sid : Id} {m : IrcMsg} {s : Session} (hp : Pre c sid) (hn : NI c.st)
    (hs : AMap.get c.st.sessions sid = some s) (hnick : s.nick ≠ "") (hr : cmdQuit c sid m = .ok c') :
    ∀ lc id, OnChan c'.st lc id ↔ Lists c.st lc id ∧ id ≠ sid := by
  unfold cmdQuit at hr
  obtain ⟨c1, h1, hr⟩ := Res.bind_eq_ok.1 hr
  have hl := hp.live hs
  have sp := deleteSession_spec hp.inv.toWInv hs (DelPre.of_live hl) h1
  have hst : c'.st = c1.st := by
    obtain ⟨s1, _, hr⟩ := Res.bind_eq_ok.1 hr
    split at hr
    · obtain ⟨rc, _, hr⟩ := Res.bind_eq_ok.1 hr
      cases hr; rfl
    · cases hr; rfl
  intro lc id
  rw [hst]
  exact sp.onChan hp.inv hn hs hnick

/-! ### KILL -/

/-- the lines `cmdKill` can produce (`s` = the stored session of the sender) -/
inductive KillLine (st : St) (sid : Id) (s : Session) (m : IrcMsg) (o : Out) : Prop
  /-- numeric reply (481, 401): to the sender only -/
  | reply (h : ToOnly sid o)
  /-- the victim's QUIT, under the victim's prefix: to exactly the *other* sessions that share a channel with the
  victim, and the services links; the sender is an IRC operator -/
  | quit (p0 : String) (tid : Id) (t : Session) (hop : s.operator = true) (hp : m.params[0]? = some p0)
      (hi : AMap.get st.nicks (nickToLower p0) = some tid) (ht : AMap.get st.sessions tid = some t)
      (hd : o.data = (IrcMsg.mk (some t.ircPrefix) "QUIT" ["Killed by " ++ s.nick ++ ": " ++ m.trailing]).render)
      (hr : RcptIs o (fun id => id ≠ tid ∧ ∃ lc ∈ t.channels, Lists st lc id) st.serverSessions)
  /-- the KILL line (under the operator's prefix) and the closing ERROR: to the killed session only -/
  | victim (p0 : String) (tid : Id) (hop : s.operator = true) (hp : m.params[0]? = some p0)
      (hi : AMap.get st.nicks (nickToLower p0) = some tid) (h : ToOnly tid o)

theorem cmdKill_out {c c' : Ctx} {sid : Id} {m : IrcMsg} {s : Session} (hp : Pre c sid) (hn : NI c.st)
    (hs : AMap.get c.st.sessions sid = some s) (hr : cmdKill c sid m = .ok c') :
    NewOut (KillLine c.st sid s m) c c' := by
  unfold cmdKill at hr
  rw [getS_of_get hs] at hr
  simp only [Res.ok_bind] at hr
  split at hr
  · cases hr; exact (NewOut.refl _ c).sendUser fun _ _ => .reply rfl
  · rename_i hop
    have hop' : s.operator = true := by simpa using hop
    obtain ⟨p0, hp0, hr⟩ := Res.bind_eq_ok.1 hr
    have hpp := param_eq_ok hp0
    split at hr
    · cases hr; exact (NewOut.refl _ c).sendUser fun _ _ => .reply rfl
    · rename_i tid hidx
      obtain ⟨c1, h1, hr⟩ := Res.bind_eq_ok.1 hr
      obtain ⟨t, ht, htl, _⟩ := hp.inv.index _ tid hidx
      have htn : t.nick ≠ "" := hn.indexed_nick hp.inv.toWInvCore hidx ht
      have sp := deleteSession_spec hp.inv.toWInv ht (DelPre.of_live htl) h1
      have h0 : NewOut (KillLine c.st sid s m) c c1 := (NewOut.refl _ c).frame sp.frame
      obtain ⟨inv, hself⟩ := sp.self
      rw [getS_of_get hself] at hr
      simp only [Res.ok_bind] at hr
      obtain ⟨s2, hs2, hr⟩ := Res.bind_eq_ok.1 hr
      rw [getS_eq_ok] at hs2
      have hs2n : s2.nick = s.nick := by
        by_cases hid : sid = tid
        · subst hid
          rw [hself] at hs2; cases hs2
          rw [hs] at ht; cases ht; rfl
        · obtain ⟨inv', h'⟩ := sp.others sid s hid hs
          rw [h'] at hs2; cases hs2; rfl
      obtain ⟨rc, hrc, hr⟩ := Res.bind_eq_ok.1 hr
      cases hr
      refine ((h0.emit fun i k => ?_).sendUser fun _ _ => .victim p0 tid hop' hpp hidx rfl).sendUser
        fun _ _ => .victim p0 tid hop' hpp hidx rfl
      refine .quit p0 tid t hop' hpp hidx ht ?_ (quit_rcpt sp hp.inv hn ht htn hrc _ _ _)
      rw [hs2n]

end Robust.Irc
