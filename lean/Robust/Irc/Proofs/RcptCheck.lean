import Robust.Irc.Proofs.RcptPfxEntry
/-!
An executable checker for the full invariant (`GInv` of `Entry.lean` and the identity invariant `PInv`),
with its soundness proof: `ginvB st = true → GInv st ∧ PInv st`.  Used for the non-vacuity examples of
C12 (the hypotheses of the theorems are discharged on concrete states by `decide`).
-/
namespace Robust.Irc
open Robust AMap

def winvCoreB (st : St) : Bool :=
  keysNodup st.sessions && keysNodup st.nicks && keysNodup st.channels &&
  (st.sessions.all fun e => e.2.id == e.1 && decide e.2.channels.Nodup) &&
  (st.sessions.all fun e => e.2.deleted || e.2.nick == "" || AMap.get st.nicks (nickToLower e.2.nick) == some e.1) &&
  (st.nicks.all fun e => match AMap.get st.sessions e.2 with
    | some s => !s.deleted && nickToLower s.nick == e.1
    | none => false) &&
  (st.channels.all fun e => chanToLower e.2.name == e.1 && keysNodup e.2.nicks &&
    (AMap.keys e.2.nicks).all fun n => match AMap.get st.nicks n with
      | some id => (match AMap.get st.sessions id with
        | some s => s.channels.contains e.1
        | none => false)
      | none => false)

def memberB (st : St) : Bool :=
  st.nicks.all fun e => match AMap.get st.sessions e.2 with
    | some s => s.channels.all fun ch => match AMap.get st.channels ch with
      | some c => AMap.contains c.nicks e.1
      | none => false
    | none => true

def restB (st : St) : Bool :=
  (st.channels.all fun e => !e.2.nicks.isEmpty) &&
  (st.sessions.all fun e => !e.2.deleted) &&
  (st.sessions.all fun e => !e.2.loggedIn || e.2.nick != "") &&
  (AMap.get st.nicks "" == none) &&
  (st.sessions.all fun e => (e.2.nick != "" || e.2.channels.isEmpty) && (e.2.nick == "" || isValidNickname e.2.nick)) &&
  (st.channels.all fun e => isValidChannel e.2.name)

def pfxOKB (s : Session) : Bool :=
  s.server || s.ircPrefix == sessPrefix s || (s.nick == "" && s.username == "" && s.ircPrefix == ⟨"", "", ""⟩)

def pinvB (st : St) : Bool := st.sessions.all fun e => pfxOKB e.2

/-- the whole invariant as a Boolean -/
def ginvB (st : St) : Bool := winvCoreB st && memberB st && restB st && pinvB st

theorem keysNodup_iff {κ ν : Type} [DecidableEq κ] {m : AMap κ ν} : keysNodup m = true ↔ (AMap.keys m).Nodup := by
  simp [keysNodup]

theorem winvCore_of_B {st : St} (h : winvCoreB st = true) : WInvCore st := by
  unfold winvCoreB at h
  simp only [Bool.and_eq_true] at h
  obtain ⟨⟨⟨⟨⟨⟨h1, h2⟩, h3⟩, h4⟩, h5⟩, h6⟩, h7⟩ := h
  have n1 := keysNodup_iff.1 h1
  have n2 := keysNodup_iff.1 h2
  have n3 := keysNodup_iff.1 h3
  refine ⟨n1, n2, n3, ?_, ?_, ?_, ?_⟩
  · intro id s hg
    have := (AMap.all_iff_get n1).1 h4 id s hg
    simp only [Bool.and_eq_true, beq_iff_eq, decide_eq_true_eq] at this
    exact this
  · intro id s hg hl hn
    have := (AMap.all_iff_get n1).1 h5 id s hg
    simp only [Bool.or_eq_true, beq_iff_eq] at this
    rcases this with (h | h) | h
    · rw [hl] at h; cases h
    · exact absurd h hn
    · exact h
  · intro lc id hg
    have := (AMap.all_iff_get n2).1 h6 lc id hg
    dsimp only at this
    split at this
    · rename_i s hs
      simp only [Bool.and_eq_true, Bool.not_eq_true', beq_iff_eq] at this
      exact ⟨s, hs, this.1, this.2⟩
    · cases this
  · intro lc c hg
    have := (AMap.all_iff_get n3).1 h7 lc c hg
    simp only [Bool.and_eq_true, beq_iff_eq, List.all_eq_true] at this
    obtain ⟨⟨a, b⟩, d⟩ := this
    refine ⟨a, keysNodup_iff.1 b, fun n hn => ?_⟩
    have := d n hn
    split at this
    · rename_i id hid
      split at this
      · rename_i s hs
        exact ⟨id, s, hid, hs, by simpa using this⟩
      · cases this
    · cases this

theorem member_of_B {st : St} (hn : (AMap.keys st.nicks).Nodup) (h : memberB st = true) : ∀ lc, MemberOK st lc := by
  intro lc id s hi hs ch hch
  have := (AMap.all_iff_get hn).1 h lc id hi
  dsimp only at this
  rw [hs] at this
  simp only [List.all_eq_true] at this
  have := this ch hch
  split at this
  · rename_i c hc
    exact ⟨c, hc, this⟩
  · cases this

theorem pinv_of_B {st : St} (hn : (AMap.keys st.sessions).Nodup) (h : pinvB st = true) : PInv st := by
  intro id s hg hsrv
  have := (AMap.all_iff_get hn).1 h id s hg
  simp only [pfxOKB, Bool.or_eq_true, Bool.and_eq_true, beq_iff_eq] at this
  rcases this with (h | h) | h
  · rw [hsrv] at h; cases h
  · exact Or.inl h
  · exact Or.inr ⟨h.1.1, h.1.2, h.2⟩

/-- soundness of the checker -/
theorem ginv_of_ginvB {st : St} (h : ginvB st = true) : GPInv st := by
  unfold ginvB at h
  simp only [Bool.and_eq_true] at h
  obtain ⟨⟨⟨h1, h2⟩, h3⟩, h4⟩ := h
  have hc := winvCore_of_B h1
  have hm := member_of_B hc.nickNodup h2
  unfold restB at h3
  simp only [Bool.and_eq_true] at h3
  obtain ⟨⟨⟨⟨⟨r1, r2⟩, r3⟩, r4⟩, r5⟩, r6⟩ := h3
  have hinv : Inv st := by
    refine ⟨⟨⟨hc, hm⟩, fun lc c hg => ?_⟩, fun id s hg => ?_⟩
    · have := (AMap.all_iff_get hc.chanNodup).1 r1 lc c hg
      intro he
      rw [he] at this
      simp at this
    · have := (AMap.all_iff_get hc.sessNodup).1 r2 id s hg
      simpa using this
  have hl : LInv st := by
    intro id s hg hli
    have := (AMap.all_iff_get hc.sessNodup).1 r3 id s hg
    simp only [Bool.or_eq_true, Bool.not_eq_true', bne_iff_ne, ne_eq] at this
    rcases this with h | h
    · rw [hli] at h; cases h
    · exact h
  have hni : NI st := by
    refine ⟨by simpa using r4, fun id s hg => ?_, fun lc c hg => ?_⟩
    · have := (AMap.all_iff_get hc.sessNodup).1 r5 id s hg
      simp only [Bool.and_eq_true, Bool.or_eq_true, bne_iff_ne, ne_eq, List.isEmpty_iff, beq_iff_eq] at this
      refine ⟨fun hn => ?_, fun hn => ?_⟩
      · rcases this.1 with h | h
        · exact absurd hn h
        · exact h
      · rcases this.2 with h | h
        · exact absurd h hn
        · exact h
    · exact (AMap.all_iff_get hc.chanNodup).1 r6 lc c hg
  exact ⟨GInv.of_ni hinv hl hni, pinv_of_B hc.sessNodup h4⟩

end Robust.Irc
