import Robust.Irc.Proofs.RcptSvcA
import Robust.Irc.Proofs.RcptSvcB
import Robust.Irc.Proofs.RcptSvcC
import Robust.Irc.Proofs.RcptApply
/-!
C12: every line that any command of a *services link* can produce, with its exact recipients — the union of the
per-handler classifications (`RcptSrv.lean`, `RcptSvcA/B/C.lean`), the case split over the `server_…` keys of the
command table, and the lift to `processMessage` / `applyEntry`.
-/
namespace Robust.Irc
open Robust AMap

/-- every line a command of a *services link* can produce, by handler; `st` is the state in which the handler
starts, `sid`/`s` the acting link and its stored value, `m` the parsed message.  (`SVSHOLD` produces no line.) -/
inductive ServiceLine (st : St) (sid : Id) (s : Session) (m : IrcMsg) (o : Out) : Prop
  /-- a line for the acting link only (`PONG`; the gate's 421/461) -/
  | self (h : ToOnly sid o)
  /-- a numeric reply for the services links only (all numerics of `NICK`) -/
  | reply (h : o.rcpt = st.serverSessions)
  | privmsg (h : SrvPrivmsgLine st m o)
  | join (h : SrvJoinLine st m o)
  | part (h : SrvPartLine st m o)
  | kick (h : SrvKickLine st m o)
  | mode (h : SrvModeLine st m o)
  | topic (h : SrvTopicLine st m o)
  | invite (h : SrvInviteLine st m o)
  | svsjoin (h : SrvSvsjoinLine st m o)
  | svspart (h : SrvSvspartLine st m o)
  | svsnick (h : SrvSvsnickLine st m o)
  | svsmode (h : SrvSvsmodeLine st s m o)
  | kill (h : SrvKillLine st m o)
  | quit (h : SrvQuitLine st sid m o)

/-- **the services part of the command table**: whatever handler a `server_…` key selects, all its lines are
classified -/
theorem services_handler_out {key cmd fname : String} {mp : Nat} {h : Handler}
    (hmem : (key, fname, mp, false) ∈ Gen.Commands.commands) (hkey : key = "server_" ++ cmd)
    (hh : handlerByName fname = some h)
    {c c' : Ctx} {sid : Id} {m : IrcMsg} {s : Session} (hp : Pre c sid) (hn : NI c.st)
    (hs : AMap.get c.st.sessions sid = some s) (hsrv : s.server = true)
    (hr : h c sid m = .ok c') : NewOut (ServiceLine c.st sid s m) c c' := by
  have hi := hp.inv
  have hstart : startsLowerS key = true := by rw [hkey]; exact startsLowerS_server cmd
  simp only [Gen.Commands.commands, List.mem_cons, Prod.mk.injEq, List.not_mem_nil, or_false, and_true,
    Bool.false_eq_true, and_false, false_or, or_false] at hmem
  rcases hmem with
    ⟨rfl, rfl, rfl⟩ | ⟨rfl, rfl, rfl⟩ | ⟨rfl, rfl, rfl⟩ | ⟨rfl, rfl, rfl⟩ | ⟨rfl, rfl, rfl⟩ |
    ⟨rfl, rfl, rfl⟩ | ⟨rfl, rfl, rfl⟩ | ⟨rfl, rfl, rfl⟩ | ⟨rfl, rfl, rfl⟩ | ⟨rfl, rfl, rfl⟩ |
    ⟨rfl, rfl, rfl⟩ | ⟨rfl, rfl, rfl⟩ | ⟨rfl, rfl, rfl⟩ | ⟨rfl, rfl, rfl⟩ | ⟨rfl, rfl, rfl⟩ |
    ⟨rfl, rfl, rfl⟩ | ⟨rfl, rfl, rfl⟩ | ⟨rfl, rfl, rfl⟩ | ⟨rfl, rfl, rfl⟩ | ⟨rfl, rfl, rfl⟩ |
    ⟨rfl, rfl, rfl⟩ | ⟨rfl, rfl, rfl⟩ | ⟨rfl, rfl, rfl⟩ | ⟨rfl, rfl, rfl⟩ | ⟨rfl, rfl, rfl⟩ |
    ⟨rfl, rfl, rfl⟩ | ⟨rfl, rfl, rfl⟩ | ⟨rfl, rfl, rfl⟩ | ⟨rfl, rfl, rfl⟩ | ⟨rfl, rfl, rfl⟩ |
    ⟨rfl, rfl, rfl⟩ | ⟨rfl, rfl, rfl⟩ | ⟨rfl, rfl, rfl⟩ | ⟨rfl, rfl, rfl⟩ | ⟨rfl, rfl, rfl⟩ |
    ⟨rfl, rfl, rfl⟩ | ⟨rfl, rfl, rfl⟩ | ⟨rfl, rfl, rfl⟩ | ⟨rfl, rfl, rfl⟩ | ⟨rfl, rfl, rfl⟩ |
    ⟨rfl, rfl, rfl⟩ | ⟨rfl, rfl, rfl⟩ | ⟨rfl, rfl, rfl⟩ | ⟨rfl, rfl, rfl⟩ | ⟨rfl, rfl, rfl⟩ |
    ⟨rfl, rfl, rfl⟩ | ⟨rfl, rfl, rfl⟩ | ⟨rfl, rfl, rfl⟩ | ⟨rfl, rfl, rfl⟩ | ⟨rfl, rfl, rfl⟩ |
    ⟨rfl, rfl, rfl⟩ | ⟨rfl, rfl, rfl⟩ | ⟨rfl, rfl, rfl⟩ | ⟨rfl, rfl, rfl⟩ | ⟨rfl, rfl, rfl⟩
  -- the 38 client keys do not start with `s`
  iterate 38 exact absurd hstart (by decide)
  -- INVITE
  · cases hh; exact (cmdServerInvite_out hi hn hr).1.mono fun _ => .invite
  -- JOIN
  · cases hh; exact (cmdServerJoin_out hp hn hr).mono fun _ => .join
  -- KICK
  · cases hh; exact (cmdServerKick_out hi hn hr).mono fun _ => .kick
  -- KILL
  · cases hh; exact (cmdServerKill_out hi hn hr).1.mono fun _ => .kill
  -- MODE
  · cases hh; exact (cmdServerMode_out hi hn hr).1.mono fun _ => .mode
  -- NICK
  · cases hh; exact (cmdServerNick_out hr).1.mono fun _ => .reply
  -- NOTICE
  · cases hh; exact (cmdServerPrivmsg_out hi hn hr).2.mono fun _ => .privmsg
  -- PART
  · cases hh; exact (cmdServerPart_out hp hn hr).mono fun _ => .part
  -- PING
  · cases hh; exact (cmdPing_out hr).2.mono fun _ => .self
  -- PRIVMSG
  · cases hh; exact (cmdServerPrivmsg_out hi hn hr).2.mono fun _ => .privmsg
  -- QUIT
  · cases hh; exact (cmdServerQuit_out hp hn hs hsrv hr).mono fun _ => .quit
  -- SVSHOLD
  · cases hh; exact NewOut.of_out (cmdServerSvshold_out hr).1
  -- SVSJOIN
  · cases hh; exact (cmdServerSvsjoin_out hp hn hr).mono fun _ => .svsjoin
  -- SVSMODE
  · cases hh; exact (cmdServerSvsmode_out hi hs hr).1.mono fun _ => .svsmode
  -- SVSNICK
  · cases hh; exact (cmdServerSvsnick_out hp hn hs hsrv hr).1.mono fun _ => .svsnick
  -- SVSPART
  · cases hh; exact (cmdServerSvspart_out hi hn hr).mono fun _ => .svspart
  -- TOPIC
  · cases hh; exact (cmdServerTopic_out hi hn hr).1.mono fun _ => .topic

/-- **`ProcessMessage` for a services link**: every appended line is for the acting link only (gate replies, ban
`ERROR`), or classified by `ServiceLine` relative to the context `c1` in which the handler runs — `c` up to the
link's `remoteAddr` -/
theorem processMessage_services_out {c c' : Ctx} {e : Entry} {im : Option IrcMsg} {s : Session}
    (hp : Pre c e.session) (hn : NI c.st) (hs : AMap.get c.st.sessions e.session = some s)
    (hsrv : s.server = true) (hr : processMessage c e im = .ok c') :
    ∃ c1 s1, AddrStep c c1 e s s1 ∧ Pre c1 e.session ∧ NI c1.st ∧
      NewOut (fun o => ToOnly e.session o ∨ ∃ m, im = some m ∧ ServiceLine c1.st e.session s1 m o) c c' := by
  have hid : s.id = e.session := (hp.inv.sessId _ s hs).1
  rw [processMessage_eq] at hr
  rw [getS_of_get hs] at hr
  simp only [Res.ok_bind] at hr
  cases im with
  | none =>
    cases hr
    refine ⟨c, s, Or.inl ⟨rfl, rfl⟩, hp, hn, ?_⟩
    rw [hid]
    exact (NewOut.refl _ c).sendUser fun _ _ => Or.inl rfl
  | some m =>
    dsimp only at hr
    obtain ⟨⟨c1, b⟩, h1, hr⟩ := Res.bind_eq_ok.1 hr
    obtain ⟨hbt, hbf⟩ := addrStage_cases hp.inv hs h1
    obtain ⟨_, hspec⟩ := addrStage_spec hp hn hs h1
    cases b with
    | true =>
      cases hr
      exact ⟨c, s, Or.inl ⟨rfl, rfl⟩, hp, hn, (hbt rfl).mono fun _ h => Or.inl h⟩
    | false =>
      simp only [Bool.false_eq_true, ↓reduceIte] at hr
      obtain ⟨s1, hstep⟩ := hbf rfl
      obtain ⟨hp1, _, hn1, _⟩ := hspec rfl
      obtain ⟨_, hs1, hbk, ho1, _⟩ := hstep.bk hs hid
      have hsrv1 : s1.server = true := by rw [hbk]; exact hsrv
      have hid1 : s1.id = e.session := (hp1.inv.sessId _ s1 hs1).1
      refine ⟨c1, s1, hstep, hp1, hn1, (NewOut.of_out ho1).trans ?_⟩
      unfold gateStage at hr
      rw [getS_of_get hs1] at hr
      simp only [Res.ok_bind] at hr
      split at hr
      · rw [hid1] at hr
        split at hr
        · have sp := deleteSession_spec (c := sendUser (sendUser c1 e.session _) e.session _)
            hp1.inv.toWInv hs1 (DelPre.of_live (hp1.inv.noDeleted _ s1 hs1)) hr
          exact ((((NewOut.refl _ c1).sendUser (m := _) fun _ _ => Or.inl rfl).sendUser (m := _)
            fun _ _ => Or.inl rfl)).frame sp.frame
        · cases hr
          exact (NewOut.refl _ c1).sendUser fun _ _ => Or.inl rfl
      · unfold dispatchStage at hr
        rw [hid1] at hr
        simp only [hsrv1, ↓reduceIte] at hr
        split at hr
        · cases hr; exact (NewOut.refl _ c1).sendUser fun _ _ => Or.inl rfl
        · rename_i fname mp hl
          split at hr
          · cases hr; exact (NewOut.refl _ c1).sendUser fun _ _ => Or.inl rfl
          · split at hr
            · cases hr
            · rename_i h hh
              exact (services_handler_out (lookupCommand_mem hl) rfl hh hp1 hn1 hs1 hsrv1 hr).mono
                fun _ h => Or.inr ⟨m, rfl, h⟩

/-- the lines of one entry of a services link: for the acting link only, or classified relative to the handler
state `stH` -/
def SvcEntryLines (stH : St) (e : Entry) (sH : Session) (im : Option IrcMsg) (out : List Out) : Prop :=
  ∀ o ∈ out, ToOnly e.session o ∨ ∃ m, im = some m ∧ ServiceLine stH e.session sH m o

/-- `processMessage` started with an empty batch, for a services link, in a state satisfying the invariants -/
theorem processMessage_services_lines {st : St} {c' : Ctx} {e : Entry} {im : Option IrcMsg} {s : Session}
    (h : GPInv st) (hr0 : e.session.reply = 0) (hs : AMap.get st.sessions e.session = some s)
    (hsrv : s.server = true) (hr : processMessage { st := st, msgid := e.id } e im = .ok c') :
    ∃ stH sH, StBk st stH e.session ∧ AMap.get stH.sessions e.session = some sH ∧ Session.Bk s sH ∧
      GPInv stH ∧ SvcEntryLines stH e sH im c'.out := by
  have hp : Pre { st := st, msgid := e.id } e.session := ⟨h.ginv.inv, h.ginv.linv, ⟨_, hs⟩, hr0⟩
  obtain ⟨c1, s1, hstep, hp1, hn1, hout⟩ := processMessage_services_out hp h.ginv.ni hs hsrv hr
  have hid : s.id = e.session := (h.ginv.inv.sessId _ s hs).1
  obtain ⟨hbk, hs1, hb, _, _⟩ := hstep.bk (c := { st := st, msgid := e.id }) hs hid
  refine ⟨c1.st, s1, hbk, hs1, hb,
    ⟨GInv.of_ni hp1.inv hp1.linv hn1, hstep.pinv (c := { st := st, msgid := e.id }) h.pinv hs⟩, ?_⟩
  exact hout.elim (c := { st := st, msgid := e.id }) (by simp)

/-- **C12 for a whole `IRCFromClient` entry of a services link**: the handler runs in a state `stH` that is the
state before the entry up to bookkeeping fields of the link's session, `stH` satisfies all invariants, and every
output line of the entry is for the link only or is classified — with its exact recipient set — by
`ServiceLine stH …` -/
theorem applyEntry_services_out {st st' : St} {e : Entry} {out : List Out} {s : Session}
    (h : GPInv st) (he : EntryOk st e) (ht : e.type = 2)
    (hs : AMap.get st.sessions e.session = some s) (hsrv : s.server = true)
    (hr : applyEntry st e = .ok (st', out)) :
    ∃ stH sH, StBk st stH e.session ∧ AMap.get stH.sessions e.session = some sH ∧ Session.Bk s sH ∧
      GPInv stH ∧ SvcEntryLines stH e sH (parseMessage e.data) out := by
  unfold applyEntry at hr
  rw [if_neg (by omega), if_neg (by omega), if_neg (by omega), if_pos ht] at hr
  split at hr
  · rename_i hu
    unfold updateLastClientMessageID at hu
    rw [hs] at hu
    cases hu
  · rename_i st1 hu
    obtain ⟨c, hpm, hr⟩ := Res.bind_eq_ok.1 hr
    cases hr
    have hbk0 := updateLastClientMessageID_bk hu
    obtain ⟨s1, hs1, hb1⟩ := hbk0.self s hs
    have h1 : GPInv st1 := ⟨GInv_updateLastClientMessageID h.ginv hu, h.pinv.updateLastClientMessageID hu⟩
    have hsrv1 : s1.server = true := by rw [hb1]; exact hsrv
    obtain ⟨stH, sH, hbk, hsH, hb, hg, hl⟩ :=
      processMessage_services_lines h1 (he.1 (Or.inr ht)) hs1 hsrv1 hpm
    exact ⟨stH, sH, hbk0.trans hbk, hsH, hb1.trans hb, hg, hl⟩

/-- the same for a `DeleteSession` entry of a services link (the server generates `QUIT :<reason>` without prefix
for the link: the link and all its pseudo-clients are removed) -/
theorem applyEntry_services_delete_out {st st' : St} {e : Entry} {out : List Out} {s : Session}
    (h : GPInv st) (he : EntryOk st e) (ht : e.type = 1)
    (hs : AMap.get st.sessions e.session = some s) (hsrv : s.server = true)
    (hr : applyEntry st e = .ok (st', out)) :
    ∃ stH sH, StBk st stH e.session ∧ AMap.get stH.sessions e.session = some sH ∧ Session.Bk s sH ∧
      GPInv stH ∧ SvcEntryLines stH e sH (parseMessage ("QUIT :" ++ e.data)) out := by
  unfold applyEntry at hr
  rw [if_neg (by omega), if_neg (by omega), if_pos ht, hs] at hr
  obtain ⟨c, hpm, hr⟩ := Res.bind_eq_ok.1 hr
  cases hr
  exact processMessage_services_lines h (he.1 (Or.inl ht)) hs hsrv hpm

end Robust.Irc
