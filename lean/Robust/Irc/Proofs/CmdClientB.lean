import Robust.Irc.Proofs.CmdClientA
import Robust.Irc.Proofs.H1c
import Robust.Irc.Proofs.H1d
/-!
C15, "has a command": the state-changing client handlers keep `KInv` and emit only lines with a command.
-/
namespace Robust.Irc
open Robust AMap

theorem cmdAway_kstep {c0 c c' : Ctx} {sid : Id} {m : IrcMsg} (hc : KStep c0 c)
    (hr : cmdAway c sid m = .ok c') : KStep c0 c' := by
  have hI := hc.inv
  unfold cmdAway at hr
  kwalk hr

theorem cmdInvite_kstep {c0 c c' : Ctx} {sid : Id} {m : IrcMsg} (hc : KStep c0 c)
    (hr : cmdInvite c sid m = .ok c') : KStep c0 c' := by
  have hI := hc.inv
  unfold cmdInvite at hr
  kwalk hr

theorem cmdTopic_kstep {c0 c c' : Ctx} {sid : Id} {m : IrcMsg} (hc : KStep c0 c)
    (hr : cmdTopic c sid m = .ok c') : KStep c0 c' := by
  have hI := hc.inv
  unfold cmdTopic at hr
  kwalk hr

theorem cmdOper_kstep {c0 c c' : Ctx} {sid : Id} {m : IrcMsg} (hc : KStep c0 c)
    (hr : cmdOper c sid m = .ok c') : KStep c0 c' := by
  have hI := hc.inv
  unfold cmdOper at hr
  kwalk hr

theorem cmdQuit_kstep {c0 c c' : Ctx} {sid : Id} {m : IrcMsg} (hc : KStep c0 c)
    (hr : cmdQuit c sid m = .ok c') : KStep c0 c' := by
  have hI := hc.inv
  unfold cmdQuit at hr
  kwalk hr

theorem partOne_kstep {c0 c c' : Ctx} {sid : Id} {chn : String} (hc : KStep c0 c)
    (hr : partOne c sid chn = .ok c') : KStep c0 c' := by
  have hI := hc.inv
  unfold partOne at hr
  kwalk hr

theorem cmdPart_kstep {c0 c c' : Ctx} {sid : Id} {m : IrcMsg} (hc : KStep c0 c)
    (hr : cmdPart c sid m = .ok c') : KStep c0 c' := by
  unfold cmdPart at hr
  obtain ⟨p0, hp0, hr⟩ := Res.bind_eq_ok.1 hr
  refine KStep.foldlM ?_ hc hr
  intro c1 ch c2 _ h1 h2
  exact partOne_kstep h1 h2

theorem cmdKick_kstep {c0 c c' : Ctx} {sid : Id} {m : IrcMsg} (hc : KStep c0 c)
    (hr : cmdKick c sid m = .ok c') : KStep c0 c' := by
  have hI := hc.inv
  unfold cmdKick at hr
  kwalk hr

theorem cmdKill_kstep {c0 c c' : Ctx} {sid : Id} {m : IrcMsg} (hc : KStep c0 c)
    (hr : cmdKill c sid m = .ok c') : KStep c0 c' := by
  have hI := hc.inv
  unfold cmdKill at hr
  kwalk hr

theorem cmdGline_kstep {c0 c c' : Ctx} {sid : Id} {m : IrcMsg} (hc : KStep c0 c)
    (hr : cmdGline c sid m = .ok c') : KStep c0 c' := by
  have hI := hc.inv
  unfold cmdGline at hr
  obtain ⟨s, hs, hr⟩ := Res.bind_eq_ok.1 hr
  split at hr
  · cases hr; kstep_tac
  · obtain ⟨p0, hp0, hr⟩ := Res.bind_eq_ok.1 hr
    split at hr
    · cases hr; kstep_tac
    · obtain ⟨t, ht, hr⟩ := Res.bind_eq_ok.1 hr
      split at hr
      · cases hr; kstep_tac
      · dsimp only at hr
        refine cmdKill_kstep ?_ hr
        exact hc.same rfl rfl rfl

/-! ### MODE -/

theorem applyChanMode_kstep {c0 c c' : Ctx} {sid : Id} {s : Session} {lc chn : String} {op q q' ret : Bool}
    {mc : ModeCmd} (hc : KStep c0 c) (hr : applyChanMode c sid s lc chn op mc q = .ok (c', q', ret)) :
    KStep c0 c' := by
  have hI := hc.inv
  unfold applyChanMode at hr
  simp only [getChan_eq] at hr
  split at hr
  · rename_i ch hch
    split at hr
    · kwalk hr
    · cases hr
      refine KStep.sendUser' ?_ (fun hI => by hc_msg)
      refine KStep.foldl ?_ hc
      intro c1 p _ h1
      have hI1 := h1.inv
      kstep_tac
  · cases hr

theorem applyChanModes_kstep {c0 : Ctx} {sid : Id} {s : Session} {lc chn : String} {op : Bool} :
    ∀ (l : List ModeCmd) {c c' : Ctx} {q q' ret : Bool}, KStep c0 c →
      applyChanModes c sid s lc chn op l q = .ok (c', q', ret) → KStep c0 c'
  | [], c, c', q, q', ret, h, hr => by
    unfold applyChanModes at hr
    cases hr; exact h
  | mc :: rest, c, c', q, q', ret, h, hr => by
    unfold applyChanModes at hr
    obtain ⟨⟨c1, q1, r1⟩, h1, hr⟩ := Res.bind_eq_ok.1 hr
    have p1 := applyChanMode_kstep h h1
    dsimp only at hr
    split at hr
    · cases hr; exact p1
    · exact applyChanModes_kstep rest p1 hr

theorem cmdMode_kstep {c0 c c' : Ctx} {sid : Id} {m : IrcMsg} (hc : KStep c0 c)
    (hr : cmdMode c sid m = .ok c') : KStep c0 c' := by
  have hI := hc.inv
  unfold cmdMode at hr
  simp only [getChan_eq, Res.panic_bind] at hr
  obtain ⟨s, hs, hr⟩ := Res.bind_eq_ok.1 hr
  obtain ⟨chn, hchn, hr⟩ := Res.bind_eq_ok.1 hr
  have ks := hc.getS hs
  split at hr
  · -- channel modes
    split at hr
    · rename_i ch hch
      split at hr
      · cases hr; kstep_tac
      · split at hr
        · rename_i mem hmem
          obtain ⟨⟨c1, q1, r1⟩, h1, hr⟩ := Res.bind_eq_ok.1 hr
          have p1 := applyChanModes_kstep _ hc h1
          have hI1 := p1.inv
          dsimp only at hr
          kwalk hr
        · cases hr
    · cases hr
  · -- user modes
    split at hr
    · obtain ⟨t, ht, hr⟩ := Res.bind_eq_ok.1 hr
      split at hr
      · cases hr; kstep_tac
      · split at hr
        · cases hr; kstep_tac
        · obtain ⟨c1, h1, hr⟩ := Res.bind_eq_ok.1 hr
          have p1 : KStep c0 c1 := hc.modS_keep h1 (fun _ => ⟨rfl, rfl, rfl, rfl, rfl⟩)
          cases hr
          kstep_tac
    · cases hr; kstep_tac

/-! ### login, USER, PASS -/

theorem loginBanner_kstep {c0 c : Ctx} {sid : Id} {s : Session} (hc : KStep c0 c) (ks : KSess s) :
    KStep c0 (loginBanner c sid s) := by
  have hI := hc.inv
  unfold loginBanner
  dsimp only
  kstep_tac

theorem loginOper_kstep {c0 c c' : Ctx} {sid : Id} {s : Session} (hc : KStep c0 c)
    (hr : loginOper c sid s = .ok c') : KStep c0 c' := by
  unfold loginOper at hr
  dsimp only at hr
  split at hr
  · split at hr
    · cases hr
    · split at hr
      · exact cmdOper_kstep hc hr
      · cases hr; exact hc
  · cases hr; exact hc

theorem maybeLogin_kstep {c0 c c' : Ctx} {sid : Id} {m : IrcMsg} (hc : KStep c0 c)
    (hr : maybeLogin c sid m = .ok c') : KStep c0 c' := by
  rw [maybeLogin_eq] at hr
  obtain ⟨s, hs, hr⟩ := Res.bind_eq_ok.1 hr
  have ks := hc.getS hs
  split at hr
  · cases hr; exact hc
  · split at hr
    · cases hr; exact hc
    · split at hr
      · cases hr
      · obtain ⟨c1, h1, hr⟩ := Res.bind_eq_ok.1 hr
        obtain ⟨c2, h2, hr⟩ := Res.bind_eq_ok.1 hr
        obtain ⟨c3, h3, hr⟩ := Res.bind_eq_ok.1 hr
        have n1 : KStep c0 c1 := hc.modS_keep h1 (fun _ => ⟨rfl, rfl, rfl, rfl, rfl⟩)
        have n2 : KStep c0 c2 := loginOper_kstep (loginBanner_kstep n1 ks) h2
        have n3 : KStep c0 c3 := n2.modS_keep h3 (fun _ => ⟨rfl, rfl, rfl, rfl, rfl⟩)
        exact cmdMotd_kstep n3 hr

/-- USER: the stored user name is the first of at least two parameters (hence without space), cut to 30
characters; the prefix is rebuilt -/
theorem cmdUser_kstep {c0 c c' : Ctx} {sid : Id} {m : IrcMsg} (hc : KStep c0 c) (hm : MidOK m)
    (hl : 2 ≤ m.params.length) (hr : cmdUser c sid m = .ok c') : KStep c0 c' := by
  unfold cmdUser at hr
  obtain ⟨u, hu, hr⟩ := Res.bind_eq_ok.1 hr
  obtain ⟨c1, h1, hr⟩ := Res.bind_eq_ok.1 hr
  have hsp : Spaceless u := hm.param0 hl (param_eq_ok hu)
  refine maybeLogin_kstep (hc.modS h1 ?_) hr
  intro s hs
  exact (hs.setUser hsp m.trailing).update

theorem cmdPass_kstep {c0 c c' : Ctx} {sid : Id} {m : IrcMsg} (hc : KStep c0 c)
    (hr : cmdPass c sid m = .ok c') : KStep c0 c' := by
  unfold cmdPass at hr
  obtain ⟨c1, h1, hr⟩ := Res.bind_eq_ok.1 hr
  exact maybeLogin_kstep (hc.modS_keep h1 (fun _ => ⟨rfl, rfl, rfl, rfl, rfl⟩)) hr

end Robust.Irc
