import Robust.Irc.State
/-!
Algebra of `AMap` (association lists standing for Go maps), of `setInsert` and of
`List.filter (· ≠ x)` on string lists.  Core Lean only.
-/
set_option linter.unusedSectionVars false

namespace Robust.Irc
namespace AMap
variable {κ ν μ : Type} [DecidableEq κ]

/-! ### `get` unfolding -/

@[simp] theorem get_nil (k : κ) : get ([] : AMap κ ν) k = none := rfl

theorem get_cons (k' : κ) (v : ν) (t : AMap κ ν) (k : κ) :
    get ((k', v) :: t) k = if k' = k then some v else get t k := rfl

@[simp] theorem get_cons_same (k : κ) (v : ν) (t : AMap κ ν) : get ((k, v) :: t) k = some v := by
  simp [get_cons]

theorem get_cons_ne {k' k : κ} (h : k' ≠ k) (v : ν) (t : AMap κ ν) : get ((k', v) :: t) k = get t k := by
  simp [get_cons, h]

@[simp] theorem keys_nil : keys ([] : AMap κ ν) = [] := rfl
@[simp] theorem keys_cons (e : κ × ν) (t : AMap κ ν) : keys (e :: t) = e.1 :: keys t := rfl

theorem keys_eq_nil {m : AMap κ ν} : keys m = [] ↔ m = [] := by
  cases m <;> simp

theorem length_keys (m : AMap κ ν) : (keys m).length = m.length := by
  simp [keys]

/-! ### keys / get / contains -/

theorem mem_keys_iff_get {m : AMap κ ν} {k : κ} : k ∈ keys m ↔ ∃ v, get m k = some v := by
  induction m with
  | nil => simp
  | cons e t ih =>
    obtain ⟨k', v'⟩ := e
    by_cases h : k' = k
    · subst h; simp
    · simp only [keys_cons, List.mem_cons, get_cons_ne h, ← ih]
      constructor
      · rintro (h1 | h1)
        · exact absurd h1.symm h
        · exact h1
      · exact Or.inr

theorem get_eq_none_iff {m : AMap κ ν} {k : κ} : get m k = none ↔ k ∉ keys m := by
  rw [mem_keys_iff_get]
  cases get m k <;> simp

theorem mem_keys_of_get {m : AMap κ ν} {k : κ} {v : ν} (h : get m k = some v) : k ∈ keys m :=
  mem_keys_iff_get.2 ⟨v, h⟩

theorem contains_iff_get {m : AMap κ ν} {k : κ} : contains m k = true ↔ ∃ v, get m k = some v := by
  unfold contains
  cases get m k <;> simp

theorem contains_iff_mem_keys {m : AMap κ ν} {k : κ} : contains m k = true ↔ k ∈ keys m := by
  rw [contains_iff_get, mem_keys_iff_get]

theorem contains_eq_false_iff {m : AMap κ ν} {k : κ} : contains m k = false ↔ get m k = none := by
  unfold contains
  cases get m k <;> simp

theorem contains_of_get {m : AMap κ ν} {k : κ} {v : ν} (h : get m k = some v) : contains m k = true :=
  contains_iff_get.2 ⟨v, h⟩

theorem mem_of_get {m : AMap κ ν} {k : κ} {v : ν} (h : get m k = some v) : (k, v) ∈ m := by
  induction m with
  | nil => simp at h
  | cons e t ih =>
    obtain ⟨k', v'⟩ := e
    by_cases hk : k' = k
    · subst hk; simp at h; subst h; simp
    · rw [get_cons_ne hk] at h
      exact List.mem_cons_of_mem _ (ih h)

theorem mem_keys_of_mem {m : AMap κ ν} {e : κ × ν} (h : e ∈ m) : e.1 ∈ keys m :=
  List.mem_map.2 ⟨e, h, rfl⟩

theorem get_of_mem_nodup {m : AMap κ ν} {k : κ} {v : ν} (hn : (keys m).Nodup) (h : (k, v) ∈ m) :
    get m k = some v := by
  induction m with
  | nil => simp at h
  | cons e t ih =>
    obtain ⟨k', v'⟩ := e
    simp only [keys_cons, List.nodup_cons] at hn
    rcases List.mem_cons.1 h with h1 | h1
    · injection h1 with h2 h3; subst h2; subst h3; simp
    · have hk : k' ≠ k := by
        intro hk; subst hk
        exact hn.1 (mem_keys_of_mem h1)
      rw [get_cons_ne hk]
      exact ih hn.2 h1

theorem get_iff_mem {m : AMap κ ν} {k : κ} {v : ν} (hn : (keys m).Nodup) : get m k = some v ↔ (k, v) ∈ m :=
  ⟨mem_of_get, get_of_mem_nodup hn⟩

theorem ne_nil_of_get {m : AMap κ ν} {k : κ} {v : ν} (h : get m k = some v) : m ≠ [] := by
  intro hm; subst hm; simp at h

theorem exists_get_of_ne_nil {m : AMap κ ν} (h : m ≠ []) : ∃ k v, get m k = some v := by
  cases m with
  | nil => exact absurd rfl h
  | cons e t => exact ⟨e.1, e.2, get_cons_same e.1 e.2 t⟩

/-! ### `set` -/

@[simp] theorem get_set_same (m : AMap κ ν) (k : κ) (v : ν) : get (set m k v) k = some v := by
  induction m with
  | nil => simp [set]
  | cons e t ih =>
    obtain ⟨k', v'⟩ := e
    by_cases h : k' = k
    · simp [set, h]
    · simp [set, h, get_cons_ne h, ih]

theorem get_set_other {m : AMap κ ν} {k k' : κ} (v : ν) (h : k' ≠ k) : get (set m k v) k' = get m k' := by
  induction m with
  | nil => simp [set, get_cons, Ne.symm h]
  | cons e t ih =>
    obtain ⟨k'', v''⟩ := e
    by_cases h1 : k'' = k
    · subst h1
      simp [set, get_cons, Ne.symm h]
    · simp only [set, h1, if_false, get_cons, ih]

theorem get_set (m : AMap κ ν) (k k' : κ) (v : ν) :
    get (set m k v) k' = if k' = k then some v else get m k' := by
  by_cases h : k' = k
  · subst h; simp
  · simp [h, get_set_other v h]

theorem keys_set (m : AMap κ ν) (k : κ) (v : ν) :
    keys (set m k v) = if k ∈ keys m then keys m else keys m ++ [k] := by
  induction m with
  | nil => simp [set]
  | cons e t ih =>
    obtain ⟨k', v'⟩ := e
    by_cases h : k' = k
    · subst h; simp [set]
    · have h' : ¬ k = k' := fun h2 => h h2.symm
      simp only [set, h, if_false, keys_cons, ih, List.mem_cons, h', false_or]
      split <;> simp

theorem keys_set_of_mem {m : AMap κ ν} {k : κ} (v : ν) (h : k ∈ keys m) : keys (set m k v) = keys m := by
  simp [keys_set, h]

theorem keys_set_of_not_mem {m : AMap κ ν} {k : κ} (v : ν) (h : k ∉ keys m) : keys (set m k v) = keys m ++ [k] := by
  simp [keys_set, h]

theorem mem_keys_set {m : AMap κ ν} {k k' : κ} {v : ν} : k' ∈ keys (set m k v) ↔ k' = k ∨ k' ∈ keys m := by
  rw [keys_set]
  split
  · constructor
    · exact Or.inr
    · rintro (h | h)
      · subst h; assumption
      · exact h
  · simp [or_comm]

theorem nodup_keys_set {m : AMap κ ν} (k : κ) (v : ν) (h : (keys m).Nodup) : (keys (set m k v)).Nodup := by
  rw [keys_set]
  split
  · exact h
  · rename_i hk
    rw [List.nodup_append]
    refine ⟨h, by simp, ?_⟩
    intro a ha b hb
    simp at hb; subst hb
    intro hab; subst hab
    exact hk ha

theorem set_ne_nil (m : AMap κ ν) (k : κ) (v : ν) : set m k v ≠ [] := by
  cases m with
  | nil => simp [set]
  | cons e t =>
    obtain ⟨k', v'⟩ := e
    simp only [set]
    split <;> simp

@[simp] theorem set_set (m : AMap κ ν) (k : κ) (v v' : ν) : set (set m k v) k v' = set m k v' := by
  induction m with
  | nil => simp [set]
  | cons e t ih =>
    obtain ⟨k', v''⟩ := e
    by_cases h : k' = k
    · simp [set, h]
    · simp [set, h, ih]

theorem set_eq_self {m : AMap κ ν} {k : κ} {v : ν} (h : get m k = some v) : set m k v = m := by
  induction m with
  | nil => simp at h
  | cons e t ih =>
    obtain ⟨k', v'⟩ := e
    by_cases hk : k' = k
    · subst hk; simp at h; subst h; simp [set]
    · rw [get_cons_ne hk] at h
      simp [set, hk, ih h]

/-! ### `erase` -/

@[simp] theorem erase_nil (k : κ) : erase ([] : AMap κ ν) k = [] := rfl

theorem erase_cons (e : κ × ν) (t : AMap κ ν) (k : κ) :
    erase (e :: t) k = if e.1 = k then erase t k else e :: erase t k := by
  by_cases h : e.1 = k <;> simp [erase, h]

theorem keys_erase (m : AMap κ ν) (k : κ) : keys (erase m k) = (keys m).filter (· ≠ k) := by
  induction m with
  | nil => rfl
  | cons e t ih =>
    by_cases h : e.1 = k
    · simp [erase_cons, h, ih]
    · simp [erase_cons, h, ih]

theorem mem_keys_erase {m : AMap κ ν} {k k' : κ} : k' ∈ keys (erase m k) ↔ k' ≠ k ∧ k' ∈ keys m := by
  rw [keys_erase, List.mem_filter]
  simp [and_comm]

theorem nodup_keys_erase {m : AMap κ ν} (k : κ) (h : (keys m).Nodup) : (keys (erase m k)).Nodup := by
  rw [keys_erase]
  exact h.sublist List.filter_sublist

@[simp] theorem get_erase_same (m : AMap κ ν) (k : κ) : get (erase m k) k = none := by
  rw [get_eq_none_iff, mem_keys_erase]
  simp

theorem get_erase_other {m : AMap κ ν} {k k' : κ} (h : k' ≠ k) : get (erase m k) k' = get m k' := by
  induction m with
  | nil => rfl
  | cons e t ih =>
    obtain ⟨k'', v''⟩ := e
    by_cases h1 : k'' = k
    · subst h1
      simp only [erase_cons, if_true, ih]
      rw [get_cons_ne (Ne.symm h)]
    · simp only [erase_cons, h1, if_false, get_cons, ih]

theorem get_erase (m : AMap κ ν) (k k' : κ) : get (erase m k) k' = if k' = k then none else get m k' := by
  by_cases h : k' = k
  · subst h; simp
  · simp [h, get_erase_other h]

theorem erase_eq_self {m : AMap κ ν} {k : κ} (h : k ∉ keys m) : erase m k = m := by
  induction m with
  | nil => rfl
  | cons e t ih =>
    simp only [keys_cons, List.mem_cons, not_or] at h
    have h1 : ¬ e.1 = k := fun h2 => h.1 h2.symm
    simp [erase_cons, h1, ih h.2]

theorem length_erase_le (m : AMap κ ν) (k : κ) : (erase m k).length ≤ m.length :=
  List.length_filter_le _ _

theorem get_of_get_erase {m : AMap κ ν} {k k' : κ} {v : ν} (h : get (erase m k) k' = some v) :
    k' ≠ k ∧ get m k' = some v := by
  rw [get_erase] at h
  split at h
  · simp at h
  · rename_i hk; exact ⟨hk, h⟩

/-! ### mapping the values -/

theorem keys_map_val (m : AMap κ ν) (f : κ × ν → μ) : keys (m.map fun e => (e.1, f e)) = keys m := by
  simp [keys, List.map_map, Function.comp_def]

theorem get_map_val' (m : AMap κ ν) (f : κ × ν → μ) (k : κ) :
    get (m.map fun e => (e.1, f e)) k = (get m k).map (fun v => f (k, v)) := by
  induction m with
  | nil => rfl
  | cons e t ih =>
    obtain ⟨k', v'⟩ := e
    by_cases h : k' = k
    · subst h; simp
    · simp only [List.map_cons]
      rw [get_cons_ne h, get_cons_ne h, ih]

/-- the form used by `cmdNick` / `maybeDeleteChannel`: `m.map fun e => (e.1, f e.2)` -/
theorem get_map_val (m : AMap κ ν) (f : ν → μ) (k : κ) :
    get (m.map fun e => (e.1, f e.2)) k = (get m k).map f :=
  get_map_val' m (fun e => f e.2) k

/-! ### filtering -/

theorem keys_filter_sublist (m : AMap κ ν) (p : κ × ν → Bool) : (keys (m.filter p)).Sublist (keys m) := by
  unfold keys
  exact List.Sublist.map _ List.filter_sublist

theorem nodup_keys_filter {m : AMap κ ν} (p : κ × ν → Bool) (h : (keys m).Nodup) : (keys (m.filter p)).Nodup :=
  h.sublist (keys_filter_sublist m p)

theorem mem_keys_filter {m : AMap κ ν} {p : κ × ν → Bool} {k : κ} (h : k ∈ keys (m.filter p)) : k ∈ keys m :=
  (keys_filter_sublist m p).subset h

theorem get_filter {m : AMap κ ν} (p : κ × ν → Bool) (hn : (keys m).Nodup) {k : κ} {v : ν} :
    get (m.filter p) k = some v ↔ get m k = some v ∧ p (k, v) = true := by
  rw [get_iff_mem (nodup_keys_filter p hn), get_iff_mem hn, List.mem_filter]

/-! ### `all` -/

theorem all_iff_get {m : AMap κ ν} {p : κ × ν → Bool} (hn : (keys m).Nodup) :
    m.all p = true ↔ ∀ k v, get m k = some v → p (k, v) = true := by
  rw [List.all_eq_true]
  constructor
  · intro h k v hg; exact h _ (mem_of_get hg)
  · intro h e he
    exact h e.1 e.2 (get_of_mem_nodup hn he)

end AMap

/-! ### string sets kept as lists -/

theorem mem_setInsert {l : List String} {x y : String} : y ∈ setInsert l x ↔ y = x ∨ y ∈ l := by
  unfold setInsert
  split
  · rename_i h
    have hx : x ∈ l := by simpa using h
    constructor
    · exact Or.inr
    · rintro (h1 | h1)
      · subst h1; exact hx
      · exact h1
  · simp [or_comm]

theorem nodup_setInsert {l : List String} (x : String) (h : l.Nodup) : (setInsert l x).Nodup := by
  unfold setInsert
  split
  · exact h
  · rename_i hx
    have hx' : x ∉ l := by simpa using hx
    rw [List.nodup_append]
    refine ⟨h, by simp, ?_⟩
    intro a ha b hb
    simp at hb; subst hb
    intro hab; subst hab
    exact hx' ha

theorem mem_filter_ne {l : List String} {x y : String} : y ∈ l.filter (· ≠ x) ↔ y ≠ x ∧ y ∈ l := by
  rw [List.mem_filter]
  simp [and_comm]

theorem nodup_filter_ne {l : List String} (x : String) (h : l.Nodup) : (l.filter (· ≠ x)).Nodup :=
  h.sublist List.filter_sublist

theorem not_mem_filter_ne (l : List String) (x : String) : x ∉ l.filter (· ≠ x) := by
  simp

end Robust.Irc
