import Robust.Irc.Proofs.RcptOut
import Robust.Irc.Proofs.NH1
/-!
C12, vocabulary for the per-handler recipient theorems:

* `RcptIs o S svc` – the recipients of the output `o` are *exactly* the sessions in the set `S`
  (reached through their numeric ids) plus the services links `svc`;
* how the membership relation `Lists st lc id` ("the stored session `id` lists channel `lc`") and its
  index-aware form `OnChan` move along the primitives that change membership (`leaveChannel`,
  `deleteSession`, the member-adding `modS` of JOIN) and stay put along everything else.
-/
namespace Robust.Irc
open Robust AMap

/-- the recipients of `o` are exactly the sessions in `S` (through their numeric ids) and the
services links `svc` -/
def RcptIs (o : Out) (S : Id → Prop) (svc : List Nat) : Prop :=
  ∀ n, n ∈ o.rcpt ↔ (∃ id, S id ∧ id.id = n) ∨ n ∈ svc

namespace RcptIs

theorem congr {o : Out} {S S' : Id → Prop} {svc : List Nat} (h : RcptIs o S svc) (hs : ∀ id, S id ↔ S' id) :
    RcptIs o S' svc := by
  intro n
  rw [h n]
  constructor <;> (rintro (⟨id, h1, h2⟩ | h); exact Or.inl ⟨id, by first | exact (hs id).1 h1 | exact (hs id).2 h1, h2⟩; exact Or.inr h)

/-- `rc` (a channel's members, …) alone -/
theorem of_list {i k : Nat} {d : Bytes} {rc : List Nat} {S : Id → Prop}
    (hrc : ∀ n, n ∈ rc ↔ ∃ id, S id ∧ id.id = n) : RcptIs ⟨i, k, d, rc⟩ S [] := by
  intro n
  simp only [List.not_mem_nil, or_false]
  exact hrc n

/-- `rc ++ rcServices` -/
theorem of_list_svc {i k : Nat} {d : Bytes} {rc svc : List Nat} {S : Id → Prop}
    (hrc : ∀ n, n ∈ rc ↔ ∃ id, S id ∧ id.id = n) : RcptIs ⟨i, k, d, rc ++ svc⟩ S svc := by
  intro n
  simp only [List.mem_append]
  rw [hrc n]

/-- `rcServices` alone -/
theorem of_svc {i k : Nat} {d : Bytes} {svc : List Nat} : RcptIs ⟨i, k, d, svc⟩ (fun _ => False) svc := by
  intro n
  simp

/-- `rcUser tid` alone -/
theorem of_user {i k : Nat} {d : Bytes} {tid : Id} : RcptIs ⟨i, k, d, rcUser tid⟩ (fun id => id = tid) [] := by
  intro n
  simp only [mem_rcUser, List.not_mem_nil, or_false]
  constructor
  · rintro rfl; exact ⟨tid, rfl, rfl⟩
  · rintro ⟨id, rfl, rfl⟩; rfl

/-- `rcUser tid ++ rcServices` -/
theorem of_user_svc {i k : Nat} {d : Bytes} {tid : Id} {svc : List Nat} :
    RcptIs ⟨i, k, d, rcUser tid ++ svc⟩ (fun id => id = tid) svc := by
  intro n
  simp only [List.mem_append, mem_rcUser]
  constructor
  · rintro (rfl | h)
    · exact Or.inl ⟨tid, rfl, rfl⟩
    · exact Or.inr h
  · rintro (⟨id, rfl, rfl⟩ | h)
    · exact Or.inl rfl
    · exact Or.inr h

/-- `rcUser sid ++ rc ++ rcServices` -/
theorem of_user_list_svc {i k : Nat} {d : Bytes} {sid : Id} {rc svc : List Nat} {S : Id → Prop}
    (hrc : ∀ n, n ∈ rc ↔ ∃ id, S id ∧ id.id = n) :
    RcptIs ⟨i, k, d, rcUser sid ++ rc ++ svc⟩ (fun id => id = sid ∨ S id) svc := by
  intro n
  simp only [List.mem_append, mem_rcUser]
  rw [hrc n]
  constructor
  · rintro ((rfl | ⟨id, h1, h2⟩) | h)
    · exact Or.inl ⟨sid, Or.inl rfl, rfl⟩
    · exact Or.inl ⟨id, Or.inr h1, h2⟩
    · exact Or.inr h
  · rintro (⟨id, (rfl | h1), h2⟩ | h)
    · exact Or.inl (Or.inl h2.symm)
    · exact Or.inl (Or.inr ⟨id, h1, h2⟩)
    · exact Or.inr h

/-- a line that goes to one session only -/
theorem of_toOnly {o : Out} {tid : Id} (h : ToOnly tid o) : RcptIs o (fun id => id = tid) [] := by
  intro n
  unfold ToOnly at h
  rw [h]
  simp only [List.mem_singleton, List.not_mem_nil, or_false]
  constructor
  · rintro rfl; exact ⟨tid, rfl, rfl⟩
  · rintro ⟨id, rfl, rfl⟩; rfl

/-- nobody outside `S` and the services links receives the line -/
theorem sound {o : Out} {S : Id → Prop} {svc : List Nat} (h : RcptIs o S svc) {n : Nat} (hn : n ∈ o.rcpt) :
    (∃ id, S id ∧ id.id = n) ∨ n ∈ svc := (h n).1 hn

/-- everybody in `S` receives the line -/
theorem complete {o : Out} {S : Id → Prop} {svc : List Nat} (h : RcptIs o S svc) {id : Id} (hs : S id) :
    id.id ∈ o.rcpt := (h id.id).2 (Or.inl ⟨id, hs, rfl⟩)

end RcptIs

/-! ### `Lists` only reads the channel lists of the stored sessions -/

/-- the two states store the same sessions with the same channel lists -/
def SameLists (st st' : St) : Prop :=
  ∀ id, (AMap.get st'.sessions id).map (·.channels) = (AMap.get st.sessions id).map (·.channels)

theorem SameLists.refl (st : St) : SameLists st st := fun _ => rfl
theorem SameLists.trans {a b c : St} (h1 : SameLists a b) (h2 : SameLists b c) : SameLists a c :=
  fun id => (h2 id).trans (h1 id)
theorem SameLists.symm {a b : St} (h : SameLists a b) : SameLists b a := fun id => (h id).symm
theorem SameLists.of_eq {st st' : St} (h : st'.sessions = st.sessions) : SameLists st st' := by
  intro id; rw [h]

theorem SameLists.lists {st st' : St} (h : SameLists st st') {lc : String} {id : Id} :
    Lists st' lc id ↔ Lists st lc id := by
  have key : ∀ {a b : St}, SameLists a b → Lists b lc id → Lists a lc id := by
    intro a b hab ⟨s', hs', hl⟩
    have := hab id
    rw [hs'] at this
    cases hg : AMap.get a.sessions id with
    | none => rw [hg] at this; cases this
    | some s =>
      rw [hg] at this
      simp only [Option.map_some, Option.some.injEq] at this
      exact ⟨s, hg, by rw [← this]; exact hl⟩
  exact ⟨key h, key h.symm⟩

theorem SameLists.of_sim {st st' : St} (h : StSim st st') : SameLists st st' := by
  intro id
  have := h.sess.eq id
  cases h1 : AMap.get st'.sessions id <;> cases h2 : AMap.get st.sessions id <;>
    simp [h1, h2, Session.core] at this ⊢
  exact this.2.2.2

theorem SameLists.of_inert {c c' : Ctx} (h : Inert c c') : SameLists c.st c'.st := .of_sim h.sim
theorem SameLists.of_emits {c c' : Ctx} (h : Emits c c') : SameLists c.st c'.st := .of_eq (by rw [h.st])

/-- `modS` with a function that keeps the channel list -/
theorem SameLists.modS {c c' : Ctx} {tid : Id} {f : Session → Session} (hid : ∀ s, AMap.get c.st.sessions tid = some s → (f s).id = tid)
    (hf : ∀ s, (f s).channels = s.channels) (hr : Robust.Irc.modS c tid f = .ok c') : SameLists c.st c'.st := by
  obtain ⟨s, hs, rfl⟩ := modS_eq_ok.1 hr
  intro id
  rw [putS_sessions, hid s hs, AMap.get_set]
  split
  · rename_i he; subst he; simp [hs, hf]
  · rfl

theorem SameLists.sessUpTo {st st' : St} (h : SessUpTo st.sessions st'.sessions) : SameLists st st' := by
  intro id
  cases hg : AMap.get st.sessions id with
  | none => rw [h.none hg]
  | some s =>
    obtain ⟨inv, hinv⟩ := h.get id s hg
    rw [hinv]; rfl

/-! ### membership after `leaveChannel` -/

/-- after `leaveChannel c lc lcn tid`: the same memberships, except that `tid` is no longer on `lc` -/
theorem LeaveSpec.lists {c c' : Ctx} {lc lcn : String} {tid : Id} (sp : LeaveSpec c c' lc lcn tid)
    {lc' : String} {id : Id} : Lists c'.st lc' id ↔ Lists c.st lc' id ∧ ¬ (id = tid ∧ lc' = lc) := by
  constructor
  · rintro ⟨s', hs', hl⟩
    cases hg0 : AMap.get c.st.sessions id with
    | none =>
      have : id ∉ AMap.keys c'.st.sessions := by rw [sp.keys]; exact AMap.get_eq_none_iff.1 hg0
      exact absurd (AMap.mem_keys_of_get hs') this
    | some s =>
      by_cases hid : id = tid
      · subst hid
        obtain ⟨inv, h⟩ := sp.self s hg0
        rw [h] at hs'; cases hs'
        have := Robust.Irc.mem_filter_ne.1 hl
        exact ⟨⟨s, hg0, this.2⟩, fun hh => this.1 hh.2⟩
      · obtain ⟨inv, h⟩ := sp.others id s hid hg0
        rw [h] at hs'; cases hs'
        exact ⟨⟨s, hg0, hl⟩, fun hh => hid hh.1⟩
  · rintro ⟨⟨s, hs, hl⟩, hne⟩
    by_cases hid : id = tid
    · subst hid
      obtain ⟨inv, h⟩ := sp.self s hs
      refine ⟨_, h, ?_⟩
      exact Robust.Irc.mem_filter_ne.2 ⟨fun he => hne ⟨rfl, he⟩, hl⟩
    · obtain ⟨inv, h⟩ := sp.others id s hid hs
      exact ⟨_, h, hl⟩

/-! ### membership after `deleteSession` -/

/-- after `deleteSession c sid` (of a live session with a nickname, in a state between entries): the
sessions still *on* a channel (indexed and listing it) are the former members other than `sid`.
(The deleted session value keeps its channel list but is no longer indexed.) -/
theorem DelSpec.onChan {c c' : Ctx} {sid : Id} {s : Session} (sp : DelSpec c c' sid s)
    (hi : Inv c.st) (hn : NI c.st) (hs : AMap.get c.st.sessions sid = some s) (hnick : s.nick ≠ "")
    {lc : String} {id : Id} : OnChan c'.st lc id ↔ Lists c.st lc id ∧ id ≠ sid := by
  have hown : AMap.get c.st.nicks (nickToLower s.nick) = some sid := hi.owns sid s hs (hi.noDeleted sid s hs) hnick
  constructor
  · rintro ⟨x, t', hx, ht', hl⟩
    rw [sp.nicks, AMap.get_erase] at hx
    split at hx
    · cases hx
    · rename_i hne
      have hid : id ≠ sid := by
        intro he; subst he
        exact hne (hi.toWInvCore.index_inj hx hown)
      cases hg0 : AMap.get c.st.sessions id with
      | none =>
        have : id ∉ AMap.keys c'.st.sessions := by rw [sp.keys]; exact AMap.get_eq_none_iff.1 hg0
        exact absurd (AMap.mem_keys_of_get ht') this
      | some t =>
        obtain ⟨inv, h⟩ := sp.others id t hid hg0
        rw [h] at ht'; cases ht'
        exact ⟨⟨t, hg0, hl⟩, hid⟩
  · rintro ⟨⟨t, ht, hl⟩, hid⟩
    have htn : t.nick ≠ "" := by
      intro he
      have := (hn.sess id t ht).1 he
      rw [this] at hl; cases hl
    have hidx : AMap.get c.st.nicks (nickToLower t.nick) = some id := hi.owns id t ht (hi.noDeleted id t ht) htn
    have hne : nickToLower t.nick ≠ nickToLower s.nick := by
      intro he
      rw [he, hown] at hidx
      cases hidx
      exact hid rfl
    obtain ⟨inv, h⟩ := sp.others id t hid ht
    exact ⟨nickToLower t.nick, _, by rw [sp.nicks, AMap.get_erase_other hne]; exact hidx, h, hl⟩

/-! ### membership after the member-adding step of JOIN -/

/-- `modS … (channels := setInsert channels lc)` on the session stored under `sid` -/
theorem lists_addMember {c c' : Ctx} {sid : Id} {s : Session} {lc : String}
    (hs : AMap.get c.st.sessions sid = some s) (hid : s.id = sid)
    (hr : modS c sid (fun t => { t with channels := setInsert t.channels lc }) = .ok c')
    {lc' : String} {id : Id} : Lists c'.st lc' id ↔ Lists c.st lc' id ∨ (id = sid ∧ lc' = lc) := by
  obtain ⟨s0, hs0, rfl⟩ := modS_eq_ok.1 hr
  rw [hs] at hs0; cases hs0
  unfold Lists
  rw [putS_sessions]
  simp only [hid]
  by_cases he : id = sid
  · subst he
    rw [AMap.get_set_same]
    constructor
    · rintro ⟨s', h1, hl⟩
      cases h1
      rcases Robust.Irc.mem_setInsert.1 hl with h | h
      · exact Or.inr ⟨rfl, h⟩
      · exact Or.inl ⟨s, hs, h⟩
    · rintro (⟨s', h1, hl⟩ | ⟨_, h⟩)
      · rw [hs] at h1; cases h1
        exact ⟨_, rfl, Robust.Irc.mem_setInsert.2 (Or.inr hl)⟩
      · exact ⟨_, rfl, Robust.Irc.mem_setInsert.2 (Or.inl h)⟩
  · rw [AMap.get_set_other _ he]
    constructor
    · exact Or.inl
    · rintro (h | ⟨h, _⟩)
      · exact h
      · exact absurd h he

/-! ### the recipient lookups in a state between entries (`Inv` + `NI`), in terms of `Lists` -/

theorem onChan_iff_lists' {st : St} (hi : Inv st) (hn : NI st) {lc : String} {id : Id} :
    OnChan st lc id ↔ Lists st lc id := onChan_iff_lists hi (hn.ninv hi.toWInvCore)

theorem rcChannel_lists {st : St} (hi : Inv st) (hn : NI st) {lc : String} {ch : Channel}
    (hc : AMap.get st.channels lc = some ch) {rc : List Nat} (hr : rcChannel st ch = Res.ok rc) (n : Nat) :
    n ∈ rc ↔ ∃ id, Lists st lc id ∧ id.id = n := by
  rw [rcChannel_rcpt hi.toWInv hc hr]
  constructor <;> (rintro ⟨id, ho, he⟩; exact ⟨id, by first | exact (onChan_iff_lists' hi hn).1 ho | exact (onChan_iff_lists' hi hn).2 ho, he⟩)

theorem rcChannelButOne_lists {st : St} (hi : Inv st) (hn : NI st) {lc : String} {ch : Channel}
    (hc : AMap.get st.channels lc = some ch) {user : Id} {rc : List Nat}
    (hr : rcChannelButOne st ch user = Res.ok rc) (n : Nat) :
    n ∈ rc ↔ ∃ id, (Lists st lc id ∧ id ≠ user) ∧ id.id = n := by
  rw [rcChannelButOne_rcpt hi.toWInv hc hr]
  constructor
  · rintro ⟨id, ho, hne, he⟩; exact ⟨id, ⟨(onChan_iff_lists' hi hn).1 ho, hne⟩, he⟩
  · rintro ⟨id, ⟨ho, hne⟩, he⟩; exact ⟨id, (onChan_iff_lists' hi hn).2 ho, hne, he⟩

theorem rcCommonChannels_lists {st : St} (hi : Inv st) (hn : NI st) {u : Session} {rc : List Nat}
    (hr : rcCommonChannels st u = Res.ok rc) (n : Nat) :
    n ∈ rc ↔ ∃ id, (∃ lc ∈ u.channels, Lists st lc id) ∧ id.id = n := by
  rw [rcCommonChannels_rcpt hi.toWInv hr]
  constructor
  · rintro ⟨lc, id, hl, ho, he⟩; exact ⟨id, ⟨lc, hl, (onChan_iff_lists' hi hn).1 ho⟩, he⟩
  · rintro ⟨id, ⟨lc, hl, ho⟩, he⟩; exact ⟨lc, id, hl, (onChan_iff_lists' hi hn).2 ho, he⟩

/-- a session on a stored channel's member list, seen from the member key: the indexed owner of a member key
lists the channel -/
theorem lists_of_member {st : St} (h : WInvCore st) {lc x : String} {ch : Channel} {id : Id}
    (hc : AMap.get st.channels lc = some ch) (hx : AMap.contains ch.nicks x = true)
    (hi : AMap.get st.nicks x = some id) : Lists st lc id := by
  obtain ⟨id', s, h1, h2, h3⟩ := (h.chans lc ch hc).2.2 x (AMap.contains_iff_mem_keys.1 hx)
  rw [hi] at h1; cases h1
  exact ⟨s, h2, h3⟩

end Robust.Irc
