import Robust.Irc.Proofs.RcptMem
/-!
C12, part 2b: KICK, PART, INVITE, KNOCK — who receives what, and what the command does to the membership
relation `Lists` (the "reference model": the stored session `id` lists channel `lc`).
-/
namespace Robust.Irc
open Robust AMap

/-! ### KICK -/

/-- the lines `cmdKick` can produce -/
inductive KickLine (st : St) (sid : Id) (s : Session) (m : IrcMsg) (o : Out) : Prop
  /-- numeric reply (403, 442, 482, 441): to the sender only -/
  | reply (h : ToOnly sid o)
  /-- the KICK, under the sender's prefix: to exactly the sessions listing the channel (the kicked one
  included) and the services links; the sender is a channel operator of that channel and the target is on it -/
  | relay (chn target : String) (ch : Channel) (mem : Member) (tid : Id)
      (hp0 : m.params[0]? = some chn) (hp1 : m.params[1]? = some target)
      (hc : AMap.get st.channels (chanToLower chn) = some ch)
      (hop : AMap.get ch.nicks (nickToLower s.nick) = some mem) (hchanop : mem.chanop = true)
      (ht : AMap.get st.nicks (nickToLower target) = some tid) (hton : Lists st (chanToLower chn) tid)
      (hd : o.data = (IrcMsg.mk (some s.ircPrefix) "KICK" [chn, target, m.trailing]).render)
      (hr : RcptIs o (Lists st (chanToLower chn)) st.serverSessions)

theorem cmdKick_out {c c' : Ctx} {sid : Id} {m : IrcMsg} {s : Session} (hi : Inv c.st) (hn : NI c.st)
    (hs : AMap.get c.st.sessions sid = some s) (hr : cmdKick c sid m = .ok c') :
    NewOut (KickLine c.st sid s m) c c' := by
  unfold cmdKick at hr
  rw [getS_of_get hs] at hr
  simp only [Res.ok_bind] at hr
  obtain ⟨chn, hchn, hr⟩ := Res.bind_eq_ok.1 hr
  obtain ⟨target, htarget, hr⟩ := Res.bind_eq_ok.1 hr
  have hp0 := param_eq_ok hchn
  have hp1 := param_eq_ok htarget
  simp only [getChan_eq] at hr
  split at hr
  · cases hr; exact (NewOut.refl _ c).sendUser fun _ _ => .reply rfl
  · rename_i ch hch
    split at hr
    · cases hr; exact (NewOut.refl _ c).sendUser fun _ _ => .reply rfl
    · rename_i perms hperms
      split at hr
      · cases hr; exact (NewOut.refl _ c).sendUser fun _ _ => .reply rfl
      · rename_i hop
        split at hr
        · cases hr; exact (NewOut.refl _ c).sendUser fun _ _ => .reply rfl
        · rename_i hcont
          split at hr
          · rename_i tid hidx
            obtain ⟨rc, hrc, hr⟩ := Res.bind_eq_ok.1 hr
            have hchanop : perms.chanop = true := by
              cases hb : perms.chanop with
              | true => rfl
              | false => rw [hb] at hop; simp at hop
            have hcont' : AMap.contains ch.nicks (nickToLower target) = true := by
              cases hb : AMap.contains ch.nicks (nickToLower target) with
              | true => rfl
              | false => rw [hb] at hcont; simp at hcont
            have sp := leaveChannel_spec (c := emit _ _ _) hi.toWInv hidx hr
            refine ((NewOut.refl _ c).emit fun _ _ => ?_).frame sp.frame
            exact .relay chn target ch perms tid hp0 hp1 hch hperms hchanop hidx
              (lists_of_member hi.toWInvCore hch hcont' hidx) rfl
              (RcptIs.of_list_svc (rcChannel_lists hi hn hch hrc))
          · cases hr

/-- the membership after KICK: nothing changes, or exactly the target leaves exactly that channel -/
theorem cmdKick_lists {c c' : Ctx} {sid : Id} {m : IrcMsg} (hi : Inv c.st)
    (hr : cmdKick c sid m = .ok c') :
    SameLists c.st c'.st ∨
    ∃ chn target tid, m.params[0]? = some chn ∧ m.params[1]? = some target ∧
      AMap.get c.st.nicks (nickToLower target) = some tid ∧
      ∀ lc id, Lists c'.st lc id ↔ Lists c.st lc id ∧ ¬ (id = tid ∧ lc = chanToLower chn) := by
  unfold cmdKick at hr
  obtain ⟨s, hs, hr⟩ := Res.bind_eq_ok.1 hr
  obtain ⟨chn, hchn, hr⟩ := Res.bind_eq_ok.1 hr
  obtain ⟨target, htarget, hr⟩ := Res.bind_eq_ok.1 hr
  simp only [getChan_eq] at hr
  split at hr
  · cases hr; exact Or.inl (SameLists.refl _)
  · split at hr
    · cases hr; exact Or.inl (SameLists.refl _)
    · split at hr
      · cases hr; exact Or.inl (SameLists.refl _)
      · split at hr
        · cases hr; exact Or.inl (SameLists.refl _)
        · split at hr
          · rename_i tid hidx
            obtain ⟨rc, hrc, hr⟩ := Res.bind_eq_ok.1 hr
            have sp := leaveChannel_spec (c := emit _ _ _) hi.toWInv hidx hr
            exact Or.inr ⟨chn, target, tid, param_eq_ok hchn, param_eq_ok htarget, hidx, fun lc id => sp.lists⟩
          · cases hr

/-! ### PART -/

/-- the lines `partOne` / `cmdPart` can produce; `chans` = the channel names given -/
inductive PartLine (st : St) (sid : Id) (s : Session) (chans : List String) (o : Out) : Prop
  /-- numeric reply (403, 442): to the sender only -/
  | reply (h : ToOnly sid o)
  /-- the PART, under the sender's prefix: to exactly the sessions listing the channel (the leaving one
  included) and the services links -/
  | relay (chn : String) (hmem : chn ∈ chans) (hon : Lists st (chanToLower chn) sid)
      (hd : o.data = (IrcMsg.mk (some s.ircPrefix) "PART" [chn]).render)
      (hr : RcptIs o (Lists st (chanToLower chn)) st.serverSessions)

/-- a session that sits (under its lower-cased nick) in the member map of a stored channel has a nickname,
hence is indexed under it -/
theorem memberKey_indexed {st : St} (hi : Inv st) (hn : NI st) {sid : Id} {s : Session} {lc : String} {ch : Channel}
    (hs : AMap.get st.sessions sid = some s) (hch : AMap.get st.channels lc = some ch)
    (hcont : AMap.contains ch.nicks (nickToLower s.nick) = true) :
    AMap.get st.nicks (nickToLower s.nick) = some sid := by
  have hnick : s.nick ≠ "" := by
    intro he
    obtain ⟨id, _, h1, _, _⟩ := (hi.chans lc ch hch).2.2 _ (AMap.contains_iff_mem_keys.1 hcont)
    rw [he, nickToLower_empty, hn.idx] at h1
    cases h1
  exact hi.owns sid s hs (hi.noDeleted sid s hs) hnick

/-- the channel list may only grow -/
theorem PartLine.mono {st : St} {sid : Id} {s : Session} {l l' : List String} {o : Out}
    (h : PartLine st sid s l o) (hl : ∀ x ∈ l, x ∈ l') : PartLine st sid s l' o := by
  cases h with
  | reply h => exact .reply h
  | relay chn hmem hon hd hr => exact .relay chn (hl _ hmem) hon hd hr

/-- one step of PART with everything the loop of `cmdPart` needs: the lines, the membership step, the
services links, and what stays of the sender's stored session -/
theorem partOne_step {c c' : Ctx} {sid : Id} {chn : String} {s : Session} (hi : Inv c.st) (hn : NI c.st)
    (hs : AMap.get c.st.sessions sid = some s) (hr : partOne c sid chn = .ok c') :
    NewOut (PartLine c.st sid s [chn]) c c' ∧
    (SameLists c.st c'.st ∨
      ∀ lc id, Lists c'.st lc id ↔ Lists c.st lc id ∧ ¬ (id = sid ∧ lc = chanToLower chn)) ∧
    c'.st.serverSessions = c.st.serverSessions ∧
    ∃ s', AMap.get c'.st.sessions sid = some s' ∧ s'.ircPrefix = s.ircPrefix ∧ s'.loggedIn = s.loggedIn ∧
      s'.nick = s.nick := by
  unfold partOne at hr
  rw [getS_of_get hs] at hr
  simp only [Res.ok_bind, getChan_eq] at hr
  split at hr
  · cases hr
    exact ⟨(NewOut.refl _ c).sendUser fun _ _ => .reply rfl, Or.inl (SameLists.refl _), rfl, s, hs, rfl, rfl, rfl⟩
  · rename_i ch hch
    split at hr
    · cases hr
      exact ⟨(NewOut.refl _ c).sendUser fun _ _ => .reply rfl, Or.inl (SameLists.refl _), rfl, s, hs, rfl, rfl, rfl⟩
    · rename_i hcont
      obtain ⟨rc, hrc, hr⟩ := Res.bind_eq_ok.1 hr
      have hcont' : AMap.contains ch.nicks (nickToLower s.nick) = true := by
        cases hb : AMap.contains ch.nicks (nickToLower s.nick) with
        | true => rfl
        | false => rw [hb] at hcont; simp at hcont
      have hidx := memberKey_indexed hi hn hs hch hcont'
      have sp := leaveChannel_spec (c := emit _ _ _) hi.toWInv hidx hr
      obtain ⟨inv, hself⟩ := sp.self s hs
      refine ⟨((NewOut.refl _ c).emit fun _ _ => ?_).frame sp.frame, Or.inr fun lc id => sp.lists,
        sp.frame.serverSessions, _, hself, rfl, rfl, rfl⟩
      exact .relay chn (List.mem_singleton.2 rfl) (lists_of_member hi.toWInvCore hch hcont' hidx) rfl
        (RcptIs.of_list_svc (rcChannel_lists hi hn hch hrc))

/-- one channel; recipients relative to the state in which `partOne` starts -/
theorem partOne_out {c c' : Ctx} {sid : Id} {chn : String} {s : Session} (hi : Inv c.st) (hn : NI c.st)
    (hs : AMap.get c.st.sessions sid = some s) (hr : partOne c sid chn = .ok c') :
    NewOut (PartLine c.st sid s [chn]) c c' := (partOne_step hi hn hs hr).1

/-- the membership after `partOne`: nothing changes, or exactly the sender leaves exactly that channel -/
theorem partOne_lists {c c' : Ctx} {sid : Id} {chn : String} {s : Session} (hi : Inv c.st) (hn : NI c.st)
    (hs : AMap.get c.st.sessions sid = some s) (hr : partOne c sid chn = .ok c') :
    SameLists c.st c'.st ∨
      ∀ lc id, Lists c'.st lc id ↔ Lists c.st lc id ∧ ¬ (id = sid ∧ lc = chanToLower chn) :=
  (partOne_step hi hn hs hr).2.1

/-- the PART loop: the lines of every step, with recipients relative to the state `c0` in which the command
started.  Loop invariant for the current context `ci`: the memberships of the other sessions are those of
`c0`, the sender's memberships are among those of `c0`, the sender keeps its prefix. -/
theorem partLoop_out {sid : Id} {c0 : Ctx} {s : Session} {chans : List String} :
    ∀ (l : List String) {ci c' : Ctx} {si : Session}, (∀ x ∈ l, x ∈ chans) → Pre ci sid → NI ci.st →
    AMap.get ci.st.sessions sid = some si → si.loggedIn = true → si.ircPrefix = s.ircPrefix →
    ci.st.serverSessions = c0.st.serverSessions →
    (∀ lc id, id ≠ sid → (Lists ci.st lc id ↔ Lists c0.st lc id)) →
    (∀ lc, Lists ci.st lc sid → Lists c0.st lc sid) →
    NewOut (PartLine c0.st sid s chans) c0 ci →
    l.foldlM (fun c ch => partOne c sid ch) ci = .ok c' → NewOut (PartLine c0.st sid s chans) c0 c'
  | [], ci, c', si, _, _, _, _, _, _, _, _, _, ho, hr => by
    cases hr; exact ho
  | chn :: l, ci, c', si, hsub, hp, hn, hs, hl, hpfx, hsvc, hoth, hself, ho, hr => by
    rw [List.foldlM_cons] at hr
    obtain ⟨c1, h1, hr⟩ := Res.bind_eq_ok.1 hr
    have hnick : si.nick ≠ "" := hp.linv sid si hs hl
    obtain ⟨hp1, _, _⟩ := partOne_pre hp hs hnick h1
    obtain ⟨ho1, hlists, hsvc1, s1, hs1, hpfx1, hl1, _⟩ := partOne_step hp.inv hn hs h1
    have hn1 := partOne_ni hn h1
    -- the membership step
    have hoth1 : ∀ lc id, id ≠ sid → (Lists c1.st lc id ↔ Lists ci.st lc id) := by
      intro lc id hid
      rcases hlists with h | h
      · exact h.lists
      · rw [h lc id]
        exact ⟨fun hh => hh.1, fun hh => ⟨hh, fun he => hid he.1⟩⟩
    have hself1 : ∀ lc, Lists c1.st lc sid → Lists ci.st lc sid := by
      intro lc hh
      rcases hlists with h | h
      · exact h.lists.1 hh
      · exact ((h lc sid).1 hh).1
    -- the lines of this step, seen from `c0`
    have ho1' : NewOut (PartLine c0.st sid s chans) ci c1 := by
      refine ho1.mono fun o hline => ?_
      cases hline with
      | reply h => exact .reply h
      | relay chn' hmem hon hd hrc =>
        have hchn : chn' ∈ chans := by
          rw [List.mem_singleton] at hmem
          subst hmem
          exact hsub _ (List.mem_cons_self ..)
        refine .relay chn' hchn (hself _ hon) (by rw [hd, hpfx]) ?_
        rw [← hsvc]
        refine hrc.congr fun id => ?_
        by_cases hid : id = sid
        · subst hid
          exact ⟨fun _ => hself _ hon, fun _ => hon⟩
        · exact hoth _ id hid
    exact partLoop_out l (fun x hx => hsub x (List.mem_cons_of_mem _ hx)) hp1 hn1 hs1 (by rw [hl1]; exact hl)
      (by rw [hpfx1]; exact hpfx) (by rw [hsvc1]; exact hsvc)
      (fun lc id hid => (hoth1 lc id hid).trans (hoth lc id hid))
      (fun lc hh => hself lc (hself1 lc hh)) (ho.trans ho1') hr

/-- the whole command (several channels): recipients relative to the state in which the command starts -/
theorem cmdPart_out {c c' : Ctx} {sid : Id} {m : IrcMsg} {s : Session} {p0 : String} (hp : Pre c sid) (hn : NI c.st)
    (hs : AMap.get c.st.sessions sid = some s) (hl : s.loggedIn = true) (hp0 : m.params[0]? = some p0)
    (hr : cmdPart c sid m = .ok c') :
    NewOut (PartLine c.st sid s (splitChar p0 ',')) c c' := by
  unfold cmdPart at hr
  obtain ⟨p0', hp0', hr⟩ := Res.bind_eq_ok.1 hr
  have := param_eq_ok hp0'
  rw [hp0] at this
  cases this
  exact partLoop_out _ (fun _ hx => hx) hp hn hs hl rfl rfl (fun _ _ _ => Iff.rfl) (fun _ hh => hh)
    (NewOut.refl _ c) hr

/-! ### INVITE -/

/-- the lines `cmdInvite` can produce -/
inductive InviteLine (st : St) (sid : Id) (s : Session) (m : IrcMsg) (o : Out) : Prop
  /-- numeric reply (442, 401, 443, 482, 341, 301): to the sender only -/
  | reply (h : ToOnly sid o)
  /-- the INVITE, under the sender's prefix: to the invited session and the services links only; the sender is
  on the channel -/
  | invite (nickname chn : String) (tid : Id) (t : Session) (ch : Channel)
      (hp0 : m.params[0]? = some nickname) (hp1 : m.params[1]? = some chn)
      (hc : AMap.get st.channels (chanToLower chn) = some ch)
      (hon : AMap.contains ch.nicks (nickToLower s.nick) = true)
      (hi : AMap.get st.nicks (nickToLower nickname) = some tid) (ht : AMap.get st.sessions tid = some t)
      (hd : o.data = (IrcMsg.mk (some s.ircPrefix) "INVITE" [t.nick, ch.name]).render)
      (hr : RcptIs o (fun id => id = tid) st.serverSessions)
  /-- the server NOTICE "… invited … into the channel": to exactly the sessions listing the channel -/
  | notice (chn : String) (ch : Channel) (hp1 : m.params[1]? = some chn)
      (hc : AMap.get st.channels (chanToLower chn) = some ch)
      (hon : AMap.contains ch.nicks (nickToLower s.nick) = true)
      (hr : RcptIs o (Lists st (chanToLower chn)) [])

theorem cmdInvite_out {c c' : Ctx} {sid : Id} {m : IrcMsg} {s : Session} (hi : Inv c.st) (hn : NI c.st)
    (hs : AMap.get c.st.sessions sid = some s) (hr : cmdInvite c sid m = .ok c') :
    NewOut (InviteLine c.st sid s m) c c' ∧ SameLists c.st c'.st := by
  unfold cmdInvite at hr
  rw [getS_of_get hs] at hr
  simp only [Res.ok_bind] at hr
  obtain ⟨nickname, hnick, hr⟩ := Res.bind_eq_ok.1 hr
  obtain ⟨chn, hchn, hr⟩ := Res.bind_eq_ok.1 hr
  have hp0 := param_eq_ok hnick
  have hp1 := param_eq_ok hchn
  simp only [getChan_eq] at hr
  split at hr
  · cases hr; exact ⟨(NewOut.refl _ c).sendUser fun _ _ => .reply rfl, SameLists.refl _⟩
  rename_i ch hch
  split at hr
  · cases hr; exact ⟨(NewOut.refl _ c).sendUser fun _ _ => .reply rfl, SameLists.refl _⟩
  rename_i mem hmem
  have hon : AMap.contains ch.nicks (nickToLower s.nick) = true := AMap.contains_iff_get.2 ⟨mem, hmem⟩
  split at hr
  · cases hr; exact ⟨(NewOut.refl _ c).sendUser fun _ _ => .reply rfl, SameLists.refl _⟩
  rename_i tid hidx
  obtain ⟨t, ht, hr⟩ := Res.bind_eq_ok.1 hr
  rw [getS_eq_ok] at ht
  split at hr
  · cases hr; exact ⟨(NewOut.refl _ c).sendUser fun _ _ => .reply rfl, SameLists.refl _⟩
  split at hr
  · cases hr; exact ⟨(NewOut.refl _ c).sendUser fun _ _ => .reply rfl, SameLists.refl _⟩
  obtain ⟨c1, h1, hr⟩ := Res.bind_eq_ok.1 hr
  have hw := hi.toWInvCore
  have hI := (Inert.refl hw).modS hw h1 (fun _ => ⟨rfl, rfl, rfl, rfl⟩) (fun _ => ⟨rfl, rfl⟩)
  have hi1 : Inv c1.st := hI.inv hi
  have hn1 : NI c1.st := hn.modS_keep h1 (fun _ => ⟨rfl, rfl⟩)
  have hsl : SameLists c.st c1.st := by
    refine SameLists.modS ?_ ?_ h1
    · intro t0 ht0; exact (hi.sessId tid t0 ht0).1
    · intro _; rfl
  have hch1 : AMap.get c1.st.channels (chanToLower chn) = some ch := by
    obtain ⟨_, _, rfl⟩ := modS_eq_ok.1 h1; exact hch
  have hsvc : c1.st.serverSessions = c.st.serverSessions := by
    obtain ⟨_, _, rfl⟩ := modS_eq_ok.1 h1; rfl
  obtain ⟨rc, hrc, hr⟩ := Res.bind_eq_ok.1 hr
  have hrc' : rcChannel c1.st ch = Res.ok rc := hrc
  have hmain : NewOut (InviteLine c.st sid s m) c
      (emit (emit (sendUser c1 sid (srv c1 "341" [s.nick, t.nick, ch.name]))
        ⟨some s.ircPrefix, "INVITE", [t.nick, ch.name]⟩ (rcUser tid ++ c1.st.serverSessions))
        (srv c1 "NOTICE" [ch.name, s.nick ++ " invited " ++ nickname ++ " into the channel."]) rc) := by
    refine ((((NewOut.refl _ c).modS h1).sendUser fun _ _ => .reply rfl).emit fun _ _ => ?_).emit fun _ _ => ?_
    · refine .invite nickname chn tid t ch hp0 hp1 hch hon hidx ht rfl ?_
      rw [← hsvc]
      exact RcptIs.of_user_svc
    · exact .notice chn ch hp1 hch hon
        ((RcptIs.of_list (rcChannel_lists hi1 hn1 hch1 hrc')).congr fun id => hsl.lists)
  split at hr
  · cases hr
    exact ⟨hmain.sendUser fun _ _ => .reply rfl, hsl⟩
  · cases hr
    exact ⟨hmain, hsl⟩

/-! ### KNOCK -/

/-- the lines `cmdKnock` can produce -/
inductive KnockLine (st : St) (sid : Id) (m : IrcMsg) (o : Out) : Prop
  | reply (h : ToOnly sid o)
  /-- the server NOTICE "[Knock] by …" : to exactly the sessions listing the (invite-only) channel -/
  | notice (chn : String) (ch : Channel) (hp : m.params[0]? = some chn)
      (hc : AMap.get st.channels (chanToLower chn) = some ch) (hinv : ch.modes.contains 'i' = true)
      (hr : RcptIs o (Lists st (chanToLower chn)) [])

theorem cmdKnock_out {c c' : Ctx} {sid : Id} {m : IrcMsg} (hi : Inv c.st) (hn : NI c.st)
    (hr : cmdKnock c sid m = .ok c') : c'.st = c.st ∧ NewOut (KnockLine c.st sid m) c c' := by
  refine ⟨(cmdKnock_emits hr).st, ?_⟩
  unfold cmdKnock at hr
  obtain ⟨s, hs, hr⟩ := Res.bind_eq_ok.1 hr
  obtain ⟨chn, hchn, hr⟩ := Res.bind_eq_ok.1 hr
  have hp := param_eq_ok hchn
  simp only [getChan_eq] at hr
  split at hr
  · cases hr; exact (NewOut.refl _ c).sendUser fun _ _ => .reply rfl
  · rename_i ch hch
    split at hr
    · cases hr; exact (NewOut.refl _ c).sendUser fun _ _ => .reply rfl
    · rename_i hinv
      obtain ⟨rc, hrc, hr⟩ := Res.bind_eq_ok.1 hr
      cases hr
      have hinv' : ch.modes.contains 'i' = true := by
        cases hb : ch.modes.contains 'i' with
        | true => rfl
        | false => rw [hb] at hinv; simp at hinv
      refine ((NewOut.refl _ c).emit fun _ _ => ?_).sendUser fun _ _ => .reply rfl
      exact .notice chn ch hp hch hinv' (RcptIs.of_list (rcChannel_lists hi hn hch hrc))

end Robust.Irc
