import Robust.Irc.Proofs.HandlerSpec
import Robust.Irc.Proofs.NInv
/-!
Services-link handlers (`SCmds.lean`): shared infrastructure.

* `NoPanic`      – "the result is not a `Res.panic`", with the bind rule;
* `OutGrows`     – bookkeeping of the non-state part of a context (`msgid`, `out`);
* `SrvActor`     – the acting session is stored and is a services link;
* `Mid c0 c sid` – what holds between the primitives of a services handler that started in `c0`:
                   `HInv`, `LInv`, the actor is still a stored link, output only appended.
                   `Mid.post` turns it into `Post`.
* per-primitive transfer lemmas for `Mid` (emits, inert `modS`/`putChan`, `leaveChannel`,
  `deleteSession`, the join step), and `foldlM` rules.
-/
namespace Robust.Irc
open Robust AMap

/-! ### the template for handlers whose actor is a services link -/

def PreservesSrv (h : Ctx → Id → IrcMsg → Res Ctx) : Prop :=
  ∀ c sid m c' s, Pre c sid → AMap.get c.st.sessions sid = some s → s.server = true →
    h c sid m = .ok c' → Post c c' sid

/-! ### panic-freedom -/

namespace Srv
def NoPanic {α : Type} (r : Res α) : Prop := ∀ site, r ≠ Res.panic site

theorem NoPanic.ok {α : Type} (a : α) : NoPanic (Res.ok a) := fun _ h => by cases h
theorem NoPanic.pure {α : Type} (a : α) : NoPanic (pure a : Res α) := fun _ h => by cases h
theorem NoPanic.declined {α : Type} (w : String) : NoPanic (Res.declined w : Res α) := fun _ h => by cases h

theorem NoPanic.of_ok {α : Type} {r : Res α} (h : ∃ a, r = Res.ok a) : NoPanic r := by
  obtain ⟨a, rfl⟩ := h; exact NoPanic.ok a

theorem NoPanic.bind {α β : Type} {x : Res α} {f : α → Res β} (hx : NoPanic x)
    (hf : ∀ a, x = Res.ok a → NoPanic (f a)) : NoPanic (x >>= f) := by
  cases x with
  | ok a => exact hf a rfl
  | panic s => exact absurd rfl (hx s)
  | declined w => exact NoPanic.declined w

theorem NoPanic.bind' {α β : Type} {x : Res α} {f : α → Res β} (hx : NoPanic x)
    (hf : ∀ a, x = Res.ok a → NoPanic (f a)) : NoPanic (Res.bind x f) := NoPanic.bind hx hf

theorem param_ok {m : IrcMsg} {i : Nat} (h : i < m.params.length) : ∃ p, param m i = Res.ok p := by
  unfold param
  rw [List.getElem?_eq_getElem h]
  exact ⟨_, rfl⟩
end Srv
open Srv

theorem pfxName_ok {m : IrcMsg} (h : m.pfx.isSome = true) : ∃ n, pfxName m = Res.ok n := by
  unfold pfxName
  cases hp : m.pfx with
  | none => rw [hp] at h; cases h
  | some p => exact ⟨_, rfl⟩

theorem servicesPrefix_ok {m : IrcMsg} (h : m.pfx.isSome = true) : ∃ p, servicesPrefix m = Res.ok p := by
  unfold servicesPrefix
  obtain ⟨n, hn⟩ := pfxName_ok h
  rw [hn]; exact ⟨_, rfl⟩

/-! ### output bookkeeping -/

structure OutGrows (c c' : Ctx) : Prop where
  msgid : c'.msgid = c.msgid
  out : ∃ extra, c'.out = c.out ++ extra

theorem OutGrows.refl (c : Ctx) : OutGrows c c := ⟨rfl, [], by simp⟩

theorem OutGrows.trans {a b c : Ctx} (h1 : OutGrows a b) (h2 : OutGrows b c) : OutGrows a c := by
  obtain ⟨e1, x1⟩ := h1.out
  obtain ⟨e2, x2⟩ := h2.out
  exact ⟨h2.msgid.trans h1.msgid, e1 ++ e2, by rw [x2, x1, List.append_assoc]⟩

theorem OutGrows.emit (c : Ctx) (m : IrcMsg) (r : List Nat) : OutGrows c (emit c m r) := ⟨rfl, _, rfl⟩
theorem OutGrows.sendUser (c : Ctx) (sid : Id) (m : IrcMsg) : OutGrows c (sendUser c sid m) := ⟨rfl, _, rfl⟩
theorem OutGrows.sendSvc (c : Ctx) (m : IrcMsg) : OutGrows c (sendSvc c m) := ⟨rfl, _, rfl⟩

theorem OutGrows.of_frame {c c' : Ctx} (h : CtxFrame c c') : OutGrows c c' :=
  ⟨h.msgid, [], by rw [h.out]; simp⟩

theorem OutGrows.putS (c : Ctx) (s : Session) : OutGrows c (putS c s) := OutGrows.of_frame (CtxFrame.putS c s)
theorem OutGrows.putChan (c : Ctx) (lc : String) (ch : Channel) : OutGrows c (putChan c lc ch) :=
  OutGrows.of_frame (CtxFrame.putChan c lc ch)

theorem OutGrows.modS {c c' : Ctx} {sid : Id} {f : Session → Session} (h : modS c sid f = Res.ok c') :
    OutGrows c c' := by
  obtain ⟨s, _, rfl⟩ := modS_eq_ok.1 h
  exact OutGrows.putS c _

namespace Srv
/-- only output was appended -/
structure Emits (c c' : Ctx) : Prop where
  st : c'.st = c.st
  og : OutGrows c c'

theorem Emits.refl (c : Ctx) : Emits c c := ⟨rfl, OutGrows.refl c⟩
theorem Emits.trans {a b c : Ctx} (h1 : Emits a b) (h2 : Emits b c) : Emits a c :=
  ⟨h2.st.trans h1.st, h1.og.trans h2.og⟩
theorem Emits.emit (c : Ctx) (m : IrcMsg) (r : List Nat) : Emits c (emit c m r) := ⟨rfl, OutGrows.emit c m r⟩
theorem Emits.sendUser (c : Ctx) (sid : Id) (m : IrcMsg) : Emits c (sendUser c sid m) := ⟨rfl, OutGrows.sendUser c sid m⟩
theorem Emits.sendSvc (c : Ctx) (m : IrcMsg) : Emits c (sendSvc c m) := ⟨rfl, OutGrows.sendSvc c m⟩
end Srv
open Srv

/-! ### transfer lemmas for `Post` -/

/-- a handler run that only appended output satisfies `Post` -/
theorem Post.of_emits {c c' : Ctx} {sid : Id} (h : Pre c sid) (he : Emits c c') : Post c c' sid where
  hinv := by rw [he.st]; exact h.inv.toHInv
  linv := by rw [he.st]; exact h.linv
  actorKept := by rw [he.st]; exact h.actor
  flagged := fun id s hg hd => by
    rw [he.st] at hg
    have := h.inv.noDeleted id s hg
    rw [this] at hd; cases hd
  outGrows := he.og.out
  msgid := he.og.msgid

/-- `Post` is preserved by further steps that only append output -/
theorem Post.emits {c c1 c2 : Ctx} {sid : Id} (h : Post c c1 sid) (he : Emits c1 c2) : Post c c2 sid where
  hinv := by rw [he.st]; exact h.hinv
  linv := by rw [he.st]; exact h.linv
  actorKept := by rw [he.st]; exact h.actorKept
  flagged := by rw [he.st]; exact h.flagged
  outGrows := by
    obtain ⟨e1, x1⟩ := h.outGrows
    obtain ⟨e2, x2⟩ := he.og.out
    exact ⟨e1 ++ e2, by rw [x2, x1, List.append_assoc]⟩
  msgid := he.og.msgid.trans h.msgid

theorem Post.emit {c c1 : Ctx} {sid : Id} (h : Post c c1 sid) (m : IrcMsg) (r : List Nat) : Post c (emit c1 m r) sid :=
  h.emits (Emits.emit c1 m r)
theorem Post.sendUser {c c1 : Ctx} {sid : Id} (h : Post c c1 sid) (tid : Id) (m : IrcMsg) :
    Post c (sendUser c1 tid m) sid := h.emits (Emits.sendUser c1 tid m)
theorem Post.sendSvc {c c1 : Ctx} {sid : Id} (h : Post c c1 sid) (m : IrcMsg) : Post c (sendSvc c1 m) sid :=
  h.emits (Emits.sendSvc c1 m)

/-! ### the acting link -/

def SrvActor (st : St) (sid : Id) : Prop := ∃ s, AMap.get st.sessions sid = some s ∧ s.server = true

theorem SrvActor.congr {st st' : St} {sid : Id} (h : SrvActor st sid) (hs : st'.sessions = st.sessions) :
    SrvActor st' sid := by
  unfold SrvActor; rw [hs]; exact h

theorem SrvActor.privileged {st : St} {sid : Id} (h : SrvActor st sid) : Privileged st sid := by
  obtain ⟨s, h1, h2⟩ := h
  exact ⟨s, h1, Or.inl h2⟩

/-- overwrite the stored session `tid` by one with the same `server` flag -/
theorem SrvActor.set {st st' : St} {sid tid : Id} {t t' : Session} (h : SrvActor st sid)
    (ht : AMap.get st.sessions tid = some t) (hsrv : t'.server = t.server)
    (hs : st'.sessions = AMap.set st.sessions tid t') : SrvActor st' sid := by
  obtain ⟨s, h1, h2⟩ := h
  unfold SrvActor
  rw [hs, AMap.get_set]
  split
  · rename_i he; subst he
    rw [ht] at h1; cases h1
    exact ⟨t', rfl, by rw [hsrv]; exact h2⟩
  · exact ⟨s, h1, h2⟩

/-- a new session under another id -/
theorem SrvActor.set_other {st st' : St} {sid tid : Id} {t' : Session} (h : SrvActor st sid)
    (hne : sid ≠ tid) (hs : st'.sessions = AMap.set st.sessions tid t') : SrvActor st' sid := by
  obtain ⟨s, h1, h2⟩ := h
  exact ⟨s, by rw [hs, AMap.get_set_other _ hne]; exact h1, h2⟩

theorem SrvActor.modS {c c' : Ctx} {sid tid : Id} {f : Session → Session} (h : SrvActor c.st sid)
    (hw : WInvCore c.st) (hf : ∀ s, (f s).id = s.id ∧ (f s).server = s.server)
    (hr : modS c tid f = Res.ok c') : SrvActor c'.st sid := by
  obtain ⟨t, ht, rfl⟩ := modS_eq_ok.1 hr
  refine h.set ht (hf t).2 ?_
  rw [putS_sessions, (hf t).1, (hw.sessId tid t ht).1]

theorem SrvActor.sessUpTo {st st' : St} {sid : Id} (h : SrvActor st sid)
    (hs : SessUpTo st.sessions st'.sessions) : SrvActor st' sid := by
  obtain ⟨s, h1, h2⟩ := h
  obtain ⟨inv, hinv⟩ := hs.get sid s h1
  exact ⟨_, hinv, h2⟩

theorem SrvActor.leaveChannel {c c' : Ctx} {sid tid : Id} {lc lcn : String} (h : SrvActor c.st sid)
    (sp : LeaveSpec c c' lc lcn tid) : SrvActor c'.st sid := by
  obtain ⟨s, h1, h2⟩ := h
  by_cases he : sid = tid
  · subst he
    obtain ⟨inv, hinv⟩ := sp.self s h1
    exact ⟨_, hinv, h2⟩
  · obtain ⟨inv, hinv⟩ := sp.others sid s he h1
    exact ⟨_, hinv, h2⟩

theorem SrvActor.deleteSession {c c' : Ctx} {sid tid : Id} {t : Session} (h : SrvActor c.st sid)
    (ht : AMap.get c.st.sessions tid = some t) (sp : DelSpec c c' tid t) : SrvActor c'.st sid := by
  obtain ⟨s, h1, h2⟩ := h
  by_cases he : sid = tid
  · subst he
    rw [ht] at h1; cases h1
    obtain ⟨inv, hinv⟩ := sp.self
    exact ⟨_, hinv, h2⟩
  · obtain ⟨inv, hinv⟩ := sp.others sid s he h1
    exact ⟨_, hinv, h2⟩

/-! ### the intermediate predicate -/

structure Mid (c0 c : Ctx) (sid : Id) : Prop where
  hinv : HInv c.st
  linv : LInv c.st
  actor : SrvActor c.st sid
  og : OutGrows c0 c
  /-- nickless sessions stay inert (`NInv.lean`), if they were when the handler started -/
  ninv : NI c0.st → NI c.st

theorem Mid.post {c0 c : Ctx} {sid : Id} (h : Mid c0 c sid) : Post c0 c sid where
  hinv := h.hinv
  linv := h.linv
  actorKept := by obtain ⟨s, h1, _⟩ := h.actor; exact ⟨s, h1⟩
  flagged := fun _ _ _ _ => Or.inr h.actor.privileged
  outGrows := h.og.out
  msgid := h.og.msgid

theorem Mid.of_pre {c : Ctx} {sid : Id} {s : Session} (h : Pre c sid)
    (hs : AMap.get c.st.sessions sid = some s) (hsrv : s.server = true) : Mid c c sid :=
  ⟨h.inv.toHInv, h.linv, ⟨s, hs, hsrv⟩, OutGrows.refl c, fun h0 => h0⟩

/-- a step that leaves `st` alone -/
theorem Mid.emits {c0 c c' : Ctx} {sid : Id} (h : Mid c0 c sid) (he : Emits c c') : Mid c0 c' sid :=
  ⟨by rw [he.st]; exact h.hinv, by rw [he.st]; exact h.linv, by rw [he.st]; exact h.actor, h.og.trans he.og,
    fun h0 => by rw [he.st]; exact h.ninv h0⟩

theorem Mid.emit {c0 c : Ctx} {sid : Id} (h : Mid c0 c sid) (m : IrcMsg) (r : List Nat) : Mid c0 (emit c m r) sid :=
  h.emits (Emits.emit c m r)
theorem Mid.sendUser {c0 c : Ctx} {sid : Id} (h : Mid c0 c sid) (tid : Id) (m : IrcMsg) : Mid c0 (sendUser c tid m) sid :=
  h.emits (Emits.sendUser c tid m)
theorem Mid.sendSvc {c0 c : Ctx} {sid : Id} (h : Mid c0 c sid) (m : IrcMsg) : Mid c0 (sendSvc c m) sid :=
  h.emits (Emits.sendSvc c m)

/-- `modS` with a function that keeps everything the invariants and `Mid` look at -/
def InertFn (f : Session → Session) : Prop :=
  ∀ s, (f s).id = s.id ∧ (f s).deleted = s.deleted ∧ (f s).nick = s.nick ∧ (f s).channels = s.channels ∧
    (f s).server = s.server ∧ (f s).loggedIn = s.loggedIn

theorem Mid.modS_inert {c0 c c' : Ctx} {sid tid : Id} {f : Session → Session} (h : Mid c0 c sid)
    (hf : InertFn f) (hr : modS c tid f = Res.ok c') : Mid c0 c' sid := by
  refine ⟨HInv_modS_inert f (fun s => ⟨(hf s).1, (hf s).2.1, (hf s).2.2.1, (hf s).2.2.2.1⟩) h.hinv hr,
    h.linv.modS hr (fun s hs hl => ?_),
    h.actor.modS h.hinv.toWInvCore (fun s => ⟨(hf s).1, (hf s).2.2.2.2.1⟩) hr, h.og.trans (OutGrows.modS hr),
    fun h0 => (h.ninv h0).modS_keep hr (fun s => ⟨(hf s).2.2.1, (hf s).2.2.2.1⟩)⟩
  rw [(hf s).2.2.1]
  exact h.linv _ s hs (by rw [← (hf s).2.2.2.2.2]; exact hl)

theorem modS_keeps_stored {c c' : Ctx} {tid x : Id} {f : Session → Session} {t : Session}
    (hr : modS c tid f = Res.ok c') (hx : AMap.get c.st.sessions x = some t) :
    ∃ t', AMap.get c'.st.sessions x = some t' := by
  obtain ⟨s, hs, rfl⟩ := modS_eq_ok.1 hr
  rw [putS_sessions, AMap.get_set]
  split
  · exact ⟨_, rfl⟩
  · exact ⟨t, hx⟩

theorem Mid.putChan_inert {c0 c : Ctx} {sid : Id} {lc : String} {ch ch' : Channel} (h : Mid c0 c sid)
    (hg : AMap.get c.st.channels lc = some ch) (hname : ch'.name = ch.name)
    (hkeys : AMap.keys ch'.nicks = AMap.keys ch.nicks) : Mid c0 (putChan c lc ch') sid :=
  ⟨HInv_putChan_inert h.hinv hg hname hkeys, h.linv.putChan lc ch', h.actor.congr rfl,
    h.og.trans (OutGrows.putChan c lc ch'), fun h0 => (h.ninv h0).putChan_same lc hg hname⟩

theorem Mid.leaveChannel {c0 c c' : Ctx} {sid tid : Id} {lc lcn : String} (h : Mid c0 c sid)
    (hidx : AMap.get c.st.nicks lcn = some tid) (hr : leaveChannel c lc lcn tid = Res.ok c') : Mid c0 c' sid := by
  have sp := leaveChannel_spec h.hinv.toWInv hidx hr
  exact ⟨leaveChannel_HInv h.hinv hidx hr, h.linv.leaveChannel h.hinv.toWInv hidx hr,
    h.actor.leaveChannel sp, h.og.trans (OutGrows.of_frame sp.frame), fun h0 => (h.ninv h0).leaveChannel hr⟩

theorem Mid.deleteSession {c0 c c' : Ctx} {sid tid : Id} {t : Session} (h : Mid c0 c sid)
    (ht : AMap.get c.st.sessions tid = some t) (hpre : DelPre c.st t)
    (hr : deleteSession c tid = Res.ok c') : Mid c0 c' sid := by
  have sp := deleteSession_spec h.hinv.toWInv ht hpre hr
  exact ⟨deleteSession_HInv h.hinv ht hpre hr, h.linv.deleteSession h.hinv.toWInv ht hpre hr,
    h.actor.deleteSession ht sp, h.og.trans (OutGrows.of_frame sp.frame), fun h0 => (h.ninv h0).deleteSession hr⟩

/-- the channel value `serverJoinOne` / `cmdServerSvsjoin` add the member to carries a valid name when it is new -/
theorem getD_chan_valid {c : Ctx} {lc chn : String} (hv : ¬ (!isValidChannel chn) = true) :
    AMap.get c.st.channels lc = none →
      isValidChannel ((AMap.get c.st.channels lc).getD { name := chn }).name = true := by
  intro hnone
  rw [hnone]
  simpa using hv

/-- the join step of `serverJoinOne` / `cmdServerSvsjoin` -/
theorem Mid.addMember {c0 c c' : Ctx} {sid tid : Id} {lc lcn : String} {ch : Channel} {mem : Member}
    (h : Mid c0 c sid) (hidx : AMap.get c.st.nicks lcn = some tid)
    (hch : AMap.get c.st.channels lc = some ch ∨
           (AMap.get c.st.channels lc = none ∧ ch.nicks = [] ∧ chanToLower ch.name = lc))
    (hvn : AMap.get c.st.channels lc = none → isValidChannel ch.name = true)
    (hr : modS (putChan c lc { ch with nicks := AMap.set ch.nicks lcn mem }) tid
            (fun t => { t with channels := setInsert t.channels lc }) = Res.ok c') : Mid c0 c' sid := by
  refine ⟨addMember_HInv h.hinv.toWInv (h.hinv.nonempty.but lc) hidx hch hr, ?_, ?_, ?_, ?_⟩
  · exact LInv.modS (h.linv.putChan lc _) hr (fun s hs hl => h.linv _ s hs hl)
  · obtain ⟨t, ht, rfl⟩ := modS_eq_ok.1 hr
    change AMap.get c.st.sessions tid = some t at ht
    refine h.actor.set (t' := { t with channels := setInsert t.channels lc }) ht rfl ?_
    show AMap.set c.st.sessions t.id _ = _
    rw [(h.hinv.sessId tid t ht).1]
  · exact (h.og.trans (OutGrows.putChan c lc _)).trans (OutGrows.modS hr)
  · intro h0
    obtain ⟨t, ht, _, _⟩ := h.hinv.index lcn tid hidx
    have hv : isValidChannel ch.name = true := by
      rcases hch with hg | ⟨hg, _⟩
      · exact (h.ninv h0).chan lc ch hg
      · exact hvn hg
    exact NI.modS_named (c := putChan c lc _) ((h.ninv h0).putChan lc (ch := { ch with nicks := AMap.set ch.nicks lcn mem }) hv) hr ht
      ((h.ninv h0).indexed_nick h.hinv.toWInvCore hidx ht) (fun _ => rfl)

/-! ### `foldlM` -/

theorem foldlM_inv {α : Type} (P : Ctx → Prop) (f : Ctx → α → Res Ctx) :
    ∀ (l : List α), (∀ c a c', a ∈ l → P c → f c a = Res.ok c' → P c') →
      ∀ c c', P c → l.foldlM f c = Res.ok c' → P c'
  | [], _, c, c', hp, hr => by
    simp only [List.foldlM_nil, Res.pure_eq, Res.ok.injEq] at hr
    subst hr; exact hp
  | a :: t, hstep, c, c', hp, hr => by
    rw [List.foldlM_cons] at hr
    obtain ⟨c1, h1, hr⟩ := Res.bind_eq_ok.1 hr
    exact foldlM_inv P f t (fun c a c' ha => hstep c a c' (List.mem_cons_of_mem _ ha)) c1 c'
      (hstep c a c1 (List.mem_cons_self ..) hp h1) hr

namespace Srv
theorem foldlM_noPanic {α : Type} (P : Ctx → Prop) (f : Ctx → α → Res Ctx) :
    ∀ (l : List α), (∀ c a c', a ∈ l → P c → f c a = Res.ok c' → P c') →
      (∀ c a, a ∈ l → P c → NoPanic (f c a)) → ∀ c, P c → NoPanic (l.foldlM f c)
  | [], _, _, c, _ => by
    rw [List.foldlM_nil]; exact NoPanic.pure c
  | a :: t, hstep, hsafe, c, hp => by
    rw [List.foldlM_cons]
    refine NoPanic.bind (hsafe c a (List.mem_cons_self ..) hp) (fun c1 h1 => ?_)
    exact foldlM_noPanic P f t (fun c a c' ha => hstep c a c' (List.mem_cons_of_mem _ ha))
      (fun c a ha => hsafe c a (List.mem_cons_of_mem _ ha)) c1 (hstep c a c1 (List.mem_cons_self ..) hp h1)
end Srv
open Srv

theorem foldlM_emits {α : Type} (f : Ctx → α → Res Ctx) (l : List α)
    (hstep : ∀ c a c', a ∈ l → f c a = Res.ok c' → Emits c c') (c c' : Ctx) (hr : l.foldlM f c = Res.ok c') :
    Emits c c' :=
  foldlM_inv (fun c1 => Emits c c1) f l (fun c1 a c2 ha hP h => hP.trans (hstep c1 a c2 ha h)) c c' (Emits.refl c) hr

/-! ### lookups -/

/-- a session found through the index is stored -/
theorem WInvCore.indexed_stored {st : St} (h : WInvCore st) {x : String} {id : Id}
    (hi : AMap.get st.nicks x = some id) : ∃ s, AMap.get st.sessions id = some s := by
  obtain ⟨s, h1, _⟩ := h.index x id hi
  exact ⟨s, h1⟩

end Robust.Irc
