import Robust.Irc.Proofs.FrmBase
import Robust.Irc.Proofs.NH1
/-!
The frame relation `Frm` (markers, stored ids, configuration, `lastProcessed`; see `FrmBase.lean`)
is preserved by every client handler except GLINE, which adds a ban to the configuration and keeps
the marker part (`FrmM`).  The walks mirror `RcptPfxClient.lean`; no invariant is needed beyond
what `Frm` carries itself.
-/
namespace Robust.Irc
open Robust AMap

/-! ### read-only handlers -/

theorem Frm.of_emits {st0 : St} {c c' : Ctx} (h : Frm st0 c.st) (he : Emits c c') : Frm st0 c'.st := by
  rw [he.st]; exact h

theorem FrmPres.of_emits {h : Ctx → Id → IrcMsg → Res Ctx}
    (hi : ∀ c sid m c', h c sid m = Res.ok c' → Emits c c') : FrmPres h :=
  fun _ c sid m c' _ hp hr => hp.of_emits (hi c sid m c' hr)


theorem cmdPing_fpres : FrmPres cmdPing := .of_emits fun _ _ _ _ => cmdPing_emits
theorem cmdIson_fpres : FrmPres cmdIson := .of_emits fun _ _ _ _ => cmdIson_emits
theorem cmdUserhost_fpres : FrmPres cmdUserhost := .of_emits fun _ _ _ _ => cmdUserhost_emits
theorem cmdList_fpres : FrmPres cmdList := .of_emits fun _ _ _ _ => cmdList_emits
theorem cmdKnock_fpres : FrmPres cmdKnock := .of_emits fun _ _ _ _ => cmdKnock_emits
theorem cmdNames_fpres : FrmPres cmdNames := .of_emits fun _ _ _ _ => cmdNames_emits
theorem cmdWho_fpres : FrmPres cmdWho := .of_emits fun _ _ _ _ => cmdWho_emits
theorem cmdWhois_fpres : FrmPres cmdWhois := .of_emits fun _ _ _ _ => cmdWhois_emits
theorem cmdPrivmsg_fpres : FrmPres cmdPrivmsg := .of_emits fun _ _ _ _ => cmdPrivmsg_emits
theorem cmdServiceAlias_fpres : FrmPres cmdServiceAlias := .of_emits fun _ _ _ _ => cmdServiceAlias_emits

theorem cmdNames_frm {st0 : St} {c c' : Ctx} {sid : Id} {m : IrcMsg} (h : Frm st0 c.st) (hr : cmdNames c sid m = .ok c') :
    Frm st0 c'.st := h.of_emits (cmdNames_emits hr)

/-- brute-force walk through a handler whose leaves are output / `putChan` on top of a context `c`
with `h : Frm st0 c.st`: `frm_auto hr h` -/
macro "frm_auto" hr:ident h:ident : tactic =>
  `(tactic| repeat' (first
      | split at $hr:ident
      | (obtain ⟨_, _, $hr:ident⟩ := Res.bind_eq_ok.1 $hr:ident)
      | dsimp only at $hr:ident
      | (cases $hr:ident <;> first | exact $h:ident | exact Frm.congr $h:ident rfl rfl rfl)))

/-! ### AWAY / INVITE / TOPIC / MODE -/

theorem cmdAway_frm {st0 : St} {c c' : Ctx} {sid : Id} {m : IrcMsg} (h : Frm st0 c.st) (hr : cmdAway c sid m = .ok c') :
    Frm st0 c'.st := by
  unfold cmdAway at hr
  obtain ⟨c1, h1, hr⟩ := Res.bind_eq_ok.1 hr
  obtain ⟨s, hs, hr⟩ := Res.bind_eq_ok.1 hr
  have p1 : Frm st0 c1.st := h.modS_keep h1 (fun _ => ⟨rfl, rfl⟩)
  split at hr <;> (cases hr; exact p1)

theorem cmdAway_fpres : FrmPres cmdAway := .of_plain cmdAway_frm

theorem cmdInvite_frm {st0 : St} {c c' : Ctx} {sid : Id} {m : IrcMsg} (h : Frm st0 c.st) (hr : cmdInvite c sid m = .ok c') :
    Frm st0 c'.st := by
  unfold cmdInvite at hr
  obtain ⟨s, hs, hr⟩ := Res.bind_eq_ok.1 hr
  obtain ⟨nickname, _, hr⟩ := Res.bind_eq_ok.1 hr
  obtain ⟨channelname, _, hr⟩ := Res.bind_eq_ok.1 hr
  dsimp only at hr
  split at hr
  · cases hr; exact h
  split at hr
  · cases hr; exact h
  split at hr
  · cases hr; exact h
  obtain ⟨t, ht, hr⟩ := Res.bind_eq_ok.1 hr
  split at hr
  · cases hr; exact h
  split at hr
  · cases hr; exact h
  obtain ⟨c1, h1, hr⟩ := Res.bind_eq_ok.1 hr
  have p1 : Frm st0 c1.st := h.modS_keep h1 (fun _ => ⟨rfl, rfl⟩)
  obtain ⟨rc, _, hr⟩ := Res.bind_eq_ok.1 hr
  split at hr <;> (cases hr; exact p1)

theorem cmdInvite_fpres : FrmPres cmdInvite := .of_plain cmdInvite_frm

theorem cmdTopic_frm {st0 : St} {c c' : Ctx} {sid : Id} {m : IrcMsg} (h : Frm st0 c.st) (hr : cmdTopic c sid m = .ok c') :
    Frm st0 c'.st := by
  unfold cmdTopic at hr
  simp only [getChan_eq] at hr
  frm_auto hr h

theorem cmdTopic_fpres : FrmPres cmdTopic := .of_plain cmdTopic_frm

theorem applyChanMode_frm {st0 : St} {c c' : Ctx} {sid : Id} {s : Session} {lc chn : String} {op q q' ret : Bool}
    {mc : ModeCmd} (h : Frm st0 c.st) (hr : applyChanMode c sid s lc chn op mc q = .ok (c', q', ret)) :
    Frm st0 c'.st := by
  unfold applyChanMode at hr
  simp only [getChan_eq] at hr
  split at hr
  · rename_i ch hch
    split at hr
    · frm_auto hr h
    · cases hr
      refine Frm.sendUser ?_ _ _
      exact Frm.foldl (fun c1 p h1 => h1.sendUser _ _) _ _ h
  · cases hr

theorem applyChanModes_frm {st0 : St} {sid : Id} {s : Session} {lc chn : String} {op : Bool} :
    ∀ (l : List ModeCmd) {c c' : Ctx} {q q' ret : Bool}, Frm st0 c.st →
      applyChanModes c sid s lc chn op l q = .ok (c', q', ret) → Frm st0 c'.st
  | [], c, c', q, q', ret, h, hr => by
    unfold applyChanModes at hr
    cases hr; exact h
  | mc :: rest, c, c', q, q', ret, h, hr => by
    unfold applyChanModes at hr
    obtain ⟨⟨c1, q1, r1⟩, h1, hr⟩ := Res.bind_eq_ok.1 hr
    have p1 := applyChanMode_frm h h1
    dsimp only at hr
    split at hr
    · cases hr; exact p1
    · exact applyChanModes_frm rest p1 hr

theorem cmdMode_frm {st0 : St} {c c' : Ctx} {sid : Id} {m : IrcMsg} (h : Frm st0 c.st) (hr : cmdMode c sid m = .ok c') :
    Frm st0 c'.st := by
  unfold cmdMode at hr
  simp only [getChan_eq, Res.panic_bind] at hr
  obtain ⟨s, hs, hr⟩ := Res.bind_eq_ok.1 hr
  obtain ⟨chn, _, hr⟩ := Res.bind_eq_ok.1 hr
  split at hr
  · -- channel modes
    split at hr
    · rename_i ch hch
      split at hr
      · cases hr; exact h
      · split at hr
        · rename_i mem hmem
          obtain ⟨⟨c1, q1, r1⟩, h1, hr⟩ := Res.bind_eq_ok.1 hr
          have p1 := applyChanModes_frm _ h h1
          dsimp only at hr
          split at hr
          · cases hr; exact p1
          split at hr
          · cases hr; exact p1
          split at hr
          · cases hr; exact p1
          split at hr
          · obtain ⟨rc, _, hr⟩ := Res.bind_eq_ok.1 hr
            cases hr; exact p1
          · cases hr
        · cases hr
    · cases hr
  · -- user modes
    split at hr
    · obtain ⟨t, ht, hr⟩ := Res.bind_eq_ok.1 hr
      split at hr
      · cases hr; exact h
      · split at hr
        · cases hr; exact h
        · obtain ⟨c1, h1, hr⟩ := Res.bind_eq_ok.1 hr
          have p1 : Frm st0 c1.st := h.modS_keep h1 (fun _ => ⟨rfl, rfl⟩)
          cases hr
          exact p1
    · cases hr; exact h

theorem cmdMode_fpres : FrmPres cmdMode := .of_plain cmdMode_frm

/-! ### login, OPER, MOTD, USER, PASS -/

theorem cmdMotd_frm {st0 : St} {c c' : Ctx} {sid : Id} {m : IrcMsg} (h : Frm st0 c.st) (hr : cmdMotd c sid m = .ok c') :
    Frm st0 c'.st := by
  unfold cmdMotd at hr
  obtain ⟨s, _, hr⟩ := Res.bind_eq_ok.1 hr
  cases hr; exact h

theorem cmdMotd_fpres : FrmPres cmdMotd := .of_plain cmdMotd_frm

theorem cmdOper_frm {st0 : St} {c c' : Ctx} {sid : Id} {m : IrcMsg} (h : Frm st0 c.st) (hr : cmdOper c sid m = .ok c') :
    Frm st0 c'.st := by
  unfold cmdOper at hr
  obtain ⟨s, hs, hr⟩ := Res.bind_eq_ok.1 hr
  obtain ⟨p0, hp0, hr⟩ := Res.bind_eq_ok.1 hr
  obtain ⟨p1, hp1, hr⟩ := Res.bind_eq_ok.1 hr
  split at hr
  · cases hr; exact h
  · obtain ⟨c1, h1, hr⟩ := Res.bind_eq_ok.1 hr
    obtain ⟨s1, hs1, hr⟩ := Res.bind_eq_ok.1 hr
    have n1 : Frm st0 c1.st := h.modS_keep h1 (fun _ => ⟨rfl, rfl⟩)
    cases hr
    exact n1

theorem cmdOper_fpres : FrmPres cmdOper := .of_plain cmdOper_frm

theorem loginOper_frm {st0 : St} {c c' : Ctx} {sid : Id} {s : Session} (h : Frm st0 c.st) (hr : loginOper c sid s = .ok c') :
    Frm st0 c'.st := by
  unfold loginOper at hr
  dsimp only at hr
  split at hr
  · split at hr
    · cases hr
    · split at hr
      · exact cmdOper_frm h hr
      · cases hr; exact h
  · cases hr; exact h

theorem maybeLogin_frm {st0 : St} {c c' : Ctx} {sid : Id} {m : IrcMsg} (h : Frm st0 c.st) (hr : maybeLogin c sid m = .ok c') :
    Frm st0 c'.st := by
  rw [maybeLogin_eq] at hr
  obtain ⟨s, hs, hr⟩ := Res.bind_eq_ok.1 hr
  split at hr
  · cases hr; exact h
  · split at hr
    · cases hr; exact h
    · split at hr
      · cases hr
      · obtain ⟨c1, h1, hr⟩ := Res.bind_eq_ok.1 hr
        obtain ⟨c2, h2, hr⟩ := Res.bind_eq_ok.1 hr
        obtain ⟨c3, h3, hr⟩ := Res.bind_eq_ok.1 hr
        have n1 : Frm st0 c1.st := h.modS_keep h1 (fun _ => ⟨rfl, rfl⟩)
        have n2 : Frm st0 c2.st := loginOper_frm (by rw [loginBanner_st]; exact n1) h2
        have n3 : Frm st0 c3.st := n2.modS_keep h3 (fun _ => ⟨rfl, rfl⟩)
        exact cmdMotd_frm n3 hr

theorem cmdUser_frm {st0 : St} {c c' : Ctx} {sid : Id} {m : IrcMsg} (h : Frm st0 c.st) (hr : cmdUser c sid m = .ok c') :
    Frm st0 c'.st := by
  unfold cmdUser at hr
  obtain ⟨u, hu, hr⟩ := Res.bind_eq_ok.1 hr
  obtain ⟨c1, h1, hr⟩ := Res.bind_eq_ok.1 hr
  exact maybeLogin_frm (h.modS_keep h1 (fun _ => ⟨rfl, rfl⟩)) hr

theorem cmdUser_fpres : FrmPres cmdUser := .of_plain cmdUser_frm

theorem cmdPass_frm {st0 : St} {c c' : Ctx} {sid : Id} {m : IrcMsg} (h : Frm st0 c.st) (hr : cmdPass c sid m = .ok c') :
    Frm st0 c'.st := by
  unfold cmdPass at hr
  obtain ⟨c1, h1, hr⟩ := Res.bind_eq_ok.1 hr
  exact maybeLogin_frm (h.modS_keep h1 (fun _ => ⟨rfl, rfl⟩)) hr

theorem cmdPass_fpres : FrmPres cmdPass := .of_plain cmdPass_frm

/-! ### QUIT, PART, KICK, KILL, GLINE -/

theorem cmdQuit_frm {st0 : St} {c c' : Ctx} {sid : Id} {m : IrcMsg} (h : Frm st0 c.st) (hr : cmdQuit c sid m = .ok c') :
    Frm st0 c'.st := by
  unfold cmdQuit at hr
  obtain ⟨c1, h1, hr⟩ := Res.bind_eq_ok.1 hr
  have n1 := h.deleteSession h1
  obtain ⟨s1, hs1, hr⟩ := Res.bind_eq_ok.1 hr
  split at hr
  · obtain ⟨rc, hrc, hr⟩ := Res.bind_eq_ok.1 hr
    cases hr; exact n1
  · cases hr; exact n1

theorem cmdQuit_fpres : FrmPres cmdQuit := .of_plain cmdQuit_frm

theorem partOne_frm {st0 : St} {c c' : Ctx} {sid : Id} {chn : String} (h : Frm st0 c.st) (hr : partOne c sid chn = .ok c') :
    Frm st0 c'.st := by
  unfold partOne at hr
  obtain ⟨s0, hs0, hr⟩ := Res.bind_eq_ok.1 hr
  simp only [getChan_eq] at hr
  split at hr
  · cases hr; exact h
  · split at hr
    · cases hr; exact h
    · obtain ⟨rc, hrc, hr⟩ := Res.bind_eq_ok.1 hr
      exact Frm.leaveChannel (c := emit _ _ _) h hr

theorem cmdPart_frm {st0 : St} {c c' : Ctx} {sid : Id} {m : IrcMsg} (h : Frm st0 c.st) (hr : cmdPart c sid m = .ok c') :
    Frm st0 c'.st := by
  unfold cmdPart at hr
  obtain ⟨p0, _, hr⟩ := Res.bind_eq_ok.1 hr
  exact Frm.foldlM (fun _ _ _ h hr => partOne_frm h hr) _ h hr

theorem cmdPart_fpres : FrmPres cmdPart := .of_plain cmdPart_frm

theorem cmdKick_frm {st0 : St} {c c' : Ctx} {sid : Id} {m : IrcMsg} (h : Frm st0 c.st) (hr : cmdKick c sid m = .ok c') :
    Frm st0 c'.st := by
  unfold cmdKick at hr
  obtain ⟨s, hs, hr⟩ := Res.bind_eq_ok.1 hr
  obtain ⟨chn, _, hr⟩ := Res.bind_eq_ok.1 hr
  obtain ⟨target, _, hr⟩ := Res.bind_eq_ok.1 hr
  simp only [getChan_eq] at hr
  split at hr
  · cases hr; exact h
  · split at hr
    · cases hr; exact h
    · split at hr
      · cases hr; exact h
      · split at hr
        · cases hr; exact h
        · split at hr
          · obtain ⟨rc, hrc, hr⟩ := Res.bind_eq_ok.1 hr
            exact Frm.leaveChannel (c := emit _ _ _) h hr
          · cases hr

theorem cmdKick_fpres : FrmPres cmdKick := .of_plain cmdKick_frm

theorem cmdKill_frm {st0 : St} {c c' : Ctx} {sid : Id} {m : IrcMsg} (h : Frm st0 c.st) (hr : cmdKill c sid m = .ok c') :
    Frm st0 c'.st := by
  unfold cmdKill at hr
  obtain ⟨s, hs, hr⟩ := Res.bind_eq_ok.1 hr
  split at hr
  · cases hr; exact h
  · obtain ⟨p0, _, hr⟩ := Res.bind_eq_ok.1 hr
    split at hr
    · cases hr; exact h
    · obtain ⟨c1, h1, hr⟩ := Res.bind_eq_ok.1 hr
      have n1 := h.deleteSession h1
      obtain ⟨t1, _, hr⟩ := Res.bind_eq_ok.1 hr
      obtain ⟨s2, _, hr⟩ := Res.bind_eq_ok.1 hr
      obtain ⟨rc, _, hr⟩ := Res.bind_eq_ok.1 hr
      cases hr
      exact n1

theorem cmdKill_fpres : FrmPres cmdKill := .of_plain cmdKill_frm

/-- GLINE: either nothing but output happened to the configuration, or the ban was added — by an
IRC operator, for the address of the named session — and then KILL ran -/
theorem cmdGline_spec {c c' : Ctx} {sid : Id} {m : IrcMsg} (hw : SessWf c.st)
    (hr : cmdGline c sid m = .ok c') :
    FrmM c.st c'.st ∧
    (c'.st.config = c.st.config ∨
      ∃ s p0 tid t, AMap.get c.st.sessions sid = some s ∧ s.operator = true ∧ param m 0 = .ok p0 ∧
        AMap.get c.st.nicks (nickToLower p0) = some tid ∧ AMap.get c.st.sessions tid = some t ∧
        t.remoteAddr ≠ "" ∧
        c'.st.config = { c.st.config with banned := AMap.set c.st.config.banned t.remoteAddr m.trailing }) := by
  have h := Frm.refl hw
  unfold cmdGline at hr
  obtain ⟨s, hs, hr⟩ := Res.bind_eq_ok.1 hr
  rw [getS_eq_ok] at hs
  split at hr
  · cases hr; exact ⟨h.toFrmM, Or.inl rfl⟩
  · rename_i hop
    obtain ⟨p0, hp0, hr⟩ := Res.bind_eq_ok.1 hr
    split at hr
    · cases hr; exact ⟨h.toFrmM, Or.inl rfl⟩
    · rename_i tid htid
      obtain ⟨t, ht, hr⟩ := Res.bind_eq_ok.1 hr
      rw [getS_eq_ok] at ht
      split at hr
      · cases hr; exact ⟨h.toFrmM, Or.inl rfl⟩
      · rename_i haddr
        dsimp only at hr
        have hk := cmdKill_frm (Frm.refl (hw.congr (st' := { c.st with config :=
          { c.st.config with banned := AMap.set c.st.config.banned t.remoteAddr m.trailing } }) rfl)) hr
        refine ⟨hk.toFrmM.congr_base rfl rfl, Or.inr ⟨s, p0, tid, t, hs, ?_, hp0, htid, ht, ?_, hk.config⟩⟩
        · simpa using hop
        · simpa using haddr

theorem cmdGline_frmM : FrmMPres cmdGline := fun _ _ _ _ _ hw hr => (cmdGline_spec hw hr).1

/-! ### NICK -/

theorem holdCtx_cfg (c : Ctx) (k : String) (held : Option SvsHold) :
    (holdCtx c k held).st.config = c.st.config ∧ (holdCtx c k held).st.lastProcessed = c.st.lastProcessed := by
  cases held <;> exact ⟨rfl, rfl⟩

theorem renameCtx_cfg (c : Ctx) (tid : Id) (lcnew old : String) (b : Bool) :
    (renameCtx c tid lcnew old b).st.config = c.st.config ∧
    (renameCtx c tid lcnew old b).st.lastProcessed = c.st.lastProcessed := by
  unfold renameCtx
  cases b <;> exact ⟨rfl, rfl⟩

theorem cmdNickTail_frm {st0 : St} {c c' : Ctx} {sid : Id} {m : IrcMsg} {s : Session} {nick : String} {held : Option SvsHold}
    (h : Frm st0 c.st) (hr : cmdNickTail c sid m s nick held = .ok c') : Frm st0 c'.st := by
  unfold cmdNickTail at hr
  dsimp only at hr
  obtain ⟨hs0, _, _⟩ := holdCtx_facts c (nickToLower nick) held
  obtain ⟨hc0, hl0⟩ := holdCtx_cfg c (nickToLower nick) held
  have n0 : Frm st0 (holdCtx c (nickToLower nick) held).st := h.congr hs0 hc0 hl0
  generalize holdCtx c (nickToLower nick) held = c0 at hr n0
  split at hr
  · cases hr; exact n0
  generalize (nickToLower s.nick != "" &&
      !(s.loggedIn && nickToLower nick == nickToLower (if s.loggedIn = true then s.nick else "*"))) = b at hr
  obtain ⟨c1, hm1, hr⟩ := Res.bind_eq_ok.1 hr
  obtain ⟨c2, hm2, hr⟩ := Res.bind_eq_ok.1 hr
  have n1 : Frm st0 c1.st := n0.modS_keep hm1 (fun _ => ⟨rfl, rfl⟩)
  have hss := renameCtx_sessions c1 sid (nickToLower nick) (nickToLower s.nick) b
  obtain ⟨hcr, hlr⟩ := renameCtx_cfg c1 sid (nickToLower nick) (nickToLower s.nick) b
  have nr : Frm st0 (renameCtx c1 sid (nickToLower nick) (nickToLower s.nick) b).st := n1.congr hss hcr hlr
  have n2 : Frm st0 c2.st := nr.modS_keep hm2 (fun _ => ⟨rfl, rfl⟩)
  split at hr
  · obtain ⟨s2, _, hr⟩ := Res.bind_eq_ok.1 hr
    obtain ⟨rc, _, hr⟩ := Res.bind_eq_ok.1 hr
    cases hr
    exact n2
  · exact maybeLogin_frm n2 hr

theorem cmdNick_frm {st0 : St} {c c' : Ctx} {sid : Id} {m : IrcMsg} (h : Frm st0 c.st)
    (hr : cmdNick c sid m = .ok c') : Frm st0 c'.st := by
  rw [cmdNick_eq] at hr
  obtain ⟨s, hs, hr⟩ := Res.bind_eq_ok.1 hr
  dsimp only at hr
  generalize m.params.head?.getD "" = nick at hr
  split at hr
  · cases hr; exact h
  generalize (if s.loggedIn = true then s.nick else "*") = dest at hr
  split at hr
  · cases hr; exact h
  split at hr
  · cases hr; exact h
  split at hr
  · split at hr
    · cases hr; exact h
    · exact cmdNickTail_frm h hr
  · exact cmdNickTail_frm h hr

theorem cmdNick_fpres : FrmPres cmdNick := .of_plain cmdNick_frm

/-! ### JOIN -/

theorem joinAdmit_frm {st0 : St} {c c1 : Ctx} {sid : Id} {s : Session} {chn key : String} {mm : Option (Option IrcMsg)}
    (h : Frm st0 c.st) (hr : joinAdmit c sid s chn key = .ok (c1, mm)) : Frm st0 c1.st := by
  unfold joinAdmit at hr
  dsimp only at hr
  obtain ⟨r, h1, hr⟩ := Res.bind_eq_ok.1 hr
  have hr1 : Frm st0 r.1.st := by
    simp only [getChan_eq] at h1
    frm_auto h1 h
  split at hr <;> (cases hr; exact hr1)

theorem joinAnnounce_frm {st0 : St} {c c' : Ctx} {sid : Id} {chn : String} {ch : Channel} {ex : Bool}
    {mm : Option IrcMsg} (h : Frm st0 c.st) (hr : joinAnnounce c sid chn ch ex mm = .ok c') : Frm st0 c'.st := by
  unfold joinAnnounce at hr
  obtain ⟨s1, hs1, hr⟩ := Res.bind_eq_ok.1 hr
  obtain ⟨rc, hrc, hr⟩ := Res.bind_eq_ok.1 hr
  dsimp only at hr
  obtain ⟨c1, h1, hr⟩ := Res.bind_eq_ok.1 hr
  obtain ⟨e1, _⟩ := joinModes_spec h1
  obtain ⟨c2, h2, hr⟩ := Res.bind_eq_ok.1 hr
  obtain ⟨c3, h3, hr⟩ := Res.bind_eq_ok.1 hr
  have e1' : c1.st = c.st := e1
  have n1 : Frm st0 (emit c1 (srv c1 "SJOIN" ["1", chn, (if (!ex) = true then "@" else "") ++ s1.nick])
      (rcServices c1.st)).st := by rw [emit_st, e1']; exact h
  exact cmdNames_frm (cmdTopic_frm (cmdMode_frm n1 h2) h3) hr

theorem joinTail_frm {st0 : St} {c c' : Ctx} {sid : Id} {s : Session} {chn : String} {ex : Bool} {mm : Option IrcMsg}
    (h : Frm st0 c.st) (hr : joinTail c sid s chn ex mm = .ok c') : Frm st0 c'.st := by
  unfold joinTail at hr
  dsimp only at hr
  simp only [getChan_eq] at hr
  split at hr
  · rename_i ch hch
    obtain ⟨c2, h2, hr⟩ := Res.bind_eq_ok.1 hr
    have n2 : Frm st0 c2.st := by
      split at h2
      · exact h.modS_keep h2 (fun _ => ⟨rfl, rfl⟩)
      · cases h2; exact h
    split at hr
    · cases hr; exact n2
    · obtain ⟨c3, h3, hr⟩ := Res.bind_eq_ok.1 hr
      have n3 : Frm st0 c3.st := Frm.modS_keep (c := putChan c2 _ _) (n2.putChan _ _) h3
        (fun _ => ⟨rfl, rfl⟩)
      exact joinAnnounce_frm n3 hr
  · cases hr

theorem joinOne_frm {st0 : St} {c c' : Ctx} {sid : Id} {chn key : String} (h : Frm st0 c.st)
    (hr : joinOne c sid chn key = .ok c') : Frm st0 c'.st := by
  rw [joinOne_eq] at hr
  obtain ⟨s0, hs0, hr⟩ := Res.bind_eq_ok.1 hr
  split at hr
  · cases hr; exact h
  · obtain ⟨r, hadm, hr⟩ := Res.bind_eq_ok.1 hr
    obtain ⟨c1, mm⟩ := r
    have n1 := joinAdmit_frm h hadm
    cases mm with
    | none => cases hr; exact n1
    | some mm =>
      dsimp only at hr
      exact joinTail_frm n1 hr

theorem joinLoop_frm {st0 : St} {keys chans : List String} {idx : Nat} {c c' : Ctx} {sid : Id} (h : Frm st0 c.st)
    (hr : joinLoop c sid keys chans idx = .ok c') : Frm st0 c'.st := by
  induction chans generalizing c idx with
  | nil => cases hr; exact h
  | cons ch rest ih =>
    unfold joinLoop at hr
    obtain ⟨c1, h1, hr⟩ := Res.bind_eq_ok.1 hr
    exact ih (joinOne_frm h h1) hr

theorem cmdJoin_frm {st0 : St} {c c' : Ctx} {sid : Id} {m : IrcMsg} (h : Frm st0 c.st) (hr : cmdJoin c sid m = .ok c') :
    Frm st0 c'.st := by
  unfold cmdJoin at hr
  obtain ⟨p0, _, hr⟩ := Res.bind_eq_ok.1 hr
  exact joinLoop_frm h hr

theorem cmdJoin_fpres : FrmPres cmdJoin := .of_plain cmdJoin_frm

end Robust.Irc
