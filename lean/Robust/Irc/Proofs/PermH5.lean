import Robust.Irc.Proofs.PermH2
set_option linter.unusedVariables false
namespace Robust.Irc
open Robust
attribute [local irreducible] IrcMsg.render emit sendUser sendSvc

/-!
Order-independence, handlers 5: the services (server-to-server) handlers `SERVER`, `NICK`, `JOIN`, `PART`,
`KICK`, `MODE`, `PRIVMSG`/`NOTICE`, `INVITE`, `TOPIC`.
-/

theorem cmdServerPrivmsg_congr : HCongr cmdServerPrivmsg := by
  intro c c' sid m h
  unfold cmdServerPrivmsg
  simp only [h.st.get_nicks]
  split
  · refine RRel.bind_same (fun pn => ?_)
    ceqs
  split
  · refine RRel.bind_same (fun pn => ?_)
    ceqs
  refine RRel.bind_same (fun p0 => ?_)
  split
  · rcases getChan_cases h (chanToLower p0) with ⟨h1, h2⟩ | ⟨ch, ch', h1, h2, hch, hk⟩
    · simp only [h1, h2]
      refine RRel.bind_same (fun pn => ?_)
      ceqs
    · simp only [h1, h2]
      refine RRel.bind_same (fun sp => ?_)
      refine RRel.bind (rcChannel_congr h.st hch) (fun rc rc' hrc => ?_)
      ceqs
  · split
    · refine RRel.bind_same (fun pn => ?_)
      ceqs
    · refine RRel.bind_same (fun sp => ?_)
      ceqs

theorem cmdServerKick_congr : HCongr cmdServerKick := by
  intro c c' sid m h
  unfold cmdServerKick
  refine RRel.bind_same (fun channelname => ?_)
  refine RRel.bind_same (fun target => ?_)
  simp only [h.st.get_nicks]
  rcases getChan_cases h (chanToLower channelname) with ⟨h1, h2⟩ | ⟨ch, ch', h1, h2, hch, hk⟩
  · simp only [h1, h2]
    refine RRel.bind_same (fun pn => ?_)
    ceqs
  · simp only [h1, h2, hch.contains_nicks]
    split
    · refine RRel.bind_same (fun pn => ?_)
      ceqs
    · split
      · refine RRel.bind_same (fun sp => ?_)
        refine RRel.bind (rcChannel_congr h.st hch) (fun rc rc' hrc => ?_)
        exact leaveChannel_congr (emit_congr h rfl (hrc.append (rcServices_perm h.st))) _ _ _
      · exact .panic

theorem serverPartOne_congr {c c' : Ctx} (h : CEq c c') (m : IrcMsg) (channelname : String) :
    RRel CEq (serverPartOne c m channelname) (serverPartOne c' m channelname) := by
  unfold serverPartOne
  simp only [h.st.get_nicks]
  rcases getChan_cases h (chanToLower channelname) with ⟨h1, h2⟩ | ⟨ch, ch', h1, h2, hch, hk⟩
  · simp only [h1, h2]
    refine RRel.bind_same (fun pn => ?_)
    ceqs
  · simp only [h1, h2, hch.contains_nicks]
    refine RRel.bind_same (fun pn => ?_)
    split
    · ceqs
    · split
      · refine RRel.bind_same (fun sp => ?_)
        refine RRel.bind (rcChannel_congr h.st hch) (fun rc rc' hrc => ?_)
        exact leaveChannel_congr (emit_congr h rfl hrc) _ _ _
      · exact .panic

theorem cmdServerPart_congr : HCongr cmdServerPart := by
  intro c c' sid m h
  unfold cmdServerPart
  refine RRel.bind_same (fun p0 => ?_)
  exact foldlM_rrel_same _ (fun c c' a _ hc => serverPartOne_congr hc m a) h

theorem cmdServerInvite_congr : HCongr cmdServerInvite := by
  intro c c' sid m h
  unfold cmdServerInvite
  refine RRel.bind_same (fun nickname => ?_)
  refine RRel.bind_same (fun channelname => ?_)
  simp only [h.st.get_nicks]
  split
  · refine RRel.bind_same (fun pn => ?_)
    ceqs
  · rename_i tid _
    refine RRel.bind (getS_congr h tid) (fun t t' ht => ?_)
    rcases getChan_cases h (chanToLower channelname) with ⟨h1, h2⟩ | ⟨ch, ch', h1, h2, hch, hk⟩
    · simp only [h1, h2]
      refine RRel.bind_same (fun pn => ?_)
      ceqs
    · simp only [h1, h2, hch.contains_nicks, hch.name, ht.nick]
      split
      · refine RRel.bind_same (fun pn => ?_)
        ceqs
      · refine RRel.bind (modS_congr h tid (fun s s' hs => hs.withInvitedTo (setInsert_perm hs.invitedTo _))) (fun c1 c1' hc1 => ?_)
        refine RRel.bind_same (fun pn => ?_)
        refine RRel.bind_same (fun sp => ?_)
        simp only [sendUser_st, sendSvc_st]
        refine RRel.bind (rcChannel_congr hc1.st hch) (fun rc rc' hrc => ?_)
        ceqs

theorem cmdServerTopic_congr : HCongr cmdServerTopic := by
  intro c c' sid m h
  unfold cmdServerTopic
  refine RRel.bind_same (fun channel => ?_)
  rcases getChan_cases h (chanToLower channel) with ⟨h1, h2⟩ | ⟨ch, ch', h1, h2, hch, hk⟩
  · simp only [h1, h2]
    refine RRel.bind_same (fun pn => ?_)
    ceqs
  · simp only [h1, h2]
    refine RRel.bind_same (fun p2 => ?_)
    refine RRel.bind_same (fun ots => ?_)
    split
    · exact .declined
    · refine RRel.bind_same (fun p1 => ?_)
      split
      · exact .declined
      · rename_i ts _
        have hchA : ChanEq { ch with topicNick := p1, topicTime := ts * 1000000000, topic := m.trailing }
            { ch' with topicNick := p1, topicTime := ts * 1000000000, topic := m.trailing } := by chaneq hch
        have hcA := putChan_congr h (chanToLower channel) hchA hk
        refine RRel.bind_same (fun sp => ?_)
        refine RRel.bind (rcChannel_congr hcA.st hchA) (fun rc rc' hrc => ?_)
        ceqs

theorem serverModeStep_congr {c c' : Ctx} (h : CEq c c') (m : IrcMsg) (channelname lc : String) (mc : ModeCmd) :
    RRel CEq (serverModeStep m channelname lc c mc) (serverModeStep m channelname lc c' mc) := by
  unfold serverModeStep
  rcases getChan_cases h lc with ⟨h1, h2⟩ | ⟨ch, ch', h1, h2, hch, hk⟩
  · simp only [h1, h2]
    exact .panic
  · simp only [h1, h2, hch.get_nicks]
    split
    · refine RRel.ok (putChan_congr h lc ?_ hk)
      chaneq hch
      rw [hch.modes]
    · split
      · split
        · refine RRel.bind_same (fun pn => ?_)
          ceqs
        · split
          · refine RRel.ok (putChan_congr h lc ?_ hk)
            exact hch.withNicks (hch.nicks.set _ rfl)
          · ceqs
      · refine RRel.bind_same (fun pn => ?_)
        ceqs

theorem cmdServerMode_congr : HCongr cmdServerMode := by
  intro c c' sid m h
  rw [cmdServerMode_eq, cmdServerMode_eq]
  refine RRel.bind_same (fun channelname => ?_)
  rcases getChan_cases h (chanToLower channelname) with ⟨h1, h2⟩ | ⟨ch, ch', h1, h2, hch, hk⟩
  · simp only [h1, h2]
    refine RRel.bind_same (fun pn => ?_)
    ceqs
  · simp only [h1, h2]
    refine RRel.bind (foldlM_rrel_same _ (fun c c' a _ hc => serverModeStep_congr hc m channelname _ a) h)
      (fun c1 c1' hc1 => ?_)
    simp only [hc1.replyid]
    split
    · ceqs
    · rcases getChan_cases hc1 (chanToLower channelname) with ⟨h3, h4⟩ | ⟨ch1, ch1', h3, h4, hch1, hk1⟩
      · simp only [h3, h4]
        exact .panic
      · simp only [h3, h4]
        refine RRel.bind_same (fun sp => ?_)
        refine RRel.bind (rcChannel_congr hc1.st hch1) (fun rc rc' hrc => ?_)
        ceqs

theorem serverJoinOne_congr {c c' : Ctx} (h : CEq c c') (m : IrcMsg) (channelname : String) :
    RRel CEq (serverJoinOne c m channelname) (serverJoinOne c' m channelname) := by
  unfold serverJoinOne
  refine RRel.bind_same (fun pn => ?_)
  simp only [h.st.get_nicks]
  split
  · ceqs
  split
  · ceqs
  · rename_i tid _
    rw [h.config, h.st.channels.length_eq]
    rcases getChan_cases h (chanToLower channelname) with ⟨h1, h2⟩ | ⟨ch, ch', h1, h2, hch, hk⟩
    · simp only [h1, h2, Option.getD_none, Option.isSome_none]
      refine RRel.ite Iff.rfl (fun _ _ => by ceqs) (fun _ _ => ?_)
      have hchA : ChanEq { ({ name := channelname } : Channel) with nicks := AMap.set ({ name := channelname } : Channel).nicks (nickToLower pn) { chanop := !false } }
          { ({ name := channelname } : Channel) with nicks := AMap.set ({ name := channelname } : Channel).nicks (nickToLower pn) { chanop := !false } } :=
        ChanEq.ofFields rfl rfl rfl rfl ((MEq.nil).set _ rfl) rfl rfl rfl
      have hcA := putChan_congr h (chanToLower channelname) hchA rfl
      refine RRel.bind (modS_congr hcA tid (fun s s' hs => hs.withChannels (setInsert_perm hs.channels _))) (fun c1 c1' hc1 => ?_)
      refine RRel.bind_same (fun sp => ?_)
      refine RRel.bind (rcChannel_congr hc1.st hchA) (fun rc rc' hrc => ?_)
      ceqs
    · simp only [h1, h2, Option.getD_some, Option.isSome_some]
      refine RRel.ite Iff.rfl (fun _ _ => by ceqs) (fun _ _ => ?_)
      have hchA : ChanEq { ch with nicks := AMap.set ch.nicks (nickToLower pn) { chanop := !true } }
          { ch' with nicks := AMap.set ch'.nicks (nickToLower pn) { chanop := !true } } :=
        hch.withNicks (hch.nicks.set _ rfl)
      have hcA := putChan_congr h (chanToLower channelname) hchA hk
      refine RRel.bind (modS_congr hcA tid (fun s s' hs => hs.withChannels (setInsert_perm hs.channels _))) (fun c1 c1' hc1 => ?_)
      refine RRel.bind_same (fun sp => ?_)
      refine RRel.bind (rcChannel_congr hc1.st hchA) (fun rc rc' hrc => ?_)
      ceqs

theorem cmdServerJoin_congr : HCongr cmdServerJoin := by
  intro c c' sid m h
  unfold cmdServerJoin
  refine RRel.bind_same (fun p0 => ?_)
  exact foldlM_rrel_same _ (fun c c' a _ hc => serverJoinOne_congr hc m a) h

theorem cmdServerNick_congr : HCongr cmdServerNick := by
  intro c c' sid m h
  unfold cmdServerNick
  refine RRel.bind (getS_congr h sid) (fun s s' hs => ?_)
  simp only [hs.id, hs.lastActivity, hs.ircPrefix, h.st.contains_nicks, h.st.sessions.contains_eq]
  split
  · ceqs
  refine RRel.bind_same (fun p0 => ?_)
  split
  · ceqs
  split
  · ceqs
  split
  · ceqs
  rcases (createSession_congr h.st ⟨s.id.id, fnv64 p0⟩ "" s.lastActivity).cases' with ⟨h1, h2⟩ | ⟨st1, st1', h1, h2, hst⟩
  · simp only [h1, h2]
    ceqs
  · simp only [h1, h2]
    refine RRel.bind_same (fun p3 => ?_)
    refine RRel.bind (modS_congr_upd (h.withSt hst) _ _ (fun _ => rfl) (fun _ => rfl) (fun _ => rfl)) (fun c1 c1' hc1 => ?_)
    exact .ok (hc1.withSt (hc1.st.withNicks (hc1.st.nicks.set _ rfl)))

theorem serverBurstChan_congr {c c' : Ctx} (h : CEq c c') {t t' : Session} (ht : SessEq t t') (lc : String) :
    RRel CEq (serverBurstChan t c lc) (serverBurstChan t' c' lc) := by
  unfold serverBurstChan
  rcases getChan_cases h lc with ⟨h1, h2⟩ | ⟨ch, ch', h1, h2, hch, hk⟩
  · simp only [h1, h2]
    exact .panic
  · simp only [h1, h2, hch.get_nicks, ht.nick, hch.name]
    split
    · exact .panic
    · ceqs

theorem serverBurstNick_congr {c c' : Ctx} (h : CEq c c') (nick : String) :
    RRel CEq (serverBurstNick c nick) (serverBurstNick c' nick) := by
  unfold serverBurstNick
  simp only [h.st.get_nicks]
  split
  · exact .panic
  · rename_i tid _
    refine RRel.bind' (getS_congr h tid) (fun t t' ht => ?_)
    simp only [ht.loggedIn, ht.server, ht.id, ht.nick, ht.username, ht.ircPrefix, ht.svid, ht.modes, ht.realname,
      h.serverName, sortStr_eq_of_perm ht.channels]
    split
    · ceqs
    · refine foldlM_rrel_same _ (fun c c' a _ hc => serverBurstChan_congr hc ht a) ?_
      ceqs

theorem cmdServer_congr : HCongr cmdServer := by
  intro c c' sid m h
  rw [cmdServer_eq, cmdServer_eq]
  refine RRel.bind (getS_congr h sid) (fun s s' hs => ?_)
  simp only [hs.pass, h.config]
  split
  · ceqs
  refine RRel.bind_same (fun p0 => ?_)
  refine RRel.bind (modS_congr_upd h sid _ (fun _ => rfl) (fun _ => rfl) (fun _ => rfl)) (fun c1 c1' hc1 => ?_)
  have hc2 : CEq { c1 with st := { c1.st with serverSessions := c1.st.serverSessions ++ [sid.id] } }
      { c1' with st := { c1'.st with serverSessions := c1'.st.serverSessions ++ [sid.id] } } :=
    hc1.withSt (hc1.st.withServerSessions (hc1.st.serverSessions.append (List.Perm.refl _)))
  simp only [sendSvc_st, sortStr_eq_of_perm hc1.st.nicks.keys_perm]
  refine foldlM_rrel_same _ (fun c c' a _ hc => serverBurstNick_congr hc a) (sendSvc_congr hc2 ?_)
  rw [hc1.serverName]

end Robust.Irc
