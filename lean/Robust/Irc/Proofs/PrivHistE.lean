import Robust.Irc.Proofs.PrivHistH
import Robust.Irc.Proofs.PrivDispatch
/-!
`OpsLe` for `MODE` and `JOIN`, the case split over the command table, and the entry-level frame
`applyEntry_client_ops_partial` (see `PrivHist.lean`).
-/
namespace Robust.Irc
open Robust AMap

theorem OpsLe.foldl {α : Type} {lc : String} {f : Ctx → α → Ctx} {c0 : Ctx} (l : List α)
    (hf : ∀ c a, OpsLe lc c0 c → OpsLe lc c0 (f c a)) {c : Ctx} (hc : OpsLe lc c0 c) : OpsLe lc c0 (l.foldl f c) := by
  induction l generalizing c with
  | nil => exact hc
  | cons a t ih => exact ih (hf c a hc)

/-- like `opsle_tac`, also through `putChan` under a key different from `lc` -/
macro "opsle_tac'" : tactic =>
  `(tactic| repeat (first
      | assumption
      | exact OpsLe.refl _ _
      | apply OpsLe.sendUser
      | apply OpsLe.sendSvc
      | apply OpsLe.emit
      | apply OpsLe.putS
      | apply OpsLe.ite
      | (refine OpsLe.putChan_other ?_ _ (by assumption))))

/-! ### MODE -/

/-- a mode change on channel `lcm` does not touch the flags of another channel `lc` -/
theorem applyChanMode_ops {lc lcm : String} {c0 c c' : Ctx} {sid : Id} {s : Session} {chn : String} {op q q' ret : Bool}
    {mc : ModeCmd} (hne : lc ≠ lcm) (h : OpsLe lc c0 c)
    (hr : applyChanMode c sid s lcm chn op mc q = .ok (c', q', ret)) : OpsLe lc c0 c' := by
  unfold applyChanMode at hr
  simp only [getChan_eq] at hr
  split at hr
  · rename_i ch hch
    split at hr
    · split at hr
      · cases hr; opsle_tac'
      · split at hr
        · cases hr; opsle_tac'
        · split at hr
          · split at hr
            · split at hr
              · cases hr; opsle_tac'
              · split at hr
                · cases hr; opsle_tac'
                · cases hr
            · cases hr; opsle_tac'
          · split at hr
            · split at hr <;> (cases hr; opsle_tac')
            · split at hr
              · split at hr
                · cases hr; opsle_tac'
                · split at hr
                  · cases hr; opsle_tac'
                  · cases hr; opsle_tac'
              · split at hr
                · obtain ⟨pa, _, hr⟩ := Res.bind_eq_ok.1 hr
                  obtain ⟨ch', hb, hr⟩ := Res.bind_eq_ok.1 hr
                  cases hr; opsle_tac'
                · cases hr; opsle_tac'
    · cases hr
      apply OpsLe.sendUser
      exact OpsLe.foldl _ (fun c1 p h1 => h1.sendUser _ _) h
  · cases hr

theorem applyChanModes_ops {lc lcm : String} {c0 : Ctx} {sid : Id} {s : Session} {chn : String} {op : Bool}
    (hne : lc ≠ lcm) : ∀ (l : List ModeCmd) {c c' : Ctx} {q q' ret : Bool}, OpsLe lc c0 c →
      applyChanModes c sid s lcm chn op l q = .ok (c', q', ret) → OpsLe lc c0 c'
  | [], c, c', q, q', ret, h, hr => by
    unfold applyChanModes at hr
    cases hr; exact h
  | mc :: rest, c, c', q, q', ret, h, hr => by
    unfold applyChanModes at hr
    obtain ⟨⟨c1, q1, r1⟩, h1, hr⟩ := Res.bind_eq_ok.1 hr
    have o1 := applyChanMode_ops hne h h1
    dsimp only at hr
    split at hr
    · cases hr; exact o1
    · exact applyChanModes_ops hne rest o1 hr

/-- MODE by a session that is neither chanop of `lc` nor IRC operator does not set a chanop flag of `lc` -/
theorem cmdMode_ops {c c' : Ctx} {sid : Id} {m : IrcMsg} {s : Session} {lc : String}
    (hs : AMap.get c.st.sessions sid = some s)
    (hnop : chanOpOf c.st s.nick lc = false) (hno : s.operator = false)
    (hr : cmdMode c sid m = .ok c') : OpsLe lc c c' := by
  cases hp0 : m.params[0]? with
  | none =>
    unfold cmdMode at hr
    rw [getS_of_get hs] at hr
    simp [param, hp0] at hr
  | some chn =>
    cases hon : s.channels.contains (chanToLower chn) with
    | false => exact (OpsLe.refl lc c).of_eq (cmdMode_notOn_channels hs hp0 hon hr)
    | true =>
      by_cases hlc : lc = chanToLower chn
      · subst hlc
        exact (OpsLe.refl _ c).of_eq (by rw [(cmdMode_refused hs hp0 hon hnop hno hr).st])
      · unfold cmdMode at hr
        rw [getS_of_get hs] at hr
        simp only [Res.ok_bind, param, hp0, hon, ↓reduceIte, getChan_eq] at hr
        split at hr
        · split at hr
          · cases hr; opsle_tac
          · split at hr
            · obtain ⟨⟨c1, q1, r1⟩, h1, hr⟩ := Res.bind_eq_ok.1 hr
              have o1 := applyChanModes_ops hlc _ (OpsLe.refl lc c) h1
              dsimp only at hr
              split at hr
              · cases hr; exact o1
              · split at hr
                · cases hr; exact o1
                · split at hr
                  · cases hr; exact o1
                  · split at hr
                    · obtain ⟨rc, _, hr⟩ := Res.bind_eq_ok.1 hr
                      cases hr; opsle_tac
                    · cases hr
            · cases hr
        · cases hr

/-! ### JOIN -/

theorem joinAdmit_ops {lc : String} {c c1 : Ctx} {sid : Id} {s : Session} {chn key : String}
    {mm : Option (Option IrcMsg)} (hex : ChanEx lc c) (hr : joinAdmit c sid s chn key = .ok (c1, mm)) :
    OpsLe lc c c1 ∧ ChanEx lc c1 ∧ (lc = chanToLower chn → c1.st.channels = c.st.channels) := by
  cases hg : AMap.get c.st.channels (chanToLower chn) with
  | some ch =>
    rcases joinAdmit_existing hg hr with ⟨_, _, hR⟩ | ⟨_, _, rfl⟩
    · exact ⟨(OpsLe.refl lc c).of_eq (by rw [hR.st]), hex.of_eq (by rw [hR.st]), fun _ => by rw [hR.st]⟩
    · exact ⟨OpsLe.refl lc _, hex, fun _ => rfl⟩
  | none =>
    have hne : lc ≠ chanToLower chn := by
      intro e
      unfold ChanEx at hex
      rw [e, hg] at hex
      cases hex
    unfold joinAdmit at hr
    dsimp only at hr
    obtain ⟨r, h1, hr⟩ := Res.bind_eq_ok.1 hr
    simp only [getChan_eq, hg] at h1
    split at h1
    · cases h1
      simp only [↓reduceIte, Res.ok.injEq, Prod.mk.injEq] at hr
      obtain ⟨rfl, _⟩ := hr
      exact ⟨by opsle_tac, hex.of_eq rfl, fun e => absurd e hne⟩
    · cases h1
      simp only [Bool.false_eq_true, ↓reduceIte, Res.ok.injEq, Prod.mk.injEq] at hr
      obtain ⟨rfl, _⟩ := hr
      exact ⟨(OpsLe.refl lc c).putChan_other _ hne, hex.putChan _ _, fun e => absurd e hne⟩

theorem joinTail_ops {lc : String} {c0 c c' : Ctx} {sid : Id} {s : Session} {chn : String} {ex : Bool}
    {mm : Option IrcMsg} (h : OpsLe lc c0 c) (hex : ChanEx lc c) (hflag : lc = chanToLower chn → ex = true)
    (hr : joinTail c sid s chn ex mm = .ok c') : OpsLe lc c0 c' ∧ ChanEx lc c' := by
  unfold joinTail at hr
  simp only [getChan_eq] at hr
  split at hr
  · rename_i ch hch
    obtain ⟨c2, h2, hr⟩ := Res.bind_eq_ok.1 hr
    have e2 : c2.st.channels = c.st.channels := by
      split at h2
      · obtain ⟨s0, _, rfl⟩ := modS_eq_ok.1 h2
        rfl
      · cases h2; rfl
    have o2 : OpsLe lc c0 c2 := h.of_eq e2
    have x2 : ChanEx lc c2 := hex.of_eq e2
    split at hr
    · cases hr; exact ⟨o2, x2⟩
    · obtain ⟨c3, h3, hr⟩ := Res.bind_eq_ok.1 hr
      have hch2 : AMap.get c2.st.channels (chanToLower chn) = some ch := by rw [e2]; exact hch
      have o3 : OpsLe lc c0 (putChan c2 (chanToLower chn)
          { ch with nicks := AMap.set ch.nicks (nickToLower s.nick) { chanop := !ex } }) := by
        by_cases hlc : lc = chanToLower chn
        · refine o2.putChan_le hch2 fun n hn => ?_
          rw [memFlag_set] at hn
          split at hn
          · rw [hflag hlc] at hn
            cases hn
          · exact hn
        · exact o2.putChan_other _ hlc
      have e := joinAnnounce_emits hr
      exact ⟨(o3.modS h3).of_emits e, ((x2.putChan _ _).modS h3).of_emits e⟩
  · cases hr

theorem joinOne_ops {lc : String} {c c' : Ctx} {sid : Id} {chn key : String} (hex : ChanEx lc c)
    (hr : joinOne c sid chn key = .ok c') : OpsLe lc c c' ∧ ChanEx lc c' := by
  rw [joinOne_eq] at hr
  obtain ⟨s, _, hr⟩ := Res.bind_eq_ok.1 hr
  split at hr
  · cases hr; exact ⟨by opsle_tac, hex.of_eq rfl⟩
  · obtain ⟨⟨c1, mm⟩, h1, hr⟩ := Res.bind_eq_ok.1 hr
    obtain ⟨o1, x1, e1⟩ := joinAdmit_ops hex h1
    cases mm with
    | none => cases hr; exact ⟨o1, x1⟩
    | some mm =>
      dsimp only at hr
      refine joinTail_ops o1 x1 (fun hlc => ?_) hr
      unfold ChanEx at hex
      rw [getChan_eq, ← hlc]
      exact hex

theorem joinLoop_ops {lc : String} {c0 : Ctx} {sid : Id} {keys : List String} :
    ∀ (l : List String) {c c' : Ctx} {idx : Nat}, OpsLe lc c0 c → ChanEx lc c →
      joinLoop c sid keys l idx = .ok c' → OpsLe lc c0 c'
  | [], c, c', idx, h, _, hr => by
    unfold joinLoop at hr
    cases hr; exact h
  | a :: t, c, c', idx, h, hex, hr => by
    unfold joinLoop at hr
    obtain ⟨c1, h1, hr⟩ := Res.bind_eq_ok.1 hr
    obtain ⟨o1, x1⟩ := joinOne_ops hex h1
    exact joinLoop_ops t (h.trans o1) x1 hr

/-- JOIN (any list of channels) does not set a chanop flag of a channel that exists already -/
theorem cmdJoin_ops {c c' : Ctx} {sid : Id} {m : IrcMsg} {lc : String} (hex : ChanEx lc c)
    (hr : cmdJoin c sid m = .ok c') : OpsLe lc c c' := by
  unfold cmdJoin at hr
  obtain ⟨p0, _, hr⟩ := Res.bind_eq_ok.1 hr
  exact joinLoop_ops _ (OpsLe.refl lc c) hex hr

end Robust.Irc
