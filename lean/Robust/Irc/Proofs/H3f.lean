import Robust.Irc.Proofs.H3e
/-!
KILL, QUIT (services link), SERVER.
-/
namespace Robust.Irc
open Srv
open Robust AMap

/-! ### KILL -/

theorem cmdServerKill_mid {c0 c c' : Ctx} {sid : Id} {m : IrcMsg} (h : Mid c0 c sid)
    (hr : cmdServerKill c sid m = Res.ok c') : Mid c0 c' sid := by
  unfold cmdServerKill at hr
  obtain ⟨s, _, hr⟩ := Res.bind_eq_ok.1 hr
  split at hr
  · cases hr; exact h.sendSvc _
  · dsimp only at hr
    obtain ⟨kp?, _, hr⟩ := Res.bind_eq_ok.1 hr
    obtain ⟨p0, _, hr⟩ := Res.bind_eq_ok.1 hr
    split at hr
    · cases hr; exact h.sendSvc _
    · rename_i tid hidx
      obtain ⟨t, ht, hr⟩ := Res.bind_eq_ok.1 hr
      rw [getS_eq_ok] at ht
      split at hr
      · obtain ⟨rc, _, hr⟩ := Res.bind_eq_ok.1 hr
        obtain ⟨t', ht', hlive, _⟩ := h.hinv.index _ tid hidx
        rw [ht] at ht'; cases ht'
        exact ((h.sendUser _ _).emit _ _).deleteSession (c := emit _ _ _) ht (DelPre.of_live hlive) hr
      · cases hr

theorem cmdServerKill_preserves : PreservesSrv cmdServerKill :=
  PreservesSrv.of_mid fun _ _ _ _ _ h hr => cmdServerKill_mid h hr

theorem cmdServerKill_safe : ServicesSafe cmdServerKill 2 := by
  intro c sid m s hpre hs hsrv hpfx hlen
  show NoPanic (cmdServerKill c sid m)
  obtain ⟨p0, hp0⟩ := param_ok (m := m) (i := 0) (by omega)
  obtain ⟨p, hp⟩ : ∃ p, m.pfx = some p := by
    cases hp : m.pfx with
    | none => rw [hp] at hpfx; cases hpfx
    | some p => exact ⟨p, rfl⟩
  have hw := hpre.inv.toWInv
  unfold cmdServerKill
  rw [getS_of_get hs]
  simp only [Res.ok_bind, hp0, hp]
  split
  · exact NoPanic.pure _
  · refine NoPanic.bind ?_ (fun kp? hkp => ?_)
    · split
      · exact NoPanic.ok _
      · split <;> exact NoPanic.ok _
    · have hsome : ∃ kp, kp? = some kp := by
        split at hkp
        · cases hkp; exact ⟨_, rfl⟩
        · split at hkp <;> (cases hkp; exact ⟨_, rfl⟩)
      obtain ⟨kp, rfl⟩ := hsome
      split
      · exact NoPanic.pure _
      · rename_i tid hidx
        obtain ⟨t, ht⟩ := hw.toWInvCore.indexed_stored hidx
        rw [getS_of_get ht]
        simp only [Res.ok_bind]
        obtain ⟨rc, hrc⟩ := rcCommonChannels_ok hw.toWInvCore t
        simp only [sendUser_st]
        rw [hrc]
        simp only [Res.ok_bind]
        exact NoPanic.of_ok (deleteSession_ok (c := emit _ _ _) hw ht)

/-! ### QUIT -/

/-- every stored session that is flagged deleted is unindexed (what `deleteSession` needs when
several sessions are deleted in a row) -/
def AllDelPre (st : St) : Prop := ∀ id t, AMap.get st.sessions id = some t → DelPre st t

theorem AllDelPre.of_inv {st : St} (h : Inv st) : AllDelPre st :=
  fun id t ht => DelPre.of_live (h.noDeleted id t ht)

/-- fold invariant of the loop over the pseudo-clients -/
def QuitInv (c0 : Ctx) (sid : Id) (c : Ctx) : Prop := Mid c0 c sid ∧ AllDelPre c.st

theorem QuitInv.deleteSession {c0 c c' : Ctx} {sid tid : Id} {t : Session} (h : QuitInv c0 sid c)
    (ht : AMap.get c.st.sessions tid = some t) (hr : deleteSession c tid = Res.ok c') : QuitInv c0 sid c' :=
  ⟨h.1.deleteSession ht (h.2 tid t ht) hr, deleteSession_delPre h.1.hinv.toWInv ht (h.2 tid t ht) hr h.2⟩

theorem QuitInv.emit {c0 c : Ctx} {sid : Id} (h : QuitInv c0 sid c) (m : IrcMsg) (r : List Nat) :
    QuitInv c0 sid (emit c m r) := ⟨h.1.emit m r, h.2⟩

theorem cmdServerQuit_inv {c0 c c' : Ctx} {sid : Id} {m : IrcMsg} (h : QuitInv c0 sid c)
    (hr : cmdServerQuit c sid m = Res.ok c') : QuitInv c0 sid c' := by
  unfold cmdServerQuit at hr
  obtain ⟨s, hs, hr⟩ := Res.bind_eq_ok.1 hr
  rw [getS_eq_ok] at hs
  split at hr
  · obtain ⟨c1, hd, hr⟩ := Res.bind_eq_ok.1 hr
    dsimp only at hr
    refine foldlM_inv (QuitInv c0 sid) _ _ ?_ c1 c' (h.deleteSession hs hd) hr
    intro c2 tid c3 _ hP hstep
    obtain ⟨t, ht, hstep⟩ := Res.bind_eq_ok.1 hstep
    rw [getS_eq_ok] at ht
    obtain ⟨rc, _, hstep⟩ := Res.bind_eq_ok.1 hstep
    exact QuitInv.deleteSession (c := emit _ _ _) (hP.emit _ _) ht hstep
  · split at hr
    · cases hr; exact h
    · rename_i e hfind
      obtain ⟨rc, _, hr⟩ := Res.bind_eq_ok.1 hr
      have hmem : (e.1, e.2) ∈ c.st.sessions := List.mem_of_find?_eq_some hfind
      have hget := AMap.get_of_mem_nodup h.1.hinv.sessNodup hmem
      exact QuitInv.deleteSession (c := emit _ _ _) (h.emit _ _) hget hr

theorem cmdServerQuit_preserves : PreservesSrv cmdServerQuit :=
  fun _ _ _ _ _ hpre hs hsrv hr =>
    (cmdServerQuit_inv ⟨Mid.of_pre hpre hs hsrv, AllDelPre.of_inv hpre.inv⟩ hr).1.post

theorem cmdServerQuit_safe : ServicesSafe cmdServerQuit 0 := by
  intro c sid m s hpre hs hsrv hpfx hlen
  show NoPanic (cmdServerQuit c sid m)
  obtain ⟨p, hp⟩ : ∃ p, m.pfx = some p := by
    cases hp : m.pfx with
    | none => rw [hp] at hpfx; cases hpfx
    | some p => exact ⟨p, rfl⟩
  have hw := hpre.inv.toWInv
  unfold cmdServerQuit
  rw [getS_of_get hs]
  simp only [Res.ok_bind, hp]
  split
  · exact NoPanic.pure _
  · rename_i e hfind
    have hmem : (e.1, e.2) ∈ c.st.sessions := List.mem_of_find?_eq_some hfind
    have hget := AMap.get_of_mem_nodup hw.sessNodup hmem
    obtain ⟨rc, hrc⟩ := rcCommonChannels_ok hw.toWInvCore e.2
    rw [hrc]
    simp only [Res.ok_bind]
    exact NoPanic.of_ok (deleteSession_ok (c := emit _ _ _) hw hget)

/-- extra: QUIT *without* a prefix (the link itself quits, all its pseudo-clients are removed) cannot
panic either -/
theorem cmdServerQuit_noPanic_noPrefix {c : Ctx} {sid : Id} {m : IrcMsg} {s : Session} (hpre : Pre c sid)
    (hs : AMap.get c.st.sessions sid = some s) (hsrv : s.server = true) (hp : m.pfx = none) :
    NoPanic (cmdServerQuit c sid m) := by
  have h0 : QuitInv c sid c := ⟨Mid.of_pre hpre hs hsrv, AllDelPre.of_inv hpre.inv⟩
  unfold cmdServerQuit
  rw [getS_of_get hs]
  simp only [Res.ok_bind, hp]
  refine NoPanic.bind (NoPanic.of_ok (deleteSession_ok h0.1.hinv.toWInv hs)) (fun c1 hd => ?_)
  have h1 := h0.deleteSession hs hd
  refine foldlM_noPanic (fun c2 => QuitInv c sid c2 ∧ AMap.keys c2.st.sessions = AMap.keys c1.st.sessions) _ _
    ?_ ?_ c1 ⟨h1, rfl⟩
  · intro c2 tid c3 _ hP hstep
    obtain ⟨t, ht, hstep⟩ := Res.bind_eq_ok.1 hstep
    rw [getS_eq_ok] at ht
    obtain ⟨rc, _, hstep⟩ := Res.bind_eq_ok.1 hstep
    refine ⟨QuitInv.deleteSession (c := emit _ _ _) (hP.1.emit _ _) ht hstep, ?_⟩
    have sp := deleteSession_spec (c := emit _ _ _) hP.1.1.hinv.toWInv ht (hP.1.2 tid t ht) hstep
    exact sp.keys.trans hP.2
  · intro c2 tid hmem hP
    have hk : tid ∈ AMap.keys c1.st.sessions := by
      obtain ⟨e, he, rfl⟩ := List.mem_map.1 (List.mem_mergeSort.1 hmem)
      exact AMap.mem_keys_of_mem (List.mem_filter.1 he).1
    rw [← hP.2] at hk
    obtain ⟨t, ht⟩ := AMap.mem_keys_iff_get.1 hk
    rw [getS_of_get ht]
    simp only [Res.ok_bind]
    obtain ⟨rc, hrc⟩ := rcCommonChannels_ok hP.1.1.hinv.toWInvCore t
    rw [hrc]
    simp only [Res.ok_bind]
    exact NoPanic.of_ok (deleteSession_ok (c := emit _ _ _) hP.1.1.hinv.toWInv ht)

/-! ### SERVER (the actor is a client session that becomes a link) -/

def serverBurstChan (t : Session) (c : Ctx) (lc : String) : Res Ctx :=
  match getChan c lc with
  | none => Res.panic "channel is nil (cmdServer)"
  | some ch =>
    match AMap.get ch.nicks (nickToLower t.nick) with
    | none => Res.panic "c.nicks[nick] is nil (cmdServer)"
    | some mem => Res.ok (sendSvc c (srv c "SJOIN" ["1", ch.name, (if mem.chanop then "@" else "") ++ t.nick]))

def serverBurstNick (c : Ctx) (nick : String) : Res Ctx :=
  match AMap.get c.st.nicks nick with
  | none => Res.panic "session is nil (cmdServer)"
  | some tid => (getS c tid).bind fun t =>
    if !t.loggedIn || t.server || t.id.reply != 0 then Res.ok c
    else
      let c := sendSvc c ⟨none, "NICK", [t.nick, "1", "1", t.username, t.ircPrefix.host, c.st.serverName, t.svid, modeStr t.modes, t.realname]⟩
      (t.channels.mergeSort (fun a b => a ≤ b)).foldlM (serverBurstChan t) c

theorem cmdServer_eq (c : Ctx) (sid : Id) (m : IrcMsg) :
    cmdServer c sid m = (do
      let s ← getS c sid
      if !(c.st.config.services.any fun pw => s.pass == "services=" ++ pw) then
        return sendUser c sid ⟨none, "ERROR", ["Invalid password"]⟩
      let p0 ← param m 0
      let c ← modS c sid fun s => { s with server := true, ircPrefix := ⟨p0, "", ""⟩ }
      let c := { c with st := { c.st with serverSessions := c.st.serverSessions ++ [sid.id] } }
      let c := sendSvc c ⟨none, "SERVER", [c.st.serverName, "1", "23"]⟩
      let nicks := (AMap.keys c.st.nicks).mergeSort (fun a b => a ≤ b)
      nicks.foldlM serverBurstNick c) := rfl

theorem serverBurstChan_emits {t : Session} {c c' : Ctx} {lc : String}
    (hr : serverBurstChan t c lc = Res.ok c') : Emits c c' := by
  unfold serverBurstChan at hr
  split at hr
  · cases hr
  · split at hr
    · cases hr
    · cases hr; exact Emits.sendSvc _ _

theorem serverBurstChan_safe {t : Session} {c : Ctx} {lc : String}
    (hm : ∃ ch mem, AMap.get c.st.channels lc = some ch ∧ AMap.get ch.nicks (nickToLower t.nick) = some mem) :
    NoPanic (serverBurstChan t c lc) := by
  obtain ⟨ch, mem, h1, h2⟩ := hm
  unfold serverBurstChan
  simp only [getChan_eq, h1, h2]
  exact NoPanic.ok _

theorem serverBurstNick_emits {c c' : Ctx} {nick : String} (hr : serverBurstNick c nick = Res.ok c') : Emits c c' := by
  unfold serverBurstNick at hr
  split at hr
  · cases hr
  · obtain ⟨t, _, hr⟩ := Res.bind_eq_ok.1 hr
    split at hr
    · cases hr; exact Emits.refl _
    · exact (Emits.sendSvc _ _).trans
        (foldlM_emits _ _ (fun _ _ _ _ h => serverBurstChan_emits h) _ _ hr)

theorem serverBurstNick_safe {c : Ctx} {nick : String} (hw : WInv c.st) (hn : nick ∈ AMap.keys c.st.nicks) :
    NoPanic (serverBurstNick c nick) := by
  obtain ⟨tid, hidx⟩ := AMap.mem_keys_iff_get.1 hn
  obtain ⟨t, ht, _, _, hmem⟩ := hw.indexed_member hidx
  unfold serverBurstNick
  simp only [hidx]
  rw [getS_of_get ht]
  simp only [Res.bind_ok']
  split
  · exact NoPanic.ok _
  · refine foldlM_noPanic (fun c1 => c1.st = c.st) _ _ ?_ ?_ _ rfl
    · intro c1 a c2 _ hP h
      exact (serverBurstChan_emits h).st.trans hP
    · intro c1 a ha hP
      refine serverBurstChan_safe ?_
      rw [hP]
      exact hmem a (List.mem_mergeSort.1 ha)

theorem cmdServer_preserves : Preserves cmdServer := by
  intro c sid m c' hpre hr
  rw [cmdServer_eq] at hr
  obtain ⟨s, hs, hr⟩ := Res.bind_eq_ok.1 hr
  rw [getS_eq_ok] at hs
  split at hr
  · cases hr; exact Post.of_emits hpre (Emits.sendUser _ _ _)
  · obtain ⟨p0, _, hr⟩ := Res.bind_eq_ok.1 hr
    obtain ⟨c1, hm, hr⟩ := Res.bind_eq_ok.1 hr
    dsimp only at hr
    have he := (Emits.sendSvc _ _).trans (foldlM_emits _ _ (fun _ _ _ _ h => serverBurstNick_emits h) _ _ hr)
    refine Post.emits ?_ he
    have hsim : StSim c.st c1.st :=
      StSim.modS hpre.inv.toWInvCore (by intro s; exact ⟨rfl, rfl, rfl, rfl⟩) hm
    have hI1 : Inv c1.st := hpre.inv.sim hsim
    have hL1 : LInv c1.st := hpre.linv.modS hm (fun s hs' hl => hpre.linv sid s hs' hl)
    have hk : ∃ s1, AMap.get c1.st.sessions sid = some s1 := modS_keeps_stored hm hs
    exact {
      hinv := hI1.toHInv.congr rfl rfl rfl
      linv := hL1.congr rfl
      actorKept := hk
      flagged := fun id s' hg hd => by
        have := hI1.noDeleted id s' hg
        rw [this] at hd; cases hd
      outGrows := (OutGrows.modS hm).out
      msgid := (OutGrows.modS hm).msgid }

theorem cmdServer_safe : ClientSafe cmdServer 2 false := by
  intro c sid m s hpre hs hsrv _ hlen
  show NoPanic (cmdServer c sid m)
  obtain ⟨p0, hp0⟩ := param_ok (m := m) (i := 0) (by omega)
  rw [cmdServer_eq, getS_of_get hs]
  simp only [Res.ok_bind, hp0]
  split
  · exact NoPanic.pure _
  · refine NoPanic.bind (NoPanic.of_ok ⟨_, modS_of_get _ hs⟩) (fun c1 hm => ?_)
    have hsim : StSim c.st c1.st :=
      StSim.modS hpre.inv.toWInvCore (by intro s; exact ⟨rfl, rfl, rfl, rfl⟩) hm
    have hw1 : WInv c1.st := hpre.inv.toWInv.sim hsim
    refine foldlM_noPanic (fun c2 => c2.st = { c1.st with serverSessions := c1.st.serverSessions ++ [sid.id] }) _ _
      ?_ ?_ _ rfl
    · intro c2 a c3 _ hP h
      exact (serverBurstNick_emits h).st.trans hP
    · intro c2 a ha hP
      have hw2 : WInv c2.st := by rw [hP]; exact hw1.congr rfl rfl rfl
      refine serverBurstNick_safe hw2 ?_
      rw [hP]
      exact List.mem_mergeSort.1 ha

end Robust.Irc
