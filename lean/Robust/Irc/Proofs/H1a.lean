import Robust.Irc.Proofs.HandlerSpec
/-!
Handler proofs, group 1 (client handlers that change state) — part a:
shared tools, `cmdMotd`, `cmdOper`, `maybeLogin`, `cmdUser`, `cmdPass`.
-/
namespace Robust.Irc
open AMap

/-! ## tools -/

/-- the output-only part of `Post` -/
structure OutStep (c c' : Ctx) : Prop where
  outGrows : ∃ extra, c'.out = c.out ++ extra
  msgid : c'.msgid = c.msgid

theorem OutStep.refl (c : Ctx) : OutStep c c := ⟨⟨[], by simp⟩, rfl⟩

theorem OutStep.trans {a b c : Ctx} (h1 : OutStep a b) (h2 : OutStep b c) : OutStep a c := by
  obtain ⟨⟨e1, h1o⟩, h1m⟩ := h1
  obtain ⟨⟨e2, h2o⟩, h2m⟩ := h2
  exact ⟨⟨e1 ++ e2, by rw [h2o, h1o, List.append_assoc]⟩, h2m.trans h1m⟩

theorem OutStep.emit {a c : Ctx} (h : OutStep a c) (m : IrcMsg) (r : List Nat) : OutStep a (emit c m r) :=
  h.trans ⟨⟨_, rfl⟩, rfl⟩

theorem OutStep.sendUser {a c : Ctx} (h : OutStep a c) (sid : Id) (m : IrcMsg) : OutStep a (sendUser c sid m) :=
  h.emit m _

theorem OutStep.of_eq {a c c' : Ctx} (h : OutStep a c) (ho : c'.out = c.out) (hm : c'.msgid = c.msgid) : OutStep a c' :=
  h.trans ⟨⟨[], by simp [ho]⟩, hm⟩

theorem OutStep.putS {a c : Ctx} (h : OutStep a c) (s : Session) : OutStep a (putS c s) := h.of_eq rfl rfl

theorem OutStep.putChan {a c : Ctx} (h : OutStep a c) (lc : String) (ch : Channel) : OutStep a (putChan c lc ch) :=
  h.of_eq rfl rfl

theorem OutStep.modS {a c c' : Ctx} {sid : Id} {f : Session → Session} (h : OutStep a c)
    (hr : modS c sid f = .ok c') : OutStep a c' := by
  obtain ⟨s, _, rfl⟩ := modS_eq_ok.1 hr
  exact h.putS _

theorem OutStep.frame {a c c' : Ctx} (h : OutStep a c) (hf : CtxFrame c c') : OutStep a c' :=
  h.of_eq hf.out hf.msgid

theorem OutStep.ite {a c1 c2 : Ctx} (b : Bool) (h1 : OutStep a c1) (h2 : OutStep a c2) :
    OutStep a (if b = true then c1 else c2) := by
  cases b
  · exact h2
  · exact h1

/-- closes goals `OutStep c (sendUser (emit … c …) …)` -/
macro "outstep" : tactic =>
  `(tactic| repeat' (first
      | assumption
      | exact OutStep.refl _
      | apply OutStep.sendUser
      | apply OutStep.emit
      | apply OutStep.putS
      | apply OutStep.putChan
      | apply OutStep.ite))

/-- `Pre` only looks at the state -/
theorem Pre.congr_st {c c' : Ctx} {sid : Id} (h : Pre c sid) (e : c'.st = c.st) : Pre c' sid :=
  ⟨by rw [e]; exact h.inv, by rw [e]; exact h.linv, by rw [e]; exact h.actor, h.reply0⟩

theorem Pre.emit {c : Ctx} {sid : Id} (h : Pre c sid) (m : IrcMsg) (r : List Nat) : Pre (emit c m r) sid :=
  h.congr_st rfl

theorem Pre.sendUser {c : Ctx} {sid : Id} (h : Pre c sid) (tid : Id) (m : IrcMsg) : Pre (sendUser c tid m) sid :=
  h.congr_st rfl

theorem Pre.ite {c1 c2 : Ctx} {sid : Id} (b : Bool) (h1 : Pre c1 sid) (h2 : Pre c2 sid) :
    Pre (if b = true then c1 else c2) sid := by
  cases b
  · exact h2
  · exact h1

/-- the actor is live -/
theorem Pre.live {c : Ctx} {sid : Id} (h : Pre c sid) {id : Id} {s : Session}
    (hs : AMap.get c.st.sessions id = some s) : s.deleted = false := h.inv.noDeleted id s hs

/-- the strong form most handlers establish: the result state satisfies `Pre` again -/
theorem Post.of_pre {c c' : Ctx} {sid : Id} (hp : Pre c' sid) (ho : OutStep c c') : Post c c' sid where
  hinv := hp.inv.toHInv
  linv := hp.linv
  actorKept := hp.actor
  flagged := fun id s hg hd => by
    have := hp.inv.noDeleted id s hg
    rw [this] at hd; cases hd
  outGrows := ho.outGrows
  msgid := ho.msgid

theorem Post.outStep {c c' : Ctx} {sid : Id} (h : Post c c' sid) : OutStep c c' := ⟨h.outGrows, h.msgid⟩

/-- a handler run from a state reached by output-only/`Pre`-preserving steps -/
theorem Post.after {c c1 c' : Ctx} {sid : Id} (ho : OutStep c c1) (h : Post c1 c' sid) : Post c c' sid :=
  { h with outGrows := (ho.trans h.outStep).outGrows, msgid := (ho.trans h.outStep).msgid }

/-- stronger than `Preserves`: the result satisfies `Pre` again (no session is flagged) -/
def PreservesPre (h : Ctx → Id → IrcMsg → Res Ctx) : Prop :=
  ∀ c sid m c', Pre c sid → h c sid m = .ok c' → Pre c' sid ∧ OutStep c c'

theorem PreservesPre.preserves {h : Ctx → Id → IrcMsg → Res Ctx} (hh : PreservesPre h) : Preserves h :=
  fun c sid m c' hp hr => Post.of_pre (hh c sid m c' hp hr).1 (hh c sid m c' hp hr).2

/-- session lookups survive an inert update -/
theorem modS_keeps {c c' : Ctx} {tid : Id} {f : Session → Session} (hr : modS c tid f = .ok c') {id : Id}
    (h : ∃ s, AMap.get c.st.sessions id = some s) : ∃ s, AMap.get c'.st.sessions id = some s := by
  obtain ⟨t, ht, rfl⟩ := modS_eq_ok.1 hr
  obtain ⟨s, hs⟩ := h
  rw [putS_sessions, AMap.get_set]
  split
  · exact ⟨_, rfl⟩
  · exact ⟨s, hs⟩

/-- `modS` with an inert function preserves `Pre` -/
theorem Pre.modS_inert' {c c' : Ctx} {sid tid : Id} {f : Session → Session} (hp : Pre c sid)
    (hr : modS c tid f = .ok c')
    (hf : ∀ s, (f s).id = s.id ∧ (f s).deleted = s.deleted ∧ (f s).nick = s.nick ∧ (f s).channels = s.channels)
    (hl : ∀ s, AMap.get c.st.sessions tid = some s → (f s).loggedIn = true → (f s).nick ≠ "") : Pre c' sid :=
  ⟨hp.inv.sim (StSim.modS hp.inv.toWInvCore hf hr), hp.linv.modS hr hl, modS_keeps hr hp.actor, hp.reply0⟩

theorem Pre.modS_inert {c c' : Ctx} {sid tid : Id} {f : Session → Session} (hp : Pre c sid)
    (hr : modS c tid f = .ok c')
    (hf : ∀ s, (f s).id = s.id ∧ (f s).deleted = s.deleted ∧ (f s).nick = s.nick ∧ (f s).channels = s.channels)
    (hl : ∀ s, (f s).loggedIn = s.loggedIn) : Pre c' sid :=
  hp.modS_inert' hr hf (fun s hs hli => by rw [(hf s).2.2.1]; exact hp.linv tid s hs (by rw [← hl s]; exact hli))

/-- the stored value after `modS` -/
theorem modS_get_self {c c' : Ctx} {sid : Id} {f : Session → Session} {s : Session}
    (hs : AMap.get c.st.sessions sid = some s) (hid : (f s).id = sid) (hr : modS c sid f = .ok c') :
    AMap.get c'.st.sessions sid = some (f s) := by
  obtain ⟨t, ht, rfl⟩ := modS_eq_ok.1 hr
  rw [hs] at ht; cases ht
  rw [putS_sessions, hid]; exact AMap.get_set_same _ _ _

theorem param_ok {m : IrcMsg} {i : Nat} (h : i < m.params.length) : ∃ p, param m i = .ok p := by
  unfold param
  rw [List.getElem?_eq_getElem h]
  exact ⟨_, rfl⟩

/-! ### panic-freedom bookkeeping -/

/-- the result is `.ok` or `.declined` -/
def NoPanic {α : Type} (r : Res α) : Prop := ∀ site, r ≠ .panic site

theorem NoPanic.ok {α : Type} (a : α) : NoPanic (Res.ok a) := fun _ h => by cases h
theorem NoPanic.pure {α : Type} (a : α) : NoPanic (pure a : Res α) := fun _ h => by cases h
theorem NoPanic.declined {α : Type} (w : String) : NoPanic (Res.declined w : Res α) := fun _ h => by cases h
theorem NoPanic.of_ok {α : Type} {r : Res α} (h : ∃ a, r = .ok a) : NoPanic r := by
  obtain ⟨a, rfl⟩ := h; exact NoPanic.ok a

theorem NoPanic.bind {α β : Type} {x : Res α} {f : α → Res β} (hx : NoPanic x)
    (hf : ∀ a, x = .ok a → NoPanic (f a)) : NoPanic (x >>= f) := by
  cases x with
  | ok a => exact hf a rfl
  | panic s => exact absurd rfl (hx s)
  | declined w => exact NoPanic.declined w

theorem NoPanic.ite {α : Type} {b : Prop} [Decidable b] {x y : Res α} (hx : b → NoPanic x) (hy : ¬b → NoPanic y) :
    NoPanic (if b then x else y) := by
  split
  · exact hx ‹_›
  · exact hy ‹_›

theorem clientSafe_iff {h : Ctx → Id → IrcMsg → Res Ctx} {n : Nat} {l : Bool} :
    ClientSafe h n l ↔ ∀ c sid m s, Pre c sid → AMap.get c.st.sessions sid = some s → s.server = false →
      (l = true → s.loggedIn = true) → n ≤ m.params.length → NoPanic (h c sid m) := Iff.rfl

/-- the session is stored under its own id (all that panic-freedom of the login path needs) -/
def Stored (c : Ctx) (sid : Id) : Prop := ∃ s, AMap.get c.st.sessions sid = some s ∧ s.id = sid

theorem Pre.stored {c : Ctx} {sid : Id} (hp : Pre c sid) : Stored c sid := by
  obtain ⟨s, hs⟩ := hp.actor
  exact ⟨s, hs, (hp.inv.sessId sid s hs).1⟩

theorem Stored.congr_st {c c' : Ctx} {sid : Id} (h : Stored c sid) (e : c'.st = c.st) : Stored c' sid := by
  unfold Stored; rw [e]; exact h

theorem Stored.modS {c c' : Ctx} {sid tid : Id} {f : Session → Session} (h : Stored c sid)
    (hr : modS c tid f = .ok c') (hf : ∀ s, (f s).id = s.id) : Stored c' sid := by
  obtain ⟨t, ht, rfl⟩ := modS_eq_ok.1 hr
  obtain ⟨s, hs, hid⟩ := h
  unfold Stored
  rw [putS_sessions, hf t]
  by_cases he : t.id = sid
  · rw [he]; exact ⟨f t, AMap.get_set_same _ _ _, by rw [hf t]; exact he⟩
  · exact ⟨s, by rw [AMap.get_set_other _ (Ne.symm he)]; exact hs, hid⟩

/-! ## MOTD -/

theorem cmdMotd_pre : PreservesPre cmdMotd := by
  intro c sid m c' hp hr
  unfold cmdMotd at hr
  obtain ⟨s, hs, hr⟩ := Res.bind_eq_ok.1 hr
  cases hr
  exact ⟨hp.congr_st rfl, by outstep⟩

theorem cmdMotd_preserves : Preserves cmdMotd := cmdMotd_pre.preserves

theorem cmdMotd_safe : ClientSafe cmdMotd 0 true := by
  intro c sid m s hp hs _ _ _ site
  unfold cmdMotd
  rw [getS_of_get hs]
  intro h; cases h

/-- `cmdMotd` cannot panic on a stored session (no other requirement) -/
theorem cmdMotd_ok {c : Ctx} {sid : Id} {s : Session} (m : IrcMsg) (hs : AMap.get c.st.sessions sid = some s) :
    ∃ c', cmdMotd c sid m = .ok c' := by
  unfold cmdMotd
  rw [getS_of_get hs]
  exact ⟨_, rfl⟩

/-! ## OPER -/

theorem cmdOper_pre : PreservesPre cmdOper := by
  intro c sid m c' hp hr
  unfold cmdOper at hr
  obtain ⟨s, hs, hr⟩ := Res.bind_eq_ok.1 hr
  obtain ⟨p0, hp0, hr⟩ := Res.bind_eq_ok.1 hr
  obtain ⟨p1, hp1, hr⟩ := Res.bind_eq_ok.1 hr
  split at hr
  · cases hr
    exact ⟨hp.congr_st rfl, by outstep⟩
  · obtain ⟨c1, h1, hr⟩ := Res.bind_eq_ok.1 hr
    obtain ⟨s1, hs1, hr⟩ := Res.bind_eq_ok.1 hr
    cases hr
    have hp1 : Pre c1 sid := hp.modS_inert h1 (fun _ => ⟨rfl, rfl, rfl, rfl⟩) (fun _ => rfl)
    have ho1 : OutStep c c1 := (OutStep.refl c).modS h1
    exact ⟨hp1.congr_st rfl, by outstep⟩

theorem cmdOper_preserves : Preserves cmdOper := cmdOper_pre.preserves

/-- `cmdOper` cannot panic on a stored session when two parameters are present -/
theorem cmdOper_ok {c : Ctx} {sid : Id} {s : Session} {m : IrcMsg} (hs : AMap.get c.st.sessions sid = some s)
    (hid : s.id = sid) (hn : 2 ≤ m.params.length) : ∃ c', cmdOper c sid m = .ok c' := by
  unfold cmdOper
  obtain ⟨p0, hp0⟩ := param_ok (m := m) (i := 0) (by omega)
  obtain ⟨p1, hp1⟩ := param_ok (m := m) (i := 1) (by omega)
  rw [getS_of_get hs, hp0, hp1]
  simp only [Res.ok_bind]
  split
  · exact ⟨_, rfl⟩
  · rw [modS_of_get _ hs]
    simp only [Res.ok_bind]
    subst hid
    simp only [getS, putS_sessions, AMap.get_set_same]
    exact ⟨_, rfl⟩

theorem cmdOper_safe : ClientSafe cmdOper 2 true := by
  intro c sid m s hp hs _ _ hn site h
  obtain ⟨c', hc'⟩ := cmdOper_ok hs (hp.inv.sessId sid s hs).1 hn
  rw [hc'] at h; cases h

theorem cmdOper_stored {c c' : Ctx} {sid : Id} {m : IrcMsg} (h : Stored c sid) (hr : cmdOper c sid m = .ok c') :
    Stored c' sid := by
  unfold cmdOper at hr
  obtain ⟨s, hs, hr⟩ := Res.bind_eq_ok.1 hr
  obtain ⟨p0, hp0, hr⟩ := Res.bind_eq_ok.1 hr
  obtain ⟨p1, hp1, hr⟩ := Res.bind_eq_ok.1 hr
  split at hr
  · cases hr; exact h.congr_st rfl
  · obtain ⟨c1, h1, hr⟩ := Res.bind_eq_ok.1 hr
    obtain ⟨s1, hs1, hr⟩ := Res.bind_eq_ok.1 hr
    cases hr
    exact (h.modS h1 (fun _ => rfl)).congr_st rfl

/-! ## `maybeLogin` -/

/-- the welcome burst of `maybeLogin` (output only) -/
def loginBanner (c : Ctx) (sid : Id) (s : Session) : Ctx :=
  let sn := c.st.serverName
  let c := sendUser c sid (srv c "001" [s.nick, "Welcome to RobustIRC!"])
  let c := sendUser c sid (srv c "002" [s.nick, "Your host is " ++ sn])
  let c := sendUser c sid (srv c "003" [s.nick, "This server was created <ServerCreation>"])
  let c := sendUser c sid (srv c "004" [s.nick, sn ++ " v1 i nstix"])
  let c := sendUser c sid (srv c "005" ["CHANTYPES=#", "CHANNELLEN=32", "NICKLEN=30", "MODES=1", "PREFIX=(o)@", "KNOCK", "are supported by this server"])
  let c := emit c ⟨none, "NICK", [s.nick, "1", "1", s.username, s.ircPrefix.host, sn, s.svid, "+", s.realname]⟩ (rcServices c.st)
  let pass := extractPassword s.pass "nickserv"
  if pass != "" then
    emit c ⟨some s.ircPrefix, "PRIVMSG", ["NickServ", "IDENTIFY " ++ pass]⟩ (rcServices c.st)
  else c

/-- the automatic `OPER` of `maybeLogin` -/
def loginOper (c : Ctx) (sid : Id) (s : Session) : Res Ctx :=
  let opass := extractPassword s.pass "oper"
  if opass != "" then
    match parseMessage ("OPER " ++ opass) with
    | none => Res.panic "parsed is nil"
    | some parsed => if parsed.params.length > 1 then cmdOper c sid parsed else pure c
  else pure c

theorem maybeLogin_eq (c : Ctx) (sid : Id) (m : IrcMsg) :
    maybeLogin c sid m = (do
      let s ← getS c sid
      if s.loggedIn then return c
      if s.nick == "" || s.username == "" then return c
      if c.st.config.captchaRequiredForLogin then
        .declined "captcha login"
      else
        let c ← modS c sid fun s => { s with loggedIn := true }
        let c ← loginOper (loginBanner c sid s) sid s
        let c ← modS c sid fun s => { s with pass := "" }
        cmdMotd c sid m) := by
  unfold maybeLogin loginOper loginBanner
  refine bind_congr fun s => ?_
  refine ite_congr rfl (fun _ => rfl) (fun _ => ?_)
  refine ite_congr rfl (fun _ => rfl) (fun _ => ?_)
  refine ite_congr rfl (fun _ => rfl) (fun _ => ?_)
  refine bind_congr fun c1 => ?_
  dsimp only
  generalize parseMessage _ = pm
  cases pm <;> with_reducible rfl

theorem loginBanner_st (c : Ctx) (sid : Id) (s : Session) : (loginBanner c sid s).st = c.st := by
  unfold loginBanner
  dsimp only
  split <;> rfl

theorem loginBanner_out (c : Ctx) (sid : Id) (s : Session) : OutStep c (loginBanner c sid s) := by
  unfold loginBanner
  dsimp only
  outstep

theorem loginOper_pre {c c' : Ctx} {sid : Id} {s : Session} (hp : Pre c sid) (hr : loginOper c sid s = .ok c') :
    Pre c' sid ∧ OutStep c c' := by
  unfold loginOper at hr
  dsimp only at hr
  split at hr
  · split at hr
    · cases hr
    · split at hr
      · exact cmdOper_pre _ _ _ _ hp hr
      · cases hr; exact ⟨hp, OutStep.refl _⟩
  · cases hr; exact ⟨hp, OutStep.refl _⟩

/-- `maybeLogin` re-establishes `Pre` -/
theorem maybeLogin_pre : PreservesPre maybeLogin := by
  intro c sid m c' hp hr
  rw [maybeLogin_eq] at hr
  obtain ⟨s, hs, hr⟩ := Res.bind_eq_ok.1 hr
  rw [getS_eq_ok] at hs
  split at hr
  · cases hr; exact ⟨hp, OutStep.refl _⟩
  · split at hr
    · cases hr; exact ⟨hp, OutStep.refl _⟩
    · rename_i hnn
      split at hr
      · cases hr
      · obtain ⟨c1, h1, hr⟩ := Res.bind_eq_ok.1 hr
        obtain ⟨c2, h2, hr⟩ := Res.bind_eq_ok.1 hr
        obtain ⟨c3, h3, hr⟩ := Res.bind_eq_ok.1 hr
        have hnick : s.nick ≠ "" := by
          intro he; apply hnn; simp [he]
        have hp1 : Pre c1 sid := hp.modS_inert' h1 (fun _ => ⟨rfl, rfl, rfl, rfl⟩)
          (fun s' hs' _ => by rw [hs] at hs'; cases hs'; exact hnick)
        have ho1 : OutStep c c1 := (OutStep.refl c).modS h1
        obtain ⟨hp2, ho2⟩ := loginOper_pre (hp1.congr_st (loginBanner_st c1 sid s)) h2
        have hp3 : Pre c3 sid := hp2.modS_inert h3 (fun _ => ⟨rfl, rfl, rfl, rfl⟩) (fun _ => rfl)
        have ho3 : OutStep c c3 := (((ho1.trans (loginBanner_out c1 sid s)).trans ho2)).modS h3
        obtain ⟨hp4, ho4⟩ := cmdMotd_pre _ _ _ _ hp3 hr
        exact ⟨hp4, ho3.trans ho4⟩

theorem maybeLogin_preserves : Preserves maybeLogin := maybeLogin_pre.preserves

theorem trimRight_cons {p : Char → Bool} {a : Char} (l : List Char) (ha : p a = false) :
    ((a :: l).reverse.dropWhile p).reverse = a :: (l.reverse.dropWhile p).reverse := by
  rw [List.reverse_cons, List.dropWhile_append]
  have h1 : List.dropWhile p [a] = [a] := by simp [List.dropWhile, ha]
  split
  · rename_i h
    rw [List.isEmpty_iff] at h
    rw [h, h1]; rfl
  · simp

/-- the line `maybeLogin` builds for the automatic `OPER` always parses -/
theorem parseMessage_oper (x : String) : ∃ pm, parseMessage ("OPER " ++ x) = some pm := by
  unfold parseMessage
  have e : ("OPER " ++ x).toList = 'O' :: 'P' :: 'E' :: 'R' :: ' ' :: x.toList := by
    rw [String.toList_append]; rfl
  rw [e]
  have d : List.dropWhile isCutset ('O' :: 'P' :: 'E' :: 'R' :: ' ' :: x.toList) = 'O' :: 'P' :: 'E' :: 'R' :: ' ' :: x.toList := by
    rw [List.dropWhile_cons_of_neg (by decide)]
  rw [d]
  rw [trimRight_cons _ (by decide), trimRight_cons _ (by decide)]
  generalize ((('E' :: 'R' :: ' ' :: x.toList).reverse.dropWhile isCutset).reverse) = rest
  dsimp only
  have hsz : ¬ (String.ofList ('O' :: 'P' :: rest)).utf8ByteSize < 2 := by
    have : String.ofList ('O' :: 'P' :: rest) = String.ofList ['O', 'P'] ++ String.ofList rest := by
      rw [← String.ofList_append]; rfl
    rw [this, String.utf8ByteSize_append]
    have : (String.ofList ['O', 'P']).utf8ByteSize = 2 := by decide
    omega
  rw [if_neg hsz]
  exact ⟨_, rfl⟩

theorem loginOper_noPanic {c : Ctx} {sid : Id} {s t : Session} (ht : AMap.get c.st.sessions sid = some t)
    (hid : t.id = sid) : NoPanic (loginOper c sid s) := by
  unfold loginOper
  dsimp only
  split
  · obtain ⟨pm, hpm⟩ := parseMessage_oper (extractPassword s.pass "oper")
    rw [hpm]
    dsimp only
    split
    · exact NoPanic.of_ok (cmdOper_ok ht hid (by omega))
    · exact NoPanic.pure _
  · exact NoPanic.pure _

theorem loginOper_stored {c c' : Ctx} {sid : Id} {s : Session} (h : Stored c sid) (hr : loginOper c sid s = .ok c') :
    Stored c' sid := by
  unfold loginOper at hr
  dsimp only at hr
  split at hr
  · split at hr
    · cases hr
    · split at hr
      · exact cmdOper_stored h hr
      · cases hr; exact h
  · cases hr; exact h

/-- `maybeLogin` never panics when the session is stored under its id (no invariant needed) -/
theorem maybeLogin_noPanic' {c : Ctx} {sid : Id} (m : IrcMsg) (h : Stored c sid) : NoPanic (maybeLogin c sid m) := by
  obtain ⟨s, hs, hid⟩ := h
  rw [maybeLogin_eq, getS_of_get hs]
  simp only [Res.ok_bind]
  split
  · exact NoPanic.pure _
  · split
    · exact NoPanic.pure _
    · split
      · exact NoPanic.declined _
      · have h1 := modS_of_get (c := c) (fun s => { s with loggedIn := true }) hs
        rw [h1]
        simp only [Res.ok_bind]
        have hs1 : Stored (putS c { s with loggedIn := true }) sid :=
          Stored.modS ⟨s, hs, hid⟩ h1 (fun _ => rfl)
        have hsb : Stored (loginBanner (putS c { s with loggedIn := true }) sid s) sid :=
          hs1.congr_st (loginBanner_st _ sid s)
        obtain ⟨t, ht, htid⟩ := hsb
        refine NoPanic.bind (loginOper_noPanic ht htid) fun c2 h2 => ?_
        obtain ⟨t2, ht2, hid2⟩ := loginOper_stored ⟨t, ht, htid⟩ h2
        rw [modS_of_get _ ht2]
        simp only [Res.ok_bind]
        refine NoPanic.of_ok (cmdMotd_ok (s := { t2 with pass := "" }) m ?_)
        rw [putS_sessions]
        simp only [hid2]
        exact AMap.get_set_same _ _ _

/-- `maybeLogin` never panics -/
theorem maybeLogin_noPanic {c : Ctx} {sid : Id} (m : IrcMsg) (hp : Pre c sid) : NoPanic (maybeLogin c sid m) :=
  maybeLogin_noPanic' m hp.stored

/-! ## USER, PASS -/

theorem updateIrcPrefix_inert (s : Session) : (updateIrcPrefix s).id = s.id ∧ (updateIrcPrefix s).deleted = s.deleted ∧
    (updateIrcPrefix s).nick = s.nick ∧ (updateIrcPrefix s).channels = s.channels := ⟨rfl, rfl, rfl, rfl⟩

theorem cmdUser_pre : PreservesPre cmdUser := by
  intro c sid m c' hp hr
  unfold cmdUser at hr
  obtain ⟨u, hu, hr⟩ := Res.bind_eq_ok.1 hr
  obtain ⟨c1, h1, hr⟩ := Res.bind_eq_ok.1 hr
  have hp1 : Pre c1 sid := hp.modS_inert h1 (fun _ => ⟨rfl, rfl, rfl, rfl⟩) (fun _ => rfl)
  obtain ⟨hp2, ho2⟩ := maybeLogin_pre _ _ _ _ hp1 hr
  exact ⟨hp2, ((OutStep.refl c).modS h1).trans ho2⟩

theorem cmdUser_preserves : Preserves cmdUser := cmdUser_pre.preserves

theorem cmdUser_safe : ClientSafe cmdUser 3 false := by
  intro c sid m s hp hs _ _ hn
  unfold cmdUser
  obtain ⟨p0, hp0⟩ := param_ok (m := m) (i := 0) (by omega)
  have h1 := modS_of_get (c := c) (fun s => updateIrcPrefix { s with username := truncateUsername p0, realname := m.trailing }) hs
  rw [hp0]
  simp only [Res.ok_bind]
  rw [h1]
  simp only [Res.ok_bind]
  exact maybeLogin_noPanic m (hp.modS_inert h1 (fun _ => ⟨rfl, rfl, rfl, rfl⟩) (fun _ => rfl))

theorem cmdPass_pre : PreservesPre cmdPass := by
  intro c sid m c' hp hr
  unfold cmdPass at hr
  obtain ⟨c1, h1, hr⟩ := Res.bind_eq_ok.1 hr
  have hp1 : Pre c1 sid := hp.modS_inert h1 (fun _ => ⟨rfl, rfl, rfl, rfl⟩) (fun _ => rfl)
  obtain ⟨hp2, ho2⟩ := maybeLogin_pre _ _ _ _ hp1 hr
  exact ⟨hp2, ((OutStep.refl c).modS h1).trans ho2⟩

theorem cmdPass_preserves : Preserves cmdPass := cmdPass_pre.preserves

theorem cmdPass_safe : ClientSafe cmdPass 0 false := by
  intro c sid m s hp hs _ _ hn
  unfold cmdPass
  have h1 := modS_of_get (c := c) (fun s =>
    let pass := if m.params.length > 0 then joinStr " " m.params else s.pass
    let pass := if !hasPrefix pass "nickserv=" && !hasPrefix pass "services=" && !hasPrefix pass "network=" &&
        !hasPrefix pass "oper=" && !hasPrefix pass "session=" && !hasPrefix pass "captcha=" then "nickserv=" ++ pass else pass
    { s with pass := pass }) hs
  rw [h1]
  simp only [Res.ok_bind]
  exact maybeLogin_noPanic m (hp.modS_inert h1 (fun _ => ⟨rfl, rfl, rfl, rfl⟩) (fun _ => rfl))

end Robust.Irc
