import Robust.Irc.Proofs.PermH2
/-!
Order-independence, handlers 3: `cmdKnock`, `cmdPart`, `cmdQuit`, `cmdKill`, `cmdGline`, `cmdInvite`,
`cmdMode`, `cmdJoin`.
-/
set_option linter.unusedVariables false
namespace Robust.Irc
open Robust
attribute [local irreducible] IrcMsg.render emit sendUser sendSvc
theorem cmdKnock_congr : HCongr cmdKnock := by
  intro c c' sid m h
  unfold cmdKnock
  refine RRel.bind (getS_congr h sid) (fun s s' hs => ?_)
  refine RRel.bind_same (fun channelname => ?_)
  simp only [hs.nick, hs.ircPrefix]
  rcases getChan_cases h (chanToLower channelname) with ⟨h1, h2⟩ | ⟨ch, ch', h1, h2, hch, hk⟩
  · simp only [h1, h2]; ceqs
  · simp only [h1, h2, hch.modes, hch.name]
    split
    · ceqs
    · refine RRel.bind (rcChannel_congr h.st hch) (fun rc rc' hrc => ?_)
      ceqs

theorem partOne_congr {c c' : Ctx} (h : CEq c c') (sid : Id) (chn : String) :
    RRel CEq (partOne c sid chn) (partOne c' sid chn) := by
  unfold partOne
  refine RRel.bind (getS_congr h sid) (fun s s' hs => ?_)
  simp only [hs.nick, hs.ircPrefix]
  rcases getChan_cases h (chanToLower chn) with ⟨h1, h2⟩ | ⟨ch, ch', h1, h2, hch, hk⟩
  · simp only [h1, h2]; ceqs
  · simp only [h1, h2, hch.contains_nicks]
    split
    · ceqs
    · refine RRel.bind (rcChannel_congr h.st hch) (fun rc rc' hrc => ?_)
      exact leaveChannel_congr (emit_congr h rfl (hrc.append (rcServices_perm h.st))) _ _ _

theorem cmdPart_congr : HCongr cmdPart := by
  intro c c' sid m h
  unfold cmdPart
  refine RRel.bind_same (fun p0 => ?_)
  exact foldlM_rrel_same _ (fun c c' a _ hc => partOne_congr hc sid a) h

theorem cmdQuit_congr : HCongr cmdQuit := by
  intro c c' sid m h
  unfold cmdQuit
  refine RRel.bind (deleteSession_congr h sid) (fun c1 c1' h1 => ?_)
  refine RRel.bind (getS_congr h1 sid) (fun s s' hs => ?_)
  simp only [hs.nick, hs.ircPrefix, hs.loggedIn]
  split
  · refine RRel.bind (rcCommonChannels_congr h1.st hs) (fun rc rc' hrc => ?_)
    ceqs
  · ceqs

theorem cmdKill_congr : HCongr cmdKill := by
  intro c c' sid m h
  unfold cmdKill
  refine RRel.bind (getS_congr h sid) (fun s s' hs => ?_)
  simp only [hs.nick, hs.operator, h.st.get_nicks]
  split
  · ceqs
  refine RRel.bind_same (fun p0 => ?_)
  split
  · ceqs
  · rename_i tid _
    refine RRel.bind (deleteSession_congr h tid) (fun c1 c1' h1 => ?_)
    refine RRel.bind (getS_congr h1 tid) (fun t t' ht => ?_)
    refine RRel.bind (getS_congr h1 sid) (fun s1 s1' hs1 => ?_)
    refine RRel.bind (rcCommonChannels_congr h1.st ht) (fun rc rc' hrc => ?_)
    simp only [hs1.nick, hs1.ircPrefix, ht.nick, ht.ircPrefix]
    ceqs

theorem cmdGline_congr : HCongr cmdGline := by
  intro c c' sid m h
  unfold cmdGline
  refine RRel.bind (getS_congr h sid) (fun s s' hs => ?_)
  simp only [hs.nick, hs.operator, h.st.get_nicks]
  split
  · ceqs
  refine RRel.bind_same (fun p0 => ?_)
  split
  · ceqs
  · rename_i tid _
    refine RRel.bind (getS_congr h tid) (fun t t' ht => ?_)
    simp only [ht.nick, ht.remoteAddr, h.config]
    split
    · ceqs
    · exact cmdKill_congr _ _ _ _ (h.withSt (h.st.withConfig _))

theorem cmdInvite_congr : HCongr cmdInvite := by
  intro c c' sid m h
  unfold cmdInvite
  refine RRel.bind (getS_congr h sid) (fun s s' hs => ?_)
  refine RRel.bind_same (fun nickname => ?_)
  refine RRel.bind_same (fun channelname => ?_)
  simp -zeta only [hs.nick, hs.ircPrefix, h.st.get_nicks]
  extract_lets lc
  rcases getChan_cases h lc with ⟨h1, h2⟩ | ⟨ch, ch', h1, h2, hch, hk⟩
  · simp only [h1, h2]; ceqs
  · simp -zeta only [h1, h2, hch.get_nicks, hch.contains_nicks, hch.modes, hch.name]
    split
    · ceqs
    split
    · ceqs
    rename_i tid _
    refine RRel.bind (getS_congr h tid) (fun t t' ht => ?_)
    simp -zeta only [ht.nick, ht.awayMsg]
    split
    · ceqs
    split
    · ceqs
    refine RRel.bind (modS_congr h tid (fun s s' hs => hs.withInvitedTo (setInsert_perm hs.invitedTo _))) (fun c1 c1' hc1 => ?_)
    extract_lets c2 c3 c2' c3'
    ceq_let hc2 c2 c2'
    ceq_let hc3 c3 c3'
    refine RRel.bind (rcChannel_congr hc3.st hch) (fun rc rc' hrc => ?_)
    extract_lets c4 c4'
    ceq_let hc4 c4 c4'
    split <;> ceqs

/-! ### MODE -/

theorem resolveSessionToRemoteAddr_congr {st st' : St} (h : StEq st st') (p : String) :
    resolveSessionToRemoteAddr st' p = resolveSessionToRemoteAddr st p := by
  unfold resolveSessionToRemoteAddr
  split
  · rfl
  · dsimp only
    split
    · rfl
    · split
      · rfl
      · rename_i id _
        split
        · rfl
        · rcases (h.sessions.rel ⟨id, 0⟩).cases' with ⟨h1, h2⟩ | ⟨s, s', h1, h2, hs⟩
          · rw [h1, h2]
          · rw [h1, h2]; dsimp only; rw [hs.remoteAddr]

theorem banOne_congr {ch ch' : Channel} (h : ChanEq ch ch') (add : Bool) (bm p : String) :
    RRel (fun a b => ChanEq a b ∧ a.name = ch.name) (banOne ch add bm p) (banOne ch' add bm p) := by
  unfold banOne
  split
  · exact .declined
  · split
    · exact .ok ⟨by chaneq h; rw [h.bans], rfl⟩
    · exact .ok ⟨by chaneq h; rw [h.bans], rfl⟩

theorem banBoth_congr {ch ch' : Channel} (h : ChanEq ch ch') (add : Bool) (bm p pa : String) :
    RRel (fun a b => ChanEq a b ∧ a.name = ch.name) (banBoth ch add bm p pa) (banBoth ch' add bm p pa) := by
  unfold banBoth
  refine RRel.bind (banOne_congr h add bm p) (fun ch1 ch1' h1 => ?_)
  split
  · exact (banOne_congr h1.1 add bm pa).mono (fun a b hab => ⟨hab.1, hab.2.trans h1.2⟩)
  · exact .ok h1

theorem mrel_ok {a a' : Ctx} {b : Bool × Bool} (h : CEq a a') :
    RRel (fun (r r' : Ctx × Bool × Bool) => CEq r.1 r'.1 ∧ r.2 = r'.2) (pure (a, b)) (pure (a', b)) := .ok ⟨h, rfl⟩

theorem applyChanMode_congr {c c' : Ctx} (h : CEq c c') (sid : Id) {s s' : Session} (hs : SessEq s s')
    (lc chn : String) (op : Bool) (mc : ModeCmd) (q : Bool) :
    RRel (fun r r' => CEq r.1 r'.1 ∧ r.2 = r'.2) (applyChanMode c sid s lc chn op mc q) (applyChanMode c' sid s' lc chn op mc q) := by
  unfold applyChanMode
  rw [hs.nick, h.config]
  rcases getChan_cases h lc with ⟨h1, h2⟩ | ⟨ch, ch', h1, h2, hch, hk⟩
  · rw [h1, h2]; exact .panic
  · rw [h1, h2]
    dsimp -zeta only
    rw [hch.modes, hch.key, hch.bans]
    extract_lets b nv chA cA cB cC nick pattern patterns cD chA' cA' cB' cC' cD'
    rw [hch.get_nicks]
    have hchA : ChanEq chA chA' := by chaneq hch
    have hcA : CEq cA cA' := putChan_congr h lc hchA hk
    have hcB : CEq cB cB' := by ceqs
    have hcC : CEq cC cC' := by ceqs
    have hcD : CEq cD cD' := foldl_rel_same _ (fun c c' a _ hc => by ceqs) h
    clear_value cB cB' cC cC' cD cD'
    refine RRel.ite Iff.rfl (fun _ _ => ?_) (fun _ _ => ?_)
    · refine RRel.ite Iff.rfl (fun _ _ => ?_) (fun _ _ => ?_)
      · refine mrel_ok ?_; ceqs
      refine RRel.ite Iff.rfl (fun _ _ => ?_) (fun _ _ => ?_)
      · exact mrel_ok (putChan_congr h lc (by chaneq hch) hk)
      refine RRel.ite Iff.rfl (fun _ _ => ?_) (fun _ _ => ?_)
      · refine RRel.ite Iff.rfl (fun _ _ => ?_) (fun _ _ => ?_)
        · refine RRel.ite Iff.rfl (fun _ _ => ?_) (fun _ _ => ?_)
          · exact mrel_ok h
          · rcases getChan_cases hcB lc with ⟨h3, h4⟩ | ⟨ch2, ch2', h3, h4, hch2, hk2⟩
            · rw [h3, h4]; exact .panic
            · rw [h3, h4]
              exact mrel_ok (putChan_congr hcB lc (by chaneq hch2 <;> rw [hch2.modes]) hk2)
        · exact mrel_ok (putChan_congr hcC lc (by chaneq hch) hk)
      refine RRel.ite Iff.rfl (fun _ _ => ?_) (fun _ _ => ?_)
      · refine RRel.ite Iff.rfl (fun _ _ => ?_) (fun _ _ => ?_)
        · exact mrel_ok (putChan_congr h lc (by chaneq hch) hk)
        · refine mrel_ok ?_; ceqs
      refine RRel.ite Iff.rfl (fun _ _ => ?_) (fun _ _ => ?_)
      · split
        · refine mrel_ok ?_; ceqs
        · refine RRel.ite Iff.rfl (fun _ _ => ?_) (fun _ _ => ?_)
          · exact mrel_ok (putChan_congr h lc (by chaneq hch; exact hch.nicks.set _ rfl) hk)
          · exact mrel_ok h
      refine RRel.ite Iff.rfl (fun _ _ => ?_) (fun _ _ => ?_)
      · rw [resolveSessionToRemoteAddr_congr h.st]
        refine RRel.bind_same (fun pa => ?_)
        refine RRel.bind (banBoth_congr hch _ _ _ _) (fun ch1 ch1' hch1 => ?_)
        exact mrel_ok (putChan_congr h lc hch1.1 (by rw [hch1.2]; exact hk))
      · refine mrel_ok ?_; ceqs
    · refine mrel_ok ?_; ceqs

theorem applyChanModes_congr (sid : Id) {s s' : Session} (hs : SessEq s s')
    (lc chn : String) (op : Bool) (l : List ModeCmd) :
    ∀ {c c' : Ctx} (h : CEq c c') (q : Bool),
    RRel (fun r r' => CEq r.1 r'.1 ∧ r.2 = r'.2) (applyChanModes c sid s lc chn op l q) (applyChanModes c' sid s' lc chn op l q) := by
  induction l with
  | nil => intro c c' h q; exact .ok ⟨h, rfl⟩
  | cons mc rest ih =>
    intro c c' h q
    unfold applyChanModes
    refine RRel.bind (applyChanMode_congr h sid hs lc chn op mc q) (fun r r' hr => ?_)
    obtain ⟨c1, q1, ret⟩ := r
    obtain ⟨c1', q1', ret'⟩ := r'
    obtain ⟨hc1, he⟩ := hr
    cases he
    dsimp only
    refine RRel.ite Iff.rfl (fun _ _ => ?_) (fun _ _ => ?_)
    · exact .ok ⟨hc1, rfl⟩
    · exact ih hc1 q1

theorem cmdMode_congr : HCongr cmdMode := by
  intro c c' sid m h
  unfold cmdMode
  refine RRel.bind (getS_congr h sid) (fun s s' hs => ?_)
  refine RRel.bind_same (fun chn => ?_)
  dsimp -zeta only
  rw [hs.nick, hs.operator, hs.ircPrefix]
  extract_lets lc nick modes jp jp'
  rw [hs.chanContains]
  have hjp : RRel CEq (jp ()) (jp' ()) := by
    dsimp only [jp, jp']
    rw [h.st.get_nicks]
    split
    · rename_i tid _
      refine RRel.bind (getS_congr h tid) (fun t t' ht => ?_)
      rw [ht.nick, ht.modes]
      refine RRel.ite Iff.rfl (fun _ _ => ?_) (fun _ _ => ?_)
      · ceqs
      refine RRel.ite Iff.rfl (fun _ _ => ?_) (fun _ _ => ?_)
      · ceqs
      · refine RRel.bind (modS_congr_upd h tid _ (fun _ => rfl) (fun _ => rfl) (fun _ => rfl)) (fun c1 c1' h1 => ?_)
        ceqs
    · ceqs
  clear_value jp jp'
  refine RRel.ite Iff.rfl (fun _ _ => ?_) (fun _ _ => hjp)
  rcases getChan_cases h lc with ⟨h1, h2⟩ | ⟨ch, ch', h1, h2, hch, hk⟩
  · rw [h1, h2]; exact .panic
  · rw [h1, h2]
    dsimp -zeta only
    rw [hch.modes, hch.get_nicks]
    refine RRel.ite Iff.rfl (fun _ _ => ?_) (fun _ _ => ?_)
    · ceqs
    split
    · rename_i mem _
      dsimp only
      refine RRel.bind (applyChanModes_congr sid hs lc chn _ modes h true) (fun r r' hr => ?_)
      obtain ⟨c1, q1, ret⟩ := r
      obtain ⟨c1', q1', ret'⟩ := r'
      obtain ⟨hc1, he⟩ := hr
      cases he
      dsimp only
      rw [hc1.replyid]
      refine RRel.ite Iff.rfl (fun _ _ => ?_) (fun _ _ => ?_)
      · exact .ok hc1
      refine RRel.ite Iff.rfl (fun _ _ => ?_) (fun _ _ => ?_)
      · exact .ok hc1
      refine RRel.ite Iff.rfl (fun _ _ => ?_) (fun _ _ => ?_)
      · exact .ok hc1
      rcases getChan_cases hc1 lc with ⟨h3, h4⟩ | ⟨ch2, ch2', h3, h4, hch2, hk2⟩
      · rw [h3, h4]; exact .panic
      · rw [h3, h4]
        dsimp only
        refine RRel.bind (rcChannel_congr hc1.st hch2) (fun rc rc' hrc => ?_)
        ceqs
    · exact .panic

/-! ### JOIN -/

theorem mrel3_ok {α : Type} {a a' : Ctx} {b : α} (h : CEq a a') :
    RRel (fun (r r' : Ctx × α) => CEq r.1 r'.1 ∧ r.2 = r'.2) (Res.ok (a, b)) (Res.ok (a', b)) := .ok ⟨h, rfl⟩

theorem joinAdmit_congr {c c' : Ctx} (h : CEq c c') (sid : Id) {s s' : Session} (hs : SessEq s s') (chn key : String) :
    RRel (fun r r' => CEq r.1 r'.1 ∧ r.2 = r'.2) (joinAdmit c sid s chn key) (joinAdmit c' sid s' chn key) := by
  unfold joinAdmit
  rw [hs.nick, hs.ircPrefix, hs.username, hs.remoteAddr, h.config, h.st.channels.length_eq, srv_congr h "MODE"]
  extract_lets lc
  rw [hs.invContains]
  refine RRel.bind (R := fun (r r' : Ctx × Option IrcMsg × Bool) => CEq r.1 r'.1 ∧ r.2 = r'.2) ?_ (fun r r' hr => ?_)
  · rcases getChan_cases h lc with ⟨h1, h2⟩ | ⟨ch, ch', h1, h2, hch, hk⟩
    · rw [h1, h2]
      dsimp -zeta only
      refine RRel.ite Iff.rfl (fun _ _ => ?_) (fun _ _ => ?_)
      · refine mrel3_ok ?_; ceqs
      · refine mrel3_ok (putChan_congr h lc (ChanEq.refl_of List.nodup_nil) rfl)
    · rw [h1, h2]
      dsimp -zeta only
      rw [hch.modes, hch.name, hch.bans, hch.key]
      refine RRel.ite Iff.rfl (fun _ _ => ?_) (fun _ _ => ?_)
      · refine mrel3_ok ?_; ceqs
      refine RRel.ite Iff.rfl (fun _ _ => ?_) (fun _ _ => ?_)
      · exact .declined
      refine RRel.bind_same (fun isB => ?_)
      refine RRel.ite Iff.rfl (fun _ _ => ?_) (fun _ _ => ?_)
      · refine mrel3_ok ?_; ceqs
      refine RRel.ite Iff.rfl (fun _ _ => ?_) (fun _ _ => ?_)
      · refine mrel3_ok ?_; ceqs
      · exact mrel3_ok h
  · obtain ⟨c1, x⟩ := r
    obtain ⟨c1', x'⟩ := r'
    obtain ⟨hc1, he⟩ := hr
    cases he
    dsimp only
    refine RRel.ite Iff.rfl (fun _ _ => ?_) (fun _ _ => ?_)
    · exact mrel3_ok hc1
    · exact mrel3_ok hc1

theorem joinAnnounce_congr {c c' : Ctx} (h : CEq c c') (sid : Id) (chn : String) {ch ch' : Channel} (hch : ChanEq ch ch')
    (existed : Bool) (mm : Option IrcMsg) :
    RRel CEq (joinAnnounce c sid chn ch existed mm) (joinAnnounce c' sid chn ch' existed mm) := by
  unfold joinAnnounce
  refine RRel.bind (getS_congr h sid) (fun s s' hs => ?_)
  refine RRel.bind (rcChannel_congr h.st hch) (fun rc rc' hrc => ?_)
  rw [hs.nick, hs.ircPrefix]
  extract_lets c1 c1'
  ceq_let h1 c1 c1'
  refine RRel.bind (?_ : RRel CEq _ _) (fun c2 c2' h2 => ?_)
  · cases mm with
    | none => exact .ok h1
    | some mm =>
      dsimp only
      refine RRel.bind (rcChannel_congr h1.st hch) (fun rc2 rc2' hrc2 => ?_)
      ceqs
  · extract_lets c3 c3'
    ceq_let h3 c3 c3'
    refine RRel.bind (cmdMode_congr _ _ _ _ h3) (fun c4 c4' h4 => ?_)
    refine RRel.bind (cmdTopic_congr _ _ _ _ h4) (fun c5 c5' h5 => ?_)
    exact cmdNames_congr _ _ _ _ h5

theorem joinTail_congr {c c' : Ctx} (h : CEq c c') (sid : Id) {s s' : Session} (hs : SessEq s s') (chn : String)
    (existed : Bool) (mm : Option IrcMsg) :
    RRel CEq (joinTail c sid s chn existed mm) (joinTail c' sid s' chn existed mm) := by
  unfold joinTail
  rw [hs.nick]
  extract_lets lc lcn
  rcases getChan_cases h lc with ⟨h1, h2⟩ | ⟨ch, ch', h1, h2, hch, hk⟩
  · rw [h1, h2]; exact .panic
  · rw [h1, h2]
    dsimp -zeta only
    rw [hch.modes, hch.contains_nicks]
    refine RRel.bind (?_ : RRel CEq _ _) (fun c1 c1' hc1 => ?_)
    · refine RRel.ite Iff.rfl (fun _ _ => ?_) (fun _ _ => ?_)
      · exact modS_congr h sid (fun s s' hs => hs.withInvitedTo (hs.invitedTo.filter _))
      · exact .ok h
    · refine RRel.ite Iff.rfl (fun _ _ => ?_) (fun _ _ => ?_)
      · exact .ok hc1
      extract_lets chA cA chA' cA'
      have hchA : ChanEq chA chA' := by chaneq hch; exact hch.nicks.set lcn rfl
      have hcA : CEq cA cA' := putChan_congr hc1 lc hchA hk
      clear_value cA cA'
      refine RRel.bind (modS_congr hcA sid (fun s s' hs => hs.withChannels (setInsert_perm hs.channels _))) (fun c2 c2' hc2 => ?_)
      exact joinAnnounce_congr hc2 sid chn hchA existed mm

theorem joinOne_congr {c c' : Ctx} (h : CEq c c') (sid : Id) (chn key : String) :
    RRel CEq (joinOne c sid chn key) (joinOne c' sid chn key) := by
  rw [joinOne_eq, joinOne_eq]
  refine RRel.bind (getS_congr h sid) (fun s s' hs => ?_)
  rw [hs.nick, (getChan_congr h (chanToLower chn)).isSome_eq]
  refine RRel.ite Iff.rfl (fun _ _ => ?_) (fun _ _ => ?_)
  · ceqs
  refine RRel.bind (joinAdmit_congr h sid hs chn key) (fun r r' hr => ?_)
  obtain ⟨c1, x⟩ := r
  obtain ⟨c1', x'⟩ := r'
  obtain ⟨hc1, he⟩ := hr
  cases he
  dsimp only
  cases x with
  | none => exact .ok hc1
  | some mm => exact joinTail_congr hc1 sid hs chn _ mm

theorem joinLoop_congr (sid : Id) (keys : List String) (l : List String) :
    ∀ {c c' : Ctx} (h : CEq c c') (idx : Nat), RRel CEq (joinLoop c sid keys l idx) (joinLoop c' sid keys l idx) := by
  induction l with
  | nil => intro c c' h idx; exact .ok h
  | cons a rest ih =>
    intro c c' h idx
    unfold joinLoop
    exact RRel.bind (joinOne_congr h sid a _) (fun c1 c1' h1 => ih h1 _)

theorem cmdJoin_congr : HCongr cmdJoin := by
  intro c c' sid m h
  unfold cmdJoin
  refine RRel.bind_same (fun p0 => ?_)
  exact joinLoop_congr sid _ _ h 0

end Robust.Irc
