import Robust.Irc.Proofs.PermH1
/-!
Order-independence, handlers 2: `cmdNames` (collect + sort), `cmdKick`, `cmdTopic`.
-/
set_option linter.unusedVariables false
namespace Robust.Irc
open Robust
attribute [local irreducible] IrcMsg.render emit sendUser sendSvc

theorem cmdNames_congr : HCongr cmdNames := by
  intro c c' sid m h
  unfold cmdNames
  refine RRel.bind (getS_congr h sid) (fun s s' hs => ?_)
  simp only [hs.nick, hs.chanContains, h.st.get_nicks]
  split
  · ceqs
  · rename_i channelname _
    rcases getChan_cases h (chanToLower channelname) with ⟨h1, h2⟩ | ⟨ch, ch', h1, h2, hch, hk⟩
    · simp only [h1, h2]; ceqs
    · simp only [h1, h2]
      -- the member map is iterated in map order; the collected names are sorted
      refine RRel.bind (R := PermR (fun a b => a = b)) ?_ (fun es es' hes => ?_)
      · refine mapRes_perm_rel hch.nicks_perm (fun e _ => ?_) (fun e _ w => ?_)
        · split
          · exact .panic
          · rename_i mid _
            rcases (getSess_congr h mid).cases' with ⟨h3, h4⟩ | ⟨ms, ms', h3, h4, hms⟩
            · simp only [h3, h4]; exact .panic
            · simp only [h3, h4, hms.modes, hms.nick]
              exact RRel.refl_eq _
        · split
          · intro h; cases h
          · split
            · intro h; cases h
            · split <;> intro h <;> cases h
      · rw [sortStr_eq_of_perm (hes.perm.filterMap id)]
        ceqs

theorem cmdKick_congr : HCongr cmdKick := by
  intro c c' sid m h
  unfold cmdKick
  refine RRel.bind (getS_congr h sid) (fun s s' hs => ?_)
  refine RRel.bind_same (fun channelname => ?_)
  refine RRel.bind_same (fun target => ?_)
  simp only [hs.nick, hs.ircPrefix, h.st.get_nicks]
  rcases getChan_cases h (chanToLower channelname) with ⟨h1, h2⟩ | ⟨ch, ch', h1, h2, hch, hk⟩
  · simp only [h1, h2]
    ceqs
  · simp only [h1, h2, hch.get_nicks, hch.contains_nicks]
    split
    · ceqs
    · split
      · ceqs
      · split
        · ceqs
        · split
          · refine RRel.bind (rcChannel_congr h.st hch) (fun rc rc' hrc => ?_)
            exact leaveChannel_congr (emit_congr h rfl (hrc.append (rcServices_perm h.st))) _ _ _
          · exact .panic

theorem cmdTopic_congr : HCongr cmdTopic := by
  intro c c' sid m h
  unfold cmdTopic
  refine RRel.bind (getS_congr h sid) (fun s s' hs => ?_)
  refine RRel.bind_same (fun channel => ?_)
  simp -zeta only [hs.nick, hs.ircPrefix, hs.chanContains, hs.lastActivity]
  extract_lets lc
  rcases getChan_cases h lc with ⟨h1, h2⟩ | ⟨ch, ch', h1, h2, hch, hk⟩
  · simp -zeta only [h1, h2]; ceqs
  · simp -zeta only [h1, h2, hch.get_nicks, hch.modes, hch.topicTime, hch.topic, hch.topicNick]
    extract_lets isOp chA cA jpA cB chB cC jpB chA' cA' jpA' cB' chB' cC' jpB'
    have hchA : ChanEq chA chA' := by chaneq hch
    have hcA : CEq cA cA' := putChan_congr h lc hchA hk
    have hjpA : RRel CEq (jpA ()) (jpA' ()) := by
      refine RRel.bind (rcChannel_congr hcA.st hchA) (fun rc rc' hrc => ?_)
      extract_lets c2 c2'
      ceq_let h2 c2 c2'
      ceq
    have hchB : ChanEq chB chB' := by chaneq hch
    have hcC : CEq cC cC' := putChan_congr h lc hchB hk
    have hjpB : RRel CEq (jpB ()) (jpB' ()) := by
      refine RRel.bind (rcChannel_congr hcC.st hchB) (fun rc rc' hrc => ?_)
      extract_lets c2 c2'
      ceq_let h2 c2 c2'
      ceq
    have hcB : CEq cB cB' := by ceqs
    clear_value jpA jpA' jpB jpB' cB cB'
    repeat' split
    all_goals first
      | ceqs
      | assumption
      | (refine RRel.bind_same (fun op => ?_); split <;> first | ceqs | assumption)
end Robust.Irc
