import Robust.Irc.Proofs.FrmEntry
import Robust.Irc.Proofs.Priv
/-!
Origin of the two session privilege flags `Session.operator` (IRC operator) and `Session.server`
(services link), for C13.

`Flg O S st0 st` is a *predicate on the current state* `st` relative to a fixed base state `st0`
(the shape of `Frm`, `FrmBase.lean`, so that the handler walks are those of `FrmClient.lean` /
`FrmSrv.lean`):

* every session stored in `st` with `operator = true` was stored under the same id with
  `operator = true` in `st0`, or its id is *permitted* to gain the flag (`O id`);
* the same for `server` and `S id`;
* the credential lists of the configuration (`operators`, `services`) are those of `st0`
  (GLINE changes `banned` only, so no handler is an exception here).

The permissions `O`, `S` are parameters: an ordinary handler keeps `Flg O S` for arbitrary `O`, `S`
(it sets no flag at all); `cmdOper` needs `O sid` *only if* the `(name, password)` pair of the
message is listed, `cmdServer` needs `S sid` *only if* the stored PASS is a configured services
password.  Instantiating `O`/`S` with the origin statement gives the theorems of
`FlagOriginEntry.lean`.
-/
namespace Robust.Irc
open Robust AMap

/-! ## the origin conditions -/

/-- the first two parameters of the message are a `(name, password)` pair of `Config.IRC.Operators` -/
def operCreds (cfg : Config) (m : IrcMsg) : Bool :=
  match m.params[0]?, m.params[1]? with
  | some name, some password => operListed cfg name password
  | _, _ => false

/-- the `oper=<name> <password>` part of the PASS string, which `maybeLogin` turns into an automatic
`OPER <name> <password>` when the session registers, carries a listed pair -/
def loginOperCreds (cfg : Config) (pass : String) : Bool :=
  match parseMessage ("OPER " ++ extractPassword pass "oper") with
  | some parsed => operCreds cfg parsed
  | none => false

/-- `Session.pass` after `PASS` (what `cmdPass` stores before it calls `maybeLogin`) -/
def passAfter (m : IrcMsg) (old : String) : String :=
  let pass := if m.params.length > 0 then joinStr " " m.params else old
  if !hasPrefix pass "nickserv=" && !hasPrefix pass "services=" && !hasPrefix pass "network=" &&
      !hasPrefix pass "oper=" && !hasPrefix pass "session=" && !hasPrefix pass "captcha=" then "nickserv=" ++ pass else pass

/-- how the handler registered as `fname`, run for the session `sid` on the state `st` with the
message `m`, can turn on the operator flag of `sid`:

* `cmdOper` with a listed pair;
* `cmdNick` / `cmdUser` completing the registration (`maybeLogin`) of a session whose stored PASS
  has an `oper=` part with a listed pair;
* `cmdPass` doing the same with the PASS string it has just stored. -/
def OperVia (fname : String) (st : St) (sid : Id) (m : IrcMsg) : Prop :=
  (fname = "cmdOper" ∧ operCreds st.config m = true) ∨
  ∃ s, AMap.get st.sessions sid = some s ∧ s.loggedIn = false ∧
    (((fname = "cmdNick" ∨ fname = "cmdUser") ∧ loginOperCreds st.config s.pass = true) ∨
     (fname = "cmdPass" ∧ loginOperCreds st.config (passAfter m s.pass) = true))

/-- how a handler can turn on the `server` flag of `sid`: `cmdServer`, the stored PASS being
`services=<configured services password>` -/
def ServerVia (fname : String) (st : St) (sid : Id) : Prop :=
  ∃ s, AMap.get st.sessions sid = some s ∧ fname = "cmdServer" ∧ servicesAuth st.config s.pass = true

/-! ## the relation -/

structure Flg (O S : Id → Prop) (st0 st : St) : Prop where
  wf : SessWf st
  oper : ∀ id s, AMap.get st.sessions id = some s → s.operator = true →
    (∃ s0, AMap.get st0.sessions id = some s0 ∧ s0.operator = true) ∨ O id
  server : ∀ id s, AMap.get st.sessions id = some s → s.server = true →
    (∃ s0, AMap.get st0.sessions id = some s0 ∧ s0.server = true) ∨ S id
  ops : st.config.operators = st0.config.operators
  svc : st.config.services = st0.config.services

theorem Flg.refl {O S : Id → Prop} {st : St} (h : SessWf st) : Flg O S st st :=
  ⟨h, fun _ s hg ho => Or.inl ⟨s, hg, ho⟩, fun _ s hg ho => Or.inl ⟨s, hg, ho⟩, rfl, rfl⟩

theorem Flg.mono {O S O' S' : Id → Prop} {st0 st : St} (h : Flg O S st0 st)
    (hO : ∀ id, O id → O' id) (hS : ∀ id, S id → S' id) : Flg O' S' st0 st :=
  ⟨h.wf, fun id s hg ho => (h.oper id s hg ho).imp (fun x => x) (hO _), fun id s hg ho => (h.server id s hg ho).imp (fun x => x) (hS _),
    h.ops, h.svc⟩

theorem Flg.trans {O S : Id → Prop} {a b c : St} (h1 : Flg O S a b) (h2 : Flg O S b c) : Flg O S a c := by
  refine ⟨h2.wf, ?_, ?_, h2.ops.trans h1.ops, h2.svc.trans h1.svc⟩
  · intro id s hg ho
    rcases h2.oper id s hg ho with ⟨s1, hs1, ho1⟩ | hp
    · exact h1.oper id s1 hs1 ho1
    · exact Or.inr hp
  · intro id s hg ho
    rcases h2.server id s hg ho with ⟨s1, hs1, ho1⟩ | hp
    · exact h1.server id s1 hs1 ho1
    · exact Or.inr hp

/-- the current state only matters through `sessions` and the two credential lists -/
theorem Flg.congr {O S : Id → Prop} {st0 st st' : St} (h : Flg O S st0 st) (hs : st'.sessions = st.sessions)
    (ho : st'.config.operators = st.config.operators) (hv : st'.config.services = st.config.services) :
    Flg O S st0 st' := by
  obtain ⟨h1, h2, h3, h4, h5⟩ := h
  refine ⟨h1.congr hs, ?_, ?_, ho.trans h4, hv.trans h5⟩
  · intro id s hg; rw [hs] at hg; exact h2 id s hg
  · intro id s hg; rw [hs] at hg; exact h3 id s hg

/-- the base state only matters through `sessions` and the two credential lists -/
theorem Flg.congr_base {O S : Id → Prop} {a b st : St} (h : Flg O S a st) (hs : b.sessions = a.sessions)
    (ho : b.config.operators = a.config.operators) (hv : b.config.services = a.config.services) :
    Flg O S b st := by
  obtain ⟨h1, h2, h3, h4, h5⟩ := h
  refine ⟨h1, ?_, ?_, h4.trans ho.symm, h5.trans hv.symm⟩
  · intro id s hg hop; rw [hs]; exact h2 id s hg hop
  · intro id s hg hop; rw [hs]; exact h3 id s hg hop

/-! ### output does not touch the state -/

theorem Flg.emit {O S : Id → Prop} {st0 : St} {c : Ctx} (h : Flg O S st0 c.st) (m : IrcMsg) (r : List Nat) :
    Flg O S st0 (emit c m r).st := h
theorem Flg.sendUser {O S : Id → Prop} {st0 : St} {c : Ctx} (h : Flg O S st0 c.st) (sid : Id) (m : IrcMsg) :
    Flg O S st0 (sendUser c sid m).st := h
theorem Flg.sendSvc {O S : Id → Prop} {st0 : St} {c : Ctx} (h : Flg O S st0 c.st) (m : IrcMsg) :
    Flg O S st0 (sendSvc c m).st := h
theorem Flg.putChan {O S : Id → Prop} {st0 : St} {c : Ctx} (h : Flg O S st0 c.st) (lc : String) (ch : Channel) :
    Flg O S st0 (putChan c lc ch).st := h.congr rfl rfl rfl

/-! ### sessions -/

/-- a function on sessions that keeps the id and both privilege flags -/
def FlKeep (f : Session → Session) : Prop :=
  ∀ s, (f s).id = s.id ∧ (f s).operator = s.operator ∧ (f s).server = s.server

/-- overwrite a stored session: a flag that is set in the new value was set in the old one, or the
id is permitted to gain it -/
theorem Flg.setSession {O S : Id → Prop} {st0 st st' : St} (h : Flg O S st0 st) {k : Id} {s v : Session}
    (hs : AMap.get st.sessions k = some s) (hid : v.id = k)
    (hop : v.operator = true → s.operator = true ∨ O k) (hsv : v.server = true → s.server = true ∨ S k)
    (hss : st'.sessions = AMap.set st.sessions k v)
    (ho : st'.config.operators = st.config.operators) (hv : st'.config.services = st.config.services) :
    Flg O S st0 st' := by
  refine ⟨⟨?_, ?_⟩, ?_, ?_, ho.trans h.ops, hv.trans h.svc⟩
  · intro id t hg
    rw [hss, AMap.get_set] at hg
    split at hg
    · rename_i e; cases hg; rw [hid, e]
    · exact h.wf.ids id t hg
  · rw [hss]; exact AMap.nodup_keys_set _ _ h.wf.nodup
  · intro id t hg ht
    rw [hss, AMap.get_set] at hg
    split at hg
    · rename_i e; cases hg; subst e
      rcases hop ht with h1 | h1
      · exact h.oper id s hs h1
      · exact Or.inr h1
    · exact h.oper id t hg ht
  · intro id t hg ht
    rw [hss, AMap.get_set] at hg
    split at hg
    · rename_i e; cases hg; subst e
      rcases hsv ht with h1 | h1
      · exact h.server id s hs h1
      · exact Or.inr h1
    · exact h.server id t hg ht

/-- store a new session without privilege flags -/
theorem Flg.newSession {O S : Id → Prop} {st0 st st' : St} (h : Flg O S st0 st) {k : Id} {v : Session}
    (hid : v.id = k) (hop : v.operator = false) (hsv : v.server = false)
    (hss : st'.sessions = AMap.set st.sessions k v)
    (ho : st'.config.operators = st.config.operators) (hv : st'.config.services = st.config.services) :
    Flg O S st0 st' := by
  refine ⟨⟨?_, ?_⟩, ?_, ?_, ho.trans h.ops, hv.trans h.svc⟩
  · intro id t hg
    rw [hss, AMap.get_set] at hg
    split at hg
    · rename_i e; cases hg; rw [hid, e]
    · exact h.wf.ids id t hg
  · rw [hss]; exact AMap.nodup_keys_set _ _ h.wf.nodup
  · intro id t hg ht
    rw [hss, AMap.get_set] at hg
    split at hg
    · cases hg; rw [hop] at ht; cases ht
    · exact h.oper id t hg ht
  · intro id t hg ht
    rw [hss, AMap.get_set] at hg
    split at hg
    · cases hg; rw [hsv] at ht; cases ht
    · exact h.server id t hg ht

/-- `modS` by a function that may set flags where that is permitted -/
theorem Flg.modS_gen {O S : Id → Prop} {st0 : St} {c c' : Ctx} {tid : Id} {f : Session → Session}
    (h : Flg O S st0 c.st) (hr : Robust.Irc.modS c tid f = Res.ok c') (hid : ∀ s, (f s).id = s.id)
    (hop : ∀ s, AMap.get c.st.sessions tid = some s → (f s).operator = true → s.operator = true ∨ O tid)
    (hsv : ∀ s, AMap.get c.st.sessions tid = some s → (f s).server = true → s.server = true ∨ S tid) :
    Flg O S st0 c'.st := by
  obtain ⟨s, hs, rfl⟩ := modS_eq_ok.1 hr
  have hid' : (f s).id = tid := (hid s).trans (h.wf.ids tid s hs)
  exact h.setSession hs hid' (hop s hs) (hsv s hs) (by rw [putS_sessions, hid']) rfl rfl

theorem Flg.modS_keep {O S : Id → Prop} {st0 : St} {c c' : Ctx} {tid : Id} {f : Session → Session}
    (h : Flg O S st0 c.st) (hr : Robust.Irc.modS c tid f = Res.ok c') (hf : FlKeep f) : Flg O S st0 c'.st :=
  h.modS_gen hr (fun s => (hf s).1) (fun s _ ho => Or.inl (by rw [← (hf s).2.1]; exact ho))
    (fun s _ ho => Or.inl (by rw [← (hf s).2.2]; exact ho))

/-- mapping all sessions by a function that keeps id and flags -/
theorem Flg.mapSessions {O S : Id → Prop} {st0 st st' : St} (h : Flg O S st0 st) (f : Session → Session)
    (hf : FlKeep f) (hss : st'.sessions = st.sessions.map fun e => (e.1, f e.2))
    (ho : st'.config.operators = st.config.operators) (hv : st'.config.services = st.config.services) :
    Flg O S st0 st' := by
  have hget : ∀ id, AMap.get st'.sessions id = (AMap.get st.sessions id).map f := by
    intro id; rw [hss, AMap.get_map_val]
  have hpre : ∀ id t, AMap.get st'.sessions id = some t → ∃ s, AMap.get st.sessions id = some s ∧ t = f s := by
    intro id t hg
    rw [hget] at hg
    cases hg0 : AMap.get st.sessions id with
    | none => rw [hg0] at hg; cases hg
    | some s =>
      rw [hg0] at hg
      simp only [Option.map_some, Option.some.injEq] at hg
      exact ⟨s, rfl, hg.symm⟩
  refine ⟨⟨?_, ?_⟩, ?_, ?_, ho.trans h.ops, hv.trans h.svc⟩
  · intro id t hg
    obtain ⟨s, hs, rfl⟩ := hpre id t hg
    rw [(hf s).1]; exact h.wf.ids id s hs
  · rw [hss, AMap.keys_map_val st.sessions (fun e => f e.2)]; exact h.wf.nodup
  · intro id t hg ht
    obtain ⟨s, hs, rfl⟩ := hpre id t hg
    exact h.oper id s hs (by rw [← (hf s).2.1]; exact ht)
  · intro id t hg ht
    obtain ⟨s, hs, rfl⟩ := hpre id t hg
    exact h.server id s hs (by rw [← (hf s).2.2]; exact ht)

/-- removing sessions -/
theorem Flg.subSessions {O S : Id → Prop} {st0 st st' : St} (h : Flg O S st0 st) (hw : SessWf st')
    (hsub : ∀ id s, AMap.get st'.sessions id = some s → AMap.get st.sessions id = some s)
    (ho : st'.config.operators = st.config.operators) (hv : st'.config.services = st.config.services) :
    Flg O S st0 st' :=
  ⟨hw, fun id s hg => h.oper id s (hsub id s hg), fun id s hg => h.server id s (hsub id s hg),
    ho.trans h.ops, hv.trans h.svc⟩

theorem Flg.maybeDeleteChannel {O S : Id → Prop} {st0 : St} {c : Ctx} (h : Flg O S st0 c.st) (lc : String) :
    Flg O S st0 (maybeDeleteChannel c lc).st := by
  unfold Robust.Irc.maybeDeleteChannel
  split
  · exact h
  · split
    · exact h
    · rename_i ch _ _
      exact h.mapSessions (fun s => { s with invitedTo := s.invitedTo.filter (· ≠ chanToLower ch.name) })
        (fun _ => ⟨rfl, rfl, rfl⟩) rfl rfl rfl

theorem Flg.leaveChannel {O S : Id → Prop} {st0 : St} {c c' : Ctx} {lc lcn : String} {tid : Id} (h : Flg O S st0 c.st)
    (hr : leaveChannel c lc lcn tid = Res.ok c') : Flg O S st0 c'.st := by
  unfold Robust.Irc.leaveChannel at hr
  split at hr
  · rename_i ch hch
    exact ((h.putChan lc { ch with nicks := AMap.erase ch.nicks lcn }).maybeDeleteChannel lc).modS_keep hr
      fun _ => ⟨rfl, rfl, rfl⟩
  · cases hr

theorem Flg.foldl {O S : Id → Prop} {st0 : St} {α : Type} {f : Ctx → α → Ctx}
    (hf : ∀ c a, Flg O S st0 c.st → Flg O S st0 (f c a).st) :
    ∀ (l : List α) (c : Ctx), Flg O S st0 c.st → Flg O S st0 (l.foldl f c).st
  | [], _, h => h
  | a :: t, c, h => Flg.foldl hf t (f c a) (hf c a h)

theorem Flg.foldlM {O S : Id → Prop} {st0 : St} {α : Type} {f : Ctx → α → Res Ctx}
    (hf : ∀ c a c', Flg O S st0 c.st → f c a = .ok c' → Flg O S st0 c'.st) :
    ∀ (l : List α) {c c' : Ctx}, Flg O S st0 c.st → l.foldlM f c = .ok c' → Flg O S st0 c'.st
  | [], c, c', h, hr => by cases hr; exact h
  | a :: l, c, c', h, hr => by
    rw [List.foldlM_cons] at hr
    obtain ⟨c1, h1, hr⟩ := Res.bind_eq_ok.1 hr
    exact Flg.foldlM hf l (hf c a c1 h h1) hr

theorem Flg.deleteSession {O S : Id → Prop} {st0 : St} {c c' : Ctx} {sid : Id} (h : Flg O S st0 c.st)
    (hr : deleteSession c sid = Res.ok c') : Flg O S st0 c'.st := by
  unfold Robust.Irc.deleteSession at hr
  obtain ⟨s, _, hr⟩ := Res.bind_eq_ok.1 hr
  dsimp only at hr
  refine Flg.modS_keep ?_ hr (fun _ => ⟨rfl, rfl, rfl⟩)
  refine Flg.congr (st := (c.st.channels.foldl _ c).st) ?_ rfl rfl rfl
  refine Flg.foldl ?_ _ _ h
  intro c1 e h1
  split
  · exact h1
  · rename_i ch hch
    exact (h1.putChan e.1 { ch with nicks := AMap.erase ch.nicks (nickToLower s.nick) }).maybeDeleteChannel _

/-- `Emits`-style handlers: the state is untouched -/
theorem Flg.of_st {O S : Id → Prop} {st0 : St} {c c' : Ctx} (h : Flg O S st0 c.st) (e : c'.st = c.st) :
    Flg O S st0 c'.st := by
  rw [e]; exact h

/-- a handler that sets no privilege flag: it keeps `Flg O S` to an arbitrary base state, whatever
the permissions -/
def FlgPres (h : Ctx → Id → IrcMsg → Res Ctx) : Prop :=
  ∀ (O S : Id → Prop) st0 c sid m c', Flg O S st0 c.st → h c sid m = .ok c' → Flg O S st0 c'.st

theorem FlgPres.of_plain {h : Ctx → Id → IrcMsg → Res Ctx}
    (H : ∀ {O S : Id → Prop} {st0 : St} {c c' : Ctx} {sid : Id} {m : IrcMsg},
      Flg O S st0 c.st → h c sid m = .ok c' → Flg O S st0 c'.st) :
    FlgPres h :=
  fun _ _ _ _ _ _ _ hp hr => H hp hr

end Robust.Irc
