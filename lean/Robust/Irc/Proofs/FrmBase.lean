import Robust.Irc.Proofs.NInv
/-!
Frame relation for C10 / C16 / C17: what a handler run may do to

* the duplicate-detection marker `Session.lastClientMessageId` (nothing),
* the set of stored session ids (it only grows, and only by pseudo-client ids `⟨link, reply ≠ 0⟩`
  whose numeric part is that of a session that was already stored),
* the replicated configuration and `lastProcessed` (nothing).

`Frm st0 st` is phrased as a *predicate on the current state* `st` relative to a fixed base state
`st0`, so that the handler walks have the same shape as those for `PInv` (`RcptPfx*.lean`).
It carries the two facts about the session map that make `modS`/`putS` frame-able without the
full invariant: sessions are stored under their own id, and the keys are duplicate-free.
-/
namespace Robust.Irc
open Robust AMap

/-- sessions are stored under their own id and the key list is duplicate-free
(both are conjuncts of `Inv`) -/
structure SessWf (st : St) : Prop where
  ids : ∀ id s, AMap.get st.sessions id = some s → s.id = id
  nodup : (AMap.keys st.sessions).Nodup

theorem SessWf.of_core {st : St} (h : WInvCore st) : SessWf st :=
  ⟨fun id s hg => (h.sessId id s hg).1, h.sessNodup⟩

theorem SessWf.congr {st st' : St} (h : SessWf st) (hs : st'.sessions = st.sessions) : SessWf st' := by
  obtain ⟨a, b⟩ := h
  constructor <;> (rw [hs]; assumption)

/-- a function on sessions that keeps the id and the duplicate-detection marker -/
def MkKeep (f : Session → Session) : Prop :=
  ∀ s, (f s).id = s.id ∧ (f s).lastClientMessageId = s.lastClientMessageId

/-- how the session stored under `id` in the current state relates to the base state `st0`:
either `id` was stored and carries the same marker, or it is a new pseudo-client (marker `0`,
`reply ≠ 0`, numeric id of a session that was stored) -/
def MarkRel (st0 : St) (id : Id) (s : Session) : Prop :=
  (∃ s0, AMap.get st0.sessions id = some s0 ∧ s.lastClientMessageId = s0.lastClientMessageId) ∨
  (AMap.get st0.sessions id = none ∧ s.lastClientMessageId = 0 ∧ id.reply ≠ 0 ∧
    ∃ k s0, AMap.get st0.sessions k = some s0 ∧ k.id = id.id)

/-- the marker part (everything but the configuration) -/
structure FrmM (st0 st : St) : Prop where
  wf : SessWf st
  mark : ∀ id s, AMap.get st.sessions id = some s → MarkRel st0 id s
  mono : ∀ id, AMap.get st.sessions id = none → AMap.get st0.sessions id = none
  lastProcessed : st.lastProcessed = st0.lastProcessed

/-- the frame relation: markers, stored ids, `lastProcessed` and the configuration -/
structure Frm (st0 st : St) : Prop extends FrmM st0 st where
  config : st.config = st0.config

theorem Frm.refl {st : St} (h : SessWf st) : Frm st st :=
  ⟨⟨h, fun _ s hg => Or.inl ⟨s, hg, rfl⟩, fun _ hg => hg, rfl⟩, rfl⟩

/-- every stored id has the numeric part of an id stored in the base state -/
theorem FrmM.idBase {st0 st : St} (h : FrmM st0 st) {k : Id} {s : Session}
    (hg : AMap.get st.sessions k = some s) : ∃ k0 s0, AMap.get st0.sessions k0 = some s0 ∧ k0.id = k.id := by
  rcases h.mark k s hg with ⟨s0, h0, _⟩ | ⟨_, _, _, hk⟩
  · exact ⟨k, s0, h0, rfl⟩
  · exact hk

/-- the base state only matters through `sessions` and `lastProcessed` -/
theorem FrmM.congr_base {a b st : St} (h : FrmM a st) (hs : b.sessions = a.sessions)
    (hl : b.lastProcessed = a.lastProcessed) : FrmM b st := by
  obtain ⟨h1, h2, h3, h4⟩ := h
  refine ⟨h1, ?_, ?_, by rw [hl]; exact h4⟩
  · intro id s hg
    unfold MarkRel
    rw [hs]; exact h2 id s hg
  · intro id hg; rw [hs]; exact h3 id hg

theorem FrmM.trans {a b c : St} (h1 : FrmM a b) (h2 : FrmM b c) : FrmM a c := by
  refine ⟨h2.wf, ?_, fun id hg => h1.mono id (h2.mono id hg), h2.lastProcessed.trans h1.lastProcessed⟩
  intro id s hg
  rcases h2.mark id s hg with ⟨s1, hs1, e1⟩ | ⟨hn, e1, hr, k, s1, hk, hkid⟩
  · rcases h1.mark id s1 hs1 with ⟨s0, hs0, e0⟩ | ⟨hn0, e0, hr0, hk0⟩
    · exact Or.inl ⟨s0, hs0, e1.trans e0⟩
    · exact Or.inr ⟨hn0, e1.trans e0, hr0, hk0⟩
  · obtain ⟨k0, s0, hk0, hk0id⟩ := h1.idBase hk
    exact Or.inr ⟨h1.mono id hn, e1, hr, k0, s0, hk0, hk0id.trans hkid⟩

theorem Frm.trans {a b c : St} (h1 : Frm a b) (h2 : Frm b c) : Frm a c :=
  ⟨h1.toFrmM.trans h2.toFrmM, h2.config.trans h1.config⟩

/-- the current state only matters through `sessions`, `config`, `lastProcessed` -/
theorem Frm.congr {st0 st st' : St} (h : Frm st0 st) (hs : st'.sessions = st.sessions)
    (hc : st'.config = st.config) (hl : st'.lastProcessed = st.lastProcessed) : Frm st0 st' := by
  obtain ⟨⟨h1, h2, h3, h4⟩, h5⟩ := h
  refine ⟨⟨h1.congr hs, ?_, ?_, hl.trans h4⟩, hc.trans h5⟩
  · intro id s hg; rw [hs] at hg; exact h2 id s hg
  · intro id hg; rw [hs] at hg; exact h3 id hg

/-! ### output does not touch the state -/

theorem Frm.emit {st0 : St} {c : Ctx} (h : Frm st0 c.st) (m : IrcMsg) (r : List Nat) : Frm st0 (emit c m r).st := h
theorem Frm.sendUser {st0 : St} {c : Ctx} (h : Frm st0 c.st) (sid : Id) (m : IrcMsg) : Frm st0 (sendUser c sid m).st := h
theorem Frm.sendSvc {st0 : St} {c : Ctx} (h : Frm st0 c.st) (m : IrcMsg) : Frm st0 (sendSvc c m).st := h
theorem Frm.putChan {st0 : St} {c : Ctx} (h : Frm st0 c.st) (lc : String) (ch : Channel) :
    Frm st0 (putChan c lc ch).st := h.congr rfl rfl rfl

/-! ### sessions -/

/-- overwrite a stored session by a value with the same id and marker -/
theorem Frm.setSession {st0 st st' : St} (h : Frm st0 st) {k : Id} {s v : Session}
    (hs : AMap.get st.sessions k = some s) (hid : v.id = k)
    (hm : v.lastClientMessageId = s.lastClientMessageId)
    (hss : st'.sessions = AMap.set st.sessions k v) (hc : st'.config = st.config)
    (hl : st'.lastProcessed = st.lastProcessed) : Frm st0 st' := by
  refine ⟨⟨⟨?_, ?_⟩, ?_, ?_, hl.trans h.lastProcessed⟩, hc.trans h.config⟩
  · intro id t hg
    rw [hss, AMap.get_set] at hg
    split at hg
    · rename_i e; cases hg; rw [hid, e]
    · exact h.wf.ids id t hg
  · rw [hss]; exact AMap.nodup_keys_set _ _ h.wf.nodup
  · intro id t hg
    rw [hss, AMap.get_set] at hg
    split at hg
    · rename_i e; cases hg; subst e
      rcases h.mark id s hs with ⟨s0, h0, e0⟩ | ⟨hn, e0, hr⟩
      · exact Or.inl ⟨s0, h0, hm.trans e0⟩
      · exact Or.inr ⟨hn, hm.trans e0, hr⟩
    · exact h.mark id t hg
  · intro id hg
    rw [hss, AMap.get_set] at hg
    split at hg
    · cases hg
    · exact h.mono id hg

/-- store a new pseudo-client: marker `0`, `reply ≠ 0`, numeric id of a stored session -/
theorem Frm.newSession {st0 st st' : St} (h : Frm st0 st) {k : Id} {v : Session}
    (hn : AMap.get st.sessions k = none) (hid : v.id = k) (hm : v.lastClientMessageId = 0)
    (hr : k.reply ≠ 0) (hk : ∃ k1 s1, AMap.get st.sessions k1 = some s1 ∧ k1.id = k.id)
    (hss : st'.sessions = AMap.set st.sessions k v) (hc : st'.config = st.config)
    (hl : st'.lastProcessed = st.lastProcessed) : Frm st0 st' := by
  refine ⟨⟨⟨?_, ?_⟩, ?_, ?_, hl.trans h.lastProcessed⟩, hc.trans h.config⟩
  · intro id t hg
    rw [hss, AMap.get_set] at hg
    split at hg
    · rename_i e; cases hg; rw [hid, e]
    · exact h.wf.ids id t hg
  · rw [hss]; exact AMap.nodup_keys_set _ _ h.wf.nodup
  · intro id t hg
    rw [hss, AMap.get_set] at hg
    split at hg
    · rename_i e; cases hg; subst e
      obtain ⟨k1, s1, hk1, hk1id⟩ := hk
      obtain ⟨k0, s0, hk0, hk0id⟩ := h.toFrmM.idBase hk1
      exact Or.inr ⟨h.mono id hn, hm, hr, k0, s0, hk0, hk0id.trans hk1id⟩
    · exact h.mark id t hg
  · intro id hg
    rw [hss, AMap.get_set] at hg
    split at hg
    · cases hg
    · exact h.mono id hg

theorem Frm.modS_keep {st0 : St} {c c' : Ctx} {tid : Id} {f : Session → Session} (h : Frm st0 c.st)
    (hr : Robust.Irc.modS c tid f = Res.ok c') (hf : MkKeep f) : Frm st0 c'.st := by
  obtain ⟨s, hs, rfl⟩ := modS_eq_ok.1 hr
  have hid : (f s).id = tid := (hf s).1.trans (h.wf.ids tid s hs)
  exact h.setSession hs hid (hf s).2 (by rw [putS_sessions, hid]) rfl rfl

/-- mapping all sessions by a function that keeps id and marker -/
theorem Frm.mapSessions {st0 st st' : St} (h : Frm st0 st) (f : Session → Session) (hf : MkKeep f)
    (hss : st'.sessions = st.sessions.map fun e => (e.1, f e.2)) (hc : st'.config = st.config)
    (hl : st'.lastProcessed = st.lastProcessed) : Frm st0 st' := by
  have hget : ∀ id, AMap.get st'.sessions id = (AMap.get st.sessions id).map f := by
    intro id; rw [hss, AMap.get_map_val]
  refine ⟨⟨⟨?_, ?_⟩, ?_, ?_, hl.trans h.lastProcessed⟩, hc.trans h.config⟩
  · intro id t hg
    rw [hget] at hg
    cases hg0 : AMap.get st.sessions id with
    | none => rw [hg0] at hg; cases hg
    | some s =>
      rw [hg0] at hg
      simp only [Option.map_some, Option.some.injEq] at hg
      subst hg
      rw [(hf s).1]; exact h.wf.ids id s hg0
  · rw [hss, AMap.keys_map_val st.sessions (fun e => f e.2)]; exact h.wf.nodup
  · intro id t hg
    rw [hget] at hg
    cases hg0 : AMap.get st.sessions id with
    | none => rw [hg0] at hg; cases hg
    | some s =>
      rw [hg0] at hg
      simp only [Option.map_some, Option.some.injEq] at hg
      subst hg
      rcases h.mark id s hg0 with ⟨s0, h0, e0⟩ | ⟨hn, e0, hr⟩
      · exact Or.inl ⟨s0, h0, (hf s).2.trans e0⟩
      · exact Or.inr ⟨hn, (hf s).2.trans e0, hr⟩
  · intro id hg
    rw [hget] at hg
    cases hg0 : AMap.get st.sessions id with
    | none => exact h.mono id hg0
    | some s => rw [hg0] at hg; cases hg

theorem Frm.maybeDeleteChannel {st0 : St} {c : Ctx} (h : Frm st0 c.st) (lc : String) :
    Frm st0 (maybeDeleteChannel c lc).st := by
  unfold Robust.Irc.maybeDeleteChannel
  split
  · exact h
  · split
    · exact h
    · rename_i ch _ _
      exact h.mapSessions (fun s => { s with invitedTo := s.invitedTo.filter (· ≠ chanToLower ch.name) })
        (fun _ => ⟨rfl, rfl⟩) rfl rfl rfl

theorem Frm.leaveChannel {st0 : St} {c c' : Ctx} {lc lcn : String} {tid : Id} (h : Frm st0 c.st)
    (hr : leaveChannel c lc lcn tid = Res.ok c') : Frm st0 c'.st := by
  unfold Robust.Irc.leaveChannel at hr
  split at hr
  · rename_i ch hch
    exact ((h.putChan lc { ch with nicks := AMap.erase ch.nicks lcn }).maybeDeleteChannel lc).modS_keep hr
      fun _ => ⟨rfl, rfl⟩
  · cases hr

theorem Frm.foldl {st0 : St} {α : Type} {f : Ctx → α → Ctx} (hf : ∀ c a, Frm st0 c.st → Frm st0 (f c a).st) :
    ∀ (l : List α) (c : Ctx), Frm st0 c.st → Frm st0 (l.foldl f c).st
  | [], _, h => h
  | a :: t, c, h => Frm.foldl hf t (f c a) (hf c a h)

theorem Frm.foldlM {st0 : St} {α : Type} {f : Ctx → α → Res Ctx}
    (hf : ∀ c a c', Frm st0 c.st → f c a = .ok c' → Frm st0 c'.st) :
    ∀ (l : List α) {c c' : Ctx}, Frm st0 c.st → l.foldlM f c = .ok c' → Frm st0 c'.st
  | [], c, c', h, hr => by cases hr; exact h
  | a :: l, c, c', h, hr => by
    rw [List.foldlM_cons] at hr
    obtain ⟨c1, h1, hr⟩ := Res.bind_eq_ok.1 hr
    exact Frm.foldlM hf l (hf c a c1 h h1) hr

theorem Frm.deleteSession {st0 : St} {c c' : Ctx} {sid : Id} (h : Frm st0 c.st)
    (hr : deleteSession c sid = Res.ok c') : Frm st0 c'.st := by
  unfold Robust.Irc.deleteSession at hr
  obtain ⟨s, _, hr⟩ := Res.bind_eq_ok.1 hr
  dsimp only at hr
  refine Frm.modS_keep ?_ hr (fun _ => ⟨rfl, rfl⟩)
  refine Frm.congr (st := (c.st.channels.foldl _ c).st) ?_ rfl rfl rfl
  refine Frm.foldl ?_ _ _ h
  intro c1 e h1
  split
  · exact h1
  · rename_i ch hch
    exact (h1.putChan e.1 { ch with nicks := AMap.erase ch.nicks (nickToLower s.nick) }).maybeDeleteChannel _

/-- `Emits`-style handlers: the state is untouched -/
theorem Frm.of_st {st0 : St} {c c' : Ctx} (h : Frm st0 c.st) (e : c'.st = c.st) : Frm st0 c'.st := by
  rw [e]; exact h

/-- a handler keeps the frame relation to an arbitrary base state (the acting session is one the
HTTP API can name: `reply = 0`; only the services `NICK` uses this, to see that the id of the
pseudo-client it creates has `reply ≠ 0`) -/
def FrmPres (h : Ctx → Id → IrcMsg → Res Ctx) : Prop :=
  ∀ st0 c sid m c', sid.reply = 0 → Frm st0 c.st → h c sid m = .ok c' → Frm st0 c'.st

/-- a handler keeps the marker part of the frame relation -/
def FrmMPres (h : Ctx → Id → IrcMsg → Res Ctx) : Prop :=
  ∀ c sid m c', sid.reply = 0 → SessWf c.st → h c sid m = .ok c' → FrmM c.st c'.st

theorem FrmPres.frmM {h : Ctx → Id → IrcMsg → Res Ctx} (H : FrmPres h) : FrmMPres h :=
  fun c sid m c' h0 hw hr => (H c.st c sid m c' h0 (Frm.refl hw) hr).toFrmM

theorem FrmPres.of_plain {h : Ctx → Id → IrcMsg → Res Ctx}
    (H : ∀ {st0 : St} {c c' : Ctx} {sid : Id} {m : IrcMsg}, Frm st0 c.st → h c sid m = .ok c' → Frm st0 c'.st) :
    FrmPres h :=
  fun _ _ _ _ _ _ hp hr => H hp hr

end Robust.Irc
