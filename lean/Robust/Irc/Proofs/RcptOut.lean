import Robust.Irc.Proofs.RcptBase
import Robust.Irc.Proofs.H2
/-!
C12, part 2a: tracking the *new* outputs of a handler (`NewOut`), and the exact recipients of
PRIVMSG / NOTICE (`cmdPrivmsg`).
-/
namespace Robust.Irc
open Robust AMap

/-! ### the outputs a step appends -/

/-- every output appended between `c` and `c'` satisfies `P` -/
def NewOut (P : Out → Prop) (c c' : Ctx) : Prop :=
  ∃ new, c'.out = c.out ++ new ∧ ∀ o ∈ new, P o

namespace NewOut
variable {P Q : Out → Prop} {a b c c' : Ctx}

theorem refl (P : Out → Prop) (c : Ctx) : NewOut P c c := ⟨[], by simp, fun _ h => by cases h⟩

theorem of_out (h : c'.out = c.out) : NewOut P c c' := ⟨[], by simp [h], fun _ h => by cases h⟩

theorem trans (h1 : NewOut P a b) (h2 : NewOut P b c) : NewOut P a c := by
  obtain ⟨n1, e1, p1⟩ := h1
  obtain ⟨n2, e2, p2⟩ := h2
  refine ⟨n1 ++ n2, by rw [e2, e1, List.append_assoc], fun o ho => ?_⟩
  rcases List.mem_append.1 ho with h | h
  · exact p1 o h
  · exact p2 o h

theorem mono (h : NewOut P a b) (hpq : ∀ o, P o → Q o) : NewOut Q a b := by
  obtain ⟨n, e, p⟩ := h
  exact ⟨n, e, fun o ho => hpq o (p o ho)⟩

/-- one more line -/
theorem emit (h : NewOut P a c) {m : IrcMsg} {r : List Nat} (hp : ∀ i k, P ⟨i, k, m.render, r⟩) :
    NewOut P a (Robust.Irc.emit c m r) := by
  obtain ⟨n, e, p⟩ := h
  refine ⟨n ++ [⟨c.msgid, c.replyid + 1, m.render, r⟩], ?_, fun o ho => ?_⟩
  · show c.out ++ _ = _
    rw [e, List.append_assoc]
  · rcases List.mem_append.1 ho with h | h
    · exact p o h
    · rw [List.mem_singleton] at h; subst h; exact hp _ _

theorem sendUser (h : NewOut P a c) {m : IrcMsg} {sid : Id} (hp : ∀ i k, P ⟨i, k, m.render, [sid.id]⟩) :
    NewOut P a (Robust.Irc.sendUser c sid m) := h.emit hp

/-- a step that does not touch `out` -/
theorem step (h : NewOut P a c) (ho : c'.out = c.out) : NewOut P a c' := h.trans (of_out ho)

theorem modS {sid : Id} {f : Session → Session} (h : NewOut P a c) (hr : Robust.Irc.modS c sid f = .ok c') :
    NewOut P a c' := by
  obtain ⟨s, _, rfl⟩ := modS_eq_ok.1 hr
  exact h.step rfl

theorem frame (h : NewOut P a c) (hf : CtxFrame c c') : NewOut P a c' := h.step hf.out

theorem ite {p : Prop} [Decidable p] {c1 c2 : Ctx} (h1 : NewOut P a c1) (h2 : NewOut P a c2) :
    NewOut P a (if p then c1 else c2) := by
  split <;> assumption

/-- the appended list is determined by the two contexts -/
theorem elim (h : NewOut P c c') {new : List Out} (e : c'.out = c.out ++ new) : ∀ o ∈ new, P o := by
  obtain ⟨n, e', p⟩ := h
  rw [e'] at e
  have := List.append_cancel_left e
  subst this
  exact p

theorem foldl {α : Type} {f : Ctx → α → Ctx} (l : List α) (hf : ∀ c x, NewOut P a c → NewOut P a (f c x))
    (hc : NewOut P a c) : NewOut P a (l.foldl f c) := by
  induction l generalizing c with
  | nil => exact hc
  | cons x t ih => exact ih (hf c x hc)

end NewOut

/-- `o` goes to the session `sid` and to nobody else -/
def ToOnly (sid : Id) (o : Out) : Prop := o.rcpt = [sid.id]

/-! ### PRIVMSG / NOTICE -/

/-- the kinds of lines `cmdPrivmsg` (PRIVMSG and NOTICE of a client) can produce, with their exact
recipients.  `st` is the state, `sid`/`s` the sender and its stored session value, `m` the message. -/
inductive PrivmsgLine (st : St) (sid : Id) (s : Session) (m : IrcMsg) (o : Out) : Prop
  /-- numeric reply (411, 412, 403, 404, 481, 401, 301): to the sender only -/
  | reply (h : ToOnly sid o)
  /-- channel message: rendered under the sender's prefix; delivered to exactly the sessions on that
  channel other than the sender; only if the sender is a member or the channel is not `+n` -/
  | chan (p0 : String) (ch : Channel) (hp : m.params[0]? = some p0) (hh : hasPrefix p0 "#" = true)
      (hc : AMap.get st.channels (chanToLower p0) = some ch)
      (hmay : AMap.contains ch.nicks (nickToLower s.nick) = true ∨ ch.modes.contains 'n' = false)
      (hd : o.data = (IrcMsg.mk (some s.ircPrefix) m.command [p0, m.trailing]).render)
      (hr : ∀ n, n ∈ o.rcpt ↔ ∃ id, OnChan st (chanToLower p0) id ∧ id ≠ sid ∧ id.id = n)
  /-- `$`-broadcast of an IRC operator: to every indexed session -/
  | wall (p0 : String) (hp : m.params[0]? = some p0) (hh : hasPrefix p0 "#" = false) (hd' : hasPrefix p0 "$" = true)
      (hop : s.operator = true)
      (hd : o.data = (IrcMsg.mk (some s.ircPrefix) m.command [p0, m.trailing]).render)
      (hr : o.rcpt = rcAllUsers st)
  /-- private message: to the session owning the target nickname, and to nobody else -/
  | user (p0 : String) (tid : Id) (t : Session) (hp : m.params[0]? = some p0) (hh : hasPrefix p0 "#" = false)
      (hd' : hasPrefix p0 "$" = false)
      (hi : AMap.get st.nicks (nickToLower p0) = some tid) (ht : AMap.get st.sessions tid = some t)
      (hown : nickToLower t.nick = nickToLower p0)
      (hG : t.modes.contains 'G' = false ∨ (t.channels.any fun ch => s.channels.contains ch) = true)
      (hd : o.data = (IrcMsg.mk (some s.ircPrefix) m.command [p0, m.trailing]).render)
      (hr : ToOnly tid o)

theorem param_eq_ok {m : IrcMsg} {i : Nat} {p : String} (h : param m i = Res.ok p) : m.params[i]? = some p := by
  unfold param at h
  split at h
  · cases h; assumption
  · cases h

/-- **PRIVMSG/NOTICE**: the state is unchanged and every line produced is a numeric reply to the sender, or
the relayed message with exactly the entitled recipients and the sender's stored prefix. -/
theorem cmdPrivmsg_out {c c' : Ctx} {sid : Id} {m : IrcMsg} {s : Session} (hw : WInv c.st)
    (hs : AMap.get c.st.sessions sid = some s) (hr : cmdPrivmsg c sid m = .ok c') :
    c'.st = c.st ∧ NewOut (PrivmsgLine c.st sid s m) c c' := by
  refine ⟨(cmdPrivmsg_emits hr).st, ?_⟩
  unfold cmdPrivmsg at hr
  rw [getS_of_get hs] at hr
  simp only [Res.ok_bind] at hr
  split at hr
  · cases hr; exact (NewOut.refl _ c).sendUser fun _ _ => .reply rfl
  split at hr
  · cases hr; exact (NewOut.refl _ c).sendUser fun _ _ => .reply rfl
  obtain ⟨p0, hp0, hr⟩ := Res.bind_eq_ok.1 hr
  have hp := param_eq_ok hp0
  simp only [getChan_eq] at hr
  split at hr
  · rename_i hh
    split at hr
    · cases hr; exact (NewOut.refl _ c).sendUser fun _ _ => .reply rfl
    · rename_i ch hch
      split at hr
      · cases hr; exact (NewOut.refl _ c).sendUser fun _ _ => .reply rfl
      · rename_i hmay
        obtain ⟨rc, hrc, hr⟩ := Res.bind_eq_ok.1 hr
        cases hr
        refine (NewOut.refl _ c).emit fun _ _ => .chan p0 ch hp hh hch ?_ rfl (rcChannelButOne_rcpt hw hch hrc)
        simp only [Bool.and_eq_true, Bool.not_eq_true', not_and, Bool.not_eq_true] at hmay
        cases hcn : AMap.contains ch.nicks (nickToLower s.nick) with
        | true => exact Or.inl rfl
        | false => exact Or.inr (hmay hcn)
  · rename_i hh
    have hh' : hasPrefix p0 "#" = false := by simpa using hh
    split at hr
    · rename_i hd
      split at hr
      · rename_i hop
        cases hr
        exact (NewOut.refl _ c).emit fun _ _ => .wall p0 hp hh' hd hop rfl rfl
      · cases hr; exact (NewOut.refl _ c).sendUser fun _ _ => .reply rfl
    · rename_i hd
      have hd' : hasPrefix p0 "$" = false := by simpa using hd
      split at hr
      · cases hr; exact (NewOut.refl _ c).sendUser fun _ _ => .reply rfl
      · rename_i tid hi
        obtain ⟨t, ht, hr⟩ := Res.bind_eq_ok.1 hr
        rw [getS_eq_ok] at ht
        obtain ⟨t', ht', _, hown⟩ := hw.index _ tid hi
        rw [ht] at ht'; cases ht'
        split at hr
        · cases hr; exact NewOut.refl _ c
        · rename_i hG
          have hG' : t.modes.contains 'G' = false ∨ (t.channels.any fun ch => s.channels.contains ch) = true := by
            simp only [Bool.and_eq_true, Bool.not_eq_true', not_and, Bool.not_eq_false] at hG
            cases hg : t.modes.contains 'G' with
            | false => exact Or.inl rfl
            | true => exact Or.inr (hG hg)
          have h1 : NewOut (PrivmsgLine c.st sid s m) c
              (sendUser c tid ⟨some s.ircPrefix, m.command, [p0, m.trailing]⟩) :=
            (NewOut.refl _ c).sendUser fun _ _ => .user p0 tid t hp hh' hd' hi ht hown hG' rfl rfl
          split at hr
          · cases hr; exact h1.sendUser fun _ _ => .reply rfl
          · cases hr; exact h1

end Robust.Irc
