import Robust.Irc.Proofs.H3a
import Robust.Irc.Proofs.H3b
import Robust.Irc.Proofs.H3c
import Robust.Irc.Proofs.H3d
import Robust.Irc.Proofs.H3e
import Robust.Irc.Proofs.H3f
/-!
Services-link handlers (`SCmds.lean`): invariant preservation and panic-freedom — umbrella file.

* `H3a` – infrastructure: `PreservesSrv`, `NoPanic`, `OutGrows`/`Emits`, `Post.of_emits`/`Post.emits`
          (transfer lemmas), `SrvActor`, `Mid` and its per-primitive transfer lemmas, `foldlM` rules;
* `H3b` – SVSHOLD, PRIVMSG/NOTICE, TOPIC, INVITE, KICK, SVSPART;
* `H3c` – MODE, SVSMODE, JOIN, PART (loops);
* `H3d` – SVSJOIN (+ the frame/panic facts about `cmdTopic` in query form and `cmdNames` it needs);
* `H3e` – NICK, SVSNICK;
* `H3f` – KILL, QUIT, SERVER.
-/
namespace Robust.Irc

/-- summary: every handler of the group -/
theorem H3_summary :
    (Preserves cmdServer ∧ ClientSafe cmdServer 2 false) ∧
    (PreservesSrv cmdServerNick ∧ ServicesSafe cmdServerNick 4) ∧
    (PreservesSrv cmdServerQuit ∧ ServicesSafe cmdServerQuit 0) ∧
    (PreservesSrv cmdServerKill ∧ ServicesSafe cmdServerKill 2) ∧
    (PreservesSrv cmdServerJoin ∧ ServicesSafe cmdServerJoin 1) ∧
    (PreservesSrv cmdServerPart ∧ ServicesSafe cmdServerPart 1) ∧
    (PreservesSrv cmdServerKick ∧ ServicesSafe cmdServerKick 2) ∧
    (PreservesSrv cmdServerMode ∧ ServicesSafe cmdServerMode 1) ∧
    (PreservesSrv cmdServerPrivmsg ∧ ServicesSafe cmdServerPrivmsg 1) ∧
    (PreservesSrv cmdServerInvite ∧ ServicesSafe cmdServerInvite 2) ∧
    (PreservesSrv cmdServerTopic ∧ ServicesSafe cmdServerTopic 3) ∧
    (PreservesSrv cmdServerSvshold ∧ ServicesSafe cmdServerSvshold 1) ∧
    (PreservesSrv cmdServerSvsjoin ∧ ServicesSafe cmdServerSvsjoin 2) ∧
    (PreservesSrv cmdServerSvsmode ∧ ServicesSafe cmdServerSvsmode 2) ∧
    (PreservesSrv cmdServerSvsnick ∧ ServicesSafe cmdServerSvsnick 2) ∧
    (PreservesSrv cmdServerSvspart ∧ ServicesSafe cmdServerSvspart 2) :=
  ⟨⟨cmdServer_preserves, cmdServer_safe⟩,
   ⟨cmdServerNick_preserves, cmdServerNick_safe⟩,
   ⟨cmdServerQuit_preserves, cmdServerQuit_safe⟩,
   ⟨cmdServerKill_preserves, cmdServerKill_safe⟩,
   ⟨cmdServerJoin_preserves, cmdServerJoin_safe⟩,
   ⟨cmdServerPart_preserves, cmdServerPart_safe⟩,
   ⟨cmdServerKick_preserves, cmdServerKick_safe⟩,
   ⟨cmdServerMode_preserves, cmdServerMode_safe⟩,
   ⟨cmdServerPrivmsg_preserves, cmdServerPrivmsg_safe⟩,
   ⟨cmdServerInvite_preserves, cmdServerInvite_safe⟩,
   ⟨cmdServerTopic_preserves, cmdServerTopic_safe⟩,
   ⟨cmdServerSvshold_preserves, cmdServerSvshold_safe⟩,
   ⟨cmdServerSvsjoin_preserves, cmdServerSvsjoin_safe⟩,
   ⟨cmdServerSvsmode_preserves, cmdServerSvsmode_safe⟩,
   ⟨cmdServerSvsnick_preserves, cmdServerSvsnick_safe⟩,
   ⟨cmdServerSvspart_preserves, cmdServerSvspart_safe⟩⟩

end Robust.Irc
