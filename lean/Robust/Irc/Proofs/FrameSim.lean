import Robust.Irc.Proofs.FrameBasic
/-!
"Inert" updates.  The invariants read a session only through `id`, `deleted`, `nick`,
`channels` (`Session.core`) and a channel only through `name` and the *keys* of `nicks`
(`Channel.core`).  Two states whose maps agree up to these projections (`StSim`) satisfy the
same invariants.
-/
namespace Robust.Irc
open Robust AMap

def Session.core (s : Session) : Id × Bool × String × List String := (s.id, s.deleted, s.nick, s.channels)
def Channel.core (c : Channel) : String × List String := (c.name, AMap.keys c.nicks)

theorem Session.core_eq {s s' : Session} :
    s'.core = s.core ↔ s'.id = s.id ∧ s'.deleted = s.deleted ∧ s'.nick = s.nick ∧ s'.channels = s.channels := by
  simp [Session.core]

theorem Channel.core_eq {c c' : Channel} :
    c'.core = c.core ↔ c'.name = c.name ∧ AMap.keys c'.nicks = AMap.keys c.nicks := by
  simp [Channel.core]

/-- `m'` has the same keys as `m` (as a finite map) and the values agree up to `core` -/
structure MapSim {κ ν γ : Type} [DecidableEq κ] (core : ν → γ) (m m' : AMap κ ν) : Prop where
  nodup : (AMap.keys m').Nodup
  eq : ∀ k, (AMap.get m' k).map core = (AMap.get m k).map core

namespace MapSim
variable {κ ν γ : Type} [DecidableEq κ] {core : ν → γ} {m m' m'' : AMap κ ν}

theorem fwd (h : MapSim core m m') {k : κ} {v : ν} (hg : AMap.get m k = some v) :
    ∃ v', AMap.get m' k = some v' ∧ core v' = core v := by
  have := h.eq k
  rw [hg] at this
  cases hm : AMap.get m' k with
  | none => simp [hm] at this
  | some v' => simp [hm] at this; exact ⟨v', rfl, this⟩

theorem bwd (h : MapSim core m m') {k : κ} {v' : ν} (hg : AMap.get m' k = some v') :
    ∃ v, AMap.get m k = some v ∧ core v' = core v := by
  have := h.eq k
  rw [hg] at this
  cases hm : AMap.get m k with
  | none => simp [hm] at this
  | some v => simp [hm] at this; exact ⟨v, rfl, this⟩

theorem none_iff (h : MapSim core m m') {k : κ} : AMap.get m' k = none ↔ AMap.get m k = none := by
  have := h.eq k
  cases h1 : AMap.get m' k <;> cases h2 : AMap.get m k <;> simp [h1, h2] at this ⊢

theorem refl (hn : (AMap.keys m).Nodup) : MapSim core m m := ⟨hn, fun _ => rfl⟩

theorem trans (h1 : MapSim core m m') (h2 : MapSim core m' m'') : MapSim core m m'' :=
  ⟨h2.nodup, fun k => (h2.eq k).trans (h1.eq k)⟩

/-- overwrite one stored value by one with the same `core` -/
theorem set (hn : (AMap.keys m).Nodup) {k : κ} {v v' : ν} (hg : AMap.get m k = some v) (hc : core v' = core v) :
    MapSim core m (AMap.set m k v') := by
  refine ⟨AMap.nodup_keys_set k v' hn, fun k' => ?_⟩
  rw [AMap.get_set]
  split
  · rename_i hk; subst hk; simp [hg, hc]
  · rfl

/-- map all values by a `core`-preserving function -/
theorem map (hn : (AMap.keys m).Nodup) (f : ν → ν) (hf : ∀ v, core (f v) = core v) :
    MapSim core m (m.map fun e => (e.1, f e.2)) := by
  refine ⟨by rw [AMap.keys_map_val m (fun e => f e.2)]; exact hn, fun k => ?_⟩
  rw [AMap.get_map_val]
  cases AMap.get m k <;> simp [hf]

end MapSim

abbrev SessSim (m m' : AMap Id Session) : Prop := MapSim Session.core m m'
abbrev ChanSim (m m' : AMap String Channel) : Prop := MapSim Channel.core m m'

/-- the two states satisfy the same invariants -/
structure StSim (st st' : St) : Prop where
  sess : SessSim st.sessions st'.sessions
  nicks : st'.nicks = st.nicks
  chans : ChanSim st.channels st'.channels

theorem StSim.trans {a b c : St} (h1 : StSim a b) (h2 : StSim b c) : StSim a c :=
  ⟨h1.sess.trans h2.sess, h2.nicks.trans h1.nicks, h1.chans.trans h2.chans⟩

theorem StSim.refl {st : St} (h : WInvCore st) : StSim st st :=
  ⟨MapSim.refl h.sessNodup, rfl, MapSim.refl h.chanNodup⟩

/-! ### transfer -/

theorem WInvCore.sim {st st' : St} (h : WInvCore st) (hs : StSim st st') : WInvCore st' := by
  obtain ⟨hss, hn, hc⟩ := hs
  refine ⟨hss.nodup, by rw [hn]; exact h.nickNodup, hc.nodup, ?_, ?_, ?_, ?_⟩
  · intro id s' hg
    obtain ⟨s, hg0, hcore⟩ := hss.bwd hg
    obtain ⟨e1, _, _, e4⟩ := Session.core_eq.1 hcore
    rw [e1, e4]; exact h.sessId id s hg0
  · intro id s' hg hl hnn
    obtain ⟨s, hg0, hcore⟩ := hss.bwd hg
    obtain ⟨_, e2, e3, _⟩ := Session.core_eq.1 hcore
    rw [hn, e3]; exact h.owns id s hg0 (by rw [← e2]; exact hl) (by rw [← e3]; exact hnn)
  · intro lc id hi
    rw [hn] at hi
    obtain ⟨s, hg0, hl, hlow⟩ := h.index lc id hi
    obtain ⟨s', hg', hcore⟩ := hss.fwd hg0
    obtain ⟨_, e2, e3, _⟩ := Session.core_eq.1 hcore
    exact ⟨s', hg', by rw [e2]; exact hl, by rw [e3]; exact hlow⟩
  · intro lc c' hg
    obtain ⟨c, hg0, hcore⟩ := hc.bwd hg
    obtain ⟨e1, e2⟩ := Channel.core_eq.1 hcore
    obtain ⟨a, b, d⟩ := h.chans lc c hg0
    refine ⟨by rw [e1]; exact a, by rw [e2]; exact b, fun n hn' => ?_⟩
    rw [e2] at hn'
    obtain ⟨id, s, h1, h2, h3⟩ := d n hn'
    obtain ⟨s', hg', hcore'⟩ := hss.fwd h2
    obtain ⟨_, _, _, e4⟩ := Session.core_eq.1 hcore'
    exact ⟨id, s', by rw [hn]; exact h1, hg', by rw [e4]; exact h3⟩

theorem MemberOK.sim {st st' : St} {lc : String} (h : MemberOK st lc) (hs : StSim st st') : MemberOK st' lc := by
  obtain ⟨hss, hn, hc⟩ := hs
  intro id s' hi hg ch hch
  rw [hn] at hi
  obtain ⟨s, hg0, hcore⟩ := hss.bwd hg
  obtain ⟨_, _, _, e4⟩ := Session.core_eq.1 hcore
  rw [e4] at hch
  obtain ⟨c, hc0, hcont⟩ := h id s hi hg0 ch hch
  obtain ⟨c', hc', hcore'⟩ := hc.fwd hc0
  obtain ⟨_, e2⟩ := Channel.core_eq.1 hcore'
  refine ⟨c', hc', ?_⟩
  rw [AMap.contains_iff_mem_keys] at hcont ⊢
  rw [e2]; exact hcont

theorem WInv.sim {st st' : St} (h : WInv st) (hs : StSim st st') : WInv st' :=
  ⟨h.toWInvCore.sim hs, fun lc => (h.member lc).sim hs⟩

theorem ChansNonempty.sim {st st' : St} (h : ChansNonempty st) (hs : StSim st st') : ChansNonempty st' := by
  intro lc c' hg
  obtain ⟨c, hg0, hcore⟩ := hs.chans.bwd hg
  obtain ⟨_, e2⟩ := Channel.core_eq.1 hcore
  have := h lc c hg0
  intro hnil
  apply this
  rw [← AMap.keys_eq_nil, ← e2, hnil]; rfl

theorem HInv.sim {st st' : St} (h : HInv st) (hs : StSim st st') : HInv st' :=
  ⟨h.toWInv.sim hs, h.nonempty.sim hs⟩

theorem Inv.sim {st st' : St} (h : Inv st) (hs : StSim st st') : Inv st' := by
  refine ⟨h.toHInv.sim hs, fun id s' hg => ?_⟩
  obtain ⟨s, hg0, hcore⟩ := hs.sess.bwd hg
  obtain ⟨_, e2, _, _⟩ := Session.core_eq.1 hcore
  rw [e2]; exact h.noDeleted id s hg0

/-! ### the inert primitives produce similar states -/

/-- storing a session over a stored one with the same `id/deleted/nick/channels` -/
theorem StSim.setSession {st st' : St} (h : WInvCore st) {sid : Id} {s s' : Session}
    (hg : AMap.get st.sessions sid = some s) (hcore : s'.core = s.core)
    (hs : st'.sessions = AMap.set st.sessions sid s') (hn : st'.nicks = st.nicks) (hc : st'.channels = st.channels) :
    StSim st st' :=
  ⟨by rw [hs]; exact MapSim.set h.sessNodup hg hcore, hn, by rw [hc]; exact MapSim.refl h.chanNodup⟩

/-- mapping all sessions by a function that keeps `id/deleted/nick/channels` -/
theorem StSim.mapSessions {st st' : St} (h : WInvCore st) (f : Session → Session) (hf : ∀ s, (f s).core = s.core)
    (hs : st'.sessions = st.sessions.map fun e => (e.1, f e.2)) (hn : st'.nicks = st.nicks)
    (hc : st'.channels = st.channels) : StSim st st' :=
  ⟨by rw [hs]; exact MapSim.map h.sessNodup f hf, hn, by rw [hc]; exact MapSim.refl h.chanNodup⟩

/-- storing a channel over a stored one with the same `name` and the same member keys -/
theorem StSim.setChan {st st' : St} (h : WInvCore st) {lc : String} {ch ch' : Channel}
    (hg : AMap.get st.channels lc = some ch) (hcore : ch'.core = ch.core)
    (hs : st'.sessions = st.sessions) (hn : st'.nicks = st.nicks) (hc : st'.channels = AMap.set st.channels lc ch') :
    StSim st st' :=
  ⟨by rw [hs]; exact MapSim.refl h.sessNodup, hn, by rw [hc]; exact MapSim.set h.chanNodup hg hcore⟩

theorem StSim.putS {c : Ctx} (h : WInvCore c.st) {s s' : Session}
    (hg : AMap.get c.st.sessions s'.id = some s) (hcore : s'.core = s.core) : StSim c.st (putS c s').st :=
  StSim.setSession h hg hcore rfl rfl rfl

/-- `modS` with a function that keeps `id/deleted/nick/channels` -/
theorem StSim.modS {c c' : Ctx} (h : WInvCore c.st) {sid : Id} {f : Session → Session}
    (hf : ∀ s, (f s).id = s.id ∧ (f s).deleted = s.deleted ∧ (f s).nick = s.nick ∧ (f s).channels = s.channels)
    (hr : modS c sid f = Res.ok c') : StSim c.st c'.st := by
  obtain ⟨s, hg, rfl⟩ := modS_eq_ok.1 hr
  have hid : (f s).id = sid := by rw [(hf s).1]; exact (h.sessId sid s hg).1
  exact StSim.putS h (by rw [hid]; exact hg) (Session.core_eq.2 (hf s))

theorem StSim.putChan {c : Ctx} (h : WInvCore c.st) {lc : String} {ch ch' : Channel}
    (hg : AMap.get c.st.channels lc = some ch) (hname : ch'.name = ch.name)
    (hkeys : AMap.keys ch'.nicks = AMap.keys ch.nicks) : StSim c.st (putChan c lc ch').st :=
  StSim.setChan h hg (Channel.core_eq.2 ⟨hname, hkeys⟩) rfl rfl rfl

/-! ### the task's named forms -/

theorem WInv_modS_inert {c c' : Ctx} {sid : Id} (f : Session → Session)
    (hf : ∀ s, (f s).id = s.id ∧ (f s).deleted = s.deleted ∧ (f s).nick = s.nick ∧ (f s).channels = s.channels)
    (h : WInv c.st) (hr : modS c sid f = Res.ok c') : WInv c'.st :=
  h.sim (StSim.modS h.toWInvCore hf hr)

theorem HInv_modS_inert {c c' : Ctx} {sid : Id} (f : Session → Session)
    (hf : ∀ s, (f s).id = s.id ∧ (f s).deleted = s.deleted ∧ (f s).nick = s.nick ∧ (f s).channels = s.channels)
    (h : HInv c.st) (hr : modS c sid f = Res.ok c') : HInv c'.st :=
  h.sim (StSim.modS h.toWInvCore hf hr)

theorem WInv_putS_inert {c : Ctx} {s s' : Session} (h : WInv c.st)
    (hg : AMap.get c.st.sessions s'.id = some s)
    (hf : s'.id = s.id ∧ s'.deleted = s.deleted ∧ s'.nick = s.nick ∧ s'.channels = s.channels) :
    WInv (putS c s').st :=
  h.sim (StSim.putS h.toWInvCore hg (Session.core_eq.2 hf))

theorem HInv_putS_inert {c : Ctx} {s s' : Session} (h : HInv c.st)
    (hg : AMap.get c.st.sessions s'.id = some s)
    (hf : s'.id = s.id ∧ s'.deleted = s.deleted ∧ s'.nick = s.nick ∧ s'.channels = s.channels) :
    HInv (putS c s').st :=
  h.sim (StSim.putS h.toWInvCore hg (Session.core_eq.2 hf))

/-- channel updates that keep `name` and the member set (topic, modes, key, bans, and
MODE `+o`, `-o` on an existing member via `AMap.keys_set_of_mem`) -/
theorem WInv_putChan_inert {c : Ctx} {lc : String} {ch ch' : Channel} (h : WInv c.st)
    (hg : AMap.get c.st.channels lc = some ch) (hname : ch'.name = ch.name)
    (hkeys : AMap.keys ch'.nicks = AMap.keys ch.nicks) : WInv (putChan c lc ch').st :=
  h.sim (StSim.putChan h.toWInvCore hg hname hkeys)

theorem HInv_putChan_inert {c : Ctx} {lc : String} {ch ch' : Channel} (h : HInv c.st)
    (hg : AMap.get c.st.channels lc = some ch) (hname : ch'.name = ch.name)
    (hkeys : AMap.keys ch'.nicks = AMap.keys ch.nicks) : HInv (putChan c lc ch').st :=
  h.sim (StSim.putChan h.toWInvCore hg hname hkeys)

/-- MODE `+o`, `-o` on an existing member keeps the member keys -/
theorem keys_setMember {ch : Channel} {n : String} {mem : Member} (mem' : Member)
    (h : AMap.get ch.nicks n = some mem) : AMap.keys (AMap.set ch.nicks n mem') = AMap.keys ch.nicks :=
  AMap.keys_set_of_mem _ (AMap.mem_keys_of_get h)

/-- session lookups after an inert update: same key set, same `id/deleted/nick/channels` -/
theorem StSim.getS {st st' : St} (hs : StSim st st') {sid : Id} {s : Session}
    (hg : AMap.get st.sessions sid = some s) :
    ∃ s', AMap.get st'.sessions sid = some s' ∧ s'.id = s.id ∧ s'.deleted = s.deleted ∧ s'.nick = s.nick ∧
      s'.channels = s.channels := by
  obtain ⟨s', h1, h2⟩ := hs.sess.fwd hg
  exact ⟨s', h1, Session.core_eq.1 h2⟩

/-! ### `updateLastClientMessageID` -/

theorem StSim.updateLastClientMessageID {st st' : St} {e : Entry} (h : WInvCore st)
    (hr : updateLastClientMessageID st e = some st') : StSim st st' := by
  unfold Robust.Irc.updateLastClientMessageID at hr
  cases hg : AMap.get st.sessions e.session with
  | none => simp [hg] at hr
  | some s =>
    simp only [hg, Option.some.injEq] at hr
    subst hr
    refine StSim.setSession h hg ?_ rfl rfl rfl
    rfl

theorem Inv_updateLastClientMessageID {st st' : St} {e : Entry} (h : Inv st)
    (hr : updateLastClientMessageID st e = some st') : Inv st' :=
  h.sim (StSim.updateLastClientMessageID h.toWInvCore hr)

theorem HInv_updateLastClientMessageID {st st' : St} {e : Entry} (h : HInv st)
    (hr : updateLastClientMessageID st e = some st') : HInv st' :=
  h.sim (StSim.updateLastClientMessageID h.toWInvCore hr)

theorem WInv_updateLastClientMessageID {st st' : St} {e : Entry} (h : WInv st)
    (hr : updateLastClientMessageID st e = some st') : WInv st' :=
  h.sim (StSim.updateLastClientMessageID h.toWInvCore hr)

end Robust.Irc
