import Robust.Irc.Proofs.HandlerSpec
/-!
Transfer lemmas for the read-only / inert client handlers (group H2).

* `NoPanic r`      – `r` is not `.panic _` (closed under `>>=`);
* `Emits c c'`     – `c'` is `c` plus output: same `st`, `out` only grows, same `msgid`;
* `Inert c c'`     – `c'.st` is `StSim`-similar to `c.st`, `loggedIn` of every stored session is
                     unchanged, `out` only grows, same `msgid`;
* `Inert.post`     – `Pre c sid → Inert c c' → Post c c' sid`.
-/
namespace Robust.Irc
open AMap

/-! ### panic-freedom -/

namespace Rd
def NoPanic {α : Type} (r : Res α) : Prop := ∀ site, r ≠ Res.panic site

theorem NoPanic.ok {α : Type} (a : α) : NoPanic (Res.ok a) := fun _ h => by cases h
theorem NoPanic.pure {α : Type} (a : α) : NoPanic (Pure.pure a : Res α) := fun _ h => by cases h
theorem NoPanic.declined {α : Type} (w : String) : NoPanic (Res.declined w : Res α) := fun _ h => by cases h

theorem NoPanic.of_ok {α : Type} {r : Res α} (h : ∃ a, r = Res.ok a) : NoPanic r := by
  obtain ⟨a, rfl⟩ := h; exact NoPanic.ok a

theorem NoPanic.bind {α β : Type} {x : Res α} {f : α → Res β} (hx : NoPanic x)
    (hf : ∀ a, x = Res.ok a → NoPanic (f a)) : NoPanic (x >>= f) := by
  cases x with
  | ok a => exact hf a rfl
  | panic s => exact absurd rfl (hx s)
  | declined w => exact NoPanic.declined w

theorem NoPanic.bind' {α β : Type} {x : Res α} {f : α → Res β} (hx : NoPanic x)
    (hf : ∀ a, x = Res.ok a → NoPanic (f a)) : NoPanic (Res.bind x f) := NoPanic.bind hx hf

theorem NoPanic.ite {α : Type} {p : Prop} [Decidable p] {a b : Res α} (ha : p → NoPanic a) (hb : ¬p → NoPanic b) :
    NoPanic (if p then a else b) := by
  split
  · exact ha ‹_›
  · exact hb ‹_›

theorem param_ok {m : IrcMsg} {i : Nat} (h : i < m.params.length) : param m i = Res.ok (m.params[i]) := by
  unfold param
  rw [List.getElem?_eq_getElem h]
end Rd
open Rd

theorem mapRes_noPanic {α β : Type} {f : α → Res β} {l : List α} (h : ∀ a ∈ l, NoPanic (f a)) :
    NoPanic (mapRes f l) := by
  induction l with
  | nil => exact NoPanic.ok _
  | cons a t ih =>
    unfold mapRes
    refine NoPanic.bind (h a (List.mem_cons_self ..)) fun b _ => ?_
    refine NoPanic.bind (ih fun x hx => h x (List.mem_cons_of_mem _ hx)) fun bs _ => ?_
    exact NoPanic.ok _

/-- elements of a successful `mapRes` come from elements of the input -/
theorem mapRes_mem {α β : Type} {f : α → Res β} {l : List α} {bs : List β} (h : mapRes f l = Res.ok bs)
    {b : β} (hb : b ∈ bs) : ∃ a ∈ l, f a = Res.ok b := by
  induction l generalizing bs with
  | nil => cases h; cases hb
  | cons a t ih =>
    unfold mapRes at h
    obtain ⟨b0, hb0, h⟩ := Res.bind_eq_ok.1 h
    obtain ⟨bs0, hbs0, h⟩ := Res.bind_eq_ok.1 h
    cases h
    rcases List.mem_cons.1 hb with rfl | hb
    · exact ⟨a, List.mem_cons_self .., hb0⟩
    · obtain ⟨a', ha', hf⟩ := ih hbs0 hb
      exact ⟨a', List.mem_cons_of_mem _ ha', hf⟩

namespace Rd
theorem foldlM_noPanic {α : Type} {f : Ctx → α → Res Ctx} (P : Ctx → Prop) {l : List α}
    (hP : ∀ c a c', a ∈ l → P c → f c a = Res.ok c' → P c')
    (hf : ∀ c a, a ∈ l → P c → NoPanic (f c a)) {c : Ctx} (hc : P c) : NoPanic (l.foldlM f c) := by
  induction l generalizing c with
  | nil => exact NoPanic.ok _
  | cons a t ih =>
    rw [List.foldlM_cons]
    refine NoPanic.bind (hf c a (List.mem_cons_self ..) hc) fun c1 h1 => ?_
    exact ih (fun c a c' ha => hP c a c' (List.mem_cons_of_mem _ ha))
      (fun c a ha => hf c a (List.mem_cons_of_mem _ ha)) (hP c a c1 (List.mem_cons_self ..) hc h1)
end Rd
open Rd

/-! ### output only -/

structure Emits (c c' : Ctx) : Prop where
  st : c'.st = c.st
  out : ∃ extra, c'.out = c.out ++ extra
  msgid : c'.msgid = c.msgid

theorem Emits.refl (c : Ctx) : Emits c c := ⟨rfl, ⟨[], by simp⟩, rfl⟩

theorem Emits.trans {a b c : Ctx} (h1 : Emits a b) (h2 : Emits b c) : Emits a c := by
  obtain ⟨e1, he1⟩ := h1.out
  obtain ⟨e2, he2⟩ := h2.out
  exact ⟨h2.st.trans h1.st, ⟨e1 ++ e2, by rw [he2, he1, List.append_assoc]⟩, h2.msgid.trans h1.msgid⟩

theorem Emits.emit {c c' : Ctx} (h : Emits c c') (m : IrcMsg) (r : List Nat) : Emits c (emit c' m r) := by
  obtain ⟨e1, he1⟩ := h.out
  refine ⟨h.st, ⟨e1 ++ [⟨c'.msgid, c'.replyid + 1, m.render, r⟩], ?_⟩, h.msgid⟩
  show c'.out ++ _ = _
  rw [he1, List.append_assoc]

theorem Emits.sendUser {c c' : Ctx} (h : Emits c c') (sid : Id) (m : IrcMsg) : Emits c (sendUser c' sid m) :=
  h.emit m _

theorem Emits.sendSvc {c c' : Ctx} (h : Emits c c') (m : IrcMsg) : Emits c (sendSvc c' m) :=
  h.emit m _

theorem Emits.ite {c : Ctx} {p : Prop} [Decidable p] {a b : Ctx} (ha : Emits c a) (hb : Emits c b) :
    Emits c (if p then a else b) := by
  split <;> assumption

theorem Emits.foldl {α : Type} {f : Ctx → α → Ctx} {c0 : Ctx} (l : List α)
    (hf : ∀ c a, Emits c0 c → Emits c0 (f c a)) {c : Ctx} (hc : Emits c0 c) : Emits c0 (l.foldl f c) := by
  induction l generalizing c with
  | nil => exact hc
  | cons a t ih => exact ih (hf c a hc)

theorem Emits.foldlM {α : Type} {f : Ctx → α → Res Ctx} {c0 : Ctx} (l : List α)
    (hf : ∀ c a c', Emits c0 c → f c a = Res.ok c' → Emits c0 c') {c c' : Ctx} (hc : Emits c0 c)
    (hr : l.foldlM f c = Res.ok c') : Emits c0 c' := by
  induction l generalizing c with
  | nil => cases hr; exact hc
  | cons a t ih =>
    rw [List.foldlM_cons] at hr
    obtain ⟨c1, h1, hr⟩ := Res.bind_eq_ok.1 hr
    exact ih (hf c a c1 hc h1) hr

/-- closes goals `Emits c (sendUser (emit (… c …) …) …)` -/
macro "emits_tac" : tactic =>
  `(tactic| repeat (first
      | assumption
      | exact Emits.refl _
      | apply Emits.sendUser
      | apply Emits.sendSvc
      | apply Emits.emit
      | apply Emits.ite))

/-! ### inert updates -/

structure Inert (c c' : Ctx) : Prop where
  sim : StSim c.st c'.st
  logged : ∀ id s', AMap.get c'.st.sessions id = some s' →
    ∃ s, AMap.get c.st.sessions id = some s ∧ s'.loggedIn = s.loggedIn ∧ s'.nick = s.nick ∧ s'.server = s.server
  out : ∃ extra, c'.out = c.out ++ extra
  msgid : c'.msgid = c.msgid

theorem Inert.of_emits {c c' : Ctx} (hw : WInvCore c.st) (h : Emits c c') : Inert c c' := by
  refine ⟨by rw [h.st]; exact StSim.refl hw, fun id s' hg => ?_, h.out, h.msgid⟩
  rw [h.st] at hg
  exact ⟨s', hg, rfl, rfl, rfl⟩

theorem Inert.refl {c : Ctx} (hw : WInvCore c.st) : Inert c c := Inert.of_emits hw (Emits.refl c)

theorem Inert.trans {a b c : Ctx} (h1 : Inert a b) (h2 : Inert b c) : Inert a c := by
  obtain ⟨e1, he1⟩ := h1.out
  obtain ⟨e2, he2⟩ := h2.out
  refine ⟨h1.sim.trans h2.sim, fun id s'' hg => ?_, ⟨e1 ++ e2, by rw [he2, he1, List.append_assoc]⟩,
    h2.msgid.trans h1.msgid⟩
  obtain ⟨s', hg', e1, e2, e5⟩ := h2.logged id s'' hg
  obtain ⟨s, hg0, e3, e4, e6⟩ := h1.logged id s' hg'
  exact ⟨s, hg0, e1.trans e3, e2.trans e4, e5.trans e6⟩

theorem Inert.emits {a b c : Ctx} (h1 : Inert a b) (h2 : Emits b c) : Inert a c := by
  obtain ⟨e1, he1⟩ := h1.out
  obtain ⟨e2, he2⟩ := h2.out
  refine ⟨by rw [h2.st]; exact h1.sim, fun id s' hg => ?_, ⟨e1 ++ e2, by rw [he2, he1, List.append_assoc]⟩,
    h2.msgid.trans h1.msgid⟩
  rw [h2.st] at hg
  exact h1.logged id s' hg

theorem Inert.emit {c c' : Ctx} (h : Inert c c') (m : IrcMsg) (r : List Nat) : Inert c (emit c' m r) :=
  h.emits ((Emits.refl c').emit m r)

theorem Inert.sendUser {c c' : Ctx} (h : Inert c c') (sid : Id) (m : IrcMsg) : Inert c (sendUser c' sid m) :=
  h.emit m _

theorem Inert.ite {c : Ctx} {p : Prop} [Decidable p] {a b : Ctx} (ha : Inert c a) (hb : Inert c b) :
    Inert c (if p then a else b) := by
  split <;> assumption

/-- the invariants transfer along inert updates -/
theorem Inert.winvCore {c c' : Ctx} (h : Inert c c') (hw : WInvCore c.st) : WInvCore c'.st := hw.sim h.sim
theorem Inert.winv {c c' : Ctx} (h : Inert c c') (hw : WInv c.st) : WInv c'.st := hw.sim h.sim
theorem Inert.hinv {c c' : Ctx} (h : Inert c c') (hw : HInv c.st) : HInv c'.st := hw.sim h.sim
theorem Inert.inv {c c' : Ctx} (h : Inert c c') (hw : Inv c.st) : Inv c'.st := hw.sim h.sim
theorem Inert.linv {c c' : Ctx} (h : Inert c c') (hl : LInv c.st) : LInv c'.st :=
  hl.of_sessions fun id s' hg => by
    obtain ⟨s, h1, h2, h3, _⟩ := h.logged id s' hg
    exact ⟨s, h1, h2, h3⟩

/-- `modS` with a function that keeps `id/deleted/nick/channels/loggedIn` -/
theorem Inert.modS {c0 c c' : Ctx} (h : Inert c0 c) (hw : WInvCore c0.st) {sid : Id} {f : Session → Session}
    (hr : modS c sid f = Res.ok c')
    (hf : ∀ s, (f s).id = s.id ∧ (f s).deleted = s.deleted ∧ (f s).nick = s.nick ∧ (f s).channels = s.channels)
    (hl : ∀ s, (f s).loggedIn = s.loggedIn ∧ (f s).server = s.server) : Inert c0 c' := by
  refine h.trans ⟨StSim.modS (h.winvCore hw) hf hr, fun id s' hg => ?_, ?_, ?_⟩
  · obtain ⟨s, hs, rfl⟩ := modS_eq_ok.1 hr
    rw [putS_sessions, AMap.get_set] at hg
    split at hg
    · rename_i he
      cases hg
      have hid : (f s).id = sid := by rw [(hf s).1]; exact ((h.winvCore hw).sessId sid s hs).1
      rw [he, hid]
      exact ⟨s, hs, (hl s).1, (hf s).2.2.1, (hl s).2⟩
    · exact ⟨s', hg, rfl, rfl, rfl⟩
  · obtain ⟨s, hs, rfl⟩ := modS_eq_ok.1 hr
    exact ⟨[], by simp⟩
  · obtain ⟨s, hs, rfl⟩ := modS_eq_ok.1 hr
    rfl

/-- storing a channel over a stored one with the same `name` and member keys -/
theorem Inert.putChan {c0 c : Ctx} (h : Inert c0 c) (hw : WInvCore c0.st) {lc : String} {ch ch' : Channel}
    (hg : AMap.get c.st.channels lc = some ch) (hname : ch'.name = ch.name)
    (hkeys : AMap.keys ch'.nicks = AMap.keys ch.nicks) : Inert c0 (putChan c lc ch') :=
  h.trans ⟨StSim.putChan (h.winvCore hw) hg hname hkeys, fun id s' hg' => ⟨s', hg', rfl, rfl, rfl⟩, ⟨[], by simp⟩, rfl⟩

theorem Inert.foldl {α : Type} {f : Ctx → α → Ctx} {c0 : Ctx} (l : List α)
    (hf : ∀ c a, Inert c0 c → Inert c0 (f c a)) {c : Ctx} (hc : Inert c0 c) : Inert c0 (l.foldl f c) := by
  induction l generalizing c with
  | nil => exact hc
  | cons a t ih => exact ih (hf c a hc)

/-- a stored channel stays stored (with the same name and member keys) -/
theorem Inert.getChan {c c' : Ctx} (h : Inert c c') {lc : String} {ch : Channel}
    (hg : AMap.get c.st.channels lc = some ch) :
    ∃ ch', AMap.get c'.st.channels lc = some ch' ∧ ch'.name = ch.name ∧ AMap.keys ch'.nicks = AMap.keys ch.nicks := by
  obtain ⟨ch', h1, h2⟩ := h.sim.chans.fwd hg
  exact ⟨ch', h1, Channel.core_eq.1 h2⟩

theorem Inert.post {c c' : Ctx} {sid : Id} (hp : Pre c sid) (h : Inert c c') : Post c c' sid where
  hinv := h.hinv hp.inv.toHInv
  linv := h.linv hp.linv
  actorKept := by
    obtain ⟨s, hs⟩ := hp.actor
    obtain ⟨s', hs', _⟩ := h.sim.getS hs
    exact ⟨s', hs'⟩
  flagged := fun id s hg hd => by
    have := (h.inv hp.inv).noDeleted id s hg
    rw [this] at hd
    cases hd
  outGrows := h.out
  msgid := h.msgid

theorem Emits.post {c c' : Ctx} {sid : Id} (hp : Pre c sid) (h : Emits c c') : Post c c' sid :=
  (Inert.of_emits hp.inv.toWInvCore h).post hp

/-- `Preserves` from an `Inert` statement -/
theorem Preserves.of_inert {h : Ctx → Id → IrcMsg → Res Ctx}
    (hi : ∀ c sid m c', WInvCore c.st → h c sid m = Res.ok c' → Inert c c') : Preserves h :=
  fun c sid m c' hp hr => (hi c sid m c' hp.inv.toWInvCore hr).post hp

theorem Preserves.of_emits {h : Ctx → Id → IrcMsg → Res Ctx}
    (hi : ∀ c sid m c', h c sid m = Res.ok c' → Emits c c') : Preserves h :=
  fun c sid m c' hp hr => (hi c sid m c' hr).post hp

namespace Rd
/-- a logged-in stored session of a state satisfying `LInv` and `Inv` is live and has a nick -/
theorem Pre.live {c : Ctx} {sid : Id} (hp : Pre c sid) {s : Session} (hs : AMap.get c.st.sessions sid = some s) :
    s.deleted = false := hp.inv.noDeleted sid s hs
end Rd
open Rd

end Robust.Irc

namespace Robust.Irc
open Rd
open AMap

/-- a stored session stays stored along inert updates -/
theorem Inert.getS_ok {c c' : Ctx} (h : Inert c c') {sid : Id} {s : Session}
    (hs : AMap.get c.st.sessions sid = some s) :
    ∃ s', getS c' sid = Res.ok s' ∧ s'.id = s.id ∧ s'.deleted = s.deleted ∧ s'.nick = s.nick ∧
      s'.channels = s.channels := by
  obtain ⟨s', h1, h2⟩ := h.sim.getS hs
  exact ⟨s', getS_of_get h1, h2⟩

/-- the session an index entry points to is stored -/
theorem getS_indexed_ok {c : Ctx} (hw : WInvCore c.st) {lc : String} {tid : Id}
    (hi : AMap.get c.st.nicks lc = some tid) :
    ∃ t, getS c tid = Res.ok t ∧ AMap.get c.st.sessions tid = some t ∧ t.deleted = false ∧ nickToLower t.nick = lc := by
  obtain ⟨t, h1, h2, h3⟩ := hw.index lc tid hi
  exact ⟨t, getS_of_get h1, h1, h2, h3⟩

end Robust.Irc

namespace Robust.Irc
open Rd
/-- brute-force walk through a read-only handler: `emits_auto hr` with `hr : … = Res.ok c'` -/
macro "emits_auto" h:ident : tactic =>
  `(tactic| repeat' (first
      | split at $h:ident
      | (obtain ⟨_, _, $h:ident⟩ := Res.bind_eq_ok.1 $h:ident)
      | dsimp only at $h:ident
      | (cases $h:ident; emits_tac; done)))
end Robust.Irc

namespace Robust.Irc
open Rd
/-- closes goals `Inert c (sendUser (emit (… c1 …) …) …)` from `Inert c c1` or `WInvCore c.st` in the context -/
macro "inert_tac" : tactic =>
  `(tactic| repeat (first
      | assumption
      | exact Inert.refl (by assumption)
      | apply Inert.sendUser
      | apply Inert.emit
      | apply Inert.ite))
end Robust.Irc

namespace Robust.Irc
open Rd
/-- like `inert_tac`, also through `putChan` of a channel value with the same name and member map
(needs `WInvCore c0.st` and `AMap.get c.st.channels lc = some ch` in the context) -/
macro "inert_tac'" : tactic =>
  `(tactic| repeat (first
      | assumption
      | exact Inert.refl (by assumption)
      | apply Inert.sendUser
      | apply Inert.emit
      | apply Inert.ite
      | (refine Inert.putChan (ch := ?_) ?_ (by assumption) (by assumption) ?_ ?_ <;> try exact rfl)))

macro "inert_auto" h:ident : tactic =>
  `(tactic| repeat' (first
      | split at $h:ident
      | (obtain ⟨_, _, $h:ident⟩ := Res.bind_eq_ok.1 $h:ident)
      | dsimp only at $h:ident
      | (cases $h:ident; inert_tac'; done)))
end Robust.Irc

namespace Robust.Irc
open Rd
/-- walks through `if`/`match` in a goal `NoPanic …`, closing the leaves `.ok`, `pure`, `.declined` -/
macro "nopanic_tac" : tactic =>
  `(tactic| repeat' (first
      | split
      | dsimp only
      | with_reducible exact NoPanic.ok _
      | with_reducible exact NoPanic.pure _
      | with_reducible exact NoPanic.declined _))
end Robust.Irc
