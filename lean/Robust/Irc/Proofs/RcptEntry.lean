import Robust.Irc.Proofs.RcptPrivmsg
/-!
C12: from the handlers to whole entries.  What `applyEntry` does with an `IRCFromClient` entry of a
registered client session: bookkeeping (`updateLastClientMessageID`, the remote-address stage — both
leave nick index, channels, channel lists, identity fields and the output untouched), then — unless the
address is banned (one `ERROR` line to that session) — the handler the command table names.
-/
namespace Robust.Irc
open Robust AMap

/-- a client session's command goes to the handler the table names, if enough parameters are given -/
theorem dispatchStage_client {c : Ctx} {s : Session} {m : IrcMsg} {command fname : String} {mp : Nat} {h : Handler}
    (hsrv : s.server = false) (hl : lookupCommand command = some (fname, mp)) (hlen : mp ≤ m.params.length)
    (hh : handlerByName fname = some h) : dispatchStage c s m command = h c s.id m := by
  unfold dispatchStage
  simp only [hsrv, Bool.false_eq_true, ↓reduceIte, String.empty_append]
  rw [hl]
  simp only
  rw [if_neg (by omega), hh]

/-- a registered session passes the gate -/
theorem gateStage_loggedIn {c : Ctx} {e : Entry} {m : IrcMsg} {command : String} {s : Session}
    (hs : AMap.get c.st.sessions e.session = some s) (hl : s.loggedIn = true) :
    gateStage c e m command = dispatchStage c s m command := by
  unfold gateStage
  rw [getS_of_get hs]
  simp only [Res.ok_bind]
  rw [if_neg (by simp [hl])]

/-- the context after the remote-address stage (when the address is not banned): unchanged, or only
the actor's `remoteAddr` updated -/
def AddrStep (c c1 : Ctx) (e : Entry) (s s1 : Session) : Prop :=
  (c1 = c ∧ s1 = s) ∨
  (c1 = putS c { s with remoteAddr := e.remoteAddr } ∧ s1 = { s with remoteAddr := e.remoteAddr })

theorem addrStage_cases {c c1 : Ctx} {e : Entry} {s : Session} {b : Bool} (hi : Inv c.st)
    (hs : AMap.get c.st.sessions e.session = some s)
    (hr : addrStage c e s = .ok (c1, b)) :
    (b = true → NewOut (ToOnly e.session) c c1) ∧ (b = false → ∃ s1, AddrStep c c1 e s s1) := by
  have hid : s.id = e.session := (hi.sessId _ s hs).1
  unfold addrStage at hr
  rw [hid] at hr
  split at hr
  · obtain ⟨c0, hm, hr⟩ := Res.bind_eq_ok.1 hr
    have hw0 : WInv c0.st :=
      WInv_modS_inert (fun s => { s with remoteAddr := e.remoteAddr }) (fun _ => ⟨rfl, rfl, rfl, rfl⟩) hi.toWInv hm
    have hg0 := modS_get_self (f := fun s => { s with remoteAddr := e.remoteAddr }) hs hid hm
    obtain ⟨s0, hs0, rfl⟩ := modS_eq_ok.1 hm
    rw [hs] at hs0; cases hs0
    split at hr
    · split at hr
      · obtain ⟨c2, hd, hr⟩ := Res.bind_eq_ok.1 hr
        cases hr
        refine ⟨fun _ => ?_, fun h => (by cases h)⟩
        have sp := deleteSession_spec (c := sendUser (putS c { s with remoteAddr := e.remoteAddr }) e.session _)
          hw0 hg0 (DelPre.of_live (hi.noDeleted _ s hs)) hd
        exact ((((NewOut.refl _ c).step (c' := putS c { s with remoteAddr := e.remoteAddr }) rfl).sendUser
          (m := _) fun _ _ => rfl)).frame sp.frame
      · cases hr
        exact ⟨fun h => (by cases h), fun _ => ⟨_, Or.inr ⟨rfl, rfl⟩⟩⟩
    · cases hr
      exact ⟨fun h => (by cases h), fun _ => ⟨_, Or.inr ⟨rfl, rfl⟩⟩⟩
  · cases hr
    exact ⟨fun h => (by cases h), fun _ => ⟨s, Or.inl (And.intro rfl rfl)⟩⟩

end Robust.Irc
