import Robust.Irc.Proofs.H2Base
/-! TOPIC -/
namespace Robust.Irc
open Rd
open AMap

theorem cmdTopic_inert {c c' : Ctx} {sid : Id} {m : IrcMsg} (hw : WInvCore c.st)
    (hr : cmdTopic c sid m = .ok c') : Inert c c' := by
  unfold cmdTopic at hr
  simp only [getChan_eq] at hr
  inert_auto hr

theorem cmdTopic_preserves : Preserves cmdTopic := Preserves.of_inert fun _ _ _ _ => cmdTopic_inert

theorem mem_of_not_not_contains {l : List String} {x : String} (h : ¬ (!l.contains x) = true) : x ∈ l := by
  cases hc : l.contains x with
  | true => exact List.contains_iff_mem.1 hc
  | false => rw [hc] at h; exact absurd rfl h

/-- TOPIC (any form) cannot panic for a stored live session with a nickname -/
theorem cmdTopic_noPanic {c : Ctx} {sid : Id} {s : Session} {m : IrcMsg} (hw : WInv c.st)
    (hs : AMap.get c.st.sessions sid = some s) (hlive : s.deleted = false) (hnick : s.nick ≠ "")
    (hn : 1 ≤ m.params.length) : NoPanic (cmdTopic c sid m) := by
  unfold cmdTopic
  rw [getS_of_get hs, param_ok (Nat.lt_of_lt_of_le Nat.zero_lt_one hn)]
  simp only [Res.ok_bind, getChan_eq]
  split
  · exact NoPanic.ok _
  rename_i ch hch
  split
  · exact NoPanic.ok _
  rename_i hcont
  obtain ⟨ch2, mem, h1, h2⟩ := hw.listed_member hs hlive hnick (mem_of_not_not_contains hcont)
  rw [hch] at h1; cases h1
  have hmi : ∀ (c1 : Ctx) (ch' : Channel), c1.st.nicks = c.st.nicks → ch'.nicks = ch.nicks →
      NoPanic (rcChannel c1.st ch') := fun c1 ch' e1 e2 =>
    NoPanic.of_ok (rcChannel_ok_of_indexed (fun n hn => by rw [e1]; rw [e2] at hn; exact hw.membersIndexed hch n hn))
  simp only [h2, Res.ok_bind]
  repeat' (first
    | split
    | (refine NoPanic.bind (hmi _ _ (by rfl) (by rfl)) fun _ _ => ?_)
    | exact NoPanic.ok _
    | exact NoPanic.pure _)

/-- TOPIC in its query form (exactly one parameter) cannot panic for any stored session -/
theorem cmdTopic_noPanic_query {c : Ctx} {sid : Id} {s : Session} {m : IrcMsg}
    (hs : AMap.get c.st.sessions sid = some s) (hn : m.params.length = 1) : NoPanic (cmdTopic c sid m) := by
  unfold cmdTopic
  rw [getS_of_get hs, param_ok (by omega)]
  simp only [Res.ok_bind, getChan_eq]
  split
  · exact NoPanic.ok _
  split
  · exact NoPanic.ok _
  have h2 : (m.trailing == "" && m.params.length == 2) = false := by rw [hn]; simp
  have h1 : (m.params.length == 1) = true := by rw [hn]; rfl
  rw [if_neg (by rw [h2]; exact Bool.false_ne_true), if_pos h1]
  split <;> exact NoPanic.ok _

theorem cmdTopic_safe : ClientSafe cmdTopic 1 true :=
  fun _ sid _ s hp hs _ hl hn =>
    cmdTopic_noPanic hp.inv.toWInv hs (hp.inv.noDeleted sid s hs) (hp.linv sid s hs (hl rfl)) hn

/-- the form used by JOIN / SVSJOIN: an arbitrary stored live session with a nickname -/
theorem cmdTopic_safe_member {c : Ctx} {sid : Id} {s : Session} {m : IrcMsg} (hw : WInv c.st)
    (hs : AMap.get c.st.sessions sid = some s) (hlive : s.deleted = false) (hnick : s.nick ≠ "")
    (hn : 1 ≤ m.params.length) : ∀ site, cmdTopic c sid m ≠ .panic site :=
  cmdTopic_noPanic hw hs hlive hnick hn

end Robust.Irc
