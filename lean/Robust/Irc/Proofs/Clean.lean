import Robust.Irc.Msg
/-!
Cleanliness (no CR / LF / NUL) of strings, byte strings and IRC messages, and the lemmas
needed for property C15: UTF-8 encoding of clean strings is clean, case mapping keeps
characters clean, every field produced by `parseMessage` is built from characters of the input.
-/
namespace Robust.Irc
open Robust

def cleanChar (c : Char) : Bool := c != '\r' && c != '\n' && c.toNat != 0
def Clean (s : String) : Prop := ∀ c ∈ s.toList, cleanChar c = true
def CleanBytes (b : Bytes) : Prop := ∀ x ∈ b, x ≠ 13 ∧ x ≠ 10 ∧ x ≠ 0
def CleanMsg (m : IrcMsg) : Prop :=
  (∀ p, m.pfx = some p → Clean p.name ∧ Clean p.user ∧ Clean p.host) ∧ Clean m.command ∧
    ∀ p ∈ m.params, Clean p
/-- Go `firstLine`: everything before the first CR, LF or NUL -/
def firstLine (s : String) : String := String.ofList (s.toList.takeWhile cleanChar)

instance (s : String) : Decidable (Clean s) :=
  inferInstanceAs (Decidable (∀ c ∈ s.toList, cleanChar c = true))
instance (b : Bytes) : Decidable (CleanBytes b) :=
  inferInstanceAs (Decidable (∀ x ∈ b, x ≠ 13 ∧ x ≠ 10 ∧ x ≠ 0))
instance (m : IrcMsg) : Decidable (CleanMsg m) :=
  match h : m.pfx with
  | none =>
    if h2 : Clean m.command ∧ ∀ p ∈ m.params, Clean p then
      isTrue ⟨fun p hp => (by rw [h] at hp; cases hp), h2⟩
    else isFalse fun hc => h2 hc.2
  | some q =>
    if h2 : (Clean q.name ∧ Clean q.user ∧ Clean q.host) ∧ Clean m.command ∧ ∀ p ∈ m.params, Clean p then
      isTrue ⟨fun p hp => (by rw [h] at hp; cases hp; exact h2.1), h2.2⟩
    else isFalse fun hc => h2 ⟨hc.1 q h, hc.2⟩

/-- list-level cleanliness -/
def CleanL (l : List Char) : Prop := ∀ c ∈ l, cleanChar c = true

/-! ## UTF-8 representation -/
theorem byteArray_toList_loop (bs : ByteArray) (i : Nat) (r : List UInt8) :
    ByteArray.toList.loop bs i r = r.reverse ++ bs.data.toList.drop i := by
  fun_induction ByteArray.toList.loop bs i r with
  | case1 i r h ih =>
    rw [ih]
    have h' : i < bs.data.toList.length := by rw [Array.length_toList]; exact h
    rw [List.drop_eq_getElem_cons h']
    have : bs.get! i = bs.data.toList[i] := by
      cases bs with
      | mk d =>
        simp only [ByteArray.get!]
        have h2 : i < d.size := by simpa using h'
        simp [h2]
    rw [this]; simp
  | case2 i r h =>
    have : bs.data.toList.length ≤ i := by rw [Array.length_toList]; exact Nat.le_of_not_lt h
    simp [List.drop_eq_nil_of_le this]

theorem byteArray_toList (bs : ByteArray) : bs.toList = bs.data.toList := by
  simp [ByteArray.toList, byteArray_toList_loop]

theorem utf8_eq_flatMap (s : String) : utf8 s = s.toList.flatMap String.utf8EncodeChar := by
  unfold utf8
  rw [String.toUTF8_eq_toByteArray, ← String.utf8Encode_toList, byteArray_toList, List.utf8Encode,
    List.toList_data_toByteArray]

/-! ## bytes of one character -/
theorem cleanChar_iff (c : Char) : cleanChar c = true ↔ c.toNat ≠ 13 ∧ c.toNat ≠ 10 ∧ c.toNat ≠ 0 := by
  have h1 : c = '\r' ↔ c.toNat = 13 := by
    constructor
    · intro h; subst h; rfl
    · intro h; apply Char.ext; apply UInt32.toNat_inj.mp; exact h
  have h2 : c = '\n' ↔ c.toNat = 10 := by
    constructor
    · intro h; subst h; rfl
    · intro h; apply Char.ext; apply UInt32.toNat_inj.mp; exact h
  simp [cleanChar, h1, h2, and_assoc]

theorem utf8EncodeChar_bytes (c : Char) :
    ∀ x ∈ String.utf8EncodeChar c, (x.toNat = c.toNat) ∨ 128 ≤ x.toNat := by
  intro x hx
  unfold String.utf8EncodeChar at hx
  simp only [] at hx
  have hv : c.val.toNat = c.toNat := rfl
  rw [hv] at hx
  split at hx
  · simp at hx; subst hx; left; simp [UInt8.toNat_ofNat']; omega
  · right
    split at hx
    · simp at hx; rcases hx with hx | hx <;> subst hx <;> simp [UInt8.toNat_ofNat'] <;> omega
    · split at hx
      · simp at hx; rcases hx with hx | hx | hx <;> subst hx <;> simp [UInt8.toNat_ofNat'] <;> omega
      · simp at hx; rcases hx with hx | hx | hx | hx <;> subst hx <;> simp [UInt8.toNat_ofNat'] <;> omega

/-! ## case tables -/
theorem toNat_ofNat_valid (n : Nat) (hv : n < 0xd800 ∨ (0xdfff < n ∧ n < 0x110000)) : (Char.ofNat n).toNat = n := by
  have hv : n.isValidChar := hv
  unfold Char.ofNat
  rw [dif_pos hv]
  simp [Char.ofNatAux, Char.toNat]

theorem lookupTable_go_mem (t : Array (Nat × Nat)) (c : Nat) (fuel lo hi : Nat) (v : Nat)
    (h : lookupTable.go t c lo hi fuel = some v) : ∃ k, (k, v) ∈ t.toList := by
  induction fuel generalizing lo hi with
  | zero => simp [lookupTable.go] at h
  | succ f ih =>
    unfold lookupTable.go at h
    split at h
    · simp at h
    · simp only [] at h
      split at h
      · simp at h
      · rename_i k v' heq
        split at h
        · injection h with h; subst h
          refine ⟨k, ?_⟩
          have := Array.mem_of_getElem? heq
          simpa using this
        · split at h
          · exact ih _ _ h
          · exact ih _ _ h

theorem lookupTable_mem (t : Array (Nat × Nat)) (c v : Nat) (h : lookupTable t c = some v) :
    ∃ k, (k, v) ∈ t.toList := lookupTable_go_mem t c 32 0 t.size v h

def tableOk (t : List (Nat × Nat)) : Bool :=
  t.all (fun p => p.2 != 0 && p.2 != 10 && p.2 != 13 && (decide (p.2 < 0xd800) || (decide (0xdfff < p.2) && decide (p.2 < 0x110000))))

theorem upperTable_ok : tableOk Gen.Unicode.toUpperTable.toList = true := by decide +kernel
theorem lowerTable_ok : tableOk Gen.Unicode.toLowerTable.toList = true := by decide +kernel

theorem tableOk_clean (t : List (Nat × Nat)) (h : tableOk t = true) (k v : Nat) (hm : (k, v) ∈ t) :
    cleanChar (Char.ofNat v) = true := by
  have := List.all_eq_true.mp h (k, v) hm
  simp only [Bool.and_eq_true, Bool.or_eq_true, bne_iff_ne, decide_eq_true_eq] at this
  obtain ⟨⟨⟨h0, h10⟩, h13⟩, hv⟩ := this
  rw [cleanChar_iff, toNat_ofNat_valid v hv]
  exact ⟨h13, h10, h0⟩

theorem upperChar_clean (c : Char) (h : cleanChar c = true) : cleanChar (upperChar c) = true := by
  unfold upperChar
  split
  · split
    · rename_i h1 h2
      rw [Char.le_def, Char.le_def] at h2
      have ha : 97 ≤ c.toNat := UInt32.le_iff_toNat_le.mp h2.1
      have hz : c.toNat ≤ 122 := UInt32.le_iff_toNat_le.mp h2.2
      rw [cleanChar_iff, toNat_ofNat_valid _ (by omega)]
      omega
    · exact h
  · split
    · rename_i v hv
      obtain ⟨k, hk⟩ := lookupTable_mem _ _ _ hv
      exact tableOk_clean _ upperTable_ok k v hk
    · exact h

theorem lowerChar_clean (c : Char) (h : cleanChar c = true) : cleanChar (lowerChar c) = true := by
  unfold lowerChar
  split
  · split
    · rename_i h1 h2
      rw [Char.le_def, Char.le_def] at h2
      have ha : 65 ≤ c.toNat := UInt32.le_iff_toNat_le.mp h2.1
      have hz : c.toNat ≤ 90 := UInt32.le_iff_toNat_le.mp h2.2
      rw [cleanChar_iff, toNat_ofNat_valid _ (by omega)]
      omega
    · exact h
  · split
    · rename_i v hv
      obtain ⟨k, hk⟩ := lookupTable_mem _ _ _ hv
      exact tableOk_clean _ lowerTable_ok k v hk
    · exact h

/-! ## strings -/

theorem clean_ofList {l : List Char} (h : CleanL l) : Clean (String.ofList l) := by
  unfold Clean; rw [String.toList_ofList]; exact h

theorem clean_toList {s : String} (h : Clean s) : CleanL s.toList := h

theorem clean_empty : Clean "" := by
  intro c hc; simp at hc

theorem clean_append {a b : String} (ha : Clean a) (hb : Clean b) : Clean (a ++ b) := by
  intro c hc
  rw [String.toList_append, List.mem_append] at hc
  rcases hc with hc | hc
  · exact ha c hc
  · exact hb c hc

theorem CleanL.sub {l l' : List Char} (h : CleanL l) (hs : ∀ c ∈ l', c ∈ l) : CleanL l' :=
  fun c hc => h c (hs c hc)

theorem CleanL.take {l : List Char} (h : CleanL l) (n : Nat) : CleanL (l.take n) :=
  h.sub fun _ hc => List.mem_of_mem_take hc
theorem CleanL.drop {l : List Char} (h : CleanL l) (n : Nat) : CleanL (l.drop n) :=
  h.sub fun _ hc => List.mem_of_mem_drop hc
theorem CleanL.dropWhile {l : List Char} (h : CleanL l) (p : Char → Bool) : CleanL (l.dropWhile p) :=
  h.sub fun _ hc => (List.dropWhile_sublist p).subset hc
theorem CleanL.reverse {l : List Char} (h : CleanL l) : CleanL l.reverse :=
  h.sub fun _ hc => List.mem_reverse.mp hc
theorem CleanL.nil : CleanL [] := fun _ hc => by simp at hc

theorem clean_toUpper {s : String} (h : Clean s) : Clean (toUpper s) := by
  apply clean_ofList
  intro c hc
  obtain ⟨d, hd, rfl⟩ := List.mem_map.mp hc
  exact upperChar_clean d (h d hd)

theorem clean_toLower {s : String} (h : Clean s) : Clean (toLower s) := by
  apply clean_ofList
  intro c hc
  obtain ⟨d, hd, rfl⟩ := List.mem_map.mp hc
  exact lowerChar_clean d (h d hd)

theorem clean_joinStr {sep : String} {xs : List String} (hs : Clean sep) (hx : ∀ x ∈ xs, Clean x) :
    Clean (joinStr sep xs) := by
  unfold joinStr
  induction xs with
  | nil => simpa using clean_empty
  | cons a t ih =>
    cases t with
    | nil => simpa using hx a (by simp)
    | cons b t =>
      rw [String.intercalate_cons_cons]
      exact clean_append (clean_append (hx a (by simp)) hs) (ih fun x hx' => hx x (by simp [hx']))

theorem splitChar_go_clean (sep : Char) (cs cur : List Char) (acc : List String)
    (hcs : CleanL cs) (hcur : CleanL cur) (hacc : ∀ s ∈ acc, Clean s) :
    ∀ s ∈ splitChar.go sep cs cur acc, Clean s := by
  induction cs generalizing cur acc with
  | nil =>
    intro s hs
    simp only [splitChar.go, List.mem_reverse, List.mem_cons] at hs
    rcases hs with rfl | hs
    · exact clean_ofList hcur.reverse
    · exact hacc s hs
  | cons c rest ih =>
    have hrest : CleanL rest := hcs.sub fun _ h => List.mem_cons_of_mem _ h
    unfold splitChar.go
    split
    · apply ih _ _ hrest CleanL.nil
      intro s hs
      rcases List.mem_cons.mp hs with rfl | hs
      · exact clean_ofList hcur.reverse
      · exact hacc s hs
    · apply ih _ _ hrest _ hacc
      intro d hd
      rcases List.mem_cons.mp hd with rfl | hd
      · exact hcs _ (by simp)
      · exact hcur d hd

theorem splitChar_clean {s : String} (sep : Char) (h : Clean s) : ∀ x ∈ splitChar s sep, Clean x :=
  splitChar_go_clean sep s.toList [] [] h CleanL.nil (fun _ hs => by simp at hs)

/-! ## parsing -/

theorem parsePrefix_clean (raw : List Char) (h : CleanL raw) :
    Clean (parsePrefix raw).name ∧ Clean (parsePrefix raw).user ∧ Clean (parsePrefix raw).host := by
  unfold parsePrefix
  simp only []
  split <;> (repeat' split) <;> refine ⟨?_, ?_, ?_⟩ <;>
    first
    | exact clean_empty
    | exact clean_ofList h
    | exact clean_ofList (h.take _)
    | exact clean_ofList (h.drop _)
    | exact clean_ofList ((h.take _).drop _)

theorem parseRest_clean (pfx : Option Prefix) (r : List Char)
    (hp : ∀ p, pfx = some p → Clean p.name ∧ Clean p.user ∧ Clean p.host) (h : CleanL r) :
    CleanMsg (parseRest pfx r) := by
  unfold parseRest
  split
  · exact ⟨hp, clean_toUpper (clean_ofList h), fun _ hm => by simp at hm⟩
  · exact ⟨hp, clean_toUpper (clean_ofList h), fun _ hm => by simp at hm⟩
  · simp only []
    split
    · exact ⟨hp, clean_toUpper (clean_ofList (h.take _)),
        splitChar_clean _ (clean_ofList ((h.drop _).drop _))⟩
    · refine ⟨hp, clean_toUpper (clean_ofList (h.take _)), ?_⟩
      intro p hm
      simp only [List.mem_append, List.mem_singleton] at hm
      rcases hm with hm | rfl
      · split at hm
        · exact splitChar_clean _ (clean_ofList (((h.drop _).take _).drop _)) p hm
        · simp at hm
      · exact clean_ofList ((h.drop _).drop _)

theorem parseMessage_clean (raw : String) (m : IrcMsg) (h : Clean raw) (hp : parseMessage raw = some m) :
    CleanMsg m := by
  unfold parseMessage at hp
  simp only [] at hp
  have hcs : CleanL ((raw.toList.dropWhile isCutset).reverse.dropWhile isCutset).reverse :=
    (((clean_toList h).dropWhile _).reverse.dropWhile _).reverse
  generalize ((raw.toList.dropWhile isCutset).reverse.dropWhile isCutset).reverse = cs at hp hcs
  split at hp
  · simp at hp
  · split at hp
    · split at hp
      · simp at hp
      · split at hp
        · simp at hp
        · injection hp with hp; subst hp
          apply parseRest_clean _ _ _ (hcs.drop _)
          intro p hp; injection hp with hp; subst hp
          exact parsePrefix_clean _ ((hcs.take _).drop _)
    · injection hp with hp; subst hp
      exact parseRest_clean _ _ (fun _ hp => by simp at hp) hcs


/-! ## rendering -/

theorem cleanBytes_take {b : Bytes} (h : CleanBytes b) (n : Nat) : CleanBytes (b.take n) :=
  fun x hx => h x (List.mem_of_mem_take hx)

theorem utf8_clean (s : String) (h : Clean s) : CleanBytes (utf8 s) := by
  intro x hx
  rw [utf8_eq_flatMap, List.mem_flatMap] at hx
  obtain ⟨c, hc, hxc⟩ := hx
  have hcl := (cleanChar_iff c).mp (h c hc)
  have hb := utf8EncodeChar_bytes c x hxc
  refine ⟨?_, ?_, ?_⟩ <;> intro he <;> subst he <;> simp at hb <;> omega

theorem clean_lit_colon : Clean ":" := by intro c hc; simp at hc; subst hc; decide
theorem clean_lit_space : Clean " " := by intro c hc; simp at hc; subst hc; decide
theorem clean_lit_bang : Clean "!" := by intro c hc; simp at hc; subst hc; decide
theorem clean_lit_at : Clean "@" := by intro c hc; simp at hc; subst hc; decide

theorem prefix_str_clean (p : Prefix) (hn : Clean p.name) (hu : Clean p.user) (hh : Clean p.host) :
    Clean p.str := by
  unfold Prefix.str
  refine clean_append (clean_append hn ?_) ?_
  · split
    · exact clean_empty
    · exact clean_append clean_lit_bang hu
  · split
    · exact clean_empty
    · exact clean_append clean_lit_at hh

theorem render_clean (m : IrcMsg) (h : CleanMsg m) : CleanBytes m.render := by
  obtain ⟨hp, hc, hps⟩ := h
  unfold IrcMsg.render
  simp only []
  apply cleanBytes_take
  apply utf8_clean
  refine clean_append (clean_append (clean_append ?_ hc) ?_) ?_
  · split
    · rename_i p hpe
      obtain ⟨hn, hu, hh⟩ := hp p hpe
      exact clean_append (clean_append clean_lit_colon (prefix_str_clean p hn hu hh)) clean_lit_space
    · exact clean_empty
  · split
    · exact clean_append clean_lit_space
        (clean_joinStr clean_lit_space fun x hx => hps x (List.dropLast_subset _ hx))
    · exact clean_empty
  · split
    · exact clean_empty
    · rename_i t ht
      refine clean_append (clean_append clean_lit_space ?_) (hps t (List.mem_of_getLast? ht))
      split
      · exact clean_lit_colon
      · exact clean_empty

/-! ## firstLine -/

theorem mem_takeWhile_sat {α} (p : α → Bool) (l : List α) : ∀ x ∈ l.takeWhile p, p x = true := by
  induction l with
  | nil => intro x hx; simp at hx
  | cons a t ih =>
    intro x hx
    rw [List.takeWhile_cons] at hx
    split at hx
    · rcases List.mem_cons.mp hx with rfl | hx
      · assumption
      · exact ih x hx
    · simp at hx

theorem takeWhile_all {α} (p : α → Bool) (l : List α) (h : ∀ x ∈ l, p x = true) : l.takeWhile p = l := by
  induction l with
  | nil => rfl
  | cons a t ih =>
    rw [List.takeWhile_cons, if_pos (h a (by simp)), ih fun x hx => h x (by simp [hx])]

theorem firstLine_clean (s : String) : Clean (firstLine s) :=
  clean_ofList (mem_takeWhile_sat cleanChar s.toList)

theorem firstLine_id (s : String) (h : Clean s) : firstLine s = s := by
  unfold firstLine
  rw [takeWhile_all cleanChar _ h, String.ofList_toList]

theorem firstLine_prefix (s : String) : (firstLine s).toList <+: s.toList := by
  unfold firstLine
  rw [String.toList_ofList]
  exact List.takeWhile_prefix _

end Robust.Irc
