import Robust.Irc.Proofs.CleanStr
import Robust.Irc.Proofs.FrameBasic
import Robust.Irc.Apply
/-!
C15, state level: the invariant `CInv` (every stored string that can reach an output line contains
no CR / LF / NUL), the context predicate `CCtx` (`CInv` of the state and every output emitted so far
is one clean line of at most 510 bytes), what the primitives of `Send.lean` / `Cmds.lean` do to them,
and the tactics used to walk through the handlers.

Fields covered by `CInv`:

* sessions: `nick`, `username`, `realname`, `awayMsg`, `svid`, `pass`, `ircPrefix.{name,user,host}`;
* channels: `name`, `topicNick`, `topic`, `key`, the mask of every ban;
* SVSHOLDs: `reason`;
* config: the reasons of `banned` (GLINE);
* `serverName`.

Not covered because no handler copies them into a line: `Session.auth`, `Session.remoteAddr`
(only matched against ban patterns / used as a key of `config.banned`), `Ban.re` (only compiled),
the lower-cased keys of the maps and the `channels` / `invitedTo` lists (only used for look-ups),
the remaining `Config` strings (operators, services passwords, captcha settings: only compared).
The invariant is stated over *membership* in the association lists (not `AMap.get`), so that it
needs no key-uniqueness side condition: it holds of every state, reachable or not, whose strings
are clean.
-/
namespace Robust.Irc
open Robust AMap

/-! ## definitions -/

structure CleanSess (s : Session) : Prop where
  nick : Clean s.nick
  username : Clean s.username
  realname : Clean s.realname
  awayMsg : Clean s.awayMsg
  svid : Clean s.svid
  pass : Clean s.pass
  pname : Clean s.ircPrefix.name
  puser : Clean s.ircPrefix.user
  phost : Clean s.ircPrefix.host

structure CleanChan (ch : Channel) : Prop where
  name : Clean ch.name
  topicNick : Clean ch.topicNick
  topic : Clean ch.topic
  key : Clean ch.key
  bans : ∀ b ∈ ch.bans, Clean b.mask

/-- every stored string that can reach an output line is clean -/
structure CInv (st : St) : Prop where
  sessions : ∀ e ∈ st.sessions, CleanSess e.2
  channels : ∀ e ∈ st.channels, CleanChan e.2
  svsholds : ∀ e ∈ st.svsholds, Clean e.2.reason
  banned : ∀ e ∈ st.config.banned, Clean e.2
  serverName : Clean st.serverName

/-- one output is one clean line of at most 510 bytes -/
def COut (o : Out) : Prop := CleanBytes o.data ∧ o.data.length ≤ 510

def COuts (l : List Out) : Prop := ∀ o ∈ l, COut o

/-- the state satisfies `CInv` and everything emitted so far is clean -/
structure CCtx (c : Ctx) : Prop where
  inv : CInv c.st
  out : COuts c.out

theorem CInv_init : CInv ({} : St) :=
  ⟨(fun _ h => nomatch h), (fun _ h => nomatch h), (fun _ h => nomatch h), (fun _ h => nomatch h), by decide⟩

theorem CCtx.start {st : St} (h : CInv st) (msgid : Nat) : CCtx { st := st, msgid := msgid } :=
  ⟨h, (fun _ ho => nomatch ho)⟩

/-! ## association lists -/

theorem AMap.mem_set {κ ν : Type} [DecidableEq κ] {m : AMap κ ν} {k : κ} {v : ν} {e : κ × ν}
    (h : e ∈ AMap.set m k v) : e = (k, v) ∨ e ∈ m := by
  induction m with
  | nil =>
    simp only [AMap.set, List.mem_singleton] at h
    exact Or.inl h
  | cons a t ih =>
    obtain ⟨k', v'⟩ := a
    unfold AMap.set at h
    split at h
    · rcases List.mem_cons.1 h with h | h
      · exact Or.inl h
      · exact Or.inr (List.mem_cons_of_mem _ h)
    · rcases List.mem_cons.1 h with h | h
      · exact Or.inr (h ▸ List.mem_cons_self ..)
      · rcases ih h with h | h
        · exact Or.inl h
        · exact Or.inr (List.mem_cons_of_mem _ h)

theorem AMap.mem_erase {κ ν : Type} [DecidableEq κ] {m : AMap κ ν} {k : κ} {e : κ × ν}
    (h : e ∈ AMap.erase m k) : e ∈ m := (List.mem_filter.1 h).1

theorem all_set {κ ν : Type} [DecidableEq κ] {P : ν → Prop} {m : AMap κ ν} (h : ∀ e ∈ m, P e.2) {k : κ} {v : ν}
    (hv : P v) : ∀ e ∈ AMap.set m k v, P e.2 := by
  intro e he
  rcases AMap.mem_set he with rfl | he
  · exact hv
  · exact h e he

theorem all_erase {κ ν : Type} [DecidableEq κ] {P : ν → Prop} {m : AMap κ ν} (h : ∀ e ∈ m, P e.2) (k : κ) :
    ∀ e ∈ AMap.erase m k, P e.2 := fun e he => h e (AMap.mem_erase he)

theorem all_filter {κ ν : Type} {P : ν → Prop} {m : AMap κ ν} (h : ∀ e ∈ m, P e.2) (p : κ × ν → Bool) :
    ∀ e ∈ m.filter p, P e.2 := fun e he => h e (List.mem_filter.1 he).1

theorem all_mapVal {κ ν : Type} {P : ν → Prop} {m : AMap κ ν} (h : ∀ e ∈ m, P e.2) (f : κ × ν → ν)
    (hf : ∀ e ∈ m, P e.2 → P (f e)) : ∀ e ∈ (m.map fun e => (e.1, f e)), P e.2 := by
  intro e he
  obtain ⟨a, ha, rfl⟩ := List.mem_map.1 he
  exact hf a ha (h a ha)

/-! ## reading the state -/

theorem CInv.get {st : St} (h : CInv st) {sid : Id} {s : Session} (hs : AMap.get st.sessions sid = some s) :
    CleanSess s := h.sessions _ (AMap.mem_of_get hs)

theorem CInv.getChan {st : St} (h : CInv st) {lc : String} {ch : Channel}
    (hc : AMap.get st.channels lc = some ch) : CleanChan ch := h.channels _ (AMap.mem_of_get hc)

theorem CInv.getHold {st : St} (h : CInv st) {k : String} {hold : SvsHold}
    (hc : AMap.get st.svsholds k = some hold) : Clean hold.reason := h.svsholds _ (AMap.mem_of_get hc)

theorem CInv.getBanned {st : St} (h : CInv st) {k r : String}
    (hc : AMap.get st.config.banned k = some r) : Clean r := h.banned _ (AMap.mem_of_get hc)

/-- forms with the look-up first, for `by assumption` chains -/
theorem sess_of_getS {c : Ctx} {sid : Id} {s : Session} (hs : getS c sid = .ok s) (h : CInv c.st) : CleanSess s :=
  h.get (getS_eq_ok.1 hs)
theorem sess_of_get {st : St} {sid : Id} {s : Session} (hs : AMap.get st.sessions sid = some s) (h : CInv st) :
    CleanSess s := h.get hs
theorem chan_of_get {st : St} {lc : String} {ch : Channel} (hc : AMap.get st.channels lc = some ch) (h : CInv st) :
    CleanChan ch := h.getChan hc
theorem chan_of_getChan {c : Ctx} {lc : String} {ch : Channel} (hc : Robust.Irc.getChan c lc = some ch)
    (h : CInv c.st) : CleanChan ch := h.getChan hc
theorem clean_of_param {m : IrcMsg} {i : Nat} {p : String} (hp : param m i = .ok p) (h : CleanMsg m) : Clean p :=
  h.param hp
theorem clean_of_head {m : IrcMsg} {p : String} (hp : m.params.head? = some p) (h : CleanMsg m) : Clean p :=
  h.head hp
theorem clean_of_pfxName {m : IrcMsg} {p : String} (hp : pfxName m = .ok p) (h : CleanMsg m) : Clean p :=
  h.pfxName hp

theorem spfx_name {m : IrcMsg} {sp : Prefix} (hs : servicesPrefix m = .ok sp) (h : CleanMsg m) : Clean sp.name :=
  (servicesPrefix_clean h hs).1
theorem spfx_user {m : IrcMsg} {sp : Prefix} (hs : servicesPrefix m = .ok sp) (h : CleanMsg m) : Clean sp.user :=
  (servicesPrefix_clean h hs).2.1
theorem spfx_host {m : IrcMsg} {sp : Prefix} (hs : servicesPrefix m = .ok sp) (h : CleanMsg m) : Clean sp.host :=
  (servicesPrefix_clean h hs).2.2

/-! ## output -/

theorem COuts.append {l : List Out} (h : COuts l) {o : Out} (ho : COut o) : COuts (l ++ [o]) := by
  intro x hx
  rcases List.mem_append.1 hx with hx | hx
  · exact h x hx
  · rw [List.mem_singleton] at hx; subst hx; exact ho

theorem COut.render (id reply : Nat) {m : IrcMsg} (hm : CleanMsg m) (r : List Nat) : COut ⟨id, reply, m.render, r⟩ :=
  ⟨render_clean m hm, by
    show m.render.length ≤ 510
    unfold IrcMsg.render
    simp only [List.length_take]
    exact Nat.min_le_left _ _⟩

theorem CCtx.emit {c : Ctx} {m : IrcMsg} {r : List Nat} (h : CCtx c) (hm : CleanMsg m) : CCtx (emit c m r) :=
  ⟨h.inv, h.out.append (COut.render _ _ hm r)⟩

theorem CCtx.sendUser {c : Ctx} {sid : Id} {m : IrcMsg} (h : CCtx c) (hm : CleanMsg m) : CCtx (sendUser c sid m) :=
  h.emit hm

theorem CCtx.sendSvc {c : Ctx} {m : IrcMsg} (h : CCtx c) (hm : CleanMsg m) : CCtx (sendSvc c m) :=
  h.emit hm

/-- variants that hand the invariant of the (possibly opaque) context to the message proof -/
theorem CCtx.emit' {c : Ctx} {m : IrcMsg} {r : List Nat} (h : CCtx c) (hm : CInv c.st → CleanMsg m) :
    CCtx (Robust.Irc.emit c m r) := h.emit (hm h.inv)
theorem CCtx.sendUser' {c : Ctx} {sid : Id} {m : IrcMsg} (h : CCtx c) (hm : CInv c.st → CleanMsg m) :
    CCtx (Robust.Irc.sendUser c sid m) := h.emit (hm h.inv)
theorem CCtx.sendSvc' {c : Ctx} {m : IrcMsg} (h : CCtx c) (hm : CInv c.st → CleanMsg m) :
    CCtx (Robust.Irc.sendSvc c m) := h.emit (hm h.inv)

theorem CCtx.ite {p : Prop} [Decidable p] {a b : Ctx} (ha : CCtx a) (hb : CCtx b) : CCtx (if p then a else b) := by
  split <;> assumption

/-- replacing the state, keeping the output -/
theorem CCtx.setSt {c : Ctx} (h : CCtx c) {st : St} (hs : CInv st) : CCtx { c with st := st } := ⟨hs, h.out⟩

theorem CCtx.congr {c c' : Ctx} (h : CCtx c) (hs : c'.st = c.st) (ho : c'.out = c.out) : CCtx c' :=
  ⟨by rw [hs]; exact h.inv, by rw [ho]; exact h.out⟩

/-! ## writing the state -/

theorem CInv.setSession {st : St} (h : CInv st) {k : Id} {v : Session} (hv : CleanSess v) :
    CInv { st with sessions := AMap.set st.sessions k v } :=
  ⟨all_set h.sessions hv, h.channels, h.svsholds, h.banned, h.serverName⟩

theorem CInv.setChan {st : St} (h : CInv st) {k : String} {v : Channel} (hv : CleanChan v) :
    CInv { st with channels := AMap.set st.channels k v } :=
  ⟨h.sessions, all_set h.channels hv, h.svsholds, h.banned, h.serverName⟩

/-- only the indexes / bookkeeping change -/
theorem CInv.same {st st' : St} (h : CInv st) (h1 : st'.sessions = st.sessions) (h2 : st'.channels = st.channels)
    (h3 : st'.svsholds = st.svsholds) (h4 : st'.config = st.config) (h5 : st'.serverName = st.serverName) :
    CInv st' :=
  ⟨by rw [h1]; exact h.sessions, by rw [h2]; exact h.channels, by rw [h3]; exact h.svsholds,
    by rw [h4]; exact h.banned, by rw [h5]; exact h.serverName⟩

theorem CCtx.putS {c : Ctx} (h : CCtx c) {s : Session} (hs : CleanSess s) : CCtx (putS c s) :=
  ⟨h.inv.setSession hs, h.out⟩

theorem CCtx.putChan {c : Ctx} {lc : String} {ch : Channel} (h : CCtx c) (hc : CleanChan ch) : CCtx (putChan c lc ch) :=
  ⟨h.inv.setChan hc, h.out⟩

theorem CCtx.modS {c c' : Ctx} {tid : Id} {f : Session → Session} (h : CCtx c)
    (hr : Robust.Irc.modS c tid f = .ok c') (hf : ∀ s, CleanSess s → CleanSess (f s)) : CCtx c' := by
  obtain ⟨s, hs, rfl⟩ := modS_eq_ok.1 hr
  exact h.putS (hf s (h.inv.get hs))

theorem CCtx.getS {c : Ctx} (h : CCtx c) {sid : Id} {s : Session} (hs : Robust.Irc.getS c sid = .ok s) :
    CleanSess s := sess_of_getS hs h.inv

theorem CCtx.maybeDeleteChannel {c : Ctx} (h : CCtx c) (lc : String) : CCtx (maybeDeleteChannel c lc) := by
  unfold Robust.Irc.maybeDeleteChannel
  split
  · exact h
  · split
    · exact h
    · refine ⟨⟨?_, all_erase h.inv.channels _, h.inv.svsholds, h.inv.banned, h.inv.serverName⟩, h.out⟩
      refine all_mapVal h.inv.sessions (fun e => { e.2 with invitedTo := _ }) ?_
      intro e _ he
      exact ⟨he.nick, he.username, he.realname, he.awayMsg, he.svid, he.pass, he.pname, he.puser, he.phost⟩

theorem CleanChan.setNicks {ch : Channel} (h : CleanChan ch) (n : AMap String Member) :
    CleanChan { ch with nicks := n } := ⟨h.name, h.topicNick, h.topic, h.key, h.bans⟩

theorem CleanChan.setModes {ch : Channel} (h : CleanChan ch) (n : List Char) :
    CleanChan { ch with modes := n } := ⟨h.name, h.topicNick, h.topic, h.key, h.bans⟩

/-- a session update that does not touch the string fields -/
def CleanKeep (f : Session → Session) : Prop :=
  ∀ s, (f s).nick = s.nick ∧ (f s).username = s.username ∧ (f s).realname = s.realname ∧
    (f s).awayMsg = s.awayMsg ∧ (f s).svid = s.svid ∧ (f s).pass = s.pass ∧ (f s).ircPrefix = s.ircPrefix

theorem CleanSess.keep {s : Session} (h : CleanSess s) {f : Session → Session} (hf : CleanKeep f) :
    CleanSess (f s) := by
  obtain ⟨e1, e2, e3, e4, e5, e6, e7⟩ := hf s
  exact ⟨by rw [e1]; exact h.nick, by rw [e2]; exact h.username, by rw [e3]; exact h.realname,
    by rw [e4]; exact h.awayMsg, by rw [e5]; exact h.svid, by rw [e6]; exact h.pass,
    by rw [e7]; exact h.pname, by rw [e7]; exact h.puser, by rw [e7]; exact h.phost⟩

theorem CCtx.modS_keep {c c' : Ctx} {tid : Id} {f : Session → Session} (h : CCtx c)
    (hr : Robust.Irc.modS c tid f = .ok c') (hf : CleanKeep f) : CCtx c' :=
  h.modS hr fun _ hs => hs.keep hf

theorem CCtx.leaveChannel {c c' : Ctx} {lc lcn : String} {tid : Id} (h : CCtx c)
    (hr : leaveChannel c lc lcn tid = .ok c') : CCtx c' := by
  unfold Robust.Irc.leaveChannel at hr
  split at hr
  · rename_i ch hch
    exact ((h.putChan ((h.inv.getChan hch).setNicks _)).maybeDeleteChannel lc).modS_keep hr
      fun _ => ⟨rfl, rfl, rfl, rfl, rfl, rfl, rfl⟩
  · cases hr

theorem CCtx.foldl {α : Type} {f : Ctx → α → Ctx} {l : List α} (hf : ∀ c a, a ∈ l → CCtx c → CCtx (f c a))
    {c : Ctx} (h : CCtx c) : CCtx (l.foldl f c) :=
  foldl_inv CCtx f l c h fun c a ha hc => hf c a ha hc

theorem CCtx.foldlM {α : Type} {f : Ctx → α → Res Ctx} :
    ∀ {l : List α} {c c' : Ctx}, (∀ c a c', a ∈ l → CCtx c → f c a = .ok c' → CCtx c') → CCtx c →
      l.foldlM f c = .ok c' → CCtx c'
  | [], c, c', _, h, hr => by cases hr; exact h
  | a :: l, c, c', hf, h, hr => by
    rw [List.foldlM_cons] at hr
    obtain ⟨c1, h1, hr⟩ := Res.bind_eq_ok.1 hr
    exact CCtx.foldlM (fun c a c' ha => hf c a c' (List.mem_cons_of_mem _ ha))
      (hf c a c1 (List.mem_cons_self ..) h h1) hr

theorem CCtx.deleteSession {c c' : Ctx} {sid : Id} (h : CCtx c) (hr : deleteSession c sid = .ok c') : CCtx c' := by
  unfold Robust.Irc.deleteSession at hr
  obtain ⟨s, _, hr⟩ := Res.bind_eq_ok.1 hr
  dsimp only at hr
  refine CCtx.modS_keep ?_ hr (fun _ => ⟨rfl, rfl, rfl, rfl, rfl, rfl, rfl⟩)
  have h1 : CCtx (c.st.channels.foldl (fun (c : Ctx) (e : String × Channel) =>
      match getChan c e.1 with
      | none => c
      | some ch =>
        let c := Robust.Irc.putChan c e.1 { ch with nicks := AMap.erase ch.nicks (nickToLower s.nick) }
        Robust.Irc.maybeDeleteChannel c e.1) c) := by
    refine CCtx.foldl ?_ h
    intro c1 e _ h1
    split
    · exact h1
    · rename_i ch hch
      exact (h1.putChan ((h1.inv.getChan hch).setNicks _)).maybeDeleteChannel _
  exact ⟨h1.inv.same rfl rfl rfl rfl rfl, h1.out⟩

/-- elements of a successful `mapRes` -/
theorem mapRes_all {α β : Type} {f : α → Res β} {P : β → Prop} :
    ∀ {l : List α} {bs : List β}, mapRes f l = .ok bs → (∀ a ∈ l, ∀ b, f a = .ok b → P b) → ∀ b ∈ bs, P b
  | [], bs, h, _ => by cases h; intro b hb; cases hb
  | a :: t, bs, h, hf => by
    unfold mapRes at h
    obtain ⟨b0, hb0, h⟩ := Res.bind_eq_ok.1 h
    obtain ⟨bs0, hbs0, h⟩ := Res.bind_eq_ok.1 h
    cases h
    intro b hb
    rcases List.mem_cons.1 hb with rfl | hb
    · exact hf a (List.mem_cons_self ..) _ hb0
    · exact mapRes_all hbs0 (fun a ha => hf a (List.mem_cons_of_mem _ ha)) b hb

/-- `filterMap id` of optional clean strings, sorted, joined -/
theorem clean_join_sorted {l : List (Option String)} (h : ∀ o ∈ l, ∀ s, o = some s → Clean s) (sep : String)
    (hsep : Clean sep) : Clean (joinStr sep ((l.filterMap id).mergeSort (fun a b => a ≤ b))) := by
  apply clean_joinStr hsep
  intro x hx
  rw [List.mem_mergeSort, List.mem_filterMap] at hx
  obtain ⟨o, ho, he⟩ := hx
  exact h o ho x he

theorem clean_join_filterMap {l : List (Option String)} (h : ∀ o ∈ l, ∀ s, o = some s → Clean s) (sep : String)
    (hsep : Clean sep) : Clean (joinStr sep (l.filterMap id)) := by
  apply clean_joinStr hsep
  intro x hx
  rw [List.mem_filterMap] at hx
  obtain ⟨o, ho, he⟩ := hx
  exact h o ho x he

/-! ## parameter lists -/

theorem clean_list_nil : ∀ p ∈ ([] : List String), Clean p := fun _ h => nomatch h

theorem clean_list_cons {a : String} {l : List String} (ha : Clean a) (hl : ∀ p ∈ l, Clean p) :
    ∀ p ∈ a :: l, Clean p := by
  intro p hp
  rcases List.mem_cons.1 hp with rfl | hp
  · exact ha
  · exact hl p hp

@[simp] theorem putChan_serverName (c : Ctx) (lc : String) (ch : Channel) :
    (Robust.Irc.putChan c lc ch).st.serverName = c.st.serverName := rfl
@[simp] theorem putS_serverName (c : Ctx) (s : Session) : (Robust.Irc.putS c s).st.serverName = c.st.serverName := rfl

theorem clean_ite {p : Prop} [Decidable p] {a b : String} (ha : Clean a) (hb : Clean b) :
    Clean (if p then a else b) := by
  split <;> assumption

theorem bans_nil : ∀ b ∈ ([] : List Ban), Clean b.mask := fun _ hb => nomatch hb

/-! ## tactics -/

/-- `CleanSess s` from the context -/
syntax "csess" : tactic
macro_rules | `(tactic| csess) => `(tactic| first
  | assumption
  | exact sess_of_getS (by assumption) (by assumption)
  | exact sess_of_get (by assumption) (by assumption))

/-- `CleanChan ch` from the context -/
syntax "cchan" : tactic
macro_rules | `(tactic| cchan) => `(tactic| first
  | assumption
  | exact chan_of_get (by assumption) (by assumption)
  | exact chan_of_getChan (by assumption) (by assumption))

/-- `Clean x` for a string built from literals, fields of stored sessions / channels, parts of a
clean message, numbers, mode strings, `++` and `if` -/
syntax "clean_atom" : tactic
macro_rules | `(tactic| clean_atom) => `(tactic| first
  | with_reducible assumption
  | decide
  | ((with_reducible refine CleanSess.nick ?_); csess)
  | ((with_reducible refine CleanSess.pname ?_); csess)
  | ((with_reducible refine CleanSess.puser ?_); csess)
  | ((with_reducible refine CleanSess.phost ?_); csess)
  | ((with_reducible refine CleanSess.username ?_); csess)
  | ((with_reducible refine CleanSess.realname ?_); csess)
  | ((with_reducible refine CleanSess.awayMsg ?_); csess)
  | ((with_reducible refine CleanSess.svid ?_); csess)
  | ((with_reducible refine CleanSess.pass ?_); csess)
  | ((with_reducible refine CleanChan.name ?_); cchan)
  | ((with_reducible refine CleanChan.topic ?_); cchan)
  | ((with_reducible refine CleanChan.topicNick ?_); cchan)
  | ((with_reducible refine CleanChan.key ?_); cchan)
  | ((with_reducible refine CInv.serverName ?_); assumption)
  | ((with_reducible refine CleanMsg.trailing ?_); assumption)
  | ((with_reducible refine CleanMsg.command ?_); assumption)
  | ((with_reducible refine CleanMsg.upperCommand ?_); assumption)
  | with_reducible exact clean_toString_nat _
  | with_reducible exact clean_toString_int _
  | with_reducible exact clean_modeStr _
  | with_reducible exact clean_hexNat _
  | ((with_reducible refine clean_trimSpace ?_); clean_atom)
  | ((with_reducible refine prefix_str_clean _ ?_ ?_ ?_) <;> clean_atom)
  | ((with_reducible refine CleanMsg.joinParams ?_); assumption)
  | ((with_reducible refine CleanMsg.joinDrop ?_ _); assumption)
  | ((with_reducible refine CleanMsg.headD ?_); assumption)
  | ((with_reducible refine CleanMsg.getD ?_ _); assumption)
  | ((with_reducible refine clean_append_iff.2 ⟨?_, ?_⟩) <;> clean_atom)
  | (with_reducible exact clean_of_param (by assumption) (by assumption))
  | (with_reducible exact clean_of_head (by assumption) (by assumption))
  | (with_reducible exact clean_of_pfxName (by assumption) (by assumption))
  | (with_reducible exact spfx_name (by assumption) (by assumption))
  | (with_reducible exact spfx_user (by assumption) (by assumption))
  | (with_reducible exact spfx_host (by assumption) (by assumption))
  | ((with_reducible refine clean_ite ?_ ?_) <;> clean_atom)
  | (split <;> clean_atom))

/-- `∀ p ∈ [a, b, …], Clean p` -/
syntax "clean_list" : tactic
macro_rules | `(tactic| clean_list) => `(tactic| first
  | exact clean_list_nil
  | assumption
  | (refine clean_list_cons ?_ ?_ <;> first | clean_atom | clean_list | skip)
  | exact ircParams_clean (by assumption)
  | exact CleanMsg.params (by assumption))

/-- `CleanMsg m` for the message forms the handlers build; unsolved parts are left as goals -/
syntax "clean_msg" : tactic
macro_rules | `(tactic| clean_msg) => `(tactic| focus (
  first
    | assumption
    | (rw [cleanMsg_srv]; refine ⟨?_, ?_, ?_⟩)
    | (rw [cleanMsg_some]; refine ⟨⟨?_, ?_, ?_⟩, ?_, ?_⟩)
    | (rw [cleanMsg_none]; refine ⟨?_, ?_⟩)
  all_goals (try simp only [putChan_serverName, putS_serverName, sendUser_st, emit_st, sendSvc_st])
  all_goals (try dsimp only)
  all_goals (first | clean_atom | clean_list | skip)))

/-- the string fields of an updated session / channel -/
syntax "clean_rec" : tactic
macro_rules | `(tactic| clean_rec) => `(tactic| focus (
  (first | refine CleanChan.mk ?_ ?_ ?_ ?_ ?_ | refine CleanSess.mk ?_ ?_ ?_ ?_ ?_ ?_ ?_ ?_ ?_) <;>
  (try dsimp only) <;> first
    | clean_atom
    | exact CleanChan.bans (by cchan)
    | exact bans_nil
    | skip))

/-- `CCtx (sendUser (emit (putChan … c …) …) …)` from `CCtx c` in the context; unsolved parts are left -/
syntax "cctx_tac" : tactic
macro_rules | `(tactic| cctx_tac) => `(tactic| repeat' (first
  | assumption
  | apply CCtx.sendUser
  | apply CCtx.sendSvc
  | apply CCtx.emit
  | apply CCtx.putChan
  | apply CCtx.ite
  | (with_reducible exact CleanChan.setNicks (by cchan) _)
  | (with_reducible exact CleanChan.setModes (by cchan) _)
  | clean_msg
  | clean_rec))

/-- forward step of the walk: `h : prim … = .ok c1` for a state-changing primitive gives `CCtx c1`
and `CInv c1.st` (as anonymous hypotheses, found by `assumption`) -/
syntax "cfwd" ident : tactic
macro_rules | `(tactic| cfwd $h:ident) => `(tactic| first
  | ((with_reducible have _hg : Robust.Irc.deleteSession _ _ = Res.ok _ := $h);
     have hc1 := CCtx.deleteSession ?side $h; case side => cctx_tac
     have hI1 := CCtx.inv hc1)
  | ((with_reducible have _hg : Robust.Irc.leaveChannel _ _ _ _ = Res.ok _ := $h);
     have hc1 := CCtx.leaveChannel ?side $h; case side => cctx_tac
     have hI1 := CCtx.inv hc1)
  | ((with_reducible have _hg : Robust.Irc.modS _ _ _ = Res.ok _ := $h);
     first
      | (have hc1 := CCtx.modS_keep ?side $h (fun _ => ⟨rfl, rfl, rfl, rfl, rfl, rfl, rfl⟩); case side => cctx_tac
         have hI1 := CCtx.inv hc1)
      | (have hc1 := CCtx.modS ?side $h ?fn; case side => cctx_tac
         case fn => (intro _ hs; clean_rec)
         have hI1 := CCtx.inv hc1)))

/-- brute-force walk through a handler: `cwalk hr` with `hr : … = .ok c'`, `CCtx c`, `CInv c.st` and
`CleanMsg m` in the context; what it cannot close is left as goals -/
macro "cwalk" hr:ident : tactic =>
  `(tactic| repeat' (first
      | split at $hr:ident
      | (obtain ⟨_, h1, $hr:ident⟩ := Res.bind_eq_ok.1 $hr:ident; try cfwd h1)
      | dsimp only at $hr:ident
      | (cases $hr:ident; cctx_tac)
      | (refine CCtx.leaveChannel ?_ $hr:ident; cctx_tac)
      | (refine CCtx.deleteSession ?_ $hr:ident; cctx_tac)
      | (refine CCtx.modS_keep ?_ $hr:ident (fun _ => ⟨rfl, rfl, rfl, rfl, rfl, rfl, rfl⟩); cctx_tac)))

/-- a handler keeps `CCtx` on clean messages -/
def CPres (h : Ctx → Id → IrcMsg → Res Ctx) : Prop :=
  ∀ c sid m c', CCtx c → CleanMsg m → h c sid m = .ok c' → CCtx c'

end Robust.Irc
