import Robust.Irc.Proofs.H2Base
/-! NAMES, WHO, WHOIS -/
namespace Robust.Irc
open Rd
open AMap

/-! ### NAMES -/

theorem cmdNames_emits {c c' : Ctx} {sid : Id} {m : IrcMsg} (hr : cmdNames c sid m = .ok c') : Emits c c' := by
  unfold cmdNames at hr
  obtain ⟨s, hs, hr⟩ := Res.bind_eq_ok.1 hr
  dsimp only at hr
  split at hr
  · cases hr; emits_tac
  · split at hr
    · cases hr; emits_tac
    · obtain ⟨en, hen, hr⟩ := Res.bind_eq_ok.1 hr
      cases hr; emits_tac

theorem cmdNames_preserves : Preserves cmdNames := Preserves.of_emits fun _ _ _ _ => cmdNames_emits

/-- NAMES cannot panic for any stored session (whether or not it is logged in, a member, …) -/
theorem cmdNames_noPanic {c : Ctx} {sid : Id} {s : Session} (m : IrcMsg) (hw : WInvCore c.st)
    (hs : AMap.get c.st.sessions sid = some s) : NoPanic (cmdNames c sid m) := by
  unfold cmdNames
  rw [getS_of_get hs]
  simp only [Res.ok_bind, getChan_eq]
  split
  · exact NoPanic.ok _
  · split
    · exact NoPanic.ok _
    · rename_i ch hch
      refine NoPanic.bind (mapRes_noPanic fun e he => ?_) fun _ _ => NoPanic.ok _
      obtain ⟨mid, ms, h1, h2, _⟩ := hw.member_session hch he
      simp only [h1, h2]
      split <;> exact NoPanic.ok _

theorem cmdNames_safe : ClientSafe cmdNames 0 true :=
  fun _ _ m _ hp hs _ _ _ => cmdNames_noPanic m hp.inv.toWInvCore hs

/-- the form used by JOIN / SVSJOIN: an arbitrary stored session (no login, liveness or nickname needed) -/
theorem cmdNames_safe_member {c : Ctx} {sid : Id} {s : Session} (m : IrcMsg) (hw : WInvCore c.st)
    (hs : AMap.get c.st.sessions sid = some s) : ∀ site, cmdNames c sid m ≠ .panic site :=
  cmdNames_noPanic m hw hs

/-! ### WHO -/

theorem cmdWho_emits {c c' : Ctx} {sid : Id} {m : IrcMsg} (hr : cmdWho c sid m = .ok c') : Emits c c' := by
  unfold cmdWho at hr
  obtain ⟨s, hs, hr⟩ := Res.bind_eq_ok.1 hr
  dsimp only at hr
  split at hr
  · cases hr; emits_tac
  · split at hr
    · cases hr; emits_tac
    · split at hr
      · cases hr; emits_tac
      · obtain ⟨mem, hmem, hr⟩ := Res.bind_eq_ok.1 hr
        obtain ⟨c1, h1, hr⟩ := Res.bind_eq_ok.1 hr
        cases hr
        apply Emits.sendUser
        refine Emits.foldlM _ ?_ (Emits.refl c) h1
        intro c2 nick c3 h2 h3
        split at h3
        · cases h3
        · obtain ⟨ms, hms, h3⟩ := Res.bind_eq_ok.1 h3
          cases h3; emits_tac

theorem cmdWho_preserves : Preserves cmdWho := Preserves.of_emits fun _ _ _ _ => cmdWho_emits

theorem cmdWho_noPanic {c : Ctx} {sid : Id} {s : Session} (m : IrcMsg) (hw : WInvCore c.st)
    (hs : AMap.get c.st.sessions sid = some s) : NoPanic (cmdWho c sid m) := by
  unfold cmdWho
  rw [getS_of_get hs]
  simp only [Res.ok_bind, getChan_eq]
  split
  · exact NoPanic.ok _
  · split
    · exact NoPanic.ok _
    · rename_i ch hch
      split
      · exact NoPanic.ok _
      · refine NoPanic.bind (mapRes_noPanic fun e he => ?_) fun members hmem => ?_
        · obtain ⟨mid, ms, h1, h2, _⟩ := hw.member_session hch he
          simp only [h1, getS_of_get h2, Res.bind_ok']
          split <;> exact NoPanic.ok _
        · refine NoPanic.bind (foldlM_noPanic (fun c1 => c1.st = c.st) ?_ ?_ rfl) fun _ _ => NoPanic.ok _
          · intro c1 nick c2 _ hc1 hstep
            split at hstep
            · cases hstep
            · obtain ⟨ms, _, hstep⟩ := Res.bind_eq_ok.1 hstep
              cases hstep
              exact hc1
          · intro c1 nick hn hc1
            rw [List.mem_mergeSort, List.mem_filterMap] at hn
            obtain ⟨o, ho, hid⟩ := hn
            simp only [id] at hid
            subst hid
            obtain ⟨e, he, hfe⟩ := mapRes_mem hmem ho
            obtain ⟨mid, ms, h1, h2, _, hlow⟩ := hw.member_session hch he
            simp only [h1, getS_of_get h2, Res.bind_ok'] at hfe
            have hnick : ms.nick = nick := by
              split at hfe
              · cases hfe
              · cases hfe; rfl
            have hidx : AMap.get c1.st.nicks (nickToLower nick) = some mid := by
              rw [hc1, ← hnick, hlow]; exact h1
            have hget : getS c1 mid = Res.ok ms := getS_of_get (by rw [hc1]; exact h2)
            simp only [hidx, hget, Res.bind_ok']
            exact NoPanic.ok _

theorem cmdWho_safe : ClientSafe cmdWho 0 true :=
  fun _ _ m _ hp hs _ _ _ => cmdWho_noPanic m hp.inv.toWInvCore hs

/-! ### WHOIS -/

theorem cmdWhois_emits {c c' : Ctx} {sid : Id} {m : IrcMsg} (hr : cmdWhois c sid m = .ok c') : Emits c c' := by
  unfold cmdWhois at hr
  obtain ⟨s, hs, hr⟩ := Res.bind_eq_ok.1 hr
  obtain ⟨p0, hp0, hr⟩ := Res.bind_eq_ok.1 hr
  split at hr
  · cases hr; emits_tac
  · obtain ⟨t, ht, hr⟩ := Res.bind_eq_ok.1 hr
    obtain ⟨chans, hchans, hr⟩ := Res.bind_eq_ok.1 hr
    dsimp only at hr
    split at hr
    · cases hr
    · cases hr; emits_tac

theorem cmdWhois_preserves : Preserves cmdWhois := Preserves.of_emits fun _ _ _ _ => cmdWhois_emits

theorem cmdWhois_noPanic {c : Ctx} {sid : Id} {s : Session} {m : IrcMsg} (hw : WInv c.st)
    (hs : AMap.get c.st.sessions sid = some s) (hn : 1 ≤ m.params.length) : NoPanic (cmdWhois c sid m) := by
  unfold cmdWhois
  rw [getS_of_get hs, param_ok (Nat.lt_of_lt_of_le Nat.zero_lt_one hn)]
  simp only [Res.ok_bind]
  split
  · exact NoPanic.ok _
  · rename_i tid hi
    obtain ⟨t, ht, _, _, hmemb⟩ := hw.indexed_member hi
    rw [getS_of_get ht]
    simp only [Res.ok_bind]
    refine NoPanic.bind (mapRes_noPanic fun lc hlc => ?_) fun chans _ => ?_
    · obtain ⟨ch, mem, h1, h2⟩ := hmemb lc hlc
      simp only [getChan_eq, sendUser_st, h1]
      split
      · exact NoPanic.ok _
      · simp only [h2]; exact NoPanic.ok _
    · split
      · exact NoPanic.declined _
      · exact NoPanic.ok _

theorem cmdWhois_safe : ClientSafe cmdWhois 1 true :=
  fun _ _ _ _ hp hs _ _ hn => cmdWhois_noPanic hp.inv.toWInv hs hn

end Robust.Irc
