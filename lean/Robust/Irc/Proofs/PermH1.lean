import Robust.Irc.Proofs.PermHandler
/-!
Order-independence, handlers 1: `cmdMotd`, `cmdOper`, `maybeLogin`, `cmdNick`, `cmdUser`, `cmdPass`.
-/
set_option linter.unusedVariables false
namespace Robust.Irc
open Robust
attribute [local irreducible] IrcMsg.render emit sendUser sendSvc

theorem cmdMotd_congr : HCongr cmdMotd := by
  intro c c' sid m h
  unfold cmdMotd
  refine RRel.bind (getS_congr h sid) (fun s s' hs => ?_)
  simp -zeta only [hs.nick, h.serverName]
  extract_lets c1 c2 c1' c2'
  ceq_let h1 c1 c1'
  ceq_let h2 c2 c2'
  ceqs

theorem cmdOper_congr : HCongr cmdOper := by
  intro c c' sid m h
  unfold cmdOper
  refine RRel.bind (getS_congr h sid) (fun s s' hs => ?_)
  refine RRel.bind_same (fun name => ?_)
  refine RRel.bind_same (fun password => ?_)
  simp -zeta only [hs.nick, h.config]
  split
  · ceqs
  · refine RRel.bind (modS_congr_upd h sid _ (fun _ => rfl) (fun _ => rfl) (fun _ => rfl)) (fun c1 c1' h1 => ?_)
    refine RRel.bind (getS_congr h1 sid) (fun s1 s1' hs1 => ?_)
    simp -zeta only [hs1.nick, hs1.modes]
    extract_lets c2 c2'
    ceq_let h2 c2 c2'
    ceqs

theorem maybeLogin_congr : HCongr maybeLogin := by
  intro c c' sid m h
  unfold maybeLogin
  refine RRel.bind (getS_congr h sid) (fun s s' hs => ?_)
  simp -zeta only [hs.loggedIn, hs.nick, hs.username, hs.pass, hs.ircPrefix, hs.svid, hs.realname, h.config]
  split
  · ceq
  split
  · ceq
  split
  · exact .declined
  refine RRel.bind (modS_congr_upd h sid _ (fun _ => rfl) (fun _ => rfl) (fun _ => rfl)) (fun c1 c1' h1 => ?_)
  simp -zeta only [h1.serverName]
  extract_lets sn c2 c3 c4 c5 c6 c7 pass c8 opass c2' c3' c4' c5' c6' c7' c8'
  ceq_let h2 c2 c2'
  ceq_let h3 c3 c3'
  ceq_let h4 c4 c4'
  ceq_let h5 c5 c5'
  ceq_let h6 c6 c6'
  ceq_let h7 c7 c7'
  ceq_let h8 c8 c8'
  refine RRel.bind (?_ : RRel CEq _ _) (fun c9 c9' h9 => ?_)
  · split
    · split
      · exact .panic
      · split
        · exact cmdOper_congr _ _ _ _ h8
        · ceq
    · ceq
  · refine RRel.bind (modS_congr_upd h9 sid _ (fun _ => rfl) (fun _ => rfl) (fun _ => rfl)) (fun c10 c10' h10 => ?_)
    exact cmdMotd_congr _ _ _ _ h10

/-! ### nick changes -/

theorem holdCtx_congr {c c' : Ctx} (h : CEq c c') (k : String) (held : Option SvsHold) :
    CEq (holdCtx c k held) (holdCtx c' k held) := by
  unfold holdCtx
  cases held with
  | none => exact h
  | some _ => exact h.withSt (h.st.withSvsholds (h.st.svsholds.erase k))

theorem rekeyCh_congr (old new : String) {ch ch' : Channel} (h : ChanEq ch ch') :
    ChanEq (rekeyCh old new ch) (rekeyCh old new ch') := by
  unfold rekeyCh
  refine h.withNicks (MEq.erase ?_ old)
  rw [h.get_nicks old]
  cases AMap.get ch.nicks old with
  | none => exact h.nicks
  | some modes => exact h.nicks.set new rfl

/-- moving a member from the key `old` to the key `new` in every channel -/
theorem rekeyChans_congr {st st' : St} (h : StEq st st') (old new : String) :
    MEq ChanEq (st.channels.map (rekeyChan old new)) (st'.channels.map (rekeyChan old new)) ∧
    ∀ lc ch, AMap.get (st.channels.map (rekeyChan old new)) lc = some ch → chanToLower ch.name = lc := by
  constructor
  · exact h.channels.mapVal (f := fun e => rekeyCh old new e.2) (f' := fun e => rekeyCh old new e.2)
      (fun k v v' _ _ hr => rekeyCh_congr old new hr)
  · intro lc ch hg
    have : AMap.get (st.channels.map (rekeyChan old new)) lc = (AMap.get st.channels lc).map (rekeyCh old new) :=
      AMap.get_map_val st.channels (rekeyCh old new) lc
    rw [this] at hg
    cases hg0 : AMap.get st.channels lc with
    | none => rw [hg0] at hg; cases hg
    | some ch0 =>
      rw [hg0] at hg
      simp only [Option.map_some, Option.some.injEq] at hg
      subst hg
      exact h.ckey lc ch0 hg0

theorem renameCtx_congr {c c' : Ctx} (h : CEq c c') (tid : Id) (lcnew old : String) (b : Bool) :
    CEq (renameCtx c tid lcnew old b) (renameCtx c' tid lcnew old b) := by
  unfold renameCtx
  have h1 : CEq { c with st := { c.st with nicks := AMap.set c.st.nicks lcnew tid } }
      { c' with st := { c'.st with nicks := AMap.set c'.st.nicks lcnew tid } } :=
    h.withSt (h.st.withNicks (h.st.nicks.set lcnew rfl))
  cases b with
  | false => exact h1
  | true =>
    simp only [if_true]
    rw [rekeyChan_eq]
    obtain ⟨hm, hk⟩ := rekeyChans_congr h1.st old lcnew
    exact h1.withSt ((h1.st.withNicks (h1.st.nicks.erase old)).withChannels hm hk)

theorem cmdNickTail_congr {c c' : Ctx} (h : CEq c c') (sid : Id) (m : IrcMsg) {s s' : Session} (hs : SessEq s s')
    (nick : String) (held : Option SvsHold) :
    RRel CEq (cmdNickTail c sid m s nick held) (cmdNickTail c' sid m s' nick held) := by
  unfold cmdNickTail
  simp only [hs.loggedIn, hs.nick, hs.ircPrefix]
  have h0 := holdCtx_congr h (nickToLower nick) held
  generalize holdCtx c (nickToLower nick) held = c0 at h0 ⊢
  generalize holdCtx c' (nickToLower nick) held = c0' at h0 ⊢
  split
  · ceq
  refine RRel.bind (modS_congr_upd h0 sid _ (fun _ => rfl) (fun _ => rfl) (fun _ => rfl)) (fun c1 c1' h1 => ?_)
  have h2 := renameCtx_congr h1 sid (nickToLower nick) (nickToLower s.nick)
    (nickToLower s.nick != "" && !(s.loggedIn && nickToLower nick == nickToLower (if s.loggedIn = true then s.nick else "*")))
  refine RRel.bind (modS_congr_upd h2 sid updateIrcPrefix (fun _ => rfl) (fun _ => rfl) (fun _ => rfl))
    (fun c3 c3' h3 => ?_)
  split
  · refine RRel.bind (getS_congr h3 sid) (fun s3 s3' hs3 => ?_)
    refine RRel.bind (rcCommonChannels_congr h3.st hs3) (fun rc rc' hrc => ?_)
    ceq
  · exact maybeLogin_congr _ _ _ _ h3

theorem cmdNick_congr : HCongr cmdNick := by
  intro c c' sid m h
  rw [cmdNick_eq, cmdNick_eq]
  refine RRel.bind (getS_congr h sid) (fun s s' hs => ?_)
  simp only [hs.loggedIn, hs.nick, hs.lastActivity, h.st.contains_nicks, h.st.get_svsholds]
  repeat' split
  all_goals first | ceqs | exact cmdNickTail_congr h sid m hs _ _

theorem cmdUser_congr : HCongr cmdUser := by
  intro c c' sid m h
  unfold cmdUser
  refine RRel.bind_same (fun u => ?_)
  refine RRel.bind (modS_congr_upd h sid _ (fun _ => rfl) (fun _ => rfl) (fun _ => rfl)) (fun c1 c1' h1 => ?_)
  exact maybeLogin_congr _ _ _ _ h1

theorem cmdPass_congr : HCongr cmdPass := by
  intro c c' sid m h
  unfold cmdPass
  refine RRel.bind (modS_congr_upd h sid _ (fun _ => rfl) (fun _ => rfl) (fun _ => rfl)) (fun c1 c1' h1 => ?_)
  exact maybeLogin_congr _ _ _ _ h1

end Robust.Irc
