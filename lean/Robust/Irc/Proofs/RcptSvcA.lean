import Robust.Irc.Proofs.RcptSvcBase
import Robust.Irc.Proofs.H3
/-!
C12 for the services handlers, part A: KICK, TOPIC, INVITE, SVSPART, SVSHOLD, SVSMODE, MODE, NICK sent by a
services link.  Numeric replies go to the services links only; every relayed line goes to exactly the sessions
listing the channel (plus the services links where the handler adds them), resp. to the owner of the target
nickname.  `st` is always the state in which the handler starts.
-/
namespace Robust.Irc
open Robust AMap

/-! ### helpers -/

private theorem svcA_contains_of_not_not {b : Bool} (h : ¬ (!b) = true) : b = true := by
  cases b with
  | true => rfl
  | false => exact absurd rfl h

/-- `rcChannel` only reads the nick index and the member keys -/
private theorem svcA_rcChannel_congr {st st' : St} {ch ch' : Channel} (hn : st'.nicks = st.nicks)
    (hk : AMap.keys ch'.nicks = AMap.keys ch.nicks) : rcChannel st' ch' = rcChannel st ch := by
  unfold rcChannel
  rw [hk]
  have : nickId st' = nickId st := by
    funext x
    unfold nickId
    rw [hn]
  rw [this]

/-! ### KICK -/

/-- the lines `cmdServerKick` can produce -/
inductive SrvKickLine (st : St) (m : IrcMsg) (o : Out) : Prop
  /-- numeric reply (403, 441): to the services links only -/
  | reply (h : o.rcpt = st.serverSessions)
  /-- the KICK, under the services prefix: to exactly the sessions listing the channel (the kicked one included)
  and the services links; the target is on the channel -/
  | relay (chn target pn : String) (ch : Channel) (tid : Id)
      (hp0 : m.params[0]? = some chn) (hp1 : m.params[1]? = some target)
      (hc : AMap.get st.channels (chanToLower chn) = some ch)
      (ht : AMap.get st.nicks (nickToLower target) = some tid) (hton : Lists st (chanToLower chn) tid)
      (hpn : pfxName m = .ok pn)
      (hd : o.data = (IrcMsg.mk (some ⟨pn, "services", "services"⟩) "KICK" [chn, target, m.trailing]).render)
      (hr : RcptIs o (Lists st (chanToLower chn)) st.serverSessions)

theorem cmdServerKick_out {c c' : Ctx} {sid : Id} {m : IrcMsg} (hi : Inv c.st) (hn : NI c.st)
    (hr : cmdServerKick c sid m = .ok c') : NewOut (SrvKickLine c.st m) c c' := by
  unfold cmdServerKick at hr
  obtain ⟨chn, hchn, hr⟩ := Res.bind_eq_ok.1 hr
  obtain ⟨target, htarget, hr⟩ := Res.bind_eq_ok.1 hr
  have hp0 := param_eq_ok hchn
  have hp1 := param_eq_ok htarget
  simp only [getChan_eq] at hr
  split at hr
  · obtain ⟨pn, _, hr⟩ := Res.bind_eq_ok.1 hr
    cases hr; exact (NewOut.refl _ c).sendSvc fun _ _ => .reply rfl
  · rename_i ch hch
    split at hr
    · obtain ⟨pn, _, hr⟩ := Res.bind_eq_ok.1 hr
      cases hr; exact (NewOut.refl _ c).sendSvc fun _ _ => .reply rfl
    · rename_i hcont
      have hcont' : AMap.contains ch.nicks (nickToLower target) = true := svcA_contains_of_not_not hcont
      split at hr
      · rename_i tid hidx
        obtain ⟨sp, hsp, hr⟩ := Res.bind_eq_ok.1 hr
        obtain ⟨rc, hrc, hr⟩ := Res.bind_eq_ok.1 hr
        obtain ⟨pn, hpn, rfl⟩ := servicesPrefix_eq_ok hsp
        have sp := leaveChannel_spec (c := emit _ _ _) hi.toWInv hidx hr
        refine ((NewOut.refl _ c).emit fun _ _ => ?_).frame sp.frame
        exact .relay chn target pn ch tid hp0 hp1 hch hidx
          (lists_of_member hi.toWInvCore hch hcont' hidx) hpn rfl
          (RcptIs.of_list_svc (rcChannel_lists hi hn hch hrc))
      · cases hr

/-- the membership after a services KICK: nothing changes, or exactly the target leaves exactly that channel -/
theorem cmdServerKick_lists {c c' : Ctx} {sid : Id} {m : IrcMsg} (hi : Inv c.st)
    (hr : cmdServerKick c sid m = .ok c') :
    SameLists c.st c'.st ∨
    ∃ chn target tid, m.params[0]? = some chn ∧ m.params[1]? = some target ∧
      AMap.get c.st.nicks (nickToLower target) = some tid ∧
      ∀ lc id, Lists c'.st lc id ↔ Lists c.st lc id ∧ ¬ (id = tid ∧ lc = chanToLower chn) := by
  unfold cmdServerKick at hr
  obtain ⟨chn, hchn, hr⟩ := Res.bind_eq_ok.1 hr
  obtain ⟨target, htarget, hr⟩ := Res.bind_eq_ok.1 hr
  simp only [getChan_eq] at hr
  split at hr
  · obtain ⟨pn, _, hr⟩ := Res.bind_eq_ok.1 hr
    cases hr; exact Or.inl (SameLists.refl _)
  · split at hr
    · obtain ⟨pn, _, hr⟩ := Res.bind_eq_ok.1 hr
      cases hr; exact Or.inl (SameLists.refl _)
    · split at hr
      · rename_i tid hidx
        obtain ⟨sp, _, hr⟩ := Res.bind_eq_ok.1 hr
        obtain ⟨rc, _, hr⟩ := Res.bind_eq_ok.1 hr
        have sp := leaveChannel_spec (c := emit _ _ _) hi.toWInv hidx hr
        exact Or.inr ⟨chn, target, tid, param_eq_ok hchn, param_eq_ok htarget, hidx, fun lc id => sp.lists⟩
      · cases hr

/-! ### TOPIC -/

/-- the lines `cmdServerTopic` can produce -/
inductive SrvTopicLine (st : St) (m : IrcMsg) (o : Out) : Prop
  /-- numeric reply (403): to the services links only -/
  | reply (h : o.rcpt = st.serverSessions)
  /-- the topic change, under the services prefix: to exactly the sessions listing that channel -/
  | relay (chn pn : String) (ch : Channel) (hp0 : m.params[0]? = some chn)
      (hc : AMap.get st.channels (chanToLower chn) = some ch) (hpn : pfxName m = .ok pn)
      (hd : o.data = (IrcMsg.mk (some ⟨pn, "services", "services"⟩) "TOPIC" [chn, m.trailing]).render)
      (hr : RcptIs o (Lists st (chanToLower chn)) [])

theorem cmdServerTopic_out {c c' : Ctx} {sid : Id} {m : IrcMsg} (hi : Inv c.st) (hn : NI c.st)
    (hr : cmdServerTopic c sid m = .ok c') : NewOut (SrvTopicLine c.st m) c c' ∧ SameLists c.st c'.st := by
  unfold cmdServerTopic at hr
  obtain ⟨chn, hchn, hr⟩ := Res.bind_eq_ok.1 hr
  have hp0 := param_eq_ok hchn
  simp only [getChan_eq] at hr
  split at hr
  · obtain ⟨pn, _, hr⟩ := Res.bind_eq_ok.1 hr
    cases hr; exact ⟨(NewOut.refl _ c).sendSvc fun _ _ => .reply rfl, SameLists.refl _⟩
  · rename_i ch hch
    obtain ⟨p2, _, hr⟩ := Res.bind_eq_ok.1 hr
    obtain ⟨ts?, _, hr⟩ := Res.bind_eq_ok.1 hr
    split at hr
    · cases hr
    · obtain ⟨p1, _, hr⟩ := Res.bind_eq_ok.1 hr
      split at hr
      · cases hr
      · obtain ⟨sp, hsp, hr⟩ := Res.bind_eq_ok.1 hr
        obtain ⟨rc, hrc, hr⟩ := Res.bind_eq_ok.1 hr
        cases hr
        obtain ⟨pn, hpn, rfl⟩ := servicesPrefix_eq_ok hsp
        have hrc : rcChannel c.st ch = Res.ok rc := by
          rw [← hrc]; exact (svcA_rcChannel_congr rfl rfl).symm
        refine ⟨NewOut.emit (c := putChan c _ _) ((NewOut.refl _ c).step rfl) fun _ _ => ?_, SameLists.of_eq rfl⟩
        exact .relay chn pn ch hp0 hch hpn rfl (RcptIs.of_list (rcChannel_lists hi hn hch hrc))

/-! ### INVITE -/

/-- the lines `cmdServerInvite` can produce -/
inductive SrvInviteLine (st : St) (m : IrcMsg) (o : Out) : Prop
  /-- numeric reply (401, 403, 443) and the 341 confirmation: to the services links only -/
  | reply (h : o.rcpt = st.serverSessions)
  /-- the INVITE, under the services prefix: to the invited session only -/
  | invite (nickname chn pn : String) (tid : Id) (t : Session) (ch : Channel)
      (hp0 : m.params[0]? = some nickname) (hp1 : m.params[1]? = some chn)
      (hi : AMap.get st.nicks (nickToLower nickname) = some tid) (ht : AMap.get st.sessions tid = some t)
      (hc : AMap.get st.channels (chanToLower chn) = some ch) (hpn : pfxName m = .ok pn)
      (hd : o.data = (IrcMsg.mk (some ⟨pn, "services", "services"⟩) "INVITE" [t.nick, ch.name]).render)
      (hr : ToOnly tid o)
  /-- the server NOTICE "… invited … into the channel": to exactly the sessions listing the channel -/
  | notice (chn : String) (ch : Channel) (hp1 : m.params[1]? = some chn)
      (hc : AMap.get st.channels (chanToLower chn) = some ch)
      (hr : RcptIs o (Lists st (chanToLower chn)) [])

theorem cmdServerInvite_out {c c' : Ctx} {sid : Id} {m : IrcMsg} (hi : Inv c.st) (hn : NI c.st)
    (hr : cmdServerInvite c sid m = .ok c') : NewOut (SrvInviteLine c.st m) c c' ∧ SameLists c.st c'.st := by
  unfold cmdServerInvite at hr
  obtain ⟨nickname, hnick, hr⟩ := Res.bind_eq_ok.1 hr
  obtain ⟨chn, hchn, hr⟩ := Res.bind_eq_ok.1 hr
  have hp0 := param_eq_ok hnick
  have hp1 := param_eq_ok hchn
  split at hr
  · obtain ⟨pn, _, hr⟩ := Res.bind_eq_ok.1 hr
    cases hr; exact ⟨(NewOut.refl _ c).sendSvc fun _ _ => .reply rfl, SameLists.refl _⟩
  · rename_i tid hidx
    obtain ⟨t, ht, hr⟩ := Res.bind_eq_ok.1 hr
    rw [getS_eq_ok] at ht
    simp only [getChan_eq] at hr
    split at hr
    · obtain ⟨pn, _, hr⟩ := Res.bind_eq_ok.1 hr
      cases hr; exact ⟨(NewOut.refl _ c).sendSvc fun _ _ => .reply rfl, SameLists.refl _⟩
    · rename_i ch hch
      split at hr
      · obtain ⟨pn, _, hr⟩ := Res.bind_eq_ok.1 hr
        cases hr; exact ⟨(NewOut.refl _ c).sendSvc fun _ _ => .reply rfl, SameLists.refl _⟩
      · obtain ⟨c1, h1, hr⟩ := Res.bind_eq_ok.1 hr
        obtain ⟨pn, hpn, hr⟩ := Res.bind_eq_ok.1 hr
        obtain ⟨sp, hsp, hr⟩ := Res.bind_eq_ok.1 hr
        obtain ⟨rc, hrc, hr⟩ := Res.bind_eq_ok.1 hr
        cases hr
        obtain ⟨pn', hpn', rfl⟩ := servicesPrefix_eq_ok hsp
        rw [hpn] at hpn'; cases hpn'
        have hw := hi.toWInvCore
        have hI := (Inert.refl hw).modS hw h1 (fun _ => ⟨rfl, rfl, rfl, rfl⟩) (fun _ => ⟨rfl, rfl⟩)
        have hi1 : Inv c1.st := hI.inv hi
        have hn1 : NI c1.st := hn.modS_keep h1 (fun _ => ⟨rfl, rfl⟩)
        have hsl : SameLists c.st c1.st := by
          refine SameLists.modS ?_ ?_ h1
          · intro t0 ht0; exact (hi.sessId tid t0 ht0).1
          · intro _; rfl
        have hch1 : AMap.get c1.st.channels (chanToLower chn) = some ch := by
          obtain ⟨_, _, rfl⟩ := modS_eq_ok.1 h1; exact hch
        have hsvc : c1.st.serverSessions = c.st.serverSessions := by
          obtain ⟨_, _, rfl⟩ := modS_eq_ok.1 h1; rfl
        have hrc' : rcChannel c1.st ch = Res.ok rc := hrc
        refine ⟨?_, hsl⟩
        refine ((((NewOut.refl _ c).modS h1).sendSvc fun _ _ => .reply hsvc).sendUser fun _ _ => ?_).emit fun _ _ => ?_
        · exact .invite nickname chn pn tid t ch hp0 hp1 hidx ht hch hpn rfl rfl
        · exact .notice chn ch hp1 hch
            ((RcptIs.of_list (rcChannel_lists hi1 hn1 hch1 hrc')).congr fun id => hsl.lists)

/-! ### SVSPART -/

/-- the lines `cmdServerSvspart` can produce -/
inductive SrvSvspartLine (st : St) (m : IrcMsg) (o : Out) : Prop
  /-- numeric reply (401, 403, 442): to the services links only -/
  | reply (h : o.rcpt = st.serverSessions)
  /-- the PART, under the parted session's own prefix: to exactly the sessions listing the channel (the leaving
  one included) and the services links -/
  | relay (p0 chn : String) (tid : Id) (t : Session) (ch : Channel)
      (hp0 : m.params[0]? = some p0) (hp1 : m.params[1]? = some chn)
      (hi : AMap.get st.nicks (nickToLower p0) = some tid) (ht : AMap.get st.sessions tid = some t)
      (hc : AMap.get st.channels (chanToLower chn) = some ch) (hon : Lists st (chanToLower chn) tid)
      (hd : o.data = (IrcMsg.mk (some t.ircPrefix) "PART" [chn]).render)
      (hr : RcptIs o (Lists st (chanToLower chn)) st.serverSessions)

theorem cmdServerSvspart_out {c c' : Ctx} {sid : Id} {m : IrcMsg} (hi : Inv c.st) (hn : NI c.st)
    (hr : cmdServerSvspart c sid m = .ok c') : NewOut (SrvSvspartLine c.st m) c c' := by
  unfold cmdServerSvspart at hr
  obtain ⟨p0, hp0', hr⟩ := Res.bind_eq_ok.1 hr
  obtain ⟨chn, hchn, hr⟩ := Res.bind_eq_ok.1 hr
  have hp0 := param_eq_ok hp0'
  have hp1 := param_eq_ok hchn
  dsimp only at hr
  split at hr
  · obtain ⟨pn, _, hr⟩ := Res.bind_eq_ok.1 hr
    cases hr; exact (NewOut.refl _ c).sendSvc fun _ _ => .reply rfl
  · rename_i tid hidx
    simp only [getChan_eq] at hr
    split at hr
    · obtain ⟨pn, _, hr⟩ := Res.bind_eq_ok.1 hr
      cases hr; exact (NewOut.refl _ c).sendSvc fun _ _ => .reply rfl
    · rename_i ch hch
      split at hr
      · obtain ⟨pn, _, hr⟩ := Res.bind_eq_ok.1 hr
        cases hr; exact (NewOut.refl _ c).sendSvc fun _ _ => .reply rfl
      · rename_i hcont
        have hcont' : AMap.contains ch.nicks (nickToLower p0) = true := svcA_contains_of_not_not hcont
        obtain ⟨t, ht, hr⟩ := Res.bind_eq_ok.1 hr
        rw [getS_eq_ok] at ht
        obtain ⟨rc, hrc, hr⟩ := Res.bind_eq_ok.1 hr
        have sp := leaveChannel_spec (c := emit _ _ _) hi.toWInv hidx hr
        refine ((NewOut.refl _ c).emit fun _ _ => ?_).frame sp.frame
        exact .relay p0 chn tid t ch hp0 hp1 hidx ht hch
          (lists_of_member hi.toWInvCore hch hcont' hidx) rfl
          (RcptIs.of_list_svc (rcChannel_lists hi hn hch hrc))

/-- the membership after SVSPART: nothing changes, or exactly the target leaves exactly that channel -/
theorem cmdServerSvspart_lists {c c' : Ctx} {sid : Id} {m : IrcMsg} (hi : Inv c.st)
    (hr : cmdServerSvspart c sid m = .ok c') :
    SameLists c.st c'.st ∨
    ∃ p0 chn tid, m.params[0]? = some p0 ∧ m.params[1]? = some chn ∧
      AMap.get c.st.nicks (nickToLower p0) = some tid ∧
      ∀ lc id, Lists c'.st lc id ↔ Lists c.st lc id ∧ ¬ (id = tid ∧ lc = chanToLower chn) := by
  unfold cmdServerSvspart at hr
  obtain ⟨p0, hp0', hr⟩ := Res.bind_eq_ok.1 hr
  obtain ⟨chn, hchn, hr⟩ := Res.bind_eq_ok.1 hr
  dsimp only at hr
  split at hr
  · obtain ⟨pn, _, hr⟩ := Res.bind_eq_ok.1 hr
    cases hr; exact Or.inl (SameLists.refl _)
  · rename_i tid hidx
    simp only [getChan_eq] at hr
    split at hr
    · obtain ⟨pn, _, hr⟩ := Res.bind_eq_ok.1 hr
      cases hr; exact Or.inl (SameLists.refl _)
    · split at hr
      · obtain ⟨pn, _, hr⟩ := Res.bind_eq_ok.1 hr
        cases hr; exact Or.inl (SameLists.refl _)
      · obtain ⟨t, _, hr⟩ := Res.bind_eq_ok.1 hr
        obtain ⟨rc, _, hr⟩ := Res.bind_eq_ok.1 hr
        have sp := leaveChannel_spec (c := emit _ _ _) hi.toWInv hidx hr
        exact Or.inr ⟨p0, chn, tid, param_eq_ok hp0', param_eq_ok hchn, hidx, fun lc id => sp.lists⟩

/-! ### SVSHOLD -/

/-- SVSHOLD produces no output and only touches the hold table -/
theorem cmdServerSvshold_out {c c' : Ctx} {sid : Id} {m : IrcMsg} (hr : cmdServerSvshold c sid m = .ok c') :
    c'.out = c.out ∧ c'.st.sessions = c.st.sessions ∧ c'.st.nicks = c.st.nicks ∧ c'.st.channels = c.st.channels ∧
    c'.st.serverSessions = c.st.serverSessions := by
  unfold cmdServerSvshold at hr
  obtain ⟨s, hs, hr⟩ := Res.bind_eq_ok.1 hr
  obtain ⟨p0, hp0, hr⟩ := Res.bind_eq_ok.1 hr
  dsimp only at hr
  split at hr
  · obtain ⟨p1, hp1, hr⟩ := Res.bind_eq_ok.1 hr
    split at hr
    · cases hr
    · split at hr
      · cases hr
      · cases hr
        exact ⟨rfl, rfl, rfl, rfl, rfl⟩
  · cases hr
    exact ⟨rfl, rfl, rfl, rfl, rfl⟩

/-! ### SVSMODE -/

/-- the lines `cmdServerSvsmode` can produce (`s` = the stored session of the acting link) -/
inductive SrvSvsmodeLine (st : St) (s : Session) (m : IrcMsg) (o : Out) : Prop
  /-- numeric reply (401, 501): to the services links only -/
  | reply (h : o.rcpt = st.serverSessions)
  /-- the final `MODE nick modes`, under the link's prefix: to the owner of the target nickname only -/
  | mode (p0 : String) (tid : Id) (hp0 : m.params[0]? = some p0)
      (hi : AMap.get st.nicks (nickToLower p0) = some tid)
      (hd : ∃ nick modes, o.data = (IrcMsg.mk (some s.ircPrefix) "MODE" [nick, modes]).render)
      (hr : ToOnly tid o)

private theorem svcA_svsmodeStep {c ci ci' : Ctx} {s : Session} {m : IrcMsg} {tid : Id} {mc : ModeCmd}
    (hP : Keep c ci ∧ NewOut (SrvSvsmodeLine c.st s m) c ci) (hstep : svsmodeStep tid ci mc = Res.ok ci') :
    Keep c ci' ∧ NewOut (SrvSvsmodeLine c.st s m) c ci' := by
  unfold svsmodeStep at hstep
  dsimp only at hstep
  split at hstep
  · exact ⟨hP.1.modS hstep (fun _ => rfl) (fun _ => rfl), hP.2.modS hstep⟩
  · split at hstep
    · exact ⟨hP.1.modS hstep (fun _ => rfl) (fun _ => rfl), hP.2.modS hstep⟩
    · cases hstep
      exact ⟨hP.1.of_st rfl, hP.2.sendSvc fun _ _ => .reply hP.1.svc⟩

theorem cmdServerSvsmode_out {c c' : Ctx} {sid : Id} {m : IrcMsg} {s : Session} (hi : Inv c.st)
    (hs : AMap.get c.st.sessions sid = some s)
    (hr : cmdServerSvsmode c sid m = .ok c') : NewOut (SrvSvsmodeLine c.st s m) c c' ∧ SameLists c.st c'.st := by
  rw [cmdServerSvsmode_eq, getS_of_get hs] at hr
  simp only [Res.ok_bind] at hr
  obtain ⟨p0, hp0', hr⟩ := Res.bind_eq_ok.1 hr
  have hp0 := param_eq_ok hp0'
  split at hr
  · cases hr; exact ⟨(NewOut.refl _ c).sendSvc fun _ _ => .reply rfl, SameLists.refl _⟩
  · rename_i tid hidx
    obtain ⟨modestr, _, hr⟩ := Res.bind_eq_ok.1 hr
    split at hr
    · cases hr; exact ⟨(NewOut.refl _ c).sendSvc fun _ _ => .reply rfl, SameLists.refl _⟩
    · obtain ⟨c1, hfold, hr⟩ := Res.bind_eq_ok.1 hr
      obtain ⟨t, _, hr⟩ := Res.bind_eq_ok.1 hr
      cases hr
      have hidok : IdOK c.st := fun id x hx => (hi.sessId id x hx).1
      have h1 : Keep c c1 ∧ NewOut (SrvSvsmodeLine c.st s m) c c1 :=
        foldlM_inv (fun ci => Keep c ci ∧ NewOut (SrvSvsmodeLine c.st s m) c ci) _ _
          (fun _ _ _ _ hP hstep => svcA_svsmodeStep hP hstep) c c1 ⟨Keep.refl hidok, NewOut.refl _ c⟩ hfold
      exact ⟨h1.2.sendUser fun _ _ => .mode p0 tid hp0 hidx ⟨_, _, rfl⟩ rfl, h1.1.lists⟩

/-! ### MODE -/

/-- the lines `cmdServerMode` can produce -/
inductive SrvModeLine (st : St) (m : IrcMsg) (o : Out) : Prop
  /-- numeric reply (403, 441, 472): to the services links only -/
  | reply (h : o.rcpt = st.serverSessions)
  /-- the mode change, under the services prefix: to exactly the sessions listing that channel -/
  | relay (chn pn : String) (ch : Channel) (hp0 : m.params[0]? = some chn)
      (hc : AMap.get st.channels (chanToLower chn) = some ch) (hpn : pfxName m = .ok pn)
      (hd : o.data = (IrcMsg.mk (some ⟨pn, "services", "services"⟩) "MODE" (chn :: ircParams (normalizeModes m))).render)
      (hr : RcptIs o (Lists st (chanToLower chn)) [])

/-- loop invariant of the mode fold: sessions, index and services links untouched; the channel keeps its member
keys; only replies were produced -/
private def svcA_ModeInv (c : Ctx) (m : IrcMsg) (lc : String) (ci : Ctx) : Prop :=
  ci.st.sessions = c.st.sessions ∧ ci.st.nicks = c.st.nicks ∧ ci.st.serverSessions = c.st.serverSessions ∧
  (∀ ch', AMap.get ci.st.channels lc = some ch' →
    ∃ ch, AMap.get c.st.channels lc = some ch ∧ AMap.keys ch'.nicks = AMap.keys ch.nicks) ∧
  NewOut (SrvModeLine c.st m) c ci

private theorem svcA_ModeInv.putChan {c ci : Ctx} {m : IrcMsg} {lc : String} {chi ch' : Channel}
    (hP : svcA_ModeInv c m lc ci) (hg : AMap.get ci.st.channels lc = some chi)
    (hk : AMap.keys ch'.nicks = AMap.keys chi.nicks) : svcA_ModeInv c m lc (putChan ci lc ch') := by
  obtain ⟨h1, h2, h3, h4, h5⟩ := hP
  refine ⟨h1, h2, h3, ?_, h5.step rfl⟩
  intro ch'' hg''
  rw [putChan_channels, AMap.get_set_same] at hg''
  cases hg''
  obtain ⟨ch, hc, hkk⟩ := h4 chi hg
  exact ⟨ch, hc, hk.trans hkk⟩

private theorem svcA_ModeInv.sendSvc {c ci : Ctx} {m : IrcMsg} {lc : String}
    (hP : svcA_ModeInv c m lc ci) (msg : IrcMsg) : svcA_ModeInv c m lc (sendSvc ci msg) := by
  obtain ⟨h1, h2, h3, h4, h5⟩ := hP
  exact ⟨h1, h2, h3, h4, h5.sendSvc fun _ _ => .reply h3⟩

private theorem svcA_serverModeStep {c ci ci' : Ctx} {m : IrcMsg} {chn lc : String} {mc : ModeCmd}
    (hP : svcA_ModeInv c m lc ci) (hstep : serverModeStep m chn lc ci mc = Res.ok ci') :
    svcA_ModeInv c m lc ci' := by
  unfold serverModeStep at hstep
  simp only [getChan_eq] at hstep
  split at hstep
  · rename_i ch hch
    split at hstep
    · cases hstep
      exact hP.putChan hch rfl
    · split at hstep
      · split at hstep
        · obtain ⟨pn, _, hstep⟩ := Res.bind_eq_ok.1 hstep
          cases hstep; exact hP.sendSvc _
        · rename_i perms hperms
          split at hstep
          · cases hstep
            exact hP.putChan hch (keys_setMember _ hperms)
          · cases hstep; exact hP
      · obtain ⟨pn, _, hstep⟩ := Res.bind_eq_ok.1 hstep
        cases hstep; exact hP.sendSvc _
  · cases hstep

theorem cmdServerMode_out {c c' : Ctx} {sid : Id} {m : IrcMsg} (hi : Inv c.st) (hn : NI c.st)
    (hr : cmdServerMode c sid m = .ok c') : NewOut (SrvModeLine c.st m) c c' ∧ SameLists c.st c'.st := by
  rw [cmdServerMode_eq] at hr
  obtain ⟨chn, hchn, hr⟩ := Res.bind_eq_ok.1 hr
  have hp0 := param_eq_ok hchn
  simp only [getChan_eq] at hr
  split at hr
  · obtain ⟨pn, _, hr⟩ := Res.bind_eq_ok.1 hr
    cases hr; exact ⟨(NewOut.refl _ c).sendSvc fun _ _ => .reply rfl, SameLists.refl _⟩
  · rename_i ch0 hch0
    obtain ⟨c1, hfold, hr⟩ := Res.bind_eq_ok.1 hr
    have h1 : svcA_ModeInv c m (chanToLower chn) c1 :=
      foldlM_inv (svcA_ModeInv c m (chanToLower chn)) _ _
        (fun _ _ _ _ hP hstep => svcA_serverModeStep hP hstep) c c1
        ⟨rfl, rfl, rfl, fun ch' h => ⟨ch', h, rfl⟩, NewOut.refl _ c⟩ hfold
    obtain ⟨hs1, hn1, hv1, hk1, ho1⟩ := h1
    split at hr
    · cases hr; exact ⟨ho1, SameLists.of_eq hs1⟩
    · split at hr
      · rename_i ch1 hch1
        obtain ⟨sp, hsp, hr⟩ := Res.bind_eq_ok.1 hr
        obtain ⟨rc, hrc, hr⟩ := Res.bind_eq_ok.1 hr
        cases hr
        obtain ⟨pn, hpn, rfl⟩ := servicesPrefix_eq_ok hsp
        obtain ⟨ch, hch, hkeys⟩ := hk1 ch1 hch1
        have hrc' : rcChannel c.st ch = Res.ok rc := by
          rw [← hrc]; exact (svcA_rcChannel_congr hn1 hkeys).symm
        refine ⟨ho1.emit fun _ _ => ?_, SameLists.of_eq hs1⟩
        exact .relay chn pn ch hp0 hch hpn rfl (RcptIs.of_list (rcChannel_lists hi hn hch hrc'))
      · cases hr

/-! ### NICK (a services link introduces a pseudo-client) -/

/-- every line of a services NICK is a reply for the services links; the services links stay the same and no
stored session gains or loses a channel (the new pseudo-client lists none) -/
theorem cmdServerNick_out {c c' : Ctx} {sid : Id} {m : IrcMsg}
    (hr : cmdServerNick c sid m = .ok c') :
    NewOut (fun o => o.rcpt = c.st.serverSessions) c c' ∧ c'.st.serverSessions = c.st.serverSessions ∧
    (∀ lc id, Lists c.st lc id → Lists c'.st lc id) ∧
    (∀ lc id, Lists c'.st lc id → Lists c.st lc id) := by
  have reply : ∀ msg, NewOut (fun o => o.rcpt = c.st.serverSessions) c (sendSvc c msg) ∧
      (sendSvc c msg).st.serverSessions = c.st.serverSessions ∧
      (∀ lc id, Lists c.st lc id → Lists (sendSvc c msg).st lc id) ∧
      (∀ lc id, Lists (sendSvc c msg).st lc id → Lists c.st lc id) :=
    fun _ => ⟨(NewOut.refl _ c).sendSvc fun _ _ => rfl, rfl, fun _ _ h => h, fun _ _ h => h⟩
  unfold cmdServerNick at hr
  obtain ⟨s, hs, hr⟩ := Res.bind_eq_ok.1 hr
  split at hr
  · cases hr; exact ⟨NewOut.refl _ c, rfl, fun _ _ h => h, fun _ _ h => h⟩
  · obtain ⟨p0, _, hr⟩ := Res.bind_eq_ok.1 hr
    split at hr
    · cases hr; exact reply _
    · split at hr
      · cases hr; exact reply _
      · dsimp only at hr
        split at hr
        · cases hr; exact reply _
        · rename_i hsess
          split at hr
          · cases hr; exact reply _
          · rename_i st1 hcs
            obtain ⟨p3, _, hr⟩ := Res.bind_eq_ok.1 hr
            obtain ⟨c2, hm, hr⟩ := Res.bind_eq_ok.1 hr
            cases hr
            have hfresh : AMap.get c.st.sessions ⟨s.id.id, fnv64 p0⟩ = none :=
              AMap.contains_eq_false_iff.1 (by simpa using hsess)
            have e1 := createSession_eq hcs
            subst e1
            obtain ⟨ns, hns, rfl⟩ := modS_eq_ok.1 hm
            change AMap.get (AMap.set c.st.sessions _ _) _ = some ns at hns
            rw [AMap.get_set_same] at hns
            cases hns
            refine ⟨NewOut.of_out rfl, rfl, ?_, ?_⟩
            · rintro lc id ⟨x, hx, hl⟩
              have hne : id ≠ ⟨s.id.id, fnv64 p0⟩ := by
                intro he; rw [he, hfresh] at hx; cases hx
              refine ⟨x, ?_, hl⟩
              show AMap.get (AMap.set (AMap.set c.st.sessions (⟨s.id.id, fnv64 p0⟩ : Id) _) (⟨s.id.id, fnv64 p0⟩ : Id) _) id = some x
              rw [AMap.get_set_other _ hne, AMap.get_set_other _ hne]
              exact hx
            · rintro lc id ⟨x, hx, hl⟩
              change AMap.get (AMap.set (AMap.set c.st.sessions (⟨s.id.id, fnv64 p0⟩ : Id) _) (⟨s.id.id, fnv64 p0⟩ : Id) _) id = some x at hx
              rw [AMap.get_set] at hx
              split at hx
              · cases hx
                cases hl
              · rename_i hne
                rw [AMap.get_set_other _ hne] at hx
                exact ⟨x, hx, hl⟩

end Robust.Irc
