import Robust.Irc.Proofs.FrmBase
import Robust.Irc.Proofs.NH3
/-!
The frame relation `Frm` (`FrmBase.lean`) is preserved by the services (server-to-server) handlers
and by `cmdServer`.  The only handler that stores a new session is the services `NICK`: the new
pseudo-client gets marker `0`, an id with `reply ≠ 0` and the numeric id of its link.
The walks mirror `RcptPfxSrv.lean`.
-/
namespace Robust.Irc
open Srv
open Robust AMap

theorem Frm.emits {st0 : St} {c c' : Ctx} (h : Frm st0 c.st) (he : Srv.Emits c c') : Frm st0 c'.st := by
  rw [he.st]; exact h

/-! ### SVSHOLD -/

theorem cmdServerSvshold_frm {st0 : St} {c c' : Ctx} {sid : Id} {m : IrcMsg} (h : Frm st0 c.st)
    (hr : cmdServerSvshold c sid m = Res.ok c') : Frm st0 c'.st := by
  unfold cmdServerSvshold at hr
  obtain ⟨s, hs, hr⟩ := Res.bind_eq_ok.1 hr
  obtain ⟨p0, hp0, hr⟩ := Res.bind_eq_ok.1 hr
  dsimp only at hr
  split at hr
  · obtain ⟨p1, hp1, hr⟩ := Res.bind_eq_ok.1 hr
    split at hr
    · cases hr
    · split at hr
      · cases hr
      · cases hr
        exact h.congr rfl rfl rfl
  · cases hr
    exact h.congr rfl rfl rfl

theorem cmdServerSvshold_fpres : FrmPres cmdServerSvshold := .of_plain cmdServerSvshold_frm

/-! ### PRIVMSG / NOTICE -/

theorem cmdServerPrivmsg_frm {st0 : St} {c c' : Ctx} {sid : Id} {m : IrcMsg} (h : Frm st0 c.st)
    (hr : cmdServerPrivmsg c sid m = Res.ok c') : Frm st0 c'.st := by
  unfold cmdServerPrivmsg at hr
  split at hr
  · obtain ⟨pn, _, hr⟩ := Res.bind_eq_ok.1 hr
    cases hr; exact h.sendSvc _
  · split at hr
    · obtain ⟨pn, _, hr⟩ := Res.bind_eq_ok.1 hr
      cases hr; exact h.sendSvc _
    · obtain ⟨p0, _, hr⟩ := Res.bind_eq_ok.1 hr
      split at hr
      · split at hr
        · obtain ⟨pn, _, hr⟩ := Res.bind_eq_ok.1 hr
          cases hr; exact h.sendSvc _
        · obtain ⟨sp, _, hr⟩ := Res.bind_eq_ok.1 hr
          obtain ⟨rc, _, hr⟩ := Res.bind_eq_ok.1 hr
          cases hr; exact h.emit _ _
      · split at hr
        · obtain ⟨pn, _, hr⟩ := Res.bind_eq_ok.1 hr
          cases hr; exact h.sendSvc _
        · obtain ⟨sp, _, hr⟩ := Res.bind_eq_ok.1 hr
          cases hr; exact h.sendUser _ _

theorem cmdServerPrivmsg_fpres : FrmPres cmdServerPrivmsg := .of_plain cmdServerPrivmsg_frm

/-! ### TOPIC -/

theorem cmdServerTopic_frm {st0 : St} {c c' : Ctx} {sid : Id} {m : IrcMsg} (h : Frm st0 c.st)
    (hr : cmdServerTopic c sid m = Res.ok c') : Frm st0 c'.st := by
  unfold cmdServerTopic at hr
  obtain ⟨channel, _, hr⟩ := Res.bind_eq_ok.1 hr
  simp only [getChan_eq] at hr
  split at hr
  · obtain ⟨pn, _, hr⟩ := Res.bind_eq_ok.1 hr
    cases hr; exact h.sendSvc _
  · rename_i ch hch
    obtain ⟨p2, _, hr⟩ := Res.bind_eq_ok.1 hr
    obtain ⟨ts?, _, hr⟩ := Res.bind_eq_ok.1 hr
    split at hr
    · cases hr
    · obtain ⟨p1, _, hr⟩ := Res.bind_eq_ok.1 hr
      split at hr
      · cases hr
      · obtain ⟨sp, _, hr⟩ := Res.bind_eq_ok.1 hr
        obtain ⟨rc, _, hr⟩ := Res.bind_eq_ok.1 hr
        cases hr
        exact Frm.emit (c := putChan _ _ _) (h.putChan _ _) _ _

theorem cmdServerTopic_fpres : FrmPres cmdServerTopic := .of_plain cmdServerTopic_frm

/-! ### INVITE -/

theorem cmdServerInvite_frm {st0 : St} {c c' : Ctx} {sid : Id} {m : IrcMsg} (h : Frm st0 c.st)
    (hr : cmdServerInvite c sid m = Res.ok c') : Frm st0 c'.st := by
  unfold cmdServerInvite at hr
  obtain ⟨nickname, _, hr⟩ := Res.bind_eq_ok.1 hr
  obtain ⟨channelname, _, hr⟩ := Res.bind_eq_ok.1 hr
  split at hr
  · obtain ⟨pn, _, hr⟩ := Res.bind_eq_ok.1 hr
    cases hr; exact h.sendSvc _
  · obtain ⟨t, _, hr⟩ := Res.bind_eq_ok.1 hr
    simp only [getChan_eq] at hr
    split at hr
    · obtain ⟨pn, _, hr⟩ := Res.bind_eq_ok.1 hr
      cases hr; exact h.sendSvc _
    · split at hr
      · obtain ⟨pn, _, hr⟩ := Res.bind_eq_ok.1 hr
        cases hr; exact h.sendSvc _
      · obtain ⟨c1, h1, hr⟩ := Res.bind_eq_ok.1 hr
        obtain ⟨pn, _, hr⟩ := Res.bind_eq_ok.1 hr
        obtain ⟨sp, _, hr⟩ := Res.bind_eq_ok.1 hr
        obtain ⟨rc, _, hr⟩ := Res.bind_eq_ok.1 hr
        cases hr
        have n1 : Frm st0 c1.st := h.modS_keep h1 (fun _ => ⟨rfl, rfl⟩)
        exact (((n1.sendSvc _).sendUser _ _).emit _ _)

theorem cmdServerInvite_fpres : FrmPres cmdServerInvite := .of_plain cmdServerInvite_frm

/-! ### KICK -/

theorem cmdServerKick_frm {st0 : St} {c c' : Ctx} {sid : Id} {m : IrcMsg} (h : Frm st0 c.st)
    (hr : cmdServerKick c sid m = Res.ok c') : Frm st0 c'.st := by
  unfold cmdServerKick at hr
  obtain ⟨channelname, _, hr⟩ := Res.bind_eq_ok.1 hr
  obtain ⟨target, _, hr⟩ := Res.bind_eq_ok.1 hr
  simp only [getChan_eq] at hr
  split at hr
  · obtain ⟨pn, _, hr⟩ := Res.bind_eq_ok.1 hr
    cases hr; exact h.sendSvc _
  · split at hr
    · obtain ⟨pn, _, hr⟩ := Res.bind_eq_ok.1 hr
      cases hr; exact h.sendSvc _
    · split at hr
      · obtain ⟨sp, _, hr⟩ := Res.bind_eq_ok.1 hr
        obtain ⟨rc, _, hr⟩ := Res.bind_eq_ok.1 hr
        exact Frm.leaveChannel (c := emit _ _ _) h hr
      · cases hr

theorem cmdServerKick_fpres : FrmPres cmdServerKick := .of_plain cmdServerKick_frm

/-! ### SVSPART -/

theorem cmdServerSvspart_frm {st0 : St} {c c' : Ctx} {sid : Id} {m : IrcMsg} (h : Frm st0 c.st)
    (hr : cmdServerSvspart c sid m = Res.ok c') : Frm st0 c'.st := by
  unfold cmdServerSvspart at hr
  obtain ⟨p0, _, hr⟩ := Res.bind_eq_ok.1 hr
  obtain ⟨channelname, _, hr⟩ := Res.bind_eq_ok.1 hr
  dsimp only at hr
  split at hr
  · obtain ⟨pn, _, hr⟩ := Res.bind_eq_ok.1 hr
    cases hr; exact h.sendSvc _
  · simp only [getChan_eq] at hr
    split at hr
    · obtain ⟨pn, _, hr⟩ := Res.bind_eq_ok.1 hr
      cases hr; exact h.sendSvc _
    · split at hr
      · obtain ⟨pn, _, hr⟩ := Res.bind_eq_ok.1 hr
        cases hr; exact h.sendSvc _
      · obtain ⟨t, _, hr⟩ := Res.bind_eq_ok.1 hr
        obtain ⟨rc, _, hr⟩ := Res.bind_eq_ok.1 hr
        exact Frm.leaveChannel (c := emit _ _ _) h hr

theorem cmdServerSvspart_fpres : FrmPres cmdServerSvspart := .of_plain cmdServerSvspart_frm

/-! ### MODE -/

theorem serverModeStep_frm {st0 : St} {c c' : Ctx} {m : IrcMsg} {chn lc : String} {mc : ModeCmd}
    (h : Frm st0 c.st) (hstep : serverModeStep m chn lc c mc = Res.ok c') : Frm st0 c'.st := by
  unfold serverModeStep at hstep
  simp only [getChan_eq] at hstep
  split at hstep
  · split at hstep
    · cases hstep
      exact h.putChan _ _
    · split at hstep
      · split at hstep
        · obtain ⟨pn, _, hstep⟩ := Res.bind_eq_ok.1 hstep
          cases hstep; exact h.sendSvc _
        · split at hstep
          · cases hstep
            exact h.putChan _ _
          · cases hstep; exact h
      · obtain ⟨pn, _, hstep⟩ := Res.bind_eq_ok.1 hstep
        cases hstep; exact h.sendSvc _
  · cases hstep

theorem cmdServerMode_frm {st0 : St} {c c' : Ctx} {sid : Id} {m : IrcMsg} (h : Frm st0 c.st)
    (hr : cmdServerMode c sid m = Res.ok c') : Frm st0 c'.st := by
  rw [cmdServerMode_eq] at hr
  obtain ⟨channelname, _, hr⟩ := Res.bind_eq_ok.1 hr
  simp only [getChan_eq] at hr
  split at hr
  · obtain ⟨pn, _, hr⟩ := Res.bind_eq_ok.1 hr
    cases hr; exact h.sendSvc _
  · obtain ⟨c1, hfold, hr⟩ := Res.bind_eq_ok.1 hr
    have h1 : Frm st0 c1.st :=
      Frm.foldlM (fun _ _ _ hP hstep => serverModeStep_frm hP hstep) _ h hfold
    split at hr
    · cases hr; exact h1
    · split at hr
      · obtain ⟨sp, _, hr⟩ := Res.bind_eq_ok.1 hr
        obtain ⟨rc, _, hr⟩ := Res.bind_eq_ok.1 hr
        cases hr
        exact h1.emit _ _
      · cases hr

theorem cmdServerMode_fpres : FrmPres cmdServerMode := .of_plain cmdServerMode_frm

/-! ### SVSMODE -/

theorem svsmodeStep_frm {st0 : St} {c c' : Ctx} {tid : Id} {mc : ModeCmd}
    (h : Frm st0 c.st) (hstep : svsmodeStep tid c mc = Res.ok c') : Frm st0 c'.st := by
  unfold svsmodeStep at hstep
  dsimp only at hstep
  split at hstep
  · exact h.modS_keep hstep (fun _ => ⟨rfl, rfl⟩)
  · split at hstep
    · exact h.modS_keep hstep (fun _ => ⟨rfl, rfl⟩)
    · cases hstep
      exact h.sendSvc _

theorem cmdServerSvsmode_frm {st0 : St} {c c' : Ctx} {sid : Id} {m : IrcMsg} (h : Frm st0 c.st)
    (hr : cmdServerSvsmode c sid m = Res.ok c') : Frm st0 c'.st := by
  rw [cmdServerSvsmode_eq] at hr
  obtain ⟨s, _, hr⟩ := Res.bind_eq_ok.1 hr
  obtain ⟨p0, _, hr⟩ := Res.bind_eq_ok.1 hr
  split at hr
  · cases hr; exact h.sendSvc _
  · obtain ⟨modestr, _, hr⟩ := Res.bind_eq_ok.1 hr
    split at hr
    · cases hr; exact h.sendSvc _
    · obtain ⟨c1, hfold, hr⟩ := Res.bind_eq_ok.1 hr
      obtain ⟨t, _, hr⟩ := Res.bind_eq_ok.1 hr
      cases hr
      have h1 : Frm st0 c1.st :=
        Frm.foldlM (fun _ _ _ hP hstep => svsmodeStep_frm hP hstep) _ h hfold
      exact h1.sendUser _ _

theorem cmdServerSvsmode_fpres : FrmPres cmdServerSvsmode := .of_plain cmdServerSvsmode_frm

/-! ### JOIN -/

theorem serverJoinOne_frm {st0 : St} {c c' : Ctx} {m : IrcMsg} {chn : String} (h : Frm st0 c.st)
    (hr : serverJoinOne c m chn = Res.ok c') : Frm st0 c'.st := by
  unfold serverJoinOne at hr
  obtain ⟨pn, _, hr⟩ := Res.bind_eq_ok.1 hr
  split at hr
  · cases hr; exact h.sendSvc _
  · dsimp only at hr
    split at hr
    · cases hr; exact h.sendSvc _
    · split at hr
      · cases hr; exact h.sendSvc _
      obtain ⟨c1, h1, hr⟩ := Res.bind_eq_ok.1 hr
      obtain ⟨sp, _, hr⟩ := Res.bind_eq_ok.1 hr
      obtain ⟨rc, _, hr⟩ := Res.bind_eq_ok.1 hr
      cases hr
      have n1 : Frm st0 c1.st :=
        Frm.modS_keep (c := putChan _ _ _) (h.putChan _ _) h1 (fun _ => ⟨rfl, rfl⟩)
      exact n1.emit _ _

theorem cmdServerJoin_frm {st0 : St} {c c' : Ctx} {sid : Id} {m : IrcMsg} (h : Frm st0 c.st)
    (hr : cmdServerJoin c sid m = Res.ok c') : Frm st0 c'.st := by
  unfold cmdServerJoin at hr
  obtain ⟨p0, _, hr⟩ := Res.bind_eq_ok.1 hr
  exact Frm.foldlM (fun _ _ _ hP hstep => serverJoinOne_frm hP hstep) _ h hr

theorem cmdServerJoin_fpres : FrmPres cmdServerJoin := .of_plain cmdServerJoin_frm

/-! ### PART -/

theorem serverPartOne_frm {st0 : St} {c c' : Ctx} {m : IrcMsg} {chn : String} (h : Frm st0 c.st)
    (hr : serverPartOne c m chn = Res.ok c') : Frm st0 c'.st := by
  unfold serverPartOne at hr
  simp only [getChan_eq] at hr
  split at hr
  · obtain ⟨pn, _, hr⟩ := Res.bind_eq_ok.1 hr
    cases hr; exact h.sendSvc _
  · obtain ⟨pn, _, hr⟩ := Res.bind_eq_ok.1 hr
    split at hr
    · cases hr; exact h.sendSvc _
    · split at hr
      · obtain ⟨sp, _, hr⟩ := Res.bind_eq_ok.1 hr
        obtain ⟨rc, _, hr⟩ := Res.bind_eq_ok.1 hr
        exact Frm.leaveChannel (c := emit _ _ _) h hr
      · cases hr

theorem cmdServerPart_frm {st0 : St} {c c' : Ctx} {sid : Id} {m : IrcMsg} (h : Frm st0 c.st)
    (hr : cmdServerPart c sid m = Res.ok c') : Frm st0 c'.st := by
  unfold cmdServerPart at hr
  obtain ⟨p0, _, hr⟩ := Res.bind_eq_ok.1 hr
  exact Frm.foldlM (fun _ _ _ hP hstep => serverPartOne_frm hP hstep) _ h hr

theorem cmdServerPart_fpres : FrmPres cmdServerPart := .of_plain cmdServerPart_frm

/-! ### SVSJOIN -/

theorem cmdServerSvsjoin_frm {st0 : St} {c c' : Ctx} {sid : Id} {m : IrcMsg} (h : Frm st0 c.st)
    (hr : cmdServerSvsjoin c sid m = Res.ok c') : Frm st0 c'.st := by
  unfold cmdServerSvsjoin at hr
  obtain ⟨p0, _, hr⟩ := Res.bind_eq_ok.1 hr
  obtain ⟨chn, _, hr⟩ := Res.bind_eq_ok.1 hr
  dsimp only at hr
  split at hr
  · obtain ⟨pn, _, hr⟩ := Res.bind_eq_ok.1 hr
    cases hr; exact h.sendSvc _
  · split at hr
    · obtain ⟨pn, _, hr⟩ := Res.bind_eq_ok.1 hr
      cases hr; exact h.sendSvc _
    · simp only [getChan_eq, putChan_putChan] at hr
      split at hr
      · obtain ⟨pn, _, hr⟩ := Res.bind_eq_ok.1 hr
        cases hr; exact h.sendSvc _
      split at hr
      · cases hr
        exact h.putChan _ _
      · obtain ⟨c1, h1, hr⟩ := Res.bind_eq_ok.1 hr
        obtain ⟨t, _, hr⟩ := Res.bind_eq_ok.1 hr
        obtain ⟨rc, _, hr⟩ := Res.bind_eq_ok.1 hr
        obtain ⟨c2, h2, hr⟩ := Res.bind_eq_ok.1 hr
        have n1 : Frm st0 c1.st :=
          Frm.modS_keep (c := putChan _ _ _) (h.putChan _ _) h1 (fun _ => ⟨rfl, rfl⟩)
        have n2 : Frm st0 c2.st :=
          Frm.emits (c := sendSvc (emit c1 _ _) _) ((n1.emit _ _).sendSvc _) (cmdTopic_query_emits h2)
        exact n2.emits (Srv.cmdNames_emits hr)

theorem cmdServerSvsjoin_fpres : FrmPres cmdServerSvsjoin := .of_plain cmdServerSvsjoin_frm

/-! ### NICK (a fresh pseudo-client) -/

theorem cmdServerNick_frm {st0 : St} {c c' : Ctx} {sid : Id} {m : IrcMsg} (h0 : sid.reply = 0) (h : Frm st0 c.st)
    (hr : cmdServerNick c sid m = Res.ok c') : Frm st0 c'.st := by
  unfold cmdServerNick at hr
  obtain ⟨s, hs, hr⟩ := Res.bind_eq_ok.1 hr
  rw [getS_eq_ok] at hs
  split at hr
  · cases hr; exact h
  · obtain ⟨p0, _, hr⟩ := Res.bind_eq_ok.1 hr
    split at hr
    · cases hr; exact h.sendSvc _
    · split at hr
      · cases hr; exact h.sendSvc _
      · dsimp only at hr
        split at hr
        · cases hr; exact h.sendSvc _
        · rename_i hcont
          split at hr
          · cases hr; exact h.sendSvc _
          · rename_i st1 hcs
            obtain ⟨p3, _, hr⟩ := Res.bind_eq_ok.1 hr
            obtain ⟨c2, hm, hr⟩ := Res.bind_eq_ok.1 hr
            cases hr
            have hsid : s.id = sid := h.wf.ids sid s hs
            have hnone : AMap.get c.st.sessions ⟨s.id.id, fnv64 p0⟩ = none :=
              AMap.contains_eq_false_iff.1 (by simpa using hcont)
            have hrep : (⟨s.id.id, fnv64 p0⟩ : Id).reply ≠ 0 := by
              intro hz
              have e : (⟨s.id.id, fnv64 p0⟩ : Id) = sid := by
                rw [hsid]
                cases sid with
                | mk a b =>
                  simp only at h0 hz
                  rw [hz, h0]
              rw [e, hs] at hnone; cases hnone
            have n1 : Frm st0 st1 := by
              rw [createSession_eq hcs]
              exact h.newSession hnone rfl rfl hrep ⟨sid, s, hs, by rw [hsid]⟩ rfl rfl rfl
            have n2 : Frm st0 c2.st :=
              Frm.modS_keep (c := { c with st := st1 }) n1 hm (fun _ => ⟨rfl, rfl⟩)
            exact n2.congr rfl rfl rfl

theorem cmdServerNick_fpres : FrmPres cmdServerNick := fun _ _ _ _ _ h0 hp hr => cmdServerNick_frm h0 hp hr

/-! ### SVSNICK -/

theorem renameCtx_cfg' (c : Ctx) (tid : Id) (lcnew old : String) (b : Bool) :
    (renameCtx c tid lcnew old b).st.config = c.st.config ∧
    (renameCtx c tid lcnew old b).st.lastProcessed = c.st.lastProcessed := by
  unfold renameCtx
  cases b <;> exact ⟨rfl, rfl⟩

theorem svsnickTail_frm {st0 : St} {c c' : Ctx} {tid : Id} {p0 p1 : String} (h : Frm st0 c.st)
    (hr : svsnickTail c p0 p1 tid = Res.ok c') : Frm st0 c'.st := by
  unfold svsnickTail at hr
  obtain ⟨t, ht, hr⟩ := Res.bind_eq_ok.1 hr
  dsimp only at hr
  obtain ⟨c1, hm1, hr⟩ := Res.bind_eq_ok.1 hr
  obtain ⟨c2, hm2, hr⟩ := Res.bind_eq_ok.1 hr
  obtain ⟨t2, _, hr⟩ := Res.bind_eq_ok.1 hr
  obtain ⟨rc, _, hr⟩ := Res.bind_eq_ok.1 hr
  cases hr
  have n1 : Frm st0 c1.st := h.modS_keep hm1 (fun _ => ⟨rfl, rfl⟩)
  have hss := renameCtx_sessions c1 tid (nickToLower p1) (nickToLower p0) (nickToLower p1 != nickToLower p0)
  obtain ⟨hcr, hlr⟩ := renameCtx_cfg' c1 tid (nickToLower p1) (nickToLower p0) (nickToLower p1 != nickToLower p0)
  have nr : Frm st0 (renameCtx c1 tid (nickToLower p1) (nickToLower p0) (nickToLower p1 != nickToLower p0)).st :=
    n1.congr hss hcr hlr
  have n2 : Frm st0 c2.st := nr.modS_keep hm2 (fun _ => ⟨rfl, rfl⟩)
  exact n2.emit _ _

theorem cmdServerSvsnick_frm {st0 : St} {c c' : Ctx} {sid : Id} {m : IrcMsg} (h : Frm st0 c.st)
    (hr : cmdServerSvsnick c sid m = Res.ok c') : Frm st0 c'.st := by
  rw [cmdServerSvsnick_eq] at hr
  obtain ⟨p0, _, hr⟩ := Res.bind_eq_ok.1 hr
  obtain ⟨p1, _, hr⟩ := Res.bind_eq_ok.1 hr
  split at hr
  · cases hr; exact h.sendSvc _
  · split at hr
    · cases hr; exact h.sendSvc _
    · split at hr
      · split at hr
        · cases hr; exact h.sendSvc _
        · exact svsnickTail_frm h hr
      · exact svsnickTail_frm h hr

theorem cmdServerSvsnick_fpres : FrmPres cmdServerSvsnick := .of_plain cmdServerSvsnick_frm

/-! ### KILL -/

theorem cmdServerKill_frm {st0 : St} {c c' : Ctx} {sid : Id} {m : IrcMsg} (h : Frm st0 c.st)
    (hr : cmdServerKill c sid m = Res.ok c') : Frm st0 c'.st := by
  unfold cmdServerKill at hr
  obtain ⟨s, _, hr⟩ := Res.bind_eq_ok.1 hr
  split at hr
  · cases hr; exact h.sendSvc _
  · dsimp only at hr
    obtain ⟨kp?, _, hr⟩ := Res.bind_eq_ok.1 hr
    obtain ⟨p0, _, hr⟩ := Res.bind_eq_ok.1 hr
    split at hr
    · cases hr; exact h.sendSvc _
    · obtain ⟨t, ht, hr⟩ := Res.bind_eq_ok.1 hr
      split at hr
      · obtain ⟨rc, _, hr⟩ := Res.bind_eq_ok.1 hr
        exact Frm.deleteSession (c := emit (sendUser c _ _) _ _) ((h.sendUser _ _).emit _ _) hr
      · cases hr

theorem cmdServerKill_fpres : FrmPres cmdServerKill := .of_plain cmdServerKill_frm

/-! ### QUIT -/

theorem cmdServerQuit_frm {st0 : St} {c c' : Ctx} {sid : Id} {m : IrcMsg} (h : Frm st0 c.st)
    (hr : cmdServerQuit c sid m = Res.ok c') : Frm st0 c'.st := by
  unfold cmdServerQuit at hr
  obtain ⟨s, hs, hr⟩ := Res.bind_eq_ok.1 hr
  split at hr
  · obtain ⟨c1, hd, hr⟩ := Res.bind_eq_ok.1 hr
    dsimp only at hr
    refine Frm.foldlM ?_ _ (h.deleteSession hd) hr
    intro c2 tid c3 hP hstep
    obtain ⟨t, ht, hstep⟩ := Res.bind_eq_ok.1 hstep
    obtain ⟨rc, _, hstep⟩ := Res.bind_eq_ok.1 hstep
    exact Frm.deleteSession (c := emit _ _ _) hP hstep
  · split at hr
    · cases hr; exact h
    · obtain ⟨rc, _, hr⟩ := Res.bind_eq_ok.1 hr
      exact Frm.deleteSession (c := emit _ _ _) h hr

theorem cmdServerQuit_fpres : FrmPres cmdServerQuit := .of_plain cmdServerQuit_frm

/-! ### SERVER (a client command: the session becomes a services link) -/

theorem cmdServer_frm {st0 : St} {c c' : Ctx} {sid : Id} {m : IrcMsg} (h : Frm st0 c.st)
    (hr : cmdServer c sid m = Res.ok c') : Frm st0 c'.st := by
  rw [cmdServer_eq] at hr
  obtain ⟨s, hs, hr⟩ := Res.bind_eq_ok.1 hr
  split at hr
  · cases hr; exact h.sendUser _ _
  · obtain ⟨p0, _, hr⟩ := Res.bind_eq_ok.1 hr
    obtain ⟨c1, hm, hr⟩ := Res.bind_eq_ok.1 hr
    dsimp only at hr
    have he := (Srv.Emits.sendSvc _ _).trans
      (foldlM_emits _ _ (fun _ _ _ _ h => serverBurstNick_emits h) _ _ hr)
    rw [he.st]
    exact (h.modS_keep hm (fun _ => ⟨rfl, rfl⟩)).congr rfl rfl rfl

theorem cmdServer_fpres : FrmPres cmdServer := .of_plain cmdServer_frm

end Robust.Irc
