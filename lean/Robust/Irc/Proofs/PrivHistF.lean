import Robust.Irc.Proofs.PrivHistN
/-!
The entry-level frame for chanop flags: `applyEntry_client_ops_partial`, `run_ops_partial`.
Partial: the flags are tracked by member key (lower-cased nick); entries of services links and
of IRC operators are not covered.
-/
namespace Robust.Irc
open Robust AMap

/-- the frame property of a client handler: run by a session that is neither chanop of the existing
channel `lc` nor IRC operator, it sets no chanop flag in `lc` -/
def OpsFrame (h : Ctx → Id → IrcMsg → Res Ctx) : Prop :=
  ∀ c sid m c' s lc, AMap.get c.st.sessions sid = some s → s.operator = false →
    chanOpOf c.st s.nick lc = false → ChanEx lc c → h c sid m = .ok c' → OpsLe lc c c'

theorem OpsAll.frame {h : Ctx → Id → IrcMsg → Res Ctx} (ha : OpsAll h) : OpsFrame h :=
  fun c sid m c' _ lc _ _ _ _ hr => ha c sid m c' lc hr

theorem cmdMode_frame : OpsFrame cmdMode := fun _ _ _ _ _ _ hs hno hnop _ hr => cmdMode_ops hs hnop hno hr
theorem cmdJoin_frame : OpsFrame cmdJoin := fun _ _ _ _ _ _ _ _ _ hex hr => cmdJoin_ops hex hr
theorem cmdNick_frame : OpsFrame cmdNick := fun _ _ _ _ _ _ hs _ hnop _ hr => cmdNick_no_gain hs hnop hr

/-- the case split over the regenerated command table: every client command -/
theorem client_ops_dispatch {key fname : String} {mp : Nat}
    (hmem : (key, fname, mp, false) ∈ Gen.Commands.commands) (hns : startsLowerS key = false) :
    ∃ h, handlerByName fname = some h ∧ OpsFrame h := by
  simp only [Gen.Commands.commands, List.mem_cons, Prod.mk.injEq, List.not_mem_nil, or_false, and_true,
    Bool.false_eq_true, and_false, false_or, or_false] at hmem
  rcases hmem with
    ⟨rfl, rfl, rfl⟩ | ⟨rfl, rfl, rfl⟩ | ⟨rfl, rfl, rfl⟩ | ⟨rfl, rfl, rfl⟩ | ⟨rfl, rfl, rfl⟩ | ⟨rfl, rfl, rfl⟩ |
    ⟨rfl, rfl, rfl⟩ | ⟨rfl, rfl, rfl⟩ | ⟨rfl, rfl, rfl⟩ | ⟨rfl, rfl, rfl⟩ | ⟨rfl, rfl, rfl⟩ | ⟨rfl, rfl, rfl⟩ |
    ⟨rfl, rfl, rfl⟩ | ⟨rfl, rfl, rfl⟩ | ⟨rfl, rfl, rfl⟩ | ⟨rfl, rfl, rfl⟩ | ⟨rfl, rfl, rfl⟩ | ⟨rfl, rfl, rfl⟩ |
    ⟨rfl, rfl, rfl⟩ | ⟨rfl, rfl, rfl⟩ | ⟨rfl, rfl, rfl⟩ | ⟨rfl, rfl, rfl⟩ | ⟨rfl, rfl, rfl⟩ | ⟨rfl, rfl, rfl⟩ |
    ⟨rfl, rfl, rfl⟩ | ⟨rfl, rfl, rfl⟩ | ⟨rfl, rfl, rfl⟩ | ⟨rfl, rfl, rfl⟩ | ⟨rfl, rfl, rfl⟩ | ⟨rfl, rfl, rfl⟩ |
    ⟨rfl, rfl, rfl⟩ | ⟨rfl, rfl, rfl⟩ | ⟨rfl, rfl, rfl⟩ | ⟨rfl, rfl, rfl⟩ | ⟨rfl, rfl, rfl⟩ | ⟨rfl, rfl, rfl⟩ |
    ⟨rfl, rfl, rfl⟩ | ⟨rfl, rfl, rfl⟩ | ⟨rfl, rfl, rfl⟩ | ⟨rfl, rfl, rfl⟩ | ⟨rfl, rfl, rfl⟩ | ⟨rfl, rfl, rfl⟩ |
    ⟨rfl, rfl, rfl⟩ | ⟨rfl, rfl, rfl⟩ | ⟨rfl, rfl, rfl⟩ | ⟨rfl, rfl, rfl⟩ | ⟨rfl, rfl, rfl⟩ | ⟨rfl, rfl, rfl⟩ |
    ⟨rfl, rfl, rfl⟩ | ⟨rfl, rfl, rfl⟩ | ⟨rfl, rfl, rfl⟩ | ⟨rfl, rfl, rfl⟩ | ⟨rfl, rfl, rfl⟩ | ⟨rfl, rfl, rfl⟩ |
    ⟨rfl, rfl, rfl⟩
  · exact ⟨cmdAway, rfl, cmdAway_ops.frame⟩
  · exact ⟨cmdServiceAlias, rfl, (OpsAll.of_emits cmdServiceAlias_emits).frame⟩
  · exact ⟨cmdServiceAlias, rfl, (OpsAll.of_emits cmdServiceAlias_emits).frame⟩
  · exact ⟨cmdServiceAlias, rfl, (OpsAll.of_emits cmdServiceAlias_emits).frame⟩
  · exact ⟨cmdServiceAlias, rfl, (OpsAll.of_emits cmdServiceAlias_emits).frame⟩
  · exact ⟨cmdGline, rfl, cmdGline_ops.frame⟩
  · exact ⟨cmdServiceAlias, rfl, (OpsAll.of_emits cmdServiceAlias_emits).frame⟩
  · exact ⟨cmdServiceAlias, rfl, (OpsAll.of_emits cmdServiceAlias_emits).frame⟩
  · exact ⟨cmdInvite, rfl, cmdInvite_ops.frame⟩
  · exact ⟨cmdIson, rfl, (OpsAll.of_emits cmdIson_emits).frame⟩
  · exact ⟨cmdJoin, rfl, cmdJoin_frame⟩
  · exact ⟨cmdKick, rfl, cmdKick_ops.frame⟩
  · exact ⟨cmdKill, rfl, cmdKill_ops.frame⟩
  · exact ⟨cmdKnock, rfl, (OpsAll.of_emits cmdKnock_emits).frame⟩
  · exact ⟨cmdList, rfl, (OpsAll.of_emits cmdList_emits).frame⟩
  · exact ⟨cmdServiceAlias, rfl, (OpsAll.of_emits cmdServiceAlias_emits).frame⟩
  · exact ⟨cmdMode, rfl, cmdMode_frame⟩
  · exact ⟨cmdMotd, rfl, (OpsAll.of_emits cmdMotd_emits).frame⟩
  · exact ⟨cmdServiceAlias, rfl, (OpsAll.of_emits cmdServiceAlias_emits).frame⟩
  · exact ⟨cmdNames, rfl, (OpsAll.of_emits cmdNames_emits).frame⟩
  · exact ⟨cmdNick, rfl, cmdNick_frame⟩
  · exact ⟨cmdServiceAlias, rfl, (OpsAll.of_emits cmdServiceAlias_emits).frame⟩
  · exact ⟨cmdPrivmsg, rfl, (OpsAll.of_emits cmdPrivmsg_emits).frame⟩
  · exact ⟨cmdServiceAlias, rfl, (OpsAll.of_emits cmdServiceAlias_emits).frame⟩
  · exact ⟨cmdOper, rfl, cmdOper_ops.frame⟩
  · exact ⟨cmdServiceAlias, rfl, (OpsAll.of_emits cmdServiceAlias_emits).frame⟩
  · exact ⟨cmdServiceAlias, rfl, (OpsAll.of_emits cmdServiceAlias_emits).frame⟩
  · exact ⟨cmdPart, rfl, cmdPart_ops.frame⟩
  · exact ⟨cmdPass, rfl, cmdPass_ops.frame⟩
  · exact ⟨cmdPing, rfl, (OpsAll.of_emits cmdPing_emits).frame⟩
  · exact ⟨cmdPrivmsg, rfl, (OpsAll.of_emits cmdPrivmsg_emits).frame⟩
  · exact ⟨cmdQuit, rfl, cmdQuit_ops.frame⟩
  · exact ⟨cmdServer, rfl, cmdServer_ops.frame⟩
  · exact ⟨cmdTopic, rfl, cmdTopic_ops.frame⟩
  · exact ⟨cmdUser, rfl, cmdUser_ops.frame⟩
  · exact ⟨cmdUserhost, rfl, (OpsAll.of_emits cmdUserhost_emits).frame⟩
  · exact ⟨cmdWho, rfl, (OpsAll.of_emits cmdWho_emits).frame⟩
  · exact ⟨cmdWhois, rfl, (OpsAll.of_emits cmdWhois_emits).frame⟩
  all_goals exact absurd hns (by decide)

/-! ### the stages of `processMessage` -/

theorem dispatchStage_ops {c c' : Ctx} {s : Session} {m : IrcMsg} {x lc : String}
    (hs : AMap.get c.st.sessions s.id = some s) (hsv : s.server = false) (hno : s.operator = false)
    (hnop : chanOpOf c.st s.nick lc = false) (hex : ChanEx lc c)
    (hr : dispatchStage c s m (toUpper x) = .ok c') : OpsLe lc c c' := by
  unfold dispatchStage at hr
  simp only [hsv, Bool.false_eq_true, ↓reduceIte, String.empty_append] at hr
  split at hr
  · cases hr; opsle_tac
  · rename_i fname mp hl
    split at hr
    · cases hr; opsle_tac
    · split at hr
      · cases hr
      · rename_i h hh
        obtain ⟨h', hh', hf⟩ := client_ops_dispatch (lookupCommand_mem hl) (startsLowerS_toUpper x)
        rw [hh] at hh'; cases hh'
        exact hf c s.id m c' s lc hs hno hnop hex hr

theorem gateStage_ops {c c' : Ctx} {e : Entry} {s : Session} {m : IrcMsg} {x lc : String}
    (hs : AMap.get c.st.sessions e.session = some s) (hid : s.id = e.session)
    (hsv : s.server = false) (hno : s.operator = false)
    (hnop : chanOpOf c.st s.nick lc = false) (hex : ChanEx lc c)
    (hr : gateStage c e m (toUpper x) = .ok c') : OpsLe lc c c' := by
  unfold gateStage at hr
  rw [getS_of_get hs] at hr
  simp only [Res.ok_bind] at hr
  split at hr
  · split at hr
    · exact OpsLe.deleteSession (c := sendUser (sendUser c _ _) _ _) (by opsle_tac) hr
    · cases hr; opsle_tac
  · exact dispatchStage_ops (by rw [hid]; exact hs) hsv hno hnop hex hr

theorem addrStage_ops {c c1 : Ctx} {e : Entry} {s : Session} {b : Bool} {lc : String}
    (hs : AMap.get c.st.sessions e.session = some s) (hid : s.id = e.session)
    (hr : addrStage c e s = .ok (c1, b)) :
    OpsLe lc c c1 ∧ (b = false → c1.st.channels = c.st.channels ∧
      ∃ s1, AMap.get c1.st.sessions e.session = some s1 ∧ s1.id = e.session ∧ s1.nick = s.nick ∧
        s1.operator = s.operator ∧ s1.server = s.server) := by
  unfold addrStage at hr
  rw [hid] at hr
  split at hr
  · obtain ⟨c0, hm, hr⟩ := Res.bind_eq_ok.1 hr
    have hs0 := modS_get_self (f := fun s => { s with remoteAddr := e.remoteAddr }) hs hid hm
    have o0 : OpsLe lc c c0 := (OpsLe.refl lc c).modS hm
    have e0 : c0.st.channels = c.st.channels := by
      obtain ⟨_, _, rfl⟩ := modS_eq_ok.1 hm
      rfl
    split at hr
    · split at hr
      · obtain ⟨c2, hd, hr⟩ := Res.bind_eq_ok.1 hr
        cases hr
        exact ⟨OpsLe.deleteSession (c := sendUser c0 _ _) (by opsle_tac) hd, fun h => by cases h⟩
      · cases hr
        exact ⟨o0, fun _ => ⟨e0, _, hs0, hid, rfl, rfl, rfl⟩⟩
    · cases hr
      exact ⟨o0, fun _ => ⟨e0, _, hs0, hid, rfl, rfl, rfl⟩⟩
  · cases hr
    exact ⟨OpsLe.refl lc _, fun _ => ⟨rfl, s, hs, hid, rfl, rfl, rfl⟩⟩

theorem processMessage_ops {c c' : Ctx} {e : Entry} {s : Session} {im : Option IrcMsg} {lc : String}
    (hs : AMap.get c.st.sessions e.session = some s) (hid : s.id = e.session)
    (hsv : s.server = false) (hno : s.operator = false)
    (hnop : chanOpOf c.st s.nick lc = false) (hex : ChanEx lc c)
    (hr : processMessage c e im = .ok c') : OpsLe lc c c' := by
  rw [processMessage_eq, getS_of_get hs] at hr
  simp only [Res.ok_bind] at hr
  cases im with
  | none => cases hr; opsle_tac
  | some m =>
    dsimp only at hr
    obtain ⟨⟨c1, b⟩, h1, hr⟩ := Res.bind_eq_ok.1 hr
    obtain ⟨o1, hf⟩ := addrStage_ops (lc := lc) hs hid h1
    cases b with
    | true => cases hr; exact o1
    | false =>
      simp only [Bool.false_eq_true, ↓reduceIte] at hr
      obtain ⟨e1, s1, hs1, hid1, hn1, hop1, hsv1⟩ := hf rfl
      refine o1.trans (gateStage_ops hs1 hid1 (hsv1.trans hsv) (hop1.trans hno) ?_ (hex.of_eq e1) hr)
      rw [chanOpOf_eq, e1, hn1, ← chanOpOf_eq]
      exact hnop

/-! ### entries -/

/-- the chanop flags of channel `lc` in `st'` are among those in `st` -/
def OpsMono (st st' : St) (lc : String) : Prop :=
  ∀ n, opFlagC st'.channels lc n = true → opFlagC st.channels lc n = true

theorem maybeDeleteSession_channels (st : St) (sid : Id) : (maybeDeleteSession st sid).channels = st.channels := by
  unfold maybeDeleteSession
  split
  · rfl
  · dsimp only
    split <;> split <;> rfl

/-- the session as `UpdateLastClientMessageID` leaves it -/
def touched (s : Session) (e : Entry) : Session :=
  { s with lastActivity := e.timestamp, lastClientMessageId := e.cmid,
           lastNonPing := if !hasPrefix (toLower e.data) "ping" then e.timestamp else s.lastNonPing }

/-- **Where chanop flags can come from.**  An IRCFromClient entry whose actor is not a services
link, not an IRC operator and not a channel operator of the existing channel `lc` sets no chanop
flag in `lc`: every member key of `lc` that carries the flag afterwards carried it before.  (So for
a client a flag can only appear through `MODE +o` by a chanop of `lc` or by an IRC operator, or
through the JOIN that creates `lc`; a NICK change moves the flag along with the nick, which for a
non-operator moves nothing.) -/
theorem applyEntry_client_ops_partial {st st' : St} {e : Entry} {out : List Out} {s : Session} {lc : String}
    (ht : e.type = 2) (hs : AMap.get st.sessions e.session = some s) (hid : s.id = e.session)
    (hsv : s.server = false) (hno : s.operator = false)
    (hnop : chanOpOf st s.nick lc = false) (hex : (AMap.get st.channels lc).isSome = true)
    (hr : applyEntry st e = .ok (st', out)) : OpsMono st st' lc := by
  unfold applyEntry at hr
  have h5 : ¬ e.type = 5 := by rw [ht]; decide
  have h0 : ¬ e.type = 0 := by rw [ht]; decide
  have h1 : ¬ e.type = 1 := by rw [ht]; decide
  rw [if_neg h5, if_neg h0, if_neg h1, if_pos ht] at hr
  have hu : updateLastClientMessageID st e =
      some { st with sessions := AMap.set st.sessions e.session (touched s e) } := by
    unfold updateLastClientMessageID
    rw [hs]
    rfl
  rw [hu] at hr
  dsimp only at hr
  obtain ⟨c, hpm, hr⟩ := Res.bind_eq_ok.1 hr
  simp only [Res.pure_eq, Res.ok.injEq, Prod.mk.injEq] at hr
  obtain ⟨rfl, _⟩ := hr
  have hex' : ChanEx lc { st := { st with sessions := AMap.set st.sessions e.session (touched s e) }, msgid := e.id } := hex
  have := processMessage_ops (lc := lc) (s := touched s e)
    (AMap.get_set_same _ _ _) hid hsv hno (by rw [chanOpOf_eq] at hnop ⊢; exact hnop) hex' hpm
  intro n hn
  rw [maybeDeleteSession_channels] at hn
  exact this n hn

/-- the same for a DeleteSession entry (the session quits) -/
theorem applyEntry_delete_ops_partial {st st' : St} {e : Entry} {out : List Out} {s : Session} {lc : String}
    (ht : e.type = 1) (hs : AMap.get st.sessions e.session = some s) (hid : s.id = e.session)
    (hsv : s.server = false) (hno : s.operator = false)
    (hnop : chanOpOf st s.nick lc = false) (hex : (AMap.get st.channels lc).isSome = true)
    (hr : applyEntry st e = .ok (st', out)) : OpsMono st st' lc := by
  unfold applyEntry at hr
  have h5 : ¬ e.type = 5 := by rw [ht]; decide
  have h0 : ¬ e.type = 0 := by rw [ht]; decide
  rw [if_neg h5, if_neg h0, if_pos ht, hs] at hr
  dsimp only at hr
  obtain ⟨c, hpm, hr⟩ := Res.bind_eq_ok.1 hr
  simp only [Res.pure_eq, Res.ok.injEq, Prod.mk.injEq] at hr
  obtain ⟨rfl, _⟩ := hr
  have hex' : ChanEx lc { st := st, msgid := e.id } := hex
  have := processMessage_ops (lc := lc) (c := { st := st, msgid := e.id }) hs hid hsv hno hnop hex' hpm
  intro n hn
  rw [maybeDeleteSession_channels] at hn
  exact this n hn

/-- entries that are neither DeleteSession nor IRCFromClient leave all channels as they are -/
theorem applyEntry_other_channels {st st' : St} {e : Entry} {out : List Out}
    (h1 : e.type ≠ 1) (h2 : e.type ≠ 2) (hr : applyEntry st e = .ok (st', out)) : st'.channels = st.channels := by
  unfold applyEntry at hr
  rw [if_neg h1, if_neg h2] at hr
  split at hr
  · cases hr
    unfold updateLastClientMessageID
    split <;> rfl
  · split at hr
    · cases hr
      unfold createSession
      split <;> rfl
    · split at hr
      · split at hr <;> (cases hr; rfl)
      · cases hr; rfl


/-! ### histories -/

/-- the entry `e`, applied to `st`, is not made by a privileged actor with respect to channel `lc`:
its session (if stored) is neither a services link, nor an IRC operator, nor a chanop of `lc`; and
`lc` exists (so that no JOIN creates it) -/
def UnprivEntry (lc : String) (st : St) (e : Entry) : Prop :=
  (e.type = 1 ∨ e.type = 2) → ∀ s, AMap.get st.sessions e.session = some s →
    s.server = false ∧ s.operator = false ∧ chanOpOf st s.nick lc = false ∧ (AMap.get st.channels lc).isSome = true

/-- every entry of the history is unprivileged with respect to `lc` in the state it is applied to -/
def UnprivHistory (lc : String) (st : St) : List Entry → Prop
  | [] => True
  | e :: es => UnprivEntry lc st e ∧ ∀ st' out, applyEntry st e = .ok (st', out) → UnprivHistory lc st' es

theorem OpsMono.refl (st : St) (lc : String) : OpsMono st st lc := fun _ h => h
theorem OpsMono.trans {a b c : St} {lc : String} (h1 : OpsMono a b lc) (h2 : OpsMono b c lc) : OpsMono a c lc :=
  fun n h => h1 n (h2 n h)

theorem applyEntry_unpriv_ops {st st' : St} {e : Entry} {out : List Out} {lc : String}
    (hid : ∀ id s, AMap.get st.sessions id = some s → s.id = id) (hu : UnprivEntry lc st e)
    (hr : applyEntry st e = .ok (st', out)) : OpsMono st st' lc := by
  by_cases h1 : e.type = 1
  · cases hs : AMap.get st.sessions e.session with
    | none =>
      unfold applyEntry at hr
      have h5 : ¬ e.type = 5 := by rw [h1]; decide
      have h0 : ¬ e.type = 0 := by rw [h1]; decide
      rw [if_neg h5, if_neg h0, if_pos h1, hs] at hr
      cases hr; exact OpsMono.refl _ _
    | some s =>
      obtain ⟨a, b, c, d⟩ := hu (Or.inl h1) s hs
      exact applyEntry_delete_ops_partial h1 hs (hid _ _ hs) a b c d hr
  · by_cases h2 : e.type = 2
    · cases hs : AMap.get st.sessions e.session with
      | none =>
        unfold applyEntry at hr
        have h5 : ¬ e.type = 5 := by rw [h2]; decide
        have h0 : ¬ e.type = 0 := by rw [h2]; decide
        have hu' : updateLastClientMessageID st e = none := by
          unfold updateLastClientMessageID
          rw [hs]
        rw [if_neg h5, if_neg h0, if_neg h1, if_pos h2, hu'] at hr
        cases hr; exact OpsMono.refl _ _
      | some s =>
        obtain ⟨a, b, c, d⟩ := hu (Or.inr h2) s hs
        exact applyEntry_client_ops_partial h2 hs (hid _ _ hs) a b c d hr
    · intro n hn
      rw [applyEntry_other_channels h1 h2 hr] at hn
      exact hn

/-- over a history of well-formed entries from a state satisfying the invariant: as long as only
unprivileged sessions act (with respect to `lc`), the chanop flags of `lc` never gain a `true` -/
theorem run_ops_partial {lc : String} {st st' : St} {es : List Entry} (h : GInv st) (hw : WfHistory st es)
    (hu : UnprivHistory lc st es) (hr : runEntries st es = .ok st') : OpsMono st st' lc := by
  induction es generalizing st with
  | nil => cases hr; exact OpsMono.refl _ _
  | cons e es ih =>
    unfold runEntries at hr
    obtain ⟨he, _, hnext⟩ := hw
    obtain ⟨hu1, hunext⟩ := hu
    split at hr
    · rename_i st1 out hap
      have o1 := applyEntry_unpriv_ops (fun id s hs => (h.inv.sessId id s hs).1) hu1 hap
      exact o1.trans (ih (applyEntry_preserves st st1 e out h he hap) (hnext st1 out hap) (hunext st1 out hap) hr)
    · cases hr
    · cases hr

end Robust.Irc
