import Robust.Irc.Proofs.PermH2
/-!
Order-independence, handlers 7: the two services handlers that search the sessions:
`cmdServerQuit` (sorted pseudo-clients / unique owner of the prefix nick) and `cmdServerKill`.
-/
set_option linter.unusedVariables false
namespace Robust.Irc
open Robust
attribute [local irreducible] IrcMsg.render emit sendUser sendSvc


/-- the pseudo-clients of a services link, in the order of their hash -/
theorem subsSorted_eq {c c' : Ctx} (h : CEq c c') (n : Nat) :
    ((c'.st.sessions.filter fun e => e.1.id == n && e.1.reply != 0).map (·.1)).mergeSort (fun a b => a.reply ≤ b.reply) =
    ((c.st.sessions.filter fun e => e.1.id == n && e.1.reply != 0).map (·.1)).mergeSort (fun a b => a.reply ≤ b.reply) := by
  have hf : MEq SessEq (c.st.sessions.filter fun e => e.1.id == n && e.1.reply != 0)
      (c'.st.sessions.filter fun e => e.1.id == n && e.1.reply != 0) :=
    h.st.sessions.filter (fun k v v' _ _ _ => rfl)
  symm
  refine mergeSort_eq_of_perm ?_ ?_ ?_ hf.keys_perm
  · intro a b c h1 h2
    simp only [decide_eq_true_eq] at *
    exact Nat.le_trans h1 h2
  · intro a b
    simp only [Bool.or_eq_true, decide_eq_true_eq]
    exact Nat.le_total _ _
  · intro a ha b hb h1 h2
    simp only [decide_eq_true_eq] at h1 h2
    have ha' : a.id = n := by
      obtain ⟨e, he, rfl⟩ := List.mem_map.1 ha
      have := (List.mem_filter.1 he).2
      simp only [Bool.and_eq_true, beq_iff_eq] at this
      exact this.1
    have hb' : b.id = n := by
      obtain ⟨e, he, rfl⟩ := List.mem_map.1 hb
      have := (List.mem_filter.1 he).2
      simp only [Bool.and_eq_true, beq_iff_eq] at this
      exact this.1
    cases a; cases b
    simp only at ha' hb' h1 h2
    subst ha' hb'
    have : _ = _ := Nat.le_antisymm h1 h2
    subst this
    rfl

/-- at most one stored session carries a given non-empty nickname: the early-exit searches of
`cmdServerQuit` / `cmdServerKill` find related entries -/
theorem findOwner_congr {c c' : Ctx} (h : CEq c c') (hu : UniqNick c.st) {x : String} (hx : x ≠ "")
    {q q' : Id × Session → Bool} (hq : ∀ e e', EntryRel SessEq e e' → q e = q' e') :
    ORel (EntryRel SessEq)
      (c.st.sessions.find? (fun e => q e && nickToLower e.2.nick == nickToLower x))
      (c'.st.sessions.find? (fun e => q' e && nickToLower e.2.nick == nickToLower x)) := by
  refine find?_permR h.st.sessions.toPermR (fun e e' hee => by rw [hq e e' hee, hee.2.nick]) ?_
  intro a ha b hb pa pb
  simp only [Bool.and_eq_true, beq_iff_eq] at pa pb
  obtain ⟨ka, va⟩ := a
  obtain ⟨kb, vb⟩ := b
  have ga := AMap.get_of_mem_nodup h.st.sessions.nd ha
  have gb := AMap.get_of_mem_nodup h.st.sessions.nd hb
  have hne : va.nick ≠ "" := by
    intro e
    have := pa.2
    simp only at this
    rw [e, nickToLower_empty] at this
    exact hx (nickToLower_eq_empty.1 this.symm)
  have hk : ka = kb := hu ka kb va vb ga gb hne (pa.2.trans pb.2.symm)
  subst hk
  rw [ga] at gb
  cases gb
  rfl


theorem cmdServerQuit_congr : HCongrU cmdServerQuit := by
  intro c c' sid m hu hm h
  unfold cmdServerQuit
  refine RRel.bind (getS_congr h sid) (fun s s' hs => ?_)
  simp only [hs.id]
  split
  · -- the link itself goes away: all its pseudo-clients quit, in the order of their ids
    refine RRel.bind (deleteSession_congr h sid) (fun c1 c1' h1 => ?_)
    rw [subsSorted_eq h1 s.id.id]
    refine foldlM_rrel_same _ (fun c2 c2' tid _ h2 => ?_) h1
    refine RRel.bind (getS_congr h2 tid) (fun t t' ht => ?_)
    refine RRel.bind (rcCommonChannels_congr h2.st ht) (fun rc rc' hrc => ?_)
    rw [ht.ircPrefix]
    exact deleteSession_congr (emit_congr h2 rfl hrc) tid
  · -- one pseudo-client quits: the owner of the prefix nick
    rename_i p hp
    have hf := findOwner_congr h hu (hm p hp) (q := fun e => e.1.id == s.id.id && e.1.reply != 0)
      (q' := fun e => e.1.id == s.id.id && e.1.reply != 0) (fun e e' hee => by rw [hee.1])
    rcases hf.cases' with ⟨h1, h2⟩ | ⟨e, e', h1, h2, hee⟩
    · simp only [h1, h2]; ceq
    · simp only [h1, h2]
      refine RRel.bind (rcCommonChannels_congr h.st hee.2) (fun rc rc' hrc => ?_)
      rw [hee.2.ircPrefix, ← hee.1]
      exact deleteSession_congr (emit_congr h rfl hrc) e.1

theorem isEmpty_eq_of_length {α : Type} {l l' : List α} (h : l.length = l'.length) : l'.isEmpty = l.isEmpty := by
  cases l <;> cases l' <;> simp at h ⊢

theorem cmdServerKill_congr : HCongrU cmdServerKill := by
  intro c c' sid m hu hm h
  unfold cmdServerKill
  refine RRel.bind (getS_congr h sid) (fun s s' hs => ?_)
  simp -zeta only [hs.id, h.st.get_nicks]
  split
  · ceqs
  extract_lets subs kp subs' kp'
  have hsubs : PermR (EntryRel SessEq) subs subs' :=
    h.st.sessions.toPermR.filter (fun e e' hee => by rw [hee.1])
  have hkp : kp' = kp := by
    show (if subs'.isEmpty = true then _ else _) = (if subs.isEmpty = true then _ else _)
    rw [isEmpty_eq_of_length hsubs.length_eq]
    split
    · rfl
    · split
      · rfl
      · rename_i p hp
        have hf : ORel (EntryRel SessEq)
            (subs.find? (fun e => nickToLower e.2.nick == nickToLower p.name))
            (subs'.find? (fun e => nickToLower e.2.nick == nickToLower p.name)) := by
          refine find?_permR hsubs (fun e e' hee => by rw [hee.2.nick]) ?_
          intro a ha b hb pa pb
          simp only [beq_iff_eq] at pa pb
          obtain ⟨ka, va⟩ := a
          obtain ⟨kb, vb⟩ := b
          have ga := AMap.get_of_mem_nodup h.st.sessions.nd (List.mem_filter.1 ha).1
          have gb := AMap.get_of_mem_nodup h.st.sessions.nd (List.mem_filter.1 hb).1
          have hne : va.nick ≠ "" := by
            intro e
            simp only at pa
            rw [e, nickToLower_empty] at pa
            exact hm p hp (nickToLower_eq_empty.1 pa.symm)
          have hk : ka = kb := hu ka kb va vb ga gb hne (pa.trans pb.symm)
          subst hk
          rw [ga] at gb
          cases gb
          rfl
        rcases hf.cases' with ⟨h1, h2⟩ | ⟨e, e', h1, h2, hee⟩
        · simp only [h1, h2]
        · simp only [h1, h2, hee.2.ircPrefix]
  clear_value kp kp'
  subst hkp
  refine RRel.bind_same (fun killPrefix => ?_)
  refine RRel.bind_same (fun p0 => ?_)
  split
  · ceqs
  · rename_i tid _
    refine RRel.bind (getS_congr h tid) (fun t t' ht => ?_)
    simp -zeta only [ht.nick, ht.ircPrefix]
    split
    · extract_lets killPath c1 c1'
      ceq_let h1 c1 c1'
      refine RRel.bind (rcCommonChannels_congr h1.st ht) (fun rc rc' hrc => ?_)
      extract_lets c2 c2'
      ceq_let h2 c2 c2'
      exact deleteSession_congr h2 tid
    · exact .panic
end Robust.Irc
