import Robust.Irc.Proofs.ChanLimitSess
import Robust.Irc.Proofs.ChanLimitEntry
/-!
Entry-level lift of the session-limit walk (`ChanLimitSess.lean`).

The number of stored sessions grows only through a CreateSession entry (type 0) or a type-2 entry whose
line is the services `NICK` sent by a services link; both go through `createSession`, so with a limit
the number stays at most `max (old number) maxSessions`.
-/
namespace Robust.Irc
open Robust AMap

theorem chanLim_table_nick_key :
    ∀ e ∈ Gen.Commands.commands, e.2.1 = "cmdServerNick" → e.1 = "server_NICK" := by
  decide

/-- what a run may do to the sessions: nothing that adds one; or the services `NICK`, within the limit -/
def SessOutcome (st st' : St) (server : Bool) (command : String) : Prop :=
  SessLe st st' ∨ (server = true ∧ command = "NICK" ∧ SessLim st st')

theorem SessOutcome.after {a b c : St} {sv : Bool} {cmd : String} (h1 : SessLe a b) (h2 : SessOutcome b c sv cmd) :
    SessOutcome a c sv cmd := by
  rcases h2 with h2 | ⟨hs, hc, h2⟩
  · exact Or.inl (h1.trans h2)
  · exact Or.inr ⟨hs, hc, h1.then_lim h2⟩

theorem SessOutcome.wf {a b : St} {sv : Bool} {cmd : String} (h : SessOutcome a b sv cmd) : SessWf b := by
  rcases h with h | ⟨_, _, h⟩
  · exact h.wf
  · exact h.wf

/-! ## the stages of `processMessage` -/

theorem dispatchStage_sess {c c' : Ctx} {s : Session} {m : IrcMsg} {x : String} (hw : SessWf c.st)
    (hr : dispatchStage c s m (toUpper x) = .ok c') : SessOutcome c.st c'.st s.server (toUpper x) := by
  unfold dispatchStage at hr
  split at hr
  · cases hr; exact Or.inl (SessLe.refl hw)
  · rename_i fname mp hl
    have hk := chanLim_table_nick_key _ (lookupCommand_mem hl)
    split at hr
    · cases hr; exact Or.inl (SessLe.refl hw)
    · split at hr
      · cases hr
      · rename_i h hh
        by_cases h1 : fname = "cmdServerNick"
        · subst h1
          have : handlerByName "cmdServerNick" = some cmdServerNick := rfl
          rw [this] at hh; cases hh
          obtain ⟨hsv, hcmd⟩ := chanLim_key_server (k := "NICK") (hk rfl)
          exact Or.inr ⟨hsv, hcmd, cmdServerNick_slim (SessLe.refl hw) hr⟩
        exact Or.inl (handler_sessLe hh h1 c.st c s.id m c' (SessLe.refl hw) hr)

theorem gateStage_sess {c c' : Ctx} {e : Entry} {m : IrcMsg} {x : String} {s : Session} (hw : SessWf c.st)
    (hs : AMap.get c.st.sessions e.session = some s) (hr : gateStage c e m (toUpper x) = .ok c') :
    SessOutcome c.st c'.st s.server (toUpper x) := by
  unfold gateStage at hr
  rw [getS_of_get hs] at hr
  simp only [Res.ok_bind] at hr
  split at hr
  · split at hr
    · exact Or.inl (SessLe.deleteSession (c := sendUser (sendUser c _ _) _ _) (SessLe.refl hw) hr)
    · cases hr; exact Or.inl (SessLe.refl hw)
  · exact dispatchStage_sess hw hr

theorem addrStage_sess {c c1 : Ctx} {e : Entry} {s : Session} {b : Bool} (hw : SessWf c.st)
    (hr : addrStage c e s = .ok (c1, b)) : SessLe c.st c1.st := by
  have hpi := SessLe.refl hw
  unfold addrStage at hr
  split at hr
  · obtain ⟨c0, hm, hr⟩ := Res.bind_eq_ok.1 hr
    have p0 : SessLe c.st c0.st := hpi.modS_keep hm (fun _ => ⟨rfl, rfl⟩)
    split at hr
    · split at hr
      · obtain ⟨c2, hd, hr⟩ := Res.bind_eq_ok.1 hr
        cases hr
        exact SessLe.deleteSession (c := sendUser c0 _ _) (p0.sendUser _ _) hd
      · cases hr; exact p0
    · cases hr; exact p0
  · cases hr; exact hpi

/-- what `ProcessMessage` may do to the sessions; `s` is the acting session -/
theorem processMessage_sess {c c' : Ctx} {e : Entry} {im : Option IrcMsg} {s : Session}
    (hw : SessWf c.st) (hs : AMap.get c.st.sessions e.session = some s)
    (hr : processMessage c e im = .ok c') :
    SessLe c.st c'.st ∨ ∃ m, im = some m ∧ SessOutcome c.st c'.st s.server (toUpper m.command) := by
  rw [processMessage_eq, getS_of_get hs] at hr
  simp only [Res.ok_bind] at hr
  cases im with
  | none => cases hr; exact Or.inl (SessLe.refl hw)
  | some m =>
    dsimp only at hr
    obtain ⟨⟨c1, b⟩, h1, hr⟩ := Res.bind_eq_ok.1 hr
    have f1 : SessLe c.st c1.st := addrStage_sess hw h1
    cases b with
    | true => cases hr; exact Or.inl f1
    | false =>
      simp only [Bool.false_eq_true, ↓reduceIte] at hr
      obtain ⟨a, ha, _, _⟩ := addrStage_actor hs (hw.ids _ s hs) h1
      exact Or.inr ⟨m, rfl, SessOutcome.after f1 (gateStage_sess (s := { s with remoteAddr := a }) f1.wf ha hr)⟩

/-! ## one committed entry -/

/-- `MaybeDeleteSession` only removes sessions -/
theorem chanLim_maybeDeleteSession_length (st : St) (sid : Id) :
    (maybeDeleteSession st sid).sessions.length ≤ st.sessions.length := by
  unfold maybeDeleteSession
  cases AMap.get st.sessions sid with
  | none => exact Nat.le_refl _
  | some a =>
    simp only
    cases (a.server || a.operator) <;> cases a.deleted <;>
      simp only [Bool.false_eq_true, if_false, if_true] <;>
      first
        | exact Nat.le_refl _
        | exact length_erase_le _ _
        | exact List.length_filter_le _ _
        | exact Nat.le_trans (length_erase_le _ _) (List.length_filter_le _ _)

/-- what one entry may do to the sessions and the session limit -/
structure EntrySess (st st' : St) (e : Entry) : Prop where
  maxSessions : e.type ≠ 6 → st'.config.maxSessions = st.config.maxSessions
  config : e.type = 6 → st'.sessions = st.sessions
  sess : st'.sessions.length ≤ st.sessions.length ∨
    ((e.type = 0 ∨ (e.type = 2 ∧ ∃ s m, AMap.get st.sessions e.session = some s ∧ parseMessage e.data = some m ∧
        s.server = true ∧ toUpper m.command = "NICK")) ∧
      (0 < st.config.maxSessions → st'.sessions.length ≤ max st.sessions.length st.config.maxSessions))

theorem applyEntry_sess {st st' : St} {e : Entry} {out : List Out} (hw : SessWf st)
    (he : (e.type = 1 ∨ e.type = 2) → e.session.reply = 0)
    (hr : applyEntry st e = .ok (st', out)) : EntrySess st st' e := by
  by_cases h5 : e.type = 5
  · obtain ⟨rfl, _⟩ := applyEntry_death h5 hr
    cases hu : updateLastClientMessageID st e with
    | none => exact ⟨fun _ => rfl, fun _ => rfl, Or.inl (Nat.le_refl _)⟩
    | some st1 =>
      obtain ⟨_, _, hk, hc, _⟩ := updateLast_spec hu
      have hlen : st1.sessions.length = st.sessions.length := by rw [← length_keys, hk, length_keys]
      simp only [Option.getD_some]
      exact ⟨fun _ => by rw [hc], fun h => absurd h (by rw [h5]; decide), Or.inl (Nat.le_of_eq hlen)⟩
  by_cases h0 : e.type = 0
  · obtain ⟨hc, hl, _⟩ := applyEntry_create_sessions h0 hr
    exact ⟨fun _ => by rw [hc], fun h => absurd h (by rw [h0]; decide), Or.inr ⟨Or.inl h0, hl⟩⟩
  by_cases h1 : e.type = 1
  · have h6 : e.type ≠ 6 := by rw [h1]; decide
    rcases applyEntry_delete h1 hr with ⟨_, rfl, _⟩ | ⟨s, c, hs, hpm, rfl, _⟩
    · exact ⟨fun _ => rfl, fun _ => rfl, Or.inl (Nat.le_refl _)⟩
    · obtain ⟨hcfg, _⟩ := maybeDeleteSession_other { c.st with lastProcessed := ⟨e.id, 0⟩ } e.session
      have hmax := (processMessage_maxChannels (c := { st := st, msgid := e.id }) (he (Or.inl h1)) hw hpm).2
      refine ⟨fun _ => by rw [hcfg]; exact hmax, fun h => absurd h h6, Or.inl ?_⟩
      refine Nat.le_trans (chanLim_maybeDeleteSession_length _ _) ?_
      show c.st.sessions.length ≤ st.sessions.length
      rcases processMessage_sess (c := { st := st, msgid := e.id }) hw hs hpm with hle | ⟨m, hm, hout⟩
      · exact hle.le
      · obtain ⟨_, hq⟩ := parseMessage_quit _ hm
        rcases hout with hle | ⟨_, hj, _⟩
        · exact hle.le
        · rw [hq] at hj; exact absurd hj (by decide)
  by_cases h2 : e.type = 2
  · have h6 : e.type ≠ 6 := by rw [h2]; decide
    rcases applyEntry_client h2 hr with ⟨_, rfl, _⟩ | ⟨st1, c, hu, hpm, rfl, _⟩
    · exact ⟨fun _ => rfl, fun _ => rfl, Or.inl (Nat.le_refl _)⟩
    · obtain ⟨hcfg, _⟩ := maybeDeleteSession_other { c.st with lastProcessed := ⟨e.session.id, 0⟩ } e.session
      obtain ⟨⟨s, s1, hs, hs1, _, _, _, hsv, _⟩, _, hk, hc1, _⟩ := updateLast_spec hu
      have hw1 := hw.updateLast hu
      have hlen1 : st1.sessions.length = st.sessions.length := by rw [← length_keys, hk, length_keys]
      have e1 : st1.config.maxSessions = st.config.maxSessions := by rw [hc1]
      have hmax := (processMessage_maxChannels (c := { st := st1, msgid := e.id }) (he (Or.inr h2)) hw1 hpm).2
      refine ⟨fun _ => by rw [hcfg]; exact hmax.trans e1, fun h => absurd h h6, ?_⟩
      have hdel := chanLim_maybeDeleteSession_length { c.st with lastProcessed := ⟨e.session.id, 0⟩ } e.session
      have hdel' : (maybeDeleteSession { c.st with lastProcessed := ⟨e.session.id, 0⟩ } e.session).sessions.length ≤
          c.st.sessions.length := hdel
      rcases processMessage_sess (c := { st := st1, msgid := e.id }) hw1 hs1 hpm with hle | ⟨m, hm, hout⟩
      · exact Or.inl (Nat.le_trans hdel' (hlen1 ▸ hle.le))
      · rcases hout with hle | ⟨hsrv, hj, hlim⟩
        · exact Or.inl (Nat.le_trans hdel' (hlen1 ▸ hle.le))
        · refine Or.inr ⟨Or.inr ⟨h2, s, m, hs, hm, hsv ▸ hsrv, hj⟩, fun hpos => ?_⟩
          have := hlim.le (by show 0 < st1.config.maxSessions; rw [e1]; exact hpos)
          have h3 : c.st.sessions.length ≤ max st1.sessions.length st1.config.maxSessions := this
          rw [hlen1, e1] at h3
          exact Nat.le_trans hdel' h3
  by_cases h6 : e.type = 6
  · obtain ⟨rfl, _⟩ := applyEntry_config h6 hr
    refine ⟨fun h => absurd h6 h, fun _ => ?_, Or.inl ?_⟩
    · cases e.cfg <;> rfl
    · cases e.cfg <;> exact Nat.le_refl _
  · obtain ⟨rfl, _⟩ := applyEntry_other ⟨h0, h1, h2, h5, h6⟩ hr
    exact ⟨fun _ => rfl, fun _ => rfl, Or.inl (Nat.le_refl _)⟩

/-! ## the limit as a state predicate -/

/-- the configured session limit is respected (`0` = no limit) -/
def SessionsWithinLimit (st : St) : Prop :=
  st.config.maxSessions = 0 ∨ st.sessions.length ≤ st.config.maxSessions

/-- a Config entry does not lower the session limit below the current number of sessions -/
def ConfigKeepsSessionLimit (st : St) (e : Entry) : Prop :=
  e.type = 6 → ∀ cfg, e.cfg = some cfg → cfg.maxSessions = 0 ∨ st.sessions.length ≤ cfg.maxSessions

theorem EntrySess.within {st st' : St} {e : Entry} (h : EntrySess st st' e) (hl : SessionsWithinLimit st)
    (hcfg : ConfigKeepsSessionLimit st e) (hr : ∃ out, applyEntry st e = .ok (st', out)) :
    SessionsWithinLimit st' := by
  by_cases h6 : e.type = 6
  · obtain ⟨out, hr⟩ := hr
    obtain ⟨rfl, _⟩ := applyEntry_config h6 hr
    cases hc : e.cfg with
    | none => exact hl
    | some cfg => exact hcfg h6 cfg hc
  · have hm := h.maxSessions h6
    unfold SessionsWithinLimit
    rw [hm]
    by_cases hz : st.config.maxSessions = 0
    · exact Or.inl hz
    · right
      have hle : st.sessions.length ≤ st.config.maxSessions := hl.resolve_left hz
      rcases h.sess with hle' | ⟨_, hlim⟩
      · exact Nat.le_trans hle' hle
      · have := hlim (Nat.pos_of_ne_zero hz)
        omega

/-- along the history: no Config entry lowers the session limit below the current number of sessions -/
def SessLimitHistory (st : St) : List Entry → Prop
  | [] => True
  | e :: es => ConfigKeepsSessionLimit st e ∧ ∀ st' out, applyEntry st e = .ok (st', out) → SessLimitHistory st' es

theorem run_sessions_within_limit {st st' : St} {es : List Entry} (hw : SessWf st) (hl : SessionsWithinLimit st)
    (hwf : WfHistory st es) (hlh : SessLimitHistory st es) (hr : runEntries st es = .ok st') :
    SessionsWithinLimit st' := by
  induction es generalizing st with
  | nil => cases hr; exact hl
  | cons e es ih =>
    unfold runEntries at hr
    obtain ⟨he, _, hnext⟩ := hwf
    obtain ⟨hcfg, hlnext⟩ := hlh
    split at hr
    · rename_i st1 out hap
      have hc := applyEntry_sess hw he.1 hap
      exact ih (hw.applyEntry he.1 hap) (hc.within hl hcfg ⟨out, hap⟩) (hnext st1 out hap) (hlnext st1 out hap) hr
    · cases hr
    · cases hr

end Robust.Irc
