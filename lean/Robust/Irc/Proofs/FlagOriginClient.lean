import Robust.Irc.Proofs.FlagOriginBase
/-!
The flag-origin relation `Flg O S` (`FlagOriginBase.lean`) through every client handler.  The walks
are those of `FrmClient.lean`.  Every handler keeps `Flg O S` for arbitrary permissions, except

* `cmdOper`: needs `O sid` if the pair of the message is listed (`cmdOper_flg`);
* `maybeLogin` (reached from `cmdNick`, `cmdUser`, `cmdPass`): needs `O sid` if the session is about
  to register and the `oper=` part of its PASS string carries a listed pair.

GLINE changes `Config.banned` only, which `Flg` does not look at.
-/
namespace Robust.Irc
open Robust AMap

/-! ### read-only handlers -/

theorem Flg.of_emits {O S : Id → Prop} {st0 : St} {c c' : Ctx} (h : Flg O S st0 c.st) (he : Emits c c') : Flg O S st0 c'.st := by
  rw [he.st]; exact h

theorem FlgPres.of_emits {h : Ctx → Id → IrcMsg → Res Ctx}
    (hi : ∀ c sid m c', h c sid m = Res.ok c' → Emits c c') : FlgPres h :=
  fun _ _ _ c sid m c' hp hr => hp.of_emits (hi c sid m c' hr)


theorem cmdPing_flgp : FlgPres cmdPing := .of_emits fun _ _ _ _ => cmdPing_emits
theorem cmdIson_flgp : FlgPres cmdIson := .of_emits fun _ _ _ _ => cmdIson_emits
theorem cmdUserhost_flgp : FlgPres cmdUserhost := .of_emits fun _ _ _ _ => cmdUserhost_emits
theorem cmdList_flgp : FlgPres cmdList := .of_emits fun _ _ _ _ => cmdList_emits
theorem cmdKnock_flgp : FlgPres cmdKnock := .of_emits fun _ _ _ _ => cmdKnock_emits
theorem cmdNames_flgp : FlgPres cmdNames := .of_emits fun _ _ _ _ => cmdNames_emits
theorem cmdWho_flgp : FlgPres cmdWho := .of_emits fun _ _ _ _ => cmdWho_emits
theorem cmdWhois_flgp : FlgPres cmdWhois := .of_emits fun _ _ _ _ => cmdWhois_emits
theorem cmdPrivmsg_flgp : FlgPres cmdPrivmsg := .of_emits fun _ _ _ _ => cmdPrivmsg_emits
theorem cmdServiceAlias_flgp : FlgPres cmdServiceAlias := .of_emits fun _ _ _ _ => cmdServiceAlias_emits

theorem cmdNames_flg {O S : Id → Prop} {st0 : St} {c c' : Ctx} {sid : Id} {m : IrcMsg} (h : Flg O S st0 c.st) (hr : cmdNames c sid m = .ok c') :
    Flg O S st0 c'.st := h.of_emits (cmdNames_emits hr)

/-- brute-force walk through a handler whose leaves are output / `putChan` on top of a context `c`
with `h : Flg O S st0 c.st`: `flg_auto hr h` -/
macro "flg_auto" hr:ident h:ident : tactic =>
  `(tactic| repeat' (first
      | split at $hr:ident
      | (obtain ⟨_, _, $hr:ident⟩ := Res.bind_eq_ok.1 $hr:ident)
      | dsimp only at $hr:ident
      | (cases $hr:ident <;> first | exact $h:ident | exact Flg.congr $h:ident rfl rfl rfl)))

/-! ### AWAY / INVITE / TOPIC / MODE -/

theorem cmdAway_flg {O S : Id → Prop} {st0 : St} {c c' : Ctx} {sid : Id} {m : IrcMsg} (h : Flg O S st0 c.st) (hr : cmdAway c sid m = .ok c') :
    Flg O S st0 c'.st := by
  unfold cmdAway at hr
  obtain ⟨c1, h1, hr⟩ := Res.bind_eq_ok.1 hr
  obtain ⟨s, hs, hr⟩ := Res.bind_eq_ok.1 hr
  have p1 : Flg O S st0 c1.st := h.modS_keep h1 (fun _ => ⟨rfl, rfl, rfl⟩)
  split at hr <;> (cases hr; exact p1)

theorem cmdAway_flgp : FlgPres cmdAway := .of_plain cmdAway_flg

theorem cmdInvite_flg {O S : Id → Prop} {st0 : St} {c c' : Ctx} {sid : Id} {m : IrcMsg} (h : Flg O S st0 c.st) (hr : cmdInvite c sid m = .ok c') :
    Flg O S st0 c'.st := by
  unfold cmdInvite at hr
  obtain ⟨s, hs, hr⟩ := Res.bind_eq_ok.1 hr
  obtain ⟨nickname, _, hr⟩ := Res.bind_eq_ok.1 hr
  obtain ⟨channelname, _, hr⟩ := Res.bind_eq_ok.1 hr
  dsimp only at hr
  split at hr
  · cases hr; exact h
  split at hr
  · cases hr; exact h
  split at hr
  · cases hr; exact h
  obtain ⟨t, ht, hr⟩ := Res.bind_eq_ok.1 hr
  split at hr
  · cases hr; exact h
  split at hr
  · cases hr; exact h
  obtain ⟨c1, h1, hr⟩ := Res.bind_eq_ok.1 hr
  have p1 : Flg O S st0 c1.st := h.modS_keep h1 (fun _ => ⟨rfl, rfl, rfl⟩)
  obtain ⟨rc, _, hr⟩ := Res.bind_eq_ok.1 hr
  split at hr <;> (cases hr; exact p1)

theorem cmdInvite_flgp : FlgPres cmdInvite := .of_plain cmdInvite_flg

theorem cmdTopic_flg {O S : Id → Prop} {st0 : St} {c c' : Ctx} {sid : Id} {m : IrcMsg} (h : Flg O S st0 c.st) (hr : cmdTopic c sid m = .ok c') :
    Flg O S st0 c'.st := by
  unfold cmdTopic at hr
  simp only [getChan_eq] at hr
  flg_auto hr h

theorem cmdTopic_flgp : FlgPres cmdTopic := .of_plain cmdTopic_flg

theorem applyChanMode_flg {O S : Id → Prop} {st0 : St} {c c' : Ctx} {sid : Id} {s : Session} {lc chn : String} {op q q' ret : Bool}
    {mc : ModeCmd} (h : Flg O S st0 c.st) (hr : applyChanMode c sid s lc chn op mc q = .ok (c', q', ret)) :
    Flg O S st0 c'.st := by
  unfold applyChanMode at hr
  simp only [getChan_eq] at hr
  split at hr
  · rename_i ch hch
    split at hr
    · flg_auto hr h
    · cases hr
      refine Flg.sendUser ?_ _ _
      exact Flg.foldl (fun c1 p h1 => h1.sendUser _ _) _ _ h
  · cases hr

theorem applyChanModes_flg {O S : Id → Prop} {st0 : St} {sid : Id} {s : Session} {lc chn : String} {op : Bool} :
    ∀ (l : List ModeCmd) {c c' : Ctx} {q q' ret : Bool}, Flg O S st0 c.st →
      applyChanModes c sid s lc chn op l q = .ok (c', q', ret) → Flg O S st0 c'.st
  | [], c, c', q, q', ret, h, hr => by
    unfold applyChanModes at hr
    cases hr; exact h
  | mc :: rest, c, c', q, q', ret, h, hr => by
    unfold applyChanModes at hr
    obtain ⟨⟨c1, q1, r1⟩, h1, hr⟩ := Res.bind_eq_ok.1 hr
    have p1 := applyChanMode_flg h h1
    dsimp only at hr
    split at hr
    · cases hr; exact p1
    · exact applyChanModes_flg rest p1 hr

theorem cmdMode_flg {O S : Id → Prop} {st0 : St} {c c' : Ctx} {sid : Id} {m : IrcMsg} (h : Flg O S st0 c.st) (hr : cmdMode c sid m = .ok c') :
    Flg O S st0 c'.st := by
  unfold cmdMode at hr
  simp only [getChan_eq, Res.panic_bind] at hr
  obtain ⟨s, hs, hr⟩ := Res.bind_eq_ok.1 hr
  obtain ⟨chn, _, hr⟩ := Res.bind_eq_ok.1 hr
  split at hr
  · -- channel modes
    split at hr
    · rename_i ch hch
      split at hr
      · cases hr; exact h
      · split at hr
        · rename_i mem hmem
          obtain ⟨⟨c1, q1, r1⟩, h1, hr⟩ := Res.bind_eq_ok.1 hr
          have p1 := applyChanModes_flg _ h h1
          dsimp only at hr
          split at hr
          · cases hr; exact p1
          split at hr
          · cases hr; exact p1
          split at hr
          · cases hr; exact p1
          split at hr
          · obtain ⟨rc, _, hr⟩ := Res.bind_eq_ok.1 hr
            cases hr; exact p1
          · cases hr
        · cases hr
    · cases hr
  · -- user modes
    split at hr
    · obtain ⟨t, ht, hr⟩ := Res.bind_eq_ok.1 hr
      split at hr
      · cases hr; exact h
      · split at hr
        · cases hr; exact h
        · obtain ⟨c1, h1, hr⟩ := Res.bind_eq_ok.1 hr
          have p1 : Flg O S st0 c1.st := h.modS_keep h1 (fun _ => ⟨rfl, rfl, rfl⟩)
          cases hr
          exact p1
    · cases hr; exact h

theorem cmdMode_flgp : FlgPres cmdMode := .of_plain cmdMode_flg

/-! ### login, OPER, MOTD, USER, PASS -/

theorem cmdMotd_flg {O S : Id → Prop} {st0 : St} {c c' : Ctx} {sid : Id} {m : IrcMsg} (h : Flg O S st0 c.st) (hr : cmdMotd c sid m = .ok c') :
    Flg O S st0 c'.st := by
  unfold cmdMotd at hr
  obtain ⟨s, _, hr⟩ := Res.bind_eq_ok.1 hr
  cases hr; exact h

theorem cmdMotd_flgp : FlgPres cmdMotd := .of_plain cmdMotd_flg

theorem param_get_of_ok {m : IrcMsg} {i : Nat} {p : String} (h : param m i = Res.ok p) : m.params[i]? = some p := by
  unfold param at h
  split at h
  · rename_i q hq; cases h; exact hq
  · cases h

/-- OPER: the actor's operator flag is turned on only if the pair of the message is listed; nothing
else is touched.  The permission `O sid` is needed in that case only. -/
theorem cmdOper_flg {O S : Id → Prop} {st0 : St} {c c' : Ctx} {sid : Id} {m : IrcMsg} (h : Flg O S st0 c.st)
    (hO : operCreds c.st.config m = true → O sid) (hr : cmdOper c sid m = .ok c') :
    Flg O S st0 c'.st := by
  unfold cmdOper at hr
  obtain ⟨s, hs, hr⟩ := Res.bind_eq_ok.1 hr
  obtain ⟨p0, hp0, hr⟩ := Res.bind_eq_ok.1 hr
  obtain ⟨p1, hp1, hr⟩ := Res.bind_eq_ok.1 hr
  split at hr
  · cases hr; exact h
  · rename_i hl
    obtain ⟨c1, h1, hr⟩ := Res.bind_eq_ok.1 hr
    obtain ⟨s1, hs1, hr⟩ := Res.bind_eq_ok.1 hr
    have hcreds : operCreds c.st.config m = true := by
      unfold operCreds operListed
      rw [param_get_of_ok hp0, param_get_of_ok hp1]
      simpa using hl
    have n1 : Flg O S st0 c1.st :=
      h.modS_gen h1 (fun _ => rfl) (fun _ _ _ => Or.inr (hO hcreds)) (fun _ _ hv => Or.inl hv)
    cases hr
    exact n1

theorem loginOper_flg {O S : Id → Prop} {st0 : St} {c c' : Ctx} {sid : Id} {s : Session} (h : Flg O S st0 c.st)
    (hO : loginOperCreds c.st.config s.pass = true → O sid) (hr : loginOper c sid s = .ok c') :
    Flg O S st0 c'.st := by
  unfold loginOper at hr
  dsimp only at hr
  split at hr
  · split at hr
    · cases hr
    · rename_i parsed hp
      split at hr
      · refine cmdOper_flg h (fun hc => hO ?_) hr
        unfold loginOperCreds
        rw [hp]; exact hc
      · cases hr; exact h
  · cases hr; exact h

/-- `maybeLogin`: the automatic OPER runs only when the session registers now (it was not logged in),
with the pair taken from the `oper=` part of the PASS string stored at that moment -/
theorem maybeLogin_flg {O S : Id → Prop} {st0 : St} {c c' : Ctx} {sid : Id} {m : IrcMsg} (h : Flg O S st0 c.st)
    (hO : ∀ s, AMap.get c.st.sessions sid = some s → s.loggedIn = false →
      loginOperCreds c.st.config s.pass = true → O sid)
    (hr : maybeLogin c sid m = .ok c') : Flg O S st0 c'.st := by
  rw [maybeLogin_eq] at hr
  obtain ⟨s, hs, hr⟩ := Res.bind_eq_ok.1 hr
  rw [getS_eq_ok] at hs
  split at hr
  · cases hr; exact h
  · rename_i hli
    split at hr
    · cases hr; exact h
    · split at hr
      · cases hr
      · obtain ⟨c1, h1, hr⟩ := Res.bind_eq_ok.1 hr
        obtain ⟨c2, h2, hr⟩ := Res.bind_eq_ok.1 hr
        obtain ⟨c3, h3, hr⟩ := Res.bind_eq_ok.1 hr
        have n1 : Flg O S st0 c1.st := h.modS_keep h1 (fun _ => ⟨rfl, rfl, rfl⟩)
        have hcfg : (loginBanner c1 sid s).st.config = c.st.config := by
          rw [loginBanner_st]
          obtain ⟨t, _, e1⟩ := modS_eq_ok.1 h1
          rw [e1]; rfl
        have n2 : Flg O S st0 c2.st := by
          refine loginOper_flg (c := loginBanner c1 sid s) (by rw [loginBanner_st]; exact n1) ?_ h2
          rw [hcfg]
          exact hO s hs (by simpa using hli)
        have n3 : Flg O S st0 c3.st := n2.modS_keep h3 (fun _ => ⟨rfl, rfl, rfl⟩)
        exact cmdMotd_flg n3 hr

theorem cmdUser_flg {O S : Id → Prop} {st0 : St} {c c' : Ctx} {sid : Id} {m : IrcMsg} (h : Flg O S st0 c.st)
    (hO : ∀ s, AMap.get c.st.sessions sid = some s → s.loggedIn = false →
      loginOperCreds c.st.config s.pass = true → O sid)
    (hr : cmdUser c sid m = .ok c') : Flg O S st0 c'.st := by
  unfold cmdUser at hr
  obtain ⟨u, hu, hr⟩ := Res.bind_eq_ok.1 hr
  obtain ⟨c1, h1, hr⟩ := Res.bind_eq_ok.1 hr
  refine maybeLogin_flg (h.modS_keep h1 (fun _ => ⟨rfl, rfl, rfl⟩)) ?_ hr
  obtain ⟨t, ht, e1⟩ := modS_eq_ok.1 h1
  have hid : t.id = sid := h.wf.ids sid t ht
  intro s hs hli hc
  have hs1 := modS_get_self (f := fun s => updateIrcPrefix { s with username := truncateUsername u, realname := m.trailing })
    ht hid h1
  rw [hs1] at hs; cases hs
  refine hO t ht hli ?_
  have hcfg : c1.st.config = c.st.config := by rw [e1]; rfl
  rw [hcfg] at hc; exact hc

theorem cmdPass_flg {O S : Id → Prop} {st0 : St} {c c' : Ctx} {sid : Id} {m : IrcMsg} (h : Flg O S st0 c.st)
    (hO : ∀ s, AMap.get c.st.sessions sid = some s → s.loggedIn = false →
      loginOperCreds c.st.config (passAfter m s.pass) = true → O sid)
    (hr : cmdPass c sid m = .ok c') : Flg O S st0 c'.st := by
  unfold cmdPass at hr
  obtain ⟨c1, h1, hr⟩ := Res.bind_eq_ok.1 hr
  refine maybeLogin_flg (h.modS_keep h1 (fun _ => ⟨rfl, rfl, rfl⟩)) ?_ hr
  obtain ⟨t, ht, e1⟩ := modS_eq_ok.1 h1
  have hid : t.id = sid := h.wf.ids sid t ht
  intro s hs hli hc
  have hs1 := modS_get_self ht (by exact hid) h1
  rw [hs1] at hs; cases hs
  refine hO t ht hli ?_
  have hcfg : c1.st.config = c.st.config := by rw [e1]; rfl
  rw [hcfg] at hc; exact hc

/-! ### QUIT, PART, KICK, KILL, GLINE -/

theorem cmdQuit_flg {O S : Id → Prop} {st0 : St} {c c' : Ctx} {sid : Id} {m : IrcMsg} (h : Flg O S st0 c.st) (hr : cmdQuit c sid m = .ok c') :
    Flg O S st0 c'.st := by
  unfold cmdQuit at hr
  obtain ⟨c1, h1, hr⟩ := Res.bind_eq_ok.1 hr
  have n1 := h.deleteSession h1
  obtain ⟨s1, hs1, hr⟩ := Res.bind_eq_ok.1 hr
  split at hr
  · obtain ⟨rc, hrc, hr⟩ := Res.bind_eq_ok.1 hr
    cases hr; exact n1
  · cases hr; exact n1

theorem cmdQuit_flgp : FlgPres cmdQuit := .of_plain cmdQuit_flg

theorem partOne_flg {O S : Id → Prop} {st0 : St} {c c' : Ctx} {sid : Id} {chn : String} (h : Flg O S st0 c.st) (hr : partOne c sid chn = .ok c') :
    Flg O S st0 c'.st := by
  unfold partOne at hr
  obtain ⟨s0, hs0, hr⟩ := Res.bind_eq_ok.1 hr
  simp only [getChan_eq] at hr
  split at hr
  · cases hr; exact h
  · split at hr
    · cases hr; exact h
    · obtain ⟨rc, hrc, hr⟩ := Res.bind_eq_ok.1 hr
      exact Flg.leaveChannel (c := emit _ _ _) h hr

theorem cmdPart_flg {O S : Id → Prop} {st0 : St} {c c' : Ctx} {sid : Id} {m : IrcMsg} (h : Flg O S st0 c.st) (hr : cmdPart c sid m = .ok c') :
    Flg O S st0 c'.st := by
  unfold cmdPart at hr
  obtain ⟨p0, _, hr⟩ := Res.bind_eq_ok.1 hr
  exact Flg.foldlM (fun _ _ _ h hr => partOne_flg h hr) _ h hr

theorem cmdPart_flgp : FlgPres cmdPart := .of_plain cmdPart_flg

theorem cmdKick_flg {O S : Id → Prop} {st0 : St} {c c' : Ctx} {sid : Id} {m : IrcMsg} (h : Flg O S st0 c.st) (hr : cmdKick c sid m = .ok c') :
    Flg O S st0 c'.st := by
  unfold cmdKick at hr
  obtain ⟨s, hs, hr⟩ := Res.bind_eq_ok.1 hr
  obtain ⟨chn, _, hr⟩ := Res.bind_eq_ok.1 hr
  obtain ⟨target, _, hr⟩ := Res.bind_eq_ok.1 hr
  simp only [getChan_eq] at hr
  split at hr
  · cases hr; exact h
  · split at hr
    · cases hr; exact h
    · split at hr
      · cases hr; exact h
      · split at hr
        · cases hr; exact h
        · split at hr
          · obtain ⟨rc, hrc, hr⟩ := Res.bind_eq_ok.1 hr
            exact Flg.leaveChannel (c := emit _ _ _) h hr
          · cases hr

theorem cmdKick_flgp : FlgPres cmdKick := .of_plain cmdKick_flg

theorem cmdKill_flg {O S : Id → Prop} {st0 : St} {c c' : Ctx} {sid : Id} {m : IrcMsg} (h : Flg O S st0 c.st) (hr : cmdKill c sid m = .ok c') :
    Flg O S st0 c'.st := by
  unfold cmdKill at hr
  obtain ⟨s, hs, hr⟩ := Res.bind_eq_ok.1 hr
  split at hr
  · cases hr; exact h
  · obtain ⟨p0, _, hr⟩ := Res.bind_eq_ok.1 hr
    split at hr
    · cases hr; exact h
    · obtain ⟨c1, h1, hr⟩ := Res.bind_eq_ok.1 hr
      have n1 := h.deleteSession h1
      obtain ⟨t1, _, hr⟩ := Res.bind_eq_ok.1 hr
      obtain ⟨s2, _, hr⟩ := Res.bind_eq_ok.1 hr
      obtain ⟨rc, _, hr⟩ := Res.bind_eq_ok.1 hr
      cases hr
      exact n1

theorem cmdKill_flgp : FlgPres cmdKill := .of_plain cmdKill_flg

/-- GLINE adds a ban to the configuration (`banned`), which `Flg` does not look at, and runs KILL -/
theorem cmdGline_flg {O S : Id → Prop} {st0 : St} {c c' : Ctx} {sid : Id} {m : IrcMsg} (h : Flg O S st0 c.st)
    (hr : cmdGline c sid m = .ok c') : Flg O S st0 c'.st := by
  unfold cmdGline at hr
  obtain ⟨s, hs, hr⟩ := Res.bind_eq_ok.1 hr
  split at hr
  · cases hr; exact h
  · obtain ⟨p0, hp0, hr⟩ := Res.bind_eq_ok.1 hr
    split at hr
    · cases hr; exact h
    · obtain ⟨t, ht, hr⟩ := Res.bind_eq_ok.1 hr
      split at hr
      · cases hr; exact h
      · dsimp only at hr
        exact cmdKill_flg (c := { c with st := { c.st with config :=
          { c.st.config with banned := AMap.set c.st.config.banned t.remoteAddr m.trailing } } })
          (h.congr rfl rfl rfl) hr

theorem cmdGline_flgp : FlgPres cmdGline := .of_plain cmdGline_flg

/-! ### NICK -/

theorem cmdNickTail_flg {O S : Id → Prop} {st0 : St} {c c' : Ctx} {sid : Id} {m : IrcMsg} {s : Session} {nick : String} {held : Option SvsHold}
    (h : Flg O S st0 c.st) (hs : AMap.get c.st.sessions sid = some s)
    (hO : s.loggedIn = false → loginOperCreds c.st.config s.pass = true → O sid)
    (hr : cmdNickTail c sid m s nick held = .ok c') : Flg O S st0 c'.st := by
  unfold cmdNickTail at hr
  dsimp only at hr
  have hid : s.id = sid := h.wf.ids sid s hs
  obtain ⟨hs0, _, _⟩ := holdCtx_facts c (nickToLower nick) held
  obtain ⟨hc0, _⟩ := holdCtx_cfg c (nickToLower nick) held
  have n0 : Flg O S st0 (holdCtx c (nickToLower nick) held).st := h.congr hs0 (by rw [hc0]) (by rw [hc0])
  have hsc0 : AMap.get (holdCtx c (nickToLower nick) held).st.sessions sid = some s := by rw [hs0]; exact hs
  generalize holdCtx c (nickToLower nick) held = c0 at hr n0 hc0 hsc0
  split at hr
  · cases hr; exact n0
  generalize (nickToLower s.nick != "" &&
      !(s.loggedIn && nickToLower nick == nickToLower (if s.loggedIn = true then s.nick else "*"))) = b at hr
  obtain ⟨c1, hm1, hr⟩ := Res.bind_eq_ok.1 hr
  obtain ⟨c2, hm2, hr⟩ := Res.bind_eq_ok.1 hr
  have n1 : Flg O S st0 c1.st := n0.modS_keep hm1 (fun _ => ⟨rfl, rfl, rfl⟩)
  have hsc1 := modS_get_self (f := fun s => { s with nick := nick }) hsc0 hid hm1
  have hc1 : c1.st.config = c0.st.config := by
    obtain ⟨t, _, e1⟩ := modS_eq_ok.1 hm1
    rw [e1]; rfl
  have hss := renameCtx_sessions c1 sid (nickToLower nick) (nickToLower s.nick) b
  obtain ⟨hcr, _⟩ := renameCtx_cfg c1 sid (nickToLower nick) (nickToLower s.nick) b
  have nr : Flg O S st0 (renameCtx c1 sid (nickToLower nick) (nickToLower s.nick) b).st :=
    n1.congr hss (by rw [hcr]) (by rw [hcr])
  have hscr : AMap.get (renameCtx c1 sid (nickToLower nick) (nickToLower s.nick) b).st.sessions sid =
      some { s with nick := nick } := by rw [hss]; exact hsc1
  generalize renameCtx c1 sid (nickToLower nick) (nickToLower s.nick) b = cr at hm2 nr hcr hscr
  have n2 : Flg O S st0 c2.st := nr.modS_keep hm2 (fun _ => ⟨rfl, rfl, rfl⟩)
  have hsc2 := modS_get_self (f := updateIrcPrefix) hscr hid hm2
  have hc2 : c2.st.config = cr.st.config := by
    obtain ⟨t, _, e1⟩ := modS_eq_ok.1 hm2
    rw [e1]; rfl
  split at hr
  · obtain ⟨s2, _, hr⟩ := Res.bind_eq_ok.1 hr
    obtain ⟨rc, _, hr⟩ := Res.bind_eq_ok.1 hr
    cases hr
    exact n2
  · refine maybeLogin_flg n2 ?_ hr
    intro t ht hli hc
    rw [hsc2] at ht; cases ht
    rw [hc2, hcr, hc1, hc0] at hc
    exact hO hli hc

/-- NICK: through `maybeLogin`, when the nickname completes the registration -/
theorem cmdNick_flg {O S : Id → Prop} {st0 : St} {c c' : Ctx} {sid : Id} {m : IrcMsg} (h : Flg O S st0 c.st)
    (hO : ∀ s, AMap.get c.st.sessions sid = some s → s.loggedIn = false →
      loginOperCreds c.st.config s.pass = true → O sid)
    (hr : cmdNick c sid m = .ok c') : Flg O S st0 c'.st := by
  rw [cmdNick_eq] at hr
  obtain ⟨s, hs, hr⟩ := Res.bind_eq_ok.1 hr
  rw [getS_eq_ok] at hs
  dsimp only at hr
  generalize m.params.head?.getD "" = nick at hr
  split at hr
  · cases hr; exact h
  generalize (if s.loggedIn = true then s.nick else "*") = dest at hr
  split at hr
  · cases hr; exact h
  split at hr
  · cases hr; exact h
  split at hr
  · split at hr
    · cases hr; exact h
    · exact cmdNickTail_flg h hs (hO s hs) hr
  · exact cmdNickTail_flg h hs (hO s hs) hr

/-! ### JOIN -/

theorem joinAdmit_flg {O S : Id → Prop} {st0 : St} {c c1 : Ctx} {sid : Id} {s : Session} {chn key : String} {mm : Option (Option IrcMsg)}
    (h : Flg O S st0 c.st) (hr : joinAdmit c sid s chn key = .ok (c1, mm)) : Flg O S st0 c1.st := by
  unfold joinAdmit at hr
  dsimp only at hr
  obtain ⟨r, h1, hr⟩ := Res.bind_eq_ok.1 hr
  have hr1 : Flg O S st0 r.1.st := by
    simp only [getChan_eq] at h1
    flg_auto h1 h
  split at hr <;> (cases hr; exact hr1)

theorem joinAnnounce_flg {O S : Id → Prop} {st0 : St} {c c' : Ctx} {sid : Id} {chn : String} {ch : Channel} {ex : Bool}
    {mm : Option IrcMsg} (h : Flg O S st0 c.st) (hr : joinAnnounce c sid chn ch ex mm = .ok c') : Flg O S st0 c'.st := by
  unfold joinAnnounce at hr
  obtain ⟨s1, hs1, hr⟩ := Res.bind_eq_ok.1 hr
  obtain ⟨rc, hrc, hr⟩ := Res.bind_eq_ok.1 hr
  dsimp only at hr
  obtain ⟨c1, h1, hr⟩ := Res.bind_eq_ok.1 hr
  obtain ⟨e1, _⟩ := joinModes_spec h1
  obtain ⟨c2, h2, hr⟩ := Res.bind_eq_ok.1 hr
  obtain ⟨c3, h3, hr⟩ := Res.bind_eq_ok.1 hr
  have e1' : c1.st = c.st := e1
  have n1 : Flg O S st0 (emit c1 (srv c1 "SJOIN" ["1", chn, (if (!ex) = true then "@" else "") ++ s1.nick])
      (rcServices c1.st)).st := by rw [emit_st, e1']; exact h
  exact cmdNames_flg (cmdTopic_flg (cmdMode_flg n1 h2) h3) hr

theorem joinTail_flg {O S : Id → Prop} {st0 : St} {c c' : Ctx} {sid : Id} {s : Session} {chn : String} {ex : Bool} {mm : Option IrcMsg}
    (h : Flg O S st0 c.st) (hr : joinTail c sid s chn ex mm = .ok c') : Flg O S st0 c'.st := by
  unfold joinTail at hr
  dsimp only at hr
  simp only [getChan_eq] at hr
  split at hr
  · rename_i ch hch
    obtain ⟨c2, h2, hr⟩ := Res.bind_eq_ok.1 hr
    have n2 : Flg O S st0 c2.st := by
      split at h2
      · exact h.modS_keep h2 (fun _ => ⟨rfl, rfl, rfl⟩)
      · cases h2; exact h
    split at hr
    · cases hr; exact n2
    · obtain ⟨c3, h3, hr⟩ := Res.bind_eq_ok.1 hr
      have n3 : Flg O S st0 c3.st := Flg.modS_keep (c := putChan c2 _ _) (n2.putChan _ _) h3
        (fun _ => ⟨rfl, rfl, rfl⟩)
      exact joinAnnounce_flg n3 hr
  · cases hr

theorem joinOne_flg {O S : Id → Prop} {st0 : St} {c c' : Ctx} {sid : Id} {chn key : String} (h : Flg O S st0 c.st)
    (hr : joinOne c sid chn key = .ok c') : Flg O S st0 c'.st := by
  rw [joinOne_eq] at hr
  obtain ⟨s0, hs0, hr⟩ := Res.bind_eq_ok.1 hr
  split at hr
  · cases hr; exact h
  · obtain ⟨r, hadm, hr⟩ := Res.bind_eq_ok.1 hr
    obtain ⟨c1, mm⟩ := r
    have n1 := joinAdmit_flg h hadm
    cases mm with
    | none => cases hr; exact n1
    | some mm =>
      dsimp only at hr
      exact joinTail_flg n1 hr

theorem joinLoop_flg {O S : Id → Prop} {st0 : St} {keys chans : List String} {idx : Nat} {c c' : Ctx} {sid : Id} (h : Flg O S st0 c.st)
    (hr : joinLoop c sid keys chans idx = .ok c') : Flg O S st0 c'.st := by
  induction chans generalizing c idx with
  | nil => cases hr; exact h
  | cons ch rest ih =>
    unfold joinLoop at hr
    obtain ⟨c1, h1, hr⟩ := Res.bind_eq_ok.1 hr
    exact ih (joinOne_flg h h1) hr

theorem cmdJoin_flg {O S : Id → Prop} {st0 : St} {c c' : Ctx} {sid : Id} {m : IrcMsg} (h : Flg O S st0 c.st) (hr : cmdJoin c sid m = .ok c') :
    Flg O S st0 c'.st := by
  unfold cmdJoin at hr
  obtain ⟨p0, _, hr⟩ := Res.bind_eq_ok.1 hr
  exact joinLoop_flg h hr

theorem cmdJoin_flgp : FlgPres cmdJoin := .of_plain cmdJoin_flg

end Robust.Irc
