import Robust.Irc.Proofs.RcptPfx
import Robust.Irc.Proofs.NH1
/-!
`PInv` (every stored session carries the prefix derived from its current nick / user name / id) is
preserved by the client handlers.

* the read-only handlers (`Emits`): the state is untouched;
* AWAY / INVITE / TOPIC / MODE: every `modS` keeps `server/nick/username/ircPrefix/id`, `putChan` does
  not touch the sessions;
* NICK: the invariant is suspended for the acting session between `modS … {nick := …}` and
  `modS … updateIrcPrefix`;
* USER: the stored value is `updateIrcPrefix _`;
* the rest (login, OPER, QUIT, PART, KICK, KILL, GLINE, JOIN): walks as for `NI` in `NH1.lean`.

Only NICK needs `Pre` (the acting session is stored under its own id).
-/
namespace Robust.Irc
open Robust AMap

/-! ### read-only handlers -/

theorem PInv.of_emits {c c' : Ctx} (h : PInv c.st) (he : Emits c c') : PInv c'.st := by rw [he.st]; exact h

theorem PPres.of_emits {h : Ctx → Id → IrcMsg → Res Ctx}
    (hi : ∀ c sid m c', h c sid m = Res.ok c' → Emits c c') : PPres h :=
  fun c sid m c' _ _ hp hr => hp.of_emits (hi c sid m c' hr)

theorem cmdPing_ppres : PPres cmdPing := .of_emits fun _ _ _ _ => cmdPing_emits
theorem cmdIson_ppres : PPres cmdIson := .of_emits fun _ _ _ _ => cmdIson_emits
theorem cmdUserhost_ppres : PPres cmdUserhost := .of_emits fun _ _ _ _ => cmdUserhost_emits
theorem cmdList_ppres : PPres cmdList := .of_emits fun _ _ _ _ => cmdList_emits
theorem cmdKnock_ppres : PPres cmdKnock := .of_emits fun _ _ _ _ => cmdKnock_emits
theorem cmdNames_ppres : PPres cmdNames := .of_emits fun _ _ _ _ => cmdNames_emits
theorem cmdWho_ppres : PPres cmdWho := .of_emits fun _ _ _ _ => cmdWho_emits
theorem cmdWhois_ppres : PPres cmdWhois := .of_emits fun _ _ _ _ => cmdWhois_emits
theorem cmdPrivmsg_ppres : PPres cmdPrivmsg := .of_emits fun _ _ _ _ => cmdPrivmsg_emits
theorem cmdServiceAlias_ppres : PPres cmdServiceAlias := .of_emits fun _ _ _ _ => cmdServiceAlias_emits

theorem cmdNames_pinv {c c' : Ctx} {sid : Id} {m : IrcMsg} (h : PInv c.st) (hr : cmdNames c sid m = .ok c') :
    PInv c'.st := h.of_emits (cmdNames_emits hr)

/-- brute-force walk through a handler whose leaves are output / `putChan` on top of a context `c`
with `h : PInv c.st`: `pinv_auto hr h` -/
macro "pinv_auto" hr:ident h:ident : tactic =>
  `(tactic| repeat' (first
      | split at $hr:ident
      | (obtain ⟨_, _, $hr:ident⟩ := Res.bind_eq_ok.1 $hr:ident)
      | dsimp only at $hr:ident
      | (cases $hr:ident <;> exact $h:ident)))

/-! ### AWAY / INVITE / TOPIC / MODE -/

theorem cmdAway_pinv {c c' : Ctx} {sid : Id} {m : IrcMsg} (h : PInv c.st) (hr : cmdAway c sid m = .ok c') :
    PInv c'.st := by
  unfold cmdAway at hr
  obtain ⟨c1, h1, hr⟩ := Res.bind_eq_ok.1 hr
  obtain ⟨s, hs, hr⟩ := Res.bind_eq_ok.1 hr
  have p1 : PInv c1.st := h.modS_keep h1 (fun _ => ⟨rfl, rfl, rfl, rfl, rfl⟩)
  split at hr <;> (cases hr; exact p1)

theorem cmdAway_ppres : PPres cmdAway := .of_plain cmdAway_pinv

theorem cmdInvite_pinv {c c' : Ctx} {sid : Id} {m : IrcMsg} (h : PInv c.st) (hr : cmdInvite c sid m = .ok c') :
    PInv c'.st := by
  unfold cmdInvite at hr
  obtain ⟨s, hs, hr⟩ := Res.bind_eq_ok.1 hr
  obtain ⟨nickname, _, hr⟩ := Res.bind_eq_ok.1 hr
  obtain ⟨channelname, _, hr⟩ := Res.bind_eq_ok.1 hr
  dsimp only at hr
  split at hr
  · cases hr; exact h
  split at hr
  · cases hr; exact h
  split at hr
  · cases hr; exact h
  obtain ⟨t, ht, hr⟩ := Res.bind_eq_ok.1 hr
  split at hr
  · cases hr; exact h
  split at hr
  · cases hr; exact h
  obtain ⟨c1, h1, hr⟩ := Res.bind_eq_ok.1 hr
  have p1 : PInv c1.st := h.modS_keep h1 (fun _ => ⟨rfl, rfl, rfl, rfl, rfl⟩)
  obtain ⟨rc, _, hr⟩ := Res.bind_eq_ok.1 hr
  split at hr <;> (cases hr; exact p1)

theorem cmdInvite_ppres : PPres cmdInvite := .of_plain cmdInvite_pinv

theorem cmdTopic_pinv {c c' : Ctx} {sid : Id} {m : IrcMsg} (h : PInv c.st) (hr : cmdTopic c sid m = .ok c') :
    PInv c'.st := by
  unfold cmdTopic at hr
  simp only [getChan_eq] at hr
  pinv_auto hr h

theorem cmdTopic_ppres : PPres cmdTopic := .of_plain cmdTopic_pinv

theorem applyChanMode_pinv {c c' : Ctx} {sid : Id} {s : Session} {lc chn : String} {op q q' ret : Bool}
    {mc : ModeCmd} (h : PInv c.st) (hr : applyChanMode c sid s lc chn op mc q = .ok (c', q', ret)) :
    PInv c'.st := by
  unfold applyChanMode at hr
  simp only [getChan_eq] at hr
  split at hr
  · rename_i ch hch
    split at hr
    · pinv_auto hr h
    · cases hr
      refine PInv.sendUser ?_ _ _
      exact PInv.foldl (fun c1 p h1 => h1.sendUser _ _) _ _ h
  · cases hr

theorem applyChanModes_pinv {sid : Id} {s : Session} {lc chn : String} {op : Bool} :
    ∀ (l : List ModeCmd) {c c' : Ctx} {q q' ret : Bool}, PInv c.st →
      applyChanModes c sid s lc chn op l q = .ok (c', q', ret) → PInv c'.st
  | [], c, c', q, q', ret, h, hr => by
    unfold applyChanModes at hr
    cases hr; exact h
  | mc :: rest, c, c', q, q', ret, h, hr => by
    unfold applyChanModes at hr
    obtain ⟨⟨c1, q1, r1⟩, h1, hr⟩ := Res.bind_eq_ok.1 hr
    have p1 := applyChanMode_pinv h h1
    dsimp only at hr
    split at hr
    · cases hr; exact p1
    · exact applyChanModes_pinv rest p1 hr

theorem cmdMode_pinv {c c' : Ctx} {sid : Id} {m : IrcMsg} (h : PInv c.st) (hr : cmdMode c sid m = .ok c') :
    PInv c'.st := by
  unfold cmdMode at hr
  simp only [getChan_eq, Res.panic_bind] at hr
  obtain ⟨s, hs, hr⟩ := Res.bind_eq_ok.1 hr
  obtain ⟨chn, _, hr⟩ := Res.bind_eq_ok.1 hr
  split at hr
  · -- channel modes
    split at hr
    · rename_i ch hch
      split at hr
      · cases hr; exact h
      · split at hr
        · rename_i mem hmem
          obtain ⟨⟨c1, q1, r1⟩, h1, hr⟩ := Res.bind_eq_ok.1 hr
          have p1 := applyChanModes_pinv _ h h1
          dsimp only at hr
          split at hr
          · cases hr; exact p1
          split at hr
          · cases hr; exact p1
          split at hr
          · cases hr; exact p1
          split at hr
          · obtain ⟨rc, _, hr⟩ := Res.bind_eq_ok.1 hr
            cases hr; exact p1
          · cases hr
        · cases hr
    · cases hr
  · -- user modes
    split at hr
    · obtain ⟨t, ht, hr⟩ := Res.bind_eq_ok.1 hr
      split at hr
      · cases hr; exact h
      · split at hr
        · cases hr; exact h
        · obtain ⟨c1, h1, hr⟩ := Res.bind_eq_ok.1 hr
          have p1 : PInv c1.st := h.modS_keep h1 (fun _ => ⟨rfl, rfl, rfl, rfl, rfl⟩)
          cases hr
          exact p1
    · cases hr; exact h

theorem cmdMode_ppres : PPres cmdMode := .of_plain cmdMode_pinv

/-! ### login, OPER, MOTD, USER, PASS -/

theorem cmdMotd_pinv {c c' : Ctx} {sid : Id} {m : IrcMsg} (h : PInv c.st) (hr : cmdMotd c sid m = .ok c') :
    PInv c'.st := by
  unfold cmdMotd at hr
  obtain ⟨s, _, hr⟩ := Res.bind_eq_ok.1 hr
  cases hr; exact h

theorem cmdMotd_ppres : PPres cmdMotd := .of_plain cmdMotd_pinv

theorem cmdOper_pinv {c c' : Ctx} {sid : Id} {m : IrcMsg} (h : PInv c.st) (hr : cmdOper c sid m = .ok c') :
    PInv c'.st := by
  unfold cmdOper at hr
  obtain ⟨s, hs, hr⟩ := Res.bind_eq_ok.1 hr
  obtain ⟨p0, hp0, hr⟩ := Res.bind_eq_ok.1 hr
  obtain ⟨p1, hp1, hr⟩ := Res.bind_eq_ok.1 hr
  split at hr
  · cases hr; exact h
  · obtain ⟨c1, h1, hr⟩ := Res.bind_eq_ok.1 hr
    obtain ⟨s1, hs1, hr⟩ := Res.bind_eq_ok.1 hr
    have n1 : PInv c1.st := h.modS_keep h1 (fun _ => ⟨rfl, rfl, rfl, rfl, rfl⟩)
    cases hr
    exact n1

theorem cmdOper_ppres : PPres cmdOper := .of_plain cmdOper_pinv

theorem loginOper_pinv {c c' : Ctx} {sid : Id} {s : Session} (h : PInv c.st) (hr : loginOper c sid s = .ok c') :
    PInv c'.st := by
  unfold loginOper at hr
  dsimp only at hr
  split at hr
  · split at hr
    · cases hr
    · split at hr
      · exact cmdOper_pinv h hr
      · cases hr; exact h
  · cases hr; exact h

theorem maybeLogin_pinv {c c' : Ctx} {sid : Id} {m : IrcMsg} (h : PInv c.st) (hr : maybeLogin c sid m = .ok c') :
    PInv c'.st := by
  rw [maybeLogin_eq] at hr
  obtain ⟨s, hs, hr⟩ := Res.bind_eq_ok.1 hr
  split at hr
  · cases hr; exact h
  · split at hr
    · cases hr; exact h
    · split at hr
      · cases hr
      · obtain ⟨c1, h1, hr⟩ := Res.bind_eq_ok.1 hr
        obtain ⟨c2, h2, hr⟩ := Res.bind_eq_ok.1 hr
        obtain ⟨c3, h3, hr⟩ := Res.bind_eq_ok.1 hr
        have n1 : PInv c1.st := h.modS_keep h1 (fun _ => ⟨rfl, rfl, rfl, rfl, rfl⟩)
        have n2 : PInv c2.st := loginOper_pinv (by rw [loginBanner_st]; exact n1) h2
        have n3 : PInv c3.st := n2.modS_keep h3 (fun _ => ⟨rfl, rfl, rfl, rfl, rfl⟩)
        exact cmdMotd_pinv n3 hr

theorem cmdUser_pinv {c c' : Ctx} {sid : Id} {m : IrcMsg} (h : PInv c.st) (hr : cmdUser c sid m = .ok c') :
    PInv c'.st := by
  unfold cmdUser at hr
  obtain ⟨u, hu, hr⟩ := Res.bind_eq_ok.1 hr
  obtain ⟨c1, h1, hr⟩ := Res.bind_eq_ok.1 hr
  exact maybeLogin_pinv (h.modS h1 (fun _ _ _ => PfxOK.update _)) hr

theorem cmdUser_ppres : PPres cmdUser := .of_plain cmdUser_pinv

theorem cmdPass_pinv {c c' : Ctx} {sid : Id} {m : IrcMsg} (h : PInv c.st) (hr : cmdPass c sid m = .ok c') :
    PInv c'.st := by
  unfold cmdPass at hr
  obtain ⟨c1, h1, hr⟩ := Res.bind_eq_ok.1 hr
  exact maybeLogin_pinv (h.modS_keep h1 (fun _ => ⟨rfl, rfl, rfl, rfl, rfl⟩)) hr

theorem cmdPass_ppres : PPres cmdPass := .of_plain cmdPass_pinv

/-! ### QUIT, PART, KICK, KILL, GLINE -/

theorem cmdQuit_pinv {c c' : Ctx} {sid : Id} {m : IrcMsg} (h : PInv c.st) (hr : cmdQuit c sid m = .ok c') :
    PInv c'.st := by
  unfold cmdQuit at hr
  obtain ⟨c1, h1, hr⟩ := Res.bind_eq_ok.1 hr
  have n1 := h.deleteSession h1
  obtain ⟨s1, hs1, hr⟩ := Res.bind_eq_ok.1 hr
  split at hr
  · obtain ⟨rc, hrc, hr⟩ := Res.bind_eq_ok.1 hr
    cases hr; exact n1
  · cases hr; exact n1

theorem cmdQuit_ppres : PPres cmdQuit := .of_plain cmdQuit_pinv

theorem partOne_pinv {c c' : Ctx} {sid : Id} {chn : String} (h : PInv c.st) (hr : partOne c sid chn = .ok c') :
    PInv c'.st := by
  unfold partOne at hr
  obtain ⟨s0, hs0, hr⟩ := Res.bind_eq_ok.1 hr
  simp only [getChan_eq] at hr
  split at hr
  · cases hr; exact h
  · split at hr
    · cases hr; exact h
    · obtain ⟨rc, hrc, hr⟩ := Res.bind_eq_ok.1 hr
      exact PInv.leaveChannel (c := emit _ _ _) h hr

theorem cmdPart_pinv {c c' : Ctx} {sid : Id} {m : IrcMsg} (h : PInv c.st) (hr : cmdPart c sid m = .ok c') :
    PInv c'.st := by
  unfold cmdPart at hr
  obtain ⟨p0, _, hr⟩ := Res.bind_eq_ok.1 hr
  exact PInv.foldlM (fun _ _ _ h hr => partOne_pinv h hr) _ h hr

theorem cmdPart_ppres : PPres cmdPart := .of_plain cmdPart_pinv

theorem cmdKick_pinv {c c' : Ctx} {sid : Id} {m : IrcMsg} (h : PInv c.st) (hr : cmdKick c sid m = .ok c') :
    PInv c'.st := by
  unfold cmdKick at hr
  obtain ⟨s, hs, hr⟩ := Res.bind_eq_ok.1 hr
  obtain ⟨chn, _, hr⟩ := Res.bind_eq_ok.1 hr
  obtain ⟨target, _, hr⟩ := Res.bind_eq_ok.1 hr
  simp only [getChan_eq] at hr
  split at hr
  · cases hr; exact h
  · split at hr
    · cases hr; exact h
    · split at hr
      · cases hr; exact h
      · split at hr
        · cases hr; exact h
        · split at hr
          · obtain ⟨rc, hrc, hr⟩ := Res.bind_eq_ok.1 hr
            exact PInv.leaveChannel (c := emit _ _ _) h hr
          · cases hr

theorem cmdKick_ppres : PPres cmdKick := .of_plain cmdKick_pinv

theorem cmdKill_pinv {c c' : Ctx} {sid : Id} {m : IrcMsg} (h : PInv c.st) (hr : cmdKill c sid m = .ok c') :
    PInv c'.st := by
  unfold cmdKill at hr
  obtain ⟨s, hs, hr⟩ := Res.bind_eq_ok.1 hr
  split at hr
  · cases hr; exact h
  · obtain ⟨p0, _, hr⟩ := Res.bind_eq_ok.1 hr
    split at hr
    · cases hr; exact h
    · obtain ⟨c1, h1, hr⟩ := Res.bind_eq_ok.1 hr
      have n1 := h.deleteSession h1
      obtain ⟨t1, _, hr⟩ := Res.bind_eq_ok.1 hr
      obtain ⟨s2, _, hr⟩ := Res.bind_eq_ok.1 hr
      obtain ⟨rc, _, hr⟩ := Res.bind_eq_ok.1 hr
      cases hr
      exact n1

theorem cmdKill_ppres : PPres cmdKill := .of_plain cmdKill_pinv

theorem cmdGline_pinv {c c' : Ctx} {sid : Id} {m : IrcMsg} (h : PInv c.st) (hr : cmdGline c sid m = .ok c') :
    PInv c'.st := by
  unfold cmdGline at hr
  obtain ⟨s, hs, hr⟩ := Res.bind_eq_ok.1 hr
  split at hr
  · cases hr; exact h
  · obtain ⟨p0, _, hr⟩ := Res.bind_eq_ok.1 hr
    split at hr
    · cases hr; exact h
    · obtain ⟨t, _, hr⟩ := Res.bind_eq_ok.1 hr
      split at hr
      · cases hr; exact h
      · dsimp only at hr
        refine cmdKill_pinv ?_ hr
        exact h.congr rfl

theorem cmdGline_ppres : PPres cmdGline := .of_plain cmdGline_pinv

/-! ### NICK -/

/-- after a `modS` on `tid` with an `id`-keeping function the session stored under `tid` still
carries `id = tid` -/
theorem modS_selfId {c c' : Ctx} {tid : Id} {f : Session → Session}
    (hid : ∀ s, AMap.get c.st.sessions tid = some s → s.id = tid) (hf : ∀ s, (f s).id = s.id)
    (hr : modS c tid f = .ok c') : ∀ s, AMap.get c'.st.sessions tid = some s → s.id = tid := by
  obtain ⟨s0, hs0, rfl⟩ := modS_eq_ok.1 hr
  intro s hg
  have e : (f s0).id = tid := by rw [hf, hid s0 hs0]
  rw [putS_sessions, e, AMap.get_set_same] at hg
  cases hg
  exact e

theorem cmdNickTail_pinv {c c' : Ctx} {sid : Id} {m : IrcMsg} {s : Session} {nick : String} {held : Option SvsHold}
    (hid : ∀ s, AMap.get c.st.sessions sid = some s → s.id = sid) (h : PInv c.st)
    (hr : cmdNickTail c sid m s nick held = .ok c') : PInv c'.st := by
  unfold cmdNickTail at hr
  dsimp only at hr
  obtain ⟨hs0, _, _⟩ := holdCtx_facts c (nickToLower nick) held
  have n0 : PInv (holdCtx c (nickToLower nick) held).st := h.congr hs0
  have hid0 : ∀ s, AMap.get (holdCtx c (nickToLower nick) held).st.sessions sid = some s → s.id = sid := by
    rw [hs0]; exact hid
  generalize holdCtx c (nickToLower nick) held = c0 at hr n0 hid0
  split at hr
  · cases hr; exact n0
  generalize (nickToLower s.nick != "" &&
      !(s.loggedIn && nickToLower nick == nickToLower (if s.loggedIn = true then s.nick else "*"))) = b at hr
  obtain ⟨c1, hm1, hr⟩ := Res.bind_eq_ok.1 hr
  obtain ⟨c2, hm2, hr⟩ := Res.bind_eq_ok.1 hr
  have b1 : PInvBut c1.st sid := by
    refine PInvBut.modS_but (n0.but sid) ?_ hm1
    intro s hs; exact hid0 s hs
  have hid1 : ∀ s, AMap.get c1.st.sessions sid = some s → s.id = sid := by
    refine modS_selfId hid0 ?_ hm1
    intro s; rfl
  have hss := renameCtx_sessions c1 sid (nickToLower nick) (nickToLower s.nick) b
  have br : PInvBut (renameCtx c1 sid (nickToLower nick) (nickToLower s.nick) b).st sid := b1.congr hss
  have n2 : PInv c2.st := by
    refine PInvBut.modS_fix br ?_ hm2 (fun s => PfxOK.update s)
    intro s hs
    rw [hss] at hs
    exact hid1 s hs
  split at hr
  · obtain ⟨s2, _, hr⟩ := Res.bind_eq_ok.1 hr
    obtain ⟨rc, _, hr⟩ := Res.bind_eq_ok.1 hr
    cases hr
    exact n2
  · exact maybeLogin_pinv n2 hr

theorem cmdNick_pinv {c c' : Ctx} {sid : Id} {m : IrcMsg}
    (hid : ∀ s, AMap.get c.st.sessions sid = some s → s.id = sid) (h : PInv c.st)
    (hr : cmdNick c sid m = .ok c') : PInv c'.st := by
  rw [cmdNick_eq] at hr
  obtain ⟨s, hs, hr⟩ := Res.bind_eq_ok.1 hr
  dsimp only at hr
  generalize m.params.head?.getD "" = nick at hr
  split at hr
  · cases hr; exact h
  generalize (if s.loggedIn = true then s.nick else "*") = dest at hr
  split at hr
  · cases hr; exact h
  split at hr
  · cases hr; exact h
  split at hr
  · split at hr
    · cases hr; exact h
    · exact cmdNickTail_pinv hid h hr
  · exact cmdNickTail_pinv hid h hr

theorem cmdNick_ppres : PPres cmdNick :=
  fun _ sid _ _ hpre _ hp hr => cmdNick_pinv (fun s hs => (hpre.inv.sessId sid s hs).1) hp hr

/-! ### JOIN -/

theorem joinAdmit_pinv {c c1 : Ctx} {sid : Id} {s : Session} {chn key : String} {mm : Option (Option IrcMsg)}
    (h : PInv c.st) (hr : joinAdmit c sid s chn key = .ok (c1, mm)) : PInv c1.st := by
  unfold joinAdmit at hr
  dsimp only at hr
  obtain ⟨r, h1, hr⟩ := Res.bind_eq_ok.1 hr
  have hr1 : PInv r.1.st := by
    simp only [getChan_eq] at h1
    pinv_auto h1 h
  split at hr <;> (cases hr; exact hr1)

theorem joinAnnounce_pinv {c c' : Ctx} {sid : Id} {chn : String} {ch : Channel} {ex : Bool}
    {mm : Option IrcMsg} (h : PInv c.st) (hr : joinAnnounce c sid chn ch ex mm = .ok c') : PInv c'.st := by
  unfold joinAnnounce at hr
  obtain ⟨s1, hs1, hr⟩ := Res.bind_eq_ok.1 hr
  obtain ⟨rc, hrc, hr⟩ := Res.bind_eq_ok.1 hr
  dsimp only at hr
  obtain ⟨c1, h1, hr⟩ := Res.bind_eq_ok.1 hr
  obtain ⟨e1, _⟩ := joinModes_spec h1
  obtain ⟨c2, h2, hr⟩ := Res.bind_eq_ok.1 hr
  obtain ⟨c3, h3, hr⟩ := Res.bind_eq_ok.1 hr
  have e1' : c1.st = c.st := e1
  have n1 : PInv (emit c1 (srv c1 "SJOIN" ["1", chn, (if (!ex) = true then "@" else "") ++ s1.nick])
      (rcServices c1.st)).st := by rw [emit_st, e1']; exact h
  exact cmdNames_pinv (cmdTopic_pinv (cmdMode_pinv n1 h2) h3) hr

theorem joinTail_pinv {c c' : Ctx} {sid : Id} {s : Session} {chn : String} {ex : Bool} {mm : Option IrcMsg}
    (h : PInv c.st) (hr : joinTail c sid s chn ex mm = .ok c') : PInv c'.st := by
  unfold joinTail at hr
  dsimp only at hr
  simp only [getChan_eq] at hr
  split at hr
  · rename_i ch hch
    obtain ⟨c2, h2, hr⟩ := Res.bind_eq_ok.1 hr
    have n2 : PInv c2.st := by
      split at h2
      · exact h.modS_keep h2 (fun _ => ⟨rfl, rfl, rfl, rfl, rfl⟩)
      · cases h2; exact h
    split at hr
    · cases hr; exact n2
    · obtain ⟨c3, h3, hr⟩ := Res.bind_eq_ok.1 hr
      have n3 : PInv c3.st := PInv.modS_keep (c := putChan c2 _ _) (n2.putChan _ _) h3
        (fun _ => ⟨rfl, rfl, rfl, rfl, rfl⟩)
      exact joinAnnounce_pinv n3 hr
  · cases hr

theorem joinOne_pinv {c c' : Ctx} {sid : Id} {chn key : String} (h : PInv c.st)
    (hr : joinOne c sid chn key = .ok c') : PInv c'.st := by
  rw [joinOne_eq] at hr
  obtain ⟨s0, hs0, hr⟩ := Res.bind_eq_ok.1 hr
  split at hr
  · cases hr; exact h
  · obtain ⟨r, hadm, hr⟩ := Res.bind_eq_ok.1 hr
    obtain ⟨c1, mm⟩ := r
    have n1 := joinAdmit_pinv h hadm
    cases mm with
    | none => cases hr; exact n1
    | some mm =>
      dsimp only at hr
      exact joinTail_pinv n1 hr

theorem joinLoop_pinv {keys chans : List String} {idx : Nat} {c c' : Ctx} {sid : Id} (h : PInv c.st)
    (hr : joinLoop c sid keys chans idx = .ok c') : PInv c'.st := by
  induction chans generalizing c idx with
  | nil => cases hr; exact h
  | cons ch rest ih =>
    unfold joinLoop at hr
    obtain ⟨c1, h1, hr⟩ := Res.bind_eq_ok.1 hr
    exact ih (joinOne_pinv h h1) hr

theorem cmdJoin_pinv {c c' : Ctx} {sid : Id} {m : IrcMsg} (h : PInv c.st) (hr : cmdJoin c sid m = .ok c') :
    PInv c'.st := by
  unfold cmdJoin at hr
  obtain ⟨p0, _, hr⟩ := Res.bind_eq_ok.1 hr
  exact joinLoop_pinv h hr

theorem cmdJoin_ppres : PPres cmdJoin := .of_plain cmdJoin_pinv

end Robust.Irc
