import Robust.Irc.Proofs.CmdClientB
import Robust.Irc.Proofs.FrameNick
/-!
C15, "has a command": NICK and JOIN (via the factorings `cmdNick_eq` / `joinOne_eq` of `H1c` / `H1d`).
-/
namespace Robust.Irc
open Robust AMap

/-! ### NICK -/

theorem cmdNickTail_kstep {c0 c c' : Ctx} {sid : Id} {m : IrcMsg} {s : Session} {nick : String}
    {held : Option SvsHold} (hc : KStep c0 c) (ks : KSess s) (hv : isValidNickname nick = true)
    (hr : cmdNickTail c sid m s nick held = .ok c') : KStep c0 c' := by
  unfold cmdNickTail at hr
  dsimp only at hr
  obtain ⟨hs0, _, _⟩ := holdCtx_facts c (nickToLower nick) held
  have n0 : KStep c0 (holdCtx c (nickToLower nick) held) := by
    cases held with
    | none => exact hc
    | some _ => exact hc.same rfl rfl rfl
  generalize holdCtx c (nickToLower nick) held = cx at hr n0
  split at hr
  · cases hr; exact n0
  generalize (nickToLower s.nick != "" &&
      !(s.loggedIn && nickToLower nick == nickToLower (if s.loggedIn = true then s.nick else "*"))) = b at hr
  obtain ⟨c1, hm1, hr⟩ := Res.bind_eq_ok.1 hr
  obtain ⟨c2, hm2, hr⟩ := Res.bind_eq_ok.1 hr
  have n1 : KStep c0 c1 := n0.modS hm1 (fun _ hs => hs.setNick hv)
  have hss := renameCtx_sessions c1 sid (nickToLower nick) (nickToLower s.nick) b
  have nr : KStep c0 (renameCtx c1 sid (nickToLower nick) (nickToLower s.nick) b) := by
    refine n1.same hss ?_ ?_
    · unfold renameCtx; cases b <;> rfl
    · unfold renameCtx; cases b <;> rfl
  have n2 : KStep c0 c2 := nr.modS hm2 (fun _ hs => hs.update)
  have hI2 := n2.inv
  split at hr
  · obtain ⟨s2, _, hr⟩ := Res.bind_eq_ok.1 hr
    obtain ⟨rc, _, hr⟩ := Res.bind_eq_ok.1 hr
    cases hr
    kstep_tac
  · exact maybeLogin_kstep n2 hr

theorem cmdNick_kstep {c0 c c' : Ctx} {sid : Id} {m : IrcMsg} (hc : KStep c0 c)
    (hr : cmdNick c sid m = .ok c') : KStep c0 c' := by
  have hI := hc.inv
  rw [cmdNick_eq] at hr
  obtain ⟨s, hs, hr⟩ := Res.bind_eq_ok.1 hr
  have ks := hc.getS hs
  dsimp only at hr
  generalize m.params.head?.getD "" = nick at hr
  split at hr
  · cases hr; kstep_tac
  generalize (if s.loggedIn = true then s.nick else "*") = dest at hr
  split at hr
  · cases hr; kstep_tac
  rename_i hv
  have hv' : isValidNickname nick = true := by simpa using hv
  split at hr
  · cases hr; kstep_tac
  split at hr
  · split at hr
    · cases hr; kstep_tac
    · exact cmdNickTail_kstep hc ks hv' hr
  · exact cmdNickTail_kstep hc ks hv' hr

/-! ### JOIN -/

/-- an optional announcement has a command -/
def HCOpt (o : Option IrcMsg) : Prop := ∀ x, o = some x → HasCommand x.render

theorem HCOpt.none : HCOpt none := fun _ h => nomatch h
theorem HCOpt.some {x : IrcMsg} (h : HasCommand x.render) : HCOpt (some x) := fun _ hx => by cases hx; exact h

theorem joinAdmit_kstep {c0 c c1 : Ctx} {sid : Id} {s : Session} {chn key : String} {mm : Option (Option IrcMsg)}
    (hc : KStep c0 c) (hr : joinAdmit c sid s chn key = .ok (c1, mm)) :
    KStep c0 c1 ∧ ∀ o, mm = some o → HCOpt o := by
  have hI := hc.inv
  unfold joinAdmit at hr
  dsimp only at hr
  obtain ⟨r, h1, hr⟩ := Res.bind_eq_ok.1 hr
  have hr1 : KStep c0 r.1 ∧ HCOpt r.2.1 := by
    simp only [getChan_eq] at h1
    split at h1
    · split at h1
      · cases h1; exact ⟨by kstep_tac, HCOpt.none⟩
      · cases h1; exact ⟨by kstep_tac, HCOpt.some (by hc_msg)⟩
    · rename_i ch hch
      split at h1
      · cases h1; exact ⟨by kstep_tac, HCOpt.none⟩
      · split at h1
        · cases h1
        · obtain ⟨isB, _, h1⟩ := Res.bind_eq_ok.1 h1
          split at h1
          · cases h1; exact ⟨by kstep_tac, HCOpt.none⟩
          · split at h1
            · cases h1; exact ⟨by kstep_tac, HCOpt.none⟩
            · cases h1; exact ⟨hc, HCOpt.none⟩
  split at hr
  · cases hr; exact ⟨hr1.1, fun _ h => nomatch h⟩
  · cases hr; exact ⟨hr1.1, fun o ho => by cases ho; exact hr1.2⟩

theorem joinAnnounce_kstep {c0 c c' : Ctx} {sid : Id} {chn : String} {ch : Channel} {ex : Bool}
    {mm : Option IrcMsg} (hc : KStep c0 c) (hmm : HCOpt mm)
    (hr : joinAnnounce c sid chn ch ex mm = .ok c') : KStep c0 c' := by
  have hI := hc.inv
  unfold joinAnnounce at hr
  obtain ⟨s1, hs1, hr⟩ := Res.bind_eq_ok.1 hr
  obtain ⟨rc, hrc, hr⟩ := Res.bind_eq_ok.1 hr
  dsimp only at hr
  obtain ⟨c1, h1, hr⟩ := Res.bind_eq_ok.1 hr
  obtain ⟨c2, h2, hr⟩ := Res.bind_eq_ok.1 hr
  obtain ⟨c3, h3, hr⟩ := Res.bind_eq_ok.1 hr
  have n1 : KStep c0 c1 := by
    cases mm with
    | some x =>
      dsimp only at h1
      obtain ⟨rc2, _, h1⟩ := Res.bind_eq_ok.1 h1
      have hx := hmm x rfl
      cases h1; kstep_tac
    | none => cases h1; kstep_tac
  have hI1 := n1.inv
  refine cmdNames_kstep (cmdTopic_kstep (cmdMode_kstep ?_ h2) h3) hr
  kstep_tac

theorem joinTail_kstep {c0 c c' : Ctx} {sid : Id} {s : Session} {chn : String} {ex : Bool} {mm : Option IrcMsg}
    (hc : KStep c0 c) (hmm : HCOpt mm)
    (hr : joinTail c sid s chn ex mm = .ok c') : KStep c0 c' := by
  have hI := hc.inv
  unfold joinTail at hr
  dsimp only at hr
  simp only [getChan_eq] at hr
  split at hr
  · rename_i ch hch
    obtain ⟨c2, h2, hr⟩ := Res.bind_eq_ok.1 hr
    have n2 : KStep c0 c2 := by
      split at h2
      · exact hc.modS_keep h2 (fun _ => ⟨rfl, rfl, rfl, rfl, rfl⟩)
      · cases h2; exact hc
    split at hr
    · cases hr; exact n2
    · obtain ⟨c3, h3, hr⟩ := Res.bind_eq_ok.1 hr
      have n3 : KStep c0 c3 := KStep.modS_keep (n2.putChan) h3 (fun _ => ⟨rfl, rfl, rfl, rfl, rfl⟩)
      exact joinAnnounce_kstep n3 hmm hr
  · cases hr

theorem joinOne_kstep {c0 c c' : Ctx} {sid : Id} {chn key : String} (hc : KStep c0 c)
    (hr : joinOne c sid chn key = .ok c') : KStep c0 c' := by
  have hI := hc.inv
  rw [joinOne_eq] at hr
  obtain ⟨s0, hs0, hr⟩ := Res.bind_eq_ok.1 hr
  split at hr
  · cases hr; kstep_tac
  · obtain ⟨r, hadm, hr⟩ := Res.bind_eq_ok.1 hr
    obtain ⟨c1, mm⟩ := r
    obtain ⟨n1, hmm⟩ := joinAdmit_kstep hc hadm
    cases mm with
    | none => cases hr; exact n1
    | some mm =>
      dsimp only at hr
      exact joinTail_kstep n1 (hmm mm rfl) hr

theorem joinLoop_kstep {c0 : Ctx} {keys chans : List String} {idx : Nat} {c c' : Ctx} {sid : Id} (hc : KStep c0 c)
    (hr : joinLoop c sid keys chans idx = .ok c') : KStep c0 c' := by
  induction chans generalizing c idx with
  | nil => cases hr; exact hc
  | cons ch rest ih =>
    unfold joinLoop at hr
    obtain ⟨c1, h1, hr⟩ := Res.bind_eq_ok.1 hr
    exact ih (joinOne_kstep hc h1) hr

theorem cmdJoin_kstep {c0 c c' : Ctx} {sid : Id} {m : IrcMsg} (hc : KStep c0 c)
    (hr : cmdJoin c sid m = .ok c') : KStep c0 c' := by
  unfold cmdJoin at hr
  obtain ⟨p0, hp0, hr⟩ := Res.bind_eq_ok.1 hr
  exact joinLoop_kstep hc hr

end Robust.Irc
