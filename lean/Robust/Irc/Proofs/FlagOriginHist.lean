import Robust.Irc.Proofs.FlagOriginEntry
/-!
History-level origin of the privilege flags: a session that is an IRC operator (a services link)
after a history was one before it under the same id, or the history contains a client line of that
session with one of the origins of `FlagOriginEntry.lean`, evaluated on the state (stored session,
configuration) reached just before that line.

Only `SessWf st` (sessions stored under their own id, no duplicate keys; a conjunct of `GInv`) is
needed of the start state, and nothing of the entries.
-/
namespace Robust.Irc
open Robust AMap

theorem runEntries_cons_ok {st st1 mid : St} {e : Entry} {out : List Out} {pre : List Entry}
    (hap : applyEntry st e = .ok (st1, out)) (hr : runEntries st1 pre = .ok mid) :
    runEntries st (e :: pre) = .ok mid := by
  unfold runEntries
  rw [hap]
  exact hr

/-- the history splits at a client line of `sid` that has an operator origin on the state `mid`
reached before it -/
def OperHist (st : St) (es : List Entry) (sid : Id) : Prop :=
  ∃ pre e post mid, es = pre ++ e :: post ∧ runEntries st pre = .ok mid ∧ OperEntry mid e sid

/-- the same for the `server` flag -/
def ServerHist (st : St) (es : List Entry) (sid : Id) : Prop :=
  ∃ pre e post mid, es = pre ++ e :: post ∧ runEntries st pre = .ok mid ∧ ServerEntry mid e sid

theorem OperHist.cons {st st1 : St} {e : Entry} {out : List Out} {es : List Entry} {sid : Id}
    (hap : applyEntry st e = .ok (st1, out)) (h : OperHist st1 es sid) : OperHist st (e :: es) sid := by
  obtain ⟨pre, e', post, mid, hes, hrun, ho⟩ := h
  exact ⟨e :: pre, e', post, mid, by rw [hes]; rfl, runEntries_cons_ok hap hrun, ho⟩

theorem ServerHist.cons {st st1 : St} {e : Entry} {out : List Out} {es : List Entry} {sid : Id}
    (hap : applyEntry st e = .ok (st1, out)) (h : ServerHist st1 es sid) : ServerHist st (e :: es) sid := by
  obtain ⟨pre, e', post, mid, hes, hrun, ho⟩ := h
  exact ⟨e :: pre, e', post, mid, by rw [hes]; rfl, runEntries_cons_ok hap hrun, ho⟩

theorem run_flag_sessWf {st st' : St} {es : List Entry} (hw : SessWf st)
    (hr : runEntries st es = .ok st') : SessWf st' := by
  induction es generalizing st with
  | nil => cases hr; exact hw
  | cons e es ih =>
    unfold runEntries at hr
    split at hr
    · rename_i st1 out hap
      exact ih (applyEntry_flags hw hap).wf hr
    · cases hr
    · cases hr

theorem run_oper_origin {st st' : St} {es : List Entry} (hw : SessWf st) (hr : runEntries st es = .ok st')
    {sid : Id} {s' : Session} (hs' : AMap.get st'.sessions sid = some s') (hop : s'.operator = true) :
    (∃ s, AMap.get st.sessions sid = some s ∧ s.operator = true) ∨ OperHist st es sid := by
  induction es generalizing st with
  | nil => cases hr; exact Or.inl ⟨s', hs', hop⟩
  | cons e es ih =>
    unfold runEntries at hr
    split at hr
    · rename_i st1 out hap
      have step := applyEntry_flags hw hap
      rcases ih step.wf hr with ⟨s1, hs1, ho1⟩ | hh
      · rcases step.oper sid s1 hs1 ho1 with h0 | he
        · exact Or.inl h0
        · exact Or.inr ⟨[], e, es, st, rfl, rfl, he⟩
      · exact Or.inr (hh.cons hap)
    · cases hr
    · cases hr

theorem run_server_origin {st st' : St} {es : List Entry} (hw : SessWf st) (hr : runEntries st es = .ok st')
    {sid : Id} {s' : Session} (hs' : AMap.get st'.sessions sid = some s') (hsv : s'.server = true) :
    (∃ s, AMap.get st.sessions sid = some s ∧ s.server = true) ∨ ServerHist st es sid := by
  induction es generalizing st with
  | nil => cases hr; exact Or.inl ⟨s', hs', hsv⟩
  | cons e es ih =>
    unfold runEntries at hr
    split at hr
    · rename_i st1 out hap
      have step := applyEntry_flags hw hap
      rcases ih step.wf hr with ⟨s1, hs1, ho1⟩ | hh
      · rcases step.server sid s1 hs1 ho1 with h0 | he
        · exact Or.inl h0
        · exact Or.inr ⟨[], e, es, st, rfl, rfl, he⟩
      · exact Or.inr (hh.cons hap)
    · cases hr
    · cases hr

theorem SessWf_init : SessWf ({} : St) :=
  ⟨fun _ _ h => (by cases h), List.nodup_nil⟩

/-- from the initial state: every operator flag is backed by an accepted line of that session -/
theorem run_oper_reachable {st' : St} {es : List Entry} (hr : runEntries {} es = .ok st')
    {sid : Id} {s' : Session} (hs' : AMap.get st'.sessions sid = some s') (hop : s'.operator = true) :
    OperHist {} es sid := by
  rcases run_oper_origin SessWf_init hr hs' hop with ⟨s, hs, _⟩ | h
  · cases hs
  · exact h

theorem run_server_reachable {st' : St} {es : List Entry} (hr : runEntries {} es = .ok st')
    {sid : Id} {s' : Session} (hs' : AMap.get st'.sessions sid = some s') (hsv : s'.server = true) :
    ServerHist {} es sid := by
  rcases run_server_origin SessWf_init hr hs' hsv with ⟨s, hs, _⟩ | h
  · cases hs
  · exact h

end Robust.Irc
