import Robust.Irc.Proofs.RcptMem
import Robust.Irc.Proofs.RcptPfxEntry
/-!
C12, part 2a continued: PRIVMSG/NOTICE in a state between entries — delivery (the line *is* sent to
every other member), the `Lists` form of the recipient set, and the sender's identity.
-/
namespace Robust.Irc
open Robust AMap

/-- a registered client session carries the prefix derived from its current nick, user name and id -/
theorem PInv.prefix_eq {st : St} (hp : PInv st) (hl : LInv st) {sid : Id} {s : Session}
    (hs : AMap.get st.sessions sid = some s) (hsrv : s.server = false) (hli : s.loggedIn = true) :
    s.ircPrefix = sessPrefix s := by
  rcases hp sid s hs hsrv with h | ⟨h, _, _⟩
  · exact h
  · exact absurd h (hl sid s hs hli)

theorem sessPrefix_stored {st : St} (hi : WInvCore st) {sid : Id} {s : Session}
    (hs : AMap.get st.sessions sid = some s) :
    sessPrefix s = ⟨s.nick, s.username, "robust/0x" ++ hexNat sid.id⟩ := by
  unfold sessPrefix
  rw [(hi.sessId sid s hs).1]

theorem param_ok_of {m : IrcMsg} {i : Nat} {p : String} (h : m.params[i]? = some p) : param m i = Res.ok p := by
  unfold param
  rw [h]

/-- **delivery**: a PRIVMSG/NOTICE with text to an existing channel, by a sender that is a member or when
the channel is not `+n`, produces exactly one line: the message under the sender's stored prefix, to exactly
the sessions on the channel other than the sender -/
theorem cmdPrivmsg_chan_delivers {c : Ctx} {sid : Id} {m : IrcMsg} {s : Session} {p0 : String} {ch : Channel}
    (hw : WInv c.st) (hs : AMap.get c.st.sessions sid = some s)
    (hp : m.params[0]? = some p0) (hlen : 2 ≤ m.params.length) (hh : hasPrefix p0 "#" = true)
    (hc : AMap.get c.st.channels (chanToLower p0) = some ch)
    (hmay : AMap.contains ch.nicks (nickToLower s.nick) = true ∨ ch.modes.contains 'n' = false) :
    ∃ rc, cmdPrivmsg c sid m = .ok (emit c ⟨some s.ircPrefix, m.command, [p0, m.trailing]⟩ rc) ∧
      ∀ n, n ∈ rc ↔ ∃ id, OnChan c.st (chanToLower p0) id ∧ id ≠ sid ∧ id.id = n := by
  obtain ⟨rc, hrc, hmem⟩ := rcChannelButOne_spec hw hc sid
  refine ⟨rc, ?_, hmem⟩
  unfold cmdPrivmsg
  rw [getS_of_get hs]
  simp only [Res.ok_bind]
  rw [if_neg (by omega), if_neg (by omega), param_ok_of hp]
  simp only [Res.ok_bind, getChan_eq]
  rw [if_pos hh, hc]
  simp only
  have hn : ¬ ((!AMap.contains ch.nicks (nickToLower s.nick) && ch.modes.contains 'n') = true) := by
    intro hx
    simp only [Bool.and_eq_true, Bool.not_eq_true'] at hx
    rcases hmay with h | h
    · rw [hx.1] at h; cases h
    · rw [hx.2] at h; cases h
  rw [if_neg hn, hrc]
  rfl

/-- the `Lists` form of `PrivmsgLine.chan`'s recipient set, in a state between entries -/
theorem privmsg_chan_rcptIs {st : St} (hi : Inv st) (hn : NI st) {lc : String} {sid : Id} {o : Out}
    (hr : ∀ n, n ∈ o.rcpt ↔ ∃ id, OnChan st lc id ∧ id ≠ sid ∧ id.id = n) :
    RcptIs o (fun id => Lists st lc id ∧ id ≠ sid) [] := by
  intro n
  rw [hr n]
  simp only [List.not_mem_nil, or_false]
  constructor
  · rintro ⟨id, ho, hne, he⟩; exact ⟨id, ⟨(onChan_iff_lists' hi hn).1 ho, hne⟩, he⟩
  · rintro ⟨id, ⟨ho, hne⟩, he⟩; exact ⟨id, (onChan_iff_lists' hi hn).2 ho, hne, he⟩

end Robust.Irc
