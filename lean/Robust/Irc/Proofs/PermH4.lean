import Robust.Irc.Proofs.PermH2
set_option linter.unusedVariables false
namespace Robust.Irc
open Robust
attribute [local irreducible] IrcMsg.render emit sendUser sendSvc
/-!
Order-independence, handlers 4: `cmdPrivmsg`, `cmdServiceAlias`, `cmdAway`, `cmdIson`, `cmdList`, `cmdPing`,
`cmdUserhost`, `cmdWho`, `cmdWhois`.
-/

theorem cmdPing_congr : HCongr cmdPing := by
  intro c c' sid m h
  unfold cmdPing
  refine RRel.bind (getS_congr h sid) (fun s s' hs => ?_)
  simp only [hs.nick]
  split <;> ceqs

theorem cmdAway_congr : HCongr cmdAway := by
  intro c c' sid m h
  unfold cmdAway
  refine RRel.bind (modS_congr_upd h sid _ (fun _ => rfl) (fun _ => rfl) (fun _ => rfl)) (fun c1 c1' h1 => ?_)
  refine RRel.bind (getS_congr h1 sid) (fun s s' hs => ?_)
  simp only [hs.nick, hs.awayMsg]
  split <;> ceqs

theorem cmdPrivmsg_congr : HCongr cmdPrivmsg := by
  intro c c' sid m h
  unfold cmdPrivmsg
  refine RRel.bind (getS_congr h sid) (fun s s' hs => ?_)
  simp only [hs.nick, hs.ircPrefix, hs.operator, h.st.get_nicks]
  split
  · ceqs
  split
  · ceqs
  refine RRel.bind_same (fun p0 => ?_)
  split
  · rcases getChan_cases h (chanToLower p0) with ⟨h1, h2⟩ | ⟨ch, ch', h1, h2, hch, hk⟩
    · simp only [h1, h2]; ceqs
    · simp only [h1, h2, hch.contains_nicks, hch.modes, hch.name]
      split
      · ceqs
      · refine RRel.bind (rcChannelButOne_congr h.st hch sid) (fun rc rc' hrc => ?_)
        ceqs
  · split
    · split
      · ceqs
      · ceqs
    · split
      · ceqs
      · rename_i tid _
        refine RRel.bind (getS_congr h tid) (fun t t' ht => ?_)
        have hcc : (fun ch => s'.channels.contains ch) = (fun ch => s.channels.contains ch) := funext hs.chanContains
        simp -zeta only [ht.modes, ht.awayMsg, hcc, any_eq_of_perm ht.channels]
        split
        · ceqs
        · split <;> ceqs

theorem cmdServiceAlias_congr : HCongr cmdServiceAlias := by
  intro c c' sid m h
  unfold cmdServiceAlias
  split
  · exact .ok h
  · split
    · exact .panic
    · exact cmdPrivmsg_congr _ _ _ _ h

theorem cmdIson_congr : HCongr cmdIson := by
  intro c c' sid m h
  unfold cmdIson
  refine RRel.bind (getS_congr h sid) (fun s s' hs => ?_)
  simp only [hs.nick, h.st.get_nicks]
  refine RRel.bind (R := fun a b => a = b) ?_ (fun on on' hon => ?_)
  · refine mapRes_eq_same _ (fun n _ => ?_)
    split
    · rename_i tid _
      refine RRel.bind (getS_congr h tid) (fun t t' ht => ?_)
      rw [ht.nick]
      exact .ok rfl
    · exact .ok rfl
  · subst hon
    ceqs

theorem cmdUserhost_congr : HCongr cmdUserhost := by
  intro c c' sid m h
  unfold cmdUserhost
  refine RRel.bind (getS_congr h sid) (fun s s' hs => ?_)
  simp only [hs.nick, h.st.get_nicks]
  refine RRel.bind (R := fun a b => a = b) ?_ (fun on on' hon => ?_)
  · refine mapRes_eq_same _ (fun n _ => ?_)
    split
    · rename_i tid _
      refine RRel.bind (getS_congr h tid) (fun t t' ht => ?_)
      rw [ht.nick, ht.operator, ht.awayMsg, ht.ircPrefix]
      exact .ok rfl
    · exact .ok rfl
  · subst hon
    ceqs

theorem cmdList_congr : HCongr cmdList := by
  intro c c' sid m h
  unfold cmdList
  refine RRel.bind (getS_congr h sid) (fun s s' hs => ?_)
  have hf : (fun lc => (getChan c' lc).isSome) = (fun lc => (getChan c lc).isSome) :=
    funext (fun lc => ((getChan_congr h lc).isSome_eq).symm)
  simp -zeta only [hs.nick, hs.operator, hs.chanContains, hf, ← sortStr_eq_of_perm h.st.channels.keys_perm]
  extract_lets filter channels c1 c1'
  have h1 : CEq c1 c1' := by
    refine foldl_rel_same (E := CEq) channels (fun d d' lc _ hd => ?_) h
    rcases getChan_cases hd lc with ⟨h1, h2⟩ | ⟨ch, ch', h1, h2, hch, hk⟩
    · simp only [h1, h2]; exact hd
    · simp only [h1, h2, hch.modes, hch.name, hch.length_nicks, hch.topic]
      split
      · exact hd
      · ceqs
  clear_value c1 c1'
  ceqs

theorem cmdWho_congr : HCongr cmdWho := by
  intro c c' sid m h
  unfold cmdWho
  refine RRel.bind (getS_congr h sid) (fun s s' hs => ?_)
  simp only [hs.nick, hs.chanContains, h.st.get_nicks]
  split
  · ceqs
  · rename_i channelname _
    rcases getChan_cases h (chanToLower channelname) with ⟨h1, h2⟩ | ⟨ch, ch', h1, h2, hch, hk⟩
    · simp only [h1, h2]; ceqs
    · simp only [h1, h2, hch.modes, hch.contains_nicks]
      split
      · ceqs
      · refine RRel.bind (R := PermR (fun a b => a = b)) ?_ (fun es es' hes => ?_)
        · refine mapRes_perm_rel hch.nicks_perm (fun e _ => ?_) (fun e _ w => ?_)
          · split
            · exact .panic
            · rename_i mid _
              refine RRel.bind (getS_congr h mid) (fun ms ms' hms => ?_)
              simp only [hms.modes, hms.nick]
              exact RRel.refl_eq _
          · split
            · intro h; cases h
            · rename_i mid _
              unfold getS
              split
              · simp only [Res.bind]
                split <;> intro h <;> cases h
              · intro h; cases h
        · rw [sortStr_eq_of_perm (hes.perm.filterMap id)]
          refine RRel.bind (R := CEq) ?_ (fun c1 c1' h1 => ?_)
          · refine foldlM_rrel_same _ (fun d d' nick _ hd => ?_) h
            simp only [hd.st.get_nicks, hd.serverName]
            split
            · exact .panic
            · rename_i mid _
              refine RRel.bind (getS_congr hd mid) (fun ms ms' hms => ?_)
              simp only [hms.ircPrefix, hms.awayMsg, hms.realname]
              ceqs
          · rw [srv_congr h]
            ceq

theorem cmdWhois_congr : HCongr cmdWhois := by
  intro c c' sid m h
  unfold cmdWhois
  refine RRel.bind (getS_congr h sid) (fun s s' hs => ?_)
  refine RRel.bind_same (fun p0 => ?_)
  simp -zeta only [hs.nick, hs.operator, hs.chanContains, hs.lastActivity, h.st.get_nicks]
  split
  · ceqs
  · rename_i tid _
    refine RRel.bind (getS_congr h tid) (fun t t' ht => ?_)
    simp -zeta only [ht.nick, ht.ircPrefix, ht.realname, ht.operator, ht.awayMsg, ht.lastNonPing, ht.created, ht.modes]
    extract_lets c1 d idle signon c1'
    ceq_let h1 c1 c1'
    refine RRel.bind (R := PermR (fun a b => a = b)) ?_ (fun es es' hes => ?_)
    · refine mapRes_perm_rel ht.channels (fun lc _ => ?_) (fun lc _ w => ?_)
      · rcases getChan_cases h1 lc with ⟨h2, h3⟩ | ⟨ch, ch', h2, h3, hch, hk⟩
        · simp only [h2, h3]; exact .panic
        · simp only [h2, h3, hch.modes, hch.get_nicks, hch.name]
          exact RRel.refl_eq _
      · split
        · intro h; cases h
        · split
          · intro h; cases h
          · split <;> intro h <;> cases h
    · rw [sortStr_eq_of_perm (hes.perm.filterMap id)]
      extract_lets channels c2 c3 c4 c5 c6 c7 c2' c3' c4' c5' c6' c7'
      ceq_let h2 c2 c2'
      have h3 : CEq c3 c3' := sendUser_srv_congr h2 sid _ (by rw [h2.serverName])
      clear_value c3 c3'
      ceq_let h4 c4 c4'
      ceq_let h5 c5 c5'
      ceq_let h6 c6 c6'
      ceq_let h7 c7 c7'
      split
      · exact .declined
      · ceqs

end Robust.Irc
