import Robust.Irc.Proofs.CmdInv
/-!
C15, "has a command": the read-only client handlers (state untouched, every new line has a command).
-/
namespace Robust.Irc
open Robust AMap

theorem cmdPing_kstep {c0 c c' : Ctx} {sid : Id} {m : IrcMsg} (hc : KStep c0 c)
    (hr : cmdPing c sid m = .ok c') : KStep c0 c' := by
  have hI := hc.inv
  unfold cmdPing at hr
  kwalk hr

theorem cmdMotd_kstep {c0 c c' : Ctx} {sid : Id} {m : IrcMsg} (hc : KStep c0 c)
    (hr : cmdMotd c sid m = .ok c') : KStep c0 c' := by
  have hI := hc.inv
  unfold cmdMotd at hr
  kwalk hr

/-- PRIVMSG / NOTICE: the relayed line carries the command of the message, under the prefix of the acting
session, which must not be a services link (178 bytes) -/
theorem cmdPrivmsg_kstep {c0 c c' : Ctx} {sid : Id} {m : IrcMsg} (hc : KStep c0 c)
    (hns : ∀ s, AMap.get c.st.sessions sid = some s → s.server = false) (hm : GoodCmd m.command)
    (hr : cmdPrivmsg c sid m = .ok c') : KStep c0 c' := by
  have hI := hc.inv
  unfold cmdPrivmsg at hr
  obtain ⟨s, hs, hr⟩ := Res.bind_eq_ok.1 hr
  have hsf : s.server = false := hns s (getS_eq_ok.1 hs)
  kwalk hr

theorem parseRest_privmsg (tl : List Char) :
    (parseRest none ('P' :: 'R' :: 'I' :: 'V' :: 'M' :: 'S' :: 'G' :: ' ' :: tl)).command = "PRIVMSG" := by
  have hidx : indexOfChar ('P' :: 'R' :: 'I' :: 'V' :: 'M' :: 'S' :: 'G' :: ' ' :: tl) ' ' = some 7 := by
    unfold indexOfChar
    simp only [List.findIdx?_cons]
    rfl
  have hup : toUpper (String.ofList (List.take 7 ('P' :: 'R' :: 'I' :: 'V' :: 'M' :: 'S' :: 'G' :: ' ' :: tl)))
      = "PRIVMSG" := by
    simp only [List.take_succ_cons, List.take_zero]
    decide
  unfold parseRest
  split
  · rename_i h; rw [hidx] at h; cases h
  · rename_i h; rw [hidx] at h; cases h
  · rename_i j h1 h2
    rw [hidx] at h2
    cases h2
    dsimp only
    split <;> exact hup

theorem serviceAliases_privmsg : ∀ a ∈ serviceAliases, a.2.toList.take 8 = "PRIVMSG ".toList ∧
    ∀ x ∈ a.2.toList, isCutset x = false := by decide

/-- the expansion of a service alias is a `PRIVMSG` -/
theorem serviceAlias_command {a : String × String} (ha : a ∈ serviceAliases) {rest : String} {pm : IrcMsg}
    (hp : parseMessage (a.2 ++ rest) = some pm) : pm.command = "PRIVMSG" := by
  obtain ⟨h1, h2⟩ := serviceAliases_privmsg a ha
  obtain ⟨Y, hY⟩ := trim_keeps_prefix a.2.toList rest.toList h2
  have htl : a.2.toList = 'P' :: 'R' :: 'I' :: 'V' :: 'M' :: 'S' :: 'G' :: ' ' :: a.2.toList.drop 8 := by
    have := (List.take_append_drop 8 a.2.toList).symm
    rw [h1] at this
    exact this
  unfold parseMessage at hp
  rw [String.toList_append] at hp
  simp only at hp
  rw [hY, htl] at hp
  split at hp
  · cases hp
  · simp only [List.cons_append] at hp
    cases hp
    exact parseRest_privmsg _

theorem cmdServiceAlias_kstep {c0 c c' : Ctx} {sid : Id} {m : IrcMsg} (hc : KStep c0 c)
    (hns : ∀ s, AMap.get c.st.sessions sid = some s → s.server = false)
    (hr : cmdServiceAlias c sid m = .ok c') : KStep c0 c' := by
  unfold cmdServiceAlias at hr
  split at hr
  · cases hr; exact hc
  · rename_i a ha
    split at hr
    · cases hr
    · rename_i pm hpm
      refine cmdPrivmsg_kstep hc hns ?_ hr
      rw [serviceAlias_command (List.mem_of_find?_eq_some ha) hpm]
      decide

theorem cmdIson_kstep {c0 c c' : Ctx} {sid : Id} {m : IrcMsg} (hc : KStep c0 c)
    (hr : cmdIson c sid m = .ok c') : KStep c0 c' := by
  have hI := hc.inv
  unfold cmdIson at hr
  kwalk hr

theorem cmdUserhost_kstep {c0 c c' : Ctx} {sid : Id} {m : IrcMsg} (hc : KStep c0 c)
    (hr : cmdUserhost c sid m = .ok c') : KStep c0 c' := by
  have hI := hc.inv
  unfold cmdUserhost at hr
  kwalk hr

theorem cmdList_kstep {c0 c c' : Ctx} {sid : Id} {m : IrcMsg} (hc : KStep c0 c)
    (hr : cmdList c sid m = .ok c') : KStep c0 c' := by
  have hI := hc.inv
  unfold cmdList at hr
  obtain ⟨s, hs, hr⟩ := Res.bind_eq_ok.1 hr
  cases hr
  refine KStep.sendUser' ?_ (fun hI => by hc_msg)
  refine KStep.foldl ?_ hc
  intro c1 lc _ h1
  have hI1 := h1.inv
  split
  · exact h1
  · split
    · exact h1
    · kstep_tac

theorem cmdKnock_kstep {c0 c c' : Ctx} {sid : Id} {m : IrcMsg} (hc : KStep c0 c)
    (hr : cmdKnock c sid m = .ok c') : KStep c0 c' := by
  have hI := hc.inv
  unfold cmdKnock at hr
  kwalk hr

theorem cmdNames_kstep {c0 c c' : Ctx} {sid : Id} {m : IrcMsg} (hc : KStep c0 c)
    (hr : cmdNames c sid m = .ok c') : KStep c0 c' := by
  have hI := hc.inv
  unfold cmdNames at hr
  kwalk hr

theorem cmdWho_kstep {c0 c c' : Ctx} {sid : Id} {m : IrcMsg} (hc : KStep c0 c)
    (hr : cmdWho c sid m = .ok c') : KStep c0 c' := by
  have hI := hc.inv
  unfold cmdWho at hr
  obtain ⟨s, hs, hr⟩ := Res.bind_eq_ok.1 hr
  dsimp only at hr
  split at hr
  · cases hr; kstep_tac
  · split at hr
    · cases hr; kstep_tac
    · split at hr
      · cases hr; kstep_tac
      · obtain ⟨mem, hmem, hr⟩ := Res.bind_eq_ok.1 hr
        obtain ⟨c1, h1, hr⟩ := Res.bind_eq_ok.1 hr
        have hc1 : KStep c0 c1 := by
          refine KStep.foldlM ?_ hc h1
          intro c2 nick c3 _ h2 h3
          have hI2 := h2.inv
          split at h3
          · cases h3
          · obtain ⟨ms, hms, h3⟩ := Res.bind_eq_ok.1 h3
            cases h3; kstep_tac
        have hI1 := hc1.inv
        cases hr; kstep_tac

theorem cmdWhois_kstep {c0 c c' : Ctx} {sid : Id} {m : IrcMsg} (hc : KStep c0 c)
    (hr : cmdWhois c sid m = .ok c') : KStep c0 c' := by
  have hI := hc.inv
  unfold cmdWhois at hr
  kwalk hr

end Robust.Irc
