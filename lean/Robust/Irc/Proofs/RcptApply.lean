import Robust.Irc.Proofs.RcptAll
/-!
C12 at the level of whole entries: every output line of an `IRCFromClient` entry sent by a *client*
session (not a services link) is classified by `ClientLine`, relative to the state in which the
handler runs — which differs from the state before the entry by bookkeeping only.
-/
namespace Robust.Irc
open Robust AMap

/-- `s'` is `s` up to the bookkeeping fields (`lastActivity`, `lastNonPing`, `lastClientMessageId`, `remoteAddr`) -/
def Session.Bk (s s' : Session) : Prop :=
  s' = { s with lastActivity := s'.lastActivity, lastNonPing := s'.lastNonPing,
                lastClientMessageId := s'.lastClientMessageId, remoteAddr := s'.remoteAddr }

theorem Session.Bk.refl (s : Session) : Session.Bk s s := rfl

theorem Session.Bk.trans {a b c : Session} (h1 : Session.Bk a b) (h2 : Session.Bk b c) : Session.Bk a c := by
  unfold Session.Bk at *
  rw [h2, h1]

/-- `st'` is `st` up to the bookkeeping fields of the session stored under `sid` -/
structure StBk (st st' : St) (sid : Id) : Prop where
  nicks : st'.nicks = st.nicks
  channels : st'.channels = st.channels
  serverSessions : st'.serverSessions = st.serverSessions
  config : st'.config = st.config
  others : ∀ id, id ≠ sid → AMap.get st'.sessions id = AMap.get st.sessions id
  self : ∀ s, AMap.get st.sessions sid = some s → ∃ s', AMap.get st'.sessions sid = some s' ∧ Session.Bk s s'

theorem StBk.refl (st : St) (sid : Id) : StBk st st sid :=
  ⟨rfl, rfl, rfl, rfl, fun _ _ => rfl, fun s hs => ⟨s, hs, .refl s⟩⟩

theorem StBk.trans {a b c : St} {sid : Id} (h1 : StBk a b sid) (h2 : StBk b c sid) : StBk a c sid := by
  refine ⟨h2.nicks.trans h1.nicks, h2.channels.trans h1.channels, h2.serverSessions.trans h1.serverSessions,
    h2.config.trans h1.config, fun id hne => (h2.others id hne).trans (h1.others id hne), fun s hs => ?_⟩
  obtain ⟨s1, hs1, b1⟩ := h1.self s hs
  obtain ⟨s2, hs2, b2⟩ := h2.self s1 hs1
  exact ⟨s2, hs2, b1.trans b2⟩

/-- bookkeeping does not change who lists which channel -/
theorem StBk.sameLists {st st' : St} {sid : Id} (h : StBk st st' sid)
    (hk : ∀ s', AMap.get st'.sessions sid = some s' → ∃ s, AMap.get st.sessions sid = some s) :
    SameLists st st' := by
  intro id
  by_cases he : id = sid
  · subst he
    cases hg : AMap.get st.sessions id with
    | none =>
      cases hg' : AMap.get st'.sessions id with
      | none => rfl
      | some s' =>
        obtain ⟨s, hs⟩ := hk s' hg'
        rw [hg] at hs; cases hs
    | some s =>
      obtain ⟨s', hs', hb⟩ := h.self s hg
      rw [hs']
      simp only [Option.map_some, Option.some.injEq]
      rw [hb]
  · rw [h.others id he]

theorem updateLastClientMessageID_bk {st st1 : St} {e : Entry} (hu : updateLastClientMessageID st e = some st1) :
    StBk st st1 e.session := by
  unfold updateLastClientMessageID at hu
  cases hg : AMap.get st.sessions e.session with
  | none => simp [hg] at hu
  | some s =>
    simp only [hg, Option.some.injEq] at hu
    subst hu
    refine ⟨rfl, rfl, rfl, rfl, fun id hne => ?_, fun s0 hs0 => ?_⟩
    · exact AMap.get_set_other _ hne
    · rw [hg] at hs0; cases hs0
      exact ⟨_, AMap.get_set_same _ _ _, rfl⟩

theorem AddrStep.bk {c c1 : Ctx} {e : Entry} {s s1 : Session} (h : AddrStep c c1 e s s1)
    (hs : AMap.get c.st.sessions e.session = some s) (hid : s.id = e.session) :
    StBk c.st c1.st e.session ∧ AMap.get c1.st.sessions e.session = some s1 ∧ Session.Bk s s1 ∧
      c1.out = c.out ∧ c1.msgid = c.msgid := by
  rcases h with ⟨rfl, rfl⟩ | ⟨rfl, rfl⟩
  · exact ⟨.refl _ _, hs, .refl _, rfl, rfl⟩
  · have hget : AMap.get (putS c { s with remoteAddr := e.remoteAddr }).st.sessions e.session
        = some { s with remoteAddr := e.remoteAddr } := by
      show AMap.get (AMap.set c.st.sessions s.id _) e.session = _
      rw [hid]; exact AMap.get_set_same _ _ _
    refine ⟨⟨rfl, rfl, rfl, rfl, fun id hne => ?_, fun s0 hs0 => ?_⟩, hget, rfl, rfl, rfl⟩
    · show AMap.get (AMap.set c.st.sessions s.id _) id = _
      rw [hid]; exact AMap.get_set_other _ hne
    · rw [hs] at hs0; cases hs0
      exact ⟨_, hget, rfl⟩

/-- **`ProcessMessage` for a client session**: every appended line is for the acting session only (gate replies,
ban `ERROR`), or classified by `ClientLine` relative to the context `c1` in which the handler runs — `c` up to
the actor's `remoteAddr` -/
theorem processMessage_client_out {c c' : Ctx} {e : Entry} {im : Option IrcMsg} {s : Session}
    (hp : Pre c e.session) (hn : NI c.st) (hs : AMap.get c.st.sessions e.session = some s)
    (hsrv : s.server = false) (hr : processMessage c e im = .ok c') :
    ∃ c1 s1, AddrStep c c1 e s s1 ∧ Pre c1 e.session ∧ NI c1.st ∧
      NewOut (fun o => ToOnly e.session o ∨ ∃ m, im = some m ∧ ClientLine c1.st e.session s1 m o) c c' := by
  have hid : s.id = e.session := (hp.inv.sessId _ s hs).1
  rw [processMessage_eq] at hr
  rw [getS_of_get hs] at hr
  simp only [Res.ok_bind] at hr
  cases im with
  | none =>
    cases hr
    refine ⟨c, s, Or.inl ⟨rfl, rfl⟩, hp, hn, ?_⟩
    rw [hid]
    exact (NewOut.refl _ c).sendUser fun _ _ => Or.inl rfl
  | some m =>
    dsimp only at hr
    obtain ⟨⟨c1, b⟩, h1, hr⟩ := Res.bind_eq_ok.1 hr
    obtain ⟨hbt, hbf⟩ := addrStage_cases hp.inv hs h1
    obtain ⟨_, hspec⟩ := addrStage_spec hp hn hs h1
    cases b with
    | true =>
      cases hr
      exact ⟨c, s, Or.inl ⟨rfl, rfl⟩, hp, hn, (hbt rfl).mono fun _ h => Or.inl h⟩
    | false =>
      simp only [Bool.false_eq_true, ↓reduceIte] at hr
      obtain ⟨s1, hstep⟩ := hbf rfl
      obtain ⟨hp1, _, hn1, _⟩ := hspec rfl
      obtain ⟨_, hs1, hbk, ho1, _⟩ := hstep.bk hs hid
      have hsrv1 : s1.server = false := by rw [hbk]; exact hsrv
      have hid1 : s1.id = e.session := (hp1.inv.sessId _ s1 hs1).1
      refine ⟨c1, s1, hstep, hp1, hn1, (NewOut.of_out ho1).trans ?_⟩
      -- the gate
      unfold gateStage at hr
      rw [getS_of_get hs1] at hr
      simp only [Res.ok_bind] at hr
      split at hr
      · rw [hid1] at hr
        split at hr
        · have sp := deleteSession_spec (c := sendUser (sendUser c1 e.session _) e.session _)
            hp1.inv.toWInv hs1 (DelPre.of_live (hp1.inv.noDeleted _ s1 hs1)) hr
          exact ((((NewOut.refl _ c1).sendUser (m := _) fun _ _ => Or.inl rfl).sendUser (m := _)
            fun _ _ => Or.inl rfl)).frame sp.frame
        · cases hr
          exact (NewOut.refl _ c1).sendUser fun _ _ => Or.inl rfl
      · rename_i hg
        have hgate := gate_of_not hg
        unfold dispatchStage at hr
        rw [hid1] at hr
        simp only [hsrv1, Bool.false_eq_true, ↓reduceIte, String.empty_append] at hr
        split at hr
        · cases hr; exact (NewOut.refl _ c1).sendUser fun _ _ => Or.inl rfl
        · rename_i fname mp hl
          split at hr
          · cases hr; exact (NewOut.refl _ c1).sendUser fun _ _ => Or.inl rfl
          · rename_i hlen
            split at hr
            · cases hr
            · rename_i h hh
              have hg' : s1.loggedIn = true ∨ toUpper m.command = "NICK" ∨ toUpper m.command = "USER" ∨
                  toUpper m.command = "PASS" ∨ toUpper m.command = "QUIT" ∨ toUpper m.command = "SERVER" := by
                rcases hgate with h1 | h1
                · rw [hsrv1] at h1; cases h1
                · exact h1
              exact (client_handler_out (lookupCommand_mem hl) (startsLowerS_toUpper _) hh hp1 hn1 hs1
                (by omega) hg' hr).mono fun _ h => Or.inr ⟨m, rfl, h⟩

end Robust.Irc

namespace Robust.Irc
open Robust AMap

theorem AddrStep.pinv {c c1 : Ctx} {e : Entry} {s s1 : Session} (h : AddrStep c c1 e s s1) (hp : PInv c.st)
    (hs : AMap.get c.st.sessions e.session = some s) : PInv c1.st := by
  rcases h with ⟨rfl, rfl⟩ | ⟨rfl, rfl⟩
  · exact hp
  · exact hp.putS ((hp _ s hs).congr rfl rfl rfl rfl rfl)

/-- the lines of one entry: for the acting session only, or classified relative to the handler state `stH` -/
def EntryLines (stH : St) (e : Entry) (sH : Session) (im : Option IrcMsg) (out : List Out) : Prop :=
  ∀ o ∈ out, ToOnly e.session o ∨ ∃ m, im = some m ∧ ClientLine stH e.session sH m o

/-- `processMessage` started with an empty batch, for a client session, in a state satisfying the invariants -/
theorem processMessage_client_lines {st : St} {c' : Ctx} {e : Entry} {im : Option IrcMsg} {s : Session}
    (h : GPInv st) (hr0 : e.session.reply = 0) (hs : AMap.get st.sessions e.session = some s)
    (hsrv : s.server = false) (hr : processMessage { st := st, msgid := e.id } e im = .ok c') :
    ∃ stH sH, StBk st stH e.session ∧ AMap.get stH.sessions e.session = some sH ∧ Session.Bk s sH ∧
      GPInv stH ∧ EntryLines stH e sH im c'.out := by
  have hp : Pre { st := st, msgid := e.id } e.session := ⟨h.ginv.inv, h.ginv.linv, ⟨_, hs⟩, hr0⟩
  obtain ⟨c1, s1, hstep, hp1, hn1, hout⟩ := processMessage_client_out hp h.ginv.ni hs hsrv hr
  have hid : s.id = e.session := (h.ginv.inv.sessId _ s hs).1
  obtain ⟨hbk, hs1, hb, _, _⟩ := hstep.bk (c := { st := st, msgid := e.id }) hs hid
  refine ⟨c1.st, s1, hbk, hs1, hb, ⟨GInv.of_ni hp1.inv hp1.linv hn1, hstep.pinv (c := { st := st, msgid := e.id }) h.pinv hs⟩, ?_⟩
  exact hout.elim (c := { st := st, msgid := e.id }) (by simp)

/-- **C12 for a whole `IRCFromClient` entry of a client session**: the handler runs in a state `stH` that is the
state before the entry up to bookkeeping fields of the acting session, `stH` satisfies all invariants, and every
output line of the entry is for the acting session only or is classified — with its exact recipient set — by
`ClientLine stH …` -/
theorem applyEntry_client_out {st st' : St} {e : Entry} {out : List Out} {s : Session}
    (h : GPInv st) (he : EntryOk st e) (ht : e.type = 2)
    (hs : AMap.get st.sessions e.session = some s) (hsrv : s.server = false)
    (hr : applyEntry st e = .ok (st', out)) :
    ∃ stH sH, StBk st stH e.session ∧ AMap.get stH.sessions e.session = some sH ∧ Session.Bk s sH ∧
      GPInv stH ∧ EntryLines stH e sH (parseMessage e.data) out := by
  unfold applyEntry at hr
  rw [if_neg (by omega), if_neg (by omega), if_neg (by omega), if_pos ht] at hr
  split at hr
  · rename_i hu
    unfold updateLastClientMessageID at hu
    rw [hs] at hu
    cases hu
  · rename_i st1 hu
    obtain ⟨c, hpm, hr⟩ := Res.bind_eq_ok.1 hr
    cases hr
    have hbk0 := updateLastClientMessageID_bk hu
    obtain ⟨s1, hs1, hb1⟩ := hbk0.self s hs
    have h1 : GPInv st1 := ⟨GInv_updateLastClientMessageID h.ginv hu, h.pinv.updateLastClientMessageID hu⟩
    have hsrv1 : s1.server = false := by rw [hb1]; exact hsrv
    obtain ⟨stH, sH, hbk, hsH, hb, hg, hl⟩ :=
      processMessage_client_lines h1 (he.1 (Or.inr ht)) hs1 hsrv1 hpm
    exact ⟨stH, sH, hbk0.trans hbk, hsH, hb1.trans hb, hg, hl⟩

/-- the same for a `DeleteSession` entry (the server generates `QUIT :<reason>` for the session) -/
theorem applyEntry_delete_out {st st' : St} {e : Entry} {out : List Out} {s : Session}
    (h : GPInv st) (he : EntryOk st e) (ht : e.type = 1)
    (hs : AMap.get st.sessions e.session = some s) (hsrv : s.server = false)
    (hr : applyEntry st e = .ok (st', out)) :
    ∃ stH sH, StBk st stH e.session ∧ AMap.get stH.sessions e.session = some sH ∧ Session.Bk s sH ∧
      GPInv stH ∧ EntryLines stH e sH (parseMessage ("QUIT :" ++ e.data)) out := by
  unfold applyEntry at hr
  rw [if_neg (by omega), if_neg (by omega), if_pos ht, hs] at hr
  obtain ⟨c, hpm, hr⟩ := Res.bind_eq_ok.1 hr
  cases hr
  exact processMessage_client_lines h (he.1 (Or.inl ht)) hs hsrv hpm

end Robust.Irc
