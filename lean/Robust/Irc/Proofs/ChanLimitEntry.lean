import Robust.Irc.Proofs.FrmEntry
import Robust.Irc.Proofs.ChanLimitSrv
/-!
Entry-level lift of the channel-limit walk (`ChanLimit.lean`, `ChanLimitSrv.lean`): through the stages
of `processMessage` and one committed entry (`applyEntry`).

The number of channels grows only through a type-2 entry (IRCFromClient) whose line is `JOIN` (sent by a
client session or by a services link) or `SVSJOIN` sent by a services link, and then — when there is a
limit — it stays at most `max (old number) maxChannels`: all three handlers refuse to create a channel at
the limit.
-/
namespace Robust.Irc
open Robust AMap

/-! ## the table: which keys lead to the three channel-creating handlers -/

theorem chanLim_table_keys :
    ∀ e ∈ Gen.Commands.commands, (e.2.1 = "cmdJoin" → e.1 = "JOIN") ∧
      (e.2.1 = "cmdServerJoin" → e.1 = "server_JOIN") ∧ (e.2.1 = "cmdServerSvsjoin" → e.1 = "server_SVSJOIN") := by
  decide

/-- the key `(if server then "server_" else "") ++ command` for an upper-cased command -/
theorem chanLim_key_join {b : Bool} {x : String} (h : (if b = true then "server_" else "") ++ toUpper x = "JOIN") :
    b = false ∧ toUpper x = "JOIN" := by
  cases b with
  | false => exact ⟨rfl, by simpa using h⟩
  | true =>
    simp only [if_true] at h
    have h1 := startsLowerS_server (toUpper x)
    rw [h] at h1
    exact absurd h1 (by decide)

theorem chanLim_key_server {b : Bool} {x k : String} (h : (if b = true then "server_" else "") ++ toUpper x = "server_" ++ k) :
    b = true ∧ toUpper x = k := by
  cases b with
  | false =>
    simp only [Bool.false_eq_true, if_false, String.empty_append] at h
    have h1 := startsLowerS_toUpper x
    rw [h, startsLowerS_server] at h1
    cases h1
  | true =>
    simp only [if_true] at h
    refine ⟨rfl, ?_⟩
    rw [server_key_eq (k := "server_" ++ toUpper x) rfl, h, ← server_key_eq (k := "server_" ++ k) rfl]

/-- what a run may do to the channels: nothing that grows them; a JOIN (client or services link) or a
services link's SVSJOIN, within the limit -/
def ChanOutcome (st st' : St) (server : Bool) (command : String) : Prop :=
  ChanLe st st' ∨ ((command = "JOIN" ∨ (server = true ∧ command = "SVSJOIN")) ∧ ChanLim st st')

theorem ChanOutcome.after {a b c : St} {sv : Bool} {cmd : String} (h1 : ChanLe a b) (h2 : ChanOutcome b c sv cmd) :
    ChanOutcome a c sv cmd := by
  rcases h2 with h2 | ⟨hc, h2⟩
  · exact Or.inl (h1.trans h2)
  · exact Or.inr ⟨hc, h1.then_lim h2⟩

/-- whatever happened, the limit was respected -/
theorem ChanOutcome.lim {a b : St} {sv : Bool} {cmd : String} (h : ChanOutcome a b sv cmd) : ChanLim a b := by
  rcases h with h | ⟨_, h⟩
  · exact h.lim
  · exact h

/-! ## the stages of `processMessage` -/

theorem dispatchStage_chan {c c' : Ctx} {s : Session} {m : IrcMsg} {x : String}
    (hr : dispatchStage c s m (toUpper x) = .ok c') : ChanOutcome c.st c'.st s.server (toUpper x) := by
  unfold dispatchStage at hr
  split at hr
  · cases hr; exact Or.inl (ChanLe.refl _)
  · rename_i fname mp hl
    have hk := chanLim_table_keys _ (lookupCommand_mem hl)
    split at hr
    · cases hr; exact Or.inl (ChanLe.refl _)
    · split at hr
      · cases hr
      · rename_i h hh
        by_cases h1 : fname = "cmdJoin"
        · subst h1
          have : handlerByName "cmdJoin" = some cmdJoin := rfl
          rw [this] at hh; cases hh
          obtain ⟨_, hcmd⟩ := chanLim_key_join (hk.1 rfl)
          exact Or.inr ⟨Or.inl hcmd, cmdJoin_lim (ChanLim.refl _) hr⟩
        by_cases h2 : fname = "cmdServerJoin"
        · subst h2
          obtain ⟨_, hcmd⟩ := chanLim_key_server (k := "JOIN") (hk.2.1 rfl)
          exact Or.inr ⟨Or.inl hcmd, handler_chanLim hh c.st c s.id m c' (ChanLim.refl _) hr⟩
        by_cases h3 : fname = "cmdServerSvsjoin"
        · subst h3
          obtain ⟨hsv, hcmd⟩ := chanLim_key_server (k := "SVSJOIN") (hk.2.2 rfl)
          exact Or.inr ⟨Or.inr ⟨hsv, hcmd⟩, handler_chanLim hh c.st c s.id m c' (ChanLim.refl _) hr⟩
        exact Or.inl (handler_chanLe hh h1 h2 h3 c.st c s.id m c' (ChanLe.refl _) hr)

theorem gateStage_chan {c c' : Ctx} {e : Entry} {m : IrcMsg} {x : String} {s : Session}
    (hs : AMap.get c.st.sessions e.session = some s) (hr : gateStage c e m (toUpper x) = .ok c') :
    ChanOutcome c.st c'.st s.server (toUpper x) := by
  unfold gateStage at hr
  rw [getS_of_get hs] at hr
  simp only [Res.ok_bind] at hr
  split at hr
  · split at hr
    · exact Or.inl (ChanLe.deleteSession (c := sendUser (sendUser c _ _) _ _) (ChanLe.refl _) hr)
    · cases hr; exact Or.inl (ChanLe.refl _)
  · exact dispatchStage_chan hr

theorem addrStage_chan {c c1 : Ctx} {e : Entry} {s : Session} {b : Bool}
    (hr : addrStage c e s = .ok (c1, b)) : ChanLe c.st c1.st := by
  have hpi := ChanLe.refl c.st
  unfold addrStage at hr
  split at hr
  · obtain ⟨c0, hm, hr⟩ := Res.bind_eq_ok.1 hr
    have p0 : ChanLe c.st c0.st := hpi.modS hm
    split at hr
    · split at hr
      · obtain ⟨c2, hd, hr⟩ := Res.bind_eq_ok.1 hr
        cases hr
        exact ChanLe.deleteSession (c := sendUser c0 _ _) (p0.sendUser _ _) hd
      · cases hr; exact p0
    · cases hr; exact p0
  · cases hr; exact hpi

/-- what `ProcessMessage` may do to the channels; `s` is the acting session -/
theorem processMessage_chan {c c' : Ctx} {e : Entry} {im : Option IrcMsg} {s : Session}
    (hw : SessWf c.st) (hs : AMap.get c.st.sessions e.session = some s)
    (hr : processMessage c e im = .ok c') :
    ChanLe c.st c'.st ∨ ∃ m, im = some m ∧ ChanOutcome c.st c'.st s.server (toUpper m.command) := by
  rw [processMessage_eq, getS_of_get hs] at hr
  simp only [Res.ok_bind] at hr
  cases im with
  | none => cases hr; exact Or.inl (ChanLe.refl _)
  | some m =>
    dsimp only at hr
    obtain ⟨⟨c1, b⟩, h1, hr⟩ := Res.bind_eq_ok.1 hr
    have f1 : ChanLe c.st c1.st := addrStage_chan h1
    cases b with
    | true => cases hr; exact Or.inl f1
    | false =>
      simp only [Bool.false_eq_true, ↓reduceIte] at hr
      obtain ⟨a, ha, _, _⟩ := addrStage_actor hs (hw.ids _ s hs) h1
      exact Or.inr ⟨m, rfl, ChanOutcome.after f1 (gateStage_chan (s := { s with remoteAddr := a }) ha hr)⟩

/-- `ProcessMessage` never changes the channel limit (GLINE only touches `config.banned`) -/
theorem processMessage_maxChannels {c c' : Ctx} {e : Entry} {im : Option IrcMsg}
    (h0 : e.session.reply = 0) (hw : SessWf c.st) (hr : processMessage c e im = .ok c') :
    c'.st.config.maxChannels = c.st.config.maxChannels ∧ c'.st.config.maxSessions = c.st.config.maxSessions := by
  rcases (processMessage_frm h0 hw hr).2 with hc | ⟨_, _, _, _, _, _, _, _, hc⟩
  · rw [hc]; exact ⟨rfl, rfl⟩
  · rw [hc]; exact ⟨rfl, rfl⟩

/-! ## one committed entry -/

/-- what one entry may do to the channels and the channel limit -/
structure EntryChan (st st' : St) (e : Entry) : Prop where
  maxChannels : e.type ≠ 6 → st'.config.maxChannels = st.config.maxChannels
  config : e.type = 6 → st'.channels = st.channels
  chans : st'.channels.length ≤ st.channels.length ∨
    (e.type = 2 ∧ ∃ s m, AMap.get st.sessions e.session = some s ∧ parseMessage e.data = some m ∧
      (toUpper m.command = "JOIN" ∨ (s.server = true ∧ toUpper m.command = "SVSJOIN")) ∧
      (0 < st.config.maxChannels → st'.channels.length ≤ max st.channels.length st.config.maxChannels))

theorem applyEntry_chan {st st' : St} {e : Entry} {out : List Out} (hw : SessWf st)
    (he : (e.type = 1 ∨ e.type = 2) → e.session.reply = 0)
    (hr : applyEntry st e = .ok (st', out)) : EntryChan st st' e := by
  by_cases h5 : e.type = 5
  · obtain ⟨rfl, _⟩ := applyEntry_death h5 hr
    have h6 : e.type ≠ 6 := by rw [h5]; decide
    cases hu : updateLastClientMessageID st e with
    | none => exact ⟨fun _ => rfl, fun _ => rfl, Or.inl (Nat.le_refl _)⟩
    | some st1 =>
      obtain ⟨_, _, _, hc, _, _, hch⟩ := updateLast_spec hu
      simp only [Option.getD_some]
      exact ⟨fun _ => by rw [hc], fun _ => hch, Or.inl (by rw [hch]; exact Nat.le_refl _)⟩
  by_cases h0 : e.type = 0
  · obtain ⟨rfl, _⟩ := applyEntry_create h0 hr
    cases hcs : createSession st ⟨e.id, 0⟩ e.data e.timestamp with
    | none => exact ⟨fun _ => rfl, fun _ => rfl, Or.inl (Nat.le_refl _)⟩
    | some st1 =>
      simp only [Option.getD_some]
      rw [createSession_eq hcs]
      exact ⟨fun _ => rfl, fun _ => rfl, Or.inl (Nat.le_refl _)⟩
  by_cases h1 : e.type = 1
  · have h6 : e.type ≠ 6 := by rw [h1]; decide
    rcases applyEntry_delete h1 hr with ⟨_, rfl, _⟩ | ⟨s, c, hs, hpm, rfl, _⟩
    · exact ⟨fun _ => rfl, fun _ => rfl, Or.inl (Nat.le_refl _)⟩
    · obtain ⟨hcfg, _, _, hch⟩ := maybeDeleteSession_other { c.st with lastProcessed := ⟨e.id, 0⟩ } e.session
      have hmax := (processMessage_maxChannels (c := { st := st, msgid := e.id }) (he (Or.inl h1)) hw hpm).1
      refine ⟨fun _ => by rw [hcfg]; exact hmax, fun h => absurd h h6, Or.inl ?_⟩
      rw [hch]
      show c.st.channels.length ≤ st.channels.length
      rcases processMessage_chan (c := { st := st, msgid := e.id }) hw hs hpm with hle | ⟨m, hm, hout⟩
      · exact hle.le
      · obtain ⟨_, hq⟩ := parseMessage_quit _ hm
        rcases hout with hle | ⟨hj | ⟨_, hj⟩, _⟩
        · exact hle.le
        · rw [hq] at hj; exact absurd hj (by decide)
        · rw [hq] at hj; exact absurd hj (by decide)
  by_cases h2 : e.type = 2
  · have h6 : e.type ≠ 6 := by rw [h2]; decide
    rcases applyEntry_client h2 hr with ⟨_, rfl, _⟩ | ⟨st1, c, hu, hpm, rfl, _⟩
    · exact ⟨fun _ => rfl, fun _ => rfl, Or.inl (Nat.le_refl _)⟩
    · obtain ⟨hcfg, _, _, hch⟩ := maybeDeleteSession_other { c.st with lastProcessed := ⟨e.session.id, 0⟩ } e.session
      obtain ⟨⟨s, s1, hs, hs1, _, _, _, hsv, _⟩, _, _, hc1, _, _, hch1⟩ := updateLast_spec hu
      have hw1 := hw.updateLast hu
      have hmax := (processMessage_maxChannels (c := { st := st1, msgid := e.id }) (he (Or.inr h2)) hw1 hpm).1
      have hmax' : c.st.config.maxChannels = st.config.maxChannels := by rw [← hc1]; exact hmax
      refine ⟨fun _ => by rw [hcfg]; exact hmax', fun h => absurd h h6, ?_⟩
      rw [hch]
      show c.st.channels.length ≤ st.channels.length ∨ _
      have hlen1 : st1.channels.length = st.channels.length := by rw [hch1]
      rcases processMessage_chan (c := { st := st1, msgid := e.id }) hw1 hs1 hpm with hle | ⟨m, hm, hout⟩
      · exact Or.inl (hlen1 ▸ hle.le)
      · rcases hout with hle | ⟨hj, hlim⟩
        · exact Or.inl (hlen1 ▸ hle.le)
        · refine Or.inr ⟨h2, s, m, hs, hm, ?_, fun hpos => ?_⟩
          · rcases hj with hj | ⟨hsrv, hj⟩
            · exact Or.inl hj
            · exact Or.inr ⟨hsv ▸ hsrv, hj⟩
          have := hlim.le (by show 0 < st1.config.maxChannels; rw [hc1]; exact hpos)
          have e1 : st1.config.maxChannels = st.config.maxChannels := by rw [hc1]
          show c.st.channels.length ≤ _
          rw [← hlen1, ← e1]
          exact this
  by_cases h6 : e.type = 6
  · obtain ⟨rfl, _⟩ := applyEntry_config h6 hr
    refine ⟨fun h => absurd h6 h, fun _ => ?_, Or.inl ?_⟩
    · cases e.cfg <;> rfl
    · cases e.cfg <;> exact Nat.le_refl _
  · obtain ⟨rfl, _⟩ := applyEntry_other ⟨h0, h1, h2, h5, h6⟩ hr
    exact ⟨fun _ => rfl, fun _ => rfl, Or.inl (Nat.le_refl _)⟩

/-! ## the limit as a state predicate -/

/-- the configured limit is respected (`0` = no limit) -/
def ChannelsWithinLimit (st : St) : Prop :=
  st.config.maxChannels = 0 ∨ st.channels.length ≤ st.config.maxChannels

/-- a Config entry does not lower the limit below the current number of channels -/
def ConfigKeepsLimit (st : St) (e : Entry) : Prop :=
  e.type = 6 → ∀ cfg, e.cfg = some cfg → cfg.maxChannels = 0 ∨ st.channels.length ≤ cfg.maxChannels

/-- the bound of one entry (any acting session): with a limit the number of channels stays at most the larger
of the previous number and the limit -/
theorem EntryChan.bound {st st' : St} {e : Entry} (h : EntryChan st st' e) (hpos : 0 < st.config.maxChannels) :
    st'.channels.length ≤ max st.channels.length st.config.maxChannels := by
  rcases h.chans with hle | ⟨_, _, _, _, _, _, hlim⟩
  · exact Nat.le_trans hle (Nat.le_max_left _ _)
  · exact hlim hpos

theorem EntryChan.within {st st' : St} {e : Entry} (h : EntryChan st st' e) (hl : ChannelsWithinLimit st)
    (hcfg : ConfigKeepsLimit st e) (hr : ∃ out, applyEntry st e = .ok (st', out)) :
    ChannelsWithinLimit st' := by
  by_cases h6 : e.type = 6
  · obtain ⟨out, hr⟩ := hr
    obtain ⟨rfl, _⟩ := applyEntry_config h6 hr
    cases hc : e.cfg with
    | none => exact hl
    | some cfg => exact hcfg h6 cfg hc
  · have hm := h.maxChannels h6
    unfold ChannelsWithinLimit
    rw [hm]
    by_cases hz : st.config.maxChannels = 0
    · exact Or.inl hz
    · right
      have hle : st.channels.length ≤ st.config.maxChannels := hl.resolve_left hz
      have := h.bound (Nat.pos_of_ne_zero hz)
      omega

/-! ## histories -/

/-- along the history: every Config entry keeps the limit respected (threaded through `applyEntry` like
`WfHistory`) -/
def LimitHistory (st : St) : List Entry → Prop
  | [] => True
  | e :: es => ConfigKeepsLimit st e ∧ ∀ st' out, applyEntry st e = .ok (st', out) → LimitHistory st' es

theorem run_within_limit {st st' : St} {es : List Entry} (hw : SessWf st) (hl : ChannelsWithinLimit st)
    (hwf : WfHistory st es) (hlh : LimitHistory st es) (hr : runEntries st es = .ok st') :
    ChannelsWithinLimit st' := by
  induction es generalizing st with
  | nil => cases hr; exact hl
  | cons e es ih =>
    unfold runEntries at hr
    obtain ⟨he, _, hnext⟩ := hwf
    obtain ⟨hcfg, hlnext⟩ := hlh
    split at hr
    · rename_i st1 out hap
      have hc := applyEntry_chan hw he.1 hap
      exact ih (hw.applyEntry he.1 hap) (hc.within hl hcfg ⟨out, hap⟩) (hnext st1 out hap) (hlnext st1 out hap) hr
    · cases hr
    · cases hr

/-! ## sessions: CreateSession entries -/

theorem applyEntry_create_sessions {st st' : St} {e : Entry} {out : List Out} (ht : e.type = 0)
    (hr : applyEntry st e = .ok (st', out)) :
    st'.config = st.config ∧
    (0 < st.config.maxSessions → st'.sessions.length ≤ max st.sessions.length st.config.maxSessions) ∧
    (st.config.maxSessions ≤ st.sessions.length → 0 < st.config.maxSessions → st' = st) := by
  obtain ⟨rfl, _⟩ := applyEntry_create ht hr
  cases hcs : createSession st ⟨e.id, 0⟩ e.data e.timestamp with
  | none => exact ⟨rfl, fun _ => Nat.le_max_left _ _, fun _ _ => rfl⟩
  | some st1 =>
    simp only [Option.getD_some]
    obtain ⟨hcfg, _, hlen, hlim, _⟩ := chanLim_createSession hcs
    refine ⟨hcfg, fun hpos => ?_, fun hge hpos => ?_⟩
    · have := hlim hpos
      omega
    · have := hlim hpos
      omega

end Robust.Irc
