import Robust.Irc.Proofs.CmdClientC
import Robust.Irc.Proofs.H3c
import Robust.Irc.Proofs.H3e
import Robust.Irc.Proofs.H3f
/-!
C15, "has a command": the services (server-to-server) handlers and `cmdServer`.

Their lines are server-prefixed, under the stored prefix of a session, or under a prefix taken from the line
services sent (`servicesPrefix m = name!services@services`, `m.pfx` for KILL): `PfxArgOK m` (no space, at most
160 bytes) is what is assumed of that prefix.  Three handlers store something services chose:

* `cmdServer` makes the first parameter the prefix of the link (assumed: no space, at most 300 bytes);
* `cmdServerNick` creates a pseudo-client whose user name is the fourth parameter cut to 30 characters (assumed:
  no space — true by `MidOK` unless it is the trailing parameter); the nickname is checked by the handler;
* `cmdServerSvsnick` renames a session: the nickname is checked by the handler.
-/
namespace Robust.Irc
open Robust AMap

theorem cmdServerInvite_kstep {c0 c c' : Ctx} {sid : Id} {m : IrcMsg} (hc : KStep c0 c) (hp : PfxArgOK m)
    (hr : cmdServerInvite c sid m = .ok c') : KStep c0 c' := by
  have hI := hc.inv
  unfold cmdServerInvite at hr
  kwalk hr

theorem cmdServerKick_kstep {c0 c c' : Ctx} {sid : Id} {m : IrcMsg} (hc : KStep c0 c) (hp : PfxArgOK m)
    (hr : cmdServerKick c sid m = .ok c') : KStep c0 c' := by
  have hI := hc.inv
  unfold cmdServerKick at hr
  kwalk hr

theorem cmdServerPrivmsg_kstep {c0 c c' : Ctx} {sid : Id} {m : IrcMsg} (hc : KStep c0 c) (hp : PfxArgOK m)
    (hm : GoodCmd m.command) (hr : cmdServerPrivmsg c sid m = .ok c') : KStep c0 c' := by
  have hI := hc.inv
  unfold cmdServerPrivmsg at hr
  kwalk hr

theorem cmdServerTopic_kstep {c0 c c' : Ctx} {sid : Id} {m : IrcMsg} (hc : KStep c0 c) (hp : PfxArgOK m)
    (hr : cmdServerTopic c sid m = .ok c') : KStep c0 c' := by
  have hI := hc.inv
  unfold cmdServerTopic at hr
  kwalk hr

theorem cmdServerSvspart_kstep {c0 c c' : Ctx} {sid : Id} {m : IrcMsg} (hc : KStep c0 c)
    (hr : cmdServerSvspart c sid m = .ok c') : KStep c0 c' := by
  have hI := hc.inv
  unfold cmdServerSvspart at hr
  kwalk hr

theorem cmdServerSvshold_kstep {c0 c c' : Ctx} {sid : Id} {m : IrcMsg} (hc : KStep c0 c)
    (hr : cmdServerSvshold c sid m = .ok c') : KStep c0 c' := by
  have hI := hc.inv
  unfold cmdServerSvshold at hr
  obtain ⟨s, hs, hr⟩ := Res.bind_eq_ok.1 hr
  obtain ⟨p0, hp0, hr⟩ := Res.bind_eq_ok.1 hr
  dsimp only at hr
  split at hr
  · obtain ⟨p1, hp1, hr⟩ := Res.bind_eq_ok.1 hr
    split at hr
    · cases hr
    · split at hr
      · cases hr
      · cases hr
        exact hc.same rfl rfl rfl
  · cases hr
    exact hc.same rfl rfl rfl

/-! ### NICK (a fresh pseudo-client) -/

theorem KInv.createSession {st st' : St} {id : Id} {auth : String} {ts : Int} (h : KInv st)
    (hid : id.id < 2 ^ 64) (hr : createSession st id auth ts = some st') : KInv st' := by
  rw [createSession_eq hr]
  exact h.setSession (KSess.fresh hid auth ts)

theorem cmdServerNick_kstep {c0 c c' : Ctx} {sid : Id} {m : IrcMsg} (hc : KStep c0 c)
    (hu : ∀ x, m.params[3]? = some x → Spaceless x)
    (hr : cmdServerNick c sid m = .ok c') : KStep c0 c' := by
  have hI := hc.inv
  unfold cmdServerNick at hr
  obtain ⟨s, hs, hr⟩ := Res.bind_eq_ok.1 hr
  have ks := hc.getS hs
  split at hr
  · cases hr; exact hc
  · obtain ⟨p0, hp0, hr⟩ := Res.bind_eq_ok.1 hr
    split at hr
    · cases hr; kstep_tac
    · rename_i hv
      have hv' : isValidNickname p0 = true := by simpa using hv
      split at hr
      · cases hr; kstep_tac
      · dsimp only at hr
        split at hr
        · cases hr; kstep_tac
        · split at hr
          · cases hr; kstep_tac
          · rename_i st1 hcs
            obtain ⟨p3, hp3, hr⟩ := Res.bind_eq_ok.1 hr
            obtain ⟨c2, hm2, hr⟩ := Res.bind_eq_ok.1 hr
            cases hr
            have n1 : KStep c0 { c with st := st1 } := hc.setSt (hI.createSession (id := ⟨s.id.id, fnv64 p0⟩) ks.id64 hcs)
            have n2 : KStep c0 c2 := n1.modS hm2 (fun ss hs =>
              (KSess.setUser (s := { ss with nick := p0 }) (hs.setNick hv') (hu p3 (param_eq_ok hp3)) m.trailing).update)
            exact n2.same rfl rfl rfl

/-! ### JOIN / PART -/

theorem serverJoinOne_kstep {c0 c c' : Ctx} {m : IrcMsg} {chn : String} (hc : KStep c0 c) (hp : PfxArgOK m)
    (hr : serverJoinOne c m chn = .ok c') : KStep c0 c' := by
  have hI := hc.inv
  unfold serverJoinOne at hr
  kwalk hr

theorem cmdServerJoin_kstep {c0 c c' : Ctx} {sid : Id} {m : IrcMsg} (hc : KStep c0 c) (hp : PfxArgOK m)
    (hr : cmdServerJoin c sid m = .ok c') : KStep c0 c' := by
  unfold cmdServerJoin at hr
  obtain ⟨p0, hp0, hr⟩ := Res.bind_eq_ok.1 hr
  refine KStep.foldlM ?_ hc hr
  intro c1 ch c2 _ h1 h2
  exact serverJoinOne_kstep h1 hp h2

theorem serverPartOne_kstep {c0 c c' : Ctx} {m : IrcMsg} {chn : String} (hc : KStep c0 c) (hp : PfxArgOK m)
    (hr : serverPartOne c m chn = .ok c') : KStep c0 c' := by
  have hI := hc.inv
  unfold serverPartOne at hr
  kwalk hr

theorem cmdServerPart_kstep {c0 c c' : Ctx} {sid : Id} {m : IrcMsg} (hc : KStep c0 c) (hp : PfxArgOK m)
    (hr : cmdServerPart c sid m = .ok c') : KStep c0 c' := by
  unfold cmdServerPart at hr
  obtain ⟨p0, hp0, hr⟩ := Res.bind_eq_ok.1 hr
  refine KStep.foldlM ?_ hc hr
  intro c1 ch c2 _ h1 h2
  exact serverPartOne_kstep h1 hp h2

/-! ### MODE / SVSMODE -/

theorem serverModeStep_kstep {c0 c c' : Ctx} {m : IrcMsg} {chn lc : String} {mc : ModeCmd} (hc : KStep c0 c)
    (hr : serverModeStep m chn lc c mc = .ok c') : KStep c0 c' := by
  have hI := hc.inv
  unfold serverModeStep at hr
  simp only [getChan_eq] at hr
  kwalk hr

theorem cmdServerMode_kstep {c0 c c' : Ctx} {sid : Id} {m : IrcMsg} (hc : KStep c0 c) (hp : PfxArgOK m)
    (hr : cmdServerMode c sid m = .ok c') : KStep c0 c' := by
  have hI := hc.inv
  rw [cmdServerMode_eq] at hr
  obtain ⟨chn, hchn, hr⟩ := Res.bind_eq_ok.1 hr
  simp only [getChan_eq] at hr
  split at hr
  · kwalk hr
  · obtain ⟨c1, hfold, hr⟩ := Res.bind_eq_ok.1 hr
    have n1 : KStep c0 c1 := by
      refine KStep.foldlM ?_ hc hfold
      intro c2 mc c3 _ h2 h3
      exact serverModeStep_kstep h2 h3
    have hI1 := n1.inv
    kwalk hr

theorem svsmodeStep_kstep {c0 c c' : Ctx} {tid : Id} {mc : ModeCmd} (hc : KStep c0 c)
    (hr : svsmodeStep tid c mc = .ok c') : KStep c0 c' := by
  have hI := hc.inv
  unfold svsmodeStep at hr
  dsimp only at hr
  split at hr
  · exact hc.modS_keep hr (fun _ => ⟨rfl, rfl, rfl, rfl, rfl⟩)
  · split at hr
    · exact hc.modS_keep hr (fun _ => ⟨rfl, rfl, rfl, rfl, rfl⟩)
    · cases hr; kstep_tac

theorem cmdServerSvsmode_kstep {c0 c c' : Ctx} {sid : Id} {m : IrcMsg} (hc : KStep c0 c)
    (hr : cmdServerSvsmode c sid m = .ok c') : KStep c0 c' := by
  have hI := hc.inv
  rw [cmdServerSvsmode_eq] at hr
  obtain ⟨s, hs, hr⟩ := Res.bind_eq_ok.1 hr
  have ks := hc.getS hs
  obtain ⟨p0, hp0, hr⟩ := Res.bind_eq_ok.1 hr
  split at hr
  · cases hr; kstep_tac
  · obtain ⟨modestr, _, hr⟩ := Res.bind_eq_ok.1 hr
    split at hr
    · cases hr; kstep_tac
    · obtain ⟨c1, hfold, hr⟩ := Res.bind_eq_ok.1 hr
      obtain ⟨t, ht, hr⟩ := Res.bind_eq_ok.1 hr
      cases hr
      have n1 : KStep c0 c1 := by
        refine KStep.foldlM ?_ hc hfold
        intro c2 mc c3 _ h2 h3
        exact svsmodeStep_kstep h2 h3
      have hI1 := n1.inv
      kstep_tac

/-! ### SVSNICK -/

theorem renameCtx_kstep {c0 c : Ctx} (hc : KStep c0 c) (tid : Id) (lcnew old : String) (b : Bool) :
    KStep c0 (renameCtx c tid lcnew old b) := by
  refine hc.same (renameCtx_sessions c tid lcnew old b) ?_ ?_
  · unfold renameCtx; cases b <;> rfl
  · unfold renameCtx; cases b <;> rfl

theorem svsnickTail_kstep {c0 c c' : Ctx} {tid : Id} {p0 p1 : String} (hc : KStep c0 c)
    (hv : isValidNickname p1 = true) (hr : svsnickTail c p0 p1 tid = .ok c') : KStep c0 c' := by
  have hI := hc.inv
  unfold svsnickTail at hr
  obtain ⟨t, ht, hr⟩ := Res.bind_eq_ok.1 hr
  dsimp only at hr
  obtain ⟨c1, hm1, hr⟩ := Res.bind_eq_ok.1 hr
  obtain ⟨c2, hm2, hr⟩ := Res.bind_eq_ok.1 hr
  obtain ⟨t2, ht2, hr⟩ := Res.bind_eq_ok.1 hr
  obtain ⟨rc, _, hr⟩ := Res.bind_eq_ok.1 hr
  cases hr
  have kt := hc.getS ht
  have n1 : KStep c0 c1 := hc.modS hm1 (fun _ hs => hs.setNick hv)
  have nr := renameCtx_kstep n1 tid (nickToLower p1) (nickToLower p0) (nickToLower p1 != nickToLower p0)
  have n2 : KStep c0 c2 := nr.modS hm2 (fun _ hs => hs.update)
  exact n2.emit (kt.hc (by decide) _)

theorem cmdServerSvsnick_kstep {c0 c c' : Ctx} {sid : Id} {m : IrcMsg} (hc : KStep c0 c)
    (hr : cmdServerSvsnick c sid m = .ok c') : KStep c0 c' := by
  have hI := hc.inv
  rw [cmdServerSvsnick_eq] at hr
  obtain ⟨p0, hp0, hr⟩ := Res.bind_eq_ok.1 hr
  obtain ⟨p1, hp1, hr⟩ := Res.bind_eq_ok.1 hr
  split at hr
  · cases hr; kstep_tac
  · rename_i hv
    have hv' : isValidNickname p1 = true := by simpa using hv
    split at hr
    · cases hr; kstep_tac
    · split at hr
      · split at hr
        · cases hr; kstep_tac
        · exact svsnickTail_kstep hc hv' hr
      · exact svsnickTail_kstep hc hv' hr

/-! ### KILL / QUIT -/

theorem cmdServerKill_kstep {c0 c c' : Ctx} {sid : Id} {m : IrcMsg} (hc : KStep c0 c) (hp : PfxArgOK m)
    (hr : cmdServerKill c sid m = .ok c') : KStep c0 c' := by
  have hI := hc.inv
  unfold cmdServerKill at hr
  obtain ⟨s, hs, hr⟩ := Res.bind_eq_ok.1 hr
  split at hr
  · cases hr; kstep_tac
  · dsimp only at hr
    obtain ⟨kp?, hkp, hr⟩ := Res.bind_eq_ok.1 hr
    have hk : ∀ kp, kp? = some kp → Spaceless kp.str ∧ kp.str.utf8ByteSize ≤ 300 := by
      intro kp hkp'
      subst hkp'
      split at hkp
      · injection hkp with hkp
        obtain ⟨a, b⟩ := hp kp hkp
        exact ⟨a, by omega⟩
      · split at hkp
        · cases hkp
        · rename_i p hpx
          split at hkp
          · rename_i e he
            cases hkp
            have ke := hI.sessions e (List.mem_filter.1 (List.mem_of_find?_eq_some he)).1
            have := ke.pfxLen
            have := pfxCap_le e.2
            exact ⟨ke.pfxSp, by omega⟩
          · cases hkp
            obtain ⟨a, b⟩ := hp kp hpx
            exact ⟨a, by omega⟩
    obtain ⟨p0, hp0, hr⟩ := Res.bind_eq_ok.1 hr
    split at hr
    · cases hr; kstep_tac
    · obtain ⟨t, ht, hr⟩ := Res.bind_eq_ok.1 hr
      cases kp? with
      | none => cases hr
      | some kp =>
        dsimp only at hr
        obtain ⟨hk1, hk2⟩ := hk kp rfl
        obtain ⟨rc, _, hr⟩ := Res.bind_eq_ok.1 hr
        have hkill : ∀ params, HasCommand (IrcMsg.mk (some kp) "KILL" params).render := fun params =>
          hc_of_pfx hk1 (by decide) (by
            have e : ("KILL" : String).utf8ByteSize = 4 := by decide
            omega) params
        refine KStep.deleteSession ?_ hr
        exact (hc.sendUser (hkill _)).emit ((hc.getS ht).hc (by decide) _)

theorem cmdServerQuit_kstep {c0 c c' : Ctx} {sid : Id} {m : IrcMsg} (hc : KStep c0 c)
    (hr : cmdServerQuit c sid m = .ok c') : KStep c0 c' := by
  have hI := hc.inv
  unfold cmdServerQuit at hr
  obtain ⟨s, hs, hr⟩ := Res.bind_eq_ok.1 hr
  split at hr
  · obtain ⟨c1, hd, hr⟩ := Res.bind_eq_ok.1 hr
    dsimp only at hr
    refine KStep.foldlM ?_ (hc.deleteSession hd) hr
    intro c2 tid c3 _ hP hstep
    have hI2 := hP.inv
    obtain ⟨t, ht, hstep⟩ := Res.bind_eq_ok.1 hstep
    obtain ⟨rc, _, hstep⟩ := Res.bind_eq_ok.1 hstep
    refine KStep.deleteSession ?_ hstep
    kstep_tac
  · split at hr
    · cases hr; exact hc
    · rename_i e he
      have ke : KSess e.2 := hI.sessions e (List.mem_of_find?_eq_some he)
      obtain ⟨rc, _, hr⟩ := Res.bind_eq_ok.1 hr
      refine KStep.deleteSession ?_ hr
      kstep_tac

/-! ### SVSJOIN -/

theorem cmdServerSvsjoin_kstep {c0 c c' : Ctx} {sid : Id} {m : IrcMsg} (hc : KStep c0 c)
    (hr : cmdServerSvsjoin c sid m = .ok c') : KStep c0 c' := by
  have hI := hc.inv
  unfold cmdServerSvsjoin at hr
  obtain ⟨p0, hp0, hr⟩ := Res.bind_eq_ok.1 hr
  obtain ⟨chn, hchn, hr⟩ := Res.bind_eq_ok.1 hr
  dsimp only at hr
  split at hr
  · obtain ⟨pn, hpn, hr⟩ := Res.bind_eq_ok.1 hr
    cases hr; kstep_tac
  · split at hr
    · obtain ⟨pn, hpn, hr⟩ := Res.bind_eq_ok.1 hr
      cases hr; kstep_tac
    · split at hr
      · obtain ⟨pn, hpn, hr⟩ := Res.bind_eq_ok.1 hr
        cases hr; kstep_tac
      split at hr
      · cases hr
        exact hc.putChan
      · obtain ⟨c1, h1, hr⟩ := Res.bind_eq_ok.1 hr
        obtain ⟨t, ht, hr⟩ := Res.bind_eq_ok.1 hr
        obtain ⟨rc, _, hr⟩ := Res.bind_eq_ok.1 hr
        obtain ⟨c2, h2, hr⟩ := Res.bind_eq_ok.1 hr
        have n1 : KStep c0 c1 := KStep.modS_keep (hc.putChan.putChan) h1 (fun _ => ⟨rfl, rfl, rfl, rfl, rfl⟩)
        have hI1 := n1.inv
        refine cmdNames_kstep (cmdTopic_kstep ?_ h2) hr
        kstep_tac

/-! ### SERVER -/

theorem serverBurstChan_kstep {t : Session} {c0 c c' : Ctx} {lc : String} (hc : KStep c0 c)
    (hr : serverBurstChan t c lc = .ok c') : KStep c0 c' := by
  have hI := hc.inv
  unfold serverBurstChan at hr
  kwalk hr

theorem serverBurstNick_kstep {c0 c c' : Ctx} {nick : String} (hc : KStep c0 c)
    (hr : serverBurstNick c nick = .ok c') : KStep c0 c' := by
  have hI := hc.inv
  unfold serverBurstNick at hr
  split at hr
  · cases hr
  · obtain ⟨t, ht, hr⟩ := Res.bind_eq_ok.1 hr
    split at hr
    · cases hr; exact hc
    · dsimp only at hr
      refine KStep.foldlM ?_ ?_ hr
      · intro c1 lc c2 _ h1 h2
        exact serverBurstChan_kstep h1 h2
      · kstep_tac

/-- SERVER: the announced name becomes the prefix of the link -/
theorem cmdServer_kstep {c0 c c' : Ctx} {sid : Id} {m : IrcMsg} (hc : KStep c0 c)
    (hn : ∀ x, m.params[0]? = some x → Spaceless x ∧ x.utf8ByteSize ≤ 300)
    (hr : cmdServer c sid m = .ok c') : KStep c0 c' := by
  have hI := hc.inv
  rw [cmdServer_eq] at hr
  obtain ⟨s, hs, hr⟩ := Res.bind_eq_ok.1 hr
  split at hr
  · cases hr; kstep_tac
  · obtain ⟨p0, hp0, hr⟩ := Res.bind_eq_ok.1 hr
    obtain ⟨c1, h1, hr⟩ := Res.bind_eq_ok.1 hr
    dsimp only at hr
    obtain ⟨hsp, hlen⟩ := hn p0 (param_eq_ok hp0)
    have n1 : KStep c0 c1 := hc.modS h1 (fun _ hs => hs.setServer hsp hlen)
    have n2 : KStep c0 { c1 with st := { c1.st with serverSessions := c1.st.serverSessions ++ [sid.id] } } :=
      n1.same rfl rfl rfl
    refine KStep.foldlM ?_ ?_ hr
    · intro c2 nick c3 _ h2 h3
      exact serverBurstNick_kstep h2 h3
    · exact n2.sendSvc (hc_plain (by decide) (by decide) _)

end Robust.Irc
