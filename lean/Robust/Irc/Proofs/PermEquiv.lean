import Robust.Irc.Proofs.PermMap
import Robust.Irc.Proofs.Entry
/-!
Order-independence, part 3: the equivalence on sessions, channels, states, outputs, contexts.

Two layers:

* the *official* equivalence `St.Equiv` (`≈`): every map is a permutation of the other
  (`List.Perm` / `PermR` for maps whose values contain lists or maps themselves), scalars equal;
* the *working* relation `StEq`: the same, phrased extensionally (`MEq`: duplicate-free keys and
  `get` agrees), plus the fact that channels are stored under their lower-cased name.  It is a
  partial equivalence relation; on states satisfying the invariant the two coincide
  (`StEq.toEquiv`, `St.Equiv.toStEq`).

The network configuration is compared with plain equality: it is replaced wholesale by a config
entry (the same value on every replica), is only read through `get`, and is changed only by
`AMap.set` (GLINE).
-/
set_option linter.unusedSectionVars false
set_option linter.unusedVariables false

namespace Robust.Irc
open Robust

/-! ## sessions -/

/-- the session without its two list-valued (Go: map-valued) fields -/
def Session.scal (s : Session) : Session := { s with channels := [], invitedTo := [] }

structure SessEq (s s' : Session) : Prop where
  scal : s'.scal = s.scal
  channels : s.channels.Perm s'.channels
  invitedTo : s.invitedTo.Perm s'.invitedTo

namespace SessEq
variable {s s' s'' : Session}

theorem refl (s : Session) : SessEq s s := ⟨rfl, List.Perm.refl _, List.Perm.refl _⟩
theorem symm (h : SessEq s s') : SessEq s' s := ⟨h.scal.symm, h.channels.symm, h.invitedTo.symm⟩
theorem trans (h : SessEq s s') (h' : SessEq s' s'') : SessEq s s'' :=
  ⟨h'.scal.trans h.scal, h.channels.trans h'.channels, h.invitedTo.trans h'.invitedTo⟩

theorem id (h : SessEq s s') : s'.id = s.id :=
  (congrArg Session.id h.scal : s'.scal.id = s.scal.id)
theorem auth (h : SessEq s s') : s'.auth = s.auth :=
  (congrArg Session.auth h.scal : s'.scal.auth = s.scal.auth)
theorem loggedIn (h : SessEq s s') : s'.loggedIn = s.loggedIn :=
  (congrArg Session.loggedIn h.scal : s'.scal.loggedIn = s.scal.loggedIn)
theorem nick (h : SessEq s s') : s'.nick = s.nick :=
  (congrArg Session.nick h.scal : s'.scal.nick = s.scal.nick)
theorem username (h : SessEq s s') : s'.username = s.username :=
  (congrArg Session.username h.scal : s'.scal.username = s.scal.username)
theorem realname (h : SessEq s s') : s'.realname = s.realname :=
  (congrArg Session.realname h.scal : s'.scal.realname = s.scal.realname)
theorem lastActivity (h : SessEq s s') : s'.lastActivity = s.lastActivity :=
  (congrArg Session.lastActivity h.scal : s'.scal.lastActivity = s.scal.lastActivity)
theorem lastNonPing (h : SessEq s s') : s'.lastNonPing = s.lastNonPing :=
  (congrArg Session.lastNonPing h.scal : s'.scal.lastNonPing = s.scal.lastNonPing)
theorem lastSolvedCaptcha (h : SessEq s s') : s'.lastSolvedCaptcha = s.lastSolvedCaptcha :=
  (congrArg Session.lastSolvedCaptcha h.scal : s'.scal.lastSolvedCaptcha = s.scal.lastSolvedCaptcha)
theorem operator (h : SessEq s s') : s'.operator = s.operator :=
  (congrArg Session.operator h.scal : s'.scal.operator = s.scal.operator)
theorem awayMsg (h : SessEq s s') : s'.awayMsg = s.awayMsg :=
  (congrArg Session.awayMsg h.scal : s'.scal.awayMsg = s.scal.awayMsg)
theorem created (h : SessEq s s') : s'.created = s.created :=
  (congrArg Session.created h.scal : s'.scal.created = s.scal.created)
theorem throttlingExponent (h : SessEq s s') : s'.throttlingExponent = s.throttlingExponent :=
  (congrArg Session.throttlingExponent h.scal : s'.scal.throttlingExponent = s.scal.throttlingExponent)
theorem modes (h : SessEq s s') : s'.modes = s.modes :=
  (congrArg Session.modes h.scal : s'.scal.modes = s.scal.modes)
theorem svid (h : SessEq s s') : s'.svid = s.svid :=
  (congrArg Session.svid h.scal : s'.scal.svid = s.scal.svid)
theorem pass (h : SessEq s s') : s'.pass = s.pass :=
  (congrArg Session.pass h.scal : s'.scal.pass = s.scal.pass)
theorem server (h : SessEq s s') : s'.server = s.server :=
  (congrArg Session.server h.scal : s'.scal.server = s.scal.server)
theorem lastClientMessageId (h : SessEq s s') : s'.lastClientMessageId = s.lastClientMessageId :=
  (congrArg Session.lastClientMessageId h.scal : s'.scal.lastClientMessageId = s.scal.lastClientMessageId)
theorem ircPrefix (h : SessEq s s') : s'.ircPrefix = s.ircPrefix :=
  (congrArg Session.ircPrefix h.scal : s'.scal.ircPrefix = s.scal.ircPrefix)
theorem deleted (h : SessEq s s') : s'.deleted = s.deleted :=
  (congrArg Session.deleted h.scal : s'.scal.deleted = s.scal.deleted)
theorem remoteAddr (h : SessEq s s') : s'.remoteAddr = s.remoteAddr :=
  (congrArg Session.remoteAddr h.scal : s'.scal.remoteAddr = s.scal.remoteAddr)

theorem chanContains (h : SessEq s s') (x : String) : s'.channels.contains x = s.channels.contains x :=
  contains_eq_of_perm h.channels x
theorem invContains (h : SessEq s s') (x : String) : s'.invitedTo.contains x = s.invitedTo.contains x :=
  contains_eq_of_perm h.invitedTo x
theorem mem_channels (h : SessEq s s') (x : String) : x ∈ s'.channels ↔ x ∈ s.channels := h.channels.mem_iff.symm

/-- an update that reads and writes scalar fields only -/
theorem upd (h : SessEq s s') (f : Session → Session) (hs : ∀ t, (f t).scal = (f t.scal).scal)
    (hc : ∀ t, (f t).channels = t.channels) (hi : ∀ t, (f t).invitedTo = t.invitedTo) : SessEq (f s) (f s') := by
  refine ⟨?_, by rw [hc, hc]; exact h.channels, by rw [hi, hi]; exact h.invitedTo⟩
  rw [hs s', hs s, h.scal]

theorem withChannels (h : SessEq s s') {l l' : List String} (hl : l.Perm l') :
    SessEq { s with channels := l } { s' with channels := l' } :=
  ⟨h.scal, hl, h.invitedTo⟩

theorem withInvitedTo (h : SessEq s s') {l l' : List String} (hl : l.Perm l') :
    SessEq { s with invitedTo := l } { s' with invitedTo := l' } :=
  ⟨h.scal, h.channels, hl⟩

end SessEq

theorem setInsert_perm {l l' : List String} (h : l.Perm l') (x : String) : (setInsert l x).Perm (setInsert l' x) := by
  unfold setInsert
  rw [contains_eq_of_perm h x]
  split
  · exact h
  · exact h.append (List.Perm.refl _)

/-! ## channels -/

def Channel.scal (c : Channel) : Channel := { c with nicks := [] }

structure ChanEq (c c' : Channel) : Prop where
  scal : c'.scal = c.scal
  nicks : MEq (fun (a b : Member) => a = b) c.nicks c'.nicks

namespace ChanEq
variable {c c' c'' : Channel}

theorem symm (h : ChanEq c c') : ChanEq c' c := ⟨h.scal.symm, h.nicks.symm (fun _ _ e => e.symm)⟩
theorem trans (h : ChanEq c c') (h' : ChanEq c' c'') : ChanEq c c'' :=
  ⟨h'.scal.trans h.scal, h.nicks.trans (fun _ _ _ e e' => e.trans e') h'.nicks⟩
theorem refl_of (hn : (AMap.keys c.nicks).Nodup) : ChanEq c c := ⟨rfl, MEq.refl (fun _ => rfl) hn⟩

theorem name (h : ChanEq c c') : c'.name = c.name :=
  (congrArg Channel.name h.scal : c'.scal.name = c.scal.name)
theorem topicNick (h : ChanEq c c') : c'.topicNick = c.topicNick :=
  (congrArg Channel.topicNick h.scal : c'.scal.topicNick = c.scal.topicNick)
theorem topicTime (h : ChanEq c c') : c'.topicTime = c.topicTime :=
  (congrArg Channel.topicTime h.scal : c'.scal.topicTime = c.scal.topicTime)
theorem topic (h : ChanEq c c') : c'.topic = c.topic :=
  (congrArg Channel.topic h.scal : c'.scal.topic = c.scal.topic)
theorem modes (h : ChanEq c c') : c'.modes = c.modes :=
  (congrArg Channel.modes h.scal : c'.scal.modes = c.scal.modes)
theorem key (h : ChanEq c c') : c'.key = c.key :=
  (congrArg Channel.key h.scal : c'.scal.key = c.scal.key)
theorem bans (h : ChanEq c c') : c'.bans = c.bans :=
  (congrArg Channel.bans h.scal : c'.scal.bans = c.scal.bans)

theorem get_nicks (h : ChanEq c c') (k : String) : AMap.get c'.nicks k = AMap.get c.nicks k := h.nicks.get_eq k
theorem contains_nicks (h : ChanEq c c') (k : String) : AMap.contains c'.nicks k = AMap.contains c.nicks k :=
  h.nicks.contains_eq k
theorem length_nicks (h : ChanEq c c') : c'.nicks.length = c.nicks.length := h.nicks.length_eq
theorem keys_perm (h : ChanEq c c') : (AMap.keys c.nicks).Perm (AMap.keys c'.nicks) := h.nicks.keys_perm
theorem nicks_perm (h : ChanEq c c') : c.nicks.Perm c'.nicks := h.nicks.perm

/-- an update that does not touch the member map -/
theorem upd (h : ChanEq c c') (f : Channel → Channel) (hs : ∀ t, (f t).scal = (f t.scal).scal)
    (hn : ∀ t, (f t).nicks = t.nicks) : ChanEq (f c) (f c') := by
  refine ⟨?_, by rw [hn, hn]; exact h.nicks⟩
  rw [hs c', hs c, h.scal]

theorem withNicks (h : ChanEq c c') {n n' : AMap String Member} (hn : MEq (fun a b => a = b) n n') :
    ChanEq { c with nicks := n } { c' with nicks := n' } :=
  ⟨h.scal, hn⟩

end ChanEq

/-! ## states -/

/-- the working relation on states -/
structure StEq (st st' : St) : Prop where
  sessions : MEq SessEq st.sessions st'.sessions
  nicks : MEq (fun (a b : Id) => a = b) st.nicks st'.nicks
  channels : MEq ChanEq st.channels st'.channels
  svsholds : MEq (fun (a b : SvsHold) => a = b) st.svsholds st'.svsholds
  serverSessions : st.serverSessions.Perm st'.serverSessions
  lastProcessed : st'.lastProcessed = st.lastProcessed
  serverName : st'.serverName = st.serverName
  config : st'.config = st.config
  /-- channels are stored under their lower-cased name -/
  ckey : ∀ lc ch, AMap.get st.channels lc = some ch → chanToLower ch.name = lc

namespace StEq
variable {st st' st'' : St}

theorem ckey' (h : StEq st st') : ∀ lc ch, AMap.get st'.channels lc = some ch → chanToLower ch.name = lc := by
  intro lc ch' hg
  have := h.channels.rel lc
  rw [hg] at this
  obtain ⟨ch, hg0, hr⟩ := this.of_some'
  rw [hr.name]; exact h.ckey lc ch hg0

theorem symm (h : StEq st st') : StEq st' st :=
  ⟨h.sessions.symm (fun _ _ a => SessEq.symm a), h.nicks.symm (fun _ _ e => e.symm),
   h.channels.symm (fun _ _ a => ChanEq.symm a), h.svsholds.symm (fun _ _ e => e.symm), h.serverSessions.symm,
   h.lastProcessed.symm, h.serverName.symm, h.config.symm, h.ckey'⟩

theorem trans (h : StEq st st') (h' : StEq st' st'') : StEq st st'' :=
  ⟨h.sessions.trans (fun _ _ _ a b => SessEq.trans a b) h'.sessions, h.nicks.trans (fun _ _ _ e e' => e.trans e') h'.nicks,
   h.channels.trans (fun _ _ _ a b => ChanEq.trans a b) h'.channels,
   h.svsholds.trans (fun _ _ _ e e' => e.trans e') h'.svsholds, h.serverSessions.trans h'.serverSessions,
   h'.lastProcessed.trans h.lastProcessed, h'.serverName.trans h.serverName, h'.config.trans h.config, h.ckey⟩

/-- left-reflexivity of the partial equivalence relation -/
theorem refl_left (h : StEq st st') : StEq st st := h.trans h.symm

theorem get_nicks (h : StEq st st') (k : String) : AMap.get st'.nicks k = AMap.get st.nicks k := h.nicks.get_eq k
theorem contains_nicks (h : StEq st st') (k : String) : AMap.contains st'.nicks k = AMap.contains st.nicks k :=
  h.nicks.contains_eq k
theorem get_svsholds (h : StEq st st') (k : String) : AMap.get st'.svsholds k = AMap.get st.svsholds k :=
  h.svsholds.get_eq k

end StEq

/-! ## outputs and contexts -/

structure OutEq (o o' : Out) : Prop where
  id : o'.id = o.id
  reply : o'.reply = o.reply
  data : o'.data = o.data
  rcpt : o.rcpt.Perm o'.rcpt

namespace OutEq
theorem refl (o : Out) : OutEq o o := ⟨rfl, rfl, rfl, List.Perm.refl _⟩
theorem symm {o o' : Out} (h : OutEq o o') : OutEq o' o := ⟨h.id.symm, h.reply.symm, h.data.symm, h.rcpt.symm⟩
theorem trans {o o' o'' : Out} (h : OutEq o o') (h' : OutEq o' o'') : OutEq o o'' :=
  ⟨h'.id.trans h.id, h'.reply.trans h.reply, h'.data.trans h.data, h.rcpt.trans h'.rcpt⟩
end OutEq

/-- output batches: same length, pairwise equivalent (the order of the messages matters) -/
abbrev OutsEq (l l' : List Out) : Prop := All2 OutEq l l'

theorem OutsEq.refl (l : List Out) : OutsEq l l := All2.refl OutEq.refl l
theorem OutsEq.symm {l l' : List Out} (h : OutsEq l l') : OutsEq l' l := All2.symm (R := OutEq) (fun _ _ h1 => h1.symm) h
theorem OutsEq.trans {l l' l'' : List Out} (h : OutsEq l l') (h' : OutsEq l' l'') : OutsEq l l'' :=
  All2.trans (R := OutEq) (S := OutEq) (T := OutEq) (fun _ _ _ h1 h2 => h1.trans h2) h h'

structure CEq (c c' : Ctx) : Prop where
  st : StEq c.st c'.st
  msgid : c'.msgid = c.msgid
  replyid : c'.replyid = c.replyid
  out : OutsEq c.out c'.out

namespace CEq
variable {c c' c'' : Ctx}

theorem symm (h : CEq c c') : CEq c' c := ⟨h.st.symm, h.msgid.symm, h.replyid.symm, h.out.symm⟩
theorem trans (h : CEq c c') (h' : CEq c' c'') : CEq c c'' :=
  ⟨h.st.trans h'.st, h'.msgid.trans h.msgid, h'.replyid.trans h.replyid, h.out.trans h'.out⟩
theorem refl_left (h : CEq c c') : CEq c c := h.trans h.symm

theorem serverName (h : CEq c c') : c'.st.serverName = c.st.serverName := h.st.serverName
theorem config (h : CEq c c') : c'.st.config = c.st.config := h.st.config

/-- replace the state -/
theorem withSt (h : CEq c c') {st st' : St} (hs : StEq st st') : CEq { c with st := st } { c' with st := st' } :=
  ⟨hs, h.msgid, h.replyid, h.out⟩

end CEq

/-! ## the official equivalence -/

/-- channels: same scalar fields, the member map a permutation -/
structure Channel.Equiv (c c' : Channel) : Prop where
  scal : c'.scal = c.scal
  nicks : c.nicks.Perm c'.nicks

/-- sessions: same scalar fields, the channel list and the invitations a permutation -/
abbrev Session.Equiv (s s' : Session) : Prop := SessEq s s'

/-- states: every map a permutation of the other (up to the equivalence of the values), same
scalars, same configuration -/
structure St.Equiv (st st' : St) : Prop where
  sessions : PermR (EntryRel Session.Equiv) st.sessions st'.sessions
  nicks : st.nicks.Perm st'.nicks
  channels : PermR (EntryRel Channel.Equiv) st.channels st'.channels
  svsholds : st.svsholds.Perm st'.svsholds
  serverSessions : st.serverSessions.Perm st'.serverSessions
  lastProcessed : st'.lastProcessed = st.lastProcessed
  serverName : st'.serverName = st.serverName
  config : st'.config = st.config

instance : HasEquiv St := ⟨St.Equiv⟩
instance : HasEquiv Out := ⟨OutEq⟩

theorem St.equiv_def {st st' : St} : st ≈ st' ↔ St.Equiv st st' := Iff.rfl

namespace Channel.Equiv
theorem refl (c : Channel) : Channel.Equiv c c := ⟨rfl, List.Perm.refl _⟩
theorem symm {c c' : Channel} (h : Channel.Equiv c c') : Channel.Equiv c' c := ⟨h.scal.symm, h.nicks.symm⟩
theorem trans {c c' c'' : Channel} (h : Channel.Equiv c c') (h' : Channel.Equiv c' c'') : Channel.Equiv c c'' :=
  ⟨h'.scal.trans h.scal, h.nicks.trans h'.nicks⟩
end Channel.Equiv

theorem EntryRel.refl {κ ν : Type} {R : ν → ν → Prop} (hR : ∀ a, R a a) (e : κ × ν) : EntryRel R e e := ⟨rfl, hR _⟩
theorem EntryRel.symm {κ ν : Type} {R : ν → ν → Prop} (hR : ∀ a b, R a b → R b a) {e e' : κ × ν}
    (h : EntryRel R e e') : EntryRel R e' e := ⟨h.1.symm, hR _ _ h.2⟩
theorem EntryRel.trans {κ ν : Type} {R : ν → ν → Prop} (hR : ∀ a b c, R a b → R b c → R a c) {e e' e'' : κ × ν}
    (h : EntryRel R e e') (h' : EntryRel R e' e'') : EntryRel R e e'' := ⟨h.1.trans h'.1, hR _ _ _ h.2 h'.2⟩

namespace St.Equiv

theorem refl (st : St) : St.Equiv st st :=
  ⟨PermR.refl (EntryRel.refl SessEq.refl) _, List.Perm.refl _, PermR.refl (EntryRel.refl Channel.Equiv.refl) _,
   List.Perm.refl _, List.Perm.refl _, rfl, rfl, rfl⟩

theorem symm {st st' : St} (h : St.Equiv st st') : St.Equiv st' st :=
  ⟨PermR.symm (R := EntryRel Session.Equiv) (fun _ _ h1 => ⟨h1.1.symm, h1.2.symm⟩) h.sessions, h.nicks.symm,
   PermR.symm (R := EntryRel Channel.Equiv) (fun _ _ h1 => ⟨h1.1.symm, h1.2.symm⟩) h.channels, h.svsholds.symm,
   h.serverSessions.symm, h.lastProcessed.symm, h.serverName.symm, h.config.symm⟩

theorem trans {st st' st'' : St} (h : St.Equiv st st') (h' : St.Equiv st' st'') : St.Equiv st st'' :=
  ⟨PermR.trans (R := EntryRel Session.Equiv) (fun _ _ _ h1 h2 => ⟨h1.1.trans h2.1, h1.2.trans h2.2⟩)
     h.sessions h'.sessions,
   h.nicks.trans h'.nicks,
   PermR.trans (R := EntryRel Channel.Equiv) (fun _ _ _ h1 h2 => ⟨h1.1.trans h2.1, h1.2.trans h2.2⟩)
     h.channels h'.channels,
   h.svsholds.trans h'.svsholds, h.serverSessions.trans h'.serverSessions,
   h'.lastProcessed.trans h.lastProcessed, h'.serverName.trans h.serverName, h'.config.trans h.config⟩

end St.Equiv

/-- `≈` is an equivalence relation on states -/
theorem St.equiv_equivalence : Equivalence (fun (a b : St) => a ≈ b) :=
  ⟨St.Equiv.refl, St.Equiv.symm, St.Equiv.trans⟩

/-- `≈` is an equivalence relation on output messages -/
theorem Out.equiv_equivalence : Equivalence (fun (a b : Out) => a ≈ b) :=
  ⟨OutEq.refl, OutEq.symm, OutEq.trans⟩

/-! ### working relation ⇄ official equivalence -/

/-- the `svsholds` map has duplicate-free keys (not part of `GInv`; preserved by every entry) -/
def HoldsNodup (st : St) : Prop := (AMap.keys st.svsholds).Nodup

theorem ChanEq.toEquiv {c c' : Channel} (h : ChanEq c c') : Channel.Equiv c c' := ⟨h.scal, h.nicks.perm⟩

theorem Channel.Equiv.toChanEq {c c' : Channel} (h : Channel.Equiv c c') (hn : (AMap.keys c.nicks).Nodup) :
    ChanEq c c' := ⟨h.scal, MEq.ofPerm h.nicks hn⟩

theorem StEq.toEquiv {st st' : St} (h : StEq st st') : St.Equiv st st' :=
  ⟨h.sessions.toPermR, h.nicks.perm,
   h.channels.toPermR.mono (fun a b hab => ⟨hab.1, hab.2.toEquiv⟩), h.svsholds.perm, h.serverSessions,
   h.lastProcessed, h.serverName, h.config⟩

theorem St.Equiv.toStEq {st st' : St} (h : St.Equiv st st') (hI : WInvCore st) (hS : HoldsNodup st) : StEq st st' := by
  refine ⟨MEq.ofPermR h.sessions hI.sessNodup, MEq.ofPerm h.nicks hI.nickNodup, ?_, MEq.ofPerm h.svsholds hS,
    h.serverSessions, h.lastProcessed, h.serverName, h.config, fun lc ch hg => (hI.chans lc ch hg).1⟩
  have h1 : MEq Channel.Equiv st.channels st'.channels := MEq.ofPermR h.channels hI.chanNodup
  refine ⟨h1.nd, h1.nd', fun k => ?_⟩
  have hk := h1.rel k
  generalize hg : AMap.get st.channels k = o at hk
  generalize hg' : AMap.get st'.channels k = o' at hk
  cases hk with
  | nn => exact .nn
  | ss hr => exact .ss (hr.toChanEq (hI.chans k _ hg).2.1)

end Robust.Irc
