import Robust.Irc.Proofs.UlenRelay
import Robust.Irc.Proofs.CleanInv
/-!
C15, clause "every delivered line starts with a prefix and a command", all lines.

Every line a handler emits is built with one of five kinds of prefix:

* the server prefix (`srv`): numeric replies, server notices, `SJOIN` / `MODE` for services;
* no prefix: `ERROR`, and the `SERVER` / `NICK` lines for services;
* the stored prefix of a session (`s.ircPrefix`): everything that is relayed;
* the bare nickname of a stored session (`⟨s.nick, "", ""⟩`): the `TOPIC` line for services;
* a prefix taken from the line services sent (`servicesPrefix m`, `m.pfx`).

`KSess s` collects what is needed of a stored session value so that its prefix is short and contains no space,
*and stays so* when a handler recomputes it (`updateIrcPrefix`): prefix, nickname, user name and numeric id are
bounded.  `KInv st` says that every stored session satisfies it and that the server name is short and
spaceless.  `KStep c0 c` : `KInv c.st` and every line appended between `c0` and `c` has a command.

Unlike `GInv` / `PInv` / `UInv` this invariant is self-contained (it holds between the primitives of a handler),
so one walk through each handler gives both its preservation and the command of every emitted line.
-/
namespace Robust.Irc
open Robust AMap

/-! ## the invariant -/

/-- bound on the stored prefix: `nick!user@robust/0x…` (178 bytes) for everything a client or `updateIrcPrefix`
produces; the name a services link announces in its `SERVER` line may have up to 300 bytes -/
def pfxCap (s : Session) : Nat := if s.server then 300 else 178

theorem pfxCap_le (s : Session) : pfxCap s ≤ 300 := by unfold pfxCap; split <;> omega

structure KSess (s : Session) : Prop where
  pfxSp : Spaceless s.ircPrefix.str
  pfxLen : s.ircPrefix.str.utf8ByteSize ≤ pfxCap s
  nickSp : Spaceless s.nick
  nickLen : s.nick.utf8ByteSize ≤ 31
  userSp : Spaceless s.username
  userLen : s.username.toList.length ≤ 30
  id64 : s.id.id < 2 ^ 64

/-- every stored session has a short prefix without space (and the ingredients from which `updateIrcPrefix`
rebuilds it are bounded); the server name is short and has no space -/
structure KInv (st : St) : Prop where
  sessions : ∀ e ∈ st.sessions, KSess e.2
  name : SrvNameOK st

theorem KInv_init : KInv ({} : St) := ⟨fun _ h => (nomatch h), ⟨by decide, by decide⟩⟩

theorem KInv.get {st : St} (h : KInv st) {sid : Id} {s : Session} (hs : AMap.get st.sessions sid = some s) :
    KSess s := h.sessions _ (AMap.mem_of_get hs)

theorem ksess_of_getS {c : Ctx} {sid : Id} {s : Session} (hs : getS c sid = .ok s) (h : KInv c.st) : KSess s :=
  h.get (getS_eq_ok.1 hs)
theorem ksess_of_get {st : St} {sid : Id} {s : Session} (hs : AMap.get st.sessions sid = some s) (h : KInv st) :
    KSess s := h.get hs

theorem KInv.same {st st' : St} (h : KInv st) (h1 : st'.sessions = st.sessions)
    (h2 : st'.serverName = st.serverName) : KInv st' :=
  ⟨by rw [h1]; exact h.sessions, ⟨by rw [h2]; exact h.name.spaceless, by rw [h2]; exact h.name.short⟩⟩

theorem KInv.setSession {st : St} (h : KInv st) {k : Id} {v : Session} (hv : KSess v) :
    KInv { st with sessions := AMap.set st.sessions k v } :=
  ⟨all_set h.sessions hv, ⟨h.name.spaceless, h.name.short⟩⟩

/-! ## what happens to one session value -/

/-- a function on sessions that keeps the fields `KSess` reads -/
def KKeep (f : Session → Session) : Prop :=
  ∀ s, (f s).ircPrefix = s.ircPrefix ∧ (f s).nick = s.nick ∧ (f s).username = s.username ∧
    (f s).id = s.id ∧ (f s).server = s.server

theorem KSess.congr {s s' : Session} (h : KSess s) (e1 : s'.ircPrefix = s.ircPrefix) (e2 : s'.nick = s.nick)
    (e3 : s'.username = s.username) (e4 : s'.id = s.id) (e5 : s'.server = s.server) : KSess s' := by
  have ec : pfxCap s' = pfxCap s := by unfold pfxCap; rw [e5]
  exact ⟨by rw [e1]; exact h.pfxSp, by rw [e1, ec]; exact h.pfxLen, by rw [e2]; exact h.nickSp,
    by rw [e2]; exact h.nickLen, by rw [e3]; exact h.userSp, by rw [e3]; exact h.userLen, by rw [e4]; exact h.id64⟩

theorem KSess.keep {s : Session} (h : KSess s) {f : Session → Session} (hf : KKeep f) : KSess (f s) := by
  obtain ⟨e1, e2, e3, e4, e5⟩ := hf s
  exact h.congr e1 e2 e3 e4 e5

theorem utf8ByteSize_empty : ("" : String).utf8ByteSize = 0 := by decide

/-- `updateIrcPrefix`: the prefix rebuilt from bounded ingredients is bounded (178 bytes) -/
theorem KSess.update {s : Session} (h : KSess s) : KSess (updateIrcPrefix s) := by
  have hub : s.username.utf8ByteSize ≤ 120 := by
    have := utf8ByteSize_le s.username
    have := h.userLen
    omega
  obtain ⟨hh, sh⟩ := robustHost_bounds h.id64
  have hb := prefix_str_bounds (⟨s.nick, s.username, "robust/0x" ++ hexNat s.id.id⟩ : Prefix)
    (a := 31) (b := 120) (d := 25) h.nickLen hub hh h.nickSp h.userSp sh
  refine ⟨hb.2, ?_, h.nickSp, h.nickLen, h.userSp, h.userLen, h.id64⟩
  have h1 : (updateIrcPrefix s).ircPrefix.str.utf8ByteSize ≤ 31 + 1 + 120 + 1 + 25 := hb.1
  have e : pfxCap (updateIrcPrefix s) = pfxCap s := rfl
  rw [e]
  unfold pfxCap
  split <;> omega

/-- a new nickname that passed `isValidNickname` -/
theorem KSess.setNick {s : Session} (h : KSess s) {nick : String} (hv : isValidNickname nick = true) :
    KSess { s with nick := nick } := by
  obtain ⟨a, b, c⟩ := validNick_bounds hv
  exact ⟨h.pfxSp, h.pfxLen, c, by show nick.utf8ByteSize ≤ 31; rw [utf8ByteSize_ascii b]; exact a,
    h.userSp, h.userLen, h.id64⟩

/-- a new user name: a parameter without space, cut to 30 characters -/
theorem KSess.setUser {s : Session} (h : KSess s) {u : String} (hu : Spaceless u) (r : String) :
    KSess { s with username := truncateUsername u, realname := r } :=
  ⟨h.pfxSp, h.pfxLen, h.nickSp, h.nickLen, truncateUsername_spaceless hu, truncateUsername_length u, h.id64⟩

/-- a fresh session (`createSession`) -/
theorem KSess.fresh {id : Id} (hid : id.id < 2 ^ 64) (auth : String) (ts : Int) :
    KSess { id := id, auth := auth, created := ts, lastActivity := ts, lastNonPing := ts, svid := "0" } :=
  ⟨(by decide : Spaceless (Prefix.str ⟨"", "", ""⟩)),
    (by decide : (Prefix.str ⟨"", "", ""⟩).utf8ByteSize ≤ 178),
    (by decide : Spaceless ""), (by decide : ("" : String).utf8ByteSize ≤ 31),
    (by decide : Spaceless ""), (by decide : ("" : String).toList.length ≤ 30), hid⟩

/-- the name of a bare prefix -/
theorem bare_prefix_bounds {n : String} {a : Nat} (hs : Spaceless n) (hl : n.utf8ByteSize ≤ a) :
    Spaceless (Prefix.str ⟨n, "", ""⟩) ∧ (Prefix.str ⟨n, "", ""⟩).utf8ByteSize ≤ a := by
  have e0 : ("" : String).utf8ByteSize ≤ 0 := by decide
  have hb := prefix_str_bounds (⟨n, "", ""⟩ : Prefix) (a := a) (b := 0) (d := 0) hl e0 e0 hs spaceless_empty
    spaceless_empty
  have hlen : (Prefix.str ⟨n, "", ""⟩).utf8ByteSize ≤ a := by
    unfold Prefix.str
    have e : ("" : String).isEmpty = true := by decide
    simp only [e, ↓reduceIte]
    rw [utf8ByteSize_append, utf8ByteSize_append, utf8ByteSize_empty]
    omega
  exact ⟨hb.2, hlen⟩

/-- `SERVER name …`: the session becomes a link under the announced name -/
theorem KSess.setServer {s : Session} (h : KSess s) {p0 : String} (hs : Spaceless p0) (hl : p0.utf8ByteSize ≤ 300) :
    KSess { s with server := true, ircPrefix := ⟨p0, "", ""⟩ } := by
  obtain ⟨a, b⟩ := bare_prefix_bounds hs hl
  exact ⟨a, b, h.nickSp, h.nickLen, h.userSp, h.userLen, h.id64⟩

/-! ## lines that keep their command -/

/-- a command that fits under any stored prefix: good, and at most `510 - 2 - 300 = 208` bytes (all literal
commands of the handlers: `by decide`) -/
structure LitCmd (cmd : String) : Prop where
  good : GoodCmd cmd
  short : cmd.utf8ByteSize ≤ 208

instance (cmd : String) : Decidable (LitCmd cmd) :=
  decidable_of_iff (GoodCmd cmd ∧ cmd.utf8ByteSize ≤ 208) ⟨fun ⟨a, b⟩ => ⟨a, b⟩, fun ⟨a, b⟩ => ⟨a, b⟩⟩

theorem hc_of_pfx {p : Prefix} {cmd : String} (hsp : Spaceless p.str) (hg : GoodCmd cmd)
    (hlen : p.str.utf8ByteSize + cmd.utf8ByteSize + 2 ≤ 510) (params : List String) :
    HasCommand (IrcMsg.mk (some p) cmd params).render :=
  render_hasCommand _ hg.ne hg.spaceless (fun q hq => by cases hq; exact ⟨hsp, hlen⟩) (fun h => by cases h)

/-- server-prefixed lines -/
theorem hc_srv {c : Ctx} (hn : SrvNameOK c.st) {cmd : String} (hg : GoodCmd cmd) (params : List String) :
    HasCommand (srv c cmd params).render :=
  hasCommand_of_token (srv_cmdToken hn hg params) hg.ne

/-- lines without prefix -/
theorem hc_plain {cmd : String} (hg : GoodCmd cmd) (hcol : cmd.toList.head? ≠ some ':') (params : List String) :
    HasCommand (IrcMsg.mk none cmd params).render :=
  hasCommand_of_token (plain_cmdToken hg hcol params) hg.ne

/-- a literal command under the stored prefix of any session -/
theorem KSess.hc {s : Session} (h : KSess s) {cmd : String} (hl : LitCmd cmd) (params : List String) :
    HasCommand (IrcMsg.mk (some s.ircPrefix) cmd params).render := by
  have := h.pfxLen
  have := pfxCap_le s
  have := hl.short
  exact hc_of_pfx h.pfxSp hl.good (by omega) params

/-- any good command under the stored prefix of a session that is not a services link -/
theorem KSess.hc_client {s : Session} (h : KSess s) (hns : s.server = false) {cmd : String} (hg : GoodCmd cmd)
    (params : List String) : HasCommand (IrcMsg.mk (some s.ircPrefix) cmd params).render := by
  have h1 := h.pfxLen
  unfold pfxCap at h1
  rw [hns] at h1
  simp only [Bool.false_eq_true, ↓reduceIte] at h1
  have := hg.short
  exact hc_of_pfx h.pfxSp hg (by omega) params

/-- a literal command under the bare nickname of a stored session -/
theorem KSess.hc_nick {s : Session} (h : KSess s) {cmd : String} (hl : LitCmd cmd) (params : List String) :
    HasCommand (IrcMsg.mk (some ⟨s.nick, "", ""⟩) cmd params).render := by
  obtain ⟨a, b⟩ := bare_prefix_bounds h.nickSp h.nickLen
  have := hl.short
  exact hc_of_pfx a hl.good (by omega) params

/-! ### prefixes taken from the line services sent -/

/-- what is assumed of the prefix of a line sent by services: no space, at most 160 bytes -/
def PfxArgOK (m : IrcMsg) : Prop := ∀ p, m.pfx = some p → Spaceless p.str ∧ p.str.utf8ByteSize ≤ 160

theorem prefix_name_le (p : Prefix) : p.name.utf8ByteSize ≤ p.str.utf8ByteSize := by
  unfold Prefix.str
  rw [utf8ByteSize_append, utf8ByteSize_append]
  omega

theorem prefix_name_spaceless {p : Prefix} (h : Spaceless p.str) : Spaceless p.name := by
  intro c hc
  apply h c
  unfold Prefix.str
  rw [String.toList_append, String.toList_append]
  exact List.mem_append_left _ (List.mem_append_left _ hc)

/-- `name!services@services` -/
theorem servicesPrefix_bounds {m : IrcMsg} {sp : Prefix} (hs : servicesPrefix m = .ok sp) (hp : PfxArgOK m) :
    Spaceless sp.str ∧ sp.str.utf8ByteSize ≤ 178 := by
  unfold servicesPrefix pfxName at hs
  cases hpx : m.pfx with
  | none => rw [hpx] at hs; cases hs
  | some p =>
    rw [hpx] at hs
    cases hs
    obtain ⟨h1, h2⟩ := hp p hpx
    have hn := prefix_name_le p
    have e : ("services" : String).utf8ByteSize ≤ 8 := by decide
    have hb := prefix_str_bounds (⟨p.name, "services", "services"⟩ : Prefix) (a := 160) (b := 8) (d := 8)
      (by show p.name.utf8ByteSize ≤ 160; omega) e e
      (show Spaceless p.name from prefix_name_spaceless h1)
      (show Spaceless "services" by decide) (show Spaceless "services" by decide)
    exact ⟨hb.2, hb.1⟩

/-- any good command under `servicesPrefix m` -/
theorem hc_svc {m : IrcMsg} {sp : Prefix} (hs : servicesPrefix m = .ok sp) (hp : PfxArgOK m) {cmd : String}
    (hg : GoodCmd cmd) (params : List String) : HasCommand (IrcMsg.mk (some sp) cmd params).render := by
  obtain ⟨a, b⟩ := servicesPrefix_bounds hs hp
  have := hg.short
  exact hc_of_pfx a hg (by omega) params

/-- a literal command under the prefix of the line itself -/
theorem hc_msgPfx {m : IrcMsg} {p : Prefix} (hpx : m.pfx = some p) (hp : PfxArgOK m) {cmd : String}
    (hl : LitCmd cmd) (params : List String) : HasCommand (IrcMsg.mk (some p) cmd params).render := by
  obtain ⟨a, b⟩ := hp p hpx
  have := hl.short
  exact hc_of_pfx a hl.good (by omega) params

/-! ## the step predicate -/

/-- the line has a command -/
def HC (o : Out) : Prop := HasCommand o.data

/-- `KInv` holds of the state of `c`, and every line appended since `c0` has a command -/
structure KStep (c0 c : Ctx) : Prop where
  inv : KInv c.st
  out : NewOut HC c0 c

namespace KStep
variable {c0 c c' : Ctx}

theorem start {c : Ctx} (h : KInv c.st) : KStep c c := ⟨h, NewOut.refl _ _⟩

theorem emit {m : IrcMsg} {r : List Nat} (h : KStep c0 c) (hm : HasCommand m.render) :
    KStep c0 (Robust.Irc.emit c m r) :=
  ⟨h.inv, h.out.emit fun _ _ => hm⟩

theorem sendUser {sid : Id} {m : IrcMsg} (h : KStep c0 c) (hm : HasCommand m.render) :
    KStep c0 (Robust.Irc.sendUser c sid m) := h.emit hm

theorem sendSvc {m : IrcMsg} (h : KStep c0 c) (hm : HasCommand m.render) :
    KStep c0 (Robust.Irc.sendSvc c m) := h.emit hm

/-- variants that hand the invariant of the (possibly opaque) context to the proof about the message -/
theorem emit' {m : IrcMsg} {r : List Nat} (h : KStep c0 c) (hm : KInv c.st → HasCommand m.render) :
    KStep c0 (Robust.Irc.emit c m r) := h.emit (hm h.inv)
theorem sendUser' {sid : Id} {m : IrcMsg} (h : KStep c0 c) (hm : KInv c.st → HasCommand m.render) :
    KStep c0 (Robust.Irc.sendUser c sid m) := h.emit (hm h.inv)
theorem sendSvc' {m : IrcMsg} (h : KStep c0 c) (hm : KInv c.st → HasCommand m.render) :
    KStep c0 (Robust.Irc.sendSvc c m) := h.emit (hm h.inv)

theorem ite {p : Prop} [Decidable p] {a b : Ctx} (ha : KStep c0 a) (hb : KStep c0 b) :
    KStep c0 (if p then a else b) := by
  split <;> assumption

/-- a step that keeps the sessions, the server name and the output -/
theorem same (h : KStep c0 c) (h1 : c'.st.sessions = c.st.sessions) (h2 : c'.st.serverName = c.st.serverName)
    (ho : c'.out = c.out) : KStep c0 c' :=
  ⟨h.inv.same h1 h2, h.out.step ho⟩

/-- replacing the state, keeping the output -/
theorem setSt (h : KStep c0 c) {st : St} (hs : KInv st) : KStep c0 { c with st := st } :=
  ⟨hs, h.out.step rfl⟩

theorem putChan {lc : String} {ch : Channel} (h : KStep c0 c) : KStep c0 (Robust.Irc.putChan c lc ch) :=
  h.same rfl rfl rfl

theorem putS {s : Session} (h : KStep c0 c) (hs : KSess s) : KStep c0 (Robust.Irc.putS c s) :=
  ⟨h.inv.setSession hs, h.out.step rfl⟩

theorem modS {tid : Id} {f : Session → Session} (h : KStep c0 c) (hr : Robust.Irc.modS c tid f = .ok c')
    (hf : ∀ s, KSess s → KSess (f s)) : KStep c0 c' := by
  obtain ⟨s, hs, rfl⟩ := modS_eq_ok.1 hr
  exact h.putS (hf s (h.inv.get hs))

theorem modS_keep {tid : Id} {f : Session → Session} (h : KStep c0 c) (hr : Robust.Irc.modS c tid f = .ok c')
    (hf : KKeep f) : KStep c0 c' :=
  h.modS hr fun _ hs => hs.keep hf

theorem getS (h : KStep c0 c) {sid : Id} {s : Session} (hs : Robust.Irc.getS c sid = .ok s) : KSess s :=
  ksess_of_getS hs h.inv

theorem maybeDeleteChannel (h : KStep c0 c) (lc : String) : KStep c0 (Robust.Irc.maybeDeleteChannel c lc) := by
  unfold Robust.Irc.maybeDeleteChannel
  split
  · exact h
  · split
    · exact h
    · refine ⟨⟨?_, ⟨h.inv.name.spaceless, h.inv.name.short⟩⟩, h.out.step rfl⟩
      refine all_mapVal h.inv.sessions (fun e => { e.2 with invitedTo := _ }) ?_
      intro e _ he
      exact he.congr rfl rfl rfl rfl rfl

theorem leaveChannel {lc lcn : String} {tid : Id} (h : KStep c0 c)
    (hr : Robust.Irc.leaveChannel c lc lcn tid = .ok c') : KStep c0 c' := by
  unfold Robust.Irc.leaveChannel at hr
  split at hr
  · exact ((h.putChan).maybeDeleteChannel lc).modS_keep hr fun _ => ⟨rfl, rfl, rfl, rfl, rfl⟩
  · cases hr

theorem foldl {α : Type} {f : Ctx → α → Ctx} {l : List α} (hf : ∀ c a, a ∈ l → KStep c0 c → KStep c0 (f c a))
    {c : Ctx} (h : KStep c0 c) : KStep c0 (l.foldl f c) :=
  foldl_inv (KStep c0) f l c h fun c a ha hc => hf c a ha hc

theorem foldlM {α : Type} {f : Ctx → α → Res Ctx} :
    ∀ {l : List α} {c c' : Ctx}, (∀ c a c', a ∈ l → KStep c0 c → f c a = .ok c' → KStep c0 c') → KStep c0 c →
      l.foldlM f c = .ok c' → KStep c0 c'
  | [], c, c', _, h, hr => by cases hr; exact h
  | a :: l, c, c', hf, h, hr => by
    rw [List.foldlM_cons] at hr
    obtain ⟨c1, h1, hr⟩ := Res.bind_eq_ok.1 hr
    exact KStep.foldlM (fun c a c' ha => hf c a c' (List.mem_cons_of_mem _ ha))
      (hf c a c1 (List.mem_cons_self ..) h h1) hr

theorem deleteSession {sid : Id} (h : KStep c0 c) (hr : Robust.Irc.deleteSession c sid = .ok c') :
    KStep c0 c' := by
  unfold Robust.Irc.deleteSession at hr
  obtain ⟨s, _, hr⟩ := Res.bind_eq_ok.1 hr
  dsimp only at hr
  refine KStep.modS_keep ?_ hr (fun _ => ⟨rfl, rfl, rfl, rfl, rfl⟩)
  have h1 : KStep c0 (c.st.channels.foldl (fun (c : Ctx) (e : String × Channel) =>
      match getChan c e.1 with
      | none => c
      | some ch =>
        let c := Robust.Irc.putChan c e.1 { ch with nicks := AMap.erase ch.nicks (nickToLower s.nick) }
        Robust.Irc.maybeDeleteChannel c e.1) c) := by
    refine KStep.foldl ?_ h
    intro c1 e _ h1
    split
    · exact h1
    · exact (h1.putChan).maybeDeleteChannel _
  exact h1.same rfl rfl rfl

end KStep

/-! ## tactics -/

/-- `KSess s` from the context -/
syntax "ksess" : tactic
macro_rules | `(tactic| ksess) => `(tactic| first
  | with_reducible assumption
  | with_reducible exact ksess_of_getS (by assumption) (by assumption)
  | with_reducible exact ksess_of_get (by assumption) (by assumption))

/-- `HasCommand msg.render` for the message forms the handlers build; `hI : KInv X.st` for the context `X` in
which a server-prefixed message is built is expected under the name given -/
syntax "hc_msg" : tactic
macro_rules | `(tactic| hc_msg) => `(tactic| first
  | with_reducible assumption
  | ((with_reducible refine hc_srv (KInv.name ?_) ?_ _) <;> first | with_reducible assumption | decide)
  | ((with_reducible refine hc_plain ?_ ?_ _) <;> decide)
  | ((with_reducible refine KSess.hc_client ?_ ?_ ?_ _) <;> first | with_reducible assumption | ksess)
  | ((with_reducible refine KSess.hc ?_ ?_ _) <;> first | ksess | decide)
  | ((with_reducible refine KSess.hc_nick ?_ ?_ _) <;> first | ksess | decide)
  | with_reducible exact hc_svc (by assumption) (by assumption) (by first | assumption | decide) _)

/-- `KStep c0 (sendUser (emit (putChan … c …) …) …)` from `KStep c0 c` in the context; what cannot be closed is
left as goals -/
syntax "kstep_tac" : tactic
macro_rules | `(tactic| kstep_tac) => `(tactic| repeat' (first
  | with_reducible assumption
  | apply KStep.sendUser'
  | apply KStep.sendSvc'
  | apply KStep.emit'
  | apply KStep.putChan
  | apply KStep.ite
  | (intro hI; hc_msg)))

/-- forward step of the walk: `h : prim … = .ok c1` for a state-changing primitive gives `KStep c0 c1` and
`KInv c1.st` (as anonymous hypotheses, found by `assumption`) -/
syntax "kfwd" ident : tactic
macro_rules | `(tactic| kfwd $h:ident) => `(tactic| first
  | ((with_reducible have _hg : Robust.Irc.deleteSession _ _ = Res.ok _ := $h);
     have hc1 := KStep.deleteSession (by kstep_tac) $h
     have hI1 := KStep.inv hc1)
  | ((with_reducible have _hg : Robust.Irc.leaveChannel _ _ _ _ = Res.ok _ := $h);
     have hc1 := KStep.leaveChannel (by kstep_tac) $h
     have hI1 := KStep.inv hc1)
  | ((with_reducible have _hg : Robust.Irc.modS _ _ _ = Res.ok _ := $h);
     have hc1 := KStep.modS_keep (by kstep_tac) $h (fun _ => ⟨rfl, rfl, rfl, rfl, rfl⟩)
     have hI1 := KStep.inv hc1))

/-- brute-force walk through a handler: `kwalk hr` with `hr : … = .ok c'`, `KStep c0 c` and `KInv c.st` in the
context; what it cannot close is left as goals -/
macro "kwalk" hr:ident : tactic =>
  `(tactic| repeat' (first
      | split at $hr:ident
      | (obtain ⟨_, h1, $hr:ident⟩ := Res.bind_eq_ok.1 $hr:ident; try kfwd h1)
      | dsimp only at $hr:ident
      | (cases $hr:ident; kstep_tac)
      | (refine KStep.leaveChannel ?_ $hr:ident; kstep_tac)
      | (refine KStep.deleteSession ?_ $hr:ident; kstep_tac)
      | (refine KStep.modS_keep ?_ $hr:ident (fun _ => ⟨rfl, rfl, rfl, rfl, rfl⟩); kstep_tac)))

end Robust.Irc
