import Robust.Irc.Proofs.RcptSrv
import Robust.Irc.Proofs.RcptLeave
import Robust.Irc.Proofs.RcptJoin
import Robust.Irc.Proofs.RcptQuit
import Robust.Irc.Proofs.RcptNick
/-!
C12 for the services handlers (`SCmds.lean`): shared helpers.

Convention of the `Srv…Line` types (one per handler, files `RcptSvcA/B/C.lean`): `st` is the state in which
the handler starts, `m` the parsed line; the constructor `reply` is a numeric reply that goes to the services
links only (`o.rcpt = st.serverSessions`); every other constructor fixes the exact recipient set with `RcptIs`
/ `ToOnly`, relative to `st`.
-/
namespace Robust.Irc
open Robust AMap

/-- one more line for the services links -/
theorem NewOut.sendSvc {P : Out → Prop} {a c : Ctx} (h : NewOut P a c) {m : IrcMsg}
    (hp : ∀ i k, P ⟨i, k, m.render, c.st.serverSessions⟩) : NewOut P a (Robust.Irc.sendSvc c m) :=
  h.emit hp

/-- between entries the state is an `HInv` state without flagged sessions -/
theorem Inv.of_hinv {st : St} (h : HInv st) (hd : ∀ id s, AMap.get st.sessions id = some s → s.deleted = false) :
    Inv st := ⟨h, hd⟩

/-- `leaveChannel` keeps "no stored session is flagged deleted" -/
theorem LeaveSpec.noDeleted {c c' : Ctx} {lc lcn : String} {tid : Id} (sp : LeaveSpec c c' lc lcn tid)
    (hd : ∀ id s, AMap.get c.st.sessions id = some s → s.deleted = false) :
    ∀ id s, AMap.get c'.st.sessions id = some s → s.deleted = false := by
  intro id s' hs'
  cases hg0 : AMap.get c.st.sessions id with
  | none =>
    have : id ∉ AMap.keys c'.st.sessions := by rw [sp.keys]; exact AMap.get_eq_none_iff.1 hg0
    exact absurd (AMap.mem_keys_of_get hs') this
  | some s =>
    by_cases hid : id = tid
    · subst hid
      obtain ⟨inv, h⟩ := sp.self s hg0
      rw [h] at hs'; cases hs'
      exact hd _ s hg0
    · obtain ⟨inv, h⟩ := sp.others id s hid hg0
      rw [h] at hs'; cases hs'
      exact hd _ s hg0

/-- `leaveChannel` from a state between entries ends in a state between entries -/
theorem leaveChannel_inv {c c' : Ctx} {lc lcn : String} {tid : Id} (hi : Inv c.st)
    (hidx : AMap.get c.st.nicks lcn = some tid) (hr : leaveChannel c lc lcn tid = .ok c') : Inv c'.st :=
  ⟨leaveChannel_HInv hi.toHInv hidx hr, (leaveChannel_spec hi.toWInv hidx hr).noDeleted hi.noDeleted⟩

end Robust.Irc
