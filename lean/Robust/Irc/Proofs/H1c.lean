import Robust.Irc.Proofs.H1a
/-!
Handler proofs, group 1 — part c: `cmdNick`.
-/
namespace Robust.Irc
open AMap

/-! ## factoring `cmdNick` -/

/-- `cmdNick` drops an expired SVSHOLD on the nick -/
def holdCtx (c : Ctx) (k : String) (held : Option SvsHold) : Ctx :=
  match held with
  | some _ => { c with st := { c.st with svsholds := AMap.erase c.st.svsholds k } }
  | none => c

theorem holdCtx_facts (c : Ctx) (k : String) (held : Option SvsHold) :
    (holdCtx c k held).st.sessions = c.st.sessions ∧ (holdCtx c k held).st.nicks = c.st.nicks ∧
    (holdCtx c k held).st.channels = c.st.channels := by
  cases held <;> exact ⟨rfl, rfl, rfl⟩

theorem holdCtx_out (c : Ctx) (k : String) (held : Option SvsHold) : OutStep c (holdCtx c k held) := by
  cases held
  · exact OutStep.refl _
  · exact (OutStep.refl c).of_eq rfl rfl

/-- the part of `cmdNick` after the admission checks (the join point of the SVSHOLD `match`) -/
def cmdNickTail (c : Ctx) (sid : Id) (m : IrcMsg) (s : Session) (nick : String) (held : Option SvsHold) : Res Ctx := do
  let oldPrefix := s.ircPrefix
  let dest := if s.loggedIn then s.nick else "*"
  let onlyCapsChanged := s.loggedIn && nickToLower nick == nickToLower dest
  let lcnew := nickToLower nick
  let c := holdCtx c lcnew held
  if s.nick == nick then return c
  let oldNick := nickToLower s.nick
  let c ← modS c sid fun s => { s with nick := nick }
  let c := renameCtx c sid lcnew oldNick (oldNick != "" && !onlyCapsChanged)
  let c ← modS c sid updateIrcPrefix
  if oldNick != "" then
    let s ← getS c sid
    let rc ← rcCommonChannels c.st s
    return emit c ⟨some oldPrefix, "NICK", [nick]⟩ (rcUser sid ++ rc ++ rcServices c.st)
  maybeLogin c sid m

theorem cmdNick_eq (c : Ctx) (sid : Id) (m : IrcMsg) :
    cmdNick c sid m = (do
      let s ← getS c sid
      let nick := m.params.head?.getD ""
      if nick == "" then
        return sendUser c sid (srv c "431" ["No nickname given"])
      let dest := if s.loggedIn then s.nick else "*"
      let onlyCapsChanged := s.loggedIn && nickToLower nick == nickToLower dest
      if !isValidNickname nick then
        return sendUser c sid (srv c "432" [dest, nick, "Erroneous nickname"])
      if (AMap.contains c.st.nicks (nickToLower nick) && !onlyCapsChanged) || isServicesNickname nick then
        return sendUser c sid (srv c "433" [dest, nick, "Nickname is already in use"])
      match AMap.get c.st.svsholds (nickToLower nick) with
      | some hold =>
        if !(s.lastActivity > hold.added + hold.duration) then
          return sendUser c sid (srv c "432" [dest, nick, "Erroneous Nickname: " ++ hold.reason])
        else cmdNickTail c sid m s nick (some hold)
      | none => cmdNickTail c sid m s nick none) := by
  unfold cmdNick cmdNickTail renameCtx holdCtx
  cases getS c sid with
  | panic e => rfl
  | declined e => rfl
  | ok s =>
    simp only [Res.ok_bind]
    cases AMap.get c.st.svsholds (nickToLower (m.params.head?.getD "")) <;> rfl

theorem renameCtx_out (c : Ctx) (tid : Id) (lcnew old : String) (b : Bool) :
    OutStep c (renameCtx c tid lcnew old b) := by
  unfold renameCtx
  cases b
  · exact (OutStep.refl c).of_eq rfl rfl
  · exact (OutStep.refl c).of_eq rfl rfl

/-- which `RenameCase` applies in `cmdNick` -/
theorem cmdNick_renameCase {st : St} {sid : Id} {s : Session} {nick : String} {b : Bool}
    (h : WInvCore st) (hs : AMap.get st.sessions sid = some s) (hlive : s.deleted = false)
    (hnick : nick ≠ "")
    (hfirst : s.nick = "" → (∀ x, AMap.get st.nicks x ≠ some sid) ∧ s.channels = [])
    (hfree : AMap.contains st.nicks (nickToLower nick) = false ∨
      (s.loggedIn && nickToLower nick == nickToLower (if s.loggedIn then s.nick else "*")) = true)
    (hb : (nickToLower s.nick != "" &&
      !(s.loggedIn && nickToLower nick == nickToLower (if s.loggedIn = true then s.nick else "*"))) = b) :
    RenameCase st.nicks sid s (nickToLower nick) (nickToLower s.nick) b := by
  cases hoc : (s.loggedIn && nickToLower nick == nickToLower (if s.loggedIn = true then s.nick else "*")) with
  | true =>
    -- case-only change of a logged-in session
    have hb' : b = false := by rw [← hb, hoc]; simp
    rw [hb']
    have hl : s.loggedIn = true := by
      cases hl : s.loggedIn with
      | true => rfl
      | false => rw [hl] at hoc; simp at hoc
    rw [hl] at hoc
    simp only [Bool.true_and, if_true, beq_iff_eq] at hoc
    have hne : s.nick ≠ "" := by
      intro he; rw [he, nickToLower_empty] at hoc
      exact hnick (nickToLower_eq_empty.1 hoc)
    exact .same (by rw [hoc]; exact h.owns sid s hs hlive hne)
  | false =>
    have hnone : AMap.get st.nicks (nickToLower nick) = none := by
      rcases hfree with h1 | h1
      · exact AMap.contains_eq_false_iff.1 h1
      · rw [hoc] at h1; cases h1
    by_cases hold : nickToLower s.nick = ""
    · have hb' : b = false := by rw [← hb, hold]; simp
      rw [hb']
      have := hfirst (nickToLower_eq_empty.1 hold)
      exact .first hnone this.1 hlive this.2
    · have hb' : b = true := by rw [← hb, hoc]; simp [hold]
      rw [hb']
      have hne : s.nick ≠ "" := fun he => hold (by rw [he]; exact nickToLower_empty)
      exact .rekey (h.owns sid s hs hlive hne) hnone

theorem Pre.holdCtx {c : Ctx} {sid : Id} (hp : Pre c sid) (k : String) (held : Option SvsHold) :
    Pre (holdCtx c k held) sid := by
  obtain ⟨e1, e2, e3⟩ := holdCtx_facts c k held
  exact ⟨hp.inv.congr e1 e2 e3, hp.linv.congr e1, by rw [e1]; exact hp.actor, hp.reply0⟩

/-- the tail of `cmdNick` re-establishes `Pre` -/
theorem cmdNickTail_pre {c c' : Ctx} {sid : Id} {m : IrcMsg} {s : Session} {nick : String} {held : Option SvsHold}
    (hp : Pre c sid) (hs : AMap.get c.st.sessions sid = some s)
    (hnick : nick ≠ "")
    (hfirst : s.nick = "" → (∀ x, AMap.get c.st.nicks x ≠ some sid) ∧ s.channels = [])
    (hfree : AMap.contains c.st.nicks (nickToLower nick) = false ∨
      (s.loggedIn && nickToLower nick == nickToLower (if s.loggedIn then s.nick else "*")) = true)
    (hr : cmdNickTail c sid m s nick held = .ok c') : Pre c' sid ∧ OutStep c c' := by
  unfold cmdNickTail at hr
  dsimp only at hr
  obtain ⟨hs0, hn0, hc0⟩ := holdCtx_facts c (nickToLower nick) held
  have hp0 : Pre (holdCtx c (nickToLower nick) held) sid := hp.holdCtx _ _
  have ho0 : OutStep c (holdCtx c (nickToLower nick) held) := holdCtx_out _ _ _
  generalize holdCtx c (nickToLower nick) held = c0 at hr hs0 hn0 hp0 ho0
  split at hr
  · cases hr; exact ⟨hp0, ho0⟩
  generalize hb : (nickToLower s.nick != "" &&
      !(s.loggedIn && nickToLower nick == nickToLower (if s.loggedIn = true then s.nick else "*"))) = b at hr
  obtain ⟨c1, hm1, hr⟩ := Res.bind_eq_ok.1 hr
  obtain ⟨c2, hm2, hr⟩ := Res.bind_eq_ok.1 hr
  have hs' : AMap.get c0.st.sessions sid = some s := by rw [hs0]; exact hs
  have hlive : s.deleted = false := hp.live hs
  have hcase : RenameCase c0.st.nicks sid s (nickToLower nick) (nickToLower s.nick) b :=
    cmdNick_renameCase hp0.inv.toWInvCore hs' hlive hnick (by rw [hn0]; exact hfirst) (by rw [hn0]; exact hfree) hb
  have hI1 := rename_HInv hp0.inv.toHInv hs' hm1 (fun _ => ⟨rfl, rfl, rfl, rfl⟩) hcase
  have hL1 : LInv c1.st := hp0.linv.modS hm1 (fun _ _ _ => hnick)
  have hA1 := modS_keeps hm1 hp0.actor
  have hD1 : ∀ id x, AMap.get c1.st.sessions id = some x → x.deleted = false := by
    obtain ⟨t, ht, rfl⟩ := modS_eq_ok.1 hm1
    rw [hs'] at ht; cases ht
    intro id x hx
    rw [putS_sessions, AMap.get_set] at hx
    split at hx
    · cases hx; exact hlive
    · exact hp0.live hx
  have ho1 : OutStep c c1 := ho0.modS hm1
  have hss := renameCtx_sessions c1 sid (nickToLower nick) (nickToLower s.nick) b
  have hpr : Pre (renameCtx c1 sid (nickToLower nick) (nickToLower s.nick) b) sid :=
    ⟨⟨hI1, by rw [hss]; exact hD1⟩, hL1.congr hss, by rw [hss]; exact hA1, hp.reply0⟩
  have hor : OutStep c (renameCtx c1 sid (nickToLower nick) (nickToLower s.nick) b) :=
    ho1.trans (renameCtx_out _ _ _ _ _)
  generalize renameCtx c1 sid (nickToLower nick) (nickToLower s.nick) b = cr at hm2 hpr hor
  have hp2 : Pre c2 sid := hpr.modS_inert hm2 updateIrcPrefix_inert (fun _ => rfl)
  have ho2 : OutStep c c2 := hor.modS hm2
  split at hr
  · obtain ⟨s2, _, hr⟩ := Res.bind_eq_ok.1 hr
    obtain ⟨rc, _, hr⟩ := Res.bind_eq_ok.1 hr
    cases hr
    exact ⟨hp2.congr_st rfl, by outstep⟩
  · obtain ⟨hp3, ho3⟩ := maybeLogin_pre _ _ _ _ hp2 hr
    exact ⟨hp3, ho2.trans ho3⟩

/-- what the admission check of `cmdNick` establishes -/
theorem nick_free_of_not {a b d : Bool} (h : ¬ ((a && !b) || d) = true) : a = false ∨ b = true := by
  cases a <;> cases b <;> cases d <;> simp at h ⊢

/-- NICK preserves the invariants; `hfirst` is needed because `Inv` allows a nickless session to be
indexed under "" / to list channels -/
theorem cmdNick_pre {c c' : Ctx} {sid : Id} {m : IrcMsg} (hp : Pre c sid)
    (hfirst : ∀ s, AMap.get c.st.sessions sid = some s → s.nick = "" →
       (∀ x, AMap.get c.st.nicks x ≠ some sid) ∧ s.channels = [])
    (hr : cmdNick c sid m = .ok c') : Pre c' sid ∧ OutStep c c' := by
  rw [cmdNick_eq] at hr
  obtain ⟨s, hs, hr⟩ := Res.bind_eq_ok.1 hr
  rw [getS_eq_ok] at hs
  dsimp only at hr
  generalize m.params.head?.getD "" = nick at hr
  split at hr
  · cases hr; exact ⟨hp.congr_st rfl, by outstep⟩
  generalize hdest : (if s.loggedIn = true then s.nick else "*") = dest at hr
  split at hr
  · cases hr; exact ⟨hp.congr_st rfl, by outstep⟩
  rename_i hvalid
  split at hr
  · cases hr; exact ⟨hp.congr_st rfl, by outstep⟩
  rename_i hfree
  have hnick : nick ≠ "" := isValidNickname_ne_empty (by simpa using hvalid)
  have hfree' := nick_free_of_not hfree
  subst hdest
  split at hr
  · split at hr
    · cases hr; exact ⟨hp.congr_st rfl, by outstep⟩
    · exact cmdNickTail_pre hp hs hnick (hfirst s hs) hfree' hr
  · exact cmdNickTail_pre hp hs hnick (hfirst s hs) hfree' hr

theorem cmdNick_post {c c' : Ctx} {sid : Id} {m : IrcMsg} (hp : Pre c sid)
    (hfirst : ∀ s, AMap.get c.st.sessions sid = some s → s.nick = "" →
       (∀ x, AMap.get c.st.nicks x ≠ some sid) ∧ s.channels = [])
    (hr : cmdNick c sid m = .ok c') : Post c c' sid :=
  Post.of_pre (cmdNick_pre hp hfirst hr).1 (cmdNick_pre hp hfirst hr).2

/-- the tail of `cmdNick` cannot panic (no `hfirst` needed: for a first nick only `maybeLogin` follows) -/
theorem cmdNickTail_noPanic {c : Ctx} {sid : Id} {m : IrcMsg} {s : Session} {nick : String} {held : Option SvsHold}
    (hp : Pre c sid) (hs : AMap.get c.st.sessions sid = some s)
    (hnick : nick ≠ "")
    (hfree : AMap.contains c.st.nicks (nickToLower nick) = false ∨
      (s.loggedIn && nickToLower nick == nickToLower (if s.loggedIn then s.nick else "*")) = true) :
    NoPanic (cmdNickTail c sid m s nick held) := by
  unfold cmdNickTail
  dsimp only
  obtain ⟨hs0, hn0, hc0⟩ := holdCtx_facts c (nickToLower nick) held
  have hp0 : Pre (holdCtx c (nickToLower nick) held) sid := hp.holdCtx _ _
  generalize holdCtx c (nickToLower nick) held = c0 at hs0 hn0 hp0 ⊢
  split
  · exact NoPanic.pure _
  generalize hb : (nickToLower s.nick != "" &&
      !(s.loggedIn && nickToLower nick == nickToLower (if s.loggedIn = true then s.nick else "*"))) = b
  have hs' : AMap.get c0.st.sessions sid = some s := by rw [hs0]; exact hs
  have hid : s.id = sid := (hp0.inv.sessId sid s hs').1
  have hlive : s.deleted = false := hp.live hs
  have hm1 := modS_of_get (c := c0) (fun s => { s with nick := nick }) hs'
  rw [hm1]
  simp only [Res.ok_bind]
  have hg1 : AMap.get (renameCtx (putS c0 { s with nick := nick }) sid (nickToLower nick) (nickToLower s.nick) b).st.sessions sid
      = some { s with nick := nick } := by
    rw [renameCtx_sessions]
    show AMap.get (AMap.set c0.st.sessions s.id _) sid = _
    rw [hid]; exact AMap.get_set_same _ _ _
  have hW1 : nickToLower s.nick ≠ "" →
      WInv (renameCtx (putS c0 { s with nick := nick }) sid (nickToLower nick) (nickToLower s.nick) b).st := fun hold =>
    rename_WInv hp0.inv.toWInv hs' hm1 (fun _ => ⟨rfl, rfl, rfl, rfl⟩)
      (cmdNick_renameCase hp0.inv.toWInvCore hs' hlive hnick
        (fun he => absurd (by rw [he]; exact nickToLower_empty) hold) (by rw [hn0]; exact hfree) hb)
  generalize renameCtx (putS c0 { s with nick := nick }) sid (nickToLower nick) (nickToLower s.nick) b = cr at hg1 hW1 ⊢
  have hm2 := modS_of_get (c := cr) updateIrcPrefix hg1
  rw [hm2]
  simp only [Res.ok_bind]
  have hg2 : AMap.get (putS cr (updateIrcPrefix { s with nick := nick })).st.sessions sid
      = some (updateIrcPrefix { s with nick := nick }) := by
    show AMap.get (AMap.set cr.st.sessions s.id _) sid = _
    rw [hid]; exact AMap.get_set_same _ _ _
  split
  · rename_i hold
    have hold' : nickToLower s.nick ≠ "" := bne_iff_ne.1 hold
    rw [getS_of_get hg2]
    simp only [Res.ok_bind]
    have hW2 : WInv (putS cr (updateIrcPrefix { s with nick := nick })).st :=
      WInv_modS_inert _ updateIrcPrefix_inert (hW1 hold') hm2
    obtain ⟨rc, hrc⟩ := rcCommonChannels_ok hW2.toWInvCore (updateIrcPrefix { s with nick := nick })
    rw [hrc]
    exact NoPanic.pure _
  · exact maybeLogin_noPanic' m ⟨_, hg2, hid⟩

theorem cmdNick_safe : ClientSafe cmdNick 0 false := by
  intro c sid m s hp hs _ _ _
  show NoPanic (cmdNick c sid m)
  rw [cmdNick_eq, getS_of_get hs]
  simp only [Res.ok_bind]
  generalize m.params.head?.getD "" = nick
  refine NoPanic.ite (fun _ => NoPanic.pure _) (fun _ => ?_)
  generalize hdest : (if s.loggedIn = true then s.nick else "*") = dest
  refine NoPanic.ite (fun _ => NoPanic.pure _) (fun hvalid => ?_)
  refine NoPanic.ite (fun _ => NoPanic.pure _) (fun hfree => ?_)
  have hnick : nick ≠ "" := isValidNickname_ne_empty (by simpa using hvalid)
  have hfree' := nick_free_of_not hfree
  subst hdest
  split
  · exact NoPanic.ite (fun _ => NoPanic.pure _) (fun _ => cmdNickTail_noPanic hp hs hnick hfree')
  · exact cmdNickTail_noPanic hp hs hnick hfree'

end Robust.Irc
