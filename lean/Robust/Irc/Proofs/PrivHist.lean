import Robust.Irc.Proofs.PrivInv
import Robust.Irc.Proofs.PrivJoin
import Robust.Irc.Proofs.H2
/-!
Privilege is history dependent (property C13): where can a channel-operator flag come from?

`OpsLe lc c0 c`: no member key of channel `lc` carries the chanop flag in `c` unless it carried it
in `c0` already ("the chanop flags of `lc` do not gain a new `true`").  This file shows that every
client handler except `NICK` (which moves the flag together with the nick) satisfies `OpsLe lc` for
every *existing* channel `lc` whose chanop the actor is not, unless the actor is an IRC operator.
-/
namespace Robust.Irc
open Robust AMap

/-- the chanop flag stored under member key `n` of a channel value -/
def memFlag (ch : Channel) (n : String) : Bool :=
  match AMap.get ch.nicks n with
  | some mem => mem.chanop
  | none => false

/-- the chanop flag stored under member key `n` (a lower-cased nick) of channel `lc` -/
def opFlagC (chs : AMap String Channel) (lc n : String) : Bool :=
  match AMap.get chs lc with
  | some ch => memFlag ch n
  | none => false

theorem chanOpOf_eq (st : St) (nick lc : String) : chanOpOf st nick lc = opFlagC st.channels lc (nickToLower nick) := by
  unfold chanOpOf memberOf opFlagC memFlag
  cases AMap.get st.channels lc <;> rfl

theorem opFlagC_set (chs : AMap String Channel) (lc' : String) (ch' : Channel) (lc n : String) :
    opFlagC (AMap.set chs lc' ch') lc n = if lc = lc' then memFlag ch' n else opFlagC chs lc n := by
  unfold opFlagC
  rw [AMap.get_set]
  by_cases h : lc = lc'
  · rw [if_pos h, if_pos h]
  · rw [if_neg h, if_neg h]

theorem opFlagC_erase (chs : AMap String Channel) (lc' lc n : String) :
    opFlagC (AMap.erase chs lc') lc n = if lc = lc' then false else opFlagC chs lc n := by
  unfold opFlagC
  rw [AMap.get_erase]
  by_cases h : lc = lc'
  · rw [if_pos h, if_pos h]
  · rw [if_neg h, if_neg h]

theorem memFlag_erase (ch : Channel) (k n : String) :
    memFlag { ch with nicks := AMap.erase ch.nicks k } n = if n = k then false else memFlag ch n := by
  unfold memFlag
  dsimp only
  rw [AMap.get_erase]
  by_cases h : n = k
  · rw [if_pos h, if_pos h]
  · rw [if_neg h, if_neg h]

theorem memFlag_set (ch : Channel) (k : String) (mem : Member) (n : String) :
    memFlag { ch with nicks := AMap.set ch.nicks k mem } n = if n = k then mem.chanop else memFlag ch n := by
  unfold memFlag
  dsimp only
  rw [AMap.get_set]
  by_cases h : n = k
  · rw [if_pos h, if_pos h]
  · rw [if_neg h, if_neg h]

/-- the chanop flags of channel `lc` in `c` are among those in `c0` -/
def OpsLe (lc : String) (c0 c : Ctx) : Prop :=
  ∀ n, opFlagC c.st.channels lc n = true → opFlagC c0.st.channels lc n = true

theorem OpsLe.refl (lc : String) (c : Ctx) : OpsLe lc c c := fun _ h => h

theorem OpsLe.trans {lc : String} {a b c : Ctx} (h1 : OpsLe lc a b) (h2 : OpsLe lc b c) : OpsLe lc a c :=
  fun n h => h1 n (h2 n h)

theorem OpsLe.of_eq {lc : String} {c0 c c' : Ctx} (h : OpsLe lc c0 c) (e : c'.st.channels = c.st.channels) :
    OpsLe lc c0 c' := fun n hn => h n (by rw [← e]; exact hn)

theorem OpsLe.emit {lc : String} {c0 c : Ctx} (h : OpsLe lc c0 c) (m : IrcMsg) (r : List Nat) :
    OpsLe lc c0 (emit c m r) := h.of_eq rfl

theorem OpsLe.sendUser {lc : String} {c0 c : Ctx} (h : OpsLe lc c0 c) (sid : Id) (m : IrcMsg) :
    OpsLe lc c0 (sendUser c sid m) := h.of_eq rfl

theorem OpsLe.sendSvc {lc : String} {c0 c : Ctx} (h : OpsLe lc c0 c) (m : IrcMsg) :
    OpsLe lc c0 (sendSvc c m) := h.of_eq rfl

theorem OpsLe.putS {lc : String} {c0 c : Ctx} (h : OpsLe lc c0 c) (s : Session) : OpsLe lc c0 (putS c s) :=
  h.of_eq rfl

theorem OpsLe.modS {lc : String} {c0 c c' : Ctx} {sid : Id} {f : Session → Session} (h : OpsLe lc c0 c)
    (hr : modS c sid f = .ok c') : OpsLe lc c0 c' := by
  obtain ⟨s, _, rfl⟩ := modS_eq_ok.1 hr
  exact h.putS _

theorem OpsLe.of_emits {lc : String} {c0 c c' : Ctx} (h : OpsLe lc c0 c) (e : Emits c c') : OpsLe lc c0 c' :=
  h.of_eq (by rw [e.st])

theorem OpsLe.ite {lc : String} {c0 : Ctx} {p : Prop} [Decidable p] {a b : Ctx} (ha : OpsLe lc c0 a)
    (hb : OpsLe lc c0 b) : OpsLe lc c0 (if p then a else b) := by
  split <;> assumption

/-- storing a channel value whose flags are among those of the stored one -/
theorem OpsLe.putChan_le {lc : String} {c0 c : Ctx} (h : OpsLe lc c0 c) {lc' : String} {ch ch' : Channel}
    (hch : AMap.get c.st.channels lc' = some ch) (hle : ∀ n, memFlag ch' n = true → memFlag ch n = true) :
    OpsLe lc c0 (putChan c lc' ch') := by
  intro n hn
  apply h n
  rw [putChan_channels, opFlagC_set] at hn
  split at hn
  · rename_i e
    subst e
    unfold opFlagC
    rw [hch]
    exact hle n hn
  · exact hn

/-- storing any value under another key -/
theorem OpsLe.putChan_other {lc : String} {c0 c : Ctx} (h : OpsLe lc c0 c) {lc' : String} (ch' : Channel)
    (hne : lc ≠ lc') : OpsLe lc c0 (putChan c lc' ch') := by
  intro n hn
  apply h n
  rw [putChan_channels, opFlagC_set, if_neg hne] at hn
  exact hn

theorem OpsLe.maybeDeleteChannel {lc : String} {c0 c : Ctx} (h : OpsLe lc c0 c) (lc' : String) :
    OpsLe lc c0 (maybeDeleteChannel c lc') := by
  unfold Robust.Irc.maybeDeleteChannel
  split
  · exact h
  · split
    · exact h
    · intro n hn
      apply h n
      dsimp only at hn
      rw [opFlagC_erase] at hn
      split at hn
      · cases hn
      · exact hn

theorem OpsLe.eraseMember {lc : String} {c0 c : Ctx} (h : OpsLe lc c0 c) {lc' : String} {ch : Channel}
    (hch : AMap.get c.st.channels lc' = some ch) (k : String) :
    OpsLe lc c0 (putChan c lc' { ch with nicks := AMap.erase ch.nicks k }) :=
  h.putChan_le hch fun n hn => by
    rw [memFlag_erase] at hn
    split at hn
    · cases hn
    · exact hn

theorem OpsLe.leaveChannel {lc : String} {c0 c c' : Ctx} (h : OpsLe lc c0 c) {lc' lcn : String} {tid : Id}
    (hr : leaveChannel c lc' lcn tid = .ok c') : OpsLe lc c0 c' := by
  unfold Robust.Irc.leaveChannel at hr
  simp only [getChan_eq] at hr
  split at hr
  · rename_i ch hch
    exact ((h.eraseMember hch lcn).maybeDeleteChannel lc').modS hr
  · cases hr

theorem OpsLe.delFold {lc : String} {c0 : Ctx} (lcn : String) : ∀ (l : List (String × Channel)) {c : Ctx},
    OpsLe lc c0 c → OpsLe lc c0 (l.foldl (fun (c : Ctx) (e : String × Channel) =>
      match getChan c e.1 with
      | none => c
      | some ch =>
        let c := putChan c e.1 { ch with nicks := AMap.erase ch.nicks lcn }
        Robust.Irc.maybeDeleteChannel c e.1) c)
  | [], c, h => h
  | e :: t, c, h => by
    rw [List.foldl_cons]
    apply OpsLe.delFold lcn t
    simp only [getChan_eq]
    split
    · exact h
    · rename_i ch hch
      exact (h.eraseMember hch _).maybeDeleteChannel _

theorem OpsLe.deleteSession {lc : String} {c0 c c' : Ctx} (h : OpsLe lc c0 c) {sid : Id}
    (hr : deleteSession c sid = .ok c') : OpsLe lc c0 c' := by
  unfold Robust.Irc.deleteSession at hr
  obtain ⟨s, _, hr⟩ := Res.bind_eq_ok.1 hr
  dsimp only at hr
  refine OpsLe.modS ?_ hr
  exact OpsLe.of_eq (OpsLe.delFold (nickToLower s.nick) c.st.channels h) rfl

/-- closes goals `OpsLe lc c0 (sendUser (emit … c …) …)` -/
macro "opsle_tac" : tactic =>
  `(tactic| repeat (first
      | assumption
      | exact OpsLe.refl _ _
      | apply OpsLe.sendUser
      | apply OpsLe.sendSvc
      | apply OpsLe.emit
      | apply OpsLe.putS
      | apply OpsLe.ite))

end Robust.Irc
