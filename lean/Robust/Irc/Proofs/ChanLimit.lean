import Robust.Irc.Proofs.NH1
/-!
The channel limit (`Config.MaxChannels`), client side.

`ChanLe st0 st`: relative to a base state `st0` the configured limit is unchanged and the number of
stored channels did not grow.  Every client handler except JOIN keeps `ChanLe` (pure length
arguments: `AMap.set` on a present key keeps the length, `AMap.erase`/`filter` shrink, `map` keeps);
JOIN (`joinOne`) creates a channel only when the number of channels is below the limit (or the limit
is `0` = unlimited), which is `ChanLim`.  The walks mirror `FrmClient.lean`.
-/
namespace Robust.Irc
open Robust AMap

/-! ### lengths of association lists -/

theorem chanLim_length_set_of_get {κ ν : Type} [DecidableEq κ] {m : AMap κ ν} {k : κ} {v0 : ν} (v : ν)
    (h : AMap.get m k = some v0) : (AMap.set m k v).length = m.length := by
  rw [← length_keys, keys_set_of_mem v (mem_keys_of_get h), length_keys]

theorem chanLim_length_set_of_none {κ ν : Type} [DecidableEq κ] {m : AMap κ ν} {k : κ} (v : ν)
    (h : AMap.get m k = none) : (AMap.set m k v).length = m.length + 1 := by
  rw [← length_keys, keys_set_of_not_mem v (get_eq_none_iff.1 h), List.length_append, length_keys]
  rfl

theorem chanLim_length_set_le {κ ν : Type} [DecidableEq κ] (m : AMap κ ν) (k : κ) (v : ν) :
    (AMap.set m k v).length ≤ m.length + 1 := by
  cases h : AMap.get m k with
  | none => rw [chanLim_length_set_of_none v h]; exact Nat.le_refl _
  | some v0 => rw [chanLim_length_set_of_get v h]; exact Nat.le_succ _

/-! ### the relation -/

/-- relative to the base state `st0`: the channel limit is unchanged and the number of channels
did not grow -/
structure ChanLe (st0 st : St) : Prop where
  maxChannels : st.config.maxChannels = st0.config.maxChannels
  le : st.channels.length ≤ st0.channels.length

theorem ChanLe.refl (st : St) : ChanLe st st := ⟨rfl, Nat.le_refl _⟩

theorem ChanLe.trans {a b c : St} (h1 : ChanLe a b) (h2 : ChanLe b c) : ChanLe a c :=
  ⟨h2.maxChannels.trans h1.maxChannels, Nat.le_trans h2.le h1.le⟩

/-- the current state only matters through the limit and the number of channels -/
theorem ChanLe.congr {st0 st st' : St} (h : ChanLe st0 st) (hc : st'.config.maxChannels = st.config.maxChannels)
    (hl : st'.channels.length ≤ st.channels.length) : ChanLe st0 st' :=
  ⟨hc.trans h.maxChannels, Nat.le_trans hl h.le⟩

theorem ChanLe.same {st0 st st' : St} (h : ChanLe st0 st) (hc : st'.config = st.config)
    (hch : st'.channels = st.channels) : ChanLe st0 st' :=
  h.congr (by rw [hc]) (by rw [hch]; exact Nat.le_refl _)

theorem ChanLe.of_st {st0 : St} {c c' : Ctx} (h : ChanLe st0 c.st) (e : c'.st = c.st) : ChanLe st0 c'.st := by
  rw [e]; exact h

theorem ChanLe.emit {st0 : St} {c : Ctx} (h : ChanLe st0 c.st) (m : IrcMsg) (r : List Nat) :
    ChanLe st0 (emit c m r).st := h
theorem ChanLe.sendUser {st0 : St} {c : Ctx} (h : ChanLe st0 c.st) (sid : Id) (m : IrcMsg) :
    ChanLe st0 (sendUser c sid m).st := h
theorem ChanLe.sendSvc {st0 : St} {c : Ctx} (h : ChanLe st0 c.st) (m : IrcMsg) : ChanLe st0 (sendSvc c m).st := h

/-- overwrite a stored channel -/
theorem ChanLe.set {st0 st st' : St} (h : ChanLe st0 st) {lc : String} {ch0 ch : Channel}
    (hg : AMap.get st.channels lc = some ch0) (hc : st'.config = st.config)
    (hch : st'.channels = AMap.set st.channels lc ch) : ChanLe st0 st' :=
  h.congr (by rw [hc]) (by rw [hch, chanLim_length_set_of_get ch hg]; exact Nat.le_refl _)

theorem ChanLe.putChan {st0 : St} {c : Ctx} (h : ChanLe st0 c.st) {lc : String} {ch0 : Channel}
    (hg : AMap.get c.st.channels lc = some ch0) (ch : Channel) : ChanLe st0 (putChan c lc ch).st :=
  h.set hg rfl rfl

theorem chanLim_modS_st {c c' : Ctx} {tid : Id} {f : Session → Session} (hr : modS c tid f = Res.ok c') :
    c'.st.channels = c.st.channels ∧ c'.st.config = c.st.config := by
  obtain ⟨s, _, rfl⟩ := modS_eq_ok.1 hr
  exact ⟨rfl, rfl⟩

theorem ChanLe.modS {st0 : St} {c c' : Ctx} {tid : Id} {f : Session → Session} (h : ChanLe st0 c.st)
    (hr : modS c tid f = Res.ok c') : ChanLe st0 c'.st :=
  h.same (chanLim_modS_st hr).2 (chanLim_modS_st hr).1

theorem ChanLe.maybeDeleteChannel {st0 : St} {c : Ctx} (h : ChanLe st0 c.st) (lc : String) :
    ChanLe st0 (maybeDeleteChannel c lc).st := by
  unfold Robust.Irc.maybeDeleteChannel
  split
  · exact h
  · split
    · exact h
    · exact h.congr rfl (length_erase_le _ _)

theorem ChanLe.leaveChannel {st0 : St} {c c' : Ctx} {lc lcn : String} {tid : Id} (h : ChanLe st0 c.st)
    (hr : leaveChannel c lc lcn tid = Res.ok c') : ChanLe st0 c'.st := by
  unfold Robust.Irc.leaveChannel at hr
  simp only [getChan_eq] at hr
  split at hr
  · rename_i ch hch
    exact ((h.putChan hch { ch with nicks := AMap.erase ch.nicks lcn }).maybeDeleteChannel lc).modS hr
  · cases hr

theorem ChanLe.foldl {st0 : St} {α : Type} {f : Ctx → α → Ctx}
    (hf : ∀ c a, ChanLe st0 c.st → ChanLe st0 (f c a).st) :
    ∀ (l : List α) (c : Ctx), ChanLe st0 c.st → ChanLe st0 (l.foldl f c).st
  | [], _, h => h
  | a :: t, c, h => ChanLe.foldl hf t (f c a) (hf c a h)

theorem ChanLe.foldlM {st0 : St} {α : Type} {f : Ctx → α → Res Ctx}
    (hf : ∀ c a c', ChanLe st0 c.st → f c a = .ok c' → ChanLe st0 c'.st) :
    ∀ (l : List α) {c c' : Ctx}, ChanLe st0 c.st → l.foldlM f c = .ok c' → ChanLe st0 c'.st
  | [], c, c', h, hr => by cases hr; exact h
  | a :: l, c, c', h, hr => by
    rw [List.foldlM_cons] at hr
    obtain ⟨c1, h1, hr⟩ := Res.bind_eq_ok.1 hr
    exact ChanLe.foldlM hf l (hf c a c1 h h1) hr

theorem ChanLe.deleteSession {st0 : St} {c c' : Ctx} {sid : Id} (h : ChanLe st0 c.st)
    (hr : deleteSession c sid = Res.ok c') : ChanLe st0 c'.st := by
  unfold Robust.Irc.deleteSession at hr
  obtain ⟨s, _, hr⟩ := Res.bind_eq_ok.1 hr
  dsimp only at hr
  refine ChanLe.modS ?_ hr
  refine ChanLe.same (st := (c.st.channels.foldl _ c).st) ?_ rfl rfl
  refine ChanLe.foldl ?_ _ _ h
  intro c1 e h1
  simp only [getChan_eq]
  split
  · exact h1
  · rename_i ch hch
    exact (h1.putChan hch { ch with nicks := AMap.erase ch.nicks (nickToLower s.nick) }).maybeDeleteChannel _

/-- a handler keeps `ChanLe` relative to an arbitrary base state -/
def ChanLePres (h : Ctx → Id → IrcMsg → Res Ctx) : Prop :=
  ∀ st0 c sid m c', ChanLe st0 c.st → h c sid m = .ok c' → ChanLe st0 c'.st

theorem ChanLePres.of_plain {h : Ctx → Id → IrcMsg → Res Ctx}
    (H : ∀ {st0 : St} {c c' : Ctx} {sid : Id} {m : IrcMsg}, ChanLe st0 c.st → h c sid m = .ok c' → ChanLe st0 c'.st) :
    ChanLePres h :=
  fun _ _ _ _ _ hp hr => H hp hr

theorem ChanLePres.of_emits {h : Ctx → Id → IrcMsg → Res Ctx}
    (hi : ∀ c sid m c', h c sid m = Res.ok c' → Emits c c') : ChanLePres h :=
  fun _ c sid m c' hp hr => hp.of_st (hi c sid m c' hr).st

/-! ### read-only handlers -/

theorem cmdPing_chanLe : ChanLePres cmdPing := .of_emits fun _ _ _ _ => cmdPing_emits
theorem cmdIson_chanLe : ChanLePres cmdIson := .of_emits fun _ _ _ _ => cmdIson_emits
theorem cmdUserhost_chanLe : ChanLePres cmdUserhost := .of_emits fun _ _ _ _ => cmdUserhost_emits
theorem cmdList_chanLe : ChanLePres cmdList := .of_emits fun _ _ _ _ => cmdList_emits
theorem cmdKnock_chanLe : ChanLePres cmdKnock := .of_emits fun _ _ _ _ => cmdKnock_emits
theorem cmdNames_chanLe : ChanLePres cmdNames := .of_emits fun _ _ _ _ => cmdNames_emits
theorem cmdWho_chanLe : ChanLePres cmdWho := .of_emits fun _ _ _ _ => cmdWho_emits
theorem cmdWhois_chanLe : ChanLePres cmdWhois := .of_emits fun _ _ _ _ => cmdWhois_emits
theorem cmdPrivmsg_chanLe : ChanLePres cmdPrivmsg := .of_emits fun _ _ _ _ => cmdPrivmsg_emits
theorem cmdServiceAlias_chanLe : ChanLePres cmdServiceAlias := .of_emits fun _ _ _ _ => cmdServiceAlias_emits

/-- brute-force walk through a handler whose leaves are output / `putChan` of a present key on top of a
context `c` with `h : ChanLe st0 c.st` and `hch : AMap.get c.st.channels lc = some ch`: `chanle_auto hr h hch` -/
macro "chanle_auto" hr:ident h:ident hch:ident : tactic =>
  `(tactic| repeat' (first
      | split at $hr:ident
      | (obtain ⟨_, _, $hr:ident⟩ := Res.bind_eq_ok.1 $hr:ident)
      | dsimp only at $hr:ident
      | (cases $hr:ident <;> first
          | exact $h:ident
          | exact ChanLe.putChan $h:ident $hch:ident _)))

/-! ### AWAY / INVITE / TOPIC / MODE -/

theorem cmdAway_le {st0 : St} {c c' : Ctx} {sid : Id} {m : IrcMsg} (h : ChanLe st0 c.st)
    (hr : cmdAway c sid m = .ok c') : ChanLe st0 c'.st := by
  unfold cmdAway at hr
  obtain ⟨c1, h1, hr⟩ := Res.bind_eq_ok.1 hr
  obtain ⟨s, hs, hr⟩ := Res.bind_eq_ok.1 hr
  have p1 : ChanLe st0 c1.st := h.modS h1
  split at hr <;> (cases hr; exact p1)

theorem cmdInvite_le {st0 : St} {c c' : Ctx} {sid : Id} {m : IrcMsg} (h : ChanLe st0 c.st)
    (hr : cmdInvite c sid m = .ok c') : ChanLe st0 c'.st := by
  unfold cmdInvite at hr
  obtain ⟨s, hs, hr⟩ := Res.bind_eq_ok.1 hr
  obtain ⟨nickname, _, hr⟩ := Res.bind_eq_ok.1 hr
  obtain ⟨channelname, _, hr⟩ := Res.bind_eq_ok.1 hr
  dsimp only at hr
  split at hr
  · cases hr; exact h
  split at hr
  · cases hr; exact h
  split at hr
  · cases hr; exact h
  obtain ⟨t, ht, hr⟩ := Res.bind_eq_ok.1 hr
  split at hr
  · cases hr; exact h
  split at hr
  · cases hr; exact h
  obtain ⟨c1, h1, hr⟩ := Res.bind_eq_ok.1 hr
  have p1 : ChanLe st0 c1.st := h.modS h1
  obtain ⟨rc, _, hr⟩ := Res.bind_eq_ok.1 hr
  split at hr <;> (cases hr; exact p1)

theorem cmdTopic_le {st0 : St} {c c' : Ctx} {sid : Id} {m : IrcMsg} (h : ChanLe st0 c.st)
    (hr : cmdTopic c sid m = .ok c') : ChanLe st0 c'.st := by
  unfold cmdTopic at hr
  simp only [getChan_eq] at hr
  obtain ⟨s, _, hr⟩ := Res.bind_eq_ok.1 hr
  obtain ⟨channel, _, hr⟩ := Res.bind_eq_ok.1 hr
  split at hr
  · cases hr; exact h
  · rename_i ch hch
    chanle_auto hr h hch

theorem applyChanMode_le {st0 : St} {c c' : Ctx} {sid : Id} {s : Session} {lc chn : String} {op q q' ret : Bool}
    {mc : ModeCmd} (h : ChanLe st0 c.st) (hr : applyChanMode c sid s lc chn op mc q = .ok (c', q', ret)) :
    ChanLe st0 c'.st := by
  unfold applyChanMode at hr
  simp only [getChan_eq] at hr
  split at hr
  · rename_i ch hch
    split at hr
    · chanle_auto hr h hch
      -- `+k`: two stores under the same key
      rename_i ch2 hch2
      cases hr
      exact ChanLe.putChan (c := sendUser (putChan c lc _) _ _) ((h.putChan hch _).sendUser _ _) hch2 _
    · cases hr
      refine ChanLe.sendUser ?_ _ _
      exact ChanLe.foldl (fun c1 p h1 => h1.sendUser _ _) _ _ h
  · cases hr

theorem applyChanModes_le {st0 : St} {sid : Id} {s : Session} {lc chn : String} {op : Bool} :
    ∀ (l : List ModeCmd) {c c' : Ctx} {q q' ret : Bool}, ChanLe st0 c.st →
      applyChanModes c sid s lc chn op l q = .ok (c', q', ret) → ChanLe st0 c'.st
  | [], c, c', q, q', ret, h, hr => by
    unfold applyChanModes at hr
    cases hr; exact h
  | mc :: rest, c, c', q, q', ret, h, hr => by
    unfold applyChanModes at hr
    obtain ⟨⟨c1, q1, r1⟩, h1, hr⟩ := Res.bind_eq_ok.1 hr
    have p1 := applyChanMode_le h h1
    dsimp only at hr
    split at hr
    · cases hr; exact p1
    · exact applyChanModes_le rest p1 hr

theorem cmdMode_le {st0 : St} {c c' : Ctx} {sid : Id} {m : IrcMsg} (h : ChanLe st0 c.st)
    (hr : cmdMode c sid m = .ok c') : ChanLe st0 c'.st := by
  unfold cmdMode at hr
  simp only [getChan_eq, Res.panic_bind] at hr
  obtain ⟨s, hs, hr⟩ := Res.bind_eq_ok.1 hr
  obtain ⟨chn, _, hr⟩ := Res.bind_eq_ok.1 hr
  split at hr
  · -- channel modes
    split at hr
    · rename_i ch hch
      split at hr
      · cases hr; exact h
      · split at hr
        · rename_i mem hmem
          obtain ⟨⟨c1, q1, r1⟩, h1, hr⟩ := Res.bind_eq_ok.1 hr
          have p1 := applyChanModes_le _ h h1
          dsimp only at hr
          split at hr
          · cases hr; exact p1
          split at hr
          · cases hr; exact p1
          split at hr
          · cases hr; exact p1
          split at hr
          · obtain ⟨rc, _, hr⟩ := Res.bind_eq_ok.1 hr
            cases hr; exact p1
          · cases hr
        · cases hr
    · cases hr
  · -- user modes
    split at hr
    · obtain ⟨t, ht, hr⟩ := Res.bind_eq_ok.1 hr
      split at hr
      · cases hr; exact h
      · split at hr
        · cases hr; exact h
        · obtain ⟨c1, h1, hr⟩ := Res.bind_eq_ok.1 hr
          have p1 : ChanLe st0 c1.st := h.modS h1
          cases hr
          exact p1
    · cases hr; exact h

/-! ### login, OPER, MOTD, USER, PASS -/

theorem cmdMotd_le {st0 : St} {c c' : Ctx} {sid : Id} {m : IrcMsg} (h : ChanLe st0 c.st)
    (hr : cmdMotd c sid m = .ok c') : ChanLe st0 c'.st := by
  unfold cmdMotd at hr
  obtain ⟨s, _, hr⟩ := Res.bind_eq_ok.1 hr
  cases hr; exact h

theorem cmdOper_le {st0 : St} {c c' : Ctx} {sid : Id} {m : IrcMsg} (h : ChanLe st0 c.st)
    (hr : cmdOper c sid m = .ok c') : ChanLe st0 c'.st := by
  unfold cmdOper at hr
  obtain ⟨s, hs, hr⟩ := Res.bind_eq_ok.1 hr
  obtain ⟨p0, hp0, hr⟩ := Res.bind_eq_ok.1 hr
  obtain ⟨p1, hp1, hr⟩ := Res.bind_eq_ok.1 hr
  split at hr
  · cases hr; exact h
  · obtain ⟨c1, h1, hr⟩ := Res.bind_eq_ok.1 hr
    obtain ⟨s1, hs1, hr⟩ := Res.bind_eq_ok.1 hr
    have n1 : ChanLe st0 c1.st := h.modS h1
    cases hr
    exact n1

theorem loginOper_le {st0 : St} {c c' : Ctx} {sid : Id} {s : Session} (h : ChanLe st0 c.st)
    (hr : loginOper c sid s = .ok c') : ChanLe st0 c'.st := by
  unfold loginOper at hr
  dsimp only at hr
  split at hr
  · split at hr
    · cases hr
    · split at hr
      · exact cmdOper_le h hr
      · cases hr; exact h
  · cases hr; exact h

theorem maybeLogin_le {st0 : St} {c c' : Ctx} {sid : Id} {m : IrcMsg} (h : ChanLe st0 c.st)
    (hr : maybeLogin c sid m = .ok c') : ChanLe st0 c'.st := by
  rw [maybeLogin_eq] at hr
  obtain ⟨s, hs, hr⟩ := Res.bind_eq_ok.1 hr
  split at hr
  · cases hr; exact h
  · split at hr
    · cases hr; exact h
    · split at hr
      · cases hr
      · obtain ⟨c1, h1, hr⟩ := Res.bind_eq_ok.1 hr
        obtain ⟨c2, h2, hr⟩ := Res.bind_eq_ok.1 hr
        obtain ⟨c3, h3, hr⟩ := Res.bind_eq_ok.1 hr
        have n1 : ChanLe st0 c1.st := h.modS h1
        have n2 : ChanLe st0 c2.st := loginOper_le (by rw [loginBanner_st]; exact n1) h2
        have n3 : ChanLe st0 c3.st := n2.modS h3
        exact cmdMotd_le n3 hr

theorem cmdUser_le {st0 : St} {c c' : Ctx} {sid : Id} {m : IrcMsg} (h : ChanLe st0 c.st)
    (hr : cmdUser c sid m = .ok c') : ChanLe st0 c'.st := by
  unfold cmdUser at hr
  obtain ⟨u, hu, hr⟩ := Res.bind_eq_ok.1 hr
  obtain ⟨c1, h1, hr⟩ := Res.bind_eq_ok.1 hr
  exact maybeLogin_le (h.modS h1) hr

theorem cmdPass_le {st0 : St} {c c' : Ctx} {sid : Id} {m : IrcMsg} (h : ChanLe st0 c.st)
    (hr : cmdPass c sid m = .ok c') : ChanLe st0 c'.st := by
  unfold cmdPass at hr
  obtain ⟨c1, h1, hr⟩ := Res.bind_eq_ok.1 hr
  exact maybeLogin_le (h.modS h1) hr

/-! ### QUIT, PART, KICK, KILL, GLINE -/

theorem cmdQuit_le {st0 : St} {c c' : Ctx} {sid : Id} {m : IrcMsg} (h : ChanLe st0 c.st)
    (hr : cmdQuit c sid m = .ok c') : ChanLe st0 c'.st := by
  unfold cmdQuit at hr
  obtain ⟨c1, h1, hr⟩ := Res.bind_eq_ok.1 hr
  have n1 := h.deleteSession h1
  obtain ⟨s1, hs1, hr⟩ := Res.bind_eq_ok.1 hr
  split at hr
  · obtain ⟨rc, hrc, hr⟩ := Res.bind_eq_ok.1 hr
    cases hr; exact n1
  · cases hr; exact n1

theorem partOne_le {st0 : St} {c c' : Ctx} {sid : Id} {chn : String} (h : ChanLe st0 c.st)
    (hr : partOne c sid chn = .ok c') : ChanLe st0 c'.st := by
  unfold partOne at hr
  obtain ⟨s0, hs0, hr⟩ := Res.bind_eq_ok.1 hr
  simp only [getChan_eq] at hr
  split at hr
  · cases hr; exact h
  · split at hr
    · cases hr; exact h
    · obtain ⟨rc, hrc, hr⟩ := Res.bind_eq_ok.1 hr
      exact ChanLe.leaveChannel (c := emit _ _ _) h hr

theorem cmdPart_le {st0 : St} {c c' : Ctx} {sid : Id} {m : IrcMsg} (h : ChanLe st0 c.st)
    (hr : cmdPart c sid m = .ok c') : ChanLe st0 c'.st := by
  unfold cmdPart at hr
  obtain ⟨p0, _, hr⟩ := Res.bind_eq_ok.1 hr
  exact ChanLe.foldlM (fun _ _ _ h hr => partOne_le h hr) _ h hr

theorem cmdKick_le {st0 : St} {c c' : Ctx} {sid : Id} {m : IrcMsg} (h : ChanLe st0 c.st)
    (hr : cmdKick c sid m = .ok c') : ChanLe st0 c'.st := by
  unfold cmdKick at hr
  obtain ⟨s, hs, hr⟩ := Res.bind_eq_ok.1 hr
  obtain ⟨chn, _, hr⟩ := Res.bind_eq_ok.1 hr
  obtain ⟨target, _, hr⟩ := Res.bind_eq_ok.1 hr
  simp only [getChan_eq] at hr
  split at hr
  · cases hr; exact h
  · split at hr
    · cases hr; exact h
    · split at hr
      · cases hr; exact h
      · split at hr
        · cases hr; exact h
        · split at hr
          · obtain ⟨rc, hrc, hr⟩ := Res.bind_eq_ok.1 hr
            exact ChanLe.leaveChannel (c := emit _ _ _) h hr
          · cases hr

theorem cmdKill_le {st0 : St} {c c' : Ctx} {sid : Id} {m : IrcMsg} (h : ChanLe st0 c.st)
    (hr : cmdKill c sid m = .ok c') : ChanLe st0 c'.st := by
  unfold cmdKill at hr
  obtain ⟨s, hs, hr⟩ := Res.bind_eq_ok.1 hr
  split at hr
  · cases hr; exact h
  · obtain ⟨p0, _, hr⟩ := Res.bind_eq_ok.1 hr
    split at hr
    · cases hr; exact h
    · obtain ⟨c1, h1, hr⟩ := Res.bind_eq_ok.1 hr
      have n1 := h.deleteSession h1
      obtain ⟨t1, _, hr⟩ := Res.bind_eq_ok.1 hr
      obtain ⟨s2, _, hr⟩ := Res.bind_eq_ok.1 hr
      obtain ⟨rc, _, hr⟩ := Res.bind_eq_ok.1 hr
      cases hr
      exact n1

/-- GLINE only changes `config.banned` (and then runs KILL) -/
theorem cmdGline_le {st0 : St} {c c' : Ctx} {sid : Id} {m : IrcMsg} (h : ChanLe st0 c.st)
    (hr : cmdGline c sid m = .ok c') : ChanLe st0 c'.st := by
  unfold cmdGline at hr
  obtain ⟨s, hs, hr⟩ := Res.bind_eq_ok.1 hr
  split at hr
  · cases hr; exact h
  · obtain ⟨p0, hp0, hr⟩ := Res.bind_eq_ok.1 hr
    split at hr
    · cases hr; exact h
    · obtain ⟨t, ht, hr⟩ := Res.bind_eq_ok.1 hr
      split at hr
      · cases hr; exact h
      · dsimp only at hr
        exact cmdKill_le (c := { c with st := { c.st with config :=
          { c.st.config with banned := AMap.set c.st.config.banned t.remoteAddr m.trailing } } })
          (h.congr rfl (Nat.le_refl _)) hr

/-! ### NICK -/

theorem chanLim_renameCtx (c : Ctx) (tid : Id) (lcnew old : String) (b : Bool) :
    (renameCtx c tid lcnew old b).st.config = c.st.config ∧
    (renameCtx c tid lcnew old b).st.channels.length = c.st.channels.length := by
  unfold renameCtx
  cases b
  · exact ⟨rfl, rfl⟩
  · exact ⟨rfl, List.length_map _⟩

theorem chanLim_holdCtx (c : Ctx) (k : String) (held : Option SvsHold) :
    (holdCtx c k held).st.config = c.st.config ∧ (holdCtx c k held).st.channels = c.st.channels := by
  cases held <;> exact ⟨rfl, rfl⟩

theorem cmdNickTail_le {st0 : St} {c c' : Ctx} {sid : Id} {m : IrcMsg} {s : Session} {nick : String}
    {held : Option SvsHold} (h : ChanLe st0 c.st) (hr : cmdNickTail c sid m s nick held = .ok c') :
    ChanLe st0 c'.st := by
  unfold cmdNickTail at hr
  dsimp only at hr
  obtain ⟨hc0, hch0⟩ := chanLim_holdCtx c (nickToLower nick) held
  have n0 : ChanLe st0 (holdCtx c (nickToLower nick) held).st := h.same hc0 hch0
  generalize holdCtx c (nickToLower nick) held = c0 at hr n0
  split at hr
  · cases hr; exact n0
  generalize (nickToLower s.nick != "" &&
      !(s.loggedIn && nickToLower nick == nickToLower (if s.loggedIn = true then s.nick else "*"))) = b at hr
  obtain ⟨c1, hm1, hr⟩ := Res.bind_eq_ok.1 hr
  obtain ⟨c2, hm2, hr⟩ := Res.bind_eq_ok.1 hr
  have n1 : ChanLe st0 c1.st := n0.modS hm1
  obtain ⟨hcr, hlr⟩ := chanLim_renameCtx c1 sid (nickToLower nick) (nickToLower s.nick) b
  have nr : ChanLe st0 (renameCtx c1 sid (nickToLower nick) (nickToLower s.nick) b).st :=
    n1.congr (by rw [hcr]) (Nat.le_of_eq hlr)
  have n2 : ChanLe st0 c2.st := nr.modS hm2
  split at hr
  · obtain ⟨s2, _, hr⟩ := Res.bind_eq_ok.1 hr
    obtain ⟨rc, _, hr⟩ := Res.bind_eq_ok.1 hr
    cases hr
    exact n2
  · exact maybeLogin_le n2 hr

theorem cmdNick_le {st0 : St} {c c' : Ctx} {sid : Id} {m : IrcMsg} (h : ChanLe st0 c.st)
    (hr : cmdNick c sid m = .ok c') : ChanLe st0 c'.st := by
  rw [cmdNick_eq] at hr
  obtain ⟨s, hs, hr⟩ := Res.bind_eq_ok.1 hr
  dsimp only at hr
  generalize m.params.head?.getD "" = nick at hr
  split at hr
  · cases hr; exact h
  generalize (if s.loggedIn = true then s.nick else "*") = dest at hr
  split at hr
  · cases hr; exact h
  split at hr
  · cases hr; exact h
  split at hr
  · split at hr
    · cases hr; exact h
    · exact cmdNickTail_le h hr
  · exact cmdNickTail_le h hr

/-! ### JOIN -/

/-- relative to the base state: the limit is unchanged, and if there is a limit (`maxChannels > 0`)
the number of channels is at most the larger of the base number and the limit -/
structure ChanLim (st0 st : St) : Prop where
  maxChannels : st.config.maxChannels = st0.config.maxChannels
  le : 0 < st0.config.maxChannels → st.channels.length ≤ max st0.channels.length st0.config.maxChannels

theorem ChanLim.refl (st : St) : ChanLim st st := ⟨rfl, fun _ => Nat.le_max_left _ _⟩

theorem ChanLe.lim {st0 st : St} (h : ChanLe st0 st) : ChanLim st0 st :=
  ⟨h.maxChannels, fun _ => Nat.le_trans h.le (Nat.le_max_left _ _)⟩

/-- a `ChanLe` step after a `ChanLim` run -/
theorem ChanLim.then_le {a b c : St} (h1 : ChanLim a b) (h2 : ChanLe b c) : ChanLim a c :=
  ⟨h2.maxChannels.trans h1.maxChannels, fun h => Nat.le_trans h2.le (h1.le h)⟩

/-- a `ChanLim` run after a `ChanLe` step -/
theorem ChanLe.then_lim {a b c : St} (h1 : ChanLe a b) (h2 : ChanLim b c) : ChanLim a c := by
  refine ⟨h2.maxChannels.trans h1.maxChannels, fun h => ?_⟩
  have h3 := h2.le (by rw [h1.maxChannels]; exact h)
  rw [h1.maxChannels] at h3
  have := h1.le
  omega

theorem ChanLim.trans {a b c : St} (h1 : ChanLim a b) (h2 : ChanLim b c) : ChanLim a c := by
  refine ⟨h2.maxChannels.trans h1.maxChannels, fun h => ?_⟩
  have h3 := h2.le (by rw [h1.maxChannels]; exact h)
  rw [h1.maxChannels] at h3
  have := h1.le h
  omega

/-- the admission phase: the channel map is untouched, or a new key was stored while the number of
channels was below the limit (or there is no limit) -/
theorem joinAdmit_channels {c c1 : Ctx} {sid : Id} {s : Session} {chn key : String} {mm : Option (Option IrcMsg)}
    (hr : joinAdmit c sid s chn key = .ok (c1, mm)) :
    c1.st.config = c.st.config ∧
    (c1.st.channels = c.st.channels ∨
      (AMap.get c.st.channels (chanToLower chn) = none ∧
        c1.st.channels.length = c.st.channels.length + 1 ∧
        (c.st.config.maxChannels = 0 ∨ c.st.channels.length < c.st.config.maxChannels) ∧
        ∃ ch, AMap.get c1.st.channels (chanToLower chn) = some ch)) := by
  unfold joinAdmit at hr
  dsimp only at hr
  obtain ⟨r, h1, hr⟩ := Res.bind_eq_ok.1 hr
  have hr1 : r.1.st.config = c.st.config ∧
      (r.1.st.channels = c.st.channels ∨
        (AMap.get c.st.channels (chanToLower chn) = none ∧
          r.1.st.channels.length = c.st.channels.length + 1 ∧
          (c.st.config.maxChannels = 0 ∨ c.st.channels.length < c.st.config.maxChannels) ∧
          ∃ ch, AMap.get r.1.st.channels (chanToLower chn) = some ch)) := by
    simp only [getChan_eq] at h1
    split at h1
    · rename_i hnone
      split at h1
      · cases h1; exact ⟨rfl, Or.inl rfl⟩
      · rename_i hlim
        cases h1
        refine ⟨rfl, Or.inr ⟨hnone, chanLim_length_set_of_none _ hnone, ?_, _, AMap.get_set_same _ _ _⟩⟩
        simp only [ge_iff_le, gt_iff_lt, Bool.and_eq_true, decide_eq_true_eq, not_and, Nat.not_lt,
          Nat.le_zero_eq] at hlim
        by_cases hz : c.st.config.maxChannels = 0
        · exact Or.inl hz
        · right
          have := mt hlim hz
          omega
    · split at h1
      · cases h1; exact ⟨rfl, Or.inl rfl⟩
      · split at h1
        · cases h1
        · obtain ⟨isB, _, h1⟩ := Res.bind_eq_ok.1 h1
          split at h1
          · cases h1; exact ⟨rfl, Or.inl rfl⟩
          · split at h1 <;> (cases h1; exact ⟨rfl, Or.inl rfl⟩)
  split at hr <;> (cases hr; exact hr1)

theorem joinAdmit_lim {st0 : St} {c c1 : Ctx} {sid : Id} {s : Session} {chn key : String}
    {mm : Option (Option IrcMsg)} (h : ChanLim st0 c.st) (hr : joinAdmit c sid s chn key = .ok (c1, mm)) :
    ChanLim st0 c1.st := by
  obtain ⟨hc, hch⟩ := joinAdmit_channels hr
  refine ⟨by rw [hc]; exact h.maxChannels, fun hpos => ?_⟩
  have hb := h.le hpos
  rcases hch with e | ⟨_, e, hl, _⟩
  · rw [e]; exact hb
  · rw [e]
    rw [h.maxChannels] at hl
    omega

theorem joinAnnounce_le {st0 : St} {c c' : Ctx} {sid : Id} {chn : String} {ch : Channel} {ex : Bool}
    {mm : Option IrcMsg} (h : ChanLe st0 c.st) (hr : joinAnnounce c sid chn ch ex mm = .ok c') :
    ChanLe st0 c'.st := by
  unfold joinAnnounce at hr
  obtain ⟨s1, hs1, hr⟩ := Res.bind_eq_ok.1 hr
  obtain ⟨rc, hrc, hr⟩ := Res.bind_eq_ok.1 hr
  dsimp only at hr
  obtain ⟨c1, h1, hr⟩ := Res.bind_eq_ok.1 hr
  obtain ⟨e1, _⟩ := joinModes_spec h1
  obtain ⟨c2, h2, hr⟩ := Res.bind_eq_ok.1 hr
  obtain ⟨c3, h3, hr⟩ := Res.bind_eq_ok.1 hr
  have e1' : c1.st = c.st := e1
  have n1 : ChanLe st0 (emit c1 (srv c1 "SJOIN" ["1", chn, (if (!ex) = true then "@" else "") ++ s1.nick])
      (rcServices c1.st)).st := by rw [emit_st, e1']; exact h
  exact (cmdTopic_le (cmdMode_le n1 h2) h3).of_st (cmdNames_emits hr).st

/-- after the admission phase (the channel is stored) nothing is created -/
theorem joinTail_le {st0 : St} {c c' : Ctx} {sid : Id} {s : Session} {chn : String} {ex : Bool} {mm : Option IrcMsg}
    (h : ChanLe st0 c.st) (hr : joinTail c sid s chn ex mm = .ok c') : ChanLe st0 c'.st := by
  unfold joinTail at hr
  dsimp only at hr
  simp only [getChan_eq] at hr
  split at hr
  · rename_i ch hch
    obtain ⟨c2, h2, hr⟩ := Res.bind_eq_ok.1 hr
    have n2 : ChanLe st0 c2.st ∧ c2.st.channels = c.st.channels := by
      split at h2
      · exact ⟨h.modS h2, (chanLim_modS_st h2).1⟩
      · cases h2; exact ⟨h, rfl⟩
    split at hr
    · cases hr; exact n2.1
    · obtain ⟨c3, h3, hr⟩ := Res.bind_eq_ok.1 hr
      have hch2 : AMap.get c2.st.channels (chanToLower chn) = some ch := by rw [n2.2]; exact hch
      have n3 : ChanLe st0 c3.st := ChanLe.modS (c := putChan c2 _ _) (n2.1.putChan hch2 _) h3
      exact joinAnnounce_le n3 hr
  · cases hr

/-- **one JOIN target**: the number of channels does not grow, or exactly one channel — whose key was
not stored — is created, and then the number of channels was below the limit (or there is no limit) -/
theorem joinOne_creates_only_below_limit {c c' : Ctx} {sid : Id} {chn key : String}
    (hr : joinOne c sid chn key = .ok c') :
    c'.st.config.maxChannels = c.st.config.maxChannels ∧
    (c'.st.channels.length ≤ c.st.channels.length ∨
      (c'.st.channels.length = c.st.channels.length + 1 ∧ AMap.get c.st.channels (chanToLower chn) = none ∧
        (c.st.config.maxChannels = 0 ∨ c.st.channels.length < c.st.config.maxChannels))) := by
  rw [joinOne_eq] at hr
  obtain ⟨s0, hs0, hr⟩ := Res.bind_eq_ok.1 hr
  split at hr
  · cases hr; exact ⟨rfl, Or.inl (Nat.le_refl _)⟩
  · obtain ⟨r, hadm, hr⟩ := Res.bind_eq_ok.1 hr
    obtain ⟨c1, mm⟩ := r
    obtain ⟨hc, hch⟩ := joinAdmit_channels hadm
    have htail : ChanLe c1.st c'.st := by
      cases mm with
      | none => cases hr; exact ChanLe.refl _
      | some mm =>
        dsimp only at hr
        exact joinTail_le (ChanLe.refl _) hr
    refine ⟨by rw [htail.maxChannels, hc], ?_⟩
    have hl := htail.le
    rcases hch with e | ⟨hnone, e, hlim, _⟩
    · rw [e] at hl; exact Or.inl hl
    · rw [e] at hl
      by_cases hle : c'.st.channels.length ≤ c.st.channels.length
      · exact Or.inl hle
      · exact Or.inr ⟨by omega, hnone, hlim⟩

theorem joinOne_lim {st0 : St} {c c' : Ctx} {sid : Id} {chn key : String} (h : ChanLim st0 c.st)
    (hr : joinOne c sid chn key = .ok c') : ChanLim st0 c'.st := by
  obtain ⟨hc, hch⟩ := joinOne_creates_only_below_limit hr
  refine ⟨hc.trans h.maxChannels, fun hpos => ?_⟩
  have hb := h.le hpos
  rcases hch with hl | ⟨e, _, hl⟩
  · exact Nat.le_trans hl hb
  · rw [e]
    rw [h.maxChannels] at hl
    omega

theorem joinLoop_lim {st0 : St} {keys chans : List String} {idx : Nat} {c c' : Ctx} {sid : Id}
    (h : ChanLim st0 c.st) (hr : joinLoop c sid keys chans idx = .ok c') : ChanLim st0 c'.st := by
  induction chans generalizing c idx with
  | nil => cases hr; exact h
  | cons ch rest ih =>
    unfold joinLoop at hr
    obtain ⟨c1, h1, hr⟩ := Res.bind_eq_ok.1 hr
    exact ih (joinOne_lim h h1) hr

theorem cmdJoin_lim {st0 : St} {c c' : Ctx} {sid : Id} {m : IrcMsg} (h : ChanLim st0 c.st)
    (hr : cmdJoin c sid m = .ok c') : ChanLim st0 c'.st := by
  unfold cmdJoin at hr
  obtain ⟨p0, _, hr⟩ := Res.bind_eq_ok.1 hr
  exact joinLoop_lim h hr

/-- **JOIN**: the limit is unchanged, and with a limit the number of channels stays at most the
larger of the previous number and the limit -/
theorem cmdJoin_channel_limit {c c' : Ctx} {sid : Id} {m : IrcMsg} (hr : cmdJoin c sid m = .ok c') :
    c'.st.config.maxChannels = c.st.config.maxChannels ∧
    (0 < c.st.config.maxChannels → c'.st.channels.length ≤ max c.st.channels.length c.st.config.maxChannels) :=
  let h := cmdJoin_lim (ChanLim.refl c.st) hr
  ⟨h.maxChannels, h.le⟩

end Robust.Irc
