import Robust.Irc.Proofs.NH1
import Robust.Irc.Proofs.NH3
import Robust.Irc.Proofs.Clean
/-!
The dispatch of `processMessage`: every entry of the regenerated command table
(`Gen.Commands.commands`, 55 entries outside the test-only environment guard) leads to a handler
for which the per-handler theorems of the groups H1/H2/H3 (and their `NI` companions) apply.

* `lookupCommand_mem`   – a successful lookup is an entry of the table;
* `startsLowerS`        – keys of services commands start with a lower-case `s`, which an
                          upper-cased client command never does (`upperChar_ne_s`);
* `ClientOK`/`ServerOK` – what the gate needs from the handler found;
* `client_dispatch`, `server_dispatch` – the finite case split over the table.
-/
namespace Robust.Irc
open Robust AMap

/-! ### the lookup -/

theorem lookupCommand_mem {key fname : String} {mp : Nat} (h : lookupCommand key = some (fname, mp)) :
    (key, fname, mp, false) ∈ Gen.Commands.commands := by
  unfold lookupCommand at h
  split at h
  · rename_i e he
    have hm := List.mem_of_find?_eq_some he
    have hp := List.find?_some he
    simp only [Bool.and_eq_true, beq_iff_eq, Bool.not_eq_true'] at hp
    obtain ⟨k, f, n, b⟩ := e
    simp only [Option.some.injEq, Prod.mk.injEq] at h
    obtain ⟨rfl, rfl⟩ := h
    obtain ⟨rfl, rfl⟩ := hp
    exact hm
  · cases h

/-! ### client keys are upper-case, services keys start with `s` -/

def startsLowerS (k : String) : Bool :=
  match k.toList with
  | c :: _ => c == 's'
  | [] => false

theorem upperTable_no_s : Gen.Unicode.toUpperTable.toList.all (fun p => p.2 != 115) = true := by decide +kernel

theorem upperChar_ne_s (c : Char) : upperChar c ≠ 's' := by
  unfold upperChar
  split
  · split
    · rename_i h1 h2
      rw [Char.le_def, Char.le_def] at h2
      have ha : 97 ≤ c.toNat := UInt32.le_iff_toNat_le.mp h2.1
      have hz : c.toNat ≤ 122 := UInt32.le_iff_toNat_le.mp h2.2
      intro he
      have := congrArg Char.toNat he
      rw [toNat_ofNat_valid _ (by omega)] at this
      have h115 : ('s' : Char).toNat = 115 := by decide
      omega
    · rename_i h1 h2
      intro he
      subst he
      exact h2 (by decide)
  · split
    · rename_i v hv
      obtain ⟨k, hk⟩ := lookupTable_mem _ _ _ hv
      have h1 := List.all_eq_true.mp upperTable_no_s (k, v) hk
      have h2 := List.all_eq_true.mp upperTable_ok (k, v) hk
      simp only [Bool.and_eq_true, Bool.or_eq_true, bne_iff_ne, decide_eq_true_eq] at h1 h2
      intro he
      have := congrArg Char.toNat he
      rw [toNat_ofNat_valid v h2.2] at this
      have h115 : ('s' : Char).toNat = 115 := by decide
      omega
    · rename_i h1 _ _
      intro he
      subst he
      exact h1 (by decide)

theorem startsLowerS_toUpper (x : String) : startsLowerS (toUpper x) = false := by
  unfold startsLowerS toUpper
  rw [String.toList_ofList]
  cases x.toList with
  | nil => rfl
  | cons c t =>
    simp only [List.map_cons, beq_eq_false_iff_ne, ne_eq]
    exact upperChar_ne_s c

theorem startsLowerS_server (cmd : String) : startsLowerS ("server_" ++ cmd) = true := by
  unfold startsLowerS
  have e : ("server_" ++ cmd).toList = 's' :: 'e' :: 'r' :: 'v' :: 'e' :: 'r' :: '_' :: cmd.toList := by
    rw [String.toList_append]; rfl
  rw [e]
  rfl

theorem server_key_eq {k cmd : String} (h : k = "server_" ++ cmd) : cmd = String.ofList (k.toList.drop 7) := by
  subst h
  have e : ("server_" ++ cmd).toList = 's' :: 'e' :: 'r' :: 'v' :: 'e' :: 'r' :: '_' :: cmd.toList := by
    rw [String.toList_append]; rfl
  rw [e]
  simp

/-! ### what the gate needs from a handler -/

/-- the documented number of parameters of the services commands (`H3_summary`) -/
def docParams : String → Nat
  | "NICK" => 4 | "QUIT" => 0 | "KILL" => 2 | "JOIN" => 1 | "PART" => 1 | "KICK" => 2 | "MODE" => 1
  | "PRIVMSG" => 1 | "NOTICE" => 1 | "INVITE" => 2 | "TOPIC" => 3 | "SVSHOLD" => 1 | "SVSJOIN" => 2
  | "SVSMODE" => 2 | "SVSNICK" => 2 | "SVSPART" => 2 | _ => 0

/-- `n` parameters are acceptable for the services command `cmd`: the documented number, where NICK
also has the one-parameter form (a no-op) -/
def ParamsOK (cmd : String) (n : Nat) : Prop :=
  if cmd = "NICK" then n = 1 ∨ 4 ≤ n else docParams cmd ≤ n

theorem NPres.of_ni {h : Ctx → Id → IrcMsg → Res Ctx}
    (H : ∀ {c c' : Ctx} {sid : Id} {m : IrcMsg}, NI c.st → h c sid m = .ok c' → NI c'.st) : NPres h :=
  fun _ _ _ _ _ hn hr => H hn hr

/-- a client handler registered with `mp` parameters; `nl` = only dispatched for registered sessions -/
structure ClientOK (h : Ctx → Id → IrcMsg → Res Ctx) (mp : Nat) (nl : Bool) : Prop where
  post : ∀ c sid m c' s, Pre c sid → NI c.st → AMap.get c.st.sessions sid = some s →
    (nl = true → s.loggedIn = true) → h c sid m = .ok c' → Post c c' sid ∧ NI c'.st
  safe : ClientSafe h mp nl

theorem ClientOK.of_preserves {h : Ctx → Id → IrcMsg → Res Ctx} {mp : Nat} {nl : Bool}
    (hp : Preserves h) (hn : NPres h) (hs : ClientSafe h mp nl) : ClientOK h mp nl :=
  ⟨fun c sid m c' _ hpre hni _ _ hr => ⟨hp c sid m c' hpre hr, hn c sid m c' hpre hni hr⟩, hs⟩

theorem clientOK_nick : ClientOK cmdNick 0 false := by
  refine ⟨fun c sid m c' s hpre hni hs _ hr => ⟨?_, cmdNick_ni hni hr⟩, cmdNick_safe⟩
  refine cmdNick_post hpre (fun s' hs' he => ?_) hr
  obtain ⟨h1, h2⟩ := (hni.ninv hpre.inv.toWInvCore).2 sid s' hs' he
  exact ⟨h2, h1⟩

theorem clientOK_part : ClientOK cmdPart 1 true :=
  ⟨fun c sid m c' s hpre hni hs hl hr => ⟨cmdPart_preservesL c sid m c' s hpre hs (hl rfl) hr, cmdPart_ni hni hr⟩,
   cmdPart_safe⟩

theorem clientOK_join : ClientOK cmdJoin 1 true :=
  ⟨fun c sid m c' s hpre hni hs hl hr =>
     ⟨cmdJoin_preservesL_final c sid m c' s hpre hs (hl rfl) hr, cmdJoin_ni hpre hs (hl rfl) hni hr⟩,
   cmdJoin_safe_final⟩

/-- a services handler registered for the command `cmd` -/
structure ServerOK (h : Ctx → Id → IrcMsg → Res Ctx) (cmd : String) : Prop where
  post : ∀ c sid m c' s, Pre c sid → NI c.st → AMap.get c.st.sessions sid = some s → s.server = true →
    h c sid m = .ok c' → Post c c' sid ∧ NI c'.st
  safe : ∀ c sid m s, Pre c sid → AMap.get c.st.sessions sid = some s → s.server = true →
    m.pfx.isSome = true → ParamsOK cmd m.params.length → ∀ site, h c sid m ≠ .panic site

theorem ServerOK.mk' {h : Ctx → Id → IrcMsg → Res Ctx} {cmd : String} {d : Nat}
    (hp : PreservesSrv h) (hn : NPresSrv h) (hs : ServicesSafe h d) (hne : cmd ≠ "NICK") (hd : docParams cmd = d) :
    ServerOK h cmd :=
  ⟨fun c sid m c' s hpre hni hg hsrv hr => ⟨hp c sid m c' s hpre hg hsrv hr, hn c sid m c' s hpre hg hsrv hni hr⟩,
   fun c sid m s hpre hg hsrv hpfx hpar => by
     unfold ParamsOK at hpar
     rw [if_neg hne, hd] at hpar
     exact hs c sid m s hpre hg hsrv hpfx hpar⟩

theorem serverOK_nick : ServerOK cmdServerNick "NICK" :=
  ⟨fun c sid m c' s hpre hni hg hsrv hr =>
     ⟨cmdServerNick_preserves c sid m c' s hpre hg hsrv hr, cmdServerNick_npres c sid m c' s hpre hg hsrv hni hr⟩,
   fun c sid m s _ hg _ _ hpar => by
     unfold ParamsOK at hpar
     rw [if_pos rfl] at hpar
     exact cmdServerNick_noPanic hg hpar⟩

/-- `server_PING` is served by the client handler -/
theorem serverOK_ping : ServerOK cmdPing "PING" :=
  ⟨fun c sid m c' s hpre hni _ _ hr => ⟨cmdPing_preserves c sid m c' hpre hr, cmdPing_npres c sid m c' hpre hni hr⟩,
   fun c sid m s _ hg _ _ _ => by
     unfold cmdPing
     rw [getS_of_get hg]
     simp only [Res.ok_bind]
     split <;> (intro site h; cases h)⟩

/-! ### the table -/

/-- a key that does not start with `s` (a client command) -/
theorem client_dispatch {key fname : String} {mp : Nat} {s : Session}
    (hmem : (key, fname, mp, false) ∈ Gen.Commands.commands) (hns : startsLowerS key = false)
    (hgate : s.loggedIn = true ∨ key = "NICK" ∨ key = "USER" ∨ key = "PASS" ∨ key = "QUIT" ∨ key = "SERVER") :
    ∃ h nl, handlerByName fname = some h ∧ ClientOK h mp nl ∧ (nl = true → s.loggedIn = true) := by
  simp only [Gen.Commands.commands, List.mem_cons, Prod.mk.injEq, List.not_mem_nil, or_false, and_true,
    Bool.false_eq_true, and_false, false_or, or_false] at hmem
  rcases hmem with
    ⟨rfl, rfl, rfl⟩ |
    ⟨rfl, rfl, rfl⟩ |
    ⟨rfl, rfl, rfl⟩ |
    ⟨rfl, rfl, rfl⟩ |
    ⟨rfl, rfl, rfl⟩ |
    ⟨rfl, rfl, rfl⟩ |
    ⟨rfl, rfl, rfl⟩ |
    ⟨rfl, rfl, rfl⟩ |
    ⟨rfl, rfl, rfl⟩ |
    ⟨rfl, rfl, rfl⟩ |
    ⟨rfl, rfl, rfl⟩ |
    ⟨rfl, rfl, rfl⟩ |
    ⟨rfl, rfl, rfl⟩ |
    ⟨rfl, rfl, rfl⟩ |
    ⟨rfl, rfl, rfl⟩ |
    ⟨rfl, rfl, rfl⟩ |
    ⟨rfl, rfl, rfl⟩ |
    ⟨rfl, rfl, rfl⟩ |
    ⟨rfl, rfl, rfl⟩ |
    ⟨rfl, rfl, rfl⟩ |
    ⟨rfl, rfl, rfl⟩ |
    ⟨rfl, rfl, rfl⟩ |
    ⟨rfl, rfl, rfl⟩ |
    ⟨rfl, rfl, rfl⟩ |
    ⟨rfl, rfl, rfl⟩ |
    ⟨rfl, rfl, rfl⟩ |
    ⟨rfl, rfl, rfl⟩ |
    ⟨rfl, rfl, rfl⟩ |
    ⟨rfl, rfl, rfl⟩ |
    ⟨rfl, rfl, rfl⟩ |
    ⟨rfl, rfl, rfl⟩ |
    ⟨rfl, rfl, rfl⟩ |
    ⟨rfl, rfl, rfl⟩ |
    ⟨rfl, rfl, rfl⟩ |
    ⟨rfl, rfl, rfl⟩ |
    ⟨rfl, rfl, rfl⟩ |
    ⟨rfl, rfl, rfl⟩ |
    ⟨rfl, rfl, rfl⟩ |
    ⟨rfl, rfl, rfl⟩ |
    ⟨rfl, rfl, rfl⟩ |
    ⟨rfl, rfl, rfl⟩ |
    ⟨rfl, rfl, rfl⟩ |
    ⟨rfl, rfl, rfl⟩ |
    ⟨rfl, rfl, rfl⟩ |
    ⟨rfl, rfl, rfl⟩ |
    ⟨rfl, rfl, rfl⟩ |
    ⟨rfl, rfl, rfl⟩ |
    ⟨rfl, rfl, rfl⟩ |
    ⟨rfl, rfl, rfl⟩ |
    ⟨rfl, rfl, rfl⟩ |
    ⟨rfl, rfl, rfl⟩ |
    ⟨rfl, rfl, rfl⟩ |
    ⟨rfl, rfl, rfl⟩ |
    ⟨rfl, rfl, rfl⟩ |
    ⟨rfl, rfl, rfl⟩
  · exact ⟨cmdAway, true, rfl, ClientOK.of_preserves cmdAway_preserves cmdAway_npres cmdAway_safe, (fun _ => by simpa using hgate)⟩
  · exact ⟨cmdServiceAlias, true, rfl, ClientOK.of_preserves cmdServiceAlias_preserves cmdServiceAlias_npres cmdServiceAlias_safe, (fun _ => by simpa using hgate)⟩
  · exact ⟨cmdServiceAlias, true, rfl, ClientOK.of_preserves cmdServiceAlias_preserves cmdServiceAlias_npres cmdServiceAlias_safe, (fun _ => by simpa using hgate)⟩
  · exact ⟨cmdServiceAlias, true, rfl, ClientOK.of_preserves cmdServiceAlias_preserves cmdServiceAlias_npres cmdServiceAlias_safe, (fun _ => by simpa using hgate)⟩
  · exact ⟨cmdServiceAlias, true, rfl, ClientOK.of_preserves cmdServiceAlias_preserves cmdServiceAlias_npres cmdServiceAlias_safe, (fun _ => by simpa using hgate)⟩
  · exact ⟨cmdGline, true, rfl, ClientOK.of_preserves cmdGline_preserves (NPres.of_ni fun h hr => cmdGline_ni h hr) cmdGline_safe, (fun _ => by simpa using hgate)⟩
  · exact ⟨cmdServiceAlias, true, rfl, ClientOK.of_preserves cmdServiceAlias_preserves cmdServiceAlias_npres cmdServiceAlias_safe, (fun _ => by simpa using hgate)⟩
  · exact ⟨cmdServiceAlias, true, rfl, ClientOK.of_preserves cmdServiceAlias_preserves cmdServiceAlias_npres cmdServiceAlias_safe, (fun _ => by simpa using hgate)⟩
  · exact ⟨cmdInvite, true, rfl, ClientOK.of_preserves cmdInvite_preserves cmdInvite_npres cmdInvite_safe, (fun _ => by simpa using hgate)⟩
  · exact ⟨cmdIson, true, rfl, ClientOK.of_preserves cmdIson_preserves cmdIson_npres cmdIson_safe, (fun _ => by simpa using hgate)⟩
  · exact ⟨cmdJoin, true, rfl, clientOK_join, (fun _ => by simpa using hgate)⟩
  · exact ⟨cmdKick, true, rfl, ClientOK.of_preserves cmdKick_preserves (NPres.of_ni fun h hr => cmdKick_ni h hr) cmdKick_safe, (fun _ => by simpa using hgate)⟩
  · exact ⟨cmdKill, true, rfl, ClientOK.of_preserves cmdKill_preserves (NPres.of_ni fun h hr => cmdKill_ni h hr) cmdKill_safe, (fun _ => by simpa using hgate)⟩
  · exact ⟨cmdKnock, true, rfl, ClientOK.of_preserves cmdKnock_preserves cmdKnock_npres cmdKnock_safe, (fun _ => by simpa using hgate)⟩
  · exact ⟨cmdList, true, rfl, ClientOK.of_preserves cmdList_preserves cmdList_npres cmdList_safe, (fun _ => by simpa using hgate)⟩
  · exact ⟨cmdServiceAlias, true, rfl, ClientOK.of_preserves cmdServiceAlias_preserves cmdServiceAlias_npres cmdServiceAlias_safe, (fun _ => by simpa using hgate)⟩
  · exact ⟨cmdMode, true, rfl, ClientOK.of_preserves cmdMode_preserves cmdMode_npres cmdMode_safe, (fun _ => by simpa using hgate)⟩
  · exact ⟨cmdMotd, true, rfl, ClientOK.of_preserves cmdMotd_preserves (NPres.of_ni fun h hr => cmdMotd_ni h hr) cmdMotd_safe, (fun _ => by simpa using hgate)⟩
  · exact ⟨cmdServiceAlias, true, rfl, ClientOK.of_preserves cmdServiceAlias_preserves cmdServiceAlias_npres cmdServiceAlias_safe, (fun _ => by simpa using hgate)⟩
  · exact ⟨cmdNames, true, rfl, ClientOK.of_preserves cmdNames_preserves cmdNames_npres cmdNames_safe, (fun _ => by simpa using hgate)⟩
  · exact ⟨cmdNick, false, rfl, clientOK_nick, fun h => by cases h⟩
  · exact ⟨cmdServiceAlias, true, rfl, ClientOK.of_preserves cmdServiceAlias_preserves cmdServiceAlias_npres cmdServiceAlias_safe, (fun _ => by simpa using hgate)⟩
  · exact ⟨cmdPrivmsg, true, rfl, ClientOK.of_preserves cmdPrivmsg_preserves cmdPrivmsg_npres cmdPrivmsg_safe, (fun _ => by simpa using hgate)⟩
  · exact ⟨cmdServiceAlias, true, rfl, ClientOK.of_preserves cmdServiceAlias_preserves cmdServiceAlias_npres cmdServiceAlias_safe, (fun _ => by simpa using hgate)⟩
  · exact ⟨cmdOper, true, rfl, ClientOK.of_preserves cmdOper_preserves (NPres.of_ni fun h hr => cmdOper_ni h hr) cmdOper_safe, (fun _ => by simpa using hgate)⟩
  · exact ⟨cmdServiceAlias, true, rfl, ClientOK.of_preserves cmdServiceAlias_preserves cmdServiceAlias_npres cmdServiceAlias_safe, (fun _ => by simpa using hgate)⟩
  · exact ⟨cmdServiceAlias, true, rfl, ClientOK.of_preserves cmdServiceAlias_preserves cmdServiceAlias_npres cmdServiceAlias_safe, (fun _ => by simpa using hgate)⟩
  · exact ⟨cmdPart, true, rfl, clientOK_part, (fun _ => by simpa using hgate)⟩
  · exact ⟨cmdPass, false, rfl, ClientOK.of_preserves cmdPass_preserves (NPres.of_ni fun h hr => cmdPass_ni h hr) cmdPass_safe, (fun h => by cases h)⟩
  · exact ⟨cmdPing, true, rfl, ClientOK.of_preserves cmdPing_preserves cmdPing_npres cmdPing_safe, (fun _ => by simpa using hgate)⟩
  · exact ⟨cmdPrivmsg, true, rfl, ClientOK.of_preserves cmdPrivmsg_preserves cmdPrivmsg_npres cmdPrivmsg_safe, (fun _ => by simpa using hgate)⟩
  · exact ⟨cmdQuit, false, rfl, ClientOK.of_preserves cmdQuit_preserves (NPres.of_ni fun h hr => cmdQuit_ni h hr) cmdQuit_safe, (fun h => by cases h)⟩
  · exact ⟨cmdServer, false, rfl, ClientOK.of_preserves cmdServer_preserves (NPres.of_ni fun h hr => cmdServer_ni h hr) cmdServer_safe, (fun h => by cases h)⟩
  · exact ⟨cmdTopic, true, rfl, ClientOK.of_preserves cmdTopic_preserves cmdTopic_npres cmdTopic_safe, (fun _ => by simpa using hgate)⟩
  · exact ⟨cmdUser, false, rfl, ClientOK.of_preserves cmdUser_preserves (NPres.of_ni fun h hr => cmdUser_ni h hr) cmdUser_safe, (fun h => by cases h)⟩
  · exact ⟨cmdUserhost, true, rfl, ClientOK.of_preserves cmdUserhost_preserves cmdUserhost_npres cmdUserhost_safe, (fun _ => by simpa using hgate)⟩
  · exact ⟨cmdWho, true, rfl, ClientOK.of_preserves cmdWho_preserves cmdWho_npres cmdWho_safe, (fun _ => by simpa using hgate)⟩
  · exact ⟨cmdWhois, true, rfl, ClientOK.of_preserves cmdWhois_preserves cmdWhois_npres cmdWhois_safe, (fun _ => by simpa using hgate)⟩
  · exact absurd hns (by decide)
  · exact absurd hns (by decide)
  · exact absurd hns (by decide)
  · exact absurd hns (by decide)
  · exact absurd hns (by decide)
  · exact absurd hns (by decide)
  · exact absurd hns (by decide)
  · exact absurd hns (by decide)
  · exact absurd hns (by decide)
  · exact absurd hns (by decide)
  · exact absurd hns (by decide)
  · exact absurd hns (by decide)
  · exact absurd hns (by decide)
  · exact absurd hns (by decide)
  · exact absurd hns (by decide)
  · exact absurd hns (by decide)
  · exact absurd hns (by decide)

/-- a key `"server_" ++ cmd` (a services command) -/
theorem server_dispatch {key cmd fname : String} {mp : Nat}
    (hmem : (key, fname, mp, false) ∈ Gen.Commands.commands) (hkey : key = "server_" ++ cmd) :
    ∃ h, handlerByName fname = some h ∧ ServerOK h cmd := by
  simp only [Gen.Commands.commands, List.mem_cons, Prod.mk.injEq, List.not_mem_nil, or_false, and_true,
    Bool.false_eq_true, and_false, false_or, or_false] at hmem
  rcases hmem with
    ⟨rfl, rfl, rfl⟩ |
    ⟨rfl, rfl, rfl⟩ |
    ⟨rfl, rfl, rfl⟩ |
    ⟨rfl, rfl, rfl⟩ |
    ⟨rfl, rfl, rfl⟩ |
    ⟨rfl, rfl, rfl⟩ |
    ⟨rfl, rfl, rfl⟩ |
    ⟨rfl, rfl, rfl⟩ |
    ⟨rfl, rfl, rfl⟩ |
    ⟨rfl, rfl, rfl⟩ |
    ⟨rfl, rfl, rfl⟩ |
    ⟨rfl, rfl, rfl⟩ |
    ⟨rfl, rfl, rfl⟩ |
    ⟨rfl, rfl, rfl⟩ |
    ⟨rfl, rfl, rfl⟩ |
    ⟨rfl, rfl, rfl⟩ |
    ⟨rfl, rfl, rfl⟩ |
    ⟨rfl, rfl, rfl⟩ |
    ⟨rfl, rfl, rfl⟩ |
    ⟨rfl, rfl, rfl⟩ |
    ⟨rfl, rfl, rfl⟩ |
    ⟨rfl, rfl, rfl⟩ |
    ⟨rfl, rfl, rfl⟩ |
    ⟨rfl, rfl, rfl⟩ |
    ⟨rfl, rfl, rfl⟩ |
    ⟨rfl, rfl, rfl⟩ |
    ⟨rfl, rfl, rfl⟩ |
    ⟨rfl, rfl, rfl⟩ |
    ⟨rfl, rfl, rfl⟩ |
    ⟨rfl, rfl, rfl⟩ |
    ⟨rfl, rfl, rfl⟩ |
    ⟨rfl, rfl, rfl⟩ |
    ⟨rfl, rfl, rfl⟩ |
    ⟨rfl, rfl, rfl⟩ |
    ⟨rfl, rfl, rfl⟩ |
    ⟨rfl, rfl, rfl⟩ |
    ⟨rfl, rfl, rfl⟩ |
    ⟨rfl, rfl, rfl⟩ |
    ⟨rfl, rfl, rfl⟩ |
    ⟨rfl, rfl, rfl⟩ |
    ⟨rfl, rfl, rfl⟩ |
    ⟨rfl, rfl, rfl⟩ |
    ⟨rfl, rfl, rfl⟩ |
    ⟨rfl, rfl, rfl⟩ |
    ⟨rfl, rfl, rfl⟩ |
    ⟨rfl, rfl, rfl⟩ |
    ⟨rfl, rfl, rfl⟩ |
    ⟨rfl, rfl, rfl⟩ |
    ⟨rfl, rfl, rfl⟩ |
    ⟨rfl, rfl, rfl⟩ |
    ⟨rfl, rfl, rfl⟩ |
    ⟨rfl, rfl, rfl⟩ |
    ⟨rfl, rfl, rfl⟩ |
    ⟨rfl, rfl, rfl⟩ |
    ⟨rfl, rfl, rfl⟩
  · exact absurd (startsLowerS_server cmd) (by rw [← hkey]; decide)
  · exact absurd (startsLowerS_server cmd) (by rw [← hkey]; decide)
  · exact absurd (startsLowerS_server cmd) (by rw [← hkey]; decide)
  · exact absurd (startsLowerS_server cmd) (by rw [← hkey]; decide)
  · exact absurd (startsLowerS_server cmd) (by rw [← hkey]; decide)
  · exact absurd (startsLowerS_server cmd) (by rw [← hkey]; decide)
  · exact absurd (startsLowerS_server cmd) (by rw [← hkey]; decide)
  · exact absurd (startsLowerS_server cmd) (by rw [← hkey]; decide)
  · exact absurd (startsLowerS_server cmd) (by rw [← hkey]; decide)
  · exact absurd (startsLowerS_server cmd) (by rw [← hkey]; decide)
  · exact absurd (startsLowerS_server cmd) (by rw [← hkey]; decide)
  · exact absurd (startsLowerS_server cmd) (by rw [← hkey]; decide)
  · exact absurd (startsLowerS_server cmd) (by rw [← hkey]; decide)
  · exact absurd (startsLowerS_server cmd) (by rw [← hkey]; decide)
  · exact absurd (startsLowerS_server cmd) (by rw [← hkey]; decide)
  · exact absurd (startsLowerS_server cmd) (by rw [← hkey]; decide)
  · exact absurd (startsLowerS_server cmd) (by rw [← hkey]; decide)
  · exact absurd (startsLowerS_server cmd) (by rw [← hkey]; decide)
  · exact absurd (startsLowerS_server cmd) (by rw [← hkey]; decide)
  · exact absurd (startsLowerS_server cmd) (by rw [← hkey]; decide)
  · exact absurd (startsLowerS_server cmd) (by rw [← hkey]; decide)
  · exact absurd (startsLowerS_server cmd) (by rw [← hkey]; decide)
  · exact absurd (startsLowerS_server cmd) (by rw [← hkey]; decide)
  · exact absurd (startsLowerS_server cmd) (by rw [← hkey]; decide)
  · exact absurd (startsLowerS_server cmd) (by rw [← hkey]; decide)
  · exact absurd (startsLowerS_server cmd) (by rw [← hkey]; decide)
  · exact absurd (startsLowerS_server cmd) (by rw [← hkey]; decide)
  · exact absurd (startsLowerS_server cmd) (by rw [← hkey]; decide)
  · exact absurd (startsLowerS_server cmd) (by rw [← hkey]; decide)
  · exact absurd (startsLowerS_server cmd) (by rw [← hkey]; decide)
  · exact absurd (startsLowerS_server cmd) (by rw [← hkey]; decide)
  · exact absurd (startsLowerS_server cmd) (by rw [← hkey]; decide)
  · exact absurd (startsLowerS_server cmd) (by rw [← hkey]; decide)
  · exact absurd (startsLowerS_server cmd) (by rw [← hkey]; decide)
  · exact absurd (startsLowerS_server cmd) (by rw [← hkey]; decide)
  · exact absurd (startsLowerS_server cmd) (by rw [← hkey]; decide)
  · exact absurd (startsLowerS_server cmd) (by rw [← hkey]; decide)
  · exact absurd (startsLowerS_server cmd) (by rw [← hkey]; decide)
  · obtain rfl : cmd = "INVITE" := (server_key_eq hkey).trans (by decide)
    exact ⟨cmdServerInvite, rfl, ServerOK.mk' cmdServerInvite_preserves cmdServerInvite_npres cmdServerInvite_safe (by decide) (by decide)⟩
  · obtain rfl : cmd = "JOIN" := (server_key_eq hkey).trans (by decide)
    exact ⟨cmdServerJoin, rfl, ServerOK.mk' cmdServerJoin_preserves cmdServerJoin_npres cmdServerJoin_safe (by decide) (by decide)⟩
  · obtain rfl : cmd = "KICK" := (server_key_eq hkey).trans (by decide)
    exact ⟨cmdServerKick, rfl, ServerOK.mk' cmdServerKick_preserves cmdServerKick_npres cmdServerKick_safe (by decide) (by decide)⟩
  · obtain rfl : cmd = "KILL" := (server_key_eq hkey).trans (by decide)
    exact ⟨cmdServerKill, rfl, ServerOK.mk' cmdServerKill_preserves cmdServerKill_npres cmdServerKill_safe (by decide) (by decide)⟩
  · obtain rfl : cmd = "MODE" := (server_key_eq hkey).trans (by decide)
    exact ⟨cmdServerMode, rfl, ServerOK.mk' cmdServerMode_preserves cmdServerMode_npres cmdServerMode_safe (by decide) (by decide)⟩
  · obtain rfl : cmd = "NICK" := (server_key_eq hkey).trans (by decide)
    exact ⟨cmdServerNick, rfl, serverOK_nick⟩
  · obtain rfl : cmd = "NOTICE" := (server_key_eq hkey).trans (by decide)
    exact ⟨cmdServerPrivmsg, rfl, ServerOK.mk' cmdServerPrivmsg_preserves cmdServerPrivmsg_npres cmdServerPrivmsg_safe (by decide) (by decide)⟩
  · obtain rfl : cmd = "PART" := (server_key_eq hkey).trans (by decide)
    exact ⟨cmdServerPart, rfl, ServerOK.mk' cmdServerPart_preserves cmdServerPart_npres cmdServerPart_safe (by decide) (by decide)⟩
  · obtain rfl : cmd = "PING" := (server_key_eq hkey).trans (by decide)
    exact ⟨cmdPing, rfl, serverOK_ping⟩
  · obtain rfl : cmd = "PRIVMSG" := (server_key_eq hkey).trans (by decide)
    exact ⟨cmdServerPrivmsg, rfl, ServerOK.mk' cmdServerPrivmsg_preserves cmdServerPrivmsg_npres cmdServerPrivmsg_safe (by decide) (by decide)⟩
  · obtain rfl : cmd = "QUIT" := (server_key_eq hkey).trans (by decide)
    exact ⟨cmdServerQuit, rfl, ServerOK.mk' cmdServerQuit_preserves cmdServerQuit_npres cmdServerQuit_safe (by decide) (by decide)⟩
  · obtain rfl : cmd = "SVSHOLD" := (server_key_eq hkey).trans (by decide)
    exact ⟨cmdServerSvshold, rfl, ServerOK.mk' cmdServerSvshold_preserves cmdServerSvshold_npres cmdServerSvshold_safe (by decide) (by decide)⟩
  · obtain rfl : cmd = "SVSJOIN" := (server_key_eq hkey).trans (by decide)
    exact ⟨cmdServerSvsjoin, rfl, ServerOK.mk' cmdServerSvsjoin_preserves cmdServerSvsjoin_npres cmdServerSvsjoin_safe (by decide) (by decide)⟩
  · obtain rfl : cmd = "SVSMODE" := (server_key_eq hkey).trans (by decide)
    exact ⟨cmdServerSvsmode, rfl, ServerOK.mk' cmdServerSvsmode_preserves cmdServerSvsmode_npres cmdServerSvsmode_safe (by decide) (by decide)⟩
  · obtain rfl : cmd = "SVSNICK" := (server_key_eq hkey).trans (by decide)
    exact ⟨cmdServerSvsnick, rfl, ServerOK.mk' cmdServerSvsnick_preserves cmdServerSvsnick_npres cmdServerSvsnick_safe (by decide) (by decide)⟩
  · obtain rfl : cmd = "SVSPART" := (server_key_eq hkey).trans (by decide)
    exact ⟨cmdServerSvspart, rfl, ServerOK.mk' cmdServerSvspart_preserves cmdServerSvspart_npres cmdServerSvspart_safe (by decide) (by decide)⟩
  · obtain rfl : cmd = "TOPIC" := (server_key_eq hkey).trans (by decide)
    exact ⟨cmdServerTopic, rfl, ServerOK.mk' cmdServerTopic_preserves cmdServerTopic_npres cmdServerTopic_safe (by decide) (by decide)⟩

end Robust.Irc
