import Robust.Irc.Proofs.Entry
import Robust.Irc.Proofs.RcptPfxEntry
import Robust.Irc.Proofs.UlenClient
import Robust.Irc.Proofs.UlenSrv
/-!
Entry-level preservation of the length invariant `UInv` (C15): a companion to `RcptPfxEntry.lean`.

Every handler in the table keeps `UInv` (`handler_upres`; USER given the three parameters its table
entry demands, `user_minParams`; the text of an entry is parsed, so `MidOK` holds); hence the stages of `processMessage`,
`processMessage` itself, one committed entry (`applyEntry`) and every well-formed history
(`runEntries`) keep it.
-/
namespace Robust.Irc
open Robust AMap

/-! ## every handler of the table keeps `UInv` -/

theorem handler_upres {fname : String} {h : Handler} (hh : handlerByName fname = some h)
    (hne : fname ≠ "cmdUser") : UPres h := by
  unfold handlerByName at hh
  split at hh
  · cases hh; exact cmdAway_upres
  · cases hh; exact cmdServiceAlias_upres
  · cases hh; exact cmdGline_upres
  · cases hh; exact cmdInvite_upres
  · cases hh; exact cmdIson_upres
  · cases hh; exact cmdJoin_upres
  · cases hh; exact cmdKick_upres
  · cases hh; exact cmdKill_upres
  · cases hh; exact cmdKnock_upres
  · cases hh; exact cmdList_upres
  · cases hh; exact cmdMode_upres
  · cases hh; exact cmdMotd_upres
  · cases hh; exact cmdNames_upres
  · cases hh; exact cmdNick_upres
  · cases hh; exact cmdOper_upres
  · cases hh; exact cmdPart_upres
  · cases hh; exact cmdPass_upres
  · cases hh; exact cmdPing_upres
  · cases hh; exact cmdPrivmsg_upres
  · cases hh; exact cmdQuit_upres
  · cases hh; exact cmdServer_upres
  · cases hh; exact cmdTopic_upres
  · exact absurd rfl hne
  · cases hh; exact cmdUserhost_upres
  · cases hh; exact cmdWho_upres
  · cases hh; exact cmdWhois_upres
  · cases hh; exact cmdServerInvite_upres
  · cases hh; exact cmdServerJoin_upres
  · cases hh; exact cmdServerKick_upres
  · cases hh; exact cmdServerKill_upres
  · cases hh; exact cmdServerMode_upres
  · cases hh; exact cmdServerNick_upres
  · cases hh; exact cmdServerPrivmsg_upres
  · cases hh; exact cmdServerPart_upres
  · cases hh; exact cmdServerQuit_upres
  · cases hh; exact cmdServerSvshold_upres
  · cases hh; exact cmdServerSvsjoin_upres
  · cases hh; exact cmdServerSvsmode_upres
  · cases hh; exact cmdServerSvsnick_upres
  · cases hh; exact cmdServerSvspart_upres
  · cases hh; exact cmdServerTopic_upres
  · cases hh

/-! ## the stages of `processMessage` -/

/-- USER is registered with at least three parameters -/
theorem user_minParams {key fname : String} {mp : Nat} (h : lookupCommand key = some (fname, mp))
    (hf : fname = "cmdUser") : 3 ≤ mp := by
  have hm := lookupCommand_mem h
  have hall : ∀ e ∈ Gen.Commands.commands, e.2.1 = "cmdUser" → 3 ≤ e.2.2.1 := by decide
  exact hall _ hm hf

theorem dispatchStage_uinv {c c' : Ctx} {sid : Id} {s : Session} {m : IrcMsg} {command : String}
    (hp : Pre c sid) (hmid : MidOK m) (hpi : UInv c.st) (hs : AMap.get c.st.sessions sid = some s)
    (hr : dispatchStage c s m command = .ok c') : UInv c'.st := by
  have hid : s.id = sid := (hp.inv.sessId _ s hs).1
  unfold dispatchStage at hr
  rw [hid] at hr
  split at hr
  · cases hr; exact hpi.sendUser _ _
  · rename_i fname mp hl
    split at hr
    · cases hr; exact hpi.sendUser _ _
    · rename_i hlen
      split at hr
      · cases hr
      · rename_i h hh
        by_cases hf : fname = "cmdUser"
        · have h3 := user_minParams hl hf
          subst hf
          have e : h = cmdUser := by
            have : handlerByName "cmdUser" = some cmdUser := rfl
            rw [this] at hh; cases hh; rfl
          subst e
          exact cmdUser_uinv hmid (by omega) hpi hr
        · exact handler_upres hh hf c sid m c' hp hmid hpi hr

theorem gateStage_uinv {c c' : Ctx} {e : Entry} {m : IrcMsg} {command : String}
    (hp : Pre c e.session) (hmid : MidOK m) (hpi : UInv c.st)
    (hr : gateStage c e m command = .ok c') : UInv c'.st := by
  unfold gateStage at hr
  obtain ⟨s, hs, hr⟩ := Res.bind_eq_ok.1 hr
  rw [getS_eq_ok] at hs
  split at hr
  · split at hr
    · exact UInv.deleteSession (c := sendUser (sendUser c _ _) _ _) ((hpi.sendUser _ _).sendUser _ _) hr
    · cases hr; exact hpi.sendUser _ _
  · exact dispatchStage_uinv hp hmid hpi hs hr

/-- the address stage: one `modS` that only changes `remoteAddr`, then possibly `sendUser` and
`deleteSession` -/
theorem addrStage_uinv {c c1 : Ctx} {e : Entry} {s : Session} {b : Bool} (hpi : UInv c.st)
    (hr : addrStage c e s = .ok (c1, b)) : UInv c1.st := by
  unfold addrStage at hr
  split at hr
  · obtain ⟨c0, hm, hr⟩ := Res.bind_eq_ok.1 hr
    have p0 : UInv c0.st := hpi.modS_keep hm (fun _ => ⟨rfl, rfl⟩)
    split at hr
    · split at hr
      · obtain ⟨c2, hd, hr⟩ := Res.bind_eq_ok.1 hr
        cases hr
        exact UInv.deleteSession (c := sendUser c0 _ _) (p0.sendUser _ _) hd
      · cases hr; exact p0
    · cases hr; exact p0
  · cases hr; exact hpi

/-- `ProcessMessage` keeps the identity invariant -/
theorem processMessage_uinv {c c' : Ctx} {e : Entry} {im : Option IrcMsg} (hp : Pre c e.session) (hn : NI c.st)
    (hmid : ∀ m, im = some m → MidOK m) (hpi : UInv c.st) (hr : processMessage c e im = .ok c') : UInv c'.st := by
  rw [processMessage_eq] at hr
  obtain ⟨s, hs, hr⟩ := Res.bind_eq_ok.1 hr
  rw [getS_eq_ok] at hs
  cases im with
  | none => cases hr; exact hpi.sendUser _ _
  | some m =>
    dsimp only at hr
    obtain ⟨⟨c1, b⟩, h1, hr⟩ := Res.bind_eq_ok.1 hr
    have p1 : UInv c1.st := addrStage_uinv hpi h1
    obtain ⟨_, hf⟩ := addrStage_spec hp hn hs h1
    cases b with
    | true => cases hr; exact p1
    | false =>
      simp only [Bool.false_eq_true, ↓reduceIte] at hr
      obtain ⟨hp1, _, n1, _⟩ := hf rfl
      exact gateStage_uinv hp1 (hmid m rfl) p1 hr

/-! ## entries -/

/-- after the handler: set `lastProcessed`, purge the flagged sessions -/
theorem UInv_finish {c0 c : Ctx} {sid x : Id} (po : Post c0 c sid) (hpi : UInv c.st) :
    UInv (maybeDeleteSession { c.st with lastProcessed := x } sid) := by
  have hI : HInv { c.st with lastProcessed := x } := (HInv_lastProcessed _ _).2 po.hinv
  exact UInv.maybeDeleteSession sid (hpi.withLastProcessed x) hI.sessNodup

theorem applyEntry_uinv (st st' : St) (e : Entry) (out : List Out) (h : GInv st) (hpi : UInv st)
    (he : EntryOk st e) (hr : applyEntry st e = .ok (st', out)) : UInv st' := by
  unfold applyEntry at hr
  split at hr
  · -- MessageOfDeath
    cases hr
    cases hu : updateLastClientMessageID st e with
    | none => exact hpi
    | some st1 => exact hpi.updateLastClientMessageID hu
  split at hr
  · -- CreateSession
    cases hr
    cases hcs : createSession st ⟨e.id, 0⟩ e.data e.timestamp with
    | none => exact hpi
    | some st1 => exact hpi.createSession hcs
  split at hr
  · -- DeleteSession
    rename_i ht1
    split at hr
    · cases hr; exact hpi
    · rename_i s0 hs0
      obtain ⟨c, hpm, hr⟩ := Res.bind_eq_ok.1 hr
      cases hr
      have hp : Pre { st := st, msgid := e.id } e.session := ⟨h.inv, h.linv, ⟨_, hs0⟩, he.1 (Or.inl ht1)⟩
      obtain ⟨po, _⟩ := processMessage_post hp h.ni hpm
      exact UInv_finish po (processMessage_uinv hp h.ni (fun _ hm => parseMessage_midOK hm) hpi hpm)
  split at hr
  · -- IRCFromClient
    rename_i ht2
    split at hr
    · cases hr; exact hpi
    · rename_i st1 hu
      obtain ⟨c, hpm, hr⟩ := Res.bind_eq_ok.1 hr
      cases hr
      have h1 := GInv_updateLastClientMessageID h hu
      have p1 : UInv st1 := hpi.updateLastClientMessageID hu
      obtain ⟨_, s1, _, hs1, _⟩ := updateLastClientMessageID_actor hu
      have hp : Pre { st := st1, msgid := e.id } e.session := ⟨h1.inv, h1.linv, ⟨_, hs1⟩, he.1 (Or.inr ht2)⟩
      obtain ⟨po, _⟩ := processMessage_post hp h1.ni hpm
      exact UInv_finish po (processMessage_uinv hp h1.ni (fun _ hm => parseMessage_midOK hm) p1 hpm)
  split at hr
  · -- Config
    split at hr
    · cases hr; exact hpi
    · cases hr
      exact hpi.withConfig _
  · cases hr; exact hpi

/-! ## the full invariant together with the identity and the length invariant -/

structure GPUInv (st : St) : Prop where
  ginv : GInv st
  pinv : PInv st
  uinv : UInv st

theorem GPUInv_init : GPUInv ({} : St) := ⟨GInv_init, PInv_init, UInv_init⟩

theorem GPUInv.gp {st : St} (h : GPUInv st) : GPInv st := ⟨h.ginv, h.pinv⟩

theorem applyEntry_preserves_gpu (st st' : St) (e : Entry) (out : List Out) (h : GPUInv st) (he : EntryOk st e)
    (hr : applyEntry st e = .ok (st', out)) : GPUInv st' :=
  ⟨applyEntry_preserves st st' e out h.ginv he hr, applyEntry_pinv st st' e out h.ginv h.pinv he hr,
    applyEntry_uinv st st' e out h.ginv h.uinv he hr⟩

theorem run_preserves_gpu {st st' : St} {es : List Entry} (h : GPUInv st) (hw : WfHistory st es)
    (hr : runEntries st es = .ok st') : GPUInv st' := by
  induction es generalizing st with
  | nil => cases hr; exact h
  | cons e es ih =>
    unfold runEntries at hr
    obtain ⟨he, _, hnext⟩ := hw
    split at hr
    · rename_i st1 out hap
      exact ih (applyEntry_preserves_gpu st st1 e out h he hap) (hnext st1 out hap) hr
    · cases hr
    · cases hr

end Robust.Irc
