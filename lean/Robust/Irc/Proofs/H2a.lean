import Robust.Irc.Proofs.H2Base
/-! PING, AWAY, ISON, USERHOST, LIST, KNOCK -/
namespace Robust.Irc
open Rd
open AMap

/-! ### PING -/

theorem cmdPing_emits {c c' : Ctx} {sid : Id} {m : IrcMsg} (hr : cmdPing c sid m = .ok c') : Emits c c' := by
  unfold cmdPing at hr
  obtain ⟨s, hs, hr⟩ := Res.bind_eq_ok.1 hr
  split at hr <;> (cases hr; emits_tac)

theorem cmdPing_preserves : Preserves cmdPing := Preserves.of_emits fun _ _ _ _ => cmdPing_emits

theorem cmdPing_safe : ClientSafe cmdPing 0 true := by
  intro c sid m s hp hs _ _ _
  show NoPanic _
  unfold cmdPing
  rw [getS_of_get hs]
  simp only [Res.ok_bind]
  split <;> exact NoPanic.ok _

/-! ### AWAY -/

theorem cmdAway_inert {c c' : Ctx} {sid : Id} {m : IrcMsg} (hw : WInvCore c.st)
    (hr : cmdAway c sid m = .ok c') : Inert c c' := by
  unfold cmdAway at hr
  obtain ⟨c1, h1, hr⟩ := Res.bind_eq_ok.1 hr
  obtain ⟨s, hs, hr⟩ := Res.bind_eq_ok.1 hr
  have hI := (Inert.refl hw).modS hw h1 (fun _ => ⟨rfl, rfl, rfl, rfl⟩) (fun _ => ⟨rfl, rfl⟩)
  split at hr <;> (cases hr; exact hI.sendUser _ _)

theorem cmdAway_preserves : Preserves cmdAway := Preserves.of_inert fun _ _ _ _ => cmdAway_inert

theorem cmdAway_safe : ClientSafe cmdAway 0 true := by
  intro c sid m s hp hs _ _ _
  show NoPanic _
  unfold cmdAway
  refine NoPanic.bind (NoPanic.of_ok ⟨_, modS_of_get _ hs⟩) fun c1 h1 => ?_
  have hI := (Inert.refl hp.inv.toWInvCore).modS hp.inv.toWInvCore h1 (fun _ => ⟨rfl, rfl, rfl, rfl⟩) (fun _ => ⟨rfl, rfl⟩)
  obtain ⟨s1, hs1, _⟩ := hI.getS_ok hs
  rw [hs1]
  simp only [Res.ok_bind]
  split <;> exact NoPanic.ok _

/-! ### ISON -/

theorem cmdIson_emits {c c' : Ctx} {sid : Id} {m : IrcMsg} (hr : cmdIson c sid m = .ok c') : Emits c c' := by
  unfold cmdIson at hr
  obtain ⟨s, hs, hr⟩ := Res.bind_eq_ok.1 hr
  obtain ⟨on, hon, hr⟩ := Res.bind_eq_ok.1 hr
  cases hr; emits_tac

theorem cmdIson_preserves : Preserves cmdIson := Preserves.of_emits fun _ _ _ _ => cmdIson_emits

theorem cmdIson_safe : ClientSafe cmdIson 1 true := by
  intro c sid m s hp hs _ _ _
  show NoPanic _
  unfold cmdIson
  rw [getS_of_get hs]
  simp only [Res.ok_bind]
  refine NoPanic.bind (mapRes_noPanic fun n _ => ?_) fun on _ => NoPanic.ok _
  split
  · rename_i tid hi
    obtain ⟨t, ht, _⟩ := getS_indexed_ok hp.inv.toWInvCore hi
    rw [ht]; exact NoPanic.ok _
  · exact NoPanic.ok _

/-! ### USERHOST -/

theorem cmdUserhost_emits {c c' : Ctx} {sid : Id} {m : IrcMsg} (hr : cmdUserhost c sid m = .ok c') : Emits c c' := by
  unfold cmdUserhost at hr
  obtain ⟨s, hs, hr⟩ := Res.bind_eq_ok.1 hr
  obtain ⟨on, hon, hr⟩ := Res.bind_eq_ok.1 hr
  cases hr; emits_tac

theorem cmdUserhost_preserves : Preserves cmdUserhost := Preserves.of_emits fun _ _ _ _ => cmdUserhost_emits

theorem cmdUserhost_safe : ClientSafe cmdUserhost 1 true := by
  intro c sid m s hp hs _ _ _
  show NoPanic _
  unfold cmdUserhost
  rw [getS_of_get hs]
  simp only [Res.ok_bind]
  refine NoPanic.bind (mapRes_noPanic fun n _ => ?_) fun on _ => NoPanic.ok _
  split
  · rename_i tid hi
    obtain ⟨t, ht, _⟩ := getS_indexed_ok hp.inv.toWInvCore hi
    rw [ht]; exact NoPanic.ok _
  · exact NoPanic.ok _

/-! ### LIST -/

theorem cmdList_emits {c c' : Ctx} {sid : Id} {m : IrcMsg} (hr : cmdList c sid m = .ok c') : Emits c c' := by
  unfold cmdList at hr
  obtain ⟨s, hs, hr⟩ := Res.bind_eq_ok.1 hr
  cases hr
  apply Emits.sendUser
  apply Emits.foldl _ _ (Emits.refl c)
  intro c1 lc h1
  split
  · exact h1
  · split
    · exact h1
    · exact h1.sendUser _ _

theorem cmdList_preserves : Preserves cmdList := Preserves.of_emits fun _ _ _ _ => cmdList_emits

theorem cmdList_safe : ClientSafe cmdList 0 true := by
  intro c sid m s hp hs _ _ _
  show NoPanic _
  unfold cmdList
  rw [getS_of_get hs]
  exact NoPanic.ok _

/-! ### KNOCK -/

theorem cmdKnock_emits {c c' : Ctx} {sid : Id} {m : IrcMsg} (hr : cmdKnock c sid m = .ok c') : Emits c c' := by
  unfold cmdKnock at hr
  obtain ⟨s, hs, hr⟩ := Res.bind_eq_ok.1 hr
  obtain ⟨chn, hchn, hr⟩ := Res.bind_eq_ok.1 hr
  split at hr
  · cases hr; emits_tac
  · split at hr
    · cases hr; emits_tac
    · obtain ⟨rc, hrc, hr⟩ := Res.bind_eq_ok.1 hr
      cases hr; emits_tac

theorem cmdKnock_preserves : Preserves cmdKnock := Preserves.of_emits fun _ _ _ _ => cmdKnock_emits

theorem cmdKnock_safe : ClientSafe cmdKnock 1 true := by
  intro c sid m s hp hs _ _ hn
  show NoPanic _
  unfold cmdKnock
  rw [getS_of_get hs, param_ok (Nat.lt_of_lt_of_le Nat.zero_lt_one hn)]
  simp only [Res.ok_bind, getChan_eq]
  split
  · exact NoPanic.ok _
  · rename_i ch hch
    split
    · exact NoPanic.ok _
    · obtain ⟨rc, hrc⟩ := rcChannel_ok hp.inv.toWInvCore hch
      rw [hrc]; exact NoPanic.ok _

end Robust.Irc
