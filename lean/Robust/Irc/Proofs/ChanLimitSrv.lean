import Robust.Irc.Proofs.ChanLimit
import Robust.Irc.Proofs.NH3
/-!
The channel limit, services side: every services handler except `JOIN` (`cmdServerJoin`) and `SVSJOIN`
(`cmdServerSvsjoin`) — and the client command `SERVER` — keeps `ChanLe` (`ChanLimit.lean`): the number
of channels does not grow and the limit is untouched.  The two exceptions store a channel under a new
key only while the number of channels is below `MaxChannels` (or there is no limit), exactly like the
client's JOIN (`joinOne`): they keep `ChanLim`, and so does every handler of the table
(`handler_chanLim`).  The walks mirror `FrmSrv.lean`.
-/
namespace Robust.Irc
open Srv
open Robust AMap

theorem ChanLe.emits {st0 : St} {c c' : Ctx} (h : ChanLe st0 c.st) (he : Srv.Emits c c') : ChanLe st0 c'.st := by
  rw [he.st]; exact h

/-! ### SVSHOLD -/

theorem cmdServerSvshold_le {st0 : St} {c c' : Ctx} {sid : Id} {m : IrcMsg} (h : ChanLe st0 c.st)
    (hr : cmdServerSvshold c sid m = Res.ok c') : ChanLe st0 c'.st := by
  unfold cmdServerSvshold at hr
  obtain ⟨s, hs, hr⟩ := Res.bind_eq_ok.1 hr
  obtain ⟨p0, hp0, hr⟩ := Res.bind_eq_ok.1 hr
  dsimp only at hr
  split at hr
  · obtain ⟨p1, hp1, hr⟩ := Res.bind_eq_ok.1 hr
    split at hr
    · cases hr
    · split at hr
      · cases hr
      · cases hr
        exact h.same rfl rfl
  · cases hr
    exact h.same rfl rfl

/-! ### PRIVMSG / NOTICE -/

theorem cmdServerPrivmsg_le {st0 : St} {c c' : Ctx} {sid : Id} {m : IrcMsg} (h : ChanLe st0 c.st)
    (hr : cmdServerPrivmsg c sid m = Res.ok c') : ChanLe st0 c'.st := by
  unfold cmdServerPrivmsg at hr
  split at hr
  · obtain ⟨pn, _, hr⟩ := Res.bind_eq_ok.1 hr
    cases hr; exact h.sendSvc _
  · split at hr
    · obtain ⟨pn, _, hr⟩ := Res.bind_eq_ok.1 hr
      cases hr; exact h.sendSvc _
    · obtain ⟨p0, _, hr⟩ := Res.bind_eq_ok.1 hr
      split at hr
      · split at hr
        · obtain ⟨pn, _, hr⟩ := Res.bind_eq_ok.1 hr
          cases hr; exact h.sendSvc _
        · obtain ⟨sp, _, hr⟩ := Res.bind_eq_ok.1 hr
          obtain ⟨rc, _, hr⟩ := Res.bind_eq_ok.1 hr
          cases hr; exact h.emit _ _
      · split at hr
        · obtain ⟨pn, _, hr⟩ := Res.bind_eq_ok.1 hr
          cases hr; exact h.sendSvc _
        · obtain ⟨sp, _, hr⟩ := Res.bind_eq_ok.1 hr
          cases hr; exact h.sendUser _ _

/-! ### TOPIC -/

theorem cmdServerTopic_le {st0 : St} {c c' : Ctx} {sid : Id} {m : IrcMsg} (h : ChanLe st0 c.st)
    (hr : cmdServerTopic c sid m = Res.ok c') : ChanLe st0 c'.st := by
  unfold cmdServerTopic at hr
  obtain ⟨channel, _, hr⟩ := Res.bind_eq_ok.1 hr
  simp only [getChan_eq] at hr
  split at hr
  · obtain ⟨pn, _, hr⟩ := Res.bind_eq_ok.1 hr
    cases hr; exact h.sendSvc _
  · rename_i ch hch
    obtain ⟨p2, _, hr⟩ := Res.bind_eq_ok.1 hr
    obtain ⟨ts?, _, hr⟩ := Res.bind_eq_ok.1 hr
    split at hr
    · cases hr
    · obtain ⟨p1, _, hr⟩ := Res.bind_eq_ok.1 hr
      split at hr
      · cases hr
      · obtain ⟨sp, _, hr⟩ := Res.bind_eq_ok.1 hr
        obtain ⟨rc, _, hr⟩ := Res.bind_eq_ok.1 hr
        cases hr
        exact ChanLe.emit (c := putChan _ _ _) (h.putChan hch _) _ _

/-! ### INVITE -/

theorem cmdServerInvite_le {st0 : St} {c c' : Ctx} {sid : Id} {m : IrcMsg} (h : ChanLe st0 c.st)
    (hr : cmdServerInvite c sid m = Res.ok c') : ChanLe st0 c'.st := by
  unfold cmdServerInvite at hr
  obtain ⟨nickname, _, hr⟩ := Res.bind_eq_ok.1 hr
  obtain ⟨channelname, _, hr⟩ := Res.bind_eq_ok.1 hr
  split at hr
  · obtain ⟨pn, _, hr⟩ := Res.bind_eq_ok.1 hr
    cases hr; exact h.sendSvc _
  · obtain ⟨t, _, hr⟩ := Res.bind_eq_ok.1 hr
    simp only [getChan_eq] at hr
    split at hr
    · obtain ⟨pn, _, hr⟩ := Res.bind_eq_ok.1 hr
      cases hr; exact h.sendSvc _
    · split at hr
      · obtain ⟨pn, _, hr⟩ := Res.bind_eq_ok.1 hr
        cases hr; exact h.sendSvc _
      · obtain ⟨c1, h1, hr⟩ := Res.bind_eq_ok.1 hr
        obtain ⟨pn, _, hr⟩ := Res.bind_eq_ok.1 hr
        obtain ⟨sp, _, hr⟩ := Res.bind_eq_ok.1 hr
        obtain ⟨rc, _, hr⟩ := Res.bind_eq_ok.1 hr
        cases hr
        have n1 : ChanLe st0 c1.st := h.modS h1
        exact (((n1.sendSvc _).sendUser _ _).emit _ _)

/-! ### KICK -/

theorem cmdServerKick_le {st0 : St} {c c' : Ctx} {sid : Id} {m : IrcMsg} (h : ChanLe st0 c.st)
    (hr : cmdServerKick c sid m = Res.ok c') : ChanLe st0 c'.st := by
  unfold cmdServerKick at hr
  obtain ⟨channelname, _, hr⟩ := Res.bind_eq_ok.1 hr
  obtain ⟨target, _, hr⟩ := Res.bind_eq_ok.1 hr
  simp only [getChan_eq] at hr
  split at hr
  · obtain ⟨pn, _, hr⟩ := Res.bind_eq_ok.1 hr
    cases hr; exact h.sendSvc _
  · split at hr
    · obtain ⟨pn, _, hr⟩ := Res.bind_eq_ok.1 hr
      cases hr; exact h.sendSvc _
    · split at hr
      · obtain ⟨sp, _, hr⟩ := Res.bind_eq_ok.1 hr
        obtain ⟨rc, _, hr⟩ := Res.bind_eq_ok.1 hr
        exact ChanLe.leaveChannel (c := emit _ _ _) h hr
      · cases hr

/-! ### SVSPART -/

theorem cmdServerSvspart_le {st0 : St} {c c' : Ctx} {sid : Id} {m : IrcMsg} (h : ChanLe st0 c.st)
    (hr : cmdServerSvspart c sid m = Res.ok c') : ChanLe st0 c'.st := by
  unfold cmdServerSvspart at hr
  obtain ⟨p0, _, hr⟩ := Res.bind_eq_ok.1 hr
  obtain ⟨channelname, _, hr⟩ := Res.bind_eq_ok.1 hr
  dsimp only at hr
  split at hr
  · obtain ⟨pn, _, hr⟩ := Res.bind_eq_ok.1 hr
    cases hr; exact h.sendSvc _
  · simp only [getChan_eq] at hr
    split at hr
    · obtain ⟨pn, _, hr⟩ := Res.bind_eq_ok.1 hr
      cases hr; exact h.sendSvc _
    · split at hr
      · obtain ⟨pn, _, hr⟩ := Res.bind_eq_ok.1 hr
        cases hr; exact h.sendSvc _
      · obtain ⟨t, _, hr⟩ := Res.bind_eq_ok.1 hr
        obtain ⟨rc, _, hr⟩ := Res.bind_eq_ok.1 hr
        exact ChanLe.leaveChannel (c := emit _ _ _) h hr

/-! ### MODE -/

theorem serverModeStep_le {st0 : St} {c c' : Ctx} {m : IrcMsg} {chn lc : String} {mc : ModeCmd}
    (h : ChanLe st0 c.st) (hstep : serverModeStep m chn lc c mc = Res.ok c') : ChanLe st0 c'.st := by
  unfold serverModeStep at hstep
  simp only [getChan_eq] at hstep
  split at hstep
  · rename_i ch hch
    split at hstep
    · cases hstep
      exact h.putChan hch _
    · split at hstep
      · split at hstep
        · obtain ⟨pn, _, hstep⟩ := Res.bind_eq_ok.1 hstep
          cases hstep; exact h.sendSvc _
        · split at hstep
          · cases hstep
            exact h.putChan hch _
          · cases hstep; exact h
      · obtain ⟨pn, _, hstep⟩ := Res.bind_eq_ok.1 hstep
        cases hstep; exact h.sendSvc _
  · cases hstep

theorem cmdServerMode_le {st0 : St} {c c' : Ctx} {sid : Id} {m : IrcMsg} (h : ChanLe st0 c.st)
    (hr : cmdServerMode c sid m = Res.ok c') : ChanLe st0 c'.st := by
  rw [cmdServerMode_eq] at hr
  obtain ⟨channelname, _, hr⟩ := Res.bind_eq_ok.1 hr
  simp only [getChan_eq] at hr
  split at hr
  · obtain ⟨pn, _, hr⟩ := Res.bind_eq_ok.1 hr
    cases hr; exact h.sendSvc _
  · obtain ⟨c1, hfold, hr⟩ := Res.bind_eq_ok.1 hr
    have h1 : ChanLe st0 c1.st :=
      ChanLe.foldlM (fun _ _ _ hP hstep => serverModeStep_le hP hstep) _ h hfold
    split at hr
    · cases hr; exact h1
    · split at hr
      · obtain ⟨sp, _, hr⟩ := Res.bind_eq_ok.1 hr
        obtain ⟨rc, _, hr⟩ := Res.bind_eq_ok.1 hr
        cases hr
        exact h1.emit _ _
      · cases hr

/-! ### SVSMODE -/

theorem svsmodeStep_le {st0 : St} {c c' : Ctx} {tid : Id} {mc : ModeCmd}
    (h : ChanLe st0 c.st) (hstep : svsmodeStep tid c mc = Res.ok c') : ChanLe st0 c'.st := by
  unfold svsmodeStep at hstep
  dsimp only at hstep
  split at hstep
  · exact h.modS hstep
  · split at hstep
    · exact h.modS hstep
    · cases hstep
      exact h.sendSvc _

theorem cmdServerSvsmode_le {st0 : St} {c c' : Ctx} {sid : Id} {m : IrcMsg} (h : ChanLe st0 c.st)
    (hr : cmdServerSvsmode c sid m = Res.ok c') : ChanLe st0 c'.st := by
  rw [cmdServerSvsmode_eq] at hr
  obtain ⟨s, _, hr⟩ := Res.bind_eq_ok.1 hr
  obtain ⟨p0, _, hr⟩ := Res.bind_eq_ok.1 hr
  split at hr
  · cases hr; exact h.sendSvc _
  · obtain ⟨modestr, _, hr⟩ := Res.bind_eq_ok.1 hr
    split at hr
    · cases hr; exact h.sendSvc _
    · obtain ⟨c1, hfold, hr⟩ := Res.bind_eq_ok.1 hr
      obtain ⟨t, _, hr⟩ := Res.bind_eq_ok.1 hr
      cases hr
      have h1 : ChanLe st0 c1.st :=
        ChanLe.foldlM (fun _ _ _ hP hstep => svsmodeStep_le hP hstep) _ h hfold
      exact h1.sendUser _ _

/-! ### PART -/

theorem serverPartOne_le {st0 : St} {c c' : Ctx} {m : IrcMsg} {chn : String} (h : ChanLe st0 c.st)
    (hr : serverPartOne c m chn = Res.ok c') : ChanLe st0 c'.st := by
  unfold serverPartOne at hr
  simp only [getChan_eq] at hr
  split at hr
  · obtain ⟨pn, _, hr⟩ := Res.bind_eq_ok.1 hr
    cases hr; exact h.sendSvc _
  · obtain ⟨pn, _, hr⟩ := Res.bind_eq_ok.1 hr
    split at hr
    · cases hr; exact h.sendSvc _
    · split at hr
      · obtain ⟨sp, _, hr⟩ := Res.bind_eq_ok.1 hr
        obtain ⟨rc, _, hr⟩ := Res.bind_eq_ok.1 hr
        exact ChanLe.leaveChannel (c := emit _ _ _) h hr
      · cases hr

theorem cmdServerPart_le {st0 : St} {c c' : Ctx} {sid : Id} {m : IrcMsg} (h : ChanLe st0 c.st)
    (hr : cmdServerPart c sid m = Res.ok c') : ChanLe st0 c'.st := by
  unfold cmdServerPart at hr
  obtain ⟨p0, _, hr⟩ := Res.bind_eq_ok.1 hr
  exact ChanLe.foldlM (fun _ _ _ hP hstep => serverPartOne_le hP hstep) _ h hr

/-! ### NICK (a fresh pseudo-client; see `chanLim_cmdServerNick_sessions` for the session limit) -/

theorem cmdServerNick_le {st0 : St} {c c' : Ctx} {sid : Id} {m : IrcMsg} (h : ChanLe st0 c.st)
    (hr : cmdServerNick c sid m = Res.ok c') : ChanLe st0 c'.st := by
  unfold cmdServerNick at hr
  obtain ⟨s, hs, hr⟩ := Res.bind_eq_ok.1 hr
  split at hr
  · cases hr; exact h
  · obtain ⟨p0, _, hr⟩ := Res.bind_eq_ok.1 hr
    split at hr
    · cases hr; exact h.sendSvc _
    · split at hr
      · cases hr; exact h.sendSvc _
      · dsimp only at hr
        split at hr
        · cases hr; exact h.sendSvc _
        · split at hr
          · cases hr; exact h.sendSvc _
          · rename_i st1 hcs
            obtain ⟨p3, _, hr⟩ := Res.bind_eq_ok.1 hr
            obtain ⟨c2, hm, hr⟩ := Res.bind_eq_ok.1 hr
            cases hr
            have n1 : ChanLe st0 st1 := by
              rw [createSession_eq hcs]
              exact h.same rfl rfl
            have n2 : ChanLe st0 c2.st := ChanLe.modS (c := { c with st := st1 }) n1 hm
            exact n2.same rfl rfl

/-! ### SVSNICK -/

theorem svsnickTail_le {st0 : St} {c c' : Ctx} {tid : Id} {p0 p1 : String} (h : ChanLe st0 c.st)
    (hr : svsnickTail c p0 p1 tid = Res.ok c') : ChanLe st0 c'.st := by
  unfold svsnickTail at hr
  obtain ⟨t, ht, hr⟩ := Res.bind_eq_ok.1 hr
  dsimp only at hr
  obtain ⟨c1, hm1, hr⟩ := Res.bind_eq_ok.1 hr
  obtain ⟨c2, hm2, hr⟩ := Res.bind_eq_ok.1 hr
  obtain ⟨t2, _, hr⟩ := Res.bind_eq_ok.1 hr
  obtain ⟨rc, _, hr⟩ := Res.bind_eq_ok.1 hr
  cases hr
  have n1 : ChanLe st0 c1.st := h.modS hm1
  obtain ⟨hcr, hlr⟩ := chanLim_renameCtx c1 tid (nickToLower p1) (nickToLower p0) (nickToLower p1 != nickToLower p0)
  have nr : ChanLe st0 (renameCtx c1 tid (nickToLower p1) (nickToLower p0) (nickToLower p1 != nickToLower p0)).st :=
    n1.congr (by rw [hcr]) (Nat.le_of_eq hlr)
  have n2 : ChanLe st0 c2.st := nr.modS hm2
  exact n2.emit _ _

theorem cmdServerSvsnick_le {st0 : St} {c c' : Ctx} {sid : Id} {m : IrcMsg} (h : ChanLe st0 c.st)
    (hr : cmdServerSvsnick c sid m = Res.ok c') : ChanLe st0 c'.st := by
  rw [cmdServerSvsnick_eq] at hr
  obtain ⟨p0, _, hr⟩ := Res.bind_eq_ok.1 hr
  obtain ⟨p1, _, hr⟩ := Res.bind_eq_ok.1 hr
  split at hr
  · cases hr; exact h.sendSvc _
  · split at hr
    · cases hr; exact h.sendSvc _
    · split at hr
      · split at hr
        · cases hr; exact h.sendSvc _
        · exact svsnickTail_le h hr
      · exact svsnickTail_le h hr

/-! ### KILL -/

theorem cmdServerKill_le {st0 : St} {c c' : Ctx} {sid : Id} {m : IrcMsg} (h : ChanLe st0 c.st)
    (hr : cmdServerKill c sid m = Res.ok c') : ChanLe st0 c'.st := by
  unfold cmdServerKill at hr
  obtain ⟨s, _, hr⟩ := Res.bind_eq_ok.1 hr
  split at hr
  · cases hr; exact h.sendSvc _
  · dsimp only at hr
    obtain ⟨kp?, _, hr⟩ := Res.bind_eq_ok.1 hr
    obtain ⟨p0, _, hr⟩ := Res.bind_eq_ok.1 hr
    split at hr
    · cases hr; exact h.sendSvc _
    · obtain ⟨t, ht, hr⟩ := Res.bind_eq_ok.1 hr
      split at hr
      · obtain ⟨rc, _, hr⟩ := Res.bind_eq_ok.1 hr
        exact ChanLe.deleteSession (c := emit (sendUser c _ _) _ _) ((h.sendUser _ _).emit _ _) hr
      · cases hr

/-! ### QUIT -/

theorem cmdServerQuit_le {st0 : St} {c c' : Ctx} {sid : Id} {m : IrcMsg} (h : ChanLe st0 c.st)
    (hr : cmdServerQuit c sid m = Res.ok c') : ChanLe st0 c'.st := by
  unfold cmdServerQuit at hr
  obtain ⟨s, hs, hr⟩ := Res.bind_eq_ok.1 hr
  split at hr
  · obtain ⟨c1, hd, hr⟩ := Res.bind_eq_ok.1 hr
    dsimp only at hr
    refine ChanLe.foldlM ?_ _ (h.deleteSession hd) hr
    intro c2 tid c3 hP hstep
    obtain ⟨t, ht, hstep⟩ := Res.bind_eq_ok.1 hstep
    obtain ⟨rc, _, hstep⟩ := Res.bind_eq_ok.1 hstep
    exact ChanLe.deleteSession (c := emit _ _ _) hP hstep
  · split at hr
    · cases hr; exact h
    · obtain ⟨rc, _, hr⟩ := Res.bind_eq_ok.1 hr
      exact ChanLe.deleteSession (c := emit _ _ _) h hr

/-! ### SERVER (a client command: the session becomes a services link) -/

theorem cmdServer_le {st0 : St} {c c' : Ctx} {sid : Id} {m : IrcMsg} (h : ChanLe st0 c.st)
    (hr : cmdServer c sid m = Res.ok c') : ChanLe st0 c'.st := by
  rw [cmdServer_eq] at hr
  obtain ⟨s, hs, hr⟩ := Res.bind_eq_ok.1 hr
  split at hr
  · cases hr; exact h.sendUser _ _
  · obtain ⟨p0, _, hr⟩ := Res.bind_eq_ok.1 hr
    obtain ⟨c1, hm, hr⟩ := Res.bind_eq_ok.1 hr
    dsimp only at hr
    have he := (Srv.Emits.sendSvc _ _).trans
      (foldlM_emits _ _ (fun _ _ _ _ h => serverBurstNick_emits h) _ _ hr)
    rw [he.st]
    exact (h.modS hm).same rfl rfl

/-! ### the two services handlers that create channels: only below the limit -/

theorem serverJoinOne_cfg {c c' : Ctx} {m : IrcMsg} {chn : String}
    (hr : serverJoinOne c m chn = Res.ok c') : c'.st.config = c.st.config := by
  unfold serverJoinOne at hr
  obtain ⟨pn, _, hr⟩ := Res.bind_eq_ok.1 hr
  split at hr
  · cases hr; rfl
  · dsimp only at hr
    split at hr
    · cases hr; rfl
    · split at hr
      · cases hr; rfl
      obtain ⟨c1, h1, hr⟩ := Res.bind_eq_ok.1 hr
      obtain ⟨sp, _, hr⟩ := Res.bind_eq_ok.1 hr
      obtain ⟨rc, _, hr⟩ := Res.bind_eq_ok.1 hr
      cases hr
      exact (chanLim_modS_st h1).2

/-- what a step may do to the number of channels when it respects the limit: it does not grow, or it
grows by one — under a key that was not stored — while it was below the limit (or there is no limit) -/
def CreatesBelowLimit (st st' : St) (lc : String) : Prop :=
  st'.channels.length ≤ st.channels.length ∨
    (st'.channels.length = st.channels.length + 1 ∧ AMap.get st.channels lc = none ∧
      (st.config.maxChannels = 0 ∨ st.channels.length < st.config.maxChannels))

/-- storing a channel after the limit check of the services `JOIN` / `SVSJOIN` has passed -/
theorem chanLim_putChan_checked (c : Ctx) (lc : String) (ch : Channel)
    (hlim : ¬ ((!(AMap.get c.st.channels lc).isSome && decide (c.st.channels.length ≥ c.st.config.maxChannels) &&
      decide (c.st.config.maxChannels > 0)) = true)) :
    CreatesBelowLimit c.st (putChan c lc ch).st lc := by
  show (AMap.set c.st.channels lc ch).length ≤ _ ∨ ((AMap.set c.st.channels lc ch).length = _ ∧ _)
  cases hg : AMap.get c.st.channels lc with
  | some ch0 => exact Or.inl (Nat.le_of_eq (chanLim_length_set_of_get ch hg))
  | none =>
    refine Or.inr ⟨chanLim_length_set_of_none ch hg, rfl, ?_⟩
    rw [hg] at hlim
    simp only [Option.isSome_none, Bool.not_false, Bool.true_and, ge_iff_le, gt_iff_lt, Bool.and_eq_true,
      decide_eq_true_eq, not_and, Nat.not_lt, Nat.le_zero_eq] at hlim
    by_cases hz : c.st.config.maxChannels = 0
    · exact Or.inl hz
    · right
      have := mt hlim hz
      omega

/-- a step that creates only below the limit keeps `ChanLim` -/
theorem ChanLim.creates {st0 st st' : St} {lc : String} (h : ChanLim st0 st)
    (hc : st'.config.maxChannels = st.config.maxChannels) (hch : CreatesBelowLimit st st' lc) : ChanLim st0 st' := by
  refine ⟨hc.trans h.maxChannels, fun hpos => ?_⟩
  have hb := h.le hpos
  rcases hch with hl | ⟨e, _, hl⟩
  · exact Nat.le_trans hl hb
  · rw [e]
    rw [h.maxChannels] at hl
    omega

/-- **one services JOIN target** (`serverJoinOne`): the limit is untouched; the number of channels does not
grow, or exactly one channel — whose key was not stored — is created, and then the number of channels was
below the limit (or there is no limit) -/
theorem serverJoinOne_creates_only_below_limit {c c' : Ctx} {m : IrcMsg} {chn : String}
    (hr : serverJoinOne c m chn = Res.ok c') :
    c'.st.config.maxChannels = c.st.config.maxChannels ∧
    (c'.st.channels.length ≤ c.st.channels.length ∨
      (c'.st.channels.length = c.st.channels.length + 1 ∧ AMap.get c.st.channels (chanToLower chn) = none ∧
        (c.st.config.maxChannels = 0 ∨ c.st.channels.length < c.st.config.maxChannels))) := by
  refine ⟨by rw [serverJoinOne_cfg hr], ?_⟩
  unfold serverJoinOne at hr
  obtain ⟨pn, _, hr⟩ := Res.bind_eq_ok.1 hr
  split at hr
  · cases hr; exact Or.inl (Nat.le_refl _)
  · dsimp only at hr
    split at hr
    · cases hr; exact Or.inl (Nat.le_refl _)
    · split at hr
      · cases hr; exact Or.inl (Nat.le_refl _)
      rename_i hlim
      obtain ⟨c1, h1, hr⟩ := Res.bind_eq_ok.1 hr
      obtain ⟨sp, _, hr⟩ := Res.bind_eq_ok.1 hr
      obtain ⟨rc, _, hr⟩ := Res.bind_eq_ok.1 hr
      cases hr
      simp only [getChan_eq] at h1 hlim
      show c1.st.channels.length ≤ _ ∨ (c1.st.channels.length = _ ∧ _)
      rw [(chanLim_modS_st h1).1]
      exact chanLim_putChan_checked c _ _ hlim

theorem serverJoinOne_lim {st0 : St} {c c' : Ctx} {m : IrcMsg} {chn : String} (h : ChanLim st0 c.st)
    (hr : serverJoinOne c m chn = Res.ok c') : ChanLim st0 c'.st :=
  let r := serverJoinOne_creates_only_below_limit hr
  h.creates r.1 r.2

theorem ChanLim.foldlM {st0 : St} {α : Type} {f : Ctx → α → Res Ctx}
    (hf : ∀ c a c', ChanLim st0 c.st → f c a = .ok c' → ChanLim st0 c'.st) :
    ∀ (l : List α) {c c' : Ctx}, ChanLim st0 c.st → l.foldlM f c = .ok c' → ChanLim st0 c'.st
  | [], c, c', h, hr => by cases hr; exact h
  | a :: l, c, c', h, hr => by
    rw [List.foldlM_cons] at hr
    obtain ⟨c1, h1, hr⟩ := Res.bind_eq_ok.1 hr
    exact ChanLim.foldlM hf l (hf c a c1 h h1) hr

/-- **services JOIN** (any number of targets) keeps `ChanLim` -/
theorem cmdServerJoin_lim {st0 : St} {c c' : Ctx} {sid : Id} {m : IrcMsg} (h : ChanLim st0 c.st)
    (hr : cmdServerJoin c sid m = Res.ok c') : ChanLim st0 c'.st := by
  unfold cmdServerJoin at hr
  obtain ⟨p0, _, hr⟩ := Res.bind_eq_ok.1 hr
  exact ChanLim.foldlM (fun _ _ _ hP hstep => serverJoinOne_lim hP hstep) _ h hr

/-- **services SVSJOIN**: the limit is untouched; the number of channels does not grow, or exactly one
channel — whose key was not stored — is created, and then the number of channels was below the limit
(or there is no limit) -/
theorem cmdServerSvsjoin_creates_only_below_limit {c c' : Ctx} {sid : Id} {m : IrcMsg}
    (hr : cmdServerSvsjoin c sid m = Res.ok c') :
    c'.st.config.maxChannels = c.st.config.maxChannels ∧
    (c'.st.channels.length ≤ c.st.channels.length ∨
      ∃ chn, m.params[1]? = some chn ∧
        c'.st.channels.length = c.st.channels.length + 1 ∧ AMap.get c.st.channels (chanToLower chn) = none ∧
        (c.st.config.maxChannels = 0 ∨ c.st.channels.length < c.st.config.maxChannels)) := by
  unfold cmdServerSvsjoin at hr
  obtain ⟨p0, _, hr⟩ := Res.bind_eq_ok.1 hr
  obtain ⟨chn, hp1, hr⟩ := Res.bind_eq_ok.1 hr
  have hp1' : m.params[1]? = some chn := by
    unfold param at hp1
    split at hp1
    · cases hp1; assumption
    · cases hp1
  dsimp only at hr
  have key : ∀ {st' : St}, st'.config.maxChannels = c.st.config.maxChannels →
      CreatesBelowLimit c.st st' (chanToLower chn) →
      st'.config.maxChannels = c.st.config.maxChannels ∧
      (st'.channels.length ≤ c.st.channels.length ∨
        ∃ chn, m.params[1]? = some chn ∧
          st'.channels.length = c.st.channels.length + 1 ∧ AMap.get c.st.channels (chanToLower chn) = none ∧
          (c.st.config.maxChannels = 0 ∨ c.st.channels.length < c.st.config.maxChannels)) := by
    intro st' hc hch
    refine ⟨hc, ?_⟩
    rcases hch with hl | hcr
    · exact Or.inl hl
    · exact Or.inr ⟨chn, hp1', hcr⟩
  split at hr
  · obtain ⟨pn, _, hr⟩ := Res.bind_eq_ok.1 hr
    cases hr; exact ⟨rfl, Or.inl (Nat.le_refl _)⟩
  · split at hr
    · obtain ⟨pn, _, hr⟩ := Res.bind_eq_ok.1 hr
      cases hr; exact ⟨rfl, Or.inl (Nat.le_refl _)⟩
    · simp only [getChan_eq, putChan_putChan] at hr
      split at hr
      · obtain ⟨pn, _, hr⟩ := Res.bind_eq_ok.1 hr
        cases hr; exact ⟨rfl, Or.inl (Nat.le_refl _)⟩
      rename_i hlim
      split at hr
      · cases hr
        exact key rfl (chanLim_putChan_checked c _ _ hlim)
      · obtain ⟨c1, h1, hr⟩ := Res.bind_eq_ok.1 hr
        obtain ⟨t, _, hr⟩ := Res.bind_eq_ok.1 hr
        obtain ⟨rc, _, hr⟩ := Res.bind_eq_ok.1 hr
        obtain ⟨c2, h2, hr⟩ := Res.bind_eq_ok.1 hr
        have e1 := chanLim_modS_st h1
        have e2 := (cmdTopic_query_emits h2).st
        have e3 := (Srv.cmdNames_emits hr).st
        have est : c'.st = c1.st := by rw [e3, e2]; rfl
        refine key (by rw [est, e1.2]; rfl) ?_
        unfold CreatesBelowLimit
        rw [est, e1.1]
        exact chanLim_putChan_checked c _ _ hlim

theorem cmdServerSvsjoin_lim {st0 : St} {c c' : Ctx} {sid : Id} {m : IrcMsg} (h : ChanLim st0 c.st)
    (hr : cmdServerSvsjoin c sid m = Res.ok c') : ChanLim st0 c'.st := by
  obtain ⟨hc, hch⟩ := cmdServerSvsjoin_creates_only_below_limit hr
  rcases hch with hl | ⟨chn, _, hcr⟩
  · exact h.creates (lc := "") hc (Or.inl hl)
  · exact h.creates hc (Or.inr hcr)

/-- every handler of the table but `cmdJoin`, `cmdServerJoin`, `cmdServerSvsjoin` keeps `ChanLe` -/
theorem handler_chanLe {fname : String} {h : Handler} (hh : handlerByName fname = some h)
    (h1 : fname ≠ "cmdJoin") (h2 : fname ≠ "cmdServerJoin") (h3 : fname ≠ "cmdServerSvsjoin") : ChanLePres h := by
  unfold handlerByName at hh
  split at hh
  · cases hh; exact .of_plain cmdAway_le
  · cases hh; exact cmdServiceAlias_chanLe
  · cases hh; exact .of_plain cmdGline_le
  · cases hh; exact .of_plain cmdInvite_le
  · cases hh; exact cmdIson_chanLe
  · exact absurd rfl h1
  · cases hh; exact .of_plain cmdKick_le
  · cases hh; exact .of_plain cmdKill_le
  · cases hh; exact cmdKnock_chanLe
  · cases hh; exact cmdList_chanLe
  · cases hh; exact .of_plain cmdMode_le
  · cases hh; exact .of_plain cmdMotd_le
  · cases hh; exact cmdNames_chanLe
  · cases hh; exact .of_plain cmdNick_le
  · cases hh; exact .of_plain cmdOper_le
  · cases hh; exact .of_plain cmdPart_le
  · cases hh; exact .of_plain cmdPass_le
  · cases hh; exact cmdPing_chanLe
  · cases hh; exact cmdPrivmsg_chanLe
  · cases hh; exact .of_plain cmdQuit_le
  · cases hh; exact .of_plain cmdServer_le
  · cases hh; exact .of_plain cmdTopic_le
  · cases hh; exact .of_plain cmdUser_le
  · cases hh; exact cmdUserhost_chanLe
  · cases hh; exact cmdWho_chanLe
  · cases hh; exact cmdWhois_chanLe
  · cases hh; exact .of_plain cmdServerInvite_le
  · exact absurd rfl h2
  · cases hh; exact .of_plain cmdServerKick_le
  · cases hh; exact .of_plain cmdServerKill_le
  · cases hh; exact .of_plain cmdServerMode_le
  · cases hh; exact .of_plain cmdServerNick_le
  · cases hh; exact .of_plain cmdServerPrivmsg_le
  · cases hh; exact .of_plain cmdServerPart_le
  · cases hh; exact .of_plain cmdServerQuit_le
  · cases hh; exact .of_plain cmdServerSvshold_le
  · exact absurd rfl h3
  · cases hh; exact .of_plain cmdServerSvsmode_le
  · cases hh; exact .of_plain cmdServerSvsnick_le
  · cases hh; exact .of_plain cmdServerSvspart_le
  · cases hh; exact .of_plain cmdServerTopic_le
  · cases hh

/-- a handler keeps `ChanLim` relative to an arbitrary base state -/
def ChanLimPres (h : Ctx → Id → IrcMsg → Res Ctx) : Prop :=
  ∀ st0 c sid m c', ChanLim st0 c.st → h c sid m = .ok c' → ChanLim st0 c'.st

theorem ChanLePres.lim {h : Ctx → Id → IrcMsg → Res Ctx} (H : ChanLePres h) : ChanLimPres h :=
  fun _ c sid m c' hp hr => hp.then_le (H c.st c sid m c' (ChanLe.refl _) hr)

/-- **every handler of the table** (client and services) respects the channel limit: the limit is untouched,
and with a limit the number of channels stays at most the larger of the base number and the limit -/
theorem handler_chanLim {fname : String} {h : Handler} (hh : handlerByName fname = some h) : ChanLimPres h := by
  by_cases h1 : fname = "cmdJoin"
  · subst h1
    have : handlerByName "cmdJoin" = some cmdJoin := rfl
    rw [this] at hh; cases hh
    exact fun _ _ _ _ _ hp hr => cmdJoin_lim hp hr
  by_cases h2 : fname = "cmdServerJoin"
  · subst h2
    have : handlerByName "cmdServerJoin" = some cmdServerJoin := rfl
    rw [this] at hh; cases hh
    exact fun _ _ _ _ _ hp hr => cmdServerJoin_lim hp hr
  by_cases h3 : fname = "cmdServerSvsjoin"
  · subst h3
    have : handlerByName "cmdServerSvsjoin" = some cmdServerSvsjoin := rfl
    rw [this] at hh; cases hh
    exact fun _ _ _ _ _ hp hr => cmdServerSvsjoin_lim hp hr
  exact (handler_chanLe hh h1 h2 h3).lim

/-! ### the session limit in the services `NICK` -/

/-- `createSessionLocked`: at most one session is added, and only below the limit -/
theorem chanLim_createSession {st st1 : St} {id : Id} {auth : String} {ts : Int}
    (h : createSession st id auth ts = some st1) :
    st1.config = st.config ∧ st1.channels = st.channels ∧ st1.sessions.length ≤ st.sessions.length + 1 ∧
    (0 < st.config.maxSessions → st.sessions.length < st.config.maxSessions) ∧
    ∃ ns, AMap.get st1.sessions id = some ns ∧ ns.id = id := by
  unfold createSession at h
  split at h
  · cases h
  · rename_i hc
    simp only [ge_iff_le, gt_iff_lt, Bool.and_eq_true, decide_eq_true_eq, not_and, Nat.not_lt,
      Nat.le_zero_eq] at hc
    cases h
    refine ⟨rfl, rfl, chanLim_length_set_le _ _ _, fun hpos => ?_, _, AMap.get_set_same _ _ _, rfl⟩
    by_cases hl : st.sessions.length < st.config.maxSessions
    · exact hl
    · have := hc (Nat.le_of_not_lt hl)
      omega

/-- overwriting the session stored under `tid` by a value with the same id keeps the number of sessions -/
theorem chanLim_modS_sessions {c c' : Ctx} {tid : Id} {f : Session → Session} (hr : modS c tid f = Res.ok c')
    (hid : ∀ s, AMap.get c.st.sessions tid = some s → (f s).id = tid) :
    c'.st.sessions.length = c.st.sessions.length := by
  obtain ⟨s, hs, rfl⟩ := modS_eq_ok.1 hr
  rw [putS_sessions, hid s hs]
  exact chanLim_length_set_of_get _ hs

/-- the services `NICK` goes through `createSession`: the configuration is untouched and with a limit
the number of sessions stays at most the larger of the previous number and the limit -/
theorem chanLim_cmdServerNick_sessions {c c' : Ctx} {sid : Id} {m : IrcMsg}
    (hr : cmdServerNick c sid m = Res.ok c') :
    c'.st.config = c.st.config ∧
    (0 < c.st.config.maxSessions → c'.st.sessions.length ≤ max c.st.sessions.length c.st.config.maxSessions) := by
  have hrefl : c.st.config = c.st.config ∧
      (0 < c.st.config.maxSessions → c.st.sessions.length ≤ max c.st.sessions.length c.st.config.maxSessions) :=
    ⟨rfl, fun _ => Nat.le_max_left _ _⟩
  unfold cmdServerNick at hr
  obtain ⟨s, hs, hr⟩ := Res.bind_eq_ok.1 hr
  split at hr
  · cases hr; exact hrefl
  · obtain ⟨p0, _, hr⟩ := Res.bind_eq_ok.1 hr
    split at hr
    · cases hr; exact hrefl
    · split at hr
      · cases hr; exact hrefl
      · dsimp only at hr
        split at hr
        · cases hr; exact hrefl
        · split at hr
          · cases hr; exact hrefl
          · rename_i st1 hcs
            obtain ⟨p3, _, hr⟩ := Res.bind_eq_ok.1 hr
            obtain ⟨c2, hm, hr⟩ := Res.bind_eq_ok.1 hr
            cases hr
            obtain ⟨hcfg, _, hlen, hlim, ns, hns, hnsid⟩ := chanLim_createSession hcs
            have hl2 : c2.st.sessions.length = st1.sessions.length :=
              chanLim_modS_sessions (c := { c with st := st1 }) hm (fun s hs => by
                have hs' : AMap.get st1.sessions _ = some s := hs
                rw [hns] at hs'; cases hs'
                exact hnsid)
            refine ⟨((chanLim_modS_st hm).2).trans hcfg, fun hpos => ?_⟩
            show c2.st.sessions.length ≤ _
            rw [hl2]
            have := hlim hpos
            omega

end Robust.Irc
