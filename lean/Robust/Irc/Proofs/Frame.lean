import Robust.Irc.Proofs.FrameBasic
import Robust.Irc.Proofs.FrameSim
import Robust.Irc.Proofs.FrameLeave
import Robust.Irc.Proofs.FrameDelete
import Robust.Irc.Proofs.FrameJoin
import Robust.Irc.Proofs.FrameNick
import Robust.Irc.Proofs.FrameEntry
import Robust.Irc.Proofs.FrameLogin
/-!
Frame lemmas for the per-handler proofs — umbrella file.

* `FrameBasic`  – `Res` monad, `emit/sendUser/sendSvc/putS/putChan/modS/getS` facts, fields the
                  invariant ignores, the recipient lookups (`rcChannel_ok`, `rcChannelButOne_ok`,
                  `rcCommonChannels_ok`, `nickId_ok`);
* `FrameSim`    – inert updates (`StSim`, `WInv_modS_inert`, `WInv_putChan_inert`, …,
                  `updateLastClientMessageID`);
* `FrameLeave`  – `maybeDeleteChannel`, `dropMember`, `leaveChannel`;
* `FrameDelete` – `deleteSession`;
* `FrameJoin`   – new channel, adding a member;
* `FrameNick`   – nick changes, `createSession`, the indexing step of `cmdServerNick`;
* `FrameEntry`  – `maybeDeleteSession`;
* `FrameLogin`  – the optional invariant `LInv` (logged in ⇒ has a nickname).

Below: `maybeDeleteChannel` on its own, and the lookups the handlers perform on members.
-/
namespace Robust.Irc
open Robust AMap

/-- `maybeDeleteChannel` preserves the weak invariant (an empty channel has no members, hence —
by `member` — no indexed session lists it) -/
theorem maybeDeleteChannel_WInv {c : Ctx} (lc : String) (h : WInv c.st) : WInv (maybeDeleteChannel c lc).st := by
  obtain ⟨e1, e2, _, e4⟩ := maybeDeleteChannel_spec (c := c) (lc := lc) (fun ch hg => (h.chans lc ch hg).1)
  rcases e4 with ⟨e5, _⟩ | ⟨e5, ch, hg, hnil⟩
  · exact h.sim ⟨e2.sim h.sessNodup, e1, by rw [e5]; exact MapSim.refl h.chanNodup⟩
  · have hsh : Shrink lc "" ch c.st.channels (AMap.erase c.st.channels lc) := by
      refine ⟨AMap.nodup_keys_erase _ h.chanNodup, fun lc' hne => AMap.get_erase_other hne,
        fun c' hc' => by simp at hc', fun n _ hn => by rw [hnil] at hn; simp at hn⟩
    have hmid : WInv { c.st with channels := AMap.erase c.st.channels lc } := by
      refine ⟨hsh.core (st' := { c.st with channels := AMap.erase c.st.channels lc }) h.toWInvCore hg rfl rfl, ?_⟩
      intro x id s hi hg2 ch2 hch2
      obtain ⟨c0, hc0, hcont⟩ := h.member x id s hi hg2 ch2 hch2
      have hne : ch2 ≠ lc := by
        intro he; subst he
        rw [hg] at hc0; cases hc0
        rw [AMap.contains_iff_mem_keys, hnil] at hcont; simp at hcont
      exact ⟨c0, by show AMap.get (AMap.erase c.st.channels lc) ch2 = some c0
                    rw [AMap.get_erase_other hne]; exact hc0, hcont⟩
    exact hmid.sim ⟨e2.sim h.sessNodup, e1, by rw [e5]; exact MapSim.refl (AMap.nodup_keys_erase _ h.chanNodup)⟩

/-- after `maybeDeleteChannel c lc` no channel is empty, if before at most `lc` was -/
theorem maybeDeleteChannel_chansNonempty {c : Ctx} (lc : String) (h : WInvCore c.st)
    (hne : ChansNonemptyBut c.st lc) : ChansNonempty (maybeDeleteChannel c lc).st := by
  obtain ⟨_, _, _, e4⟩ := maybeDeleteChannel_spec (c := c) (lc := lc) (fun ch hg => (h.chans lc ch hg).1)
  intro lc' c' hg'
  rcases e4 with ⟨e5, e6⟩ | ⟨e5, _⟩
  · rw [e5] at hg'
    by_cases he : lc' = lc
    · subst he; exact e6 c' hg'
    · exact hne lc' c' he hg'
  · rw [e5] at hg'
    obtain ⟨he, hg0⟩ := AMap.get_of_get_erase hg'
    exact hne lc' c' he hg0

theorem maybeDeleteChannel_HInv {c : Ctx} (lc : String) (h : WInv c.st) (hne : ChansNonemptyBut c.st lc) :
    HInv (maybeDeleteChannel c lc).st :=
  ⟨maybeDeleteChannel_WInv lc h, maybeDeleteChannel_chansNonempty lc h.toWInvCore hne⟩


/-! ### lookups that the handlers perform (the `… is nil` panic sites) -/

/-- `cmdMode`, `cmdTopic`, …: a live session with a nickname is a member of each channel it lists -/
theorem WInv.listed_member {st : St} (h : WInv st) {id : Id} {s : Session} {lc : String}
    (hs : AMap.get st.sessions id = some s) (hl : s.deleted = false) (hn : s.nick ≠ "") (hc : lc ∈ s.channels) :
    ∃ ch mem, AMap.get st.channels lc = some ch ∧ AMap.get ch.nicks (nickToLower s.nick) = some mem := by
  obtain ⟨ch, h1, h2⟩ := (h.owns_chans hs hl hn).2 lc hc
  obtain ⟨mem, h3⟩ := AMap.contains_iff_get.1 h2
  exact ⟨ch, mem, h1, h3⟩

/-- `cmdWhois`, `cmdServer`: a session found through the index is a member of each channel it lists -/
theorem WInv.indexed_member {st : St} (h : WInv st) {x : String} {id : Id} (hi : AMap.get st.nicks x = some id) :
    ∃ s, AMap.get st.sessions id = some s ∧ s.deleted = false ∧ nickToLower s.nick = x ∧
      ∀ lc ∈ s.channels, ∃ ch mem, AMap.get st.channels lc = some ch ∧
        AMap.get ch.nicks (nickToLower s.nick) = some mem := by
  obtain ⟨s, h1, h2, h3, _, h5⟩ := h.indexed hi
  refine ⟨s, h1, h2, h3, fun lc hlc => ?_⟩
  obtain ⟨ch, h6, h7⟩ := h5 lc hlc
  obtain ⟨mem, h8⟩ := AMap.contains_iff_get.1 h7
  exact ⟨ch, mem, h6, by rw [h3]; exact h8⟩

/-- `cmdNames`, `cmdWho`: every member entry of a stored channel has an indexed, stored session -/
theorem WInvCore.member_session {st : St} (h : WInvCore st) {lc : String} {ch : Channel} {e : String × Member}
    (hc : AMap.get st.channels lc = some ch) (he : e ∈ ch.nicks) :
    ∃ mid ms, AMap.get st.nicks e.1 = some mid ∧ AMap.get st.sessions mid = some ms ∧
      ms.deleted = false ∧ nickToLower ms.nick = e.1 := by
  obtain ⟨id, s, h1, h2, _, h4, h5, _⟩ := h.chanMember_live hc (AMap.mem_keys_of_mem he)
  exact ⟨id, s, h1, h2, h4, h5⟩

/-- `cmdKick`, `cmdServerKick`, `serverPartOne`: a member of a stored channel is indexed -/
theorem WInvCore.member_indexed {st : St} (h : WInvCore st) {lc n : String} {ch : Channel}
    (hc : AMap.get st.channels lc = some ch) (hm : AMap.contains ch.nicks n = true) :
    ∃ tid t, AMap.get st.nicks n = some tid ∧ AMap.get st.sessions tid = some t := by
  obtain ⟨id, s, h1, h2, _⟩ := h.chanMember_live hc (AMap.contains_iff_mem_keys.1 hm)
  exact ⟨id, s, h1, h2⟩

end Robust.Irc
