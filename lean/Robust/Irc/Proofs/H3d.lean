import Robust.Irc.Proofs.H3c
/-!
SVSJOIN (calls `cmdTopic` / `cmdNames` on behalf of the joined session).
-/
namespace Robust.Irc
open Srv
open Robust AMap

/-- the channel value the member is added to: the stored one or a fresh empty one -/
theorem getD_chan_cases (c : Ctx) (lc chn : String) (hlc : chanToLower chn = lc) :
    AMap.get c.st.channels lc = some ((AMap.get c.st.channels lc).getD { name := chn }) ∨
      (AMap.get c.st.channels lc = none ∧
        ((AMap.get c.st.channels lc).getD { name := chn }).nicks = [] ∧
        chanToLower ((AMap.get c.st.channels lc).getD { name := chn }).name = lc) := by
  cases hg : AMap.get c.st.channels lc with
  | none => exact Or.inr ⟨rfl, rfl, hlc⟩
  | some ch => exact Or.inl rfl

/-! #### what SVSJOIN needs from `cmdTopic` (query form) and `cmdNames`: they only append output and
cannot panic for a stored session -/

namespace Srv
theorem cmdNames_emits {c c' : Ctx} {tid : Id} {m : IrcMsg} (hr : cmdNames c tid m = Res.ok c') : Emits c c' := by
  unfold cmdNames at hr
  obtain ⟨s, _, hr⟩ := Res.bind_eq_ok.1 hr
  dsimp only at hr
  split at hr
  · cases hr; exact Emits.sendUser _ _ _
  · simp only [getChan_eq] at hr
    split at hr
    · cases hr; exact Emits.sendUser _ _ _
    · obtain ⟨entries, _, hr⟩ := Res.bind_eq_ok.1 hr
      cases hr
      exact (Emits.sendUser _ _ _).trans (Emits.sendUser _ _ _)
end Srv
open Srv

theorem cmdTopic_query_emits {c c' : Ctx} {tid : Id} {chn : String}
    (hr : cmdTopic c tid ⟨none, "TOPIC", [chn]⟩ = Res.ok c') : Emits c c' := by
  unfold cmdTopic at hr
  obtain ⟨s, _, hr⟩ := Res.bind_eq_ok.1 hr
  obtain ⟨channel, _, hr⟩ := Res.bind_eq_ok.1 hr
  simp only [getChan_eq] at hr
  split at hr
  · cases hr; exact Emits.sendUser _ _ _
  · split at hr
    · cases hr; exact Emits.sendUser _ _ _
    · have e2 : ((⟨none, "TOPIC", [chn]⟩ : IrcMsg).params.length == 2) = false := rfl
      have e1 : ((⟨none, "TOPIC", [chn]⟩ : IrcMsg).params.length == 1) = true := rfl
      rw [e2, e1] at hr
      simp only [Bool.and_false, Bool.false_eq_true, if_false, if_true] at hr
      split at hr
      · cases hr; exact Emits.sendUser _ _ _
      · cases hr; exact (Emits.sendUser _ _ _).trans (Emits.sendUser _ _ _)

namespace Srv
theorem cmdNames_noPanic {c : Ctx} {tid : Id} {m : IrcMsg} {t : Session} (hw : WInvCore c.st)
    (ht : AMap.get c.st.sessions tid = some t) : NoPanic (cmdNames c tid m) := by
  unfold cmdNames
  rw [getS_of_get ht]
  simp only [Res.ok_bind, getChan_eq]
  split
  · exact NoPanic.pure _
  · split
    · exact NoPanic.pure _
    · rename_i ch hch
      refine NoPanic.bind (NoPanic.of_ok (mapRes_ok fun e he => ?_)) (fun _ _ => NoPanic.pure _)
      obtain ⟨mid, ms, h1, h2, _⟩ := hw.member_session hch he
      rw [h1]; dsimp only; rw [h2]; dsimp only
      split <;> exact ⟨_, rfl⟩
end Srv
open Srv

theorem cmdTopic_query_noPanic {c : Ctx} {tid : Id} {chn : String} {t : Session}
    (ht : AMap.get c.st.sessions tid = some t) : NoPanic (cmdTopic c tid ⟨none, "TOPIC", [chn]⟩) := by
  unfold cmdTopic
  rw [getS_of_get ht]
  have hp : param ⟨none, "TOPIC", [chn]⟩ 0 = Res.ok chn := rfl
  rw [hp]
  simp only [Res.ok_bind, getChan_eq]
  split
  · exact NoPanic.pure _
  · split
    · exact NoPanic.pure _
    · have e2 : ((⟨none, "TOPIC", [chn]⟩ : IrcMsg).params.length == 2) = false := rfl
      have e1 : ((⟨none, "TOPIC", [chn]⟩ : IrcMsg).params.length == 1) = true := rfl
      rw [e2, e1]
      simp only [Bool.and_false, Bool.false_eq_true, if_false, if_true]
      split <;> exact NoPanic.pure _

theorem cmdServerSvsjoin_mid
    (hTopic : ∀ c tid chn c', cmdTopic c tid ⟨none, "TOPIC", [chn]⟩ = Res.ok c' → Emits c c')
    (hNames : ∀ c tid chn c', cmdNames c tid ⟨none, "NAMES", [chn]⟩ = Res.ok c' → Emits c c')
    {c0 c c' : Ctx} {sid : Id} {m : IrcMsg} (h : Mid c0 c sid)
    (hr : cmdServerSvsjoin c sid m = Res.ok c') : Mid c0 c' sid := by
  unfold cmdServerSvsjoin at hr
  obtain ⟨p0, _, hr⟩ := Res.bind_eq_ok.1 hr
  obtain ⟨chn, _, hr⟩ := Res.bind_eq_ok.1 hr
  dsimp only at hr
  split at hr
  · obtain ⟨pn, _, hr⟩ := Res.bind_eq_ok.1 hr
    cases hr; exact h.sendSvc _
  · rename_i tid hidx
    split at hr
    · obtain ⟨pn, _, hr⟩ := Res.bind_eq_ok.1 hr
      cases hr; exact h.sendSvc _
    · rename_i hvc
      simp only [getChan_eq, putChan_putChan] at hr
      split at hr
      · obtain ⟨pn, _, hr⟩ := Res.bind_eq_ok.1 hr
        cases hr; exact h.sendSvc _
      split at hr
      · rename_i hcont
        cases hr
        cases hg : AMap.get c.st.channels (chanToLower chn) with
        | none => rw [hg] at hcont; simp [AMap.contains] at hcont
        | some ch =>
          simp only [Option.getD_some]
          rw [putChan_same hg]; exact h
      · obtain ⟨c1, h1, hr⟩ := Res.bind_eq_ok.1 hr
        obtain ⟨t, _, hr⟩ := Res.bind_eq_ok.1 hr
        obtain ⟨rc, _, hr⟩ := Res.bind_eq_ok.1 hr
        obtain ⟨c2, h2, hr⟩ := Res.bind_eq_ok.1 hr
        have hm1 := h.addMember hidx (getD_chan_cases c _ chn rfl) (getD_chan_valid hvc) h1
        exact (((hm1.emit _ _).sendSvc _).emits (hTopic _ _ _ _ h2)).emits (hNames _ _ _ _ hr)


theorem cmdServerSvsjoin_preserves : PreservesSrv cmdServerSvsjoin :=
  PreservesSrv.of_mid fun _ _ _ _ _ h hr =>
    cmdServerSvsjoin_mid (fun _ _ _ _ h => cmdTopic_query_emits h) (fun _ _ _ _ h => cmdNames_emits h) h hr

/-- panic-freedom of SVSJOIN from the corresponding facts about the two client handlers it calls -/
theorem cmdServerSvsjoin_safe_of
    (hTopicE : ∀ c tid chn c', cmdTopic c tid ⟨none, "TOPIC", [chn]⟩ = Res.ok c' → Emits c c')
    (hTopicS : ∀ c tid chn, WInv c.st → (∃ t, AMap.get c.st.sessions tid = some t) →
      ∀ site, cmdTopic c tid ⟨none, "TOPIC", [chn]⟩ ≠ Res.panic site)
    (hNamesS : ∀ c tid chn, WInv c.st → (∃ t, AMap.get c.st.sessions tid = some t) →
      ∀ site, cmdNames c tid ⟨none, "NAMES", [chn]⟩ ≠ Res.panic site) :
    ServicesSafe cmdServerSvsjoin 2 := by
  intro c sid m s hpre hs hsrv hpfx hlen
  show NoPanic (cmdServerSvsjoin c sid m)
  obtain ⟨pn, hpn⟩ := pfxName_ok hpfx
  obtain ⟨p0, hp0⟩ := param_ok (m := m) (i := 0) (by omega)
  obtain ⟨p1, hp1⟩ := param_ok (m := m) (i := 1) (by omega)
  have h := Mid.of_pre hpre hs hsrv
  unfold cmdServerSvsjoin
  simp only [hpn, hp0, hp1, Res.ok_bind, getChan_eq, putChan_putChan]
  split
  · exact NoPanic.pure _
  · rename_i tid hidx
    split
    · exact NoPanic.pure _
    · rename_i hvc
      split
      · exact NoPanic.pure _
      split
      · exact NoPanic.pure _
      · obtain ⟨t, ht⟩ := h.hinv.toWInvCore.indexed_stored hidx
        refine NoPanic.bind (NoPanic.of_ok ⟨_, modS_of_get (c := putChan _ _ _) _ ht⟩) (fun c1 h1 => ?_)
        have hm1 := h.addMember hidx (getD_chan_cases c _ p1 rfl) (getD_chan_valid hvc) h1
        obtain ⟨hl, hn, _⟩ := addMember_lookups h1
        obtain ⟨t1, ht1⟩ := hm1.hinv.toWInvCore.indexed_stored (x := nickToLower p0) (id := tid) (by rw [hn]; exact hidx)
        obtain ⟨rc, hrc⟩ := rcChannel_ok hm1.hinv.toWInvCore hl
        rw [getS_of_get ht1, hrc]
        simp only [Res.ok_bind]
        refine NoPanic.bind (hTopicS _ _ _ hm1.hinv.toWInv ⟨t1, ht1⟩) (fun c2 h2 => ?_)
        have he := hTopicE _ _ _ _ h2
        refine hNamesS _ _ _ ?_ ?_
        · rw [he.st]; exact hm1.hinv.toWInv
        · rw [he.st]; exact ⟨t1, ht1⟩

theorem cmdServerSvsjoin_safe : ServicesSafe cmdServerSvsjoin 2 :=
  cmdServerSvsjoin_safe_of (fun _ _ _ _ h => cmdTopic_query_emits h)
    (fun _ _ _ _ ⟨_, ht⟩ => cmdTopic_query_noPanic ht)
    (fun _ _ _ hw ⟨_, ht⟩ => cmdNames_noPanic hw.toWInvCore ht)

end Robust.Irc
