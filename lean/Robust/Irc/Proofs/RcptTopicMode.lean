import Robust.Irc.Proofs.RcptMem
/-!
C12, part 2b: TOPIC and MODE — who receives what.  Also the "query" forms of MODE / TOPIC / NAMES that
`joinOne` calls for the joining session (they only answer the caller).
-/
namespace Robust.Irc
open Robust AMap

/-- the lines `cmdTopic` can produce -/
inductive TopicLine (st : St) (sid : Id) (s : Session) (m : IrcMsg) (o : Out) : Prop
  /-- numeric reply (403, 442, 482, 331, 332, 333): to the sender only -/
  | reply (h : ToOnly sid o)
  /-- the topic change, under the sender's prefix: to exactly the sessions listing that channel; the sender
  is one of them -/
  | relay (chn : String) (hp : m.params[0]? = some chn) (hon : chanToLower chn ∈ s.channels)
      (hd : o.data = (IrcMsg.mk (some s.ircPrefix) "TOPIC" [chn, m.trailing]).render)
      (hr : RcptIs o (Lists st (chanToLower chn)) [])
  /-- the copy for the services links only -/
  | svc (h : o.rcpt = st.serverSessions)

/-- the common tail of the two topic-changing branches -/
theorem topic_tail {c : Ctx} {sid : Id} {m : IrcMsg} {s : Session} (hi : Inv c.st) (hn : NI c.st)
    {p0 : String} (hp : m.params[0]? = some p0) (hon : chanToLower p0 ∈ s.channels) {ch ch' : Channel}
    (hch : AMap.get c.st.channels (chanToLower p0) = some ch) (hname : ch'.name = ch.name)
    (hnicks : ch'.nicks = ch.nicks) {rc : List Nat}
    (hrc : rcChannel (putChan c (chanToLower p0) ch').st ch' = .ok rc) (m2 : IrcMsg) :
    NewOut (TopicLine c.st sid s m) c
      (emit (emit (putChan c (chanToLower p0) ch') ⟨some s.ircPrefix, "TOPIC", [p0, m.trailing]⟩ rc) m2
        c.st.serverSessions) := by
  have hi' : Inv (putChan c (chanToLower p0) ch').st :=
    hi.sim (StSim.putChan hi.toWInvCore hch hname (by rw [hnicks]))
  have hn' : NI (putChan c (chanToLower p0) ch').st := hn.putChan_same _ hch hname
  have hget : AMap.get (putChan c (chanToLower p0) ch').st.channels (chanToLower p0) = some ch' := by
    rw [putChan_channels, AMap.get_set_same]
  have hl := rcChannel_lists hi' hn' hget hrc
  have h0 : NewOut (TopicLine c.st sid s m) c (putChan c (chanToLower p0) ch') := (NewOut.refl _ c).step rfl
  refine (h0.emit fun _ _ => ?_).emit fun _ _ => .svc rfl
  exact .relay p0 hp hon rfl (RcptIs.of_list hl)

theorem cmdTopic_out {c c' : Ctx} {sid : Id} {m : IrcMsg} {s : Session} (hi : Inv c.st) (hn : NI c.st)
    (hs : AMap.get c.st.sessions sid = some s) (hr : cmdTopic c sid m = .ok c') :
    NewOut (TopicLine c.st sid s m) c c' := by
  unfold cmdTopic at hr
  rw [getS_of_get hs] at hr
  simp only [Res.ok_bind, getChan_eq] at hr
  obtain ⟨p0, hp0, hr⟩ := Res.bind_eq_ok.1 hr
  have hp := param_eq_ok hp0
  split at hr
  · cases hr; exact (NewOut.refl _ c).sendUser fun _ _ => .reply rfl
  rename_i ch hch
  split at hr
  · cases hr; exact (NewOut.refl _ c).sendUser fun _ _ => .reply rfl
  rename_i hcont
  have hon : chanToLower p0 ∈ s.channels := mem_of_not_not_contains hcont
  have tail : ∀ {ch' : Channel} {m2 : IrcMsg},
      (do let rc ← rcChannel (putChan c (chanToLower p0) ch').st ch'
          pure (emit (emit (putChan c (chanToLower p0) ch') ⟨some s.ircPrefix, "TOPIC", [p0, m.trailing]⟩ rc) m2
            (rcServices (emit (putChan c (chanToLower p0) ch') ⟨some s.ircPrefix, "TOPIC", [p0, m.trailing]⟩ rc).st))
        : Res Ctx) = .ok c' → ch'.name = ch.name → ch'.nicks = ch.nicks →
        NewOut (TopicLine c.st sid s m) c c' := by
    intro ch' m2 hr e1 e2
    obtain ⟨rc, hrc, hr⟩ := Res.bind_eq_ok.1 hr
    cases hr
    exact topic_tail hi hn hp hon hch e1 e2 hrc _
  split at hr
  · split at hr
    · obtain ⟨op, _, hr⟩ := Res.bind_eq_ok.1 hr
      split at hr
      · cases hr; exact (NewOut.refl _ c).sendUser fun _ _ => .reply rfl
      · exact tail hr rfl rfl
    · exact tail hr rfl rfl
  · split at hr
    · split at hr
      · cases hr; exact (NewOut.refl _ c).sendUser fun _ _ => .reply rfl
      · cases hr
        exact ((NewOut.refl _ c).sendUser fun _ _ => .reply rfl).sendUser fun _ _ => .reply rfl
    · split at hr
      · obtain ⟨op, _, hr⟩ := Res.bind_eq_ok.1 hr
        split at hr
        · cases hr; exact (NewOut.refl _ c).sendUser fun _ _ => .reply rfl
        · exact tail hr rfl rfl
      · exact tail hr rfl rfl

/-- the lines `cmdMode` can produce -/
inductive ModeLine (st : St) (sid : Id) (s : Session) (m : IrcMsg) (o : Out) : Prop
  /-- numeric reply or `MODE … +k or -k` echo: to the sender only -/
  | reply (h : ToOnly sid o)
  /-- channel mode change, under the sender's prefix: to exactly the sessions listing that channel and the
  services links; the sender is on the channel -/
  | chan (chn : String) (hp : m.params[0]? = some chn) (hon : chanToLower chn ∈ s.channels)
      (hd : o.data = (IrcMsg.mk (some s.ircPrefix) "MODE" (chn :: ircParams (normalizeModes m))).render)
      (hr : RcptIs o (Lists st (chanToLower chn)) st.serverSessions)
  /-- user mode query (no mode string): answered to the sender and the services links; the target is the sender
  itself unless the sender is an IRC operator -/
  | userQuery (p0 : String) (tid : Id) (hp : m.params[0]? = some p0)
      (hi : AMap.get st.nicks (nickToLower p0) = some tid) (hself : tid = sid ∨ s.operator = true)
      (hr : RcptIs o (fun id => id = sid) st.serverSessions)
  /-- user mode change: to the target user and the services links; the target is the sender itself unless the
  sender is an IRC operator -/
  | userSet (p0 : String) (tid : Id) (hp : m.params[0]? = some p0)
      (hi : AMap.get st.nicks (nickToLower p0) = some tid) (hself : tid = sid ∨ s.operator = true)
      (hr : RcptIs o (fun id => id = tid) st.serverSessions)

/-! ### the channel-mode loop only answers the caller -/

/-- between `c0` and `c` only lines for `sid` were appended, and the services links are the same -/
def ReplyOnly (sid : Id) (c0 c : Ctx) : Prop :=
  NewOut (ToOnly sid) c0 c ∧ c.st.serverSessions = c0.st.serverSessions

theorem ReplyOnly.refl (sid : Id) (c : Ctx) : ReplyOnly sid c c := ⟨NewOut.refl _ c, rfl⟩

theorem ReplyOnly.sendUser {sid : Id} {c0 c : Ctx} (h : ReplyOnly sid c0 c) (m : IrcMsg) :
    ReplyOnly sid c0 (sendUser c sid m) := ⟨h.1.sendUser fun _ _ => rfl, h.2⟩

theorem ReplyOnly.putChan {sid : Id} {c0 c : Ctx} (h : ReplyOnly sid c0 c) (lc : String) (ch : Channel) :
    ReplyOnly sid c0 (putChan c lc ch) := ⟨h.1.step rfl, h.2⟩

theorem ReplyOnly.foldl {sid : Id} {c0 : Ctx} {α : Type} {f : Ctx → α → Ctx} (l : List α)
    (hf : ∀ c x, ReplyOnly sid c0 c → ReplyOnly sid c0 (f c x)) {c : Ctx} (hc : ReplyOnly sid c0 c) :
    ReplyOnly sid c0 (l.foldl f c) := by
  induction l generalizing c with
  | nil => exact hc
  | cons x t ih => exact ih (hf c x hc)

macro "ro_tac" : tactic =>
  `(tactic| repeat (first
      | assumption
      | apply ReplyOnly.sendUser
      | apply ReplyOnly.putChan))

theorem applyChanMode_out {c0 c c' : Ctx} {sid : Id} {s : Session} {lc chn : String} {op q q' ret : Bool}
    {mc : ModeCmd} (hI : ReplyOnly sid c0 c)
    (hr : applyChanMode c sid s lc chn op mc q = .ok (c', q', ret)) : ReplyOnly sid c0 c' := by
  unfold applyChanMode at hr
  simp only [getChan_eq] at hr
  split at hr
  · rename_i ch hch
    split at hr
    · split at hr
      · cases hr; ro_tac
      · split at hr
        · cases hr; ro_tac
        · split at hr
          · -- k
            split at hr
            · split at hr
              · cases hr; ro_tac
              · split at hr
                · cases hr; ro_tac
                · cases hr
            · cases hr; ro_tac
          · split at hr
            · -- x
              split at hr <;> (cases hr; ro_tac)
            · split at hr
              · -- o
                split at hr
                · cases hr; ro_tac
                · split at hr
                  · cases hr; ro_tac
                  · cases hr; ro_tac
              · split at hr
                · -- b
                  obtain ⟨pa, _, hr⟩ := Res.bind_eq_ok.1 hr
                  obtain ⟨ch', hb, hr⟩ := Res.bind_eq_ok.1 hr
                  cases hr
                  ro_tac
                · cases hr; ro_tac
    · cases hr
      apply ReplyOnly.sendUser
      exact ReplyOnly.foldl _ (fun c1 p h1 => h1.sendUser _) hI
  · cases hr

theorem applyChanModes_out {c0 : Ctx} {sid : Id} {s : Session} {lc chn : String} {op : Bool} :
    ∀ (l : List ModeCmd) {c c' : Ctx} {q q' ret : Bool}, ReplyOnly sid c0 c →
      applyChanModes c sid s lc chn op l q = .ok (c', q', ret) → ReplyOnly sid c0 c'
  | [], c, c', q, q', ret, hI, hr => by
    unfold applyChanModes at hr
    cases hr; exact hI
  | mc :: rest, c, c', q, q', ret, hI, hr => by
    unfold applyChanModes at hr
    obtain ⟨⟨c1, q1, r1⟩, h1, hr⟩ := Res.bind_eq_ok.1 hr
    have hI1 := applyChanMode_out hI h1
    dsimp only at hr
    split at hr
    · cases hr; exact hI1
    · exact applyChanModes_out rest hI1 hr

theorem cmdMode_out {c c' : Ctx} {sid : Id} {m : IrcMsg} {s : Session} (hi : Inv c.st) (hn : NI c.st)
    (hs : AMap.get c.st.sessions sid = some s) (hr : cmdMode c sid m = .ok c') :
    NewOut (ModeLine c.st sid s m) c c' := by
  unfold cmdMode at hr
  rw [getS_of_get hs] at hr
  simp only [Res.ok_bind, getChan_eq, Res.panic_bind] at hr
  obtain ⟨chn, hp0, hr⟩ := Res.bind_eq_ok.1 hr
  have hp := param_eq_ok hp0
  split at hr
  · -- channel modes
    rename_i hcont
    have hon : chanToLower chn ∈ s.channels := List.contains_iff_mem.1 hcont
    split at hr
    · rename_i ch hch
      split at hr
      · cases hr; exact (NewOut.refl _ c).sendUser fun _ _ => .reply rfl
      · split at hr
        · rename_i mem hmem
          obtain ⟨⟨c1, q1, r1⟩, h1, hr⟩ := Res.bind_eq_ok.1 hr
          have hI := applyChanModes_inert hi.toWInvCore _ (Inert.refl hi.toWInvCore) h1
          have hR := applyChanModes_out _ (ReplyOnly.refl sid c) h1
          have hN : NewOut (ModeLine c.st sid s m) c c1 := hR.1.mono fun _ h => .reply h
          dsimp only at hr
          split at hr
          · cases hr; exact hN
          split at hr
          · cases hr; exact hN
          split at hr
          · cases hr; exact hN
          split at hr
          · rename_i ch1 hch1
            obtain ⟨rc, hrc, hr⟩ := Res.bind_eq_ok.1 hr
            cases hr
            refine hN.emit fun _ _ => .chan chn hp hon rfl ?_
            have hl := rcChannel_lists (hI.inv hi) (hn.of_inert hI) hch1 hrc
            show RcptIs ⟨_, _, _, rc ++ c1.st.serverSessions⟩ _ _
            rw [hR.2]
            exact (RcptIs.of_list_svc hl).congr fun id => (SameLists.of_inert hI).lists
          · cases hr
        · cases hr
    · cases hr
  · -- user modes
    split at hr
    · rename_i tid hidx
      obtain ⟨t, ht, hr⟩ := Res.bind_eq_ok.1 hr
      split at hr
      · cases hr; exact (NewOut.refl _ c).sendUser fun _ _ => .reply rfl
      · rename_i htest
        have hself : tid = sid ∨ s.operator = true := by
          cases hop : s.operator with
          | true => exact Or.inr rfl
          | false =>
            left
            rw [hop] at htest
            have he : nickToLower chn = nickToLower s.nick := by
              simpa using htest
            have hnick : s.nick ≠ "" := by
              intro h0
              rw [he, h0, nickToLower_empty, hn.idx] at hidx
              cases hidx
            have := hi.owns sid s hs (hi.noDeleted sid s hs) hnick
            rw [he, this] at hidx
            cases hidx; rfl
        split at hr
        · cases hr
          exact (NewOut.refl _ c).emit fun _ _ => .userQuery chn tid hp hidx hself RcptIs.of_user_svc
        · obtain ⟨c1, h1, hr⟩ := Res.bind_eq_ok.1 hr
          cases hr
          refine ((NewOut.refl _ c).modS h1).emit fun _ _ => .userSet chn tid hp hidx hself ?_
          obtain ⟨t', _, rfl⟩ := modS_eq_ok.1 h1
          exact RcptIs.of_user_svc
    · cases hr; exact (NewOut.refl _ c).sendUser fun _ _ => .reply rfl

/-! ### the query forms used by `joinOne` / `cmdServerSvsjoin` -/

/-- `MODE #chan` (no mode string) by a session that is on the channel: only the `324` reply to the caller -/
theorem cmdMode_query_out {c c' : Ctx} {sid : Id} {s : Session} {chn : String}
    (hs : AMap.get c.st.sessions sid = some s) (hon : chanToLower chn ∈ s.channels)
    (hr : cmdMode c sid ⟨none, "MODE", [chn]⟩ = .ok c') : c'.st = c.st ∧ NewOut (ToOnly sid) c c' := by
  unfold cmdMode at hr
  rw [getS_of_get hs] at hr
  have hp : param ⟨none, "MODE", [chn]⟩ 0 = Res.ok chn := rfl
  rw [hp] at hr
  simp only [Res.ok_bind, getChan_eq] at hr
  rw [if_pos (List.contains_iff_mem.2 hon)] at hr
  split at hr
  · have hm : normalizeModes ⟨none, "MODE", [chn]⟩ = [] := rfl
    rw [hm] at hr
    split at hr
    · cases hr
      exact ⟨rfl, (NewOut.refl _ c).sendUser fun _ _ => rfl⟩
    · rename_i h; exact absurd rfl h
  · cases hr

/-- `TOPIC #chan` (query): only replies to the caller -/
theorem cmdTopic_query_out {c c' : Ctx} {sid : Id} {chn : String}
    (hr : cmdTopic c sid ⟨none, "TOPIC", [chn]⟩ = .ok c') : c'.st = c.st ∧ NewOut (ToOnly sid) c c' := by
  unfold cmdTopic at hr
  obtain ⟨s, hs, hr⟩ := Res.bind_eq_ok.1 hr
  obtain ⟨p0, hp0, hr⟩ := Res.bind_eq_ok.1 hr
  simp only [getChan_eq] at hr
  split at hr
  · cases hr; exact ⟨rfl, (NewOut.refl _ c).sendUser fun _ _ => rfl⟩
  split at hr
  · cases hr; exact ⟨rfl, (NewOut.refl _ c).sendUser fun _ _ => rfl⟩
  have h2 : ((⟨none, "TOPIC", [chn]⟩ : IrcMsg).trailing == "" &&
      (⟨none, "TOPIC", [chn]⟩ : IrcMsg).params.length == 2) = false := by simp
  have h1 : ((⟨none, "TOPIC", [chn]⟩ : IrcMsg).params.length == 1) = true := rfl
  rw [if_neg (by rw [h2]; exact Bool.false_ne_true), if_pos h1] at hr
  split at hr
  · cases hr; exact ⟨rfl, (NewOut.refl _ c).sendUser fun _ _ => rfl⟩
  · cases hr
    exact ⟨rfl, ((NewOut.refl _ c).sendUser fun _ _ => rfl).sendUser fun _ _ => rfl⟩

/-- `NAMES`: only replies to the caller -/
theorem cmdNames_out {c c' : Ctx} {sid : Id} {m : IrcMsg}
    (hr : cmdNames c sid m = .ok c') : c'.st = c.st ∧ NewOut (ToOnly sid) c c' := by
  refine ⟨(cmdNames_emits hr).st, ?_⟩
  unfold cmdNames at hr
  obtain ⟨s, hs, hr⟩ := Res.bind_eq_ok.1 hr
  dsimp only at hr
  split at hr
  · cases hr; exact (NewOut.refl _ c).sendUser fun _ _ => rfl
  · split at hr
    · cases hr; exact (NewOut.refl _ c).sendUser fun _ _ => rfl
    · obtain ⟨en, hen, hr⟩ := Res.bind_eq_ok.1 hr
      cases hr
      exact ((NewOut.refl _ c).sendUser fun _ _ => rfl).sendUser fun _ _ => rfl

end Robust.Irc
