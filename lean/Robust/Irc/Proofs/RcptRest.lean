import Robust.Irc.Proofs.RcptNick
import Robust.Irc.Proofs.RcptQuit
import Robust.Irc.Proofs.H3f
/-!
C12, part 2e: the remaining client handlers — the read-only ones (every line goes to the caller only),
the login sequence (USER / PASS / OPER / MOTD), the service aliases, GLINE and SERVER.
-/
namespace Robust.Irc
open Robust AMap

/-! ### handlers that only answer the caller -/

/-- closes goals `NewOut (ToOnly sid) c (sendUser (sendUser (… c …) sid …) sid …)` -/
macro "toonly_tac" : tactic =>
  `(tactic| repeat (first
      | assumption
      | exact NewOut.refl _ _
      | refine NewOut.sendUser ?_ (fun _ _ => rfl)
      | apply NewOut.ite))

/-- brute-force walk through a read-only handler all of whose lines go to the caller -/
macro "toonly_auto" h:ident : tactic =>
  `(tactic| repeat' (first
      | split at $h:ident
      | (obtain ⟨_, _, $h:ident⟩ := Res.bind_eq_ok.1 $h:ident)
      | dsimp only at $h:ident
      | (cases $h:ident; toonly_tac; done)))

theorem NewOut.foldlM {P : Out → Prop} {α : Type} {f : Ctx → α → Res Ctx} {c0 : Ctx} (l : List α)
    (hf : ∀ c a c', NewOut P c0 c → f c a = Res.ok c' → NewOut P c0 c') {c c' : Ctx} (hc : NewOut P c0 c)
    (hr : l.foldlM f c = Res.ok c') : NewOut P c0 c' := by
  induction l generalizing c with
  | nil => cases hr; exact hc
  | cons a t ih =>
    rw [List.foldlM_cons] at hr
    obtain ⟨c1, h1, hr⟩ := Res.bind_eq_ok.1 hr
    exact ih (hf c a c1 hc h1) hr

theorem cmdPing_out {c c' : Ctx} {sid : Id} {m : IrcMsg} (hr : cmdPing c sid m = .ok c') :
    c'.st = c.st ∧ NewOut (ToOnly sid) c c' := by
  refine ⟨(cmdPing_emits hr).st, ?_⟩
  unfold cmdPing at hr
  toonly_auto hr

theorem cmdIson_out {c c' : Ctx} {sid : Id} {m : IrcMsg} (hr : cmdIson c sid m = .ok c') :
    c'.st = c.st ∧ NewOut (ToOnly sid) c c' := by
  refine ⟨(cmdIson_emits hr).st, ?_⟩
  unfold cmdIson at hr
  toonly_auto hr

theorem cmdUserhost_out {c c' : Ctx} {sid : Id} {m : IrcMsg} (hr : cmdUserhost c sid m = .ok c') :
    c'.st = c.st ∧ NewOut (ToOnly sid) c c' := by
  refine ⟨(cmdUserhost_emits hr).st, ?_⟩
  unfold cmdUserhost at hr
  toonly_auto hr

theorem cmdList_out {c c' : Ctx} {sid : Id} {m : IrcMsg} (hr : cmdList c sid m = .ok c') :
    c'.st = c.st ∧ NewOut (ToOnly sid) c c' := by
  refine ⟨(cmdList_emits hr).st, ?_⟩
  unfold cmdList at hr
  obtain ⟨s, hs, hr⟩ := Res.bind_eq_ok.1 hr
  cases hr
  refine NewOut.sendUser ?_ (fun _ _ => rfl)
  refine NewOut.foldl _ ?_ (NewOut.refl _ c)
  intro c1 lc h1
  split
  · exact h1
  · split
    · exact h1
    · exact h1.sendUser fun _ _ => rfl

theorem cmdWho_out {c c' : Ctx} {sid : Id} {m : IrcMsg} (hr : cmdWho c sid m = .ok c') :
    c'.st = c.st ∧ NewOut (ToOnly sid) c c' := by
  refine ⟨(cmdWho_emits hr).st, ?_⟩
  unfold cmdWho at hr
  obtain ⟨s, hs, hr⟩ := Res.bind_eq_ok.1 hr
  dsimp only at hr
  split at hr
  · cases hr; toonly_tac
  · split at hr
    · cases hr; toonly_tac
    · split at hr
      · cases hr; toonly_tac
      · obtain ⟨mem, hmem, hr⟩ := Res.bind_eq_ok.1 hr
        obtain ⟨c1, h1, hr⟩ := Res.bind_eq_ok.1 hr
        cases hr
        refine NewOut.sendUser ?_ (fun _ _ => rfl)
        refine NewOut.foldlM _ ?_ (NewOut.refl _ c) h1
        intro c2 nick c3 h2 h3
        split at h3
        · cases h3
        · obtain ⟨ms, hms, h3⟩ := Res.bind_eq_ok.1 h3
          cases h3; toonly_tac

theorem cmdWhois_out {c c' : Ctx} {sid : Id} {m : IrcMsg} (hr : cmdWhois c sid m = .ok c') :
    c'.st = c.st ∧ NewOut (ToOnly sid) c c' := by
  refine ⟨(cmdWhois_emits hr).st, ?_⟩
  unfold cmdWhois at hr
  obtain ⟨s, hs, hr⟩ := Res.bind_eq_ok.1 hr
  obtain ⟨p0, hp0, hr⟩ := Res.bind_eq_ok.1 hr
  split at hr
  · cases hr; toonly_tac
  · obtain ⟨t, ht, hr⟩ := Res.bind_eq_ok.1 hr
    obtain ⟨chans, hchans, hr⟩ := Res.bind_eq_ok.1 hr
    dsimp only at hr
    split at hr
    · cases hr
    · cases hr; toonly_tac

theorem cmdMotd_out {c c' : Ctx} {sid : Id} {m : IrcMsg} (hr : cmdMotd c sid m = .ok c') :
    c'.st = c.st ∧ NewOut (ToOnly sid) c c' := by
  unfold cmdMotd at hr
  obtain ⟨s, _, hr⟩ := Res.bind_eq_ok.1 hr
  cases hr
  refine ⟨rfl, ?_⟩
  toonly_tac

theorem cmdAway_out {c c' : Ctx} {sid : Id} {m : IrcMsg} (hr : cmdAway c sid m = .ok c') :
    NewOut (ToOnly sid) c c' := by
  unfold cmdAway at hr
  obtain ⟨c1, h1, hr⟩ := Res.bind_eq_ok.1 hr
  obtain ⟨s, hs, hr⟩ := Res.bind_eq_ok.1 hr
  have h0 : NewOut (ToOnly sid) c c1 := (NewOut.refl _ c).modS h1
  split at hr <;> (cases hr; exact h0.sendUser fun _ _ => rfl)

/-! ### the login sequence -/

/-- lines of OPER and of the login sequence that USER / PASS (and the first NICK) may trigger -/
inductive LoginLine (st : St) (sid : Id) (o : Out) : Prop
  /-- welcome burst, MOTD, numeric replies: to the caller only -/
  | reply (h : ToOnly sid o)
  /-- `NICK …` / `PRIVMSG NickServ :IDENTIFY …` for the services links only -/
  | svc (h : o.rcpt = st.serverSessions)
  /-- `MODE nick +o` after a successful OPER: to the caller and the services links -/
  | oper (hr : RcptIs o (fun id => id = sid) st.serverSessions)

theorem LoginLine.of_nick {st : St} {sid : Id} {s : Session} {o : Out}
    (h : NickLine st sid s ⟨none, "", []⟩ o) : LoginLine st sid o := by
  cases h with
  | reply h => exact .reply h
  | svc h => exact .svc h
  | oper h => exact .oper h
  | nick nick hp => cases hp

theorem Pre.idOK {c : Ctx} {sid : Id} (hp : Pre c sid) : IdOK c.st := fun id x hx => (hp.inv.sessId id x hx).1

theorem cmdOper_out {c c' : Ctx} {sid : Id} {m : IrcMsg} (hp : Pre c sid) (hr : cmdOper c sid m = .ok c') :
    NewOut (LoginLine c.st sid) c c' := by
  obtain ⟨s, _⟩ := hp.actor
  exact (cmdOper_out' (st0 := c.st) (s0 := s) (m0 := ⟨none, "", []⟩) hp.idOK rfl hr).1.mono
    fun _ => LoginLine.of_nick

theorem cmdUser_out {c c' : Ctx} {sid : Id} {m : IrcMsg} (hp : Pre c sid) (hr : cmdUser c sid m = .ok c') :
    NewOut (LoginLine c.st sid) c c' := by
  obtain ⟨s, _⟩ := hp.actor
  unfold cmdUser at hr
  obtain ⟨u, _, hr⟩ := Res.bind_eq_ok.1 hr
  obtain ⟨c1, h1, hr⟩ := Res.bind_eq_ok.1 hr
  have k1 : Keep c c1 := (Keep.refl hp.idOK).modS h1 (fun _ => rfl) (fun _ => rfl)
  have o1 : NewOut (NickLine c.st sid s ⟨none, "", []⟩) c c1 := (NewOut.refl _ c).modS h1
  exact (o1.trans (maybeLogin_out' (st0 := c.st) (s0 := s) (m0 := ⟨none, "", []⟩) k1.idok k1.svc hr).1).mono
    fun _ => LoginLine.of_nick

theorem cmdPass_out {c c' : Ctx} {sid : Id} {m : IrcMsg} (hp : Pre c sid) (hr : cmdPass c sid m = .ok c') :
    NewOut (LoginLine c.st sid) c c' := by
  obtain ⟨s, _⟩ := hp.actor
  unfold cmdPass at hr
  obtain ⟨c1, h1, hr⟩ := Res.bind_eq_ok.1 hr
  have k1 : Keep c c1 := (Keep.refl hp.idOK).modS h1 (fun _ => rfl) (fun _ => rfl)
  have o1 : NewOut (NickLine c.st sid s ⟨none, "", []⟩) c c1 := (NewOut.refl _ c).modS h1
  exact (o1.trans (maybeLogin_out' (st0 := c.st) (s0 := s) (m0 := ⟨none, "", []⟩) k1.idok k1.svc hr).1).mono
    fun _ => LoginLine.of_nick

/-! ### service aliases (`NS`, `CS`, … = `PRIVMSG NickServ :…`) -/

theorem cmdServiceAlias_out {c c' : Ctx} {sid : Id} {m : IrcMsg} {s : Session} (hw : WInv c.st)
    (hs : AMap.get c.st.sessions sid = some s) (hr : cmdServiceAlias c sid m = .ok c') :
    c'.st = c.st ∧ NewOut (fun o => ∃ pm, PrivmsgLine c.st sid s pm o) c c' := by
  unfold cmdServiceAlias at hr
  split at hr
  · cases hr; exact ⟨rfl, NewOut.refl _ _⟩
  · split at hr
    · cases hr
    · rename_i pm _
      obtain ⟨h1, h2⟩ := cmdPrivmsg_out hw hs hr
      exact ⟨h1, h2.mono fun _ h => ⟨pm, h⟩⟩

/-! ### GLINE = ban the address, then KILL -/

/-- `KillLine` only reads the session store, the nick index and the services links -/
theorem KillLine.setConfig {st : St} {cfg : Config} {sid : Id} {s : Session} {m : IrcMsg} {o : Out}
    (h : KillLine { st with config := cfg } sid s m o) : KillLine st sid s m o := by
  cases h with
  | reply h => exact .reply h
  | quit p0 tid t hop hp hi ht hd hr => exact .quit p0 tid t hop hp hi ht hd hr
  | victim p0 tid hop hp hi h => exact .victim p0 tid hop hp hi h

theorem cmdKill_out_cfg {c c' : Ctx} {sid : Id} {m : IrcMsg} {s : Session} (cfg : Config) (hp : Pre c sid)
    (hn : NI c.st) (hs : AMap.get c.st.sessions sid = some s)
    (hr : cmdKill { c with st := { c.st with config := cfg } } sid m = .ok c') :
    NewOut (KillLine c.st sid s m) c c' := by
  have h2 := cmdKill_out (s := s) (hp.setConfig cfg) (hn.congr rfl rfl rfl) hs hr
  exact (NewOut.of_out rfl).trans (h2.mono fun _ => KillLine.setConfig)

theorem cmdGline_out {c c' : Ctx} {sid : Id} {m : IrcMsg} {s : Session} (hp : Pre c sid) (hn : NI c.st)
    (hs : AMap.get c.st.sessions sid = some s) (hr : cmdGline c sid m = .ok c') :
    NewOut (KillLine c.st sid s m) c c' := by
  unfold cmdGline at hr
  rw [getS_of_get hs] at hr
  simp only [Res.ok_bind] at hr
  split at hr
  · cases hr; exact (NewOut.refl _ c).sendUser fun _ _ => .reply rfl
  · obtain ⟨p0, _, hr⟩ := Res.bind_eq_ok.1 hr
    split at hr
    · cases hr; exact (NewOut.refl _ c).sendUser fun _ _ => .reply rfl
    · obtain ⟨t, _, hr⟩ := Res.bind_eq_ok.1 hr
      split at hr
      · cases hr; exact (NewOut.refl _ c).sendUser fun _ _ => .reply rfl
      · exact cmdKill_out_cfg _ hp hn hs hr

/-! ### SERVER (a client session becomes a services link) -/

/-- the lines `cmdServer` can produce -/
inductive ServerLine (st : St) (sid : Id) (o : Out) : Prop
  /-- `ERROR :Invalid password`: to the caller only -/
  | error (h : ToOnly sid o)
  /-- `SERVER …` and the burst (`NICK`, `SJOIN` for every registered client): to the services links, the new
  link included -/
  | burst (h : o.rcpt = st.serverSessions ++ [sid.id])

theorem foldlM_keeps {α : Type} {f : Ctx → α → Res Ctx} (I : Ctx → Prop) (l : List α)
    (hf : ∀ c a c', I c → f c a = Res.ok c' → I c') {c c' : Ctx} (hc : I c)
    (hr : l.foldlM f c = Res.ok c') : I c' := by
  induction l generalizing c with
  | nil => cases hr; exact hc
  | cons a t ih =>
    rw [List.foldlM_cons] at hr
    obtain ⟨c1, h1, hr⟩ := Res.bind_eq_ok.1 hr
    exact ih (hf c a c1 hc h1) hr

/-- the invariant of the burst: the services links are the old ones plus the new link, and every line so far is a
`ServerLine` -/
def SrvI (c : Ctx) (sid : Id) (ci : Ctx) : Prop :=
  ci.st.serverSessions = c.st.serverSessions ++ [sid.id] ∧ NewOut (ServerLine c.st sid) c ci

theorem SrvI.sendSvc {c ci : Ctx} {sid : Id} (h : SrvI c sid ci) (m : IrcMsg) : SrvI c sid (sendSvc ci m) :=
  ⟨h.1, h.2.emit fun _ _ => .burst h.1⟩

theorem serverBurstChan_srvI {c ci c' : Ctx} {sid : Id} {t : Session} {lc : String} (h : SrvI c sid ci)
    (hr : serverBurstChan t ci lc = Res.ok c') : SrvI c sid c' := by
  unfold serverBurstChan at hr
  split at hr
  · cases hr
  · split at hr
    · cases hr
    · cases hr; exact h.sendSvc _

theorem serverBurstNick_srvI {c ci c' : Ctx} {sid : Id} {nick : String} (h : SrvI c sid ci)
    (hr : serverBurstNick ci nick = Res.ok c') : SrvI c sid c' := by
  unfold serverBurstNick at hr
  split at hr
  · cases hr
  · obtain ⟨t, _, hr⟩ := Res.bind_eq_ok.1 hr
    split at hr
    · cases hr; exact h
    · exact foldlM_keeps (SrvI c sid) _ (fun _ _ _ hi hs => serverBurstChan_srvI hi hs) (h.sendSvc _) hr

theorem cmdServer_out {c c' : Ctx} {sid : Id} {m : IrcMsg} (hr : cmdServer c sid m = .ok c') :
    NewOut (ServerLine c.st sid) c c' := by
  rw [cmdServer_eq] at hr
  obtain ⟨s, hs, hr⟩ := Res.bind_eq_ok.1 hr
  split at hr
  · cases hr; exact (NewOut.refl _ c).sendUser fun _ _ => .error rfl
  · obtain ⟨p0, _, hr⟩ := Res.bind_eq_ok.1 hr
    obtain ⟨c1, hm, hr⟩ := Res.bind_eq_ok.1 hr
    dsimp only at hr
    obtain ⟨s1, _, rfl⟩ := modS_eq_ok.1 hm
    refine (foldlM_keeps (SrvI c sid) _ (fun _ _ _ hi hs => serverBurstNick_srvI hi hs) ?_ hr).2
    refine SrvI.sendSvc (c := c) (sid := sid) ?_ _
    exact ⟨rfl, NewOut.of_out rfl⟩

end Robust.Irc
