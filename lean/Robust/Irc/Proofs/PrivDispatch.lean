import Robust.Irc.Proofs.Priv
import Robust.Irc.Proofs.Entry
/-!
Services commands are only honoured from an authenticated services link (property C13):
the handlers `cmdServerInvite … cmdServerTopic` are registered under `server_…` keys only, and
`processMessage` builds a `server_…` key only for a session with `s.server = true`; the flag
`server` is set by `cmdServer` only (see `cmdServer_refused`).
-/
namespace Robust.Irc
open Robust AMap

/-- the handler functions that implement the server-to-server protocol (`cmdServer` itself is
the *client* command SERVER that authenticates the link) -/
def isServicesHandlerName (f : String) : Bool := hasPrefix f "cmdServer" && f != "cmdServer"

/-- the regenerated command table: a services handler is registered only under keys that start
with a lower-case `s` (`server_…`), and those keys are exactly the `server_…` keys -/
theorem table_services_keys :
    Gen.Commands.commands.all (fun e =>
      (startsLowerS e.1 || !isServicesHandlerName e.2.1) && (startsLowerS e.1 == hasPrefix e.1 "server_")) = true := by
  decide

theorem lookup_services_key {key fname : String} {mp : Nat} (h : lookupCommand key = some (fname, mp))
    (hs : isServicesHandlerName fname = true) : startsLowerS key = true := by
  have hm := lookupCommand_mem h
  have := List.all_eq_true.1 table_services_keys _ hm
  simp only [Bool.and_eq_true, Bool.or_eq_true, Bool.not_eq_true', beq_iff_eq] at this
  rcases this.1 with h1 | h1
  · exact h1
  · rw [hs] at h1; cases h1

/-- no client command line selects a services handler: the command is upper-cased before the lookup -/
theorem lookup_client_not_services {x fname : String} {mp : Nat} (h : lookupCommand (toUpper x) = some (fname, mp)) :
    isServicesHandlerName fname = false := by
  cases hs : isServicesHandlerName fname with
  | false => rfl
  | true =>
    have := lookup_services_key h hs
    rw [startsLowerS_toUpper] at this
    cases this

/-- what the dispatch does for a session that is not a services link: a numeric to the actor
(unknown command / not enough parameters), or a handler that is not a services handler -/
inductive ClientDispatched (c : Ctx) (s : Session) (m : IrcMsg) (command : String) (c' : Ctx) : Prop
  | refused (h : Refused c c' s.id)
  | handler (fname : String) (mp : Nat) (h : Handler) (hl : lookupCommand command = some (fname, mp))
      (hn : isServicesHandlerName fname = false) (hh : handlerByName fname = some h) (hr : h c s.id m = .ok c')

theorem dispatchStage_client {c c' : Ctx} {s : Session} {m : IrcMsg} {x : String}
    (hsv : s.server = false) (hr : dispatchStage c s m (toUpper x) = .ok c') :
    ClientDispatched c s m (toUpper x) c' := by
  unfold dispatchStage at hr
  simp only [hsv, Bool.false_eq_true, ↓reduceIte, String.empty_append] at hr
  split at hr
  · cases hr; exact .refused (by refused_tac)
  · rename_i fname mp hl
    split at hr
    · cases hr; exact .refused (by refused_tac)
    · split at hr
      · cases hr
      · rename_i h hh
        exact .handler fname mp h hl (lookup_client_not_services hl) hh hr

/-- the same through the registration gate: additionally the 451 reply (and the session closing
itself after ten minutes without registration) -/
theorem gateStage_client {c c' : Ctx} {e : Entry} {m : IrcMsg} {x : String} {s : Session}
    (hs : AMap.get c.st.sessions e.session = some s) (hsv : s.server = false)
    (hr : gateStage c e m (toUpper x) = .ok c') :
    ClientDispatched c s m (toUpper x) c' ∨
      (s.loggedIn = false ∧
        (c' = sendUser c s.id (srv c "451" [toUpper x, "You have not registered"]) ∨
         deleteSession (sendUser (sendUser c s.id (srv c "451" [toUpper x, "You have not registered"])) s.id
           ⟨none, "ERROR", ["Closing Link: You have not registered within 10 minutes"]⟩) s.id = .ok c')) := by
  unfold gateStage at hr
  rw [getS_of_get hs] at hr
  simp only [Res.ok_bind] at hr
  split at hr
  · rename_i hg
    have hl : s.loggedIn = false := by
      cases h : s.loggedIn with
      | false => rfl
      | true => simp [h] at hg
    refine Or.inr ⟨hl, ?_⟩
    split at hr
    · exact Or.inr hr
    · cases hr; exact Or.inl rfl
  · exact Or.inl (dispatchStage_client hsv hr)

/-- `ProcessMessage` for a session that is not a services link never runs a services handler:
after the remote-address stage (which keeps the `server` flag) the line goes through
`gateStage_client` -/
theorem processMessage_client {c c' : Ctx} {e : Entry} {m : IrcMsg} {s : Session}
    (hp : Pre c e.session) (hn : NI c.st) (hs : AMap.get c.st.sessions e.session = some s) (hsv : s.server = false)
    (hr : processMessage c e (some m) = .ok c') :
    ∃ c1 b, addrStage c e s = .ok (c1, b) ∧ (b = true → c' = c1) ∧
      (b = false → ∃ s1, AMap.get c1.st.sessions e.session = some s1 ∧ s1.server = false ∧
        gateStage c1 e m (toUpper m.command) = .ok c') := by
  rw [processMessage_eq, getS_of_get hs] at hr
  simp only [Res.ok_bind] at hr
  obtain ⟨⟨c1, b⟩, h1, hr⟩ := Res.bind_eq_ok.1 hr
  refine ⟨c1, b, h1, ?_, ?_⟩
  · intro hb
    subst hb
    simp only [↓reduceIte, Res.pure_eq, Res.ok.injEq] at hr
    exact hr.symm
  · intro hb
    subst hb
    simp only [Bool.false_eq_true, ↓reduceIte] at hr
    obtain ⟨_, hf⟩ := addrStage_spec hp hn hs h1
    obtain ⟨_, _, _, s1, hs1, hsv1⟩ := hf rfl
    exact ⟨s1, hs1, hsv1.trans hsv, hr⟩

end Robust.Irc
