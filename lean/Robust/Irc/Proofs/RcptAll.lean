import Robust.Irc.Proofs.RcptEntry
import Robust.Irc.Proofs.RcptTopicMode
import Robust.Irc.Proofs.RcptLeave
import Robust.Irc.Proofs.RcptJoin
import Robust.Irc.Proofs.RcptRest
/-!
C12: every line that any client command can produce, with its exact recipients — the union of the
per-handler classifications, and the case split over the command table.
-/
namespace Robust.Irc
open Robust AMap

/-- every line a command of a *client* session can produce, by handler; `st` is the state in which the
handler starts, `sid`/`s` the acting session and its stored value, `m` the parsed message -/
inductive ClientLine (st : St) (sid : Id) (s : Session) (m : IrcMsg) (o : Out) : Prop
  /-- a line for the acting session only (numeric replies of the gate and of the read-only commands, `ERROR`) -/
  | self (h : ToOnly sid o)
  /-- PRIVMSG / NOTICE and the service aliases (`pm` = the message, for an alias the expanded one) -/
  | privmsg (pm : IrcMsg) (h : PrivmsgLine st sid s pm o)
  | topic (h : TopicLine st sid s m o)
  | mode (h : ModeLine st sid s m o)
  | kick (h : KickLine st sid s m o)
  | part (p0 : String) (hp : m.params[0]? = some p0) (h : PartLine st sid s (splitChar p0 ',') o)
  | join (p0 : String) (hp : m.params[0]? = some p0) (h : JoinLine st sid s (splitChar p0 ',') o)
  | invite (h : InviteLine st sid s m o)
  | knock (h : KnockLine st sid m o)
  | nick (h : NickLine st sid s m o)
  | quit (h : QuitLine st sid s m o)
  | kill (h : KillLine st sid s m o)
  | login (h : LoginLine st sid o)
  | server (h : ServerLine st sid o)

theorem params0_of_le {m : IrcMsg} (h : 1 ≤ m.params.length) : ∃ p0, m.params[0]? = some p0 := by
  cases hm : m.params with
  | nil => rw [hm] at h; simp at h
  | cons a t => exact ⟨a, rfl⟩

/-- **the command table**: whatever handler a client command key selects, all its lines are classified -/
theorem client_handler_out {key fname : String} {mp : Nat} {h : Handler}
    (hmem : (key, fname, mp, false) ∈ Gen.Commands.commands) (hns : startsLowerS key = false)
    (hh : handlerByName fname = some h)
    {c c' : Ctx} {sid : Id} {m : IrcMsg} {s : Session} (hp : Pre c sid) (hn : NI c.st)
    (hs : AMap.get c.st.sessions sid = some s) (hlen : mp ≤ m.params.length)
    (hgate : s.loggedIn = true ∨ key = "NICK" ∨ key = "USER" ∨ key = "PASS" ∨ key = "QUIT" ∨ key = "SERVER")
    (hr : h c sid m = .ok c') : NewOut (ClientLine c.st sid s m) c c' := by
  have hi := hp.inv
  have hw := hp.inv.toWInv
  simp only [Gen.Commands.commands, List.mem_cons, Prod.mk.injEq, List.not_mem_nil, or_false, and_true,
    Bool.false_eq_true, and_false, false_or, or_false] at hmem
  rcases hmem with
    ⟨rfl, rfl, rfl⟩ | ⟨rfl, rfl, rfl⟩ | ⟨rfl, rfl, rfl⟩ | ⟨rfl, rfl, rfl⟩ | ⟨rfl, rfl, rfl⟩ |
    ⟨rfl, rfl, rfl⟩ | ⟨rfl, rfl, rfl⟩ | ⟨rfl, rfl, rfl⟩ | ⟨rfl, rfl, rfl⟩ | ⟨rfl, rfl, rfl⟩ |
    ⟨rfl, rfl, rfl⟩ | ⟨rfl, rfl, rfl⟩ | ⟨rfl, rfl, rfl⟩ | ⟨rfl, rfl, rfl⟩ | ⟨rfl, rfl, rfl⟩ |
    ⟨rfl, rfl, rfl⟩ | ⟨rfl, rfl, rfl⟩ | ⟨rfl, rfl, rfl⟩ | ⟨rfl, rfl, rfl⟩ | ⟨rfl, rfl, rfl⟩ |
    ⟨rfl, rfl, rfl⟩ | ⟨rfl, rfl, rfl⟩ | ⟨rfl, rfl, rfl⟩ | ⟨rfl, rfl, rfl⟩ | ⟨rfl, rfl, rfl⟩ |
    ⟨rfl, rfl, rfl⟩ | ⟨rfl, rfl, rfl⟩ | ⟨rfl, rfl, rfl⟩ | ⟨rfl, rfl, rfl⟩ | ⟨rfl, rfl, rfl⟩ |
    ⟨rfl, rfl, rfl⟩ | ⟨rfl, rfl, rfl⟩ | ⟨rfl, rfl, rfl⟩ | ⟨rfl, rfl, rfl⟩ | ⟨rfl, rfl, rfl⟩ |
    ⟨rfl, rfl, rfl⟩ | ⟨rfl, rfl, rfl⟩ | ⟨rfl, rfl, rfl⟩ | ⟨rfl, rfl, rfl⟩ | ⟨rfl, rfl, rfl⟩ |
    ⟨rfl, rfl, rfl⟩ | ⟨rfl, rfl, rfl⟩ | ⟨rfl, rfl, rfl⟩ | ⟨rfl, rfl, rfl⟩ | ⟨rfl, rfl, rfl⟩ |
    ⟨rfl, rfl, rfl⟩ | ⟨rfl, rfl, rfl⟩ | ⟨rfl, rfl, rfl⟩ | ⟨rfl, rfl, rfl⟩ | ⟨rfl, rfl, rfl⟩ |
    ⟨rfl, rfl, rfl⟩ | ⟨rfl, rfl, rfl⟩ | ⟨rfl, rfl, rfl⟩ | ⟨rfl, rfl, rfl⟩ | ⟨rfl, rfl, rfl⟩
  -- AWAY
  · cases hh; exact (cmdAway_out hr).mono fun _ => .self
  -- BOTSERV BS CHANSERV CS
  · cases hh; exact (cmdServiceAlias_out hw hs hr).2.mono fun _ ⟨pm, h⟩ => .privmsg pm h
  · cases hh; exact (cmdServiceAlias_out hw hs hr).2.mono fun _ ⟨pm, h⟩ => .privmsg pm h
  · cases hh; exact (cmdServiceAlias_out hw hs hr).2.mono fun _ ⟨pm, h⟩ => .privmsg pm h
  · cases hh; exact (cmdServiceAlias_out hw hs hr).2.mono fun _ ⟨pm, h⟩ => .privmsg pm h
  -- GLINE
  · cases hh; exact (cmdGline_out hp hn hs hr).mono fun _ => .kill
  -- HOSTSERV HS
  · cases hh; exact (cmdServiceAlias_out hw hs hr).2.mono fun _ ⟨pm, h⟩ => .privmsg pm h
  · cases hh; exact (cmdServiceAlias_out hw hs hr).2.mono fun _ ⟨pm, h⟩ => .privmsg pm h
  -- INVITE
  · cases hh; exact (cmdInvite_out hi hn hs hr).1.mono fun _ => .invite
  -- ISON
  · cases hh; exact (cmdIson_out hr).2.mono fun _ => .self
  -- JOIN
  · cases hh
    have hl : s.loggedIn = true := by simpa using hgate
    obtain ⟨p0, hp0⟩ := params0_of_le hlen
    exact (cmdJoin_out hp hn hs hl hp0 hr).mono fun _ => .join p0 hp0
  -- KICK
  · cases hh; exact (cmdKick_out hi hn hs hr).mono fun _ => .kick
  -- KILL
  · cases hh; exact (cmdKill_out hp hn hs hr).mono fun _ => .kill
  -- KNOCK
  · cases hh; exact (cmdKnock_out hi hn hr).2.mono fun _ => .knock
  -- LIST
  · cases hh; exact (cmdList_out hr).2.mono fun _ => .self
  -- MEMOSERV
  · cases hh; exact (cmdServiceAlias_out hw hs hr).2.mono fun _ ⟨pm, h⟩ => .privmsg pm h
  -- MODE
  · cases hh; exact (cmdMode_out hi hn hs hr).mono fun _ => .mode
  -- MOTD
  · cases hh; exact (cmdMotd_out hr).2.mono fun _ => .self
  -- MS
  · cases hh; exact (cmdServiceAlias_out hw hs hr).2.mono fun _ ⟨pm, h⟩ => .privmsg pm h
  -- NAMES
  · cases hh; exact (cmdNames_out hr).2.mono fun _ => .self
  -- NICK
  · cases hh; exact (cmdNick_out hp hn hs hr).1.mono fun _ => .nick
  -- NICKSERV
  · cases hh; exact (cmdServiceAlias_out hw hs hr).2.mono fun _ ⟨pm, h⟩ => .privmsg pm h
  -- NOTICE
  · cases hh; exact (cmdPrivmsg_out hw hs hr).2.mono fun _ => .privmsg m
  -- NS
  · cases hh; exact (cmdServiceAlias_out hw hs hr).2.mono fun _ ⟨pm, h⟩ => .privmsg pm h
  -- OPER
  · cases hh; exact (cmdOper_out hp hr).mono fun _ => .login
  -- OPERSERV OS
  · cases hh; exact (cmdServiceAlias_out hw hs hr).2.mono fun _ ⟨pm, h⟩ => .privmsg pm h
  · cases hh; exact (cmdServiceAlias_out hw hs hr).2.mono fun _ ⟨pm, h⟩ => .privmsg pm h
  -- PART
  · cases hh
    have hl : s.loggedIn = true := by simpa using hgate
    obtain ⟨p0, hp0⟩ := params0_of_le hlen
    exact (cmdPart_out hp hn hs hl hp0 hr).mono fun _ => .part p0 hp0
  -- PASS
  · cases hh; exact (cmdPass_out hp hr).mono fun _ => .login
  -- PING
  · cases hh; exact (cmdPing_out hr).2.mono fun _ => .self
  -- PRIVMSG
  · cases hh; exact (cmdPrivmsg_out hw hs hr).2.mono fun _ => .privmsg m
  -- QUIT
  · cases hh; exact (cmdQuit_out hp hn hs hr).mono fun _ => .quit
  -- SERVER
  · cases hh; exact (cmdServer_out hr).mono fun _ => .server
  -- TOPIC
  · cases hh; exact (cmdTopic_out hi hn hs hr).mono fun _ => .topic
  -- USER
  · cases hh; exact (cmdUser_out hp hr).mono fun _ => .login
  -- USERHOST WHO WHOIS
  · cases hh; exact (cmdUserhost_out hr).2.mono fun _ => .self
  · cases hh; exact (cmdWho_out hr).2.mono fun _ => .self
  · cases hh; exact (cmdWhois_out hr).2.mono fun _ => .self
  all_goals exact absurd hns (by decide)

end Robust.Irc
