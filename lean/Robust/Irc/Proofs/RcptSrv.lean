import Robust.Irc.Proofs.RcptMem
import Robust.Irc.Proofs.H3
/-!
C12: PRIVMSG / NOTICE sent by a services link on behalf of one of its pseudo-clients
(`cmdServerPrivmsg`): numeric replies go to the services links, the message to exactly the sessions
listing the channel, resp. to the owner of the target nickname.  (Services links are trusted: the
prefix is the one the link supplies, with user and host `services`.)
-/
namespace Robust.Irc
open Robust AMap

/-- the lines `cmdServerPrivmsg` can produce -/
inductive SrvPrivmsgLine (st : St) (m : IrcMsg) (o : Out) : Prop
  /-- numeric reply (411, 412, 403, 401): to the services links only -/
  | reply (h : o.rcpt = st.serverSessions)
  /-- channel message: to exactly the sessions listing the channel -/
  | chan (p0 pn : String) (ch : Channel) (hp : m.params[0]? = some p0) (hh : hasPrefix p0 "#" = true)
      (hc : AMap.get st.channels (chanToLower p0) = some ch) (hpn : pfxName m = .ok pn)
      (hd : o.data = (IrcMsg.mk (some ⟨pn, "services", "services"⟩) m.command [p0, m.trailing]).render)
      (hr : RcptIs o (Lists st (chanToLower p0)) [])
  /-- private message: to the session owning the target nickname only -/
  | user (p0 pn : String) (tid : Id) (hp : m.params[0]? = some p0) (hh : hasPrefix p0 "#" = false)
      (hi : AMap.get st.nicks (nickToLower p0) = some tid) (hpn : pfxName m = .ok pn)
      (hd : o.data = (IrcMsg.mk (some ⟨pn, "services", "services"⟩) m.command [p0, m.trailing]).render)
      (hr : ToOnly tid o)

theorem servicesPrefix_eq_ok {m : IrcMsg} {sp : Prefix} (h : servicesPrefix m = .ok sp) :
    ∃ pn, pfxName m = .ok pn ∧ sp = ⟨pn, "services", "services"⟩ := by
  unfold servicesPrefix at h
  obtain ⟨pn, hpn, h⟩ := Res.bind_eq_ok.1 h
  cases h
  exact ⟨pn, hpn, rfl⟩

theorem cmdServerPrivmsg_out {c c' : Ctx} {sid : Id} {m : IrcMsg} (hi : Inv c.st) (hn : NI c.st)
    (hr : cmdServerPrivmsg c sid m = .ok c') :
    c'.st = c.st ∧ NewOut (SrvPrivmsgLine c.st m) c c' := by
  unfold cmdServerPrivmsg at hr
  split at hr
  · obtain ⟨pn, _, hr⟩ := Res.bind_eq_ok.1 hr
    cases hr
    exact ⟨rfl, (NewOut.refl _ c).emit fun _ _ => .reply rfl⟩
  split at hr
  · obtain ⟨pn, _, hr⟩ := Res.bind_eq_ok.1 hr
    cases hr
    exact ⟨rfl, (NewOut.refl _ c).emit fun _ _ => .reply rfl⟩
  obtain ⟨p0, hp0, hr⟩ := Res.bind_eq_ok.1 hr
  have hp := param_eq_ok hp0
  simp only [getChan_eq] at hr
  split at hr
  · rename_i hh
    split at hr
    · obtain ⟨pn, _, hr⟩ := Res.bind_eq_ok.1 hr
      cases hr
      exact ⟨rfl, (NewOut.refl _ c).emit fun _ _ => .reply rfl⟩
    · rename_i ch hch
      obtain ⟨sp, hsp, hr⟩ := Res.bind_eq_ok.1 hr
      obtain ⟨rc, hrc, hr⟩ := Res.bind_eq_ok.1 hr
      cases hr
      obtain ⟨pn, hpn, rfl⟩ := servicesPrefix_eq_ok hsp
      exact ⟨rfl, (NewOut.refl _ c).emit fun _ _ =>
        .chan p0 pn ch hp hh hch hpn rfl (RcptIs.of_list (rcChannel_lists hi hn hch hrc))⟩
  · rename_i hh
    have hh' : hasPrefix p0 "#" = false := by simpa using hh
    split at hr
    · obtain ⟨pn, _, hr⟩ := Res.bind_eq_ok.1 hr
      cases hr
      exact ⟨rfl, (NewOut.refl _ c).emit fun _ _ => .reply rfl⟩
    · rename_i tid hti
      obtain ⟨sp, hsp, hr⟩ := Res.bind_eq_ok.1 hr
      cases hr
      obtain ⟨pn, hpn, rfl⟩ := servicesPrefix_eq_ok hsp
      exact ⟨rfl, (NewOut.refl _ c).sendUser fun _ _ => .user p0 pn tid hp hh' hti hpn rfl rfl⟩

end Robust.Irc
