import Robust.Irc.Proofs.PrivHistF
/-!
Executable (sufficient) checks for the history side conditions `WfHistory` and `UnprivHistory`, so
that the history theorems can be instantiated on concrete histories by evaluation.
-/
namespace Robust.Irc
open Robust AMap

/-- `EntryOk` as a Boolean -/
def entryOkB (st : St) (e : Entry) : Bool :=
  (!(e.type == 1 || e.type == 2) || e.session.reply == 0) &&
  (!(e.type == 0) || st.sessions.all fun p => p.1.id != e.id)

/-- sufficient for `Conforming`: the entry is not a client line, or its session is not a services link -/
def conformingB (st : St) (e : Entry) : Bool :=
  !(e.type == 2) || (match AMap.get st.sessions e.session with
    | some s => !s.server
    | none => true)

/-- `UnprivEntry` as a Boolean -/
def unprivB (lc : String) (st : St) (e : Entry) : Bool :=
  !(e.type == 1 || e.type == 2) || (match AMap.get st.sessions e.session with
    | some s => !s.server && !s.operator && !chanOpOf st s.nick lc && (AMap.get st.channels lc).isSome
    | none => true)

/-- run the history, checking `entryOkB`, `conformingB` and (if `lc` is given) `unprivB` before each entry -/
def histB (lc : Option String) (st : St) : List Entry → Bool
  | [] => true
  | e :: es =>
    entryOkB st e && conformingB st e &&
    (match lc with
      | some lc => unprivB lc st e
      | none => true) &&
    (match applyEntry st e with
      | .ok (st', _) => histB lc st' es
      | _ => true)

/-- the final state of a run, if it does not stop -/
def runOk (st : St) (es : List Entry) : Option St :=
  match runEntries st es with
  | .ok s => some s
  | _ => none

theorem runOk_some {st st' : St} {es : List Entry} (h : runOk st es = some st') : runEntries st es = .ok st' := by
  unfold runOk at h
  split at h
  · cases h; assumption
  · cases h

theorem entryOk_of_B {st : St} {e : Entry} (h : entryOkB st e = true) : EntryOk st e := by
  unfold entryOkB at h
  simp only [Bool.and_eq_true, Bool.or_eq_true, Bool.not_eq_true', beq_iff_eq, List.all_eq_true, bne_iff_ne,
    ne_eq, Bool.or_eq_false_iff, beq_eq_false_iff_ne] at h
  refine ⟨fun ht => ?_, fun ht id s hg => ?_⟩
  · rcases h.1 with ⟨h1, h2⟩ | h1
    · rcases ht with ht | ht
      · exact absurd ht h1
      · exact absurd ht h2
    · exact h1
  · rcases h.2 with h1 | h1
    · exact absurd ht h1
    · exact h1 (id, s) (AMap.mem_of_get hg)

theorem conforming_of_B {st : St} {e : Entry} (h : conformingB st e = true) : Conforming st e := by
  unfold conformingB at h
  intro ht s m hs hsv _
  simp only [ht, beq_self_eq_true, Bool.not_true, Bool.false_or, hs, Bool.not_eq_true'] at h
  rw [h] at hsv
  cases hsv

theorem unpriv_of_B {lc : String} {st : St} {e : Entry} (h : unprivB lc st e = true) : UnprivEntry lc st e := by
  unfold unprivB at h
  intro ht s hs
  have ht' : (e.type == 1 || e.type == 2) = true := by
    rcases ht with ht | ht <;> simp [ht]
  simp only [ht', Bool.not_true, Bool.false_or, hs, Bool.and_eq_true, Bool.not_eq_true'] at h
  exact ⟨h.1.1.1, h.1.1.2, h.1.2, h.2⟩

theorem wf_of_histB {lc : Option String} : ∀ {es : List Entry} {st : St}, histB lc st es = true → WfHistory st es
  | [], _, _ => trivial
  | e :: es, st, h => by
    unfold histB at h
    simp only [Bool.and_eq_true] at h
    refine ⟨entryOk_of_B h.1.1.1, conforming_of_B h.1.1.2, fun st' out hap => ?_⟩
    have h2 := h.2
    rw [hap] at h2
    exact wf_of_histB h2

theorem unpriv_of_histB {lc : String} : ∀ {es : List Entry} {st : St}, histB (some lc) st es = true →
    UnprivHistory lc st es
  | [], _, _ => trivial
  | e :: es, st, h => by
    unfold histB at h
    simp only [Bool.and_eq_true] at h
    refine ⟨unpriv_of_B h.1.2, fun st' out hap => ?_⟩
    have h2 := h.2
    rw [hap] at h2
    exact unpriv_of_histB h2

end Robust.Irc
