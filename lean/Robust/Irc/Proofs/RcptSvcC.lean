import Robust.Irc.Proofs.RcptSvcBase
import Robust.Irc.Proofs.H3
/-!
C12 for the services handlers, part C: SVSNICK, KILL, QUIT — the notifications that go to the sessions sharing a
channel with the subject.

* `cmdServerSvsnick`: the NICK line (old prefix of the renamed session) goes to exactly the renamed session, the
  sessions sharing a channel with it, and the services links;
* `cmdServerKill`: the KILL line to the victim only; the victim's QUIT to exactly the sessions sharing a channel
  with the victim (the recipients are computed *before* the victim is removed, so the victim is among them when it
  is on a channel) and the services links;
* `cmdServerQuit` with a prefix (one pseudo-client of the link quits): its QUIT to exactly the sessions sharing a
  channel with it; without prefix (the link itself goes away): the link is deleted, then its pseudo-clients in the
  order of their `reply` numbers, each announced to exactly the sessions that *still* share a channel with it —
  i.e. the former co-members minus the link and minus the pseudo-clients with a smaller `reply` number.
-/
namespace Robust.Irc
open Robust AMap

/-! ### helpers -/

theorem svcC_id_ext {a b : Id} (h1 : a.id = b.id) (h2 : a.reply = b.reply) : a = b := by
  cases a; cases b
  simp only at h1 h2
  subst h1 h2
  rfl

theorem svcC_modS_noDeleted {c c' : Ctx} {tid : Id} {f : Session → Session}
    (hd : ∀ id s, AMap.get c.st.sessions id = some s → s.deleted = false)
    (hf : ∀ s, (f s).deleted = s.deleted) (hr : modS c tid f = .ok c') :
    ∀ id s, AMap.get c'.st.sessions id = some s → s.deleted = false := by
  obtain ⟨s, hs, rfl⟩ := modS_eq_ok.1 hr
  intro id x hx
  rw [putS_sessions, AMap.get_set] at hx
  split at hx
  · cases hx
    rw [hf]; exact hd _ s hs
  · exact hd _ _ hx

/-- one `deleteSession` of a live session, in terms of the *indexed* members: the same, minus the deleted one.
(Unlike `DelSpec.onChan` this does not need the start state to be a state between entries: it is used inside the
loop of `cmdServerQuit`.) -/
theorem DelSpec.onChan_step {c c' : Ctx} {sid : Id} {s : Session} (sp : DelSpec c c' sid s)
    (hw : WInvCore c.st) (hn : NI c.st) (hs : AMap.get c.st.sessions sid = some s) (hlive : s.deleted = false)
    {lc : String} {id : Id} : OnChan c'.st lc id ↔ OnChan c.st lc id ∧ id ≠ sid := by
  constructor
  · rintro ⟨x, t', hx, ht', hl⟩
    rw [sp.nicks, AMap.get_erase] at hx
    split at hx
    · cases hx
    · rename_i hne
      have hid : id ≠ sid := by
        intro he; subst he
        obtain ⟨s', hs', _, hlow⟩ := hw.index x id hx
        rw [hs] at hs'; cases hs'
        exact hne hlow.symm
      cases hg0 : AMap.get c.st.sessions id with
      | none =>
        have : id ∉ AMap.keys c'.st.sessions := by rw [sp.keys]; exact AMap.get_eq_none_iff.1 hg0
        exact absurd (AMap.mem_keys_of_get ht') this
      | some t =>
        obtain ⟨inv, h⟩ := sp.others id t hid hg0
        rw [h] at ht'; cases ht'
        exact ⟨⟨x, t, hx, hg0, hl⟩, hid⟩
  · rintro ⟨⟨x, t, hx, ht, hl⟩, hid⟩
    have hne : x ≠ nickToLower s.nick := by
      intro he
      by_cases hnn : s.nick = ""
      · rw [he, hnn, nickToLower_empty, hn.idx] at hx; cases hx
      · have := hw.owns sid s hs hlive hnn
        rw [he, this] at hx; cases hx; exact hid rfl
    obtain ⟨inv, h⟩ := sp.others id t hid ht
    exact ⟨x, _, by rw [sp.nicks, AMap.get_erase_other hne]; exact hx, h, hl⟩

/-! ### SVSNICK -/

/-- the lines `cmdServerSvsnick` can produce -/
inductive SrvSvsnickLine (st : St) (m : IrcMsg) (o : Out) : Prop
  /-- numeric reply (432, 401, 433): to the services links only -/
  | reply (h : o.rcpt = st.serverSessions)
  /-- the nick change, under the *old* prefix of the renamed session `tid`: to exactly that session, the sessions
  sharing a channel with it, and the services links -/
  | nick (p0 p1 : String) (tid : Id) (t : Session) (hp0 : m.params[0]? = some p0) (hp1 : m.params[1]? = some p1)
      (hv : isValidNickname p1 = true)
      (hi : AMap.get st.nicks (nickToLower p0) = some tid) (ht : AMap.get st.sessions tid = some t)
      (hd : o.data = (IrcMsg.mk (some t.ircPrefix) "NICK" [p1]).render)
      (hr : RcptIs o (fun id => id = tid ∨ ∃ lc ∈ t.channels, Lists st lc id) st.serverSessions)

theorem svsnickTail_out {c c' : Ctx} {sid tid : Id} {s : Session} {p0 p1 : String} (hp : Pre c sid) (hn : NI c.st)
    (hs : AMap.get c.st.sessions sid = some s) (hsrv : s.server = true)
    (hvalid : isValidNickname p1 = true)
    (hidx : AMap.get c.st.nicks (nickToLower p0) = some tid)
    (hnew : AMap.get c.st.nicks (nickToLower p1) = none ∨ AMap.get c.st.nicks (nickToLower p1) = some tid)
    (hr : svsnickTail c p0 p1 tid = .ok c') :
    ∃ t, AMap.get c.st.sessions tid = some t ∧ SameLists c.st c'.st ∧
      NewOut (fun o => o.data = (IrcMsg.mk (some t.ircPrefix) "NICK" [p1]).render ∧
        RcptIs o (fun id => id = tid ∨ ∃ lc ∈ t.channels, Lists c.st lc id) c.st.serverSessions) c c' := by
  have h := Mid.of_pre hp hs hsrv
  unfold svsnickTail at hr
  obtain ⟨t, ht, hr⟩ := Res.bind_eq_ok.1 hr
  rw [getS_eq_ok] at ht
  dsimp only at hr
  obtain ⟨c1, hm1, hr⟩ := Res.bind_eq_ok.1 hr
  obtain ⟨c2, hm2, hr⟩ := Res.bind_eq_ok.1 hr
  obtain ⟨t2, ht2, hr⟩ := Res.bind_eq_ok.1 hr
  rw [getS_eq_ok] at ht2
  obtain ⟨rc, hrc, hr⟩ := Res.bind_eq_ok.1 hr
  cases hr
  refine ⟨t, ht, ?_⟩
  obtain ⟨hM, _⟩ := svsnick_rename h hvalid hidx hnew ht hm1
  have hidok : IdOK c.st := fun id x hx => (hp.inv.sessId id x hx).1
  have hid : t.id = tid := hidok tid t ht
  have k1 : Keep c c1 := (Keep.refl hidok).modS hm1 (fun _ => rfl) (fun _ => rfl)
  have hd1 := svcC_modS_noDeleted (f := fun t => { t with nick := p1 }) hp.inv.noDeleted (fun _ => rfl) hm1
  have hg1 := modS_get_self (f := fun t => { t with nick := p1 }) ht hid hm1
  have o1 : NewOut (fun o => o.data = (IrcMsg.mk (some t.ircPrefix) "NICK" [p1]).render ∧
      RcptIs o (fun id => id = tid ∨ ∃ lc ∈ t.channels, Lists c.st lc id) c.st.serverSessions) c c1 :=
    (NewOut.refl _ c).modS hm1
  have hss := renameCtx_sessions c1 tid (nickToLower p1) (nickToLower p0) (nickToLower p1 != nickToLower p0)
  have kr : Keep c (renameCtx c1 tid (nickToLower p1) (nickToLower p0) (nickToLower p1 != nickToLower p0)) :=
    k1.of_fields hss (renameCtx_svc _ _ _ _ _)
  have or' := o1.step (renameCtx_out_eq c1 tid (nickToLower p1) (nickToLower p0) (nickToLower p1 != nickToLower p0))
  rw [← hss] at hd1 hg1
  generalize renameCtx c1 tid (nickToLower p1) (nickToLower p0) (nickToLower p1 != nickToLower p0) = cr
    at hM hm2 kr or' hd1 hg1
  have hM2 := hM.modS_inert updateIrcPrefix_inertFn hm2
  have k2 : Keep c c2 := kr.modS hm2 (fun _ => rfl) (fun _ => rfl)
  have hd2 := svcC_modS_noDeleted (f := updateIrcPrefix) hd1 (fun _ => rfl) hm2
  have hg2 := modS_get_self (f := updateIrcPrefix) hg1 hid hm2
  rw [hg2] at ht2
  cases ht2
  have hi2 : Inv c2.st := Inv.of_hinv hM2.hinv hd2
  have hn2 : NI c2.st := hM2.ninv hn
  refine ⟨k2.lists, (or'.modS hm2).emit fun i k => ⟨rfl, ?_⟩⟩
  show RcptIs ⟨i, k, _, rcUser tid ++ rc ++ c2.st.serverSessions⟩ _ _
  rw [k2.svc]
  refine (RcptIs.of_user_list_svc (rcCommonChannels_lists hi2 hn2 hrc)).congr fun id => ?_
  have hch : (updateIrcPrefix { t with nick := p1 }).channels = t.channels := rfl
  rw [hch]
  constructor
  · rintro (h | ⟨lc, hl, h⟩)
    · exact Or.inl h
    · exact Or.inr ⟨lc, hl, k2.lists.lists.1 h⟩
  · rintro (h | ⟨lc, hl, h⟩)
    · exact Or.inl h
    · exact Or.inr ⟨lc, hl, k2.lists.lists.2 h⟩

/-- **SVSNICK**: numeric replies to the services links; the NICK line (old prefix, new nickname) to exactly the renamed
session, the sessions sharing a channel with it and the services links; no channel list changes -/
theorem cmdServerSvsnick_out {c c' : Ctx} {sid : Id} {m : IrcMsg} {s : Session} (hp : Pre c sid) (hn : NI c.st)
    (hs : AMap.get c.st.sessions sid = some s) (hsrv : s.server = true)
    (hr : cmdServerSvsnick c sid m = .ok c') :
    NewOut (SrvSvsnickLine c.st m) c c' ∧ SameLists c.st c'.st := by
  rw [cmdServerSvsnick_eq] at hr
  obtain ⟨p0, hp0, hr⟩ := Res.bind_eq_ok.1 hr
  obtain ⟨p1, hp1, hr⟩ := Res.bind_eq_ok.1 hr
  have hpp0 := param_eq_ok hp0
  have hpp1 := param_eq_ok hp1
  have reply : ∀ msg, NewOut (SrvSvsnickLine c.st m) c (sendSvc c msg) ∧ SameLists c.st (sendSvc c msg).st :=
    fun _ => ⟨(NewOut.refl _ c).sendSvc fun _ _ => .reply rfl, .refl _⟩
  have tail : ∀ tid, AMap.get c.st.nicks (nickToLower p0) = some tid → isValidNickname p1 = true →
      (AMap.get c.st.nicks (nickToLower p1) = none ∨ AMap.get c.st.nicks (nickToLower p1) = some tid) →
      svsnickTail c p0 p1 tid = .ok c' → NewOut (SrvSvsnickLine c.st m) c c' ∧ SameLists c.st c'.st := by
    intro tid hidx hvalid hnew hr
    obtain ⟨t, ht, hsl, ho⟩ := svsnickTail_out hp hn hs hsrv hvalid hidx hnew hr
    exact ⟨ho.mono fun o ⟨hd, hrc⟩ => .nick p0 p1 tid t hpp0 hpp1 hvalid hidx ht hd hrc, hsl⟩
  split at hr
  · cases hr; exact reply _
  · rename_i hv
    have hvalid : isValidNickname p1 = true := by simpa using hv
    split at hr
    · cases hr; exact reply _
    · rename_i tid hidx
      split at hr
      · rename_i other hother
        split at hr
        · cases hr; exact reply _
        · rename_i hne
          have : other = tid := by simpa using hne
          subst this
          exact tail _ hidx hvalid (Or.inr hother) hr
      · rename_i hnone
        exact tail _ hidx hvalid (Or.inl hnone) hr

/-! ### KILL -/

/-- the lines `cmdServerKill` can produce -/
inductive SrvKillLine (st : St) (m : IrcMsg) (o : Out) : Prop
  /-- numeric reply (461, 401): to the services links only -/
  | reply (h : o.rcpt = st.serverSessions)
  /-- the KILL line: to the killed session only -/
  | victim (p0 : String) (tid : Id) (hp : m.params[0]? = some p0)
      (hi : AMap.get st.nicks (nickToLower p0) = some tid) (h : ToOnly tid o)
  /-- the victim's QUIT, under the victim's prefix: to exactly the sessions sharing a channel with the victim (the
  victim itself included: it is removed only afterwards) and the services links -/
  | quit (p0 : String) (tid : Id) (t : Session) (hp : m.params[0]? = some p0)
      (hi : AMap.get st.nicks (nickToLower p0) = some tid) (ht : AMap.get st.sessions tid = some t)
      (hd : o.data = (IrcMsg.mk (some t.ircPrefix) "QUIT" ["Killed: " ++ m.trailing]).render)
      (hr : RcptIs o (fun id => ∃ lc ∈ t.channels, Lists st lc id) st.serverSessions)

/-- **services KILL**: the lines, and the membership afterwards (the sessions still *on* a channel are the former
members other than the victim) -/
theorem cmdServerKill_out {c c' : Ctx} {sid : Id} {m : IrcMsg} (hi : Inv c.st) (hn : NI c.st)
    (hr : cmdServerKill c sid m = .ok c') :
    NewOut (SrvKillLine c.st m) c c' ∧
    (SameLists c.st c'.st ∨ ∃ p0 tid, m.params[0]? = some p0 ∧ AMap.get c.st.nicks (nickToLower p0) = some tid ∧
      ∀ lc id, OnChan c'.st lc id ↔ Lists c.st lc id ∧ id ≠ tid) := by
  unfold cmdServerKill at hr
  obtain ⟨s, _, hr⟩ := Res.bind_eq_ok.1 hr
  split at hr
  · cases hr; exact ⟨(NewOut.refl _ c).sendSvc fun _ _ => .reply rfl, Or.inl (.refl _)⟩
  · dsimp only at hr
    obtain ⟨kp?, _, hr⟩ := Res.bind_eq_ok.1 hr
    obtain ⟨p0, hp0, hr⟩ := Res.bind_eq_ok.1 hr
    have hpp := param_eq_ok hp0
    split at hr
    · cases hr; exact ⟨(NewOut.refl _ c).sendSvc fun _ _ => .reply rfl, Or.inl (.refl _)⟩
    · rename_i tid hidx
      obtain ⟨t, ht, hr⟩ := Res.bind_eq_ok.1 hr
      rw [getS_eq_ok] at ht
      split at hr
      · rename_i kp
        obtain ⟨rc, hrc, hr⟩ := Res.bind_eq_ok.1 hr
        have hrc' : rcCommonChannels c.st t = .ok rc := hrc
        have hlive := hi.noDeleted tid t ht
        have htn : t.nick ≠ "" := hn.indexed_nick hi.toWInvCore hidx ht
        have sp := deleteSession_spec (c := emit (sendUser c tid _) _ _) hi.toWInv ht (DelPre.of_live hlive) hr
        refine ⟨(((NewOut.refl _ c).sendUser fun _ _ => .victim p0 tid hpp hidx rfl).emit fun i k => ?_).frame sp.frame,
          Or.inr ⟨p0, tid, hpp, hidx, fun lc id => sp.onChan (c := emit (sendUser c tid _) _ _) hi hn ht htn⟩⟩
        exact .quit p0 tid t hpp hidx ht rfl (RcptIs.of_list_svc (rcCommonChannels_lists hi hn hrc'))
      · cases hr

/-! ### QUIT -/

/-- the lines `cmdServerQuit` can produce; `sid` is the acting link -/
inductive SrvQuitLine (st : St) (sid : Id) (m : IrcMsg) (o : Out) : Prop
  /-- `:nick QUIT`: one pseudo-client `tid` of the link quits; its QUIT goes to exactly the sessions sharing a
  channel with it (itself included: it is removed afterwards) -/
  | one (p : Prefix) (tid : Id) (t : Session) (hpfx : m.pfx = some p) (ht : AMap.get st.sessions tid = some t)
      (hlink : tid.id = sid.id ∧ tid.reply ≠ 0) (hnick : nickToLower t.nick = nickToLower p.name)
      (hd : o.data = (IrcMsg.mk (some t.ircPrefix) "QUIT" [m.trailing]).render)
      (hr : RcptIs o (fun id => ∃ lc ∈ t.channels, Lists st lc id) [])
  /-- `QUIT` without prefix: the link is deleted first, then its pseudo-clients by ascending `reply`; the QUIT of
  the pseudo-client `tid` goes to exactly the sessions sharing a channel with it that are still there: not the
  link, not the pseudo-clients with a smaller `reply` number -/
  | all (tid : Id) (t : Session) (hpfx : m.pfx = none) (ht : AMap.get st.sessions tid = some t)
      (hlink : tid.id = sid.id ∧ tid.reply ≠ 0)
      (hd : o.data = (IrcMsg.mk (some t.ircPrefix) "QUIT" [m.trailing]).render)
      (hr : RcptIs o (fun id => ¬ (id.id = sid.id ∧ id.reply < tid.reply) ∧ ∃ lc ∈ t.channels, Lists st lc id) [])

/-- loop invariant of the no-prefix QUIT: `D` = the sessions deleted so far -/
structure QuitLoop (c : Ctx) (sid : Id) (D : List Id) (ci : Ctx) : Prop where
  qi : QuitInv c sid ci
  ni : NI ci.st
  kept : ∀ id, id ∉ D → ∀ t, AMap.get c.st.sessions id = some t →
    ∃ inv, AMap.get ci.st.sessions id = some { t with invitedTo := inv }
  onchan : ∀ lc id, OnChan ci.st lc id ↔ Lists c.st lc id ∧ id ∉ D

theorem QuitLoop.emit {c ci : Ctx} {sid : Id} {D : List Id} (h : QuitLoop c sid D ci) (m : IrcMsg) (r : List Nat) :
    QuitLoop c sid D (emit ci m r) := ⟨h.qi.emit m r, h.ni, h.kept, h.onchan⟩

/-- deleting one more live session -/
theorem QuitLoop.delete {c ci ci' : Ctx} {sid tid : Id} {D : List Id} {t : Session} (h : QuitLoop c sid D ci)
    (hi : Inv c.st) (htD : tid ∉ D) (ht : AMap.get c.st.sessions tid = some t)
    (hr : deleteSession ci tid = .ok ci') : QuitLoop c sid (tid :: D) ci' := by
  obtain ⟨inv, hti⟩ := h.kept tid htD t ht
  have hw := h.qi.1.hinv.toWInv
  have sp := deleteSession_spec hw hti (h.qi.2 tid _ hti) hr
  refine ⟨h.qi.deleteSession hti hr, h.ni.deleteSession hr, ?_, ?_⟩
  · intro id hid t0 ht0
    have hne : id ≠ tid := fun he => hid (by rw [he]; exact List.mem_cons_self ..)
    have hD : id ∉ D := fun hm => hid (List.mem_cons_of_mem _ hm)
    obtain ⟨inv0, h0⟩ := h.kept id hD t0 ht0
    obtain ⟨inv1, h1⟩ := sp.others id _ hne h0
    exact ⟨inv1, h1⟩
  · intro lc id
    rw [sp.onChan_step hw.toWInvCore h.ni hti (hi.noDeleted tid t ht), h.onchan lc id]
    constructor
    · rintro ⟨⟨h1, h2⟩, h3⟩
      exact ⟨h1, fun hm => by
        rcases List.mem_cons.1 hm with he | he
        · exact h3 he
        · exact h2 he⟩
    · rintro ⟨h1, h2⟩
      exact ⟨⟨h1, fun hm => h2 (List.mem_cons_of_mem _ hm)⟩, fun he => h2 (by rw [he]; exact List.mem_cons_self ..)⟩

/-- the recipients of the QUIT of `tid`, computed in the loop state -/
theorem QuitLoop.rcpt {c ci : Ctx} {sid tid : Id} {D : List Id} {t : Session} (h : QuitLoop c sid D ci)
    (htD : tid ∉ D) (ht : AMap.get c.st.sessions tid = some t) :
    ∃ ti, AMap.get ci.st.sessions tid = some ti ∧ ti.ircPrefix = t.ircPrefix ∧
      ∀ rc, rcCommonChannels ci.st ti = .ok rc →
        ∀ n, n ∈ rc ↔ ∃ id, (id ∉ D ∧ ∃ lc ∈ t.channels, Lists c.st lc id) ∧ id.id = n := by
  obtain ⟨inv, hti⟩ := h.kept tid htD t ht
  refine ⟨_, hti, rfl, fun rc hrc n => ?_⟩
  rw [rcCommonChannels_rcpt h.qi.1.hinv.toWInv hrc]
  constructor
  · rintro ⟨lc, id, hl, ho, he⟩
    obtain ⟨h1, h2⟩ := (h.onchan lc id).1 ho
    exact ⟨id, ⟨h2, lc, hl, h1⟩, he⟩
  · rintro ⟨id, ⟨h2, lc, hl, h1⟩, he⟩
    exact ⟨lc, id, hl, (h.onchan lc id).2 ⟨h1, h2⟩, he⟩

/-- the lines of the loop, with the explicit list of predecessors -/
def QuitStepLine (st : St) (sid : Id) (m : IrcMsg) (subs : List Id) (o : Out) : Prop :=
  ∃ tid t pre post, subs = pre ++ tid :: post ∧ AMap.get st.sessions tid = some t ∧
    o.data = (IrcMsg.mk (some t.ircPrefix) "QUIT" [m.trailing]).render ∧
    RcptIs o (fun id => id ∉ sid :: pre ∧ ∃ lc ∈ t.channels, Lists st lc id) []

theorem quitLoop_out {c : Ctx} {sid : Id} {m : IrcMsg} (hi : Inv c.st) (subs : List Id)
    (hsub : ∀ x ∈ subs, ∃ t, AMap.get c.st.sessions x = some t) (hnd : subs.Nodup) (hsid : sid ∉ subs) :
    ∀ (l done : List Id) (ci c' : Ctx), subs = done ++ l → QuitLoop c sid (sid :: done) ci →
      NewOut (QuitStepLine c.st sid m subs) c ci →
      l.foldlM (fun c tid => do
        let t ← getS c tid
        let rc ← rcCommonChannels c.st t
        let c := emit c ⟨some t.ircPrefix, "QUIT", [m.trailing]⟩ rc
        deleteSession c tid) ci = .ok c' →
      NewOut (QuitStepLine c.st sid m subs) c c' ∧ ∃ D, QuitLoop c sid D c' ∧ ∀ id, id ∈ D ↔ id = sid ∨ id ∈ subs
  | [], done, ci, c', hsplit, hL, ho, hr => by
    cases hr
    refine ⟨ho, sid :: done, hL, fun id => ?_⟩
    rw [hsplit, List.append_nil, List.mem_cons]
  | tid :: rest, done, ci, c', hsplit, hL, ho, hr => by
    rw [List.foldlM_cons] at hr
    obtain ⟨c1, h1, hr⟩ := Res.bind_eq_ok.1 hr
    obtain ⟨ti, hti, h1⟩ := Res.bind_eq_ok.1 h1
    rw [getS_eq_ok] at hti
    obtain ⟨rc, hrc, h1⟩ := Res.bind_eq_ok.1 h1
    have hmem : tid ∈ subs := by rw [hsplit]; exact List.mem_append_right _ (List.mem_cons_self ..)
    obtain ⟨t, ht⟩ := hsub tid hmem
    have hnd' : (done ++ tid :: rest).Nodup := by rw [← hsplit]; exact hnd
    have htD : tid ∉ sid :: done := by
      intro hm
      rcases List.mem_cons.1 hm with he | he
      · exact hsid (he ▸ hmem)
      · exact (List.nodup_append.1 hnd').2.2 tid he tid (List.mem_cons_self ..) rfl
    obtain ⟨ti', hti', hpfx, hrcpt⟩ := hL.rcpt htD ht
    rw [hti] at hti'; cases hti'
    have hline : NewOut (QuitStepLine c.st sid m subs) c (emit ci ⟨some ti.ircPrefix, "QUIT", [m.trailing]⟩ rc) :=
      ho.emit fun i k => ⟨tid, t, done, rest, hsplit, ht, by rw [hpfx], RcptIs.of_list (hrcpt rc hrc)⟩
    have hL1 := QuitLoop.delete (hL.emit _ _) hi htD ht h1
    have sp := deleteSession_spec (c := emit ci _ _) hL.qi.1.hinv.toWInv hti (hL.qi.2 tid _ hti) h1
    have hL1' : QuitLoop c sid (sid :: (done ++ [tid])) c1 := by
      refine ⟨hL1.qi, hL1.ni, fun id hid => hL1.kept id ?_, fun lc id => ?_⟩
      · intro hm
        apply hid
        rcases List.mem_cons.1 hm with he | he
        · exact List.mem_cons_of_mem _ (List.mem_append_right _ (by rw [he]; exact List.mem_singleton.2 rfl))
        · rcases List.mem_cons.1 he with he | he
          · rw [he]; exact List.mem_cons_self ..
          · exact List.mem_cons_of_mem _ (List.mem_append_left _ he)
      · rw [hL1.onchan lc id]
        have : id ∈ tid :: sid :: done ↔ id ∈ sid :: (done ++ [tid]) := by
          simp only [List.mem_cons, List.mem_append, List.not_mem_nil, or_false]
          constructor
          · rintro (h | h | h)
            · exact Or.inr (Or.inr h)
            · exact Or.inl h
            · exact Or.inr (Or.inl h)
          · rintro (h | h | h)
            · exact Or.inr (Or.inl h)
            · exact Or.inr (Or.inr h)
            · exact Or.inl h
        rw [this]
    exact quitLoop_out hi subs hsub hnd hsid rest (done ++ [tid]) c1 c'
      (by rw [hsplit, List.append_assoc]; rfl) hL1' (hline.frame sp.frame) hr

/-- sessions of the link `sid` other than the link itself, sorted by `reply` -/
theorem svcC_sorted_split {subs pre post : List Id} {tid : Id} {n : Nat}
    (hsplit : subs = pre ++ tid :: post) (hnd : subs.Nodup)
    (hsorted : subs.Pairwise fun a b => (decide (a.reply ≤ b.reply)) = true)
    (hall : ∀ x ∈ subs, x.id = n) :
    (∀ x ∈ pre, x.reply < tid.reply) ∧ (∀ x ∈ post, tid.reply < x.reply) := by
  subst hsplit
  have hs := List.pairwise_append.1 hsorted
  have hn := List.nodup_append.1 hnd
  have hne : ∀ x ∈ pre ++ tid :: post, x ≠ tid → x.reply ≠ tid.reply := by
    intro x hx hxt he
    apply hxt
    have h1 := hall x hx
    have h2 := hall tid (List.mem_append_right _ (List.mem_cons_self ..))
    exact svcC_id_ext (h1.trans h2.symm) he
  constructor
  · intro x hx
    have hle : x.reply ≤ tid.reply := by simpa using hs.2.2 x hx tid (List.mem_cons_self ..)
    have := hne x (List.mem_append_left _ hx) (fun he => hn.2.2 x hx tid (List.mem_cons_self ..) he)
    omega
  · intro x hx
    have hp := List.pairwise_cons.1 hs.2.1
    have hle : tid.reply ≤ x.reply := by simpa using hp.1 x hx
    have hnt : x ≠ tid := fun he => (List.nodup_cons.1 hn.2.1).1 (he ▸ hx)
    have := hne x (List.mem_append_right _ (List.mem_cons_of_mem _ hx)) hnt
    omega

/-- **services QUIT**: with a prefix, the QUIT of that pseudo-client goes to exactly the sessions sharing a channel
with it; without, the link and all its pseudo-clients are removed, each pseudo-client's QUIT going to exactly the
sessions that still share a channel with it at that moment -/
theorem cmdServerQuit_spec {c c' : Ctx} {sid : Id} {m : IrcMsg} {s : Session} (hp : Pre c sid) (hn : NI c.st)
    (hs : AMap.get c.st.sessions sid = some s) (hsrv : s.server = true)
    (hr : cmdServerQuit c sid m = .ok c') :
    NewOut (SrvQuitLine c.st sid m) c c' ∧
    (m.pfx = none → ∀ lc id, OnChan c'.st lc id ↔ Lists c.st lc id ∧ id.id ≠ sid.id) ∧
    (∀ p, m.pfx = some p → SameLists c.st c'.st ∨
      ∃ tid t, AMap.get c.st.sessions tid = some t ∧ tid.id = sid.id ∧ tid.reply ≠ 0 ∧
        nickToLower t.nick = nickToLower p.name ∧
        ∀ lc id, OnChan c'.st lc id ↔ Lists c.st lc id ∧ id ≠ tid) := by
  have hi := hp.inv
  have hsid : s.id = sid := (hi.sessId sid s hs).1
  unfold cmdServerQuit at hr
  rw [getS_of_get hs] at hr
  simp only [Res.ok_bind] at hr
  split at hr
  · -- the link itself goes away
    rename_i hpfx
    obtain ⟨c1, hd, hr⟩ := Res.bind_eq_ok.1 hr
    have hlive := hi.noDeleted sid s hs
    have sp := deleteSession_spec hi.toWInv hs (DelPre.of_live hlive) hd
    have h0 : QuitInv c sid c := ⟨Mid.of_pre hp hs hsrv, AllDelPre.of_inv hi⟩
    have hL0 : QuitLoop c sid [] c := by
      refine ⟨h0, hn, fun id _ t ht => ⟨t.invitedTo, ht⟩, fun lc id => ?_⟩
      rw [onChan_iff_lists' hi hn]
      exact ⟨fun h => ⟨h, fun hm => by cases hm⟩, fun h => h.1⟩
    have hL1 : QuitLoop c sid [sid] c1 := hL0.delete hi (fun hm => by cases hm) hs hd
    -- the list of pseudo-clients
    generalize hsubs : ((c1.st.sessions.filter fun e => e.1.id == s.id.id && e.1.reply != 0).map (·.1)).mergeSort
      (fun a b => decide (a.reply ≤ b.reply)) = subs at hr
    have hmemsubs : ∀ x, x ∈ subs ↔ x ∈ AMap.keys c.st.sessions ∧ x.id = sid.id ∧ x.reply ≠ 0 := by
      intro x
      rw [← hsubs, List.mem_mergeSort, ← sp.keys]
      simp only [List.mem_map, List.mem_filter, Bool.and_eq_true, beq_iff_eq, bne_iff_ne, ne_eq, hsid]
      constructor
      · rintro ⟨e, ⟨he, h1, h2⟩, rfl⟩
        exact ⟨AMap.mem_keys_of_mem he, h1, h2⟩
      · rintro ⟨hk, h1, h2⟩
        obtain ⟨e, he, rfl⟩ := List.mem_map.1 hk
        exact ⟨e, ⟨he, h1, h2⟩, rfl⟩
    have hsub : ∀ x ∈ subs, ∃ t, AMap.get c.st.sessions x = some t := fun x hx =>
      AMap.mem_keys_iff_get.1 ((hmemsubs x).1 hx).1
    have hnd : subs.Nodup := by
      rw [← hsubs]
      refine ((List.mergeSort_perm _ _).nodup_iff).2 ?_
      exact AMap.nodup_keys_filter _ sp.winv.sessNodup
    have hsidn : sid ∉ subs := fun hm => ((hmemsubs sid).1 hm).2.2 hp.reply0
    have hsorted : subs.Pairwise fun a b => (decide (a.reply ≤ b.reply)) = true := by
      rw [← hsubs]
      refine List.pairwise_mergeSort ?_ ?_ _
      · intro a b c h1 h2
        simp only [decide_eq_true_eq] at h1 h2 ⊢
        omega
      · intro a b
        simp only [Bool.or_eq_true, decide_eq_true_eq]
        omega
    obtain ⟨ho, D, hLD, hD⟩ := quitLoop_out (m := m) hi subs hsub hnd hsidn subs [] c1 c' rfl hL1
      ((NewOut.refl _ c).frame sp.frame) hr
    refine ⟨?lines, fun _ lc id => ?mem, fun p hp' => (by rw [hpfx] at hp'; cases hp')⟩
    case mem =>
      -- the membership at the end: everything of the link is gone
      rw [hLD.onchan lc id]
      constructor
      · rintro ⟨hl, hnot⟩
        refine ⟨hl, fun he => hnot ((hD id).2 ?_)⟩
        obtain ⟨x, hx, _⟩ := hl
        by_cases h0 : id.reply = 0
        · exact Or.inl (svcC_id_ext he (h0.trans hp.reply0.symm))
        · exact Or.inr ((hmemsubs id).2 ⟨AMap.mem_keys_of_get hx, he, h0⟩)
      · rintro ⟨hl, hne⟩
        refine ⟨hl, fun hm => hne ?_⟩
        rcases (hD id).1 hm with he | he
        · rw [he]
        · exact ((hmemsubs id).1 he).2.1
    refine ho.mono fun o ⟨tid, t, pre, post, hsplit, ht, hd, hrc⟩ => ?_
    have hmt : tid ∈ subs := by rw [hsplit]; exact List.mem_append_right _ (List.mem_cons_self ..)
    obtain ⟨_, hl1, hl2⟩ := (hmemsubs tid).1 hmt
    obtain ⟨hpre, hpost⟩ := svcC_sorted_split hsplit hnd hsorted (fun x hx => ((hmemsubs x).1 hx).2.1)
    refine .all tid t hpfx ht ⟨hl1, hl2⟩ hd (hrc.congr fun id => ?_)
    constructor
    · rintro ⟨hnot, lc, hl, hlists⟩
      refine ⟨fun ⟨he1, he2⟩ => hnot ?_, lc, hl, hlists⟩
      -- a stored session of the link with a smaller reply number is the link or an earlier pseudo-client
      obtain ⟨x, hx, _⟩ := hlists
      by_cases h0 : id.reply = 0
      · have : id = sid := svcC_id_ext he1 (h0.trans hp.reply0.symm)
        rw [this]; exact List.mem_cons_self ..
      · have hmid : id ∈ subs := (hmemsubs id).2 ⟨AMap.mem_keys_of_get hx, he1, h0⟩
        rw [hsplit] at hmid
        rcases List.mem_append.1 hmid with hm | hm
        · exact List.mem_cons_of_mem _ hm
        · rcases List.mem_cons.1 hm with hm | hm
          · rw [hm] at he2; omega
          · have := hpost id hm; omega
    · rintro ⟨hnot, lc, hl, hlists⟩
      refine ⟨fun hm => hnot ?_, lc, hl, hlists⟩
      rcases List.mem_cons.1 hm with he | he
      · rw [he]
        exact ⟨rfl, by rw [hp.reply0]; omega⟩
      · exact ⟨((hmemsubs id).1 (by rw [hsplit]; exact List.mem_append_left _ he)).2.1, hpre id he⟩
  · -- one pseudo-client
    rename_i p hpfx
    split at hr
    · cases hr
      exact ⟨NewOut.refl _ c, fun h => (by rw [hpfx] at h; cases h), fun _ _ => Or.inl (.refl _)⟩
    · rename_i e hfind
      obtain ⟨rc, hrc, hr⟩ := Res.bind_eq_ok.1 hr
      have hmem : (e.1, e.2) ∈ c.st.sessions := List.mem_of_find?_eq_some hfind
      have hget := AMap.get_of_mem_nodup hi.sessNodup hmem
      have hprop := List.find?_some hfind
      simp only [Bool.and_eq_true, beq_iff_eq, bne_iff_ne, ne_eq, hsid] at hprop
      have hlive := hi.noDeleted _ _ hget
      have sp := deleteSession_spec (c := emit c _ _) hi.toWInv hget (DelPre.of_live hlive) hr
      refine ⟨((NewOut.refl _ c).emit fun i k => ?_).frame sp.frame, fun h => (by rw [hpfx] at h; cases h),
        fun p' hp' => Or.inr ⟨e.1, e.2, hget, hprop.1.1, hprop.1.2, ?_, fun lc id => ?_⟩⟩
      · exact .one p e.1 e.2 hpfx hget ⟨hprop.1.1, hprop.1.2⟩ hprop.2 rfl
          (RcptIs.of_list (rcCommonChannels_lists hi hn hrc))
      · rw [hpfx] at hp'; cases hp'; exact hprop.2
      · rw [sp.onChan_step (c := emit c _ _) hi.toWInvCore hn hget hlive]
        have e1 : OnChan (emit c ⟨some e.2.ircPrefix, "QUIT", [m.trailing]⟩ rc).st lc id ↔ Lists c.st lc id :=
          onChan_iff_lists' hi hn
        rw [e1]

/-- **services QUIT**, the lines -/
theorem cmdServerQuit_out {c c' : Ctx} {sid : Id} {m : IrcMsg} {s : Session} (hp : Pre c sid) (hn : NI c.st)
    (hs : AMap.get c.st.sessions sid = some s) (hsrv : s.server = true)
    (hr : cmdServerQuit c sid m = .ok c') : NewOut (SrvQuitLine c.st sid m) c c' :=
  (cmdServerQuit_spec hp hn hs hsrv hr).1

end Robust.Irc
