import Robust.Irc.Proofs.NInv
import Robust.Irc.Proofs.H1
import Robust.Irc.Proofs.H2
/-!
`NI` (the working form of `NInv`) is preserved by the client handlers.

* the read-only / inert handlers (group H2): from `Emits` / `Inert`;
* the state-changing handlers (group H1): by walking through the handler once more; only JOIN needs
  the other invariants (the joining session has a nickname).

Also: the `SubOK` facts about MODE/TOPIC/NAMES that `cmdJoin`'s proofs take as hypotheses.
-/
namespace Robust.Irc
open Robust AMap

/-! ### group H2 -/

theorem NI.of_emits {c c' : Ctx} (h : NI c.st) (he : Emits c c') : NI c'.st := by rw [he.st]; exact h
theorem NI.of_inert {c c' : Ctx} (h : NI c.st) (he : Inert c c') : NI c'.st := h.sim he.sim

/-- a handler keeps `NI` (for callers that satisfy `Pre`) -/
def NPres (h : Ctx → Id → IrcMsg → Res Ctx) : Prop :=
  ∀ c sid m c', Pre c sid → NI c.st → h c sid m = .ok c' → NI c'.st

theorem NPres.of_emits {h : Ctx → Id → IrcMsg → Res Ctx}
    (hi : ∀ c sid m c', h c sid m = Res.ok c' → Emits c c') : NPres h :=
  fun c sid m c' _ hn hr => hn.of_emits (hi c sid m c' hr)

theorem NPres.of_inert {h : Ctx → Id → IrcMsg → Res Ctx}
    (hi : ∀ c sid m c', WInvCore c.st → h c sid m = Res.ok c' → Inert c c') : NPres h :=
  fun c sid m c' hp hn hr => hn.of_inert (hi c sid m c' hp.inv.toWInvCore hr)

theorem cmdPing_npres : NPres cmdPing := .of_emits fun _ _ _ _ => cmdPing_emits
theorem cmdAway_npres : NPres cmdAway := .of_inert fun _ _ _ _ => cmdAway_inert
theorem cmdIson_npres : NPres cmdIson := .of_emits fun _ _ _ _ => cmdIson_emits
theorem cmdUserhost_npres : NPres cmdUserhost := .of_emits fun _ _ _ _ => cmdUserhost_emits
theorem cmdList_npres : NPres cmdList := .of_emits fun _ _ _ _ => cmdList_emits
theorem cmdKnock_npres : NPres cmdKnock := .of_emits fun _ _ _ _ => cmdKnock_emits
theorem cmdNames_npres : NPres cmdNames := .of_emits fun _ _ _ _ => cmdNames_emits
theorem cmdWho_npres : NPres cmdWho := .of_emits fun _ _ _ _ => cmdWho_emits
theorem cmdWhois_npres : NPres cmdWhois := .of_emits fun _ _ _ _ => cmdWhois_emits
theorem cmdPrivmsg_npres : NPres cmdPrivmsg := .of_emits fun _ _ _ _ => cmdPrivmsg_emits
theorem cmdServiceAlias_npres : NPres cmdServiceAlias := .of_emits fun _ _ _ _ => cmdServiceAlias_emits
theorem cmdInvite_npres : NPres cmdInvite := .of_inert fun _ _ _ _ => cmdInvite_inert
theorem cmdTopic_npres : NPres cmdTopic := .of_inert fun _ _ _ _ => cmdTopic_inert
theorem cmdMode_npres : NPres cmdMode := .of_inert fun _ _ _ _ => cmdMode_inert

/-! ### what `cmdJoin` needs from MODE / TOPIC / NAMES -/

theorem PreservesPre.of_inert {h : Ctx → Id → IrcMsg → Res Ctx}
    (hi : ∀ c sid m c', WInvCore c.st → h c sid m = Res.ok c' → Inert c c') : PreservesPre h := by
  intro c sid m c' hp hr
  have he := hi c sid m c' hp.inv.toWInvCore hr
  have po := he.post hp
  exact ⟨⟨he.inv hp.inv, po.linv, po.actorKept, hp.reply0⟩, po.outStep⟩

theorem KeepsActor.of_inert {h : Ctx → Id → IrcMsg → Res Ctx}
    (hi : ∀ c sid m c', WInvCore c.st → h c sid m = Res.ok c' → Inert c c') : KeepsActor h := by
  intro c sid m c' s hp hs hr
  have he := hi c sid m c' hp.inv.toWInvCore hr
  obtain ⟨s', hs', _⟩ := he.sim.getS hs
  obtain ⟨s0, hs0, e1, _, e2⟩ := he.logged sid s' hs'
  rw [hs] at hs0; cases hs0
  exact ⟨s', hs', e1, e2⟩

theorem subOK_mode : SubOK cmdMode :=
  ⟨.of_inert fun _ _ _ _ => cmdMode_inert, .of_inert fun _ _ _ _ => cmdMode_inert⟩
theorem subOK_topic : SubOK cmdTopic :=
  ⟨.of_inert fun _ _ _ _ => cmdTopic_inert, .of_inert fun _ _ _ _ => cmdTopic_inert⟩
theorem subOK_names : SubOK cmdNames :=
  ⟨.of_inert fun _ _ _ _ hw hr => Inert.of_emits hw (cmdNames_emits hr),
   .of_inert fun _ _ _ _ hw hr => Inert.of_emits hw (cmdNames_emits hr)⟩

/-- JOIN, finally without side conditions on the sub-handlers -/
theorem cmdJoin_preservesL_final : PreservesL cmdJoin := cmdJoin_preservesL' subOK_mode subOK_topic subOK_names

theorem cmdJoin_safe_final : ClientSafe cmdJoin 1 true :=
  cmdJoin_safe subOK_mode subOK_topic subOK_names cmdMode_safe cmdTopic_safe cmdNames_safe

/-! ### group H1 -/

theorem cmdMotd_ni {c c' : Ctx} {sid : Id} {m : IrcMsg} (h : NI c.st) (hr : cmdMotd c sid m = .ok c') : NI c'.st := by
  unfold cmdMotd at hr
  obtain ⟨s, _, hr⟩ := Res.bind_eq_ok.1 hr
  cases hr; exact h

theorem cmdOper_ni {c c' : Ctx} {sid : Id} {m : IrcMsg} (h : NI c.st) (hr : cmdOper c sid m = .ok c') : NI c'.st := by
  unfold cmdOper at hr
  obtain ⟨s, hs, hr⟩ := Res.bind_eq_ok.1 hr
  obtain ⟨p0, hp0, hr⟩ := Res.bind_eq_ok.1 hr
  obtain ⟨p1, hp1, hr⟩ := Res.bind_eq_ok.1 hr
  split at hr
  · cases hr; exact h
  · obtain ⟨c1, h1, hr⟩ := Res.bind_eq_ok.1 hr
    obtain ⟨s1, hs1, hr⟩ := Res.bind_eq_ok.1 hr
    have n1 : NI c1.st := h.modS_keep h1 (fun _ => ⟨rfl, rfl⟩)
    cases hr
    exact n1

theorem loginOper_ni {c c' : Ctx} {sid : Id} {s : Session} (h : NI c.st) (hr : loginOper c sid s = .ok c') :
    NI c'.st := by
  unfold loginOper at hr
  dsimp only at hr
  split at hr
  · split at hr
    · cases hr
    · split at hr
      · exact cmdOper_ni h hr
      · cases hr; exact h
  · cases hr; exact h

theorem maybeLogin_ni {c c' : Ctx} {sid : Id} {m : IrcMsg} (h : NI c.st) (hr : maybeLogin c sid m = .ok c') :
    NI c'.st := by
  rw [maybeLogin_eq] at hr
  obtain ⟨s, hs, hr⟩ := Res.bind_eq_ok.1 hr
  split at hr
  · cases hr; exact h
  · split at hr
    · cases hr; exact h
    · split at hr
      · cases hr
      · obtain ⟨c1, h1, hr⟩ := Res.bind_eq_ok.1 hr
        obtain ⟨c2, h2, hr⟩ := Res.bind_eq_ok.1 hr
        obtain ⟨c3, h3, hr⟩ := Res.bind_eq_ok.1 hr
        have n1 : NI c1.st := h.modS_keep h1 (fun _ => ⟨rfl, rfl⟩)
        have n2 : NI c2.st := loginOper_ni (by rw [loginBanner_st]; exact n1) h2
        have n3 : NI c3.st := n2.modS_keep h3 (fun _ => ⟨rfl, rfl⟩)
        exact cmdMotd_ni n3 hr

theorem cmdUser_ni {c c' : Ctx} {sid : Id} {m : IrcMsg} (h : NI c.st) (hr : cmdUser c sid m = .ok c') : NI c'.st := by
  unfold cmdUser at hr
  obtain ⟨u, hu, hr⟩ := Res.bind_eq_ok.1 hr
  obtain ⟨c1, h1, hr⟩ := Res.bind_eq_ok.1 hr
  exact maybeLogin_ni (h.modS_keep h1 (fun _ => ⟨rfl, rfl⟩)) hr

theorem cmdPass_ni {c c' : Ctx} {sid : Id} {m : IrcMsg} (h : NI c.st) (hr : cmdPass c sid m = .ok c') : NI c'.st := by
  unfold cmdPass at hr
  obtain ⟨c1, h1, hr⟩ := Res.bind_eq_ok.1 hr
  exact maybeLogin_ni (h.modS_keep h1 (fun _ => ⟨rfl, rfl⟩)) hr

theorem cmdQuit_ni {c c' : Ctx} {sid : Id} {m : IrcMsg} (h : NI c.st) (hr : cmdQuit c sid m = .ok c') : NI c'.st := by
  unfold cmdQuit at hr
  obtain ⟨c1, h1, hr⟩ := Res.bind_eq_ok.1 hr
  have n1 := h.deleteSession h1
  obtain ⟨s1, hs1, hr⟩ := Res.bind_eq_ok.1 hr
  split at hr
  · obtain ⟨rc, hrc, hr⟩ := Res.bind_eq_ok.1 hr
    cases hr; exact n1
  · cases hr; exact n1

theorem partOne_ni {c c' : Ctx} {sid : Id} {chn : String} (h : NI c.st) (hr : partOne c sid chn = .ok c') :
    NI c'.st := by
  unfold partOne at hr
  obtain ⟨s0, hs0, hr⟩ := Res.bind_eq_ok.1 hr
  simp only [getChan_eq] at hr
  split at hr
  · cases hr; exact h
  · split at hr
    · cases hr; exact h
    · obtain ⟨rc, hrc, hr⟩ := Res.bind_eq_ok.1 hr
      exact NI.leaveChannel (c := emit _ _ _) h hr

theorem foldlM_ni {α : Type} {f : Ctx → α → Res Ctx} (hf : ∀ c a c', NI c.st → f c a = .ok c' → NI c'.st) :
    ∀ (l : List α) {c c' : Ctx}, NI c.st → l.foldlM f c = .ok c' → NI c'.st
  | [], c, c', h, hr => by cases hr; exact h
  | a :: l, c, c', h, hr => by
    rw [List.foldlM_cons] at hr
    obtain ⟨c1, h1, hr⟩ := Res.bind_eq_ok.1 hr
    exact foldlM_ni hf l (hf c a c1 h h1) hr

theorem cmdPart_ni {c c' : Ctx} {sid : Id} {m : IrcMsg} (h : NI c.st) (hr : cmdPart c sid m = .ok c') : NI c'.st := by
  unfold cmdPart at hr
  obtain ⟨p0, _, hr⟩ := Res.bind_eq_ok.1 hr
  exact foldlM_ni (fun _ _ _ h hr => partOne_ni h hr) _ h hr

theorem cmdKick_ni {c c' : Ctx} {sid : Id} {m : IrcMsg} (h : NI c.st) (hr : cmdKick c sid m = .ok c') : NI c'.st := by
  unfold cmdKick at hr
  obtain ⟨s, hs, hr⟩ := Res.bind_eq_ok.1 hr
  obtain ⟨chn, _, hr⟩ := Res.bind_eq_ok.1 hr
  obtain ⟨target, _, hr⟩ := Res.bind_eq_ok.1 hr
  simp only [getChan_eq] at hr
  split at hr
  · cases hr; exact h
  · split at hr
    · cases hr; exact h
    · split at hr
      · cases hr; exact h
      · split at hr
        · cases hr; exact h
        · split at hr
          · obtain ⟨rc, hrc, hr⟩ := Res.bind_eq_ok.1 hr
            exact NI.leaveChannel (c := emit _ _ _) h hr
          · cases hr

theorem cmdKill_ni {c c' : Ctx} {sid : Id} {m : IrcMsg} (h : NI c.st) (hr : cmdKill c sid m = .ok c') : NI c'.st := by
  unfold cmdKill at hr
  obtain ⟨s, hs, hr⟩ := Res.bind_eq_ok.1 hr
  split at hr
  · cases hr; exact h
  · obtain ⟨p0, _, hr⟩ := Res.bind_eq_ok.1 hr
    split at hr
    · cases hr; exact h
    · obtain ⟨c1, h1, hr⟩ := Res.bind_eq_ok.1 hr
      have n1 := h.deleteSession h1
      obtain ⟨t1, _, hr⟩ := Res.bind_eq_ok.1 hr
      obtain ⟨s2, _, hr⟩ := Res.bind_eq_ok.1 hr
      obtain ⟨rc, _, hr⟩ := Res.bind_eq_ok.1 hr
      cases hr
      exact n1

theorem cmdGline_ni {c c' : Ctx} {sid : Id} {m : IrcMsg} (h : NI c.st) (hr : cmdGline c sid m = .ok c') : NI c'.st := by
  unfold cmdGline at hr
  obtain ⟨s, hs, hr⟩ := Res.bind_eq_ok.1 hr
  split at hr
  · cases hr; exact h
  · obtain ⟨p0, _, hr⟩ := Res.bind_eq_ok.1 hr
    split at hr
    · cases hr; exact h
    · obtain ⟨t, _, hr⟩ := Res.bind_eq_ok.1 hr
      split at hr
      · cases hr; exact h
      · dsimp only at hr
        refine cmdKill_ni ?_ hr
        exact h.congr rfl rfl rfl

theorem cmdNickTail_ni {c c' : Ctx} {sid : Id} {m : IrcMsg} {s : Session} {nick : String} {held : Option SvsHold}
    (h : NI c.st) (hvalid : isValidNickname nick = true) (hr : cmdNickTail c sid m s nick held = .ok c') :
    NI c'.st := by
  have hnick : nick ≠ "" := isValidNickname_ne_empty hvalid
  unfold cmdNickTail at hr
  dsimp only at hr
  obtain ⟨hs0, hn0, hc0⟩ := holdCtx_facts c (nickToLower nick) held
  have n0 : NI (holdCtx c (nickToLower nick) held).st := h.congr hs0 hn0 hc0
  generalize holdCtx c (nickToLower nick) held = c0 at hr n0
  split at hr
  · cases hr; exact n0
  generalize (nickToLower s.nick != "" &&
      !(s.loggedIn && nickToLower nick == nickToLower (if s.loggedIn = true then s.nick else "*"))) = b at hr
  obtain ⟨c1, hm1, hr⟩ := Res.bind_eq_ok.1 hr
  obtain ⟨c2, hm2, hr⟩ := Res.bind_eq_ok.1 hr
  have n1 : NI c1.st := n0.modS_nick hm1 (fun _ => hvalid)
  have hlc : nickToLower nick ≠ "" := fun he => hnick (nickToLower_eq_empty.1 he)
  have nr := n1.renameCtx sid (nickToLower s.nick) b hlc
  have n2 : NI c2.st := nr.modS_keep hm2 (fun _ => ⟨rfl, rfl⟩)
  split at hr
  · obtain ⟨s2, _, hr⟩ := Res.bind_eq_ok.1 hr
    obtain ⟨rc, _, hr⟩ := Res.bind_eq_ok.1 hr
    cases hr
    exact n2
  · exact maybeLogin_ni n2 hr

theorem cmdNick_ni {c c' : Ctx} {sid : Id} {m : IrcMsg} (h : NI c.st) (hr : cmdNick c sid m = .ok c') : NI c'.st := by
  rw [cmdNick_eq] at hr
  obtain ⟨s, hs, hr⟩ := Res.bind_eq_ok.1 hr
  dsimp only at hr
  generalize m.params.head?.getD "" = nick at hr
  split at hr
  · cases hr; exact h
  generalize (if s.loggedIn = true then s.nick else "*") = dest at hr
  split at hr
  · cases hr; exact h
  rename_i hvalid
  split at hr
  · cases hr; exact h
  have hvalid' : isValidNickname nick = true := by simpa using hvalid
  split at hr
  · split at hr
    · cases hr; exact h
    · exact cmdNickTail_ni h hvalid' hr
  · exact cmdNickTail_ni h hvalid' hr

/-! #### JOIN -/

theorem joinAdmit_ni {c c1 : Ctx} {sid : Id} {s : Session} {chn key : String} {mm : Option (Option IrcMsg)}
    (h : NI c.st) (hvalid : isValidChannel chn = true) (hr : joinAdmit c sid s chn key = .ok (c1, mm)) :
    NI c1.st := by
  unfold joinAdmit at hr
  dsimp only at hr
  obtain ⟨r, h1, hr⟩ := Res.bind_eq_ok.1 hr
  have hr1 : NI r.1.st := by
    simp only [getChan_eq] at h1
    split at h1
    · split at h1
      · cases h1; exact h
      · cases h1; exact h.putChan _ hvalid
    · split at h1
      · cases h1; exact h
      · split at h1
        · cases h1
        · obtain ⟨isB, _, h1⟩ := Res.bind_eq_ok.1 h1
          split at h1
          · cases h1; exact h
          · split at h1 <;> (cases h1; exact h)
  split at hr <;> (cases hr; exact hr1)

theorem joinAnnounce_ni {c c' : Ctx} {sid : Id} {s : Session} {chn : String} {ch : Channel} {ex : Bool}
    {mm : Option IrcMsg} (hp : Pre c sid) (_hs : AMap.get c.st.sessions sid = some s) (h : NI c.st)
    (hr : joinAnnounce c sid chn ch ex mm = .ok c') : NI c'.st := by
  unfold joinAnnounce at hr
  obtain ⟨s1, hs1, hr⟩ := Res.bind_eq_ok.1 hr
  obtain ⟨rc, hrc, hr⟩ := Res.bind_eq_ok.1 hr
  dsimp only at hr
  obtain ⟨c1, h1, hr⟩ := Res.bind_eq_ok.1 hr
  obtain ⟨e1, _⟩ := joinModes_spec h1
  obtain ⟨c2, h2, hr⟩ := Res.bind_eq_ok.1 hr
  obtain ⟨c3, h3, hr⟩ := Res.bind_eq_ok.1 hr
  have e1' : c1.st = c.st := e1
  have hp1 : Pre (emit c1 (srv c1 "SJOIN" ["1", chn, (if (!ex) = true then "@" else "") ++ s1.nick])
      (rcServices c1.st)) sid := hp.congr_st e1
  have n1 : NI (emit c1 (srv c1 "SJOIN" ["1", chn, (if (!ex) = true then "@" else "") ++ s1.nick])
      (rcServices c1.st)).st := by rw [emit_st, e1']; exact h
  generalize emit c1 (srv c1 "SJOIN" ["1", chn, (if (!ex) = true then "@" else "") ++ s1.nick])
      (rcServices c1.st) = c1' at h2 hp1 n1
  obtain ⟨hp2, _⟩ := subOK_mode.pre _ _ _ _ hp1 h2
  have n2 := cmdMode_npres _ _ _ _ hp1 n1 h2
  obtain ⟨hp3, _⟩ := subOK_topic.pre _ _ _ _ hp2 h3
  have n3 := cmdTopic_npres _ _ _ _ hp2 n2 h3
  exact cmdNames_npres _ _ _ _ hp3 n3 hr

theorem joinTail_ni {c c' : Ctx} {sid : Id} {s : Session} {chn : String} {ex : Bool} {mm : Option IrcMsg}
    (hj : JPre c sid (chanToLower chn)) (hs : AMap.get c.st.sessions sid = some s) (hl : s.loggedIn = true)
    (h : NI c.st) (hr : joinTail c sid s chn ex mm = .ok c') : NI c'.st := by
  unfold joinTail at hr
  dsimp only at hr
  simp only [getChan_eq] at hr
  split at hr
  · rename_i ch hch
    obtain ⟨c2, h2, hr⟩ := Res.bind_eq_ok.1 hr
    obtain ⟨hj2, _, hch2, s2, hs2, hl2, _, hn2⟩ := joinInvite_spec hj hs h2
    have n2 : NI c2.st := by
      split at h2
      · exact h.modS_keep h2 (fun _ => ⟨rfl, rfl⟩)
      · cases h2; exact h
    rw [← hch2] at hch
    split at hr
    · cases hr; exact n2
    · obtain ⟨c3, h3, hr⟩ := Res.bind_eq_ok.1 hr
      have hnick : s2.nick ≠ "" := by rw [hn2]; exact hj.linv sid s hs hl
      have n3 : NI c3.st := NI.modS_named (c := putChan c2 _ _)
        (n2.putChan_same _ (ch := { ch with nicks := AMap.set ch.nicks (nickToLower s.nick) { chanop := !ex } }) hch rfl)
        h3 hs2 hnick (fun _ => rfl)
      rw [← hn2] at h3
      obtain ⟨hp3, _, ⟨s3, hs3, _, _⟩, _⟩ := joinAdd_spec hj2 hs2 (by rw [hl2]; exact hl) hch h3
      exact joinAnnounce_ni hp3 hs3 n3 hr
  · cases hr

theorem joinOne_ni {c c' : Ctx} {sid : Id} {s : Session} {chn key : String}
    (hp : Pre c sid) (hs : AMap.get c.st.sessions sid = some s) (hl : s.loggedIn = true) (h : NI c.st)
    (hr : joinOne c sid chn key = .ok c') : NI c'.st := by
  rw [joinOne_eq] at hr
  obtain ⟨s0, hs0, hr⟩ := Res.bind_eq_ok.1 hr
  rw [getS_eq_ok, hs] at hs0
  cases hs0
  split at hr
  · cases hr; exact h
  · rename_i hvc
    obtain ⟨r, hadm, hr⟩ := Res.bind_eq_ok.1 hr
    obtain ⟨c1, mm⟩ := r
    have n1 := joinAdmit_ni h (by simpa using hvc) hadm
    obtain ⟨_, hsess, hcase⟩ := joinAdmit_spec hp hadm
    have hs1 : AMap.get c1.st.sessions sid = some s := by rw [hsess]; exact hs
    rcases hcase with ⟨rfl, e⟩ | ⟨m, rfl, hj, _⟩
    · cases hr; exact n1
    · dsimp only at hr
      exact joinTail_ni hj hs1 hl n1 hr

theorem joinLoop_ni {keys chans : List String} {idx : Nat} {c c' : Ctx} {sid : Id} {s : Session}
    (hp : Pre c sid) (hs : AMap.get c.st.sessions sid = some s) (hl : s.loggedIn = true) (h : NI c.st)
    (hr : joinLoop c sid keys chans idx = .ok c') : NI c'.st := by
  induction chans generalizing c idx s with
  | nil => cases hr; exact h
  | cons ch rest ih =>
    unfold joinLoop at hr
    obtain ⟨c1, h1, hr⟩ := Res.bind_eq_ok.1 hr
    obtain ⟨hp1, _, s1, hs1, hl1, _⟩ := joinOne_pre subOK_mode subOK_topic subOK_names hp hs hl h1
    exact ih hp1 hs1 hl1 (joinOne_ni hp hs hl h h1) hr

theorem cmdJoin_ni {c c' : Ctx} {sid : Id} {m : IrcMsg} {s : Session} (hp : Pre c sid)
    (hs : AMap.get c.st.sessions sid = some s) (hl : s.loggedIn = true) (h : NI c.st)
    (hr : cmdJoin c sid m = .ok c') : NI c'.st := by
  unfold cmdJoin at hr
  obtain ⟨p0, _, hr⟩ := Res.bind_eq_ok.1 hr
  exact joinLoop_ni hp hs hl h hr

end Robust.Irc
