import Robust.Irc.Proofs.Priv
import Robust.Irc.Proofs.H1d
import Robust.Irc.Proofs.H2b
/-!
JOIN of an existing channel (property C13): the admission condition `joinAllowed`, the refusal
frame (`joinOne_refused`: condition false ⇒ nothing happens but a numeric to the actor), its
contrapositive (`joinOne_member_only_if`) and the one-shot invitation (`joinOne_admitted`).

In the model the captcha path (`+x` without an invitation) is `.declined`: the theorems are
conditional on `.ok`, so for `+x` channels they say "an invitation is required".
-/
namespace Robust.Irc
open Robust AMap

/-- the admission condition of `joinOne` for an existing channel `ch` (stored under `lc`):
invitation on `+i`, invitation on `+x` (the captcha alternative is outside the model), no ban
matches `nick!user@host` or `nick!user@remoteAddr`, exact key on `+k` -/
def joinAllowed (s : Session) (ch : Channel) (lc key : String) : Bool :=
  (!ch.modes.contains 'i' || s.invitedTo.contains lc) &&
  (!ch.modes.contains 'x' || s.invitedTo.contains lc) &&
  (match isBanned ch.bans s.ircPrefix.str (s.nick ++ "!" ++ s.username ++ "@" ++ s.remoteAddr) with
    | .ok b => !b
    | _ => false) &&
  (!ch.modes.contains 'k' || ch.key == key)

theorem joinAdmit_existing {c c1 : Ctx} {sid : Id} {s : Session} {chn key : String} {ch : Channel}
    {mm : Option (Option IrcMsg)}
    (hch : AMap.get c.st.channels (chanToLower chn) = some ch)
    (hr : joinAdmit c sid s chn key = .ok (c1, mm)) :
    (joinAllowed s ch (chanToLower chn) key = false ∧ mm = none ∧ Refused c c1 sid) ∨
    (joinAllowed s ch (chanToLower chn) key = true ∧ mm = some none ∧ c1 = c) := by
  unfold joinAdmit at hr
  dsimp only at hr
  obtain ⟨r, h1, hr⟩ := Res.bind_eq_ok.1 hr
  simp only [getChan_eq, hch] at h1
  unfold joinAllowed
  split at h1
  · rename_i hi
    cases h1
    simp only [↓reduceIte, Res.ok.injEq, Prod.mk.injEq] at hr
    obtain ⟨rfl, rfl⟩ := hr
    simp only [Bool.and_eq_true, Bool.not_eq_true'] at hi
    refine Or.inl ⟨?_, rfl, by refused_tac⟩
    rw [hi.1, hi.2]
    rfl
  · rename_i hi
    split at h1
    · cases h1
    · rename_i hx
      obtain ⟨isB, hb, h1⟩ := Res.bind_eq_ok.1 h1
      have hi' : (!ch.modes.contains 'i' || s.invitedTo.contains (chanToLower chn)) = true := by
        cases h1' : ch.modes.contains 'i' <;> cases h2' : s.invitedTo.contains (chanToLower chn) <;> simp_all
      have hx' : (!ch.modes.contains 'x' || s.invitedTo.contains (chanToLower chn)) = true := by
        cases h1' : ch.modes.contains 'x' <;> cases h2' : s.invitedTo.contains (chanToLower chn) <;> simp_all
      rw [hi', hx', hb]
      split at h1
      · rename_i hB
        cases h1
        simp only [↓reduceIte, Res.ok.injEq, Prod.mk.injEq] at hr
        obtain ⟨rfl, rfl⟩ := hr
        refine Or.inl ⟨?_, rfl, by refused_tac⟩
        rw [hB]
        rfl
      · rename_i hB
        have hB' : isB = false := by cases isB <;> simp_all
        split at h1
        · rename_i hk
          cases h1
          simp only [↓reduceIte, Res.ok.injEq, Prod.mk.injEq] at hr
          obtain ⟨rfl, rfl⟩ := hr
          refine Or.inl ⟨?_, rfl, by refused_tac⟩
          simp only [Bool.and_eq_true, bne_iff_ne, ne_eq] at hk
          rw [hB', hk.1, beq_eq_false_iff_ne.2 hk.2]
          rfl
        · rename_i hk
          cases h1
          simp only [Bool.false_eq_true, ↓reduceIte, Res.ok.injEq, Prod.mk.injEq] at hr
          obtain ⟨rfl, rfl⟩ := hr
          refine Or.inr ⟨?_, rfl, rfl⟩
          subst hB'
          cases h1' : ch.modes.contains 'k'
          · rfl
          · simp only [h1', Bool.true_and, bne_iff_ne, ne_eq, Decidable.not_not] at hk
            rw [beq_iff_eq.2 hk]
            rfl

/-- refusal frame of JOIN for one existing channel -/
theorem joinOne_refused {c c' : Ctx} {sid : Id} {s : Session} {chn key : String} {ch : Channel}
    (hs : AMap.get c.st.sessions sid = some s)
    (hch : AMap.get c.st.channels (chanToLower chn) = some ch)
    (hno : joinAllowed s ch (chanToLower chn) key = false)
    (hr : joinOne c sid chn key = .ok c') : Refused c c' sid := by
  rw [joinOne_eq, getS_of_get hs] at hr
  simp only [Res.ok_bind] at hr
  split at hr
  · cases hr; refused_tac
  · obtain ⟨⟨c1, mm⟩, h1, hr⟩ := Res.bind_eq_ok.1 hr
    rcases joinAdmit_existing hch h1 with ⟨_, rfl, hR⟩ | ⟨h, _, _⟩
    · cases hr; exact hR
    · rw [hno] at h; cases h

/-- a session that was not a member of the existing channel and is one after `joinOne` satisfied
the admission condition -/
theorem joinOne_member_only_if {c c' : Ctx} {sid : Id} {s : Session} {chn key : String} {ch : Channel}
    (hs : AMap.get c.st.sessions sid = some s)
    (hch : AMap.get c.st.channels (chanToLower chn) = some ch)
    (hbefore : memberOf c.st s.nick (chanToLower chn) = none)
    (hafter : memberOf c'.st s.nick (chanToLower chn) ≠ none)
    (hr : joinOne c sid chn key = .ok c') : joinAllowed s ch (chanToLower chn) key = true := by
  cases h : joinAllowed s ch (chanToLower chn) key with
  | true => rfl
  | false =>
    have := (joinOne_refused hs hch h hr).st
    rw [this] at hafter
    exact absurd hbefore hafter

/-! ### the one-shot invitation -/

/-- MODE with at most one parameter is a query -/
theorem cmdMode_query1_emits {c c' : Ctx} {sid : Id} {m : IrcMsg} (hn : m.params.length ≤ 1)
    (hr : cmdMode c sid m = .ok c') : Emits c c' := by
  have hm : normalizeModes m = [] := by
    unfold normalizeModes
    rw [if_pos hn]
  unfold cmdMode at hr
  simp only [hm, List.length_nil, beq_self_eq_true, ↓reduceIte] at hr
  emits_auto hr

/-- TOPIC with exactly one parameter is a query -/
theorem cmdTopic_query1_emits {c c' : Ctx} {sid : Id} {m : IrcMsg} (hn : m.params.length = 1)
    (hr : cmdTopic c sid m = .ok c') : Emits c c' := by
  have h2 : (m.trailing == "" && m.params.length == 2) = false := by rw [hn]; simp
  have h1 : (m.params.length == 1) = true := by rw [hn]; rfl
  unfold cmdTopic at hr
  simp only [h2, h1, Bool.false_eq_true, ↓reduceIte] at hr
  emits_auto hr

theorem joinAnnounce_emits {c c' : Ctx} {sid : Id} {chn : String} {ch : Channel} {ex : Bool} {mm : Option IrcMsg}
    (hr : joinAnnounce c sid chn ch ex mm = .ok c') : Emits c c' := by
  unfold joinAnnounce at hr
  obtain ⟨s, _, hr⟩ := Res.bind_eq_ok.1 hr
  obtain ⟨rc, _, hr⟩ := Res.bind_eq_ok.1 hr
  obtain ⟨c1, h1, hr⟩ := Res.bind_eq_ok.1 hr
  obtain ⟨c2, h2, hr⟩ := Res.bind_eq_ok.1 hr
  obtain ⟨c3, h3, hr⟩ := Res.bind_eq_ok.1 hr
  have e1 : Emits c c1 := by
    split at h1
    · obtain ⟨rc', _, h1⟩ := Res.bind_eq_ok.1 h1
      cases h1; emits_tac
    · cases h1; emits_tac
  have e2 := cmdMode_query1_emits (by simp) h2
  have e3 := cmdTopic_query1_emits (by simp) h3
  have e4 := cmdNames_emits hr
  exact (((e1.emit _ _).trans e2).trans e3).trans e4

/-- JOIN of an existing channel that is admitted: the invitation for that channel is consumed on
`+i`/`+x` channels (whether or not the session already was a member); nothing else of the session
changes except that the channel is added to its channel list -/
theorem joinOne_admitted {c c' : Ctx} {sid : Id} {s : Session} {chn key : String} {ch : Channel}
    (hs : AMap.get c.st.sessions sid = some s) (hid : s.id = sid)
    (hv : isValidChannel chn = true)
    (hch : AMap.get c.st.channels (chanToLower chn) = some ch)
    (hyes : joinAllowed s ch (chanToLower chn) key = true)
    (hr : joinOne c sid chn key = .ok c') :
    ∃ s', AMap.get c'.st.sessions sid = some s' ∧
      s'.invitedTo = (if ch.modes.contains 'i' || ch.modes.contains 'x'
        then s.invitedTo.filter (· ≠ chanToLower chn) else s.invitedTo) ∧
      s'.operator = s.operator ∧ s'.server = s.server := by
  rw [joinOne_eq, getS_of_get hs] at hr
  simp only [Res.ok_bind, hv, Bool.not_true, Bool.false_eq_true, ↓reduceIte] at hr
  obtain ⟨⟨c1, mm⟩, h1, hr⟩ := Res.bind_eq_ok.1 hr
  rcases joinAdmit_existing hch h1 with ⟨h, _, _⟩ | ⟨_, rfl, rfl⟩
  · rw [hyes] at h; cases h
  · dsimp only at hr
    unfold joinTail at hr
    simp only [getChan_eq, hch] at hr
    obtain ⟨c2, h2, hr⟩ := Res.bind_eq_ok.1 hr
    -- the session after the invitation step
    have hs2 : ∃ s2, AMap.get c2.st.sessions sid = some s2 ∧ s2.id = sid ∧
        s2.invitedTo = (if ch.modes.contains 'i' || ch.modes.contains 'x'
          then s.invitedTo.filter (· ≠ chanToLower chn) else s.invitedTo) ∧
        s2.operator = s.operator ∧ s2.server = s.server := by
      split at h2
      · rename_i hix
        refine ⟨_, modS_get_self hs hid h2, hid, ?_, rfl, rfl⟩
        rw [if_pos hix]
      · rename_i hix
        cases h2
        exact ⟨s, hs, hid, by rw [if_neg hix], rfl, rfl⟩
    obtain ⟨s2, hg2, hid2, hinv2, hop2, hsv2⟩ := hs2
    split at hr
    · cases hr
      exact ⟨s2, hg2, hinv2, hop2, hsv2⟩
    · obtain ⟨c3, h3, hr⟩ := Res.bind_eq_ok.1 hr
      have hg2' : AMap.get (putChan c2 (chanToLower chn)
          { ch with nicks := AMap.set ch.nicks (nickToLower s.nick) { chanop := !(some ch).isSome } }).st.sessions sid
          = some s2 := hg2
      have hg3 := modS_get_self hg2' hid2 h3
      have e := (joinAnnounce_emits hr).st
      rw [e]
      exact ⟨_, hg3, hinv2, hop2, hsv2⟩

/-! ### `cmdJoin` with a single channel name -/

theorem splitChar_go_no_sep (sep : Char) : ∀ (cs cur : List Char) (acc : List String), sep ∉ cs →
    splitChar.go sep cs cur acc = (String.ofList (cur.reverse ++ cs) :: acc).reverse
  | [], cur, acc, _ => by simp [splitChar.go]
  | x :: rest, cur, acc, h => by
    have hx : x ≠ sep := fun e => h (by rw [e]; exact List.mem_cons_self ..)
    have hr : sep ∉ rest := fun e => h (List.mem_cons_of_mem _ e)
    rw [splitChar.go, if_neg hx, splitChar_go_no_sep sep rest (x :: cur) acc hr]
    simp

/-- a string without the separator is not split -/
theorem splitChar_single (s : String) (sep : Char) (h : sep ∉ s.toList) : splitChar s sep = [s] := by
  unfold splitChar
  rw [splitChar_go_no_sep sep _ _ _ h]
  simp

/-- the key that `cmdJoin` pairs with the first channel name -/
def firstJoinKey (m : IrcMsg) : String :=
  ((if m.params.length > 1 then splitChar ((m.params[1]?).getD "") ',' else [])[0]?).getD ""

theorem cmdJoin_single {c : Ctx} {sid : Id} {m : IrcMsg} {chn : String}
    (hp0 : m.params[0]? = some chn) (hc : ',' ∉ chn.toList) :
    cmdJoin c sid m = joinOne c sid chn (firstJoinKey m) >>= fun c => Res.ok c := by
  unfold cmdJoin firstJoinKey
  simp only [param, hp0, Res.ok_bind, splitChar_single chn ',' hc]
  unfold joinLoop
  simp only [joinLoop]

theorem cmdJoin_single_ok {c c' : Ctx} {sid : Id} {m : IrcMsg} {chn : String}
    (hp0 : m.params[0]? = some chn) (hc : ',' ∉ chn.toList) (hr : cmdJoin c sid m = .ok c') :
    joinOne c sid chn (firstJoinKey m) = .ok c' := by
  rw [cmdJoin_single hp0 hc] at hr
  obtain ⟨c1, h1, hr⟩ := Res.bind_eq_ok.1 hr
  cases hr
  exact h1

end Robust.Irc
