import Robust.Irc.Proofs.RcptPfx
import Robust.Irc.Proofs.NH3
/-!
The identity invariant `PInv` (`RcptPfx.lean`) is preserved by the services (server-to-server)
handlers and by `cmdServer`.

`Mid` (group H3) does not carry `PInv`, so every handler is walked once more; the decomposition
lemmas of H3 (`cmdServerMode_eq`, `cmdServerSvsmode_eq`, `cmdServerSvsnick_eq`, `cmdServer_eq`,
`serverBurstNick_emits`, `cmdTopic_query_emits`, `Srv.cmdNames_emits`, …) are reused.

Only SVSNICK needs `Pre`: between its two `modS` the invariant is suspended for the renamed
session, and re-establishing it needs that the session is stored under its own id.
-/
namespace Robust.Irc
open Srv
open Robust AMap

theorem PInv.emits {c c' : Ctx} (h : PInv c.st) (he : Srv.Emits c c') : PInv c'.st := by
  rw [he.st]; exact h

/-! ### SVSHOLD -/

theorem cmdServerSvshold_pinv {c c' : Ctx} {sid : Id} {m : IrcMsg} (h : PInv c.st)
    (hr : cmdServerSvshold c sid m = Res.ok c') : PInv c'.st := by
  unfold cmdServerSvshold at hr
  obtain ⟨s, hs, hr⟩ := Res.bind_eq_ok.1 hr
  obtain ⟨p0, hp0, hr⟩ := Res.bind_eq_ok.1 hr
  dsimp only at hr
  split at hr
  · obtain ⟨p1, hp1, hr⟩ := Res.bind_eq_ok.1 hr
    split at hr
    · cases hr
    · split at hr
      · cases hr
      · cases hr
        exact h.congr rfl
  · cases hr
    exact h.congr rfl

theorem cmdServerSvshold_ppres : PPres cmdServerSvshold := .of_plain cmdServerSvshold_pinv

/-! ### PRIVMSG / NOTICE -/

theorem cmdServerPrivmsg_pinv {c c' : Ctx} {sid : Id} {m : IrcMsg} (h : PInv c.st)
    (hr : cmdServerPrivmsg c sid m = Res.ok c') : PInv c'.st := by
  unfold cmdServerPrivmsg at hr
  split at hr
  · obtain ⟨pn, _, hr⟩ := Res.bind_eq_ok.1 hr
    cases hr; exact h.sendSvc _
  · split at hr
    · obtain ⟨pn, _, hr⟩ := Res.bind_eq_ok.1 hr
      cases hr; exact h.sendSvc _
    · obtain ⟨p0, _, hr⟩ := Res.bind_eq_ok.1 hr
      split at hr
      · split at hr
        · obtain ⟨pn, _, hr⟩ := Res.bind_eq_ok.1 hr
          cases hr; exact h.sendSvc _
        · obtain ⟨sp, _, hr⟩ := Res.bind_eq_ok.1 hr
          obtain ⟨rc, _, hr⟩ := Res.bind_eq_ok.1 hr
          cases hr; exact h.emit _ _
      · split at hr
        · obtain ⟨pn, _, hr⟩ := Res.bind_eq_ok.1 hr
          cases hr; exact h.sendSvc _
        · obtain ⟨sp, _, hr⟩ := Res.bind_eq_ok.1 hr
          cases hr; exact h.sendUser _ _

theorem cmdServerPrivmsg_ppres : PPres cmdServerPrivmsg := .of_plain cmdServerPrivmsg_pinv

/-! ### TOPIC -/

theorem cmdServerTopic_pinv {c c' : Ctx} {sid : Id} {m : IrcMsg} (h : PInv c.st)
    (hr : cmdServerTopic c sid m = Res.ok c') : PInv c'.st := by
  unfold cmdServerTopic at hr
  obtain ⟨channel, _, hr⟩ := Res.bind_eq_ok.1 hr
  simp only [getChan_eq] at hr
  split at hr
  · obtain ⟨pn, _, hr⟩ := Res.bind_eq_ok.1 hr
    cases hr; exact h.sendSvc _
  · rename_i ch hch
    obtain ⟨p2, _, hr⟩ := Res.bind_eq_ok.1 hr
    obtain ⟨ts?, _, hr⟩ := Res.bind_eq_ok.1 hr
    split at hr
    · cases hr
    · obtain ⟨p1, _, hr⟩ := Res.bind_eq_ok.1 hr
      split at hr
      · cases hr
      · obtain ⟨sp, _, hr⟩ := Res.bind_eq_ok.1 hr
        obtain ⟨rc, _, hr⟩ := Res.bind_eq_ok.1 hr
        cases hr
        exact PInv.emit (c := putChan _ _ _) (h.putChan _ _) _ _

theorem cmdServerTopic_ppres : PPres cmdServerTopic := .of_plain cmdServerTopic_pinv

/-! ### INVITE -/

theorem cmdServerInvite_pinv {c c' : Ctx} {sid : Id} {m : IrcMsg} (h : PInv c.st)
    (hr : cmdServerInvite c sid m = Res.ok c') : PInv c'.st := by
  unfold cmdServerInvite at hr
  obtain ⟨nickname, _, hr⟩ := Res.bind_eq_ok.1 hr
  obtain ⟨channelname, _, hr⟩ := Res.bind_eq_ok.1 hr
  split at hr
  · obtain ⟨pn, _, hr⟩ := Res.bind_eq_ok.1 hr
    cases hr; exact h.sendSvc _
  · obtain ⟨t, _, hr⟩ := Res.bind_eq_ok.1 hr
    simp only [getChan_eq] at hr
    split at hr
    · obtain ⟨pn, _, hr⟩ := Res.bind_eq_ok.1 hr
      cases hr; exact h.sendSvc _
    · split at hr
      · obtain ⟨pn, _, hr⟩ := Res.bind_eq_ok.1 hr
        cases hr; exact h.sendSvc _
      · obtain ⟨c1, h1, hr⟩ := Res.bind_eq_ok.1 hr
        obtain ⟨pn, _, hr⟩ := Res.bind_eq_ok.1 hr
        obtain ⟨sp, _, hr⟩ := Res.bind_eq_ok.1 hr
        obtain ⟨rc, _, hr⟩ := Res.bind_eq_ok.1 hr
        cases hr
        have n1 : PInv c1.st := h.modS_keep h1 (fun _ => ⟨rfl, rfl, rfl, rfl, rfl⟩)
        exact (((n1.sendSvc _).sendUser _ _).emit _ _)

theorem cmdServerInvite_ppres : PPres cmdServerInvite := .of_plain cmdServerInvite_pinv

/-! ### KICK -/

theorem cmdServerKick_pinv {c c' : Ctx} {sid : Id} {m : IrcMsg} (h : PInv c.st)
    (hr : cmdServerKick c sid m = Res.ok c') : PInv c'.st := by
  unfold cmdServerKick at hr
  obtain ⟨channelname, _, hr⟩ := Res.bind_eq_ok.1 hr
  obtain ⟨target, _, hr⟩ := Res.bind_eq_ok.1 hr
  simp only [getChan_eq] at hr
  split at hr
  · obtain ⟨pn, _, hr⟩ := Res.bind_eq_ok.1 hr
    cases hr; exact h.sendSvc _
  · split at hr
    · obtain ⟨pn, _, hr⟩ := Res.bind_eq_ok.1 hr
      cases hr; exact h.sendSvc _
    · split at hr
      · obtain ⟨sp, _, hr⟩ := Res.bind_eq_ok.1 hr
        obtain ⟨rc, _, hr⟩ := Res.bind_eq_ok.1 hr
        exact PInv.leaveChannel (c := emit _ _ _) h hr
      · cases hr

theorem cmdServerKick_ppres : PPres cmdServerKick := .of_plain cmdServerKick_pinv

/-! ### SVSPART -/

theorem cmdServerSvspart_pinv {c c' : Ctx} {sid : Id} {m : IrcMsg} (h : PInv c.st)
    (hr : cmdServerSvspart c sid m = Res.ok c') : PInv c'.st := by
  unfold cmdServerSvspart at hr
  obtain ⟨p0, _, hr⟩ := Res.bind_eq_ok.1 hr
  obtain ⟨channelname, _, hr⟩ := Res.bind_eq_ok.1 hr
  dsimp only at hr
  split at hr
  · obtain ⟨pn, _, hr⟩ := Res.bind_eq_ok.1 hr
    cases hr; exact h.sendSvc _
  · simp only [getChan_eq] at hr
    split at hr
    · obtain ⟨pn, _, hr⟩ := Res.bind_eq_ok.1 hr
      cases hr; exact h.sendSvc _
    · split at hr
      · obtain ⟨pn, _, hr⟩ := Res.bind_eq_ok.1 hr
        cases hr; exact h.sendSvc _
      · obtain ⟨t, _, hr⟩ := Res.bind_eq_ok.1 hr
        obtain ⟨rc, _, hr⟩ := Res.bind_eq_ok.1 hr
        exact PInv.leaveChannel (c := emit _ _ _) h hr

theorem cmdServerSvspart_ppres : PPres cmdServerSvspart := .of_plain cmdServerSvspart_pinv

/-! ### MODE -/

theorem serverModeStep_pinv {c c' : Ctx} {m : IrcMsg} {chn lc : String} {mc : ModeCmd}
    (h : PInv c.st) (hstep : serverModeStep m chn lc c mc = Res.ok c') : PInv c'.st := by
  unfold serverModeStep at hstep
  simp only [getChan_eq] at hstep
  split at hstep
  · split at hstep
    · cases hstep
      exact h.putChan _ _
    · split at hstep
      · split at hstep
        · obtain ⟨pn, _, hstep⟩ := Res.bind_eq_ok.1 hstep
          cases hstep; exact h.sendSvc _
        · split at hstep
          · cases hstep
            exact h.putChan _ _
          · cases hstep; exact h
      · obtain ⟨pn, _, hstep⟩ := Res.bind_eq_ok.1 hstep
        cases hstep; exact h.sendSvc _
  · cases hstep

theorem cmdServerMode_pinv {c c' : Ctx} {sid : Id} {m : IrcMsg} (h : PInv c.st)
    (hr : cmdServerMode c sid m = Res.ok c') : PInv c'.st := by
  rw [cmdServerMode_eq] at hr
  obtain ⟨channelname, _, hr⟩ := Res.bind_eq_ok.1 hr
  simp only [getChan_eq] at hr
  split at hr
  · obtain ⟨pn, _, hr⟩ := Res.bind_eq_ok.1 hr
    cases hr; exact h.sendSvc _
  · obtain ⟨c1, hfold, hr⟩ := Res.bind_eq_ok.1 hr
    have h1 : PInv c1.st :=
      PInv.foldlM (fun _ _ _ hP hstep => serverModeStep_pinv hP hstep) _ h hfold
    split at hr
    · cases hr; exact h1
    · split at hr
      · obtain ⟨sp, _, hr⟩ := Res.bind_eq_ok.1 hr
        obtain ⟨rc, _, hr⟩ := Res.bind_eq_ok.1 hr
        cases hr
        exact h1.emit _ _
      · cases hr

theorem cmdServerMode_ppres : PPres cmdServerMode := .of_plain cmdServerMode_pinv

/-! ### SVSMODE -/

theorem svsmodeStep_pinv {c c' : Ctx} {tid : Id} {mc : ModeCmd}
    (h : PInv c.st) (hstep : svsmodeStep tid c mc = Res.ok c') : PInv c'.st := by
  unfold svsmodeStep at hstep
  dsimp only at hstep
  split at hstep
  · exact h.modS_keep hstep (fun _ => ⟨rfl, rfl, rfl, rfl, rfl⟩)
  · split at hstep
    · exact h.modS_keep hstep (fun _ => ⟨rfl, rfl, rfl, rfl, rfl⟩)
    · cases hstep
      exact h.sendSvc _

theorem cmdServerSvsmode_pinv {c c' : Ctx} {sid : Id} {m : IrcMsg} (h : PInv c.st)
    (hr : cmdServerSvsmode c sid m = Res.ok c') : PInv c'.st := by
  rw [cmdServerSvsmode_eq] at hr
  obtain ⟨s, _, hr⟩ := Res.bind_eq_ok.1 hr
  obtain ⟨p0, _, hr⟩ := Res.bind_eq_ok.1 hr
  split at hr
  · cases hr; exact h.sendSvc _
  · obtain ⟨modestr, _, hr⟩ := Res.bind_eq_ok.1 hr
    split at hr
    · cases hr; exact h.sendSvc _
    · obtain ⟨c1, hfold, hr⟩ := Res.bind_eq_ok.1 hr
      obtain ⟨t, _, hr⟩ := Res.bind_eq_ok.1 hr
      cases hr
      have h1 : PInv c1.st :=
        PInv.foldlM (fun _ _ _ hP hstep => svsmodeStep_pinv hP hstep) _ h hfold
      exact h1.sendUser _ _

theorem cmdServerSvsmode_ppres : PPres cmdServerSvsmode := .of_plain cmdServerSvsmode_pinv

/-! ### JOIN -/

theorem serverJoinOne_pinv {c c' : Ctx} {m : IrcMsg} {chn : String} (h : PInv c.st)
    (hr : serverJoinOne c m chn = Res.ok c') : PInv c'.st := by
  unfold serverJoinOne at hr
  obtain ⟨pn, _, hr⟩ := Res.bind_eq_ok.1 hr
  split at hr
  · cases hr; exact h.sendSvc _
  · dsimp only at hr
    split at hr
    · cases hr; exact h.sendSvc _
    · split at hr
      · cases hr; exact h.sendSvc _
      obtain ⟨c1, h1, hr⟩ := Res.bind_eq_ok.1 hr
      obtain ⟨sp, _, hr⟩ := Res.bind_eq_ok.1 hr
      obtain ⟨rc, _, hr⟩ := Res.bind_eq_ok.1 hr
      cases hr
      have n1 : PInv c1.st :=
        PInv.modS_keep (c := putChan _ _ _) (h.putChan _ _) h1 (fun _ => ⟨rfl, rfl, rfl, rfl, rfl⟩)
      exact n1.emit _ _

theorem cmdServerJoin_pinv {c c' : Ctx} {sid : Id} {m : IrcMsg} (h : PInv c.st)
    (hr : cmdServerJoin c sid m = Res.ok c') : PInv c'.st := by
  unfold cmdServerJoin at hr
  obtain ⟨p0, _, hr⟩ := Res.bind_eq_ok.1 hr
  exact PInv.foldlM (fun _ _ _ hP hstep => serverJoinOne_pinv hP hstep) _ h hr

theorem cmdServerJoin_ppres : PPres cmdServerJoin := .of_plain cmdServerJoin_pinv

/-! ### PART -/

theorem serverPartOne_pinv {c c' : Ctx} {m : IrcMsg} {chn : String} (h : PInv c.st)
    (hr : serverPartOne c m chn = Res.ok c') : PInv c'.st := by
  unfold serverPartOne at hr
  simp only [getChan_eq] at hr
  split at hr
  · obtain ⟨pn, _, hr⟩ := Res.bind_eq_ok.1 hr
    cases hr; exact h.sendSvc _
  · obtain ⟨pn, _, hr⟩ := Res.bind_eq_ok.1 hr
    split at hr
    · cases hr; exact h.sendSvc _
    · split at hr
      · obtain ⟨sp, _, hr⟩ := Res.bind_eq_ok.1 hr
        obtain ⟨rc, _, hr⟩ := Res.bind_eq_ok.1 hr
        exact PInv.leaveChannel (c := emit _ _ _) h hr
      · cases hr

theorem cmdServerPart_pinv {c c' : Ctx} {sid : Id} {m : IrcMsg} (h : PInv c.st)
    (hr : cmdServerPart c sid m = Res.ok c') : PInv c'.st := by
  unfold cmdServerPart at hr
  obtain ⟨p0, _, hr⟩ := Res.bind_eq_ok.1 hr
  exact PInv.foldlM (fun _ _ _ hP hstep => serverPartOne_pinv hP hstep) _ h hr

theorem cmdServerPart_ppres : PPres cmdServerPart := .of_plain cmdServerPart_pinv

/-! ### SVSJOIN -/

theorem cmdServerSvsjoin_pinv {c c' : Ctx} {sid : Id} {m : IrcMsg} (h : PInv c.st)
    (hr : cmdServerSvsjoin c sid m = Res.ok c') : PInv c'.st := by
  unfold cmdServerSvsjoin at hr
  obtain ⟨p0, _, hr⟩ := Res.bind_eq_ok.1 hr
  obtain ⟨chn, _, hr⟩ := Res.bind_eq_ok.1 hr
  dsimp only at hr
  split at hr
  · obtain ⟨pn, _, hr⟩ := Res.bind_eq_ok.1 hr
    cases hr; exact h.sendSvc _
  · split at hr
    · obtain ⟨pn, _, hr⟩ := Res.bind_eq_ok.1 hr
      cases hr; exact h.sendSvc _
    · simp only [getChan_eq, putChan_putChan] at hr
      split at hr
      · obtain ⟨pn, _, hr⟩ := Res.bind_eq_ok.1 hr
        cases hr; exact h.sendSvc _
      split at hr
      · cases hr
        exact h.putChan _ _
      · obtain ⟨c1, h1, hr⟩ := Res.bind_eq_ok.1 hr
        obtain ⟨t, _, hr⟩ := Res.bind_eq_ok.1 hr
        obtain ⟨rc, _, hr⟩ := Res.bind_eq_ok.1 hr
        obtain ⟨c2, h2, hr⟩ := Res.bind_eq_ok.1 hr
        have n1 : PInv c1.st :=
          PInv.modS_keep (c := putChan _ _ _) (h.putChan _ _) h1 (fun _ => ⟨rfl, rfl, rfl, rfl, rfl⟩)
        have n2 : PInv c2.st :=
          PInv.emits (c := sendSvc (emit c1 _ _) _) ((n1.emit _ _).sendSvc _) (cmdTopic_query_emits h2)
        exact n2.emits (Srv.cmdNames_emits hr)

theorem cmdServerSvsjoin_ppres : PPres cmdServerSvsjoin := .of_plain cmdServerSvsjoin_pinv

/-! ### NICK (a fresh pseudo-client) -/

theorem cmdServerNick_pinv {c c' : Ctx} {sid : Id} {m : IrcMsg} (h : PInv c.st)
    (hr : cmdServerNick c sid m = Res.ok c') : PInv c'.st := by
  unfold cmdServerNick at hr
  obtain ⟨s, hs, hr⟩ := Res.bind_eq_ok.1 hr
  split at hr
  · cases hr; exact h
  · obtain ⟨p0, _, hr⟩ := Res.bind_eq_ok.1 hr
    split at hr
    · cases hr; exact h.sendSvc _
    · split at hr
      · cases hr; exact h.sendSvc _
      · dsimp only at hr
        split at hr
        · cases hr; exact h.sendSvc _
        · split at hr
          · cases hr; exact h.sendSvc _
          · rename_i st1 hcs
            obtain ⟨p3, _, hr⟩ := Res.bind_eq_ok.1 hr
            obtain ⟨c2, hm, hr⟩ := Res.bind_eq_ok.1 hr
            cases hr
            have n1 : PInv st1 := h.createSession hcs
            have n2 : PInv c2.st :=
              PInv.modS (c := { c with st := st1 }) n1 hm (fun _ _ _ => PfxOK.update _)
            exact n2.congr rfl

theorem cmdServerNick_ppres : PPres cmdServerNick := .of_plain cmdServerNick_pinv

/-! ### SVSNICK -/

/-- the only place where the session's being stored under its own id is needed -/
theorem svsnickTail_pinv {c c' : Ctx} {tid : Id} {p0 p1 : String} (hw : WInvCore c.st) (h : PInv c.st)
    (hr : svsnickTail c p0 p1 tid = Res.ok c') : PInv c'.st := by
  unfold svsnickTail at hr
  obtain ⟨t, ht, hr⟩ := Res.bind_eq_ok.1 hr
  rw [getS_eq_ok] at ht
  dsimp only at hr
  obtain ⟨c1, hm1, hr⟩ := Res.bind_eq_ok.1 hr
  obtain ⟨c2, hm2, hr⟩ := Res.bind_eq_ok.1 hr
  obtain ⟨t2, _, hr⟩ := Res.bind_eq_ok.1 hr
  obtain ⟨rc, _, hr⟩ := Res.bind_eq_ok.1 hr
  cases hr
  have hid : t.id = tid := (hw.sessId tid t ht).1
  -- the nick change suspends the invariant for `tid`
  have b1 : PInvBut c1.st tid :=
    (h.but tid).modS_but (fun s hs => by rw [ht] at hs; cases hs; exact hid) hm1
  have hg1 : ∀ s, AMap.get c1.st.sessions tid = some s → s.id = tid := by
    intro s hs
    obtain ⟨t', ht', rfl⟩ := modS_eq_ok.1 hm1
    rw [ht] at ht'; cases ht'
    have e : (putS c { t with nick := p1 }).st.sessions
        = AMap.set c.st.sessions tid { t with nick := p1 } := by
      rw [putS_sessions]
      show AMap.set c.st.sessions t.id _ = _
      rw [hid]
    rw [e, AMap.get_set_same] at hs
    cases hs; exact hid
  -- the index / channel rename does not touch the sessions
  have hss := renameCtx_sessions c1 tid (nickToLower p1) (nickToLower p0) (nickToLower p1 != nickToLower p0)
  have b2 : PInvBut (renameCtx c1 tid (nickToLower p1) (nickToLower p0) (nickToLower p1 != nickToLower p0)).st tid :=
    b1.congr hss
  -- `updateIrcPrefix` re-establishes it
  have n2 : PInv c2.st :=
    b2.modS_fix (fun s hs => by rw [hss] at hs; exact hg1 s hs) hm2 (fun s => PfxOK.update s)
  exact n2.emit _ _

theorem cmdServerSvsnick_pinv {c c' : Ctx} {sid : Id} {m : IrcMsg} (hw : WInvCore c.st) (h : PInv c.st)
    (hr : cmdServerSvsnick c sid m = Res.ok c') : PInv c'.st := by
  rw [cmdServerSvsnick_eq] at hr
  obtain ⟨p0, _, hr⟩ := Res.bind_eq_ok.1 hr
  obtain ⟨p1, _, hr⟩ := Res.bind_eq_ok.1 hr
  split at hr
  · cases hr; exact h.sendSvc _
  · split at hr
    · cases hr; exact h.sendSvc _
    · split at hr
      · split at hr
        · cases hr; exact h.sendSvc _
        · exact svsnickTail_pinv hw h hr
      · exact svsnickTail_pinv hw h hr

theorem cmdServerSvsnick_ppres : PPres cmdServerSvsnick :=
  fun _ _ _ _ hpre _ hp hr => cmdServerSvsnick_pinv hpre.inv.toWInvCore hp hr

/-! ### KILL -/

theorem cmdServerKill_pinv {c c' : Ctx} {sid : Id} {m : IrcMsg} (h : PInv c.st)
    (hr : cmdServerKill c sid m = Res.ok c') : PInv c'.st := by
  unfold cmdServerKill at hr
  obtain ⟨s, _, hr⟩ := Res.bind_eq_ok.1 hr
  split at hr
  · cases hr; exact h.sendSvc _
  · dsimp only at hr
    obtain ⟨kp?, _, hr⟩ := Res.bind_eq_ok.1 hr
    obtain ⟨p0, _, hr⟩ := Res.bind_eq_ok.1 hr
    split at hr
    · cases hr; exact h.sendSvc _
    · obtain ⟨t, ht, hr⟩ := Res.bind_eq_ok.1 hr
      split at hr
      · obtain ⟨rc, _, hr⟩ := Res.bind_eq_ok.1 hr
        exact PInv.deleteSession (c := emit (sendUser c _ _) _ _) ((h.sendUser _ _).emit _ _) hr
      · cases hr

theorem cmdServerKill_ppres : PPres cmdServerKill := .of_plain cmdServerKill_pinv

/-! ### QUIT -/

theorem cmdServerQuit_pinv {c c' : Ctx} {sid : Id} {m : IrcMsg} (h : PInv c.st)
    (hr : cmdServerQuit c sid m = Res.ok c') : PInv c'.st := by
  unfold cmdServerQuit at hr
  obtain ⟨s, hs, hr⟩ := Res.bind_eq_ok.1 hr
  split at hr
  · obtain ⟨c1, hd, hr⟩ := Res.bind_eq_ok.1 hr
    dsimp only at hr
    refine PInv.foldlM ?_ _ (h.deleteSession hd) hr
    intro c2 tid c3 hP hstep
    obtain ⟨t, ht, hstep⟩ := Res.bind_eq_ok.1 hstep
    obtain ⟨rc, _, hstep⟩ := Res.bind_eq_ok.1 hstep
    exact PInv.deleteSession (c := emit _ _ _) hP hstep
  · split at hr
    · cases hr; exact h
    · obtain ⟨rc, _, hr⟩ := Res.bind_eq_ok.1 hr
      exact PInv.deleteSession (c := emit _ _ _) h hr

theorem cmdServerQuit_ppres : PPres cmdServerQuit := .of_plain cmdServerQuit_pinv

/-! ### SERVER (a client command: the session becomes a services link) -/

theorem cmdServer_pinv {c c' : Ctx} {sid : Id} {m : IrcMsg} (h : PInv c.st)
    (hr : cmdServer c sid m = Res.ok c') : PInv c'.st := by
  rw [cmdServer_eq] at hr
  obtain ⟨s, hs, hr⟩ := Res.bind_eq_ok.1 hr
  split at hr
  · cases hr; exact h.sendUser _ _
  · obtain ⟨p0, _, hr⟩ := Res.bind_eq_ok.1 hr
    obtain ⟨c1, hm, hr⟩ := Res.bind_eq_ok.1 hr
    dsimp only at hr
    have he := (Srv.Emits.sendSvc _ _).trans
      (foldlM_emits _ _ (fun _ _ _ _ h => serverBurstNick_emits h) _ _ hr)
    rw [he.st]
    exact (h.modS hm (fun _ _ _ => PfxOK.of_server rfl)).congr rfl

theorem cmdServer_ppres : PPres cmdServer := .of_plain cmdServer_pinv

end Robust.Irc
