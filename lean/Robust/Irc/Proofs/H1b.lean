import Robust.Irc.Proofs.H1a
/-!
Handler proofs, group 1 — part b: `cmdQuit`, `cmdPart` (`partOne`), `cmdKick`, `cmdKill`, `cmdGline`.
-/
namespace Robust.Irc
open AMap

/-! ## tools: what `leaveChannel` / `deleteSession` do to the stored sessions -/

/-- every stored session stays stored, with the same nick and the same flags but possibly `deleted` -/
def SessKept (c c' : Ctx) : Prop :=
  ∀ id s, AMap.get c.st.sessions id = some s →
    ∃ s', AMap.get c'.st.sessions id = some s' ∧ s'.id = s.id ∧ s'.nick = s.nick ∧ s'.loggedIn = s.loggedIn ∧
      s'.server = s.server ∧ s'.operator = s.operator

theorem SessKept.refl (c : Ctx) : SessKept c c := fun _ s h => ⟨s, h, rfl, rfl, rfl, rfl, rfl⟩

theorem SessKept.trans {a b c : Ctx} (h1 : SessKept a b) (h2 : SessKept b c) : SessKept a c := by
  intro id s hs
  obtain ⟨s1, g1, a1, a2, a3, a4, a5⟩ := h1 id s hs
  obtain ⟨s2, g2, b1, b2, b3, b4, b5⟩ := h2 id s1 g1
  exact ⟨s2, g2, b1.trans a1, b2.trans a2, b3.trans a3, b4.trans a4, b5.trans a5⟩

theorem SessKept.of_st {c c' : Ctx} (e : c'.st.sessions = c.st.sessions) : SessKept c c' := by
  intro id s hs
  exact ⟨s, by rw [e]; exact hs, rfl, rfl, rfl, rfl, rfl⟩

theorem LeaveSpec.sessKept {c c' : Ctx} {lc lcn : String} {tid : Id} (sp : LeaveSpec c c' lc lcn tid) :
    SessKept c c' := by
  intro id s hs
  by_cases hid : id = tid
  · subst hid
    obtain ⟨inv, h⟩ := sp.self s hs
    exact ⟨_, h, rfl, rfl, rfl, rfl, rfl⟩
  · obtain ⟨inv, h⟩ := sp.others id s hid hs
    exact ⟨_, h, rfl, rfl, rfl, rfl, rfl⟩

/-- a session stored after `leaveChannel` was stored before, with the same `deleted` flag -/
theorem LeaveSpec.bwd {c c' : Ctx} {lc lcn : String} {tid : Id} (sp : LeaveSpec c c' lc lcn tid) {id : Id} {s' : Session}
    (hg : AMap.get c'.st.sessions id = some s') : ∃ s, AMap.get c.st.sessions id = some s ∧ s'.deleted = s.deleted := by
  cases hg0 : AMap.get c.st.sessions id with
  | none =>
    have : id ∉ AMap.keys c'.st.sessions := by rw [sp.keys]; exact AMap.get_eq_none_iff.1 hg0
    exact absurd (AMap.mem_keys_of_get hg) this
  | some s =>
    by_cases hid : id = tid
    · subst hid
      obtain ⟨inv, h⟩ := sp.self s hg0
      rw [h] at hg; cases hg
      exact ⟨s, rfl, rfl⟩
    · obtain ⟨inv, h⟩ := sp.others id s hid hg0
      rw [h] at hg; cases hg
      exact ⟨s, rfl, rfl⟩

theorem DelSpec.sessKept {c c' : Ctx} {sid : Id} {s : Session} (sp : DelSpec c c' sid s)
    (hs : AMap.get c.st.sessions sid = some s) : SessKept c c' := by
  intro id t ht
  by_cases hid : id = sid
  · subst hid
    rw [hs] at ht; cases ht
    obtain ⟨inv, h⟩ := sp.self
    exact ⟨_, h, rfl, rfl, rfl, rfl, rfl⟩
  · obtain ⟨inv, h⟩ := sp.others id t hid ht
    exact ⟨_, h, rfl, rfl, rfl, rfl, rfl⟩

/-- a session stored after `deleteSession c sid` was stored before; only `sid` changes its `deleted` flag -/
theorem DelSpec.bwd {c c' : Ctx} {sid : Id} {s : Session} (sp : DelSpec c c' sid s) {id : Id} {t' : Session}
    (hg : AMap.get c'.st.sessions id = some t') :
    ∃ t, AMap.get c.st.sessions id = some t ∧ (id ≠ sid → t'.deleted = t.deleted) := by
  cases hg0 : AMap.get c.st.sessions id with
  | none =>
    have : id ∉ AMap.keys c'.st.sessions := by rw [sp.keys]; exact AMap.get_eq_none_iff.1 hg0
    exact absurd (AMap.mem_keys_of_get hg) this
  | some t =>
    refine ⟨t, rfl, fun hid => ?_⟩
    obtain ⟨inv, h⟩ := sp.others id t hid hg0
    rw [h] at hg; cases hg
    rfl

/-- `leaveChannel` of the session indexed under `lcn` re-establishes `Pre` -/
theorem Pre.leaveChannel {c c' : Ctx} {sid tid : Id} {lc lcn : String} (hp : Pre c sid)
    (hidx : AMap.get c.st.nicks lcn = some tid) (hr : leaveChannel c lc lcn tid = .ok c') :
    Pre c' sid ∧ OutStep c c' ∧ SessKept c c' := by
  have sp := leaveChannel_spec hp.inv.toWInv hidx hr
  refine ⟨⟨⟨leaveChannel_HInv hp.inv.toHInv hidx hr, ?_⟩, LInv.leaveChannel hp.linv hp.inv.toWInv hidx hr, ?_, hp.reply0⟩,
    (OutStep.refl c).frame sp.frame, sp.sessKept⟩
  · intro id s' hg
    obtain ⟨s, hs, e⟩ := sp.bwd hg
    rw [e]; exact hp.inv.noDeleted id s hs
  · obtain ⟨s, hs⟩ := hp.actor
    obtain ⟨s', hs', _⟩ := sp.sessKept sid s hs
    exact ⟨s', hs'⟩

/-! ## QUIT -/

theorem cmdQuit_preserves : Preserves cmdQuit := by
  intro c sid m c' hp hr
  unfold cmdQuit at hr
  obtain ⟨c1, h1, hr⟩ := Res.bind_eq_ok.1 hr
  obtain ⟨s, hs⟩ := hp.actor
  have hl := hp.live hs
  have sp := deleteSession_spec hp.inv.toWInv hs (DelPre.of_live hl) h1
  have hI := deleteSession_HInv hp.inv.toHInv hs (DelPre.of_live hl) h1
  have hL := LInv.deleteSession hp.linv hp.inv.toWInv hs (DelPre.of_live hl) h1
  have ho1 : OutStep c c1 := (OutStep.refl c).frame sp.frame
  have hfl : ∀ id t, AMap.get c1.st.sessions id = some t → t.deleted = true → id = sid ∨ Privileged c1.st sid := by
    intro id t ht hd
    by_cases hid : id = sid
    · exact Or.inl hid
    · obtain ⟨t0, ht0, e⟩ := sp.bwd ht
      rw [e hid, hp.live ht0] at hd; cases hd
  have hpost1 : Post c c1 sid :=
    ⟨hI, hL, by obtain ⟨inv, h⟩ := sp.self; exact ⟨_, h⟩, hfl, ho1.outGrows, ho1.msgid⟩
  obtain ⟨s1, hs1, hr⟩ := Res.bind_eq_ok.1 hr
  split at hr
  · obtain ⟨rc, hrc, hr⟩ := Res.bind_eq_ok.1 hr
    cases hr
    exact { hpost1 with
      outGrows := (by outstep : OutStep c (sendUser (emit c1 _ _) sid _)).outGrows }
  · cases hr; exact hpost1

theorem cmdQuit_safe : ClientSafe cmdQuit 0 false := by
  intro c sid m s hp hs _ _ _
  unfold cmdQuit
  refine NoPanic.bind (NoPanic.of_ok (deleteSession_ok hp.inv.toWInv hs)) fun c1 h1 => ?_
  have sp := deleteSession_spec hp.inv.toWInv hs (DelPre.of_live (hp.live hs)) h1
  obtain ⟨inv, hself⟩ := sp.self
  rw [getS_of_get hself]
  simp only [Res.ok_bind]
  split
  · obtain ⟨rc, hrc⟩ := rcCommonChannels_ok sp.winv.toWInvCore { s with invitedTo := inv, deleted := true }
    rw [hrc]
    exact NoPanic.ok _
  · exact NoPanic.pure _

/-! ## PART

`Preserves cmdPart` is false without knowing that the actor has a nickname: `Inv` allows a
nickless session `A` that is indexed under `""` and a member (key `""`) of `#x`; a second
nickless, unindexed session `B` sending `PART #x` finds `""` in the member map, removes `A`'s
entry, and `A` then lists a channel it is no member of.  The gate only lets registered sessions
send PART, and `LInv` turns that into `nick ≠ ""`. -/

theorem partOne_pre {c c' : Ctx} {sid : Id} {s : Session} {chn : String} (hp : Pre c sid)
    (hs : AMap.get c.st.sessions sid = some s) (hn : s.nick ≠ "") (hr : partOne c sid chn = .ok c') :
    Pre c' sid ∧ OutStep c c' ∧ SessKept c c' := by
  unfold partOne at hr
  obtain ⟨s0, hs0, hr⟩ := Res.bind_eq_ok.1 hr
  rw [getS_eq_ok, hs] at hs0; cases hs0
  simp only [getChan_eq] at hr
  split at hr
  · cases hr; exact ⟨hp.congr_st rfl, by outstep, SessKept.of_st rfl⟩
  · rename_i ch hch
    split at hr
    · cases hr; exact ⟨hp.congr_st rfl, by outstep, SessKept.of_st rfl⟩
    · obtain ⟨rc, hrc, hr⟩ := Res.bind_eq_ok.1 hr
      have hidx := hp.inv.owns sid s hs (hp.live hs) hn
      obtain ⟨h1, h2, h3⟩ := Pre.leaveChannel (c := emit _ _ _) (hp.emit _ _) hidx hr
      exact ⟨h1, ((OutStep.refl c).emit _ _).trans h2, (SessKept.of_st rfl).trans h3⟩

theorem partOne_ok {c : Ctx} {sid : Id} {s : Session} (chn : String) (h : WInvCore c.st)
    (hs : AMap.get c.st.sessions sid = some s) : ∃ c', partOne c sid chn = .ok c' := by
  unfold partOne
  rw [getS_of_get hs]
  simp only [Res.ok_bind, getChan_eq]
  split
  · exact ⟨_, rfl⟩
  · rename_i ch hch
    split
    · exact ⟨_, rfl⟩
    · obtain ⟨rc, hrc⟩ := rcChannel_ok h hch
      rw [hrc]
      simp only [Res.ok_bind]
      exact leaveChannel_ok (c := emit _ _ _) h hch hs

theorem partLoop_pre {sid : Id} : ∀ (l : List String) {c c' : Ctx} {s : Session}, Pre c sid →
    AMap.get c.st.sessions sid = some s → s.nick ≠ "" →
    l.foldlM (fun c ch => partOne c sid ch) c = .ok c' → Pre c' sid ∧ OutStep c c' ∧ SessKept c c'
  | [], c, c', s, hp, _, _, hr => by
    cases hr; exact ⟨hp, OutStep.refl _, SessKept.refl _⟩
  | ch :: l, c, c', s, hp, hs, hn, hr => by
    rw [List.foldlM_cons] at hr
    obtain ⟨c1, h1, hr⟩ := Res.bind_eq_ok.1 hr
    obtain ⟨hp1, ho1, hk1⟩ := partOne_pre hp hs hn h1
    obtain ⟨s1, hs1, _, e, _⟩ := hk1 sid s hs
    obtain ⟨hp2, ho2, hk2⟩ := partLoop_pre l hp1 hs1 (by rw [e]; exact hn) hr
    exact ⟨hp2, ho1.trans ho2, hk1.trans hk2⟩

/-- PART preserves the invariants for an actor with a nickname -/
theorem cmdPart_pre {c c' : Ctx} {sid : Id} {m : IrcMsg} {s : Session} (hp : Pre c sid)
    (hs : AMap.get c.st.sessions sid = some s) (hn : s.nick ≠ "") (hr : cmdPart c sid m = .ok c') :
    Pre c' sid ∧ OutStep c c' := by
  unfold cmdPart at hr
  obtain ⟨p0, _, hr⟩ := Res.bind_eq_ok.1 hr
  obtain ⟨h1, h2, _⟩ := partLoop_pre _ hp hs hn hr
  exact ⟨h1, h2⟩

/-- `Preserves` restricted to registered actors (what the gate guarantees for every command but
NICK/USER/PASS/QUIT/SERVER) -/
def PreservesL (h : Ctx → Id → IrcMsg → Res Ctx) : Prop :=
  ∀ c sid m c' s, Pre c sid → AMap.get c.st.sessions sid = some s → s.loggedIn = true →
    h c sid m = .ok c' → Post c c' sid

theorem Preserves.preservesL {h : Ctx → Id → IrcMsg → Res Ctx} (hh : Preserves h) : PreservesL h :=
  fun c sid m c' _ hp _ _ hr => hh c sid m c' hp hr

theorem cmdPart_preservesL : PreservesL cmdPart :=
  fun _ sid _ _ s hp hs hl hr =>
    Post.of_pre (cmdPart_pre hp hs (hp.linv sid s hs hl) hr).1 (cmdPart_pre hp hs (hp.linv sid s hs hl) hr).2

theorem partLoop_noPanic {sid : Id} : ∀ (l : List String) {c : Ctx} {s : Session}, Pre c sid →
    AMap.get c.st.sessions sid = some s → s.nick ≠ "" →
    NoPanic (l.foldlM (fun c ch => partOne c sid ch) c)
  | [], c, s, _, _, _ => NoPanic.pure _
  | ch :: l, c, s, hp, hs, hn => by
    rw [List.foldlM_cons]
    refine NoPanic.bind (NoPanic.of_ok (partOne_ok ch hp.inv.toWInvCore hs)) fun c1 h1 => ?_
    obtain ⟨hp1, _, hk1⟩ := partOne_pre hp hs hn h1
    obtain ⟨s1, hs1, _, e, _⟩ := hk1 sid s hs
    exact partLoop_noPanic l hp1 hs1 (by rw [e]; exact hn)

theorem cmdPart_safe : ClientSafe cmdPart 1 true := by
  intro c sid m s hp hs _ hl hn
  unfold cmdPart
  obtain ⟨p0, hp0⟩ := param_ok (m := m) (i := 0) (by omega)
  rw [hp0]
  simp only [Res.ok_bind]
  exact partLoop_noPanic _ hp hs (hp.linv sid s hs (hl rfl))

/-! ## KICK -/

theorem cmdKick_pre : PreservesPre cmdKick := by
  intro c sid m c' hp hr
  unfold cmdKick at hr
  obtain ⟨s, hs, hr⟩ := Res.bind_eq_ok.1 hr
  obtain ⟨chn, _, hr⟩ := Res.bind_eq_ok.1 hr
  obtain ⟨target, _, hr⟩ := Res.bind_eq_ok.1 hr
  simp only [getChan_eq] at hr
  split at hr
  · cases hr; exact ⟨hp.congr_st rfl, by outstep⟩
  · rename_i ch hch
    split at hr
    · cases hr; exact ⟨hp.congr_st rfl, by outstep⟩
    · rename_i perms hperms
      split at hr
      · cases hr; exact ⟨hp.congr_st rfl, by outstep⟩
      · split at hr
        · cases hr; exact ⟨hp.congr_st rfl, by outstep⟩
        · split at hr
          · rename_i tid hidx
            obtain ⟨rc, hrc, hr⟩ := Res.bind_eq_ok.1 hr
            obtain ⟨h1, h2, _⟩ := Pre.leaveChannel (c := emit _ _ _) (hp.emit _ _) hidx hr
            exact ⟨h1, ((OutStep.refl c).emit _ _).trans h2⟩
          · cases hr

theorem cmdKick_preserves : Preserves cmdKick := cmdKick_pre.preserves

theorem cmdKick_safe : ClientSafe cmdKick 2 true := by
  intro c sid m s hp hs _ _ hn
  unfold cmdKick
  obtain ⟨p0, hp0⟩ := param_ok (m := m) (i := 0) (by omega)
  obtain ⟨p1, hp1⟩ := param_ok (m := m) (i := 1) (by omega)
  rw [getS_of_get hs, hp0, hp1]
  simp only [Res.ok_bind, getChan_eq]
  split
  · exact NoPanic.pure _
  · rename_i ch hch
    split
    · exact NoPanic.pure _
    · split
      · exact NoPanic.pure _
      · split
        · exact NoPanic.pure _
        · rename_i hcont
          have hcont' : AMap.contains ch.nicks (nickToLower p1) = true := by
            cases hb : AMap.contains ch.nicks (nickToLower p1) with
            | true => rfl
            | false => rw [hb] at hcont; simp at hcont
          obtain ⟨tid, t, hidx, ht⟩ := hp.inv.toWInvCore.member_indexed hch hcont'
          rw [hidx]
          obtain ⟨rc, hrc⟩ := rcChannel_ok hp.inv.toWInvCore hch
          simp only [hrc, Res.ok_bind]
          exact NoPanic.of_ok (leaveChannel_ok (c := emit _ _ _) hp.inv.toWInvCore hch ht)

/-! ## KILL -/

theorem cmdKill_preserves : Preserves cmdKill := by
  intro c sid m c' hp hr
  unfold cmdKill at hr
  obtain ⟨s, hs, hr⟩ := Res.bind_eq_ok.1 hr
  rw [getS_eq_ok] at hs
  split at hr
  · cases hr; exact Post.of_pre (hp.congr_st rfl) (by outstep)
  · rename_i hop
    obtain ⟨p0, _, hr⟩ := Res.bind_eq_ok.1 hr
    split at hr
    · cases hr; exact Post.of_pre (hp.congr_st rfl) (by outstep)
    · rename_i tid hidx
      obtain ⟨c1, h1, hr⟩ := Res.bind_eq_ok.1 hr
      obtain ⟨t, ht, htl, _⟩ := hp.inv.index _ tid hidx
      have sp := deleteSession_spec hp.inv.toWInv ht (DelPre.of_live htl) h1
      have hI := deleteSession_HInv hp.inv.toHInv ht (DelPre.of_live htl) h1
      have hL := LInv.deleteSession hp.linv hp.inv.toWInv ht (DelPre.of_live htl) h1
      have ho1 : OutStep c c1 := (OutStep.refl c).frame sp.frame
      obtain ⟨s1, hs1, _, _, _, _, hop1⟩ := sp.sessKept ht sid s hs
      have hpriv : Privileged c1.st sid := ⟨s1, hs1, Or.inr (by rw [hop1]; simpa using hop)⟩
      have hpost1 : Post c c1 sid := ⟨hI, hL, ⟨s1, hs1⟩, fun _ _ _ _ => Or.inr hpriv, ho1.outGrows, ho1.msgid⟩
      obtain ⟨t1, _, hr⟩ := Res.bind_eq_ok.1 hr
      obtain ⟨s2, _, hr⟩ := Res.bind_eq_ok.1 hr
      obtain ⟨rc, _, hr⟩ := Res.bind_eq_ok.1 hr
      cases hr
      exact { hpost1 with
        outGrows := (by outstep : OutStep c (sendUser (sendUser (emit c1 _ _) tid _) tid _)).outGrows }

theorem cmdKill_safe : ClientSafe cmdKill 2 true := by
  intro c sid m s hp hs _ _ hn
  unfold cmdKill
  obtain ⟨p0, hp0⟩ := param_ok (m := m) (i := 0) (by omega)
  rw [getS_of_get hs]
  simp only [Res.ok_bind]
  split
  · exact NoPanic.pure _
  · rw [hp0]
    simp only [Res.ok_bind]
    split
    · exact NoPanic.pure _
    · rename_i tid hidx
      obtain ⟨t, ht, htl, _⟩ := hp.inv.index _ tid hidx
      refine NoPanic.bind (NoPanic.of_ok (deleteSession_ok hp.inv.toWInv ht)) fun c1 h1 => ?_
      have sp := deleteSession_spec hp.inv.toWInv ht (DelPre.of_live htl) h1
      obtain ⟨t1, ht1, _⟩ := sp.sessKept ht tid t ht
      obtain ⟨s1, hs1, _⟩ := sp.sessKept ht sid s hs
      rw [getS_of_get ht1, getS_of_get hs1]
      simp only [Res.ok_bind]
      obtain ⟨rc, hrc⟩ := rcCommonChannels_ok sp.winv.toWInvCore t1
      rw [hrc]
      exact NoPanic.ok _

/-! ## GLINE -/

/-- `Pre` does not look at the configuration -/
theorem Pre.setConfig {c : Ctx} {sid : Id} (hp : Pre c sid) (cfg : Config) :
    Pre { c with st := { c.st with config := cfg } } sid :=
  ⟨(Inv_config _ _).2 hp.inv, hp.linv.congr rfl, hp.actor, hp.reply0⟩

theorem cmdGline_preserves : Preserves cmdGline := by
  intro c sid m c' hp hr
  unfold cmdGline at hr
  obtain ⟨s, hs, hr⟩ := Res.bind_eq_ok.1 hr
  split at hr
  · cases hr; exact Post.of_pre (hp.congr_st rfl) (by outstep)
  · obtain ⟨p0, _, hr⟩ := Res.bind_eq_ok.1 hr
    split at hr
    · cases hr; exact Post.of_pre (hp.congr_st rfl) (by outstep)
    · obtain ⟨t, _, hr⟩ := Res.bind_eq_ok.1 hr
      split at hr
      · cases hr; exact Post.of_pre (hp.congr_st rfl) (by outstep)
      · dsimp only at hr
        refine Post.after ?_ (cmdKill_preserves _ _ _ _ ?_ hr)
        · exact (OutStep.refl c).of_eq rfl rfl
        · exact hp.setConfig _

theorem cmdGline_safe : ClientSafe cmdGline 2 true := by
  intro c sid m s hp hs hsv hl hn
  unfold cmdGline
  obtain ⟨p0, hp0⟩ := param_ok (m := m) (i := 0) (by omega)
  rw [getS_of_get hs]
  simp only [Res.ok_bind]
  split
  · exact NoPanic.pure _
  · rw [hp0]
    simp only [Res.ok_bind]
    split
    · exact NoPanic.pure _
    · rename_i tid hidx
      obtain ⟨t, ht, _, _⟩ := hp.inv.index _ tid hidx
      rw [getS_of_get ht]
      simp only [Res.ok_bind]
      split
      · exact NoPanic.pure _
      · refine cmdKill_safe _ sid m s ?_ hs hsv hl hn
        exact hp.setConfig _

end Robust.Irc
