import Robust.Irc.Proofs.Frame
/-!
Shared specification that every command handler is proved against
(`Robust/Irc/Proofs/H*.lean`), and from which the entry-level theorems (C06, C14) follow.
-/
namespace Robust.Irc
open AMap

/-- what holds when `ProcessMessage` hands a command to its handler -/
structure Pre (c : Ctx) (sid : Id) : Prop where
  inv : Inv c.st
  linv : LInv c.st
  actor : ∃ s, AMap.get c.st.sessions sid = some s
  /-- the HTTP API can only name sessions with `Reply = 0`; services pseudo-clients never act themselves -/
  reply0 : sid.reply = 0

/-- what every handler guarantees on normal return -/
structure Post (c c' : Ctx) (sid : Id) : Prop where
  hinv : HInv c'.st
  linv : LInv c'.st
  /-- the acting session is still stored (it is removed only by `MaybeDeleteSession` afterwards) -/
  actorKept : ∃ s, AMap.get c'.st.sessions sid = some s
  /-- sessions flagged `deleted`: only the actor itself, unless the actor is a services link or an IRC operator -/
  flagged : ∀ id s, AMap.get c'.st.sessions id = some s → s.deleted = true → id = sid ∨ Privileged c'.st sid
  /-- handlers only append to the output batch of the current entry -/
  outGrows : ∃ extra, c'.out = c.out ++ extra
  msgid : c'.msgid = c.msgid

/-- a handler preserves the invariant (for callers that satisfy `Pre`) -/
def Preserves (h : Ctx → Id → IrcMsg → Res Ctx) : Prop :=
  ∀ c sid m c', Pre c sid → h c sid m = .ok c' → Post c c' sid

/-- client handlers: never panic once the gate let the command through (`minParams` parameters,
session registered unless the command is one of NICK/USER/PASS/QUIT/SERVER, not a services link) -/
def ClientSafe (h : Ctx → Id → IrcMsg → Res Ctx) (minParams : Nat) (needsLogin : Bool) : Prop :=
  ∀ c sid m s, Pre c sid → AMap.get c.st.sessions sid = some s → s.server = false →
    (needsLogin = true → s.loggedIn = true) → minParams ≤ m.params.length →
    ∀ site, h c sid m ≠ .panic site

/-- services handlers: never panic on protocol-conforming lines: a prefix is present and the
documented number of parameters (`docParams`, see the header comment of each scmd_*.go) -/
def ServicesSafe (h : Ctx → Id → IrcMsg → Res Ctx) (docParams : Nat) : Prop :=
  ∀ c sid m s, Pre c sid → AMap.get c.st.sessions sid = some s → s.server = true →
    m.pfx.isSome = true → docParams ≤ m.params.length →
    ∀ site, h c sid m ≠ .panic site

theorem Post.refl_of_pre {c : Ctx} {sid : Id} (h : Pre c sid) : Post c c sid where
  hinv := h.inv.toHInv
  linv := h.linv
  actorKept := h.actor
  flagged := fun id s hg hd => by
    have := h.inv.noDeleted id s hg
    rw [this] at hd
    cases hd
  outGrows := ⟨[], by simp⟩
  msgid := rfl

end Robust.Irc
