import Robust.Irc.Proofs.RcptMem
/-!
C12, part 2c: NICK — who receives what.
-/
namespace Robust.Irc
open Robust AMap

/-- the lines `cmdNick` can produce (`s` = the stored session *before* the command) -/
inductive NickLine (st : St) (sid : Id) (s : Session) (m : IrcMsg) (o : Out) : Prop
  /-- numeric reply (431, 432, 433) or a line of the welcome burst / MOTD of the implied login: to the sender only -/
  | reply (h : ToOnly sid o)
  /-- login burst for the services links only (`NICK …`, `PRIVMSG NickServ :IDENTIFY …`) -/
  | svc (h : o.rcpt = st.serverSessions)
  /-- `MODE nick +o` of an implied OPER: to the sender and the services links -/
  | oper (hr : RcptIs o (fun id => id = sid) st.serverSessions)
  /-- the nick change, under the *old* prefix: to exactly the sender, the sessions that share a channel with
  it, and the services links -/
  | nick (nick : String) (hp : m.params.head? = some nick) (hold : s.nick ≠ "")
      (hd : o.data = (IrcMsg.mk (some s.ircPrefix) "NICK" [nick]).render)
      (hr : RcptIs o (fun id => id = sid ∨ ∃ lc ∈ s.channels, Lists st lc id) st.serverSessions)

/-! ### frame bookkeeping: channel lists, services links, `s.id = key` -/

/-- every session is stored under its own id (the part of `Inv` that `modS` needs) -/
def IdOK (st : St) : Prop := ∀ id s, AMap.get st.sessions id = some s → s.id = id

/-- between `c` and `c'`: same channel lists, same services links; and `c'` still stores sessions under their ids -/
structure Keep (c c' : Ctx) : Prop where
  lists : SameLists c.st c'.st
  svc : c'.st.serverSessions = c.st.serverSessions
  idok : IdOK c'.st

namespace Keep

theorem refl {c : Ctx} (h : IdOK c.st) : Keep c c := ⟨.refl _, rfl, h⟩

theorem trans {a b c : Ctx} (h1 : Keep a b) (h2 : Keep b c) : Keep a c :=
  ⟨h1.lists.trans h2.lists, h2.svc.trans h1.svc, h2.idok⟩

theorem of_st {a c c' : Ctx} (h : Keep a c) (e : c'.st = c.st) : Keep a c' :=
  ⟨by rw [e]; exact h.lists, by rw [e]; exact h.svc, by rw [e]; exact h.idok⟩

theorem of_fields {a c c' : Ctx} (h : Keep a c) (e1 : c'.st.sessions = c.st.sessions)
    (e2 : c'.st.serverSessions = c.st.serverSessions) : Keep a c' :=
  ⟨h.lists.trans (.of_eq e1), e2.trans h.svc, by unfold IdOK; rw [e1]; exact h.idok⟩

theorem modS {a c c' : Ctx} {tid : Id} {f : Session → Session} (h : Keep a c)
    (hr : Robust.Irc.modS c tid f = .ok c') (hid : ∀ s, (f s).id = s.id)
    (hf : ∀ s, (f s).channels = s.channels) : Keep a c' := by
  have hl : SameLists c.st c'.st :=
    SameLists.modS (fun s hs => by rw [hid]; exact h.idok tid s hs) hf hr
  obtain ⟨s, hs, rfl⟩ := modS_eq_ok.1 hr
  refine ⟨h.lists.trans hl, h.svc, ?_⟩
  intro id x hx
  rw [putS_sessions, AMap.get_set] at hx
  split at hx
  · rename_i he
    cases hx
    exact he.symm
  · exact h.idok id x hx

end Keep

theorem holdCtx_out_eq (c : Ctx) (k : String) (held : Option SvsHold) : (holdCtx c k held).out = c.out := by
  cases held <;> rfl

theorem holdCtx_svc (c : Ctx) (k : String) (held : Option SvsHold) :
    (holdCtx c k held).st.serverSessions = c.st.serverSessions := by
  cases held <;> rfl

theorem renameCtx_out_eq (c : Ctx) (tid : Id) (lcnew old : String) (b : Bool) :
    (renameCtx c tid lcnew old b).out = c.out := by
  unfold renameCtx; cases b <;> rfl

theorem renameCtx_svc (c : Ctx) (tid : Id) (lcnew old : String) (b : Bool) :
    (renameCtx c tid lcnew old b).st.serverSessions = c.st.serverSessions := by
  unfold renameCtx; cases b <;> rfl

/-! ### the implied login: MOTD, OPER, welcome burst -/

section login
variable {st0 : St} {s0 : Session} {m0 : IrcMsg}

theorem cmdMotd_out' {c c' : Ctx} {sid : Id} {m : IrcMsg} (hr : cmdMotd c sid m = .ok c') :
    NewOut (NickLine st0 sid s0 m0) c c' ∧ c'.st = c.st := by
  unfold cmdMotd at hr
  obtain ⟨s, _, hr⟩ := Res.bind_eq_ok.1 hr
  cases hr
  refine ⟨?_, rfl⟩
  refine NewOut.sendUser ?_ (fun _ _ => .reply rfl)
  refine NewOut.sendUser ?_ (fun _ _ => .reply rfl)
  exact (NewOut.refl _ c).sendUser (fun _ _ => .reply rfl)

theorem cmdOper_out' {c c' : Ctx} {sid : Id} {m : IrcMsg} (hid : IdOK c.st)
    (hsv : c.st.serverSessions = st0.serverSessions) (hr : cmdOper c sid m = .ok c') :
    NewOut (NickLine st0 sid s0 m0) c c' ∧ Keep c c' := by
  unfold cmdOper at hr
  obtain ⟨s, hs, hr⟩ := Res.bind_eq_ok.1 hr
  obtain ⟨p0, hp0, hr⟩ := Res.bind_eq_ok.1 hr
  obtain ⟨p1, hp1, hr⟩ := Res.bind_eq_ok.1 hr
  split at hr
  · cases hr
    exact ⟨(NewOut.refl _ c).sendUser fun _ _ => .reply rfl, (Keep.refl hid).of_st rfl⟩
  · obtain ⟨c1, h1, hr⟩ := Res.bind_eq_ok.1 hr
    obtain ⟨s1, hs1, hr⟩ := Res.bind_eq_ok.1 hr
    have k1 : Keep c c1 := (Keep.refl hid).modS h1 (fun _ => rfl) (fun _ => rfl)
    have o1 : NewOut (NickLine st0 sid s0 m0) c c1 := (NewOut.refl _ c).modS h1
    cases hr
    refine ⟨?_, k1.of_st rfl⟩
    refine NewOut.emit (o1.sendUser fun _ _ => .reply rfl) fun i k => .oper ?_
    have e : c1.st.serverSessions = st0.serverSessions := k1.svc.trans hsv
    show RcptIs ⟨i, k, _, rcUser sid ++ c1.st.serverSessions⟩ _ _
    rw [e]
    exact RcptIs.of_user_svc

theorem loginOper_out' {c c' : Ctx} {sid : Id} {s : Session} (hid : IdOK c.st)
    (hsv : c.st.serverSessions = st0.serverSessions) (hr : loginOper c sid s = .ok c') :
    NewOut (NickLine st0 sid s0 m0) c c' ∧ Keep c c' := by
  unfold loginOper at hr
  dsimp only at hr
  split at hr
  · split at hr
    · cases hr
    · split at hr
      · exact cmdOper_out' hid hsv hr
      · cases hr; exact ⟨NewOut.refl _ _, Keep.refl hid⟩
  · cases hr; exact ⟨NewOut.refl _ _, Keep.refl hid⟩

theorem loginBanner_out' {c : Ctx} {sid : Id} (hsv : c.st.serverSessions = st0.serverSessions) (s : Session) :
    NewOut (NickLine st0 sid s0 m0) c (loginBanner c sid s) := by
  unfold loginBanner
  dsimp only
  split <;>
    repeat (first
      | exact NewOut.refl _ _
      | refine NewOut.sendUser ?_ (fun _ _ => .reply rfl)
      | refine NewOut.emit ?_ (fun _ _ => .svc hsv))

theorem maybeLogin_out' {c c' : Ctx} {sid : Id} {m : IrcMsg} (hid : IdOK c.st)
    (hsv : c.st.serverSessions = st0.serverSessions) (hr : maybeLogin c sid m = .ok c') :
    NewOut (NickLine st0 sid s0 m0) c c' ∧ Keep c c' := by
  rw [maybeLogin_eq] at hr
  obtain ⟨s, hs, hr⟩ := Res.bind_eq_ok.1 hr
  split at hr
  · cases hr; exact ⟨NewOut.refl _ _, Keep.refl hid⟩
  · split at hr
    · cases hr; exact ⟨NewOut.refl _ _, Keep.refl hid⟩
    · split at hr
      · cases hr
      · obtain ⟨c1, h1, hr⟩ := Res.bind_eq_ok.1 hr
        obtain ⟨c2, h2, hr⟩ := Res.bind_eq_ok.1 hr
        obtain ⟨c3, h3, hr⟩ := Res.bind_eq_ok.1 hr
        have k1 : Keep c c1 := (Keep.refl hid).modS h1 (fun _ => rfl) (fun _ => rfl)
        have o1 : NewOut (NickLine st0 sid s0 m0) c c1 := (NewOut.refl _ c).modS h1
        have kb : Keep c (loginBanner c1 sid s) := k1.of_st (loginBanner_st c1 sid s)
        have ob : NewOut (NickLine st0 sid s0 m0) c (loginBanner c1 sid s) :=
          o1.trans (loginBanner_out' (k1.svc.trans hsv) s)
        obtain ⟨o2, k2⟩ := loginOper_out' (st0 := st0) (s0 := s0) (m0 := m0) kb.idok (kb.svc.trans hsv) h2
        have k3 : Keep c c3 := (kb.trans k2).modS h3 (fun _ => rfl) (fun _ => rfl)
        have o3 : NewOut (NickLine st0 sid s0 m0) c c3 := (ob.trans o2).modS h3
        obtain ⟨o4, e4⟩ := cmdMotd_out' (st0 := st0) (s0 := s0) (m0 := m0) hr
        exact ⟨o3.trans o4, k3.of_st e4⟩

end login

/-! ### NICK -/

theorem cmdNickTail_out {c c' : Ctx} {sid : Id} {m : IrcMsg} {s : Session} {nick : String} {held : Option SvsHold}
    (hp : Pre c sid) (hn : NI c.st) (hs : AMap.get c.st.sessions sid = some s)
    (hvalid : isValidNickname nick = true) (hhead : m.params.head? = some nick)
    (hfree : AMap.contains c.st.nicks (nickToLower nick) = false ∨
      (s.loggedIn && nickToLower nick == nickToLower (if s.loggedIn then s.nick else "*")) = true)
    (hr : cmdNickTail c sid m s nick held = .ok c') :
    NewOut (NickLine c.st sid s m) c c' ∧ SameLists c.st c'.st := by
  have hnick : nick ≠ "" := isValidNickname_ne_empty hvalid
  have hfirst : s.nick = "" → (∀ x, AMap.get c.st.nicks x ≠ some sid) ∧ s.channels = [] := fun he =>
    let h := (hn.ninv hp.inv.toWInvCore).2 sid s hs he
    ⟨h.2, h.1⟩
  have hidok : IdOK c.st := fun id x hx => (hp.inv.sessId id x hx).1
  unfold cmdNickTail at hr
  dsimp only at hr
  obtain ⟨hs0, hn0, hc0⟩ := holdCtx_facts c (nickToLower nick) held
  have hp0 : Pre (holdCtx c (nickToLower nick) held) sid := hp.holdCtx _ _
  have n0 : NI (holdCtx c (nickToLower nick) held).st := hn.congr hs0 hn0 hc0
  have k0 : Keep c (holdCtx c (nickToLower nick) held) :=
    (Keep.refl hidok).of_fields hs0 (holdCtx_svc _ _ _)
  have o0 : NewOut (NickLine c.st sid s m) c (holdCtx c (nickToLower nick) held) :=
    NewOut.of_out (holdCtx_out_eq _ _ _)
  generalize holdCtx c (nickToLower nick) held = c0 at hr hs0 hn0 hp0 n0 k0 o0
  split at hr
  · cases hr; exact ⟨o0, k0.lists⟩
  generalize hb : (nickToLower s.nick != "" &&
      !(s.loggedIn && nickToLower nick == nickToLower (if s.loggedIn = true then s.nick else "*"))) = b at hr
  obtain ⟨c1, hm1, hr⟩ := Res.bind_eq_ok.1 hr
  obtain ⟨c2, hm2, hr⟩ := Res.bind_eq_ok.1 hr
  have hs' : AMap.get c0.st.sessions sid = some s := by rw [hs0]; exact hs
  have hlive : s.deleted = false := hp.live hs
  have hcase : RenameCase c0.st.nicks sid s (nickToLower nick) (nickToLower s.nick) b :=
    cmdNick_renameCase hp0.inv.toWInvCore hs' hlive hnick (by rw [hn0]; exact hfirst) (by rw [hn0]; exact hfree) hb
  have hI1 := rename_HInv hp0.inv.toHInv hs' hm1 (fun _ => ⟨rfl, rfl, rfl, rfl⟩) hcase
  have hL1 : LInv c1.st := hp0.linv.modS hm1 (fun _ _ _ => hnick)
  have hA1 := modS_keeps hm1 hp0.actor
  have hD1 : ∀ id x, AMap.get c1.st.sessions id = some x → x.deleted = false := by
    obtain ⟨t, ht, rfl⟩ := modS_eq_ok.1 hm1
    rw [hs'] at ht; cases ht
    intro id x hx
    rw [putS_sessions, AMap.get_set] at hx
    split at hx
    · cases hx; exact hlive
    · exact hp0.live hx
  have n1 : NI c1.st := n0.modS_nick hm1 (fun _ => hvalid)
  have k1 : Keep c c1 := k0.modS hm1 (fun _ => rfl) (fun _ => rfl)
  have o1 : NewOut (NickLine c.st sid s m) c c1 := o0.modS hm1
  have hlc : nickToLower nick ≠ "" := fun he => hnick (nickToLower_eq_empty.1 he)
  have hss := renameCtx_sessions c1 sid (nickToLower nick) (nickToLower s.nick) b
  have hpr : Pre (renameCtx c1 sid (nickToLower nick) (nickToLower s.nick) b) sid :=
    ⟨⟨hI1, by rw [hss]; exact hD1⟩, hL1.congr hss, by rw [hss]; exact hA1, hp.reply0⟩
  have nr := n1.renameCtx sid (nickToLower s.nick) b hlc
  have kr : Keep c (renameCtx c1 sid (nickToLower nick) (nickToLower s.nick) b) :=
    k1.of_fields hss (renameCtx_svc _ _ _ _ _)
  have or' : NewOut (NickLine c.st sid s m) c (renameCtx c1 sid (nickToLower nick) (nickToLower s.nick) b) :=
    o1.step (renameCtx_out_eq _ _ _ _ _)
  generalize renameCtx c1 sid (nickToLower nick) (nickToLower s.nick) b = cr at hm2 hpr nr kr or'
  have hp2 : Pre c2 sid := hpr.modS_inert hm2 updateIrcPrefix_inert (fun _ => rfl)
  have n2 : NI c2.st := nr.modS_keep hm2 (fun _ => ⟨rfl, rfl⟩)
  have k2 : Keep c c2 := kr.modS hm2 (fun _ => rfl) (fun _ => rfl)
  have o2 : NewOut (NickLine c.st sid s m) c c2 := or'.modS hm2
  split at hr
  · rename_i hold
    obtain ⟨s2, hs2, hr⟩ := Res.bind_eq_ok.1 hr
    obtain ⟨rc, hrc, hr⟩ := Res.bind_eq_ok.1 hr
    cases hr
    rw [getS_eq_ok] at hs2
    have hold' : s.nick ≠ "" := by
      intro he
      rw [he] at hold
      simp at hold
    have hch : s2.channels = s.channels := by
      have := k2.lists sid
      rw [hs2, hs] at this
      simpa using this
    refine ⟨o2.emit fun i k => .nick nick hhead hold' rfl ?_, k2.lists⟩
    show RcptIs ⟨i, k, _, rcUser sid ++ rc ++ c2.st.serverSessions⟩ _ _
    rw [k2.svc]
    refine (RcptIs.of_user_list_svc (rcCommonChannels_lists hp2.inv n2 hrc)).congr fun id => ?_
    rw [hch]
    constructor
    · rintro (h | ⟨lc, hl, h⟩)
      · exact Or.inl h
      · exact Or.inr ⟨lc, hl, k2.lists.lists.1 h⟩
    · rintro (h | ⟨lc, hl, h⟩)
      · exact Or.inl h
      · exact Or.inr ⟨lc, hl, k2.lists.lists.2 h⟩
  · obtain ⟨o3, k3⟩ := maybeLogin_out' (st0 := c.st) (s0 := s) (m0 := m) k2.idok k2.svc hr
    exact ⟨o2.trans o3, (k2.trans k3).lists⟩

/-- **NICK**: every line produced is a numeric reply / a line of the implied login burst, or the nick change
under the old prefix, delivered to exactly the sender, the sessions sharing a channel with it and the
services links; no channel list changes. -/
theorem cmdNick_out {c c' : Ctx} {sid : Id} {m : IrcMsg} {s : Session} (hp : Pre c sid) (hn : NI c.st)
    (hs : AMap.get c.st.sessions sid = some s) (hr : cmdNick c sid m = .ok c') :
    NewOut (NickLine c.st sid s m) c c' ∧ SameLists c.st c'.st := by
  rw [cmdNick_eq, getS_of_get hs] at hr
  simp only [Res.ok_bind] at hr
  generalize hnk : m.params.head?.getD "" = nick at hr
  have reply : ∀ msg, NewOut (NickLine c.st sid s m) c (sendUser c sid msg) ∧ SameLists c.st (sendUser c sid msg).st :=
    fun _ => ⟨(NewOut.refl _ c).sendUser fun _ _ => .reply rfl, .refl _⟩
  split at hr
  · cases hr; exact reply _
  generalize hdest : (if s.loggedIn = true then s.nick else "*") = dest at hr
  split at hr
  · cases hr; exact reply _
  rename_i hvalid
  split at hr
  · cases hr; exact reply _
  rename_i hfree
  have hvalid' : isValidNickname nick = true := by simpa using hvalid
  have hnick : nick ≠ "" := isValidNickname_ne_empty hvalid'
  have hhead : m.params.head? = some nick := by
    cases hh : m.params.head? with
    | none => rw [hh] at hnk; exact absurd hnk.symm hnick
    | some x => rw [hh] at hnk; rw [← hnk]; rfl
  have hfree' := nick_free_of_not hfree
  subst hdest
  split at hr
  · split at hr
    · cases hr; exact reply _
    · exact cmdNickTail_out hp hn hs hvalid' hhead hfree' hr
  · exact cmdNickTail_out hp hn hs hvalid' hhead hfree' hr

end Robust.Irc
