import Robust.Irc.Proofs.Clean
/-!
C15, clause "every delivered line starts with a prefix and a command" — byte level.

* `cmdToken bytes`: the command token of a line, as the monitor's Python predicate finds it: if the line
  starts with `':'`, the maximal run of non-space bytes after the first space; otherwise the maximal run of
  non-space bytes at the start.  `HasCommand bytes` says that this token is not empty.
* `render_cmdToken`: if the command is not empty and contains no space, the prefix (if any) contains no
  space, and `":" ++ prefix ++ " " ++ command` fits into 510 bytes, then the command token of
  `IrcMsg.render m` is *exactly* the UTF-8 encoding of `m.command`: the 510-byte cut never touches it.
* length of the UTF-8 encoding: at most 4 bytes per character, exactly one for ASCII.
-/
namespace Robust.Irc
open Robust

/-! ## the predicate -/

/-- maximal run of non-space bytes at the start -/
def firstToken (b : Bytes) : Bytes := b.takeWhile (· != 32)

/-- the command token of a line: after `":" prefix " "` if the line starts with `':'` (byte 58),
at the start otherwise -/
def cmdToken (b : Bytes) : Bytes :=
  if b.head? = some 58 then firstToken ((b.tail.dropWhile (· != 32)).drop 1) else firstToken b

/-- the line is `[":" prefix-without-space " "] command …` with a non-empty command token -/
def HasCommand (b : Bytes) : Prop := cmdToken b ≠ []

instance (b : Bytes) : Decidable (HasCommand b) := by unfold HasCommand; infer_instance

/-- no space character -/
def Spaceless (s : String) : Prop := ∀ c ∈ s.toList, c ≠ ' '

instance (s : String) : Decidable (Spaceless s) := by unfold Spaceless; infer_instance

/-- all characters are ASCII -/
def Ascii (s : String) : Prop := ∀ c ∈ s.toList, c.toNat < 128

instance (s : String) : Decidable (Ascii s) := by unfold Ascii; infer_instance

/-! ## UTF-8 -/

theorem utf8_append (a b : String) : utf8 (a ++ b) = utf8 a ++ utf8 b := by
  simp only [utf8_eq_flatMap, String.toList_append, List.flatMap_append]

theorem utf8_length (s : String) : (utf8 s).length = s.utf8ByteSize := by
  unfold utf8 String.utf8ByteSize
  rw [String.toUTF8_eq_toByteArray, byteArray_toList, Array.length_toList]
  rfl

theorem utf8_space : utf8 " " = [32] := by rw [utf8_eq_flatMap]; decide
theorem utf8_colon : utf8 ":" = [58] := by rw [utf8_eq_flatMap]; decide
theorem utf8_empty : utf8 "" = [] := by rw [utf8_eq_flatMap]; decide

theorem utf8_ne_nil {s : String} (h : s ≠ "") : utf8 s ≠ [] := by
  intro he
  apply h
  have hl : (utf8 s).length = 0 := by rw [he]; rfl
  rw [utf8_eq_flatMap] at hl
  cases hs : s.toList with
  | nil => exact String.toList_eq_nil_iff.1 hs
  | cons c t =>
    rw [hs] at hl
    simp only [List.flatMap_cons, List.length_append, String.length_utf8EncodeChar] at hl
    have := Char.utf8Size_pos c
    omega

theorem char_eq_space_of_toNat {c : Char} (h : c.toNat = 32) : c = ' ' := by
  apply Char.ext; apply UInt32.toNat_inj.mp; exact h

theorem char_eq_colon_of_toNat {c : Char} (h : c.toNat = 58) : c = ':' := by
  apply Char.ext; apply UInt32.toNat_inj.mp; exact h

/-- a string without space characters has no byte 32 -/
theorem utf8_spaceless {s : String} (h : Spaceless s) : ∀ x ∈ utf8 s, (x != 32) = true := by
  intro x hx
  rw [utf8_eq_flatMap, List.mem_flatMap] at hx
  obtain ⟨c, hc, hxc⟩ := hx
  have hb := utf8EncodeChar_bytes c x hxc
  have hne : c.toNat ≠ 32 := fun he => h c hc (char_eq_space_of_toNat he)
  simp only [bne_iff_ne, ne_eq]
  intro he; subst he
  simp at hb
  omega

/-- the first byte of a string that does not start with `':'` is not 58 -/
theorem utf8_head_ne_colon {s : String} (h : s.toList.head? ≠ some ':') : (utf8 s).head? ≠ some 58 := by
  rw [utf8_eq_flatMap]
  cases hs : s.toList with
  | nil => simp
  | cons c t =>
    rw [hs] at h
    have hne : c.toNat ≠ 58 := fun he => h (by rw [char_eq_colon_of_toNat he]; rfl)
    intro hh
    have hmem : (58 : UInt8) ∈ String.utf8EncodeChar c := by
      have hl := String.length_utf8EncodeChar c
      have hp := Char.utf8Size_pos c
      cases he : String.utf8EncodeChar c with
      | nil => rw [he] at hl; simp at hl; omega
      | cons x r =>
        rw [List.flatMap_cons, he] at hh
        simp only [List.cons_append, List.head?_cons, Option.some.injEq] at hh
        subst hh; exact List.mem_cons_self ..
    have hb := utf8EncodeChar_bytes c 58 hmem
    simp at hb
    omega

theorem utf8_length_le (s : String) : (utf8 s).length ≤ 4 * s.toList.length := by
  rw [utf8_eq_flatMap]
  induction s.toList with
  | nil => simp
  | cons c t ih =>
    simp only [List.flatMap_cons, List.length_append, List.length_cons, String.length_utf8EncodeChar]
    have := Char.utf8Size_le_four c
    omega

theorem utf8Size_ascii {c : Char} (h : c.toNat < 128) : c.utf8Size = 1 := by
  have hv : c.val.toNat = c.toNat := rfl
  have : c.val ≤ 127 := by
    rw [UInt32.le_iff_toNat_le, hv]
    show c.toNat ≤ 127
    omega
  simp only [Char.utf8Size]
  exact if_pos this

theorem utf8_length_ascii {s : String} (h : Ascii s) : (utf8 s).length = s.toList.length := by
  rw [utf8_eq_flatMap]
  unfold Ascii at h
  generalize s.toList = l at h ⊢
  induction l with
  | nil => simp
  | cons c t ih =>
    simp only [List.flatMap_cons, List.length_append, List.length_cons, String.length_utf8EncodeChar]
    rw [utf8Size_ascii (h c (List.mem_cons_self ..)), ih (fun c hc => h c (List.mem_cons_of_mem _ hc))]
    omega

theorem utf8ByteSize_le (s : String) : s.utf8ByteSize ≤ 4 * s.toList.length := by
  rw [← utf8_length]; exact utf8_length_le s

theorem utf8ByteSize_ascii {s : String} (h : Ascii s) : s.utf8ByteSize = s.toList.length := by
  rw [← utf8_length]; exact utf8_length_ascii h

theorem utf8ByteSize_append (a b : String) : (a ++ b).utf8ByteSize = a.utf8ByteSize + b.utf8ByteSize := by
  rw [← utf8_length, utf8_append, List.length_append, utf8_length, utf8_length]

/-! ## tokens -/

/-- a block of non-space bytes followed by nothing or by a space is the first token -/
theorem firstToken_block {C T : Bytes} (hC : ∀ x ∈ C, (x != 32) = true) (hT : T = [] ∨ T.head? = some 32) :
    firstToken (C ++ T) = C := by
  unfold firstToken
  rw [List.takeWhile_append_of_pos hC]
  rcases hT with rfl | hT
  · simp
  · cases T with
    | nil => simp
    | cons x r =>
      simp only [List.head?_cons, Option.some.injEq] at hT
      subst hT
      simp

/-- cutting keeps "nothing or starts with a space" -/
theorem tail_take {T : Bytes} (hT : T = [] ∨ T.head? = some 32) (k : Nat) :
    T.take k = [] ∨ (T.take k).head? = some 32 := by
  rcases hT with rfl | hT
  · left; simp
  · cases k with
    | zero => left; simp
    | succ k =>
      cases T with
      | nil => left; simp
      | cons x r => right; simpa using hT

/-- the command token of `":" P " " C T` (no space in `P`, `C`; `T` empty or starting with a space) -/
theorem cmdToken_prefixed {P C T : Bytes} (hP : ∀ x ∈ P, (x != 32) = true) (hC : ∀ x ∈ C, (x != 32) = true)
    (hT : T = [] ∨ T.head? = some 32) : cmdToken (58 :: (P ++ 32 :: (C ++ T))) = C := by
  unfold cmdToken
  rw [if_pos (by rfl)]
  simp only [List.tail_cons]
  rw [List.dropWhile_append_of_pos hP]
  simp only [List.dropWhile_cons, bne_self_eq_false, Bool.false_eq_true, ↓reduceIte, List.drop_succ_cons,
    List.drop_zero]
  exact firstToken_block hC hT

/-- the command token of `C T` (`C` does not start with `':'`) -/
theorem cmdToken_plain {C T : Bytes} (h58 : C.head? ≠ some 58) (hne : C ≠ []) (hC : ∀ x ∈ C, (x != 32) = true)
    (hT : T = [] ∨ T.head? = some 32) : cmdToken (C ++ T) = C := by
  unfold cmdToken
  have : (C ++ T).head? = C.head? := by
    cases C with
    | nil => exact absurd rfl hne
    | cons x r => rfl
  rw [this, if_neg h58]
  exact firstToken_block hC hT

/-! ## rendering -/

/-- the text before the 510-byte cut -/
def IrcMsg.renderTail (m : IrcMsg) : String :=
  (if m.params.length > 1 then " " ++ joinStr " " m.params.dropLast else "") ++
    (match m.params.getLast? with
      | none => ""
      | some t =>
        " " ++ (if (t.isEmpty || t.toList.contains ' ' || t.toList.head? == some ':') then ":" else "") ++ t)

theorem render_eq (m : IrcMsg) : m.render =
    (utf8 ((match m.pfx with | some p => ":" ++ p.str ++ " " | none => "") ++ m.command ++ m.renderTail)).take 510 := by
  unfold IrcMsg.render IrcMsg.renderTail
  simp only []
  rw [String.append_assoc (s₁ := _ ++ m.command)]
  rfl

/-- what follows the command is nothing or starts with a space -/
theorem renderTail_head (m : IrcMsg) : utf8 m.renderTail = [] ∨ (utf8 m.renderTail).head? = some 32 := by
  unfold IrcMsg.renderTail
  split
  · right
    rw [utf8_append, utf8_append, utf8_space]; rfl
  · rw [utf8_append, utf8_empty, List.nil_append]
    split
    · left; exact utf8_empty
    · right
      rw [utf8_append, utf8_append, utf8_space]; rfl

/-- **the cut never touches the command**: for a non-empty command without spaces, under a prefix without
spaces such that `":" prefix " " command` fits into 510 bytes (resp. without prefix: the command fits and
does not start with `':'`), the command token of the rendered line is exactly the command -/
theorem render_cmdToken (m : IrcMsg) (hne : m.command ≠ "") (hsp : Spaceless m.command)
    (hpfx : ∀ p, m.pfx = some p → Spaceless p.str ∧ p.str.utf8ByteSize + m.command.utf8ByteSize + 2 ≤ 510)
    (hnone : m.pfx = none → m.command.toList.head? ≠ some ':' ∧ m.command.utf8ByteSize ≤ 510) :
    cmdToken m.render = utf8 m.command := by
  rw [render_eq]
  have hC := utf8_spaceless hsp
  have hT := renderTail_head m
  cases hp : m.pfx with
  | none =>
    obtain ⟨h58, hlen⟩ := hnone hp
    simp only []
    rw [utf8_append, utf8_append, utf8_empty, List.nil_append, List.take_append,
      List.take_of_length_le (by rw [utf8_length]; exact hlen)]
    exact cmdToken_plain (utf8_head_ne_colon h58) (utf8_ne_nil hne) hC (tail_take hT _)
  | some p =>
    obtain ⟨hps, hlen⟩ := hpfx p hp
    simp only []
    rw [utf8_append, utf8_append, utf8_append, utf8_append, utf8_colon, utf8_space]
    have e : [58] ++ utf8 p.str ++ [32] ++ utf8 m.command ++ utf8 m.renderTail
        = (58 :: (utf8 p.str ++ 32 :: utf8 m.command)) ++ utf8 m.renderTail := by simp
    rw [e, List.take_append, List.take_of_length_le (by
      simp only [List.length_cons, List.length_append, utf8_length]; omega)]
    have e2 : 58 :: (utf8 p.str ++ 32 :: utf8 m.command) ++ List.take
          (510 - (58 :: (utf8 p.str ++ 32 :: utf8 m.command)).length) (utf8 m.renderTail)
        = 58 :: (utf8 p.str ++ 32 :: (utf8 m.command ++ List.take
          (510 - (58 :: (utf8 p.str ++ 32 :: utf8 m.command)).length) (utf8 m.renderTail))) := by simp
    rw [e2]
    exact cmdToken_prefixed (utf8_spaceless hps) hC (tail_take hT _)

/-- … hence the rendered line has a command -/
theorem render_hasCommand (m : IrcMsg) (hne : m.command ≠ "") (hsp : Spaceless m.command)
    (hpfx : ∀ p, m.pfx = some p → Spaceless p.str ∧ p.str.utf8ByteSize + m.command.utf8ByteSize + 2 ≤ 510)
    (hnone : m.pfx = none → m.command.toList.head? ≠ some ':' ∧ m.command.utf8ByteSize ≤ 510) :
    HasCommand m.render := by
  unfold HasCommand
  rw [render_cmdToken m hne hsp hpfx hnone]
  exact utf8_ne_nil hne

/-- **the bound on the prefix is needed**: under a prefix without space of 509 bytes or more, the 510-byte cut
falls inside the prefix and the rendered line has no command (what happened with 600-character user names
before they were cut to 30 characters) -/
theorem render_long_prefix_no_command (m : IrcMsg) (p : Prefix) (hp : m.pfx = some p) (hsp : Spaceless p.str)
    (hlen : 509 ≤ p.str.utf8ByteSize) : ¬ HasCommand m.render := by
  rw [render_eq, hp]
  simp only []
  rw [utf8_append, utf8_append, utf8_append, utf8_append, utf8_colon]
  have e : [58] ++ utf8 p.str ++ utf8 " " ++ utf8 m.command ++ utf8 m.renderTail
      = 58 :: (utf8 p.str ++ (utf8 " " ++ utf8 m.command ++ utf8 m.renderTail)) := by simp
  rw [e]
  have e2 : List.take 510 (58 :: (utf8 p.str ++ (utf8 " " ++ utf8 m.command ++ utf8 m.renderTail)))
      = 58 :: List.take 509 (utf8 p.str) := by
    rw [show (510 : Nat) = 509 + 1 from rfl, List.take_succ_cons, List.take_append]
    have : 509 - (utf8 p.str).length = 0 := by rw [utf8_length]; omega
    rw [this, List.take_zero, List.append_nil]
  rw [e2]
  unfold HasCommand cmdToken
  rw [if_pos (by rfl)]
  simp only [List.tail_cons]
  have hall : ∀ x ∈ List.take 509 (utf8 p.str), (x != 32) = true :=
    fun x hx => utf8_spaceless hsp x (List.mem_of_mem_take hx)
  have : List.dropWhile (fun x => x != 32) (List.take 509 (utf8 p.str)) = [] := by
    have := List.dropWhile_append_of_pos (p := fun x => x != 32) (l₂ := []) hall
    simpa using this
  rw [this]
  simp [firstToken]

/-! ## parameters of a parsed message -/

theorem spaceless_ofList {l : List Char} (h : ∀ c ∈ l, c ≠ ' ') : Spaceless (String.ofList l) := by
  unfold Spaceless; rw [String.toList_ofList]; exact h

theorem spaceless_takeChars {s : String} (h : Spaceless s) (n : Nat) : Spaceless (takeChars s n) :=
  spaceless_ofList fun c hc => h c (List.mem_of_mem_take hc)

theorem mem_takeWhile_holds {α : Type} (p : α → Bool) : ∀ (l : List α) (x : α), x ∈ l.takeWhile p → p x = true
  | [], _, h => by simp at h
  | a :: l, x, h => by
    by_cases hp : p a = true
    · rw [List.takeWhile_cons, if_pos hp] at h
      rcases List.mem_cons.1 h with rfl | h
      · exact hp
      · exact mem_takeWhile_holds p l x h
    · rw [List.takeWhile_cons, if_neg hp] at h
      cases h

theorem takeWhile_of_all {α : Type} (p : α → Bool) : ∀ (l : List α), (∀ x ∈ l, p x = true) → l.takeWhile p = l
  | [], _ => rfl
  | a :: l, h => by
    rw [List.takeWhile_cons, if_pos (h a (List.mem_cons_self ..)),
      takeWhile_of_all p l (fun x hx => h x (List.mem_cons_of_mem _ hx))]

theorem spaceless_firstWord (s : String) : Spaceless (firstWord s) := by
  unfold firstWord
  exact spaceless_ofList fun c hc => by
    have := mem_takeWhile_holds (· != ' ') _ c hc
    simpa using this

theorem firstWord_of_spaceless {s : String} (h : Spaceless s) : firstWord s = s := by
  unfold firstWord
  rw [takeWhile_of_all (· != ' ') _ (fun c hc => by simpa using h c hc), String.ofList_toList]

theorem spaceless_empty : Spaceless "" := by decide

theorem spaceless_append {a b : String} (ha : Spaceless a) (hb : Spaceless b) : Spaceless (a ++ b) := by
  intro c hc
  rw [String.toList_append, List.mem_append] at hc
  rcases hc with hc | hc
  · exact ha c hc
  · exact hb c hc

/-- the pieces of `strings.Split(s, " ")` contain no space -/
theorem splitChar_go_spaceless (cs cur : List Char) (acc : List String)
    (hcur : ∀ c ∈ cur, c ≠ ' ') (hacc : ∀ s ∈ acc, Spaceless s) :
    ∀ s ∈ splitChar.go ' ' cs cur acc, Spaceless s := by
  induction cs generalizing cur acc with
  | nil =>
    intro s hs
    simp only [splitChar.go, List.mem_reverse, List.mem_cons] at hs
    rcases hs with rfl | hs
    · exact spaceless_ofList fun c hc => hcur c (List.mem_reverse.1 hc)
    · exact hacc s hs
  | cons c rest ih =>
    unfold splitChar.go
    split
    · apply ih _ _ (fun _ h => absurd h List.not_mem_nil)
      intro s hs
      rcases List.mem_cons.mp hs with rfl | hs
      · exact spaceless_ofList fun c hc => hcur c (List.mem_reverse.1 hc)
      · exact hacc s hs
    · rename_i hne
      apply ih _ _ _ hacc
      intro d hd
      rcases List.mem_cons.mp hd with rfl | hd
      · exact hne
      · exact hcur d hd

theorem splitChar_spaceless (s : String) : ∀ x ∈ splitChar s ' ', Spaceless x :=
  splitChar_go_spaceless s.toList [] [] (fun _ h => absurd h List.not_mem_nil) (fun _ h => absurd h List.not_mem_nil)

/-- every parameter but the last one contains no space (`irc.ParseMessage` splits the middle
parameters at spaces; only the trailing parameter may contain spaces) -/
def MidOK (m : IrcMsg) : Prop := ∀ p ∈ m.params.dropLast, Spaceless p

instance (m : IrcMsg) : Decidable (MidOK m) := by unfold MidOK; infer_instance

theorem parseRest_midOK (pfx : Option Prefix) (r : List Char) : MidOK (parseRest pfx r) := by
  unfold parseRest MidOK
  split
  · intro p hp; simp at hp
  · intro p hp; simp at hp
  · simp only []
    split
    · intro p hp
      exact splitChar_spaceless _ p (List.dropLast_subset _ hp)
    · intro p hp
      rw [List.dropLast_concat] at hp
      split at hp
      · exact splitChar_spaceless _ p hp
      · simp at hp

theorem parseMessage_midOK {raw : String} {m : IrcMsg} (hp : parseMessage raw = some m) : MidOK m := by
  unfold parseMessage at hp
  simp only [] at hp
  split at hp
  · simp at hp
  · split at hp
    · split at hp
      · simp at hp
      · split at hp
        · simp at hp
        · injection hp with hp; subst hp
          exact parseRest_midOK _ _
    · injection hp with hp; subst hp
      exact parseRest_midOK _ _

/-- the first parameter of a message with at least two parameters contains no space -/
theorem MidOK.param0 {m : IrcMsg} (h : MidOK m) (hl : 2 ≤ m.params.length) {u : String}
    (hu : m.params[0]? = some u) : Spaceless u := by
  unfold MidOK at h
  cases hm : m.params with
  | nil => rw [hm] at hl; simp at hl
  | cons a t =>
    cases t with
    | nil => rw [hm] at hl; simp at hl
    | cons b t' =>
      rw [hm] at hu h
      simp only [List.getElem?_cons_zero, Option.some.injEq] at hu
      subst hu
      exact h a (by simp [List.dropLast])

end Robust.Irc
