import Robust.Irc.Proofs.CleanClientB
import Robust.Irc.Proofs.FrameNick
/-!
C15: NICK and JOIN keep `CCtx` (via the factorings `cmdNick_eq` / `joinOne_eq` of `H1c` / `H1d`).
-/
namespace Robust.Irc
open Robust AMap

/-! ### NICK -/

theorem holdCtx_cctx {c : Ctx} (hc : CCtx c) (k : String) (held : Option SvsHold) : CCtx (holdCtx c k held) := by
  have hI := hc.inv
  cases held with
  | none => exact hc
  | some _ => exact hc.setSt ⟨hI.sessions, hI.channels, all_erase (P := fun (h : SvsHold) => Clean h.reason) hI.svsholds _, hI.banned, hI.serverName⟩

theorem renameCtx_cctx {c : Ctx} (hc : CCtx c) (tid : Id) (lcnew old : String) (b : Bool) :
    CCtx (renameCtx c tid lcnew old b) := by
  have hI := hc.inv
  unfold renameCtx
  dsimp only
  split
  · refine hc.setSt ⟨hI.sessions, ?_, hI.svsholds, hI.banned, hI.serverName⟩
    refine all_mapVal hI.channels (fun e => { e.2 with nicks := _ }) ?_
    intro e _ he
    exact he.setNicks _
  · exact hc.setSt (hI.same rfl rfl rfl rfl rfl)

theorem cmdNickTail_clean {c c' : Ctx} {sid : Id} {m : IrcMsg} {s : Session} {nick : String} {held : Option SvsHold}
    (hc : CCtx c) (cs : CleanSess s) (hn : Clean nick)
    (hr : cmdNickTail c sid m s nick held = .ok c') : CCtx c' := by
  unfold cmdNickTail at hr
  dsimp only at hr
  have n0 := holdCtx_cctx hc (nickToLower nick) held
  generalize holdCtx c (nickToLower nick) held = c0 at hr n0
  split at hr
  · cases hr; exact n0
  generalize (nickToLower s.nick != "" &&
      !(s.loggedIn && nickToLower nick == nickToLower (if s.loggedIn = true then s.nick else "*"))) = b at hr
  obtain ⟨c1, hm1, hr⟩ := Res.bind_eq_ok.1 hr
  obtain ⟨c2, hm2, hr⟩ := Res.bind_eq_ok.1 hr
  have n1 : CCtx c1 := n0.modS hm1 (fun _ hs => by clean_rec)
  have nr := renameCtx_cctx n1 sid (nickToLower nick) (nickToLower s.nick) b
  have n2 : CCtx c2 := nr.modS hm2 (fun _ hs => by unfold updateIrcPrefix; clean_rec)
  have hI2 := n2.inv
  split at hr
  · obtain ⟨s2, _, hr⟩ := Res.bind_eq_ok.1 hr
    obtain ⟨rc, _, hr⟩ := Res.bind_eq_ok.1 hr
    cases hr
    cctx_tac
  · exact maybeLogin_clean n2 hr

theorem cmdNick_clean {c c' : Ctx} {sid : Id} {m : IrcMsg} (hc : CCtx c) (hm : CleanMsg m)
    (hr : cmdNick c sid m = .ok c') : CCtx c' := by
  have hI := hc.inv
  rw [cmdNick_eq] at hr
  obtain ⟨s, hs, hr⟩ := Res.bind_eq_ok.1 hr
  have cs := hc.getS hs
  dsimp only at hr
  have hn : Clean (m.params.head?.getD "") := hm.headD
  generalize m.params.head?.getD "" = nick at hr hn
  split at hr
  · cases hr; cctx_tac
  have hd : Clean (if s.loggedIn = true then s.nick else "*") := by clean_atom
  generalize (if s.loggedIn = true then s.nick else "*") = dest at hr hd
  split at hr
  · cases hr; cctx_tac
  split at hr
  · cases hr; cctx_tac
  split at hr
  · rename_i hold hh
    have hrs := hI.getHold hh
    split at hr
    · cases hr; cctx_tac
    · exact cmdNickTail_clean hc cs hn hr
  · exact cmdNickTail_clean hc cs hn hr

/-! ### JOIN -/

/-- an optional announcement is clean -/
def CleanOptMsg (o : Option IrcMsg) : Prop := ∀ x, o = some x → CleanMsg x

theorem CleanOptMsg.none : CleanOptMsg none := fun _ h => nomatch h
theorem CleanOptMsg.some {x : IrcMsg} (h : CleanMsg x) : CleanOptMsg (some x) := fun _ hx => by cases hx; exact h

theorem joinAdmit_clean {c c1 : Ctx} {sid : Id} {s : Session} {chn key : String} {mm : Option (Option IrcMsg)}
    (hc : CCtx c) (cs : CleanSess s) (hchn : Clean chn) (hr : joinAdmit c sid s chn key = .ok (c1, mm)) :
    CCtx c1 ∧ ∀ o, mm = some o → CleanOptMsg o := by
  have hI := hc.inv
  unfold joinAdmit at hr
  dsimp only at hr
  obtain ⟨r, h1, hr⟩ := Res.bind_eq_ok.1 hr
  have hr1 : CCtx r.1 ∧ CleanOptMsg r.2.1 := by
    simp only [getChan_eq] at h1
    split at h1
    · split at h1
      · cases h1; exact ⟨by cctx_tac, CleanOptMsg.none⟩
      · cases h1; exact ⟨by cctx_tac, CleanOptMsg.some (by clean_msg)⟩
    · rename_i ch hch
      split at h1
      · cases h1; exact ⟨by cctx_tac, CleanOptMsg.none⟩
      · split at h1
        · cases h1
        · obtain ⟨isB, _, h1⟩ := Res.bind_eq_ok.1 h1
          split at h1
          · cases h1; exact ⟨by cctx_tac, CleanOptMsg.none⟩
          · split at h1
            · cases h1; exact ⟨by cctx_tac, CleanOptMsg.none⟩
            · cases h1; exact ⟨hc, CleanOptMsg.none⟩
  split at hr
  · cases hr; exact ⟨hr1.1, fun _ h => nomatch h⟩
  · cases hr; exact ⟨hr1.1, fun o ho => by cases ho; exact hr1.2⟩

theorem joinAnnounce_clean {c c' : Ctx} {sid : Id} {chn : String} {ch : Channel} {ex : Bool}
    {mm : Option IrcMsg} (hc : CCtx c) (hchn : Clean chn) (hmm : CleanOptMsg mm)
    (hr : joinAnnounce c sid chn ch ex mm = .ok c') : CCtx c' := by
  have hI := hc.inv
  unfold joinAnnounce at hr
  obtain ⟨s1, hs1, hr⟩ := Res.bind_eq_ok.1 hr
  obtain ⟨rc, hrc, hr⟩ := Res.bind_eq_ok.1 hr
  dsimp only at hr
  obtain ⟨c1, h1, hr⟩ := Res.bind_eq_ok.1 hr
  obtain ⟨c2, h2, hr⟩ := Res.bind_eq_ok.1 hr
  obtain ⟨c3, h3, hr⟩ := Res.bind_eq_ok.1 hr
  have n1 : CCtx c1 := by
    cases mm with
    | some x =>
      dsimp only at h1
      obtain ⟨rc2, _, h1⟩ := Res.bind_eq_ok.1 h1
      have hx := hmm x rfl
      cases h1; cctx_tac
    | none => cases h1; cctx_tac
  have hI1 := n1.inv
  have hm1 : CleanMsg ⟨none, "MODE", [chn]⟩ := by clean_msg
  have hm2 : CleanMsg ⟨none, "TOPIC", [chn]⟩ := by clean_msg
  have hm3 : CleanMsg ⟨none, "NAMES", [chn]⟩ := by clean_msg
  refine cmdNames_clean (cmdTopic_clean (cmdMode_clean ?_ hm1 h2) hm2 h3) hm3 hr
  cctx_tac

theorem joinTail_clean {c c' : Ctx} {sid : Id} {s : Session} {chn : String} {ex : Bool} {mm : Option IrcMsg}
    (hc : CCtx c) (hchn : Clean chn) (hmm : CleanOptMsg mm)
    (hr : joinTail c sid s chn ex mm = .ok c') : CCtx c' := by
  have hI := hc.inv
  unfold joinTail at hr
  dsimp only at hr
  simp only [getChan_eq] at hr
  split at hr
  · rename_i ch hch
    have cch := hI.getChan hch
    obtain ⟨c2, h2, hr⟩ := Res.bind_eq_ok.1 hr
    have n2 : CCtx c2 := by
      split at h2
      · exact hc.modS_keep h2 (fun _ => ⟨rfl, rfl, rfl, rfl, rfl, rfl, rfl⟩)
      · cases h2; exact hc
    split at hr
    · cases hr; exact n2
    · obtain ⟨c3, h3, hr⟩ := Res.bind_eq_ok.1 hr
      have n3 : CCtx c3 := CCtx.modS_keep (n2.putChan (cch.setNicks _)) h3
        (fun _ => ⟨rfl, rfl, rfl, rfl, rfl, rfl, rfl⟩)
      exact joinAnnounce_clean n3 hchn hmm hr
  · cases hr

theorem joinOne_clean {c c' : Ctx} {sid : Id} {chn key : String} (hc : CCtx c) (hchn : Clean chn)
    (hr : joinOne c sid chn key = .ok c') : CCtx c' := by
  have hI := hc.inv
  rw [joinOne_eq] at hr
  obtain ⟨s0, hs0, hr⟩ := Res.bind_eq_ok.1 hr
  have cs := hc.getS hs0
  split at hr
  · cases hr; cctx_tac
  · obtain ⟨r, hadm, hr⟩ := Res.bind_eq_ok.1 hr
    obtain ⟨c1, mm⟩ := r
    obtain ⟨n1, hmm⟩ := joinAdmit_clean hc cs hchn hadm
    cases mm with
    | none => cases hr; exact n1
    | some mm =>
      dsimp only at hr
      exact joinTail_clean n1 hchn (hmm mm rfl) hr

theorem joinLoop_clean {keys chans : List String} {idx : Nat} {c c' : Ctx} {sid : Id} (hc : CCtx c)
    (hch : ∀ x ∈ chans, Clean x) (hr : joinLoop c sid keys chans idx = .ok c') : CCtx c' := by
  induction chans generalizing c idx with
  | nil => cases hr; exact hc
  | cons ch rest ih =>
    unfold joinLoop at hr
    obtain ⟨c1, h1, hr⟩ := Res.bind_eq_ok.1 hr
    exact ih (joinOne_clean hc (hch ch (List.mem_cons_self ..)) h1)
      (fun x hx => hch x (List.mem_cons_of_mem _ hx)) hr

theorem cmdJoin_clean {c c' : Ctx} {sid : Id} {m : IrcMsg} (hc : CCtx c) (hm : CleanMsg m)
    (hr : cmdJoin c sid m = .ok c') : CCtx c' := by
  unfold cmdJoin at hr
  obtain ⟨p0, hp0, hr⟩ := Res.bind_eq_ok.1 hr
  exact joinLoop_clean hc (splitChar_clean ',' (hm.param hp0)) hr

end Robust.Irc
