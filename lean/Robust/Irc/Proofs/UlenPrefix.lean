import Robust.Irc.Proofs.UlenEntry
/-!
C15, clause "every delivered line starts with a prefix and a command": the prefix of a stored client
session is short and contains no space.

Under `NI` (nicknames valid: a letter or special character followed by at most 30 letters, digits,
specials or `-`, all ASCII), `PInv` (the stored prefix is the one derived from nick / user name / id, or
blank) and `UInv` (user name of at most 30 characters — at most 120 bytes —, no space), the rendered
prefix `nick!user@robust/0x<hex id>` of a stored session that is not a services link and whose id has
`reply = 0` and a numeric part below `2^64` (Raft indexes are `uint64`) has at most
`31 + 1 + 120 + 1 + (9 + 16) = 178` bytes (179 with the leading `:`) and contains no space.
-/
namespace Robust.Irc
open Robust AMap

/-! ## characters -/

theorem char_le_iff (a b : Char) : a ≤ b ↔ a.toNat ≤ b.toNat := by
  rw [Char.le_def, UInt32.le_iff_toNat_le]; rfl

/-- the character class of `validNickRe` (first or later position): ASCII, not a space -/
theorem nickChar_ok {c : Char}
    (h : ((((decide ('A' ≤ c ∧ c ≤ 'Z') || decide ('a' ≤ c ∧ c ≤ 'z')) || decide ('0' ≤ c ∧ c ≤ '9')) ||
      (decide (0x5B ≤ c.toNat ∧ c.toNat ≤ 0x60) || decide (0x7B ≤ c.toNat ∧ c.toNat ≤ 0x7D))) || c == '-') = true) :
    c.toNat < 128 ∧ c ≠ ' ' := by
  simp only [Bool.or_eq_true, decide_eq_true_eq, char_le_iff, beq_iff_eq] at h
  have e1 : 'A'.toNat = 65 := rfl
  have e2 : 'Z'.toNat = 90 := rfl
  have e3 : 'a'.toNat = 97 := rfl
  have e4 : 'z'.toNat = 122 := rfl
  have e5 : '0'.toNat = 48 := rfl
  have e6 : '9'.toNat = 57 := rfl
  rw [e1, e2, e3, e4, e5, e6] at h
  have hd : c = '-' → c.toNat = 45 := fun he => by rw [he]; rfl
  have hlt : c.toNat < 128 ∧ c.toNat ≠ 32 := by
    rcases h with ((h | h) | h) | h
    · omega
    · omega
    · omega
    · have := hd h; omega
  refine ⟨hlt.1, ?_⟩
  intro he
  have : c.toNat = 32 := by rw [he]; rfl
  exact hlt.2 this

/-- a valid nickname: at most 31 characters, all ASCII, no space -/
theorem validNick_bounds {x : String} (h : isValidNickname x = true) :
    x.toList.length ≤ 31 ∧ Ascii x ∧ Spaceless x := by
  unfold isValidNickname at h
  simp only [] at h
  unfold Ascii Spaceless
  cases hx : x.toList with
  | nil => rw [hx] at h; cases h
  | cons c rest =>
    rw [hx] at h
    simp only [Bool.and_eq_true, decide_eq_true_eq, List.all_eq_true] at h
    obtain ⟨⟨h1, h2⟩, h3⟩ := h
    have hc : c.toNat < 128 ∧ c ≠ ' ' := by
      apply nickChar_ok
      simp only [Bool.or_eq_true, decide_eq_true_eq] at h1 ⊢
      rcases h1 with h1 | h1
      · exact Or.inl (Or.inl (Or.inl h1))
      · exact Or.inl (Or.inr h1)
    have hr : ∀ d ∈ rest, d.toNat < 128 ∧ d ≠ ' ' := fun d hd => nickChar_ok (h3 d hd)
    refine ⟨by simp only [List.length_cons]; omega, ?_, ?_⟩
    · intro d hd
      rcases List.mem_cons.1 hd with rfl | hd
      · exact hc.1
      · exact (hr d hd).1
    · intro d hd
      rcases List.mem_cons.1 hd with rfl | hd
      · exact hc.2
      · exact (hr d hd).2

/-! ## `%x` -/

theorem hexDigitLower_ok : ∀ n, n < 16 → (hexDigitLower n).toNat < 128 ∧ hexDigitLower n ≠ ' ' := by decide

/-- digits of `hexNat`: ASCII, no space; at most `k` of them for a number below `16^k` -/
theorem hexNat_go_spec : ∀ (fuel n : Nat) (acc : List Char) (k : Nat), n < 16 ^ (k + 1) → k + 1 ≤ fuel →
    (∀ c ∈ acc, c.toNat < 128 ∧ c ≠ ' ') →
    (∀ c ∈ hexNat.go n acc fuel, c.toNat < 128 ∧ c ≠ ' ') ∧ (hexNat.go n acc fuel).length ≤ acc.length + (k + 1)
  | 0, _, _, _, _, hk, _ => by omega
  | fuel + 1, n, acc, k, hn, hk, h => by
    unfold hexNat.go
    split
    · rename_i hlt
      refine ⟨?_, by simp only [List.length_cons]; omega⟩
      intro c hc
      rcases List.mem_cons.1 hc with rfl | hc
      · exact hexDigitLower_ok n hlt
      · exact h c hc
    · rename_i hge
      have hacc : ∀ c ∈ hexDigitLower (n % 16) :: acc, c.toNat < 128 ∧ c ≠ ' ' := by
        intro c hc
        rcases List.mem_cons.1 hc with rfl | hc
        · exact hexDigitLower_ok _ (Nat.mod_lt _ (by decide))
        · exact h c hc
      cases k with
      | zero => simp only [Nat.zero_add, Nat.pow_one] at hn; omega
      | succ j =>
        have hdiv : n / 16 < 16 ^ (j + 1) := by
          apply Nat.div_lt_of_lt_mul
          rw [Nat.pow_succ, Nat.mul_comm] at hn
          exact hn
        obtain ⟨a, b⟩ := hexNat_go_spec fuel (n / 16) _ j hdiv (by omega) hacc
        refine ⟨a, ?_⟩
        simp only [List.length_cons] at b
        omega

/-- `fmt.Sprintf("%x", n)` of a `uint64` has at most 16 digits -/
theorem hexNat_length {n : Nat} (h : n < 2 ^ 64) : (hexNat n).toList.length ≤ 16 := by
  unfold hexNat
  rw [String.toList_ofList]
  have := (hexNat_go_spec 64 n [] 15 (by simpa using h) (by decide) (fun _ hc => absurd hc List.not_mem_nil)).2
  simpa using this

theorem hexNat_ascii (n : Nat) : Ascii (hexNat n) := by
  unfold hexNat Ascii
  rw [String.toList_ofList]
  intro c hc
  -- the character facts do not depend on the size of `n`: redo the induction without the bound
  have key : ∀ (fuel n : Nat) (acc : List Char), (∀ c ∈ acc, c.toNat < 128 ∧ c ≠ ' ') →
      ∀ c ∈ hexNat.go n acc fuel, c.toNat < 128 ∧ c ≠ ' ' := by
    intro fuel
    induction fuel with
    | zero => intro n acc h; unfold hexNat.go; exact h
    | succ fuel ih =>
      intro n acc h
      unfold hexNat.go
      split
      · rename_i hlt
        intro c hc
        rcases List.mem_cons.1 hc with rfl | hc
        · exact hexDigitLower_ok n hlt
        · exact h c hc
      · apply ih
        intro c hc
        rcases List.mem_cons.1 hc with rfl | hc
        · exact hexDigitLower_ok _ (Nat.mod_lt _ (by decide))
        · exact h c hc
  exact (key 64 n [] (fun _ hc => absurd hc List.not_mem_nil) c hc).1

theorem hexNat_spaceless (n : Nat) : Spaceless (hexNat n) := by
  intro c hc he
  unfold hexNat at hc
  rw [String.toList_ofList] at hc
  have key : ∀ (fuel n : Nat) (acc : List Char), (∀ c ∈ acc, c ≠ ' ') →
      ∀ c ∈ hexNat.go n acc fuel, c ≠ ' ' := by
    intro fuel
    induction fuel with
    | zero => intro n acc h; unfold hexNat.go; exact h
    | succ fuel ih =>
      intro n acc h
      unfold hexNat.go
      split
      · rename_i hlt
        intro c hc
        rcases List.mem_cons.1 hc with rfl | hc
        · exact (hexDigitLower_ok n hlt).2
        · exact h c hc
      · apply ih
        intro c hc
        rcases List.mem_cons.1 hc with rfl | hc
        · exact (hexDigitLower_ok _ (Nat.mod_lt _ (by decide))).2
        · exact h c hc
  exact key 64 n [] (fun _ hc => absurd hc List.not_mem_nil) c hc he

/-- `robust/0x<hex id>`: at most `9 + 16` bytes, no space -/
theorem robustHost_bounds {n : Nat} (h : n < 2 ^ 64) :
    ("robust/0x" ++ hexNat n).utf8ByteSize ≤ 25 ∧ Spaceless ("robust/0x" ++ hexNat n) := by
  refine ⟨?_, spaceless_append (by decide) (hexNat_spaceless n)⟩
  rw [utf8ByteSize_append, utf8ByteSize_ascii (hexNat_ascii n)]
  have := hexNat_length h
  have e : ("robust/0x" : String).utf8ByteSize = 9 := by decide
  omega

/-! ## `Prefix.str` -/

theorem spaceless_lit_bang : Spaceless "!" := by decide
theorem spaceless_lit_at : Spaceless "@" := by decide

/-- bytes and spaces of `name!user@host` from those of the parts -/
theorem prefix_str_bounds (p : Prefix) {a b d : Nat} (hn : p.name.utf8ByteSize ≤ a) (hu : p.user.utf8ByteSize ≤ b)
    (hh : p.host.utf8ByteSize ≤ d) (sn : Spaceless p.name) (su : Spaceless p.user) (sh : Spaceless p.host) :
    p.str.utf8ByteSize ≤ a + 1 + b + 1 + d ∧ Spaceless p.str := by
  unfold Prefix.str
  constructor
  · rw [utf8ByteSize_append, utf8ByteSize_append]
    have e0 : ("" : String).utf8ByteSize = 0 := by decide
    have e1 : ("!" : String).utf8ByteSize = 1 := by decide
    have e2 : ("@" : String).utf8ByteSize = 1 := by decide
    have h1 : (if p.user.isEmpty = true then "" else "!" ++ p.user).utf8ByteSize ≤ 1 + b := by
      split
      · rw [e0]; omega
      · rw [utf8ByteSize_append, e1]; omega
    have h2 : (if p.host.isEmpty = true then "" else "@" ++ p.host).utf8ByteSize ≤ 1 + d := by
      split
      · rw [e0]; omega
      · rw [utf8ByteSize_append, e2]; omega
    omega
  · refine spaceless_append (spaceless_append sn ?_) ?_
    · split
      · exact spaceless_empty
      · exact spaceless_append spaceless_lit_bang su
    · split
      · exact spaceless_empty
      · exact spaceless_append spaceless_lit_at sh

/-- the longest prefix of a client session, in bytes: `nick!user@robust/0x<hex id>` -/
def maxPrefixBytes : Nat := 31 + 1 + 120 + 1 + (9 + 16)

theorem maxPrefixBytes_eq : maxPrefixBytes = 178 := by decide

/-- the derived prefix of a session value -/
theorem sessPrefix_bounds {s : Session} (hnick : s.nick ≠ "" → isValidNickname s.nick = true) (hu : UOK s)
    (h0 : s.id.reply = 0) (hid : s.id.id < 2 ^ 64) :
    (sessPrefix s).str.utf8ByteSize ≤ maxPrefixBytes ∧ Spaceless (sessPrefix s).str := by
  have hn : s.nick.utf8ByteSize ≤ 31 ∧ Spaceless s.nick := by
    by_cases he : s.nick = ""
    · rw [he]; exact ⟨by decide, spaceless_empty⟩
    · obtain ⟨a, b, c⟩ := validNick_bounds (hnick he)
      rw [utf8ByteSize_ascii b]; exact ⟨a, c⟩
  have hub : s.username.utf8ByteSize ≤ 120 := by
    have := utf8ByteSize_le s.username
    have h30 : s.username.toList.length ≤ 30 := hu.1
    omega
  obtain ⟨hh, sh⟩ := robustHost_bounds hid
  exact prefix_str_bounds (sessPrefix s) (a := 31) (b := 120) (d := 25) hn.1 hub hh hn.2 (hu.2 h0) sh

/-- **prefix bound**: the prefix under which the lines of a stored session are relayed — for a session that
is not a services link, with `reply = 0` and a numeric id below `2^64` — has at most 178 bytes and contains
no space.  (`hsid`: sessions are stored under their own id, a conjunct of `Inv`.) -/
theorem prefix_bounded {st : St} (hn : NI st) (hp : PInv st) (hu : UInv st)
    (hsid : ∀ id s, AMap.get st.sessions id = some s → s.id = id)
    {sid : Id} {s : Session} (hs : AMap.get st.sessions sid = some s) (hsrv : s.server = false)
    (h0 : sid.reply = 0) (hid : sid.id < 2 ^ 64) :
    s.ircPrefix.str.utf8ByteSize ≤ maxPrefixBytes ∧ Spaceless s.ircPrefix.str := by
  have e := hsid sid s hs
  rcases hp sid s hs hsrv with h | ⟨_, _, h⟩
  · rw [h]
    exact sessPrefix_bounds (hn.sess sid s hs).2 (hu sid s hs) (by rw [e]; exact h0) (by rw [e]; exact hid)
  · rw [h]
    exact ⟨by decide, by decide⟩

end Robust.Irc
