import Robust.Irc.SCmds
import Robust.Irc.Proofs.Clean
/-!
C15, string level: every string operation the handlers use to build an output line or a stored
string keeps `Clean` (no CR / LF / NUL): concatenation, number rendering (`%d`, `%x`), mode strings,
trimming, taking / dropping characters, `strings.Replace`, `extractPassword`, sorting, the mode
parser (`normalizeModes`, `ircParams`), and the accessors of a clean message.
-/
namespace Robust.Irc
open Robust

/-! ## generic -/

theorem clean_append_iff {a b : String} : Clean (a ++ b) ↔ Clean a ∧ Clean b := by
  unfold Clean
  rw [String.toList_append]
  constructor
  · intro h
    exact ⟨fun c hc => h c (List.mem_append.2 (Or.inl hc)), fun c hc => h c (List.mem_append.2 (Or.inr hc))⟩
  · rintro ⟨ha, hb⟩ c hc
    rcases List.mem_append.1 hc with hc | hc
    · exact ha c hc
    · exact hb c hc

theorem clean_singleton {c : Char} (h : cleanChar c = true) : Clean (String.singleton c) := by
  intro d hd
  rw [String.toList_singleton, List.mem_singleton] at hd
  subst hd; exact h

theorem clean_char_of_mem {s : String} (h : Clean s) {c : Char} (hc : c ∈ s.toList) : cleanChar c = true :=
  h c hc

theorem foldl_inv {α β : Type} (P : β → Prop) (f : β → α → β) :
    ∀ (l : List α) (b : β), P b → (∀ b a, a ∈ l → P b → P (f b a)) → P (l.foldl f b)
  | [], _, hb, _ => hb
  | a :: t, b, hb, hf => by
    rw [List.foldl_cons]
    exact foldl_inv P f t (f b a) (hf b a (List.mem_cons_self ..) hb)
      (fun b x hx => hf b x (List.mem_cons_of_mem _ hx))

/-! ## numbers -/

theorem cleanChar_of_isDigit {c : Char} (h : c.isDigit = true) : cleanChar c = true := by
  unfold Char.isDigit at h
  simp only [Bool.and_eq_true, decide_eq_true_eq, ge_iff_le] at h
  have h1 : 48 ≤ c.toNat := UInt32.le_iff_toNat_le.mp h.1
  rw [cleanChar_iff]
  omega

theorem clean_natRepr (n : Nat) : Clean (Nat.repr n) := by
  unfold Nat.repr
  apply clean_ofList
  intro c hc
  exact cleanChar_of_isDigit (Nat.isDigit_of_mem_toDigits (by decide) (by decide) hc)

theorem clean_toString_nat (n : Nat) : Clean (toString n) := clean_natRepr n

theorem clean_toString_int (i : Int) : Clean (toString i) := by
  show Clean (Int.repr i)
  unfold Int.repr
  cases i with
  | ofNat m => exact clean_natRepr m
  | negSucc m => exact clean_append_iff.2 ⟨by decide, clean_natRepr _⟩

theorem hexDigitLower_clean : ∀ n, n < 16 → cleanChar (hexDigitLower n) = true := by decide

theorem hexNat_go_clean : ∀ (fuel n : Nat) (acc : List Char), CleanL acc → CleanL (hexNat.go n acc fuel)
  | 0, _, _, h => by unfold hexNat.go; exact h
  | fuel + 1, n, acc, h => by
    unfold hexNat.go
    split
    · rename_i hlt
      intro c hc
      rcases List.mem_cons.1 hc with rfl | hc
      · exact hexDigitLower_clean n hlt
      · exact h c hc
    · apply hexNat_go_clean fuel
      intro c hc
      rcases List.mem_cons.1 hc with rfl | hc
      · exact hexDigitLower_clean _ (Nat.mod_lt _ (by decide))
      · exact h c hc

theorem clean_hexNat (n : Nat) : Clean (hexNat n) := by
  unfold hexNat
  exact clean_ofList (hexNat_go_clean 64 n [] CleanL.nil)

/-! ## mode strings -/

theorem charRange_clean : ∀ c ∈ charRange 65 122, cleanChar c = true := by decide

theorem clean_modeStr (ms : List Char) : Clean (modeStr ms) := by
  unfold modeStr
  refine clean_append_iff.2 ⟨by decide, clean_ofList ?_⟩
  intro c hc
  exact charRange_clean c (List.mem_filter.1 hc).1

/-! ## trimming, taking, dropping, case -/

theorem clean_trimSpace {s : String} (h : Clean s) : Clean (trimSpace s) := by
  unfold trimSpace
  exact clean_ofList (((clean_toList h).dropWhile _).reverse.dropWhile _).reverse

theorem clean_takeChars {s : String} (h : Clean s) (n : Nat) : Clean (takeChars s n) :=
  clean_ofList ((clean_toList h).take n)

theorem clean_firstWord {s : String} (h : Clean s) : Clean (firstWord s) := by
  unfold firstWord
  exact clean_ofList ((clean_toList h).sub fun _ hc => (List.takeWhile_sublist _).subset hc)

theorem clean_dropChars {s : String} (h : Clean s) (n : Nat) : Clean (dropChars s n) :=
  clean_ofList ((clean_toList h).drop n)

theorem clean_chanToLower {s : String} (h : Clean s) : Clean (chanToLower s) := clean_toLower h

theorem clean_nickToLower {s : String} (h : Clean s) : Clean (nickToLower s) := by
  unfold nickToLower
  apply clean_ofList
  intro c hc
  obtain ⟨d, hd, rfl⟩ := List.mem_map.mp hc
  have hd' := clean_toLower h d hd
  split
  · decide
  · split
    · decide
    · split
      · decide
      · exact hd'

/-! ## `strings.Replace` -/

theorem replaceAll_go_clean (nw : String) (o : List Char) (hn : Clean nw) :
    ∀ (fuel : Nat) (cs acc : List Char), CleanL cs → CleanL acc → CleanL (replaceAll.go nw o cs acc fuel)
  | 0, cs, acc, hcs, hacc => by
    unfold replaceAll.go
    intro c hc
    rcases List.mem_append.1 hc with hc | hc
    · exact hacc c (List.mem_reverse.1 hc)
    · exact hcs c hc
  | fuel + 1, cs, acc, hcs, hacc => by
    unfold replaceAll.go
    split
    · apply replaceAll_go_clean nw o hn fuel _ _ (hcs.drop _)
      intro c hc
      rcases List.mem_append.1 hc with hc | hc
      · exact hn c (List.mem_reverse.1 hc)
      · exact hacc c hc
    · split
      · exact hacc.reverse
      · rename_i c rest
        apply replaceAll_go_clean nw o hn fuel _ _ (hcs.sub fun _ h => List.mem_cons_of_mem _ h)
        intro d hd
        rcases List.mem_cons.1 hd with rfl | hd
        · exact hcs _ (List.mem_cons_self ..)
        · exact hacc d hd

theorem clean_replaceAll {s old nw : String} (hs : Clean s) (hn : Clean nw) : Clean (replaceAll s old nw) := by
  unfold replaceAll
  exact clean_ofList (replaceAll_go_clean nw old.toList hn _ _ _ hs CleanL.nil)

/-! ## `extractPassword` -/

theorem clean_extractPassword {password : String} (pfx : String) (h : Clean password) :
    Clean (extractPassword password pfx) := by
  unfold extractPassword
  refine foldl_inv (fun s => Clean s) _ _ _ clean_empty ?_
  intro ex part hpart hex
  have hp : Clean part := splitChar_clean ':' h part hpart
  dsimp only
  have h1 : Clean (if hasPrefix (toLower part) (pfx ++ "=") = true then dropChars part (pfx.length + 1) else ex) := by
    split
    · exact clean_dropChars hp _
    · exact hex
  generalize (if hasPrefix (toLower part) (pfx ++ "=") = true then dropChars part (pfx.length + 1) else ex) = e1 at h1 ⊢
  split
  · rw [clean_append_iff, clean_append_iff]
    exact ⟨⟨h1, clean_lit_colon⟩, hp⟩
  · exact h1

/-! ## sorting and de-duplication -/

theorem mergeSort_all {α : Type} {P : α → Prop} {le : α → α → Bool} {l : List α} (h : ∀ x ∈ l, P x) :
    ∀ x ∈ l.mergeSort le, P x := fun x hx => h x (List.mem_mergeSort.1 hx)

theorem dedupSorted_mem {l : List String} {x : String} (hx : x ∈ dedupSorted l) : x ∈ l := by
  unfold dedupSorted at hx
  rw [List.mem_mergeSort] at hx
  revert x
  refine @foldl_inv _ _ (fun acc : List String => ∀ x, x ∈ acc → x ∈ l) _ l [] (fun _ h => by cases h) ?_
  intro acc a ha hacc x hx
  split at hx
  · exact hacc x hx
  · rcases List.mem_append.1 hx with hx | hx
    · exact hacc x hx
    · rw [List.mem_singleton] at hx; subst hx; exact ha

/-! ## a clean message's parts -/

theorem CleanMsg.command {m : IrcMsg} (h : CleanMsg m) : Clean m.command := h.2.1
theorem CleanMsg.params {m : IrcMsg} (h : CleanMsg m) : ∀ p ∈ m.params, Clean p := h.2.2

theorem CleanMsg.trailing {m : IrcMsg} (h : CleanMsg m) : Clean m.trailing := by
  unfold IrcMsg.trailing
  cases hl : m.params.getLast? with
  | none => exact clean_empty
  | some t => exact h.2.2 t (List.mem_of_getLast? hl)

theorem CleanMsg.param {m : IrcMsg} (h : CleanMsg m) {i : Nat} {p : String} (hp : param m i = .ok p) : Clean p := by
  unfold Robust.Irc.param at hp
  split at hp
  · rename_i q hq
    cases hp
    exact h.2.2 _ (List.mem_of_getElem? hq)
  · cases hp

theorem CleanMsg.getD {m : IrcMsg} (h : CleanMsg m) (i : Nat) : Clean ((m.params[i]?).getD "") := by
  cases hq : m.params[i]? with
  | none => exact clean_empty
  | some q => exact h.2.2 _ (List.mem_of_getElem? hq)

theorem CleanMsg.head {m : IrcMsg} (h : CleanMsg m) {p : String} (hp : m.params.head? = some p) : Clean p :=
  h.2.2 p (List.mem_of_mem_head? (by rw [hp]; exact rfl))

theorem CleanMsg.headD {m : IrcMsg} (h : CleanMsg m) : Clean (m.params.head?.getD "") := by
  cases hq : m.params.head? with
  | none => exact clean_empty
  | some q => exact h.head hq

theorem CleanMsg.joinParams {m : IrcMsg} (h : CleanMsg m) : Clean (joinStr " " m.params) :=
  clean_joinStr clean_lit_space h.2.2

theorem CleanMsg.joinDrop {m : IrcMsg} (h : CleanMsg m) (n : Nat) : Clean (joinStr " " (m.params.drop n)) :=
  clean_joinStr clean_lit_space fun x hx => h.2.2 x (List.mem_of_mem_drop hx)

theorem CleanMsg.pfxName {m : IrcMsg} (h : CleanMsg m) {n : String} (hn : pfxName m = .ok n) : Clean n := by
  unfold Robust.Irc.pfxName at hn
  split at hn
  · rename_i p hp
    cases hn
    exact (h.1 p hp).1
  · cases hn

theorem CleanMsg.pfx {m : IrcMsg} (h : CleanMsg m) {p : Prefix} (hp : m.pfx = some p) :
    Clean p.name ∧ Clean p.user ∧ Clean p.host := h.1 p hp

theorem CleanMsg.upperCommand {m : IrcMsg} (h : CleanMsg m) : Clean (toUpper m.command) := clean_toUpper h.2.1

/-- the message forms -/
theorem cleanMsg_none {cmd : String} {ps : List String} :
    CleanMsg ⟨none, cmd, ps⟩ ↔ Clean cmd ∧ ∀ p ∈ ps, Clean p :=
  ⟨fun h => h.2, fun h => ⟨(fun _ hp => nomatch hp), h⟩⟩

theorem cleanMsg_some {p : Prefix} {cmd : String} {ps : List String} :
    CleanMsg ⟨some p, cmd, ps⟩ ↔ (Clean p.name ∧ Clean p.user ∧ Clean p.host) ∧ Clean cmd ∧ ∀ p ∈ ps, Clean p :=
  ⟨fun h => ⟨h.1 p rfl, h.2⟩, fun h => ⟨fun q hq => by
    cases hq
    exact h.1, h.2⟩⟩

theorem cleanMsg_pfx {op : Option Prefix} {cmd : String} {ps : List String} :
    CleanMsg ⟨op, cmd, ps⟩ ↔
      (∀ p, op = some p → Clean p.name ∧ Clean p.user ∧ Clean p.host) ∧ Clean cmd ∧ ∀ p ∈ ps, Clean p :=
  Iff.rfl

theorem cleanMsg_srv {c : Ctx} {cmd : String} {ps : List String} :
    CleanMsg (srv c cmd ps) ↔ Clean c.st.serverName ∧ Clean cmd ∧ ∀ p ∈ ps, Clean p := by
  unfold srv serverPrefix
  rw [cleanMsg_some]
  exact ⟨fun h => ⟨h.1.1, h.2⟩, fun h => ⟨⟨h.1, clean_empty, clean_empty⟩, h.2⟩⟩

theorem servicesPrefix_clean {m : IrcMsg} (h : CleanMsg m) {sp : Prefix} (hs : servicesPrefix m = .ok sp) :
    Clean sp.name ∧ Clean sp.user ∧ Clean sp.host := by
  unfold servicesPrefix at hs
  cases hn : Robust.Irc.pfxName m with
  | ok n =>
    rw [hn] at hs
    cases hs
    exact ⟨h.pfxName hn, (by decide : Clean "services"), (by decide : Clean "services")⟩
  | panic s => rw [hn] at hs; cases hs
  | declined s => rw [hn] at hs; cases hs

/-! ## the mode parser -/

/-- mode commands whose mode string and parameter are clean -/
def CleanModes (l : List ModeCmd) : Prop := ∀ mc ∈ l, Clean mc.mode ∧ Clean mc.param

theorem normalizeModes_clean {m : IrcMsg} (h : CleanMsg m) : CleanModes (normalizeModes m) := by
  unfold normalizeModes
  split
  · intro mc hmc; cases hmc
  · dsimp only
    have hms : Clean ((m.params[1]?).getD "") := h.getD 1
    refine foldl_inv (fun acc : Bool × Nat × List ModeCmd => CleanModes acc.2.2) _ _ _ (fun _ hmc => by cases hmc) ?_
    intro acc ch hch hacc
    obtain ⟨adding, modearg, results⟩ := acc
    dsimp only
    split
    · exact hacc
    · dsimp only
      intro mc hmc
      rcases List.mem_append.1 hmc with hmc | hmc
      · exact hacc mc hmc
      · rw [List.mem_singleton] at hmc
        subst hmc
        dsimp only
        refine ⟨clean_append_iff.2 ⟨by split <;> decide, clean_singleton (hms ch hch)⟩, ?_⟩
        split
        · exact h.getD _
        · exact clean_empty

theorem modeByteChar_clean {mc : ModeCmd} (h : Clean mc.mode) : cleanChar (modeByteChar mc) = true := by
  unfold modeByteChar
  split
  · rename_i b hb
    have hcb : CleanBytes (utf8 (String.ofList (mc.mode.toList.drop 1))) :=
      utf8_clean _ (clean_ofList ((clean_toList h).drop 1))
    obtain ⟨h13, h10, h0⟩ := hcb b (List.mem_of_mem_head? (by rw [hb]; exact rfl))
    have hlt : b.toNat < 256 := UInt8.toNat_lt b
    rw [cleanChar_iff, toNat_ofNat_valid _ (Or.inl (by omega))]
    exact ⟨fun e => h13 (UInt8.toNat_inj.1 e), fun e => h10 (UInt8.toNat_inj.1 e), fun e => h0 (UInt8.toNat_inj.1 e)⟩
  · decide

theorem clean_modeChars {l : List ModeCmd} (h : CleanModes l) : Clean (String.ofList (l.map modeByteChar)) := by
  apply clean_ofList
  intro c hc
  obtain ⟨mc, hmc, rfl⟩ := List.mem_map.1 hc
  exact modeByteChar_clean (h mc hmc).1

theorem CleanModes.filter {l : List ModeCmd} (h : CleanModes l) (p : ModeCmd → Bool) : CleanModes (l.filter p) :=
  fun mc hmc => h mc (List.mem_filter.1 hmc).1

theorem ircParams_clean {l : List ModeCmd} (h : CleanModes l) : ∀ p ∈ ircParams l, Clean p := by
  unfold ircParams
  dsimp only
  intro p hp
  rcases List.mem_cons.1 hp with rfl | hp
  · refine clean_append_iff.2 ⟨?_, ?_⟩
    · split
      · exact clean_append_iff.2 ⟨by decide, clean_modeChars (h.filter _)⟩
      · exact clean_empty
    · split
      · exact clean_append_iff.2 ⟨by decide, clean_modeChars (h.filter _)⟩
      · exact clean_empty
  · rcases List.mem_append.1 hp with hp | hp
    · obtain ⟨mc, hmc, rfl⟩ := List.mem_map.1 hp
      exact (h mc (List.mem_filter.1 (List.mem_filter.1 hmc).1).1).2
    · obtain ⟨mc, hmc, rfl⟩ := List.mem_map.1 hp
      exact (h mc (List.mem_filter.1 (List.mem_filter.1 hmc).1).1).2

theorem ircParams_head_clean {l : List ModeCmd} (h : CleanModes l) : Clean ((ircParams l).head?.getD "") := by
  cases hq : (ircParams l).head? with
  | none => exact clean_empty
  | some q => exact ircParams_clean h q (List.mem_of_mem_head? (by rw [hq]; exact rfl))

end Robust.Irc
